(* C11 evaluators: the command log a concurrent run produced at the BESS server (arrival order), its
   projection on the associations, and the tables found at quiescence.
   [agrees]: (1) the model's table semantics applied to the log gives the tables the server holds;
   (2) the hypotheses of C11_interleaving_serializable hold of the run (the projections are pairwise
   key-disjoint and the log is an interleaving of them); (3) the serial order gives the same tables. *)
From Coq Require Import NArith List Bool.
From UPF Require Import Model.Agent Model.Locks.
Import ListNotations.
Local Open Scope N_scope.

Record case := Case { k_threads : list (list cmd); k_sched : list cmd; k_final : list (N * list N * list N) }.

Definition mod_of (n : N) : module := match n with 0 => MPdr | 1 => MFar | 2 => MAppQer | _ => MSessQer end.
Definition C (m : N) (add : bool) (k v : list N) : cmd := Cmd (mod_of m) add k v.

Definition row_ok (t : tables) (r : N * list N * list N) : bool :=
  let '(m, k, v) := r in
  match t_get k (tab_of (mod_of m) t) with Some v' => key_eqb v v' | None => false end.
Definition size_ok (t : tables) (rows : list (N * list N * list N)) : bool :=
  forallb (fun m => Nat.eqb (length (tab_of (mod_of m) t)) (length (filter (fun r => fst (fst r) =? m) rows))) [0; 1; 2; 3].
Definition tables_match (t : tables) (rows : list (N * list N * list N)) : bool := forallb (row_ok t) rows && size_ok t rows.

Definition checks (c : case) : list bool :=
  [ tables_match (apply_cmds (k_sched c) no_tables) (k_final c);
    pairwise_disjointb (k_threads c);
    is_merge (k_threads c) (k_sched c);
    tables_match (apply_cmds (concat (k_threads c)) no_tables) (k_final c) ].
Definition agrees (c : case) : bool := forallb (fun b => b) (checks c).

Fixpoint mism (i : N) (cs : list case) : list N :=
  match cs with [] => [] | c :: r => if agrees c then mism (i + 1) r else i :: mism (i + 1) r end.
Definition mismatches (cs : list case) : list N := mism 0 cs.
