From Coq Require Import NArith List Bool.
From UPF Require Import Model.IPPool.
Import ListNotations.
Open Scope N_scope.

(* observation of one history: per-op result (Some ip | None = error), the final free list in
   order, the final inventory (any order) *)
Record case := Case { c_base : N; c_len : N; c_new_ok : bool; c_ops : list op;
                      c_res : list (option N); c_free : list N; c_inv : list (N * N) }.

Definition res_eqb (r : result) (o : option N) : bool :=
  match r, o with
  | RIp a, Some b => a =? b
  | ROk, Some b => b =? 0      (* DeallocIP success is reported as 0 *)
  | RErr, None => true
  | _, _ => false
  end.
Fixpoint all2 {A B} (f : A -> B -> bool) (x : list A) (y : list B) : bool :=
  match x, y with
  | [], [] => true
  | a :: x', b :: y' => f a b && all2 f x' y'
  | _, _ => false
  end.

Definition agrees (c : case) : bool :=
  match new_pool (c_base c) (c_len c) with
  | None => negb (c_new_ok c)
  | Some p0 =>
    c_new_ok c &&
    let '(p, rs) := run p0 (c_ops c) in
    all2 res_eqb rs (c_res c) && all2 N.eqb (free p) (c_free c) &&
    Nat.eqb (length (inv p)) (length (c_inv c)) &&
    forallb (fun kv => match lookup (fst kv) (inv p) with Some v => v =? snd kv | None => false end) (c_inv c)
  end.

Fixpoint mismatches_from (i : N) (cs : list case) : list N :=
  match cs with
  | [] => []
  | c :: r => if agrees c then mismatches_from (i + 1) r else i :: mismatches_from (i + 1) r
  end.
Definition mismatches := mismatches_from 0.
