(* C15 - correspondence evaluator: the model of Model/Up4Ids.v is run on the operations the real agent
   performed, fed with the Pop() choices and the Write answers the implementation exhibited; after EVERY
   operation the model's cause, its Write trace (which Write, how answered) and its whole bookkeeping must
   equal what the harness read from the UP4 struct and the session store. *)
From Coq Require Import NArith List Bool.
From UPF Require Import Model.Up4Ids.
Import ListNotations.
Open Scope N_scope.

(* what the harness observed after one operation *)
Record iobs := IObs {
  x_acc : bool;                                   (* PFCP cause = accepted *)
  x_log : list (site * wres);                     (* Write RPCs of the operation, classified *)
  x_ctr : list N; x_app : list N; x_sess : list N;    (* set pools, any order *)
  x_peer : list N; x_appid : list N;              (* queues, in order *)
  x_meters : list ((N * N) * meter);
  x_peers : list (N * (N * list (N * N)));
  x_apps : list (N * (N * list (N * N)));
  x_ctrs : list (N * list (N * N));               (* live sessions: F-SEID -> (PDR id, ctrID) in stored order *)
  x_ue : list N }.

Record case := Case { c_cfg : cfg; c_evs : list ev; c_obs : list iobs }.

Definition wres_eqb (a b : wres) : bool :=
  match a, b with WOk, WOk | WFail, WFail | WExists, WExists | WUnk, WUnk => true | _, _ => false end.
Definition method_eqb (a b : method) : bool :=
  match a, b with MIns, MIns | MMod, MMod | MDel, MDel => true | _, _ => false end.
Definition site_eqb (a b : site) : bool :=
  match a, b with
  | SCtrReset, SCtrReset | SMeterApp, SMeterApp | SMeterSess, SMeterSess | SPeer, SPeer
  | SMeterReset, SMeterReset | SPeerDel, SPeerDel => true
  | SPdr m, SPdr m' => method_eqb m m'
  | _, _ => false
  end.
Fixpoint all2 {A B} (f : A -> B -> bool) (x : list A) (y : list B) : bool :=
  match x, y with
  | [], [] => true
  | a :: x', b :: y' => f a b && all2 f x' y'
  | _, _ => false
  end.
Definition same_set (a b : list N) : bool :=
  Nat.eqb (length a) (length b) && forallb (fun x => mem x b) a && forallb (fun x => mem x a) b.
Definition same_pset (a b : list (N * N)) : bool :=
  Nat.eqb (length a) (length b) && forallb (fun x => pmem x b) a && forallb (fun x => pmem x a) b.
Definition meter_eqb (a b : meter) : bool :=
  mtype_eqb (m_type a) (m_type b) && (m_ul a =? m_ul b) && (m_dl a =? m_dl b).
Definition same_map {K V W} (keq : K -> K -> bool) (veq : V -> W -> bool) (a : list (K * V)) (b : list (K * W)) : bool :=
  Nat.eqb (length a) (length b) &&
  forallb (fun e => match alookup keq (fst e) b with Some v => veq (snd e) v | None => false end) a.
Definition ref_eqb (a b : N * list (N * N)) : bool := (fst a =? fst b) && same_pset (snd a) (snd b).
Definition ctrs_of (r : rules) : list (N * N) := map (fun p => (p_id p, p_ctr p)) (r_pdrs r).
Definition ctrs_eqb (r : rules) (x : list (N * N)) : bool := all2 pair_eqb (ctrs_of r) x.

Definition state_agrees (s : state) (x : iobs) : bool :=
  let u := s_u s in
  same_set (ctr_pool u) (x_ctr x) && same_set (app_pool u) (x_app x) && same_set (sess_pool u) (x_sess x) &&
  all2 N.eqb (peer_pool u) (x_peer x) && all2 N.eqb (appid_pool u) (x_appid x) &&
  same_map pair_eqb meter_eqb (x_meters x) (meters u) &&
  same_map N.eqb ref_eqb (x_peers x) (peers u) &&
  same_map N.eqb ref_eqb (x_apps x) (apps u) &&
  same_map N.eqb (fun (c : list (N * N)) (r : rules) => ctrs_eqb r c) (x_ctrs x) (s_store s) &&
  same_set (ue_known u) (x_ue x).

Definition obs_agrees (o : obs) (x : iobs) : bool :=
  Bool.eqb (o_acc o) (x_acc x) && negb (o_bad o) &&
  all2 (fun a b => site_eqb (fst a) (fst b) && wres_eqb (snd a) (snd b)) (o_log o) (x_log x).

(* number of leading operations on which model and implementation agree; = length evs iff all agree *)
Fixpoint agree_prefix (s : state) (evs : list ev) (xs : list iobs) : nat :=
  match evs, xs with
  | (o, (pops, faults)) :: r, x :: xr =>
    let '(s', ob) := step s o pops faults in
    if obs_agrees ob x && state_agrees s' x then S (agree_prefix s' r xr) else O
  | _, _ => O
  end.

Definition agrees (c : case) : bool :=
  Nat.eqb (length (c_evs c)) (length (c_obs c)) &&
  Nat.eqb (agree_prefix (init (c_cfg c)) (c_evs c) (c_obs c)) (length (c_evs c)).

Fixpoint mismatches_from (i : N) (cs : list case) : list N :=
  match cs with
  | [] => []
  | c :: r => if agrees c then mismatches_from (i + 1) r else i :: mismatches_from (i + 1) r
  end.
Definition mismatches := mismatches_from 0.

(* diagnosis: index of the first disagreeing operation of a case *)
Definition first_disagreement (c : case) : nat := agree_prefix (init (c_cfg c)) (c_evs c) (c_obs c).
