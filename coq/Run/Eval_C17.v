(* Correspondence evaluator for C17: model output vs. what the implementation returned. *)
From Coq Require Import NArith List Bool.
From UPF Require Import Model.PortRange.
Import ListNotations.
Open Scope N_scope.

Inductive case :=
| CComplex (s : strategy) (l h : N) (obs : option (list (N * N)))
| CCart (sl sh dl dh : N) (obs : option (list (N * N * N * N))).

Definition eqb2 (a b : N * N) : bool := (fst a =? fst b) && (snd a =? snd b).
Definition eqb4 (a b : N * N * N * N) : bool :=
  match a, b with (a1, a2, a3, a4), (b1, b2, b3, b4) => (a1 =? b1) && (a2 =? b2) && (a3 =? b3) && (a4 =? b4) end.
Fixpoint list_eqb {A} (e : A -> A -> bool) (x y : list A) : bool :=
  match x, y with
  | [], [] => true
  | a :: x', b :: y' => e a b && list_eqb e x' y'
  | _, _ => false
  end.

Definition agrees (c : case) : bool :=
  match c with
  | CComplex s l h obs =>
    match as_complex s (PR l h), obs with
    | Ok rs, Some o => list_eqb eqb2 (map (fun t => (t_port t, t_mask t)) rs) o
    | Err, None => true
    | _, _ => false
    end
  | CCart sl sh dl dh obs =>
    match cartesian (PR sl sh) (PR dl dh), obs with
    | Ok rs, Some o => list_eqb eqb4 (map (fun p => (sp p, sm p, dp p, dm p)) rs) o
    | Err, None => true
    | _, _ => false
    end
  end.

Fixpoint mismatches_from (i : N) (cs : list case) : list N :=
  match cs with
  | [] => []
  | c :: r => if agrees c then mismatches_from (i + 1) r else i :: mismatches_from (i + 1) r
  end.
Definition mismatches := mismatches_from 0.
