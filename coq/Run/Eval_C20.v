(* Correspondence evaluator for C20: the model's state after n events of a history vs. what the
   harness read off the real RouteController and the recording BESS after the same n events. *)
From Coq Require Import NArith ZArith List Bool.
From UPF Require Import Model.RouteCtl.
Import ListNotations.
Open Scope N_scope.

#[global] Instance Eqb_Z : Eqb Z := Z.eqb.

(* one observation: all maps as key/value lists with unique keys, in any order *)
Record obs := Obs {
  o_lpm   : list ((N * N) * N);                         (* (iface, prefix) -> gate *)
  o_upd   : list (modname * N);                         (* run-time modules -> MAC value *)
  o_links : list ((modname * N) * (modname * N));
  o_nc    : list (N * (N * N * Z));                     (* next hop -> gate, mac, count *)
  o_un    : list (N * list (N * N * N));                (* next hop -> waiting routes (prefix, next hop, iface), arrival order *)
  o_gc    : list (N * N);                               (* iface -> gate counter (0 when absent) *)
  o_pings : list N }.                                   (* all pings so far *)

Record case := Case { c_ifs : list N; c_ev : list event; c_chk : list (N * obs) }.   (* (events consumed, obs), ascending *)

Fixpoint list_eqb {A} `{Eqb A} (x y : list A) : bool :=
  match x, y with
  | [], [] => true
  | a :: x', b :: y' => eqb a b && list_eqb x' y'
  | _, _ => false
  end.
#[global] Instance Eqb_list {A} `{Eqb A} : Eqb (list A) := list_eqb.

Definition same_map {K V} `{Eqb K} `{Eqb V} (a b : list (K * V)) : bool :=
  Nat.eqb (length a) (length b) &&
  forallb (fun kv => match lookup (fst kv) b with Some v => eqb v (snd kv) | None => false end) a.


Definition same (s : st) (o : obs) : bool :=
  same_map (lpm (bs s)) (o_lpm o) &&
  same_map (upd (bs s)) (o_upd o) &&
  same_map (links (bs s)) (o_links o) &&
  same_map (map (fun kv => (fst kv, (n_gate (snd kv), n_mac (snd kv), n_count (snd kv)))) (ncache s)) (o_nc o) &&
  same_map (map (fun kv => (fst kv, map (fun r => (r_pfx r, r_nh r, r_if r)) (snd kv))) (unres s)) (o_un o) &&
  forallb (fun kv => getd (fst kv) (gatecnt s) =? snd kv) (o_gc o) &&
  forallb (fun kv => existsb (N.eqb (fst kv)) (map fst (o_gc o))) (gatecnt s) &&
  list_eqb (pings s) (o_pings o).

Fixpoint walk (s : st) (n : N) (evs : list event) (chks : list (N * obs)) : bool :=
  let '(ok, chks') := match chks with
                      | (m, o) :: r => if m =? n then (same s o, r) else (true, chks)
                      | [] => (true, [])
                      end in
  ok && match evs with
        | [] => match chks' with [] => true | _ => false end
        | e :: t => walk (step s e) (n + 1) t chks'
        end.

Definition agrees (c : case) : bool := walk (init (c_ifs c)) 0 (c_ev c) (c_chk c).

Fixpoint mismatches_from (i : N) (cs : list case) : list N :=
  match cs with
  | [] => []
  | c :: r => if agrees c then mismatches_from (i + 1) r else i :: mismatches_from (i + 1) r
  end.
Definition mismatches := mismatches_from 0.
