(* C09 - model vs implementation on recorded cases (evaluated by vm_compute per shard). *)
From Coq Require Import NArith List Bool.
From UPF Require Import Model.Qer.
Import ListNotations.
Open Scope N_scope.

Fixpoint list_eqb {A} (f : A -> A -> bool) (x y : list A) : bool :=
  match x, y with
  | [], [] => true
  | a :: x', b :: y' => f a b && list_eqb f x' y'
  | _, _ => false
  end.
Fixpoint all2 {A B} (f : A -> B -> bool) (x : list A) (y : list B) : bool :=
  match x, y with
  | [], [] => true
  | a :: x', b :: y' => f a b && all2 f x' y'
  | _, _ => false
  end.
(* multiset equality: goroutines of different QERs interleave, a batch is compared up to order *)
Fixpoint remove_one {A} (f : A -> A -> bool) (a : A) (l : list A) : option (list A) :=
  match l with
  | [] => None
  | h :: t => if f a h then Some t else match remove_one f a t with Some t' => Some (h :: t') | None => None end
  end.
Fixpoint perm_eqb {A} (f : A -> A -> bool) (x y : list A) : bool :=
  match x with
  | [] => match y with [] => true | _ => false end
  | a :: x' => match remove_one f a y with Some y' => perm_eqb f x' y' | None => false end
  end.

Definition qer_eqb (a b : qer) : bool :=
  (q_id a =? q_id b) && (q_level a =? q_level b) && (q_qfi a =? q_qfi b) && (q_uls a =? q_uls b) &&
  (q_dls a =? q_dls b) && (q_ulmbr a =? q_ulmbr b) && (q_dlmbr a =? q_dlmbr b) &&
  (q_ulgbr a =? q_ulgbr b) && (q_dlgbr a =? q_dlgbr b) && (q_fseid a =? q_fseid b).
Definition tbl_eqb (a b : qtable) : bool :=
  match a, b with AppTbl, AppTbl => true | SessTbl, SessTbl => true | _, _ => false end.
Definition cmd_eqb (a b : qoscmd) : bool :=
  tbl_eqb (k_tbl a) (k_tbl b) && Bool.eqb (k_add a) (k_add b) && (k_gate a =? k_gate b) &&
  (k_cir a =? k_cir b) && (k_pir a =? k_pir b) && (k_cbs a =? k_cbs b) && (k_pbs a =? k_pbs b) &&
  (k_ebs a =? k_ebs b) && list_eqb N.eqb (k_fields a) (k_fields b) && list_eqb N.eqb (k_values a) (k_values b).
Definition pdr_eqb (a b : pdr) : bool := (p_id a =? p_id b) && list_eqb N.eqb (p_qers a) (p_qers b).
Definition meter_eqb (a b : meter_cfg) : bool :=
  (m_cir a =? m_cir b) && (m_cburst a =? m_cburst b) && (m_pir a =? m_pir b) && (m_pburst a =? m_pburst b).
Definition opt_eqb {A} (f : A -> A -> bool) (a b : option A) : bool :=
  match a, b with Some x, Some y => f x y | None, None => true | _, _ => false end.
Definition up4_meter_eqb (a b : up4_meter) : bool :=
  (um_qer a =? um_qer b) && Bool.eqb (um_session a) (um_session b) && meter_eqb (um_ul a) (um_ul b) &&
  opt_eqb meter_eqb (um_dl a) (um_dl b).

(* a modification as it is sent: QERs still as IEs *)
Record mod_ie := mkModIE { mi_cpdrs : list pdr; mi_cqers : list qer_ie; mi_updrs : list pdr; mi_uqers : list qer_ie }.
(* observation after one message: commands (any order), stored QERs, stored PDRs *)
Record step_obs := mkStep { so_cmds : list qoscmd; so_qers : list qer; so_pdrs : list pdr }.
(* observed terminations entry *)
Record term_obs := mkTermObs { to_uplink : bool; to_drop : bool; to_tc : N; to_qfi : N }.

Inductive case :=
| KCalc (kbps ms burst gbr : N) (meter : meter_cfg)
| KParse (x : qer_ie) (seid : N) (res : option qer)
| KMark (pdrs : list (list N)) (qers add : list qer)
        (mid_lv : list N) (mid_pl : list (list N)) (fin_lv : list N) (fin_pl : list (list N)) (add_lv : list N)
| KBess (conf : qosconf) (ops : list (N * list qer)) (batches : list (list qoscmd))
| KHist (conf : qosconf) (seid : N) (cp : list pdr) (cq : list qer_ie) (ms : list mod_ie) (steps : list step_obs)
| KUp4 (qfi_tc : list (N * N)) (default_tc : N) (far_drop : bool) (pdrs : list (bool * list N)) (qers : list qer)
       (meters : list up4_meter) (terms : list term_obs).

Fixpoint parse_all (seid : N) (l : list qer_ie) : option (list qer) :=
  match l with
  | [] => Some []
  | x :: r => match parse_qer x seid, parse_all seid r with
              | Some q, Some qs => Some (q :: qs)
              | _, _ => None
              end
  end.

Definition step_agrees (m : sess * list qoscmd) (o : step_obs) : bool :=
  perm_eqb cmd_eqb (snd m) (so_cmds o) && list_eqb qer_eqb (s_qers (fst m)) (so_qers o) &&
  list_eqb pdr_eqb (s_pdrs (fst m)) (so_pdrs o).

Fixpoint parse_mods (seid : N) (ms : list mod_ie) : option (list modmsg) :=
  match ms with
  | [] => Some []
  | m :: r => match parse_all seid (mi_cqers m), parse_all seid (mi_uqers m), parse_mods seid r with
              | Some c, Some u, Some r' => Some (mkMod (mi_cpdrs m) c (mi_updrs m) u :: r')
              | _, _, _ => None
              end
  end.

Definition term_agrees (m : term) (o : term_obs) : bool :=
  Bool.eqb (t_drop m) (to_drop o) &&
  (to_drop o || ((t_tc m =? to_tc o) && (to_uplink o || (t_qfi m =? to_qfi o)))).

Definition agrees (c : case) : bool :=
  match c with
  | KCalc kbps ms burst gbr meter =>
      (calc_burst kbps ms =? burst) && meter_eqb (up4_meter_cfg kbps gbr) meter
  | KParse x seid res => opt_eqb qer_eqb (parse_qer x seid) res
  | KMark pl qers add mid_lv mid_pl fin_lv fin_pl add_lv =>
      let pdrs := map (fun l => mkPdr 0 l) pl in
      let '(p1, q1) := mark pdrs qers in
      let '(p2, a2) := mark p1 add in
      list_eqb N.eqb (map q_level q1) mid_lv && list_eqb (list_eqb N.eqb) (map p_qers p1) mid_pl &&
      list_eqb N.eqb (map q_level q1) fin_lv && list_eqb (list_eqb N.eqb) (map p_qers p2) fin_pl &&
      list_eqb N.eqb (map q_level a2) add_lv
  | KBess conf ops batches =>
      all2 (fun op b => if Nat.leb (length (snd op)) 1 then list_eqb cmd_eqb (bess_send conf (fst op) (snd op)) b
                            else perm_eqb cmd_eqb (bess_send conf (fst op) (snd op)) b) ops batches
  | KHist conf seid cp cq ms steps =>
      match parse_all seid cq, parse_mods seid ms with
      | Some q, Some m => all2 step_agrees (run_history conf cp q m) steps
      | _, _ => false
      end
  | KUp4 qfi_tc dtc fd pdrs qers meters terms =>
      list_eqb up4_meter_eqb (configure_meters qers) meters &&
      all2 term_agrees (map (fun p => up4_term qfi_tc dtc (fst p) fd (snd p) qers) pdrs) terms
  end.

Fixpoint mismatches_from (i : N) (cs : list case) : list N :=
  match cs with
  | [] => []
  | c :: r => if agrees c then mismatches_from (i + 1) r else i :: mismatches_from (i + 1) r
  end.
Definition mismatches := mismatches_from 0.
