(* Correspondence evaluators for C07: model output = implementation observation, and the
   property's sentences evaluated on the implementation's observation. *)
From Coq Require Import NArith List Bool.
From UPF Require Import Model.Fteid.
Import ListNotations.
Open Scope N_scope.

Fixpoint all2 {A B} (f : A -> B -> bool) (x : list A) (y : list B) : bool :=
  match x, y with
  | [], [] => true
  | a :: x', b :: y' => f a b && all2 f x' y'
  | _, _ => false
  end.

Definition out_eqb (a b : out) : bool :=
  match a, b with
  | ROk x, ROk y => x =? y
  | RErr, RErr => true
  | RNone, RNone => true
  | RBool x, RBool y => Bool.eqb x y
  | _, _ => false            (* RFuel never matches an observation *)
  end.

(* same set, given as lists without duplicates on the observation side *)
Definition set_eqb (model obs : list N) : bool :=
  Nat.eqb (length model) (length obs) && forallb (fun x => mem x model) obs.

Fixpoint nodupb (l : list N) : bool :=
  match l with [] => true | x :: r => negb (mem x r) && nodupb r end.

(* a scripted source: the list repeated for ever *)
Definition cyc (l : list N) : stream :=
  fun i => nth (Nat.modulo i (length l)) l 0.

(* --- NewPFCPSession histories --- *)
Inductive sstep :=
| SPut (seid : N)                     (* store.PutSession *)
| SDel (seid : N)                     (* store.DeleteSession *)
| SNew (put : bool) (ok : bool) (l : N) (drawn_after : nat).  (* observed NewPFCPSession; put: store it *)

Fixpoint seid_run (retries : nat) (draws : stream) (i : nat) (st : list N) (ss : list sstep) : bool * bool :=
  (* (model agrees, property holds on the observation) *)
  match ss with
  | [] => (true, true)
  | SPut s :: r => seid_run retries draws i (if mem s st then st else s :: st) r
  | SDel s :: r => seid_run retries draws i (del s st) r
  | SNew put ok l j :: r =>
    let agree := match new_seid retries draws i st with
                 | (Some l', j') => ok && (l' =? l) && Nat.eqb j' j
                 | (None, j') => negb ok && Nat.eqb j' j
                 end in
    let first_bad := forallb (fun k => bad_draw st (draws (i + k)%nat)) (seq 0 retries) in
    let spec := if ok then negb (l =? 0) && negb (mem l st) && negb first_bad
                         && Nat.leb j (i + retries) && Nat.ltb i j
                else first_bad && Nat.leb j (i + retries) in
    let st' := if ok && put then l :: st else st in
    let '(a, s) := seid_run retries draws j st' r in
    (agree && a, spec && s)
  end.

(* --- establishment histories --- *)
Record eobs := EObs {
  o_cause : N;
  o_upfseid : option N;
  o_created : list (N * N * N);
  o_batch : option (list dpdr);
  o_drawn : nat;
  o_goff : N;
  o_gused : list N;
  o_store : list N }.

Definition dpdr_eqb (a b : dpdr) : bool :=
  (d_fseid a =? d_fseid b) && (d_id a =? d_id b) && (d_teid a =? d_teid b) && (d_ip a =? d_ip b)
  && Bool.eqb (d_choose a) (d_choose b).
Definition tri_eqb (a b : N * N * N) : bool :=
  (fst (fst a) =? fst (fst b)) && (snd (fst a) =? snd (fst b)) && (snd a =? snd b).
Definition obatch_eqb (a b : option (list dpdr)) : bool :=
  match a, b with
  | None, None => true
  | Some x, Some y => all2 dpdr_eqb x y
  | _, _ => false
  end.

Definition res_agrees (r : option eres) (o : eobs) : bool :=
  match r with
  | Some (EAccepted l created batch) =>
      (o_cause o =? CAUSE_ACCEPTED) && match o_upfseid o with Some l' => l =? l' | None => false end
      && all2 tri_eqb created (o_created o) && obatch_eqb (Some batch) (o_batch o)
  | Some (ERefused cause batch) =>
      (o_cause o =? cause) && match o_upfseid o with None => true | Some _ => false end
      && match o_created o with [] => true | _ => false end && obatch_eqb batch (o_batch o)
  | None => false
  end.

Definition world_agrees (w : world) (k : nat) (o : eobs) : bool :=
  Nat.eqb (w_drawn w k) (o_drawn o) && set_eqb (store_of k (w_sess w)) (o_store o)
  && (offset (w_gen w) =? o_goff o) && set_eqb (used (w_gen w)) (o_gused o).

(* the property's sentences on one observed establishment: [st] = SEIDs stored on the association
   before, [live] = TEIDs handed out before (model state, already checked equal to the
   implementation's) *)
Definition est_spec (access : N) (st live : list N) (o : eobs) : bool :=
  if o_cause o =? CAUSE_ACCEPTED then
    match o_upfseid o, o_batch o with
    | Some l, Some batch =>
      negb (l =? 0) && negb (mem l st)
      && forallb (fun e => d_fseid e =? l) batch
      && all2 tri_eqb (created_of batch) (o_created o)
      && forallb (fun x => negb (snd (fst x) =? 0) && (snd (fst x) <=? MAXV)
                           && negb (mem (snd (fst x)) live) && (snd x =? access)) (o_created o)
      && nodupb (map (fun x => snd (fst x)) (o_created o))
    | _, _ => false
    end
  else match o_upfseid o, o_created o with None, [] => true | _, _ => false end.

Fixpoint est_run (retries : nat) (access : N) (draws : nat -> stream) (w : world)
         (es : list (ev * eobs)) : bool * bool :=
  match es with
  | [] => (true, true)
  | (e, o) :: r =>
    let '(w0, x) := ev_step retries access draws w e in
    (* Session Modification is outside the anchored code: whatever it did to the generator is
       taken from the observation (today: nothing), so that the histories can go on *)
    let w' := match e with
              | EvMod _ _ _ _ => World (w_sess w0) (w_drawn w0) (Gen (o_goff o) (o_gused o))
              | _ => w0
              end in
    let k := match e with EvEst k _ _ _ => k | EvDel k _ => k | EvMod k _ _ _ => k end in
    let agree := match e with EvEst _ _ _ _ => res_agrees x o | _ => true end
                 && world_agrees w' k o in
    let spec := match e with
                | EvEst k _ _ _ => est_spec access (store_of k (w_sess w)) (live_ids (w_gen w)) o
                | _ => true
                end in
    let '(a, s) := est_run retries access draws w' r in
    (agree && a, spec && s)
  end.

Inductive case :=
| CGen (off : N) (u : list N) (ops : list op) (res : list out) (foff : N) (fused : list N)
| CSeid (retries : nat) (draws : list N) (steps : list sstep)
| CEst (retries : nat) (access : N) (draws : list (list N)) (goff : N) (gused : list N)
       (es : list (ev * eobs)).

(* (model agrees with the implementation, the property holds on the implementation's observation) *)
Definition eval_case (c : case) : bool * bool :=
  match c with
  | CGen off u ops res foff fused =>
    let '(g, rs) := run (Gen off u) ops in
    (all2 out_eqb rs res && (offset g =? foff) && set_eqb (used g) fused,
     (* the property speaks about states of the class; outside it only the correspondence counts *)
     if (off <? MAXV) && nodupb u && forallb (fun o => o <? MAXV) u
     then hist_ok (live_ids (Gen off u)) ops res else true)
  | CSeid retries draws steps => seid_run retries (cyc draws) 0 [] steps
  | CEst retries access draws goff gused es =>
    est_run retries access (fun k => cyc (nth k draws []))
            (World [] (fun _ => 0%nat) (Gen goff gused)) es
  end.

(* i        : model and implementation disagree on case i
   10^9 + i : the property fails on the implementation's observation of case i *)
Fixpoint report_from (i : N) (cs : list case) : list N :=
  match cs with
  | [] => []
  | c :: r =>
    let '(a, s) := eval_case c in
    (if a then [] else [i]) ++ (if s then [] else [1000000000 + i]) ++ report_from (i + 1) r
  end.
Definition report := report_from 0.
