(* C16 evaluators: (a) the Coq [valid_update] as a monitor on every update the implementation wrote, against the
   P4Info the harness server served (the generated one with the scenario's size overrides); (b) the builders of
   Model/P4Build.v against the recorded Write batches. *)
From Coq Require Import NArith List String Bool.
From UPF Require Import Model.P4Info Model.P4Valid Model.P4Build Gen.P4Info_gen Gen.P4Const_gen Proofs.P4ValidProofs.
Import ListNotations.
Open Scope N_scope.

Fixpoint size_of (n : string) (ov : list (string * N)) : option N :=
  match ov with [] => None | (k, v) :: r => if String.eqb k n then Some v else size_of n r end.
Definition resize (ov : list (string * N)) (s : sized) : sized :=
  match size_of (s_name s) ov with Some v => Sz (s_id s) (s_name s) v | None => s end.
Definition with_sizes (i : p4info) (ov : list (string * N)) : p4info :=
  P4I (i_tables i) (i_actions i) (i_action_profiles i) (map (resize ov) (i_counters i)) (i_direct_counters i)
      (map (resize ov) (i_meters i)) (i_direct_meters i) (i_ctrl_metadata i) (i_registers i) (i_digests i) (i_enums i).

Inductive case :=
| CUpd (sizes : list (string * N)) (u : update) (monitor_ok : bool)   (* monitor_ok: verdict of the Python monitor *)
| CBatch (e : wevent) (obs : list update).

Definition coq_valid (c : case) : bool :=
  match c with
  | CUpd sizes u _ => valid_update (with_sizes P4Info_gen.info sizes) u
  | CBatch _ _ => true
  end.

Definition agrees (c : case) : bool :=
  match c with
  | CUpd sizes u ok => Bool.eqb (valid_update (with_sizes P4Info_gen.info sizes) u) ok
  | CBatch e obs => match writes_of e with Some us => list_eqb update_eqb us obs | None => false end
  end.

Fixpoint idx_where (f : case -> bool) (i : N) (cs : list case) : list N :=
  match cs with
  | [] => []
  | c :: r => if f c then idx_where f (i + 1) r else i :: idx_where f (i + 1) r
  end.
Definition mismatches := idx_where agrees 0.
Definition spec_failures := idx_where coq_valid 0.
