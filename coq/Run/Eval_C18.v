From Coq Require Import Ascii String List Bool NArith ZArith Uint63.
From UPF Require Import Model.Jsonc Model.Config.
Import ListNotations.
Open Scope string_scope.

(* The driver prints every string as pk [length; w1; w2; ...]: seven bytes per primitive integer,
   little endian (Coq string literals cost about 0.1 ms per byte to parse, these do not). *)
Fixpoint unpack1 (k : nat) (x : int) : list ascii :=
  match k with
  | O => []
  | S k' => ascii_of_N (Z.to_N (Uint63.to_Z (Uint63.land x 255))) :: unpack1 k' (Uint63.lsr x 8)
  end.
Fixpoint unpack (n : nat) (l : list int) : list ascii :=
  match l with
  | [] => []
  | x :: r => let k := Nat.min n 7 in unpack1 k x ++ unpack (n - k) r
  end.
Definition pk (l : list int) : string :=
  match l with
  | [] => EmptyString
  | n :: r => string_of_list_ascii (unpack (Z.to_nat (Uint63.to_Z n)) r)
  end.

(* what LoadConfigFile returned, projected to the fields of the model's record *)
Record obsconf := ObsConf {
  o_mode : string; o_p4 : bool; o_access : string; o_tc : N; o_peers : list string; o_alloc : bool;
  o_pool : string; o_read : N; o_level : Z; o_retries : N; o_resp : string; o_hb : bool; o_hbi : string }.

Inductive obs :=
| OOk (c : obsconf)
| OSyntax                 (* json.SyntaxError *)
| ODecode                 (* UnmarshalTypeError or an error of a TextUnmarshaler *)
| OInvalid (site : N)     (* validateConf refused: 1 AccessIP 2 UEIPPool 3 Mode 4 Peers 5 RespTimeout
                             6 ReadTimeout 7 MaxReqRetries 8 heart beat interval *)
| OOther.

(* answers of ParseDuration / ParseCIDR / ParseIP / Level.UnmarshalText on the strings of a case *)
Definition graph := list (string * (bool * bool * bool * option Z)).
Fixpoint row (g : graph) (s : string) : option (bool * bool * bool * option Z) :=
  match g with
  | [] => None
  | (k, v) :: r => if String.eqb k s then Some v else row r s
  end.
Definition g_dur (g : graph) s := match row g s with Some (d, _, _, _) => d | None => false end.
Definition g_cidr (g : graph) s := match row g s with Some (_, c, _, _) => c | None => false end.
Definition g_ip (g : graph) s := match row g s with Some (_, _, i, _) => i | None => false end.
Definition g_level (g : graph) s := match row g s with Some (_, _, _, l) => l | None => None end.

Record case := Case {
  c_doc : string;
  c_stripped : option string;      (* removeComments(doc); None = unchanged *)
  c_tree : option json;            (* the stripped text as encoding/json reads it; None = not JSON *)
  c_graph : graph;
  c_obs : obs }.

Definition site_code (s : site) : N :=
  match s with
  | SAccessIP => 1 | SUEPoolP4 => 2 | SUEPoolAlloc => 2 | SModeP4 => 3 | SModeBess => 3 | SPeers => 4
  | SRespTimeout => 5 | SReadTimeout => 6 | SMaxReqRetries => 7 | SHBInterval => 8
  end%N.

Fixpoint list_eqb {A} (f : A -> A -> bool) (x y : list A) : bool :=
  match x, y with
  | [], [] => true
  | a :: x', b :: y' => f a b && list_eqb f x' y'
  | _, _ => false
  end.

Definition conf_eqb (m : conf) (o : obsconf) : bool :=
  String.eqb (mode m) (o_mode o) && Bool.eqb (enable_p4rt m) (o_p4 o) && String.eqb (access_ip m) (o_access o)
  && (default_tc m =? o_tc o)%N && list_eqb String.eqb (peers m) (o_peers o)
  && Bool.eqb (enable_ue_ip_alloc m) (o_alloc o) && String.eqb (ue_ip_pool m) (o_pool o)
  && (read_timeout m =? o_read o)%N && (log_level m =? o_level o)%Z && (max_req_retries m =? o_retries o)%N
  && String.eqb (resp_timeout m) (o_resp o) && Bool.eqb (enable_hb m) (o_hb o) && String.eqb (hb_interval m) (o_hbi o).

Definition model_load (g : graph) (j : json) : result := load (g_dur g) (g_cidr g) (g_ip g) (g_level g) j.

Definition strip_agrees (c : case) : bool :=
  String.eqb (strip_string (c_doc c)) (match c_stripped c with Some s => s | None => c_doc c end).

Definition load_agrees (c : case) : bool :=
  match c_tree c with
  | None => match c_obs c with OSyntax => true | _ => false end
  | Some j =>
    match model_load (c_graph c) j, c_obs c with
    | Ok m, OOk o => conf_eqb m o
    | ErrDecode, ODecode => true
    | ErrInvalid s, OInvalid n => (site_code s =? n)%N
    | _, _ => false
    end
  end.


Fixpoint filter_idx {A} (f : A -> bool) (i : N) (cs : list A) : list N :=
  match cs with
  | [] => []
  | c :: r => if f c then filter_idx f (i + 1) r else i :: filter_idx f (i + 1) r
  end.
Definition strip_mismatches (cs : list case) : list N := filter_idx strip_agrees 0 cs.

(* the property itself (boolean form, proved equivalent to the statement of C18_validated in
   Proofs/ConfigProofs.v) evaluated on what the implementation returned *)
Definition as_conf (o : obsconf) : conf :=
  Conf (o_mode o) (o_p4 o) (o_access o) (o_tc o) (o_peers o) (length (o_peers o)) (o_alloc o) (o_pool o)
       (o_read o) (o_level o) (o_retries o) (o_resp o) (o_hb o) (o_hbi o).
Definition spec_ok (c : case) : bool :=
  match c_obs c with
  | OOk o => validated_b (g_dur (c_graph c)) (g_cidr (c_graph c)) (g_ip (c_graph c)) (as_conf o)
  | _ => true
  end.
Definition spec_failures (cs : list case) : list N := filter_idx spec_ok 0 cs.

(* a case passes when the stripper agrees, the loader agrees, and what the implementation returned
   satisfies the property (implied by the second when the result is a configuration) *)
Definition agrees (c : case) : bool := strip_agrees c && load_agrees c && spec_ok c.
Definition mismatches (cs : list case) : list N := filter_idx agrees 0 cs.

(* stripper alone: (text, what removeComments returned) *)
Definition pair_agrees (p : string * string) : bool := String.eqb (strip_string (fst p)) (snd p).
Definition pair_mismatches (ps : list (string * string)) : list N := filter_idx pair_agrees 0 ps.
