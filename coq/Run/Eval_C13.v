(* C13: model outputs against what the harness observed on the implementation. *)
From Coq Require Import NArith List Bool.
From UPF Require Import Model.Notifier.
Import ListNotations.
Open Scope N_scope.

(* ---- notifier driven in real time.  The harness cannot see the two clock readings inside
   shouldNotify; it measures a window [w_lo, w_hi] around each Notify call (monotonic ns) and
   records what arrived on the channel during the call.  The check below accepts exactly the
   observations that some choice of readings inside the windows explains (sound by
   Proofs/NotifierEvalProofs.v: the model never fails it). *)
Record wev := Wev { w_fseid : N; w_lo : N; w_hi : N; w_got : list N }.

Definition wstate := list (N * (N * N)).     (* F-SEID -> window of the stored timestamp *)
Fixpoint wlookup (k : N) (st : wstate) : option (N * N) :=
  match st with
  | [] => None
  | (k', v) :: r => if k =? k' then Some v else wlookup k r
  end.
Fixpoint wstore (k : N) (v : N * N) (st : wstate) : wstate :=
  match st with
  | [] => [(k, v)]
  | (k', v') :: r => if k =? k' then (k, v) :: r else (k', v') :: wstore k v r
  end.

Definition admissible_step (interval : N) (ws : wstate) (e : wev) : option wstate :=
  match w_got e with
  | [] =>
      match wlookup (w_fseid e) ws with
      | None => None                                              (* a first report is forwarded *)
      | Some (slo, shi) => if w_lo e <? shi + interval then Some ws else None
      end
  | [x] =>
      if x =? w_fseid e then
        match wlookup (w_fseid e) ws with
        | None => Some (wstore (w_fseid e) (w_lo e, w_hi e) ws)
        | Some (slo, shi) =>
            if slo + interval <=? w_hi e then Some (wstore (w_fseid e) (w_lo e, w_hi e) ws) else None
        end
      else None
  | _ => None
  end.

Fixpoint admissible_from (interval : N) (ws : wstate) (es : list wev) : bool :=
  match es with
  | [] => true
  | e :: rest => match admissible_step interval ws e with
                 | None => false
                 | Some ws' => admissible_from interval ws' rest
                 end
  end.
Definition admissible (interval : N) (es : list wev) : bool := admissible_from interval [] es.

(* an event is decisive when only one of forwarded / suppressed is admissible *)
Fixpoint decisive_count (interval : N) (ws : wstate) (es : list wev) : N :=
  match es with
  | [] => 0
  | e :: rest =>
      let d := match wlookup (w_fseid e) ws with
               | None => 1
               | Some (slo, shi) => if (w_lo e <? shi + interval) && (slo + interval <=? w_hi e) then 0 else 1
               end in
      match admissible_step interval ws e with
      | None => d
      | Some ws' => d + decisive_count interval ws' rest
      end
  end.

(* ---- messages as decoded by the harness: a well-formedness verdict (message type 56, S flag,
   MP/priority 0, exactly Report Type + Downlink Data Report, the latter holding only PDR IDs) and the fields *)
Definition omsg := (bool * srr)%type.

Fixpoint list_eqb (a b : list N) : bool :=
  match a, b with
  | [], [] => true
  | x :: a', y :: b' => (x =? y) && list_eqb a' b'
  | _, _ => false
  end.
Definition srr_eqb (a b : srr) : bool :=
  (m_seid a =? m_seid b) && (m_seq a =? m_seq b) && (m_report_type a =? m_report_type b) &&
  list_eqb (m_pdr_ids a) (m_pdr_ids b).
Fixpoint all2 {A B} (f : A -> B -> bool) (x : list A) (y : list B) : bool :=
  match x, y with
  | [], [] => true
  | a :: x', b :: y' => f a b && all2 f x' y'
  | _, _ => false
  end.
Definition msg_agrees (m : srr) (o : omsg) : bool := fst o && srr_eqb m (snd o).

Definition build_store (ss : list session) : store := fold_left (fun st s => put_session s st) ss [].

(* handleDigestReport called once per report on one connection: per report the messages written *)
Fixpoint digest_run (st : store) (seq : N) (fs : list N) : N * list (list srr) :=
  match fs with
  | [] => (seq, [])
  | f :: rest => let '(seq', out) := handle_digest_report st seq f in
                 let '(seq'', outs) := digest_run st seq' rest in (seq'', out :: outs)
  end.

(* Serve with at most one association *)
Fixpoint serve_run (a : option assoc) (fs : list N) : option assoc * list srr :=
  match fs with
  | [] => (a, [])
  | f :: rest => let '(a', out) := serve_report a f in
                 let '(a'', outs) := serve_run a' rest in (a'', out ++ outs)
  end.

(* channel contents when all reports fall well inside one interval: every F-SEID once, in order *)
Definition forwarded_at_once (interval : N) (fseids : list N) : list N :=
  map (fun p => r_fseid (fst p)) (filter snd (trace interval (map (fun f => Report f 0 0) fseids))).

Fixpoint up4_fseids (m : list (N * N)) (digests : list (list N)) : list N :=
  match digests with
  | [] => []
  | d :: rest => match up4_digest_fseid m d with
                 | DCrash => []
                 | DIgnored => up4_fseids m rest
                 | DFseid f => f :: up4_fseids m rest
                 end
  end.

Inductive case :=
| CNotifier (interval : N) (events : list wev)
| CDigest (sessions : list session) (seq0 : N) (reports : list N) (obs : list (list omsg)) (seq_end : N)
| CBess (interval : N) (datagrams : list (list N)) (chan : list N)
| CUp4 (interval : N) (ue_map : list (N * N)) (digests : list (list N)) (chan : list N)
| CServe (has_assoc : bool) (sessions : list session) (seq0 : N) (reports : list N) (obs : list omsg) (seq_end : N).

Definition agrees (c : case) : bool :=
  match c with
  | CNotifier interval events => admissible interval events
  | CDigest sessions seq0 reports obs seq_end =>
      let '(seq', outs) := digest_run (build_store sessions) seq0 reports in
      (seq' =? seq_end) && all2 (all2 msg_agrees) outs obs
  | CBess interval datagrams chan => list_eqb (forwarded_at_once interval (bess_fseids datagrams)) chan
  | CUp4 interval ue_map digests chan => list_eqb (forwarded_at_once interval (up4_fseids ue_map digests)) chan
  | CServe has_assoc sessions seq0 reports obs seq_end =>
      let a := if has_assoc then Some (Assoc (build_store sessions) seq0) else None in
      let '(a', outs) := serve_run a reports in
      all2 msg_agrees outs obs &&
      match a' with Some c => a_seq c =? seq_end | None => true end
  end.

Fixpoint mismatches_from (i : N) (cs : list case) : list N :=
  match cs with
  | [] => []
  | c :: r => if agrees c then mismatches_from (i + 1) r else i :: mismatches_from (i + 1) r
  end.
Definition mismatches := mismatches_from 0.

(* evidence: how many notifier events were decided by their measured windows alone *)
Definition decisive (c : case) : N :=
  match c with CNotifier interval events => decisive_count interval [] events | _ => 0 end.
