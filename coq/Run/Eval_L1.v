(* Evaluator of the agent model on L1 histories: replays the events the implementation ran, compares
   every projected observable after every event. *)
From Coq Require Import NArith List Bool.
From UPF Require Import Model.IPPool Model.Fteid Model.PortRange Model.Agent Model.World.
Import ListNotations.
Open Scope N_scope.

Record obs := Obs {
  ob_full : bool;          (* false: the state part (tables, store, pools, PFDs) is omitted for this event *)
  ob_crash : bool;
  ob_reply : list N;
  ob_rseq : N;            (* sequence number of the implementation's reply, 0 when there is none *)
  ob_ncmds : N;
  ob_tables : list (N * list N * list N);          (* module code, key, value *)
  ob_store : list (N * N * N * list (list N) * list (list N) * list (list N));   (* conn, lseid, rseid, pdrs, fars, qers *)
  ob_inv : list (N * N); ob_free : N; ob_teids : list N; ob_gauge : N;
  ob_markers : list (list N);
  ob_shutdown : bool;
  ob_pfds : list (N * list (N * list N)) }.          (* conn -> app id -> flow text ids *)

Inductive event :=
| EvMsg (conn : N) (connected : bool) (seq : N) (m : msg) (draws : list N) (o : obs)
| EvTeardown (conn : N) (o : obs)
| EvRestart (o : obs).

Record case := Case { k_access : N; k_core : N; k_em : bool; k_pool : option (N * N);
                      k_burst : list (N * N * N * N);          (* which, rate, qfi -> bytes *)
                      k_events : list event }.

Fixpoint burst_of (t : list (N * N * N * N)) (w r q : N) : N :=
  match t with
  | [] => 0
  | (w', r', q', v) :: rest => if (w =? w') && (r =? r') && (q =? q') then v else burst_of rest w r q
  end.

Definition boot (k : case) (tb : tables) : world :=
  let pl := match k_pool k with None => None | Some (b, l) => new_pool b l end in
  World (Agent (Cfg (k_access k) (k_core k) (k_em k)) pl (Gen 0 []) 0 tb) [].

(* ---- encoders (the same field order as tools/props/l1model.py) *)
Definition b2n (b : bool) : N := if b then 1 else 0.
Definition enc_pdr (p : pdr) : list N :=
  [p_id p; p_fseid p; p_iface p; p_iface_m p; p_tdst p; p_tdst_m p; p_teid p; p_teid_m p; p_ue p; p_prec p; p_far p;
   p_decap p; b2n (p_alloc p); b2n (p_choose p); f_sip p; f_sip_m p; f_dip p; f_dip_m p;
   lo (f_sp p); hi (f_sp p); lo (f_dp p); hi (f_dp p); f_proto p; f_proto_m p] ++ p_qers p.
Definition enc_far (f : far) : list N :=
  [a_id f; a_fseid f; a_dst f; b2n (a_em f); a_action f; a_ttype f; a_tsrc f; a_tdst f; a_teid f; a_tport f].
Definition enc_qer (q : qer) : list N :=
  [q_id q; q_fseid q; q_level q; q_qfi q; q_ul q; q_dl q; q_mul q; q_mdl q; q_gul q; q_gdl q].
Definition enc_created (c : created) : list N :=
  match c with CTeid p t i => [1; p; t; i] | CUeip p i => [2; p; i] end.
Definition enc_reply (r : option reply) : list N :=
  match r with
  | None => []
  | Some RHeartbeat => [2]
  | Some (RSetup c) => [6; c]
  | Some RRelease => [10]
  | Some (RPfd c) => [4; c]
  | Some (REst seid cause _ up cr) => [51; seid; cause; match up with Some l => l | None => 0 end] ++ flat_map enc_created cr
  | Some (RMod seid c) => [53; seid; c]
  | Some (RDel seid c) => [55; seid; c]
  end.
Definition mod_code (m : module) : N := match m with MPdr => 0 | MFar => 1 | MAppQer => 2 | MSessQer => 3 end.

Fixpoint list_eqb (a b : list N) : bool :=
  match a, b with [] , [] => true | x :: a', y :: b' => (x =? y) && list_eqb a' b' | _, _ => false end.
Fixpoint ll_eqb (a b : list (list N)) : bool :=
  match a, b with [], [] => true | x :: a', y :: b' => list_eqb x y && ll_eqb a' b' | _, _ => false end.

Definition table_of (t : tables) (code : N) : table :=
  if code =? 0 then t_pdr t else if code =? 1 then t_far t else if code =? 2 then t_app t else t_sess t.
Definition tables_agree (t : tables) (o : list (N * list N * list N)) : bool :=
  (N.of_nat (length (t_pdr t) + length (t_far t) + length (t_app t) + length (t_sess t)) =? N.of_nat (length o)) &&
  forallb (fun e => let '(code, k, v) := e in
                    match t_get k (table_of t code) with Some v' => list_eqb v v' | None => false end) o.

Definition store_agree (cs : list (N * conn)) (o : list (N * N * N * list (list N) * list (list N) * list (list N))) : bool :=
  (N.of_nat (fold_left (fun n kc => (n + length (c_sessions (snd kc)))%nat) cs O) =? N.of_nat (length o)) &&
  forallb (fun e => let '(ci, l, r, ps, fs, qs) := e in
                    match find_session l (c_sessions (get_conn ci cs)) with
                    | None => false
                    | Some s => (s_rseid s =? r) && ll_eqb (map enc_pdr (view (s_pdrs s))) ps &&
                                ll_eqb (map enc_far (view (s_fars s))) fs && ll_eqb (map enc_qer (view (s_qers s))) qs
                    end) o.

Definition inv_agree (pl : option pool) (inv : list (N * N)) (nfree : N) : bool :=
  match pl with
  | None => match inv with [] => nfree =? 0 | _ => false end
  | Some p => (N.of_nat (length (IPPool.free p)) =? nfree) && (N.of_nat (length (IPPool.inv p)) =? N.of_nat (length inv)) &&
              forallb (fun kv => match lookup (fst kv) (IPPool.inv p) with Some v => v =? snd kv | None => false end) inv
  end.
Definition teids_agree (g : gen) (l : list N) : bool :=
  (N.of_nat (length (used g)) =? N.of_nat (length l)) && forallb (fun t => (0 <? t) && mem (t - 1) (used g)) l.
Definition pfds_agree (cs : list (N * conn)) (o : list (N * list (N * list N))) : bool :=
  forallb (fun e => let '(ci, tb) := e in
                    let t := c_pfds (get_conn ci cs) in
                    (N.of_nat (length t) =? N.of_nat (length tb)) &&
                    forallb (fun kv => match pfd_lookup (fst kv) t with
                                       | Some fl => list_eqb (map fst fl) (snd kv) | None => false end) tb) o.

Definition check (w : world) (res : out) (o : obs) : bool :=
  negb (ob_crash o) && list_eqb (enc_reply (o_reply res)) (ob_reply o) &&
  (N.of_nat (length (o_cmds res)) =? ob_ncmds o) &&
  (a_gauge (w_agent w) =? ob_gauge o) &&
  ll_eqb (map (fun m => [m_src m; m_dst m; m_teid m]) (o_markers res)) (ob_markers o) &&
  Bool.eqb (o_shutdown res) (ob_shutdown o) &&
  (negb (ob_full o) ||
   (tables_agree (a_tables (w_agent w)) (ob_tables o) &&
    store_agree (w_conns w) (ob_store o) &&
    inv_agree (a_pool (w_agent w)) (ob_inv o) (ob_free o) &&
    teids_agree (a_teids (w_agent w)) (ob_teids o) &&
    pfds_agree (w_conns w) (ob_pfds o))).

(* one event: new world, and whether the implementation's observation agrees; None = the model says Crash *)
Definition step (k : case) (w : world) (e : event) : option (world * out) * obs :=
  let burst := burst_of (k_burst k) in
  match e with
  | EvMsg ci connected seq m draws o =>
    match handle_datagram burst (w_agent w) (get_conn ci (w_conns w)) connected (Dgram seq m) draws with
    | Crash _ => (None, o)
    | Done (a', c', res, rseq) =>
      if negb (match rseq with Some x => x =? ob_rseq o | None => true end) then (None, Obs (ob_full o) false [] 0 0 [] [] [] 0 [] 0 [] false []) else
      let cs := if o_shutdown res then drop_conn ci (w_conns w) else put_conn ci c' (w_conns w) in
      (Some (World a' cs, res), o)
    end
  | EvTeardown ci o =>
    let '(a', c', cmds) := do_shutdown (w_agent w) (get_conn ci (w_conns w)) in
    (Some (World a' (drop_conn ci (w_conns w)), Out None cmds [] true), o)
  | EvRestart o =>
    (* a new incarnation: clearState empties the four lookup modules *)
    (Some (boot k no_tables, Out None [] [] false), o)
  end.

Fixpoint first_bad (k : case) (w : world) (es : list event) (i : N) : option N :=
  match es with
  | [] => None
  | e :: r =>
    match step k w e with
    | (None, o) => if ob_crash o then None else Some i         (* both died: the history ends here *)
    | (Some (w', res), o) =>
      let ok := match e with
                | EvRestart _ => tables_agree (a_tables (w_agent w')) (ob_tables o) && store_agree (w_conns w') (ob_store o)
                | EvTeardown _ _ => check w' (Out None (o_cmds res) [] true) (Obs true (ob_crash o) [] 0 (ob_ncmds o) (ob_tables o) (ob_store o)
                                             (ob_inv o) (ob_free o) (ob_teids o) (ob_gauge o) [] true (ob_pfds o))
                | EvMsg _ _ _ _ _ _ => check w' res o
                end in
      if ok then first_bad k w' r (i + 1) else Some i
    end
  end.

Definition agrees (k : case) : bool :=
  match first_bad k (boot k no_tables) (k_events k) 0 with None => true | Some _ => false end.

Fixpoint mismatches_from (i : N) (cs : list case) : list N :=
  match cs with
  | [] => []
  | c :: r => if agrees c then mismatches_from (i + 1) r else i :: mismatches_from (i + 1) r
  end.
Definition mismatches := mismatches_from 0.

(* diagnostics: index of the first disagreeing event and what the model has at that point *)
Fixpoint world_at (k : case) (w : world) (es : list event) (n : nat) : option (world * out) :=
  match es, n with
  | [], _ => None
  | e :: _, O => fst (step k w e)
  | e :: r, S m => match fst (step k w e) with Some (w', _) => world_at k w' r m | None => None end
  end.
Definition diag (k : case) :=
  match first_bad k (boot k no_tables) (k_events k) 0 with
  | None => None
  | Some i =>
    match world_at k (boot k no_tables) (k_events k) (N.to_nat i) with
    | None => Some (i, [], 0, [], [], [], [], 0, ([], [], [], []), false)
    | Some (w, res) =>
      Some (i, enc_reply (o_reply res), N.of_nat (length (o_cmds res)),
            map (fun kc => (fst kc, map (fun s => (s_lseid s, s_rseid s, map enc_pdr (view (s_pdrs s)), map enc_far (view (s_fars s)),
                                                   map enc_qer (view (s_qers s)))) (c_sessions (snd kc)))) (w_conns w),
            match a_pool (w_agent w) with Some p => IPPool.inv p | None => [] end,
            used (a_teids (w_agent w)),
            map (fun m => [m_src m; m_dst m; m_teid m]) (o_markers res),
            a_gauge (w_agent w),
            (t_pdr (a_tables (w_agent w)), t_far (a_tables (w_agent w)), t_app (a_tables (w_agent w)), t_sess (a_tables (w_agent w))),
            o_shutdown res)
    end
  end.
