(* Correspondence evaluator for C08: model output vs. what the implementation returned. *)
From Coq Require Import NArith List Bool Ascii String.
From UPF Require Import Model.PortRange Model.FlowDesc.
Import ListNotations.
Open Scope N_scope.

(* observation of parseFlowDesc: error class, or the fields of the rule *)
Inductive pobs :=
| OErr (bad : bool)
| OOk (action dir : str) (proto sip smask slo shi dip dmask dlo dhi : N).

Inductive case :=
| CParse (desc ue : str) (o : pobs)
(* source interface value, UE address (0 = no IE), table, filter IEs in order; observation:
   None = PDR rejected, Some [src_ip; dst_ip; src_mask; dst_mask; proto; proto_mask; slo; shi; dlo; dhi] *)
| CPdr (v ue : N) (t : table) (its : list item) (o : option (list N))
(* one text three ways: parseFlowDesc with the UE address as a dotted quad, SDF filter of an access
   PDR, SDF filter of a core PDR (observations as for CParse / CPdr) *)
| CSdf (desc : str) (ue : N) (o : pobs) (oa oc : option (list N))
(* table before, request, observed (cause = accepted), table after *)
| CPfd (old : table) (req : list app_ie) (acc : bool) (after : table).

Fixpoint all2 {A B} (f : A -> B -> bool) (x : list A) (y : list B) : bool :=
  match x, y with
  | [], [] => true
  | a :: x', b :: y' => f a b && all2 f x' y'
  | _, _ => false
  end.

Definition net_eqb (n : option (N * N)) (ip m : N) : bool :=
  match n with Some (a, b) => (a =? ip) && (b =? m) | None => false end.

Definition filter_list (f : afilter) : list N :=
  [f_src_ip f; f_dst_ip f; f_src_mask f; f_dst_mask f; f_proto f; f_proto_mask f;
   lo (f_sports f); hi (f_sports f); lo (f_dports f); hi (f_dports f)].

Definition table_eqb (m o : table) : bool :=
  Nat.eqb (List.length m) (List.length o) &&
  forallb (fun kv => match tbl_lookup (fst kv) m with
                     | Some ds => all2 leqb ds (snd kv)
                     | None => false
                     end) o.

Definition parse_agrees (desc ue : str) (o : pobs) : bool :=
  match parse_flow_desc desc ue, o with
  | POk r, OOk a d p sip sm sl sh dip dm dl dh =>
    leqb (r_action r) a && leqb (r_dir r) d && (r_proto r =? p) &&
    net_eqb (r_src r) sip sm && (lo (r_sports r) =? sl) && (hi (r_sports r) =? sh) &&
    net_eqb (r_dst r) dip dm && (lo (r_dports r) =? dl) && (hi (r_dports r) =? dh)
  | PErrBad, OErr true => true
  | PErrOther, OErr false => true
  | _, _ => false
  end.

Definition pdr_agrees (v ue : N) (t : table) (its : list item) (o : option (list N)) : bool :=
  match parse_pdr_wire v ue t its, o with
  | Rejected, None => true
  | Accepted f, Some l => all2 N.eqb (filter_list f) l
  | _, _ => false
  end.

Definition agrees (c : case) : bool :=
  match c with
  | CParse desc ue o => parse_agrees desc ue o
  | CPdr v ue t its o => pdr_agrees v ue t its o
  | CSdf desc ue o oa oc =>
    parse_agrees desc (ue_text ue) o &&
    pdr_agrees 0 ue [] [ISdf (Some desc)] oa && pdr_agrees 1 ue [] [ISdf (Some desc)] oc
  | CPfd old req acc after =>
    let '(t, a) := handle_pfd old req in
    Bool.eqb a acc && table_eqb t after
  end.

Fixpoint mismatches_from (i : N) (cs : list case) : list N :=
  match cs with
  | [] => []
  | c :: r => if agrees c then mismatches_from (i + 1) r else i :: mismatches_from (i + 1) r
  end.
Definition mismatches := mismatches_from 0.
