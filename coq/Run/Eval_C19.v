(* C19 - model vs. implementation: one case = one HTTP request against the real handler. *)
From Coq Require Import ZArith NArith List Bool String.
From UPF Require Import Model.SliceRest.
Import ListNotations.
Open Scope N_scope.

(* inputs: datapath (+ its configuration), method, body outcome; observations: every status
   written, the decoded datapath writes in arrival order, the SliceInfo found in upf.sliceInfo if it
   was replaced *)
Record case := Case {
  c_dp : datapath; c_meth : string; c_body : body;
  c_statuses : list N; c_writes : list write; c_stored : option slice_info
}.

Fixpoint all2 {A B} (f : A -> B -> bool) (x : list A) (y : list B) : bool :=
  match x, y with
  | [], [] => true
  | a :: x', b :: y' => f a b && all2 f x' y'
  | _, _ => false
  end.

Definition qos_eqb (a b : qos_add) : bool :=
  (q_gate a =? q_gate b) && (q_cir a =? q_cir b) && (q_pir a =? q_pir b) && (q_cbs a =? q_cbs b) &&
  (q_pbs a =? q_pbs b) && (q_ebs a =? q_ebs b) && (q_deduct a =? q_deduct b) &&
  all2 N.eqb (q_fields a) (q_fields b).

Definition meter_eqb (a b : meter_write) : bool :=
  (m_update a =? m_update b) && (m_meter a =? m_meter b) && (m_index a =? m_index b)%Z &&
  (m_cir a =? m_cir b)%Z && (m_cburst a =? m_cburst b)%Z && (m_pir a =? m_pir b)%Z &&
  (m_pburst a =? m_pburst b)%Z.

Definition write_eqb (a b : write) : bool :=
  match a, b with
  | WBess x, WBess y =>
      (b_module x =? b_module y)%string && (b_cmd x =? b_cmd y)%string && qos_eqb (b_arg x) (b_arg y)
  | WUp4 x, WUp4 y => meter_eqb x y
  | _, _ => false
  end.

Definition pair_eqb (a b : string * string) : bool :=
  (fst a =? fst b)%string && (snd a =? snd b)%string.

Definition info_eqb (a b : slice_info) : bool :=
  (s_name a =? s_name b)%string && (s_ul a =? s_ul b) && (s_dl a =? s_dl b) &&
  (s_ulb a =? s_ulb b) && (s_dlb a =? s_dlb b) && all2 pair_eqb (s_ue a) (s_ue b).

Definition stored_eqb (a b : option slice_info) : bool :=
  match a, b with
  | None, None => true
  | Some x, Some y => info_eqb x y
  | _, _ => false
  end.

Definition agrees (c : case) : bool :=
  let r := serve (c_dp c) (c_meth c) (c_body c) in
  all2 N.eqb (r_statuses r) (c_statuses c) &&
  all2 write_eqb (r_writes r) (c_writes c) &&
  stored_eqb (r_stored r) (c_stored c).

Fixpoint mismatches_from (i : N) (cs : list case) : list N :=
  match cs with
  | [] => []
  | c :: r => if agrees c then mismatches_from (i + 1) r else i :: mismatches_from (i + 1) r
  end.
Definition mismatches := mismatches_from 0.

(* a history against ONE handler + upf: per request the inputs and what was observed; q_final is
   upf.sliceInfo at the end if any request replaced it *)
Record step := Step {
  t_meth : string; t_body : body;
  t_statuses : list N; t_writes : list write; t_stored : option slice_info
}.
Record seq_case := SeqCase { sq_dp : datapath; sq_steps : list step; sq_final : option slice_info }.

Definition step_agrees (r : result) (t : step) : bool :=
  all2 N.eqb (r_statuses r) (t_statuses t) &&
  all2 write_eqb (r_writes r) (t_writes t) &&
  stored_eqb (r_stored r) (t_stored t).

Definition seq_agrees (c : seq_case) : bool :=
  let '(rs, st) := run None (sq_dp c) (map (fun t => Req (t_meth t) (t_body t)) (sq_steps c)) in
  all2 step_agrees rs (sq_steps c) && stored_eqb st (sq_final c).

Fixpoint seq_mismatches_from (i : N) (cs : list seq_case) : list N :=
  match cs with
  | [] => []
  | c :: r => if seq_agrees c then seq_mismatches_from (i + 1) r else i :: seq_mismatches_from (i + 1) r
  end.
Definition seq_mismatches := seq_mismatches_from 0.

(* GetSliceTCMeterIndex over all (sliceID, TC) in uint8 x uint8, row-major index i = 256 * sliceID + TC,
   result -1 = an error was returned.  The implementation's table is handed over run-length encoded:
   a segment (start, count, v0, step) stands for the results v0 + step * k at index start + k, k < count. *)
Definition index_agrees (i : N) (v : Z) : bool :=
  match get_slice_tc_meter_index (i / 256) (i mod 256) with
  | Some x => (x =? v)%Z
  | None => (v =? -1)%Z
  end.
Record segment := Seg { g_start : N; g_count : N; g_v0 : Z; g_step : Z }.
Definition segment_agrees (g : segment) : bool :=
  snd (N.iter (g_count g)
         (fun st : N * bool =>
            let k := fst st in
            (k + 1, snd st && index_agrees (g_start g + k) (g_v0 g + g_step g * Z.of_N k)%Z))
         (0, true)).
(* segments must tile 0 .. 65535 in order; returns the positions of the segments that disagree,
   or [65536] if the tiling is broken *)
Fixpoint index_mismatches_from (i next : N) (gs : list segment) : list N :=
  match gs with
  | [] => if next =? 65536 then [] else [65536]
  | g :: r =>
      if negb (g_start g =? next) then [65536]
      else if segment_agrees g then index_mismatches_from (i + 1) (next + g_count g) r
           else i :: index_mismatches_from (i + 1) (next + g_count g) r
  end.
Definition index_mismatches := index_mismatches_from 0 0.
