(* C10 - model vs implementation on the L2 scenarios. *)
From Coq Require Import NArith String List Bool Arith.
From UPF Require Import Base.LTS Model.Teardown.
Import ListNotations.

(* what the harness saw, per scenario.
   k_mode 0: connection-level scenario; the outcome of the model under the forced schedule (events one
             at a time, each run to quiescence) must equal the observation - deletes per association
             (as multisets), "still known to the node", "all goroutines returned".
   k_mode 1: node-level scenario; the observation must be the observation of SOME terminal state of
             the model (all schedules, explorer).  k_class 0: the process is alive or exited normally,
             with the deletes seen (at the moment Done() returned when the scenario stops the agent)
             and, without Stop, the associations still known to the node; k_class 1: the process
             panicked with k_site; k_class 2: Stop()/Done() never returned. *)
Record case := Case {
  k_mode : N; k_cfg : list acfg; k_ev : list env;
  k_class : N; k_site : string; k_stop : bool;
  k_dels : list (list N); k_fwd : list bool; k_gone : list bool }.

Definition perm_eqb (a b : list N) : bool :=
  Nat.eqb (List.length a) (List.length b) && forallb (fun x => Nat.eqb (count x a) (count x b)) a.

Fixpoint all2 {A B} (f : A -> B -> bool) (x : list A) (y : list B) : bool :=
  match x, y with
  | [], [] => true
  | a :: x', b :: y' => f a b && all2 f x' y'
  | _, _ => false
  end.

Definition fuel_steps : nat := 4000.
Definition fuel_states : nat := 200000.

Definition agrees_forced (c : case) : bool :=
  let '(s, _) := forced true fuel_steps (k_cfg c) (k_ev c) in
  let o := observe s in
  Bool.eqb (o_panic o) (N.eqb (k_class c) 1)
  && all2 perm_eqb (o_dels o) (k_dels c)
  && all2 Bool.eqb (o_fwd o) (k_fwd c)
  && all2 Bool.eqb (o_gone o) (k_gone c).

Definition stop_waiting (s : state) : bool :=
  match t_st (n_stop (s_node s)) with TRunning => true | _ => false end.

Definition matches (c : case) (s : state) : bool :=
  match k_class c with
  | 1%N => match s_panic s with Some site => String.eqb site (k_site c) | None => false end
  | 2%N => terminal s && negb (dead s) && stop_waiting s
  | _ =>
    terminal s && negb (panicked s)
    && all2 perm_eqb (map a_del (s_asc s)) (k_dels c)
    && (if k_stop c then n_main (s_node s)
        else all2 Bool.eqb (o_fwd (observe s)) (k_fwd c))
  end.

Definition agrees_some (c : case) : bool :=
  match explore (fun _ => false) fuel_states (init (k_cfg c) (k_ev c)) with
  | Safe l => existsb (matches c) l
  | _ => false
  end.

Definition agrees (c : case) : bool :=
  match k_mode c with 0%N => agrees_forced c | _ => agrees_some c end.

Fixpoint mismatches_from (i : N) (cs : list case) : list N :=
  match cs with
  | [] => []
  | c :: r => if agrees c then mismatches_from (i + 1) r else i :: mismatches_from (i + 1) r
  end.
Definition mismatches := mismatches_from 0.
