(* C04 evaluator: the Up4 model replayed on the SendMsgToUPF calls the implementation received (recorded by the
   harness), fed with the implementation's Pop() choices as oracle.  Compared per call: the returned cause, every
   Write batch (updates in order with their per-update status, resolved to wire ids through the generated
   P4Info / constants) and the counter cells written into the PDRs; at the sampled events additionally the whole
   switch (table entries, configured meter cells, written counter cells) and the plug-in's bookkeeping. *)
From Coq Require Import NArith List String Bool.
From UPF Require Model.PortRange Model.Agent.
From UPF Require Import Model.P4Info Model.P4Valid Model.P4Build Model.Up4 Gen.P4Info_gen Gen.P4Const_gen.
Import ListNotations.
Open Scope N_scope.

Definition I := P4Info_gen.info.
Definition C := P4Const_gen.consts.

Definition wbatch := list (update * code).

Record snapshot := Snap {
  sn_tables : list tentry;
  sn_meters : list (N * N);                   (* (meter id, cell) configured *)
  sn_counters : list (N * N);                 (* (counter id, cell) written *)
  sn_peers : list (N * N * N * list (N * N)); (* dst, port, id, usedBy *)
  sn_apps : list (N * N * N * N * N * list (N * N));   (* ip, lo, hi, proto, id, usedBy *)
  sn_mtrs : list (N * N * N * N * N);         (* fseid, qer, type, ul, dl *)
  sn_ctr_pool : list N; sn_app_cells : list N; sn_sess_cells : list N;
  sn_peer_pool : N * list N;                  (* length, first elements *)
  sn_app_pool : N * list N;
  sn_ue2f : list (N * N); sn_f2ue : list (N * N) }.

Record ocall := OCall { oc_call : call; oc_orc : list N; oc_cause : N; oc_log : list wbatch; oc_ctrs : list N }.
Inductive ev :=
| EvCalls (cs : list ocall) (snap : option snapshot)        (* the SendMsgToUPF calls of one PFCP event / teardown *)
| EvRestart (log : list wbatch) (snap : option snapshot).
Record case := Case { cs_cfg : ucfg; cs_boot : list wbatch; cs_boot_snap : option snapshot; cs_events : list ev }.

(* ---- comparisons *)
Definition pair_eqb (a b : N * N) : bool := (fst a =? fst b) && (snd a =? snd b).
Definition same_set {A} (eq : A -> A -> bool) (a b : list A) : bool :=
  Nat.eqb (List.length a) (List.length b) && forallb (fun x => existsb (eq x) b) a && forallb (fun x => existsb (eq x) a) b.
Definition tentry_sim (a b : tentry) : bool :=
  (te_table a =? te_table b) && same_set field_eqb (te_match a) (te_match b) &&
  taction_eqb (te_action a) (te_action b) && (te_prio a =? te_prio b).
Definition wupd_eqb (a b : update * code) : bool := update_eqb (fst a) (fst b) && code_eqb (snd a) (snd b).
Definition wbatch_eqb (a b : wbatch) : bool := list_eqb wupd_eqb a b.

Definition log_agrees (model : list batch) (obs : list wbatch) : bool :=
  match all_some (map (resolve_batch I C) model) with
  | None => false
  | Some l => list_eqb wbatch_eqb l obs
  end.
(* the ClearTables batch lists the entries in the order the server returned them: compared as a set *)
Definition log_agrees_unordered (model : list batch) (obs : list wbatch) : bool :=
  match all_some (map (resolve_batch I C) model) with
  | None => false
  | Some l => list_eqb (same_set wupd_eqb) l obs
  end.

Definition cells_resolved (kind : string) (l : list cell) : option (list (N * N)) :=
  all_some (map (fun c => option_map (fun id => (id, snd c)) (const_lookup C kind (fst c))) l).

Definition refs_eqb := same_set pair_eqb.
Definition peer_obs (p : peer) := (pe_dst p, pe_port p, pe_id p, pe_used p).
Definition peer_obs_eqb (a b : N * N * N * list (N * N)) : bool :=
  let '(d1, p1, i1, u1) := a in let '(d2, p2, i2, u2) := b in (d1 =? d2) && (p1 =? p2) && (i1 =? i2) && refs_eqb u1 u2.
Definition app_obs (a : app) := (ap_ip a, ap_lo a, ap_hi a, ap_proto a, ap_id a, ap_used a).
Definition app_obs_eqb (a b : N * N * N * N * N * list (N * N)) : bool :=
  let '(a1, b1, c1, d1, i1, u1) := a in let '(a2, b2, c2, d2, i2, u2) := b in
  (a1 =? a2) && (b1 =? b2) && (c1 =? c2) && (d1 =? d2) && (i1 =? i2) && refs_eqb u1 u2.
Definition mtr_obs (m : mtr) := (mt_fseid m, mt_qer m, mt_type m, mt_ul m, mt_dl m).
Definition mtr_obs_eqb (a b : N * N * N * N * N) : bool :=
  let '(a1, b1, c1, d1, e1) := a in let '(a2, b2, c2, d2, e2) := b in (a1 =? a2) && (b1 =? b2) && (c1 =? c2) && (d1 =? d2) && (e1 =? e2).
Definition queue_agrees (q : list N) (o : N * list N) : bool :=
  (N.of_nat (List.length q) =? fst o) && list_eqb N.eqb (firstn (List.length (snd o)) q) (snd o).

(* reason codes of the first disagreement (for diagnosis): 0 = agrees *)
Definition snap_diff (x : up4) (s : snapshot) : N :=
  match resolve_entries I C (sw_entries (u_sw x)) with
  | None => 10
  | Some es =>
    if negb (same_set tentry_sim es (sn_tables s)) then 11 else
    match cells_resolved "Meter" (sw_meters (u_sw x)), cells_resolved "Counter" (sw_counters (u_sw x)) with
    | Some ms, Some cs =>
      if negb (same_set pair_eqb ms (sn_meters s)) then 12 else
      if negb (same_set pair_eqb cs (sn_counters s)) then 13 else
      if negb (same_set peer_obs_eqb (map peer_obs (u_peers x)) (sn_peers s)) then 14 else
      if negb (same_set app_obs_eqb (map app_obs (u_apps x)) (sn_apps s)) then 15 else
      if negb (same_set mtr_obs_eqb (map mtr_obs (u_meters x)) (sn_mtrs s)) then 16 else
      if negb (same_set N.eqb (u_ctr_pool x) (sn_ctr_pool s)) then 17 else
      if negb (same_set N.eqb (u_app_cells x) (sn_app_cells s)) then 18 else
      if negb (same_set N.eqb (u_sess_cells x) (sn_sess_cells s)) then 19 else
      if negb (queue_agrees (u_peer_pool x) (sn_peer_pool s)) then 20 else
      if negb (queue_agrees (u_app_pool x) (sn_app_pool s)) then 21 else
      if negb (same_set pair_eqb (u_ue2f x) (sn_ue2f s)) then 22 else
      if negb (same_set pair_eqb (u_f2ue x) (sn_f2ue s)) then 23 else 0
    | _, _ => 10
    end
  end.
Definition osnap_diff (x : up4) (s : option snapshot) : N := match s with None => 0 | Some y => snap_diff x y end.

Definition call_diff (g : ucfg) (x : up4) (o : ocall) : up4 * N :=
  let '(x', out) := step g x (oc_call o) (oc_orc o) in
  (x', if negb (cause_of (o_res out) =? oc_cause o) then 1
       else if negb (log_agrees (o_log out) (oc_log o)) then 2
       else if negb (list_eqb N.eqb (map rp_ctr (o_all out)) (oc_ctrs o)) then 3 else 0).

Fixpoint calls_diff (g : ucfg) (x : up4) (cs : list ocall) : up4 * N :=
  match cs with
  | [] => (x, 0)
  | o :: r => let '(x', d) := call_diff g x o in if d =? 0 then calls_diff g x' r else (x', d)
  end.

(* -> (index of the first disagreeing event + 1, reason), (0, 0) when the whole history agrees *)
Fixpoint events_diff (g : ucfg) (x : up4) (i : N) (es : list ev) : N * N :=
  match es with
  | [] => (0, 0)
  | EvCalls cs snap :: r =>
    let '(x', d) := calls_diff g x cs in
    if negb (d =? 0) then (i, d) else
    let d2 := osnap_diff x' snap in
    if negb (d2 =? 0) then (i, d2) else events_diff g x' (i + 1) r
  | EvRestart log snap :: r =>
    let '(x', out) := boot g (u_sw x) in
    if negb (res_eqb (o_res out) ROk) then (i, 4) else
    if negb (log_agrees_unordered (o_log out) log) then (i, 5) else
    let d2 := osnap_diff x' snap in
    if negb (d2 =? 0) then (i, d2) else events_diff g x' (i + 1) r
  end.

Definition case_diff (c : case) : N * N :=
  let '(x, out) := boot (cs_cfg c) empty_switch in
  if negb (res_eqb (o_res out) ROk) then (1000, 4) else
  if negb (log_agrees_unordered (o_log out) (cs_boot c)) then (1000, 5) else
  let d := osnap_diff x (cs_boot_snap c) in
  if negb (d =? 0) then (1000, d) else events_diff (cs_cfg c) x 1 (cs_events c).

Definition agrees (c : case) : bool := let '(i, d) := case_diff c in (i =? 0) && (d =? 0).

Fixpoint idx_where (f : case -> bool) (i : N) (cs : list case) : list N :=
  match cs with
  | [] => []
  | c :: r => if f c then idx_where f (i + 1) r else i :: idx_where f (i + 1) r
  end.
Definition mismatches := idx_where agrees 0.
Definition diffs (cs : list case) : list (N * N) := map case_diff cs.
