(* C12: model vs. implementation on the observations of harness/go/verif_c12_test.go *)
From Coq Require Import NArith List Bool.
From UPF Require Import Model.Retrans.
Import ListNotations.
Open Scope N_scope.

(* ---- synchronous level: one observation per step *)
Record sobs := SObs { o_reply : reply;
                      o_node : option N;          (* nodeID.remote after the step *)
                      o_rts : option N;           (* ts.remote after the step *)
                      o_queued : option N;        (* len(hbReset); None once a monitor drains it *)
                      o_monitor : bool;           (* a monitor goroutine has been started *)
                      o_asked : bool }.           (* isConnected was consulted during the step *)

(* ---- timing level: one observation per exchange *)
Record xobs := XObs { x_tx : list N;              (* wire sequence number of every transmission, in order *)
                      x_resp : list N;            (* per response handed in: 1 delivered to the requester, 2 ignored; the harness also reports 3 = HandlePFCPMsg
                                                     never returned, which no model run produces *)
                      x_teardown : N }.           (* Shutdown ran by itself (0/1) *)

Inductive case :=
  | CSync (c : cfg) (ts : N) (evs : list aev) (obs : list sobs)
  | CExch (n c0 : N) (xs : list (caller * list ev)) (obs : list xobs)
  (* interval, early tolerance, late slack (all in microseconds), monitor start, events (time, true = reset
     handled / false = agent heartbeat observed), end of observation *)
  | CTick (i tol slack t0 : N) (evs : list (N * bool)) (tend : N).

Definition opt_eqb (a b : option N) : bool :=
  match a, b with Some x, Some y => x =? y | None, None => true | _, _ => false end.
Definition feat_eqb (a b : N * N * N * N) : bool :=
  let '(a0, a1, a2, a3) := a in let '(b0, b1, b2, b3) := b in (a0 =? b0) && (a1 =? b1) && (a2 =? b2) && (a3 =? b3).
Definition reply_eqb (a b : reply) : bool :=
  match a, b with
  | HBResp s t, HBResp s' t' => (s =? s') && (t =? t')
  | SetupResp s c t f g, SetupResp s' c' t' f' g' => (s =? s') && (c =? c') && (t =? t') && feat_eqb f f' && (g =? g')
  | NoReply, NoReply => true
  | _, _ => false
  end.
Fixpoint all2 {A B} (f : A -> B -> bool) (x : list A) (y : list B) : bool :=
  match x, y with
  | [], [] => true
  | a :: x', b :: y' => f a b && all2 f x' y'
  | _, _ => false
  end.

Definition sync_step (c : cfg) (s : ast) (e : aev) : ast * sobs :=
  match e with
  | HBReq seq =>
      let '(s', r, _) := handle_hb c s seq in
      (s', SObs r (node_remote s') (ts_remote s') (if 0 <? monitors s' then None else Some (queued s'))
                (0 <? monitors s') false)
  | SetupReq seq node rts conn =>
      let '(s', r, asked) := handle_setup c s seq node rts conn in
      (s', SObs r (node_remote s') (ts_remote s') (if 0 <? monitors s' then None else Some (queued s'))
                (0 <? monitors s') asked)
  end.
Fixpoint sync_run (c : cfg) (s : ast) (es : list aev) : list sobs :=
  match es with [] => [] | e :: r => let '(s', o) := sync_step c s e in o :: sync_run c s' r end.
Definition sobs_eqb (a b : sobs) : bool :=
  reply_eqb (o_reply a) (o_reply b) && opt_eqb (o_node a) (o_node b) && opt_eqb (o_rts a) (o_rts b) &&
  opt_eqb (o_queued a) (o_queued b) && Bool.eqb (o_monitor a) (o_monitor b) && Bool.eqb (o_asked a) (o_asked b).

Fixpoint tx_of (o : list out) : list N := match o with [] => [] | Tx w :: r => w :: tx_of r | _ :: r => tx_of r end.
Fixpoint resp_of (o : list out) : list N :=
  match o with
  | [] => []
  | Deliver :: r => 1 :: resp_of r | Ignored :: r => 2 :: resp_of r
  | DeliverOther :: r => 5 :: resp_of r
  | _ :: r => resp_of r
  end.
Fixpoint td_of (o : list out) : N := match o with [] => 0 | Teardown :: r => 1 + td_of r | _ :: r => td_of r end.
Definition xobs_eqb (o : list out) (b : xobs) : bool :=
  all2 N.eqb (tx_of o) (x_tx b) && all2 N.eqb (resp_of o) (x_resp b) && (td_of o =? x_teardown b).

(* ticker: replay the observed resets against the model, judge every observed heartbeat and every
   stretch without one; [owed] = a reset arrived within the slack after an expiry the agent had not
   acted on yet, so one early-looking heartbeat may still follow *)
Fixpoint tick_check (i tol slack : N) (s : tst) (last : N) (owed : bool) (evs : list (N * bool)) (tend : N) : bool :=
  match evs with
  | [] =>
      let d := tend - last in
      let '(_, f) := tstep i s (Wait d) in
      (f =? 0) || (d - remaining s <=? slack)
  | (t, is_reset) :: r =>
      let d := t - last in
      let '(s', f) := tstep i s (Wait d) in
      let late := d - remaining s in
      if is_reset then
        ((f =? 0) || (late <=? slack)) &&
        tick_check i tol slack (fst (tstep i s' TReset)) t (negb (f =? 0)) r tend
      else if f =? 0
      then (owed || (remaining s' <=? tol)) &&
           tick_check i tol slack (if owed then s' else T (remaining s' + i) true) t false r tend
      else (late <=? slack) && tick_check i tol slack s' t false r tend
  end.

Definition agrees (c : case) : bool :=
  match c with
  | CSync cf ts evs obs => all2 sobs_eqb (sync_run cf (ainit ts) evs) obs
  | CExch n c0 xs obs => all2 xobs_eqb (calls n (C c0 []) true xs) obs
  | CTick i tol slack t0 evs tend => tick_check i tol slack (tstart i) t0 false evs tend
  end.

Fixpoint mismatches_from (i : N) (cs : list case) : list N :=
  match cs with
  | [] => []
  | c :: r => if agrees c then mismatches_from (i + 1) r else i :: mismatches_from (i + 1) r
  end.
Definition mismatches := mismatches_from 0.
