(* C10 - one step of the RSel thread of an association preserves the association invariant *)
From Coq Require Import NArith String List Bool Arith Lia.
From UPF Require Import Base.LTS Model.Teardown Proofs.TeardownInv.
Import ListNotations.
Open Scope list_scope.

Lemma ainv_step_sel sess me alt nd a nd' a' t' :
  AInv sess a ->
  thread_step me RSel alt nd a (get_thr a RSel) = Ok (nd', a', t') ->
  AInv sess (set_thr a' RSel t').
Proof.
  intros Hinv H.
  destruct a as [st de on sh tm hb so ib ta ha rd se ht fs].
  destruct Hinv as (Hrd & Hsel & Hhb & Hfst & Hd & Htmo). cbn in H.
  destruct on as [|r0|]; [home_script se Hsel | destruct r0 | home_script se Hsel];
    [home_script se Hsel | do_script se Hsel | home_script se Hsel | home_script se Hsel | | ];
    unfold Data in Hd; cbn in Hd; destruct Hd; discriminate.
Qed.
