(* Proofs about Model/PortRange.v (C17). *)
From Coq Require Import ZArith NArith List Bool Lia ZifyN ZifyNat ZifyBool.
From UPF Require Import Base.Words Model.PortRange.
Import ListNotations.
Ltac Zify.zify_post_hook ::= Z.div_mod_to_equations.
Open Scope N_scope.

Arguments N.ones : simpl never.
Arguments N.land : simpl never.
Arguments N.ldiff : simpl never.
Arguments N.pow : simpl never.
Arguments N.modulo : simpl never.
Arguments N.div : simpl never.

Definition wf16 (r : prange) : Prop := lo r < U16 /\ hi r < U16.

Definition count (x : N) (rs : list trule) : nat := length (filter (fun t => tmatch t x) rs).
Definition b2n (b : bool) : nat := if b then 1%nat else 0%nat.

Lemma land_max16 x : x < U16 -> N.land x MAX16 = x.
Proof.
  intros H. change MAX16 with (N.ones 16). rewrite N.land_ones.
  apply N.mod_small. exact H.
Qed.

Lemma tmatch_exact p x : p < U16 -> x < U16 -> tmatch (TR p MAX16) x = (x =? p).
Proof. intros Hp Hx. unfold tmatch; cbn [t_port t_mask]. now rewrite !land_max16. Qed.

Lemma tmatch_wild x : tmatch (TR 0 0) x = true.
Proof. unfold tmatch; cbn [t_port t_mask]. rewrite !N.land_0_r. reflexivity. Qed.

Lemma count_exact_loop n p x : x < U16 -> p + N.of_nat n <= U16 ->
  count x (exact_loop n p) = b2n ((p <=? x) && (x <? p + N.of_nat n)).
Proof.
  revert p. induction n as [|n IH]; intros p Hx Hp.
  - cbn. destruct (p <=? x) eqn:?, (x <? p + 0) eqn:?; cbn; try reflexivity; lia.
  - cbn [exact_loop]. unfold count in *. cbn [filter].
    rewrite tmatch_exact by lia.
    destruct (x =? p) eqn:E.
    + cbn [length]. rewrite IH by lia.
      destruct (p + 1 <=? x) eqn:?; destruct (p <=? x) eqn:?; destruct (x <? p + N.of_nat (S n)) eqn:?;
      destruct (x <? p + 1 + N.of_nat n) eqn:?; cbn; try reflexivity; lia.
    + rewrite IH by lia.
      destruct (p + 1 <=? x) eqn:?; destruct (p <=? x) eqn:?; destruct (x <? p + N.of_nat (S n)) eqn:?;
      destruct (x <? p + 1 + N.of_nat n) eqn:?; cbn; try reflexivity; lia.
Qed.

(* ---------- the Ternary strategy ---------- *)

Definition tm_at (k : nat) : N := himask 16 (N.of_nat k).
Definition bit_at (k : nat) : N := w16 (2 ^ N.of_nat k).

Ltac conc :=
  repeat match goal with
  | |- context [tm_at ?k] => let v := eval vm_compute in (tm_at k) in change (tm_at k) with v
  | |- context [bit_at ?k] => let v := eval vm_compute in (bit_at k) in change (bit_at k) with v
  | H : context [tm_at ?k] |- _ => let v := eval vm_compute in (tm_at k) in change (tm_at k) with v in H
  | H : context [bit_at ?k] |- _ => let v := eval vm_compute in (bit_at k) in change (bit_at k) with v in H
  end.

Definition good (port e j m : N) : Prop :=
  j <= 15 /\ m = himask 16 j /\ port mod 2 ^ j = 0 /\ port + 2 ^ j - 1 <= e.

Lemma tm_next k : (k < 16)%nat -> w16 (tm_at k + U16 - bit_at k) = tm_at (S k).
Proof. intros H. do 16 (destruct k as [|k]; [reflexivity|]). lia. Qed.
Lemma bit_next k : (k < 16)%nat -> w16 (bit_at k * 2) = bit_at (S k).
Proof. intros H. do 16 (destruct k as [|k]; [reflexivity|]). lia. Qed.

Lemma land_tm_at k p : p < U16 -> N.land p (tm_at k) = p / 2 ^ N.of_nat k * 2 ^ N.of_nat k.
Proof. intros H. unfold tm_at. apply land_himask_arith. exact H. Qed.

Lemma pm_loop_inv : forall fuel k port e mask netPort maxP,
  (k <= 16)%nat -> (17 - k < fuel)%nat -> 0 < port < U16 -> e < U16 ->
  (exists j, good port e j mask) ->
  exists m j, port_mask_loop fuel port e (bit_at k) mask (tm_at k) netPort maxP = Some m
              /\ good port e j m.
Proof.
  induction fuel as [|f IH]; intros k port e mask netPort maxP Hk Hf Hport He [j0 Hg]; [lia|].
  cbn [port_mask_loop].
  destruct ((0 <? netPort) && (maxP <? e)) eqn:Hc; [|now exists mask, j0].
  pose proof (land_tm_at k port (proj2 Hport)) as Hl.
  destruct (N.land port (tm_at k) <? port) eqn:Hlt; [now exists mask, j0|].
  destruct (Nat.eq_dec k 16) as [->|Hk16].
  { exfalso. change (tm_at 16) with 0 in Hlt. rewrite N.land_0_r in Hlt. lia. }
  assert (Hk' : (k < 16)%nat) by lia.
  rewrite tm_next, bit_next by assumption.
  apply IH; try assumption; try lia.
  destruct (max_port (N.land port (tm_at k)) (tm_at k) <=? e) eqn:Hle; [|now exists j0].
  exists (N.of_nat k). unfold good. unfold max_port in Hle.
  assert (Hal : N.land port (tm_at k) = port).
  { pose proof (N.land_spec port (tm_at k)).
    assert (N.land port (tm_at k) <= port).
    { rewrite Hl. set (P := 2 ^ N.of_nat k). assert (0 < P) by (apply N.neq_0_lt_0, N.pow_nonzero; lia). lia. }
    lia. }
  rewrite Hal in Hle, Hl. rewrite Hal in Hle.
  clear IH Hc Hlt Hg. revert Hl Hle.
  do 16 (destruct k as [|k]; [conc; cbn [N.of_nat Pos.of_succ_nat Pos.succ]; intros Hl Hle;
     repeat split; try reflexivity; unfold w16, U16, MAX16 in *; lia |]).
  lia.
Qed.

Lemma port_mask_spec port e : port < U16 -> e < U16 -> port <= e ->
  exists m j, port_mask port e = Some m /\ good port e j m.
Proof.
  intros Hp He Hle. unfold port_mask. rewrite land_max16 by assumption.
  destruct (N.eq_dec port 0) as [->|Hnz].
  - exists MAX16, 0. split; [reflexivity|]. unfold good. repeat split; try reflexivity; lia.
  - change 1 with (bit_at 0) at 1. change MAX16 with (tm_at 0) at 2.
    apply pm_loop_inv; try lia; [unfold PM_FUEL; lia|].
    exists 0. unfold good. repeat split; try reflexivity; try lia.
Qed.

Lemma j_cases j : j <= 15 ->
  j = 0 \/ j = 1 \/ j = 2 \/ j = 3 \/ j = 4 \/ j = 5 \/ j = 6 \/ j = 7 \/ j = 8 \/ j = 9 \/
  j = 10 \/ j = 11 \/ j = 12 \/ j = 13 \/ j = 14 \/ j = 15.
Proof. lia. Qed.

Ltac jsplit H := apply j_cases in H;
  repeat (destruct H as [H|H]; [subst|]); [..|subst].

(* what a good rule matches, and where the loop continues *)
Lemma good_rule port e j m x : port < U16 -> e < U16 -> x < U16 -> good port e j m ->
  tmatch (TR port m) x = ((port <=? x) && (x <? port + 2 ^ j))
  /\ max_port port m + 1 = port + 2 ^ j /\ m <> 0.
Proof.
  intros Hp He Hx (Hj & -> & Hal & Hb). unfold tmatch, max_port. cbn [t_port t_mask].
  rewrite !land_himask_arith by assumption.
  jsplit Hj;
  match goal with |- context [himask 16 ?k] =>
     let v := eval vm_compute in (himask 16 k) in change (himask 16 k) with v end;
  unfold w16, U16, MAX16 in *;
  (split; [ match goal with |- (?a =? ?b) = ?c => destruct (a =? b) eqn:?; destruct c eqn:? end; try reflexivity; lia
          | split; lia ]).
Qed.

Lemma pow2_pos j : 0 < 2 ^ j.
Proof. apply N.neq_0_lt_0, N.pow_nonzero. lia. Qed.

Lemma ternary_loop_spec : forall fuel port h,
  h < U16 -> port <= h + 1 -> (N.to_nat (h + 1 - port) <= fuel)%nat ->
  exists rs, ternary_loop fuel port h = Some rs
    /\ (forall x, x < U16 -> count x rs = b2n ((port <=? x) && (x <=? h)))
    /\ (forall t, In t rs -> t_mask t <> 0).
Proof.
  induction fuel as [|f IH]; intros port h Hh Hp Hf.
  - cbn [ternary_loop]. destruct (port <=? h) eqn:E; [lia|].
    exists []. repeat split; [|intros t []].
    intros x Hx. cbn. destruct (port <=? x) eqn:?, (x <=? h) eqn:?; cbn; try reflexivity; lia.
  - cbn [ternary_loop]. destruct (port <=? h) eqn:E.
    + assert (Hp16 : port < U16) by lia.
      assert (Hw : w16 port = port) by (unfold w16; apply N.mod_small; lia).
      rewrite Hw.
      destruct (port_mask_spec port h Hp16 Hh ltac:(lia)) as (m & j & Hm & Hg).
      rewrite Hm.
      destruct (good_rule port h j m 0 Hp16 Hh ltac:(unfold U16; lia) Hg) as (_ & Hnext & Hnz).
      rewrite Hnext.
      pose proof (pow2_pos j) as Hpos.
      assert (Hb : port + 2 ^ j - 1 <= h) by (destruct Hg as (_ & _ & _ & Hb); exact Hb).
      destruct (IH (port + 2 ^ j) h Hh ltac:(lia) ltac:(lia)) as (rs & Hrs & Hcount & Hmask).
      rewrite Hrs. exists (TR port m :: rs). split; [reflexivity|]. split.
      * intros x Hx. unfold count in *. cbn [filter].
        destruct (good_rule port h j m x Hp16 Hh Hx Hg) as (Ht & _ & _). rewrite Ht.
        specialize (Hcount x Hx).
        destruct ((port <=? x) && (x <? port + 2 ^ j)) eqn:E1; cbn [length]; rewrite Hcount;
        destruct (port + 2 ^ j <=? x) eqn:?; destruct (x <=? h) eqn:?; destruct (port <=? x) eqn:?;
        destruct (x <? port + 2 ^ j) eqn:?; cbn in *; try reflexivity; try discriminate; lia.
      * intros t [<-|Hin]; [exact Hnz | now apply Hmask].
    + exists []. repeat split; [|intros t []].
      intros x Hx. cbn. destruct (port <=? x) eqn:?, (x <=? h) eqn:?; cbn; try reflexivity; lia.
Qed.

(* ---------- top-level statements ---------- *)

Lemma count_existsb x rs : existsb (fun t => tmatch t x) rs = negb (Nat.eqb (count x rs) 0).
Proof.
  unfold count. induction rs as [|t rs IH]; [reflexivity|].
  cbn [existsb filter]. destruct (tmatch t x); cbn; [reflexivity|exact IH].
Qed.

Lemma in_range_not_wild r x : is_wild r = false -> in_range r x = ((lo r <=? x) && (x <=? hi r)).
Proof. intros H. unfold in_range. now rewrite H. Qed.

(* One statement for both strategies: when expansion succeeds, every port below 2^16
   is matched by exactly one rule if it lies in the range and by none otherwise. *)
Lemma as_complex_exact_cover s r rs x : wf16 r -> x < U16 ->
  as_complex s r = Ok rs -> count x rs = b2n (in_range r x).
Proof.
  intros [Hlo Hhi] Hx. unfold as_complex.
  destruct (is_exact r) eqn:Hex.
  { intros [= <-]. unfold count. cbn [filter]. unfold as_exact_unchecked.
    rewrite tmatch_exact by assumption. unfold is_exact in Hex.
    unfold in_range, is_wild.
    destruct (x =? lo r) eqn:?; destruct ((lo r =? 0) && (hi r =? MAX16) || (lo r =? 0) && (hi r =? 0)) eqn:?;
    destruct ((lo r <=? x) && (x <=? hi r)) eqn:?; cbn; try reflexivity; unfold MAX16 in *; lia. }
  destruct (is_wild r) eqn:Hw.
  { intros [= <-]. unfold count. cbn [filter]. rewrite tmatch_wild. unfold in_range. now rewrite Hw. }
  rewrite in_range_not_wild by assumption.
  destruct s.
  - destruct (EXACT_LIMIT <? width r); [discriminate|]. intros [= <-].
    rewrite count_exact_loop by (try assumption; unfold U16 in *; lia).
    destruct (lo r <=? x) eqn:?; destruct (x <=? hi r) eqn:?;
    destruct (x <? lo r + N.of_nat (N.to_nat (hi r + 1 - lo r))) eqn:?; cbn; try reflexivity; lia.
  - destruct (N.le_gt_cases (lo r) (hi r + 1)) as [Hle|Hgt].
    + destruct (ternary_loop_spec (N.to_nat (hi r + 1 - lo r)) (lo r) (hi r) Hhi Hle ltac:(lia))
        as (rs' & Hrs & Hc & _).
      rewrite Hrs. intros [= <-]. now apply Hc.
    + replace (hi r + 1 - lo r) with 0 by lia. cbn [N.to_nat ternary_loop].
      destruct (lo r <=? hi r) eqn:?; [lia|]. intros [= <-]. cbn.
      destruct (lo r <=? x) eqn:?; destruct (x <=? hi r) eqn:?; cbn; try reflexivity; lia.
Qed.

Lemma ternary_total r : wf16 r -> exists rs, as_complex Ternary r = Ok rs.
Proof.
  intros [Hlo Hhi]. unfold as_complex.
  destruct (is_exact r); [eauto|]. destruct (is_wild r); [eauto|].
  destruct (N.le_gt_cases (lo r) (hi r + 1)) as [Hle|Hgt].
  - destruct (ternary_loop_spec (N.to_nat (hi r + 1 - lo r)) (lo r) (hi r) Hhi Hle ltac:(lia))
      as (rs' & Hrs & _). rewrite Hrs. eauto.
  - replace (hi r + 1 - lo r) with 0 by lia. cbn [N.to_nat ternary_loop].
    destruct (lo r <=? hi r) eqn:?; [lia|]. eauto.
Qed.

Lemma exact_never_out_of_fuel r : as_complex Exact r <> OutOfFuel.
Proof.
  unfold as_complex. destruct (is_exact r); [discriminate|]. destruct (is_wild r); [discriminate|].
  destruct (EXACT_LIMIT <? width r); discriminate.
Qed.

Lemma exact_refuses_wide r : is_range r = true -> EXACT_LIMIT < width r -> as_complex Exact r = Err.
Proof.
  unfold is_range, as_complex. intros H Hw.
  destruct (is_exact r); [discriminate|]. destruct (is_wild r); [discriminate|].
  destruct (EXACT_LIMIT <? width r) eqn:E; [reflexivity|lia].
Qed.

Lemma exact_accepts_narrow r : width r <= EXACT_LIMIT -> exists rs, as_complex Exact r = Ok rs.
Proof.
  unfold as_complex. intros Hw.
  destruct (is_exact r); [eauto|]. destruct (is_wild r); [eauto|].
  destruct (EXACT_LIMIT <? width r) eqn:E; [lia|eauto].
Qed.

(* a zero mask is emitted only for the wildcard denotation *)
Lemma mask0_only_wild s r rs t : wf16 r -> as_complex s r = Ok rs -> In t rs -> t_mask t = 0 ->
  is_wild r = true.
Proof.
  intros [Hlo Hhi]. unfold as_complex.
  destruct (is_exact r) eqn:Hex.
  { intros [= <-] [<-|[]]. cbn. discriminate. }
  destruct (is_wild r) eqn:Hw; [reflexivity|].
  destruct s.
  - destruct (EXACT_LIMIT <? width r); [discriminate|]. intros [= <-] Hin Hm. exfalso.
    revert Hin Hm. generalize (N.to_nat (hi r + 1 - lo r)) as n. generalize (lo r) as p.
    intros p n; revert p; induction n as [|n IH]; intros p; cbn [exact_loop In].
    + intros [].
    + intros [<-|Hin]; [cbn; discriminate|]. now apply (IH (p + 1)).
  - destruct (N.le_gt_cases (lo r) (hi r + 1)) as [Hle|Hgt].
    + destruct (ternary_loop_spec (N.to_nat (hi r + 1 - lo r)) (lo r) (hi r) Hhi Hle ltac:(lia))
        as (rs' & Hrs & _ & Hm).
      rewrite Hrs. intros [= <-] Hin Hz. now apply Hm in Hin.
    + replace (hi r + 1 - lo r) with 0 by lia. cbn [N.to_nat ternary_loop].
      destruct (lo r <=? hi r) eqn:?; [lia|]. intros [= <-] [].
Qed.

Lemma wild_mask0 s r : is_wild r = true -> as_complex s r = Ok [TR 0 0].
Proof.
  intros H. unfold as_complex. rewrite H.
  assert (is_exact r = false) as ->; [|reflexivity].
  unfold is_wild, is_exact in *. unfold MAX16 in *. lia.
Qed.

(* ---------- Cartesian product ---------- *)

Definition pcount (x y : N) (rs : list prod_rule) : nat := length (filter (fun p => pmatch p x y) rs).

Lemma as_trivial_spec r t x : wf16 r -> x < U16 -> as_trivial r = Some t ->
  tmatch t x = in_range r x /\ is_range r = false /\ (t_mask t = 0 -> is_wild r = true).
Proof.
  intros [Hlo Hhi] Hx. unfold as_trivial, is_range.
  destruct (is_wild r) eqn:Hw.
  { intros [= <-]. rewrite tmatch_wild. unfold in_range. rewrite Hw.
    rewrite andb_false_r. auto. }
  destruct (is_exact r) eqn:He; [|discriminate].
  intros [= <-]. unfold as_exact_unchecked. rewrite tmatch_exact by assumption.
  rewrite in_range_not_wild by assumption. unfold is_exact in He. cbn [t_mask].
  repeat split; try discriminate.
  destruct (x =? lo r) eqn:?; destruct ((lo r <=? x) && (x <=? hi r)) eqn:?; try reflexivity; lia.
Qed.

Lemma pcount_map_l (rs : list trule) t x y :
  pcount x y (map (fun r => PRD (t_port r) (t_mask r) (t_port t) (t_mask t)) rs)
  = if tmatch t y then count x rs else 0%nat.
Proof.
  unfold pcount, count. induction rs as [|r rs IH]; cbn [map filter].
  - now destruct (tmatch t y).
  - unfold pmatch at 1. cbn [sp sm dp dm]. fold (tmatch r x). fold (tmatch t y).
    destruct (tmatch r x), (tmatch t y); cbn [andb length]; rewrite IH; try reflexivity.
    all: destruct (tmatch t y) eqn:E; try reflexivity; try discriminate.
Qed.

Lemma pcount_map_r (rs : list trule) t x y :
  pcount x y (map (fun r => PRD (t_port t) (t_mask t) (t_port r) (t_mask r)) rs)
  = if tmatch t x then count y rs else 0%nat.
Proof.
  unfold pcount, count. induction rs as [|r rs IH]; cbn [map filter].
  - now destruct (tmatch t x).
  - unfold pmatch at 1. cbn [sp sm dp dm]. fold (tmatch r y). fold (tmatch t x).
    destruct (tmatch r y), (tmatch t x); cbn [andb length]; rewrite IH; try reflexivity.
    all: destruct (tmatch t x) eqn:E; try reflexivity; try discriminate.
Qed.

Lemma cartesian_exact_cover s d rs x y : wf16 s -> wf16 d -> x < U16 -> y < U16 ->
  cartesian s d = Ok rs -> pcount x y rs = b2n (in_range s x && in_range d y).
Proof.
  intros Hs Hd Hx Hy. unfold cartesian.
  destruct (is_range s && is_range d); [discriminate|].
  destruct (is_range s) eqn:Hrs.
  { destruct (as_complex Exact s) as [srs| |] eqn:Hc; try discriminate.
    destruct (as_trivial d) as [t|] eqn:Ht; [|discriminate]. intros [= <-].
    rewrite pcount_map_l.
    destruct (as_trivial_spec d t y Hd Hy Ht) as (-> & _ & _).
    rewrite (as_complex_exact_cover Exact s srs x Hs Hx Hc).
    destruct (in_range s x), (in_range d y); reflexivity. }
  destruct (is_range d) eqn:Hrd.
  { destruct (as_complex Exact d) as [drs| |] eqn:Hc; try discriminate.
    destruct (as_trivial s) as [t|] eqn:Ht; [|discriminate]. intros [= <-].
    rewrite pcount_map_r.
    destruct (as_trivial_spec s t x Hs Hx Ht) as (-> & _ & _).
    rewrite (as_complex_exact_cover Exact d drs y Hd Hy Hc).
    destruct (in_range s x), (in_range d y); reflexivity. }
  destruct (as_trivial s) as [a|] eqn:Ha; [|discriminate].
  destruct (as_trivial d) as [b|] eqn:Hb; [|discriminate].
  intros [= <-]. unfold pcount. cbn [filter]. unfold pmatch. cbn [sp sm dp dm].
  fold (tmatch a x). fold (tmatch b y).
  destruct (as_trivial_spec s a x Hs Hx Ha) as (-> & _ & _).
  destruct (as_trivial_spec d b y Hd Hy Hb) as (-> & _ & _).
  destruct (in_range s x), (in_range d y); reflexivity.
Qed.

Lemma as_trivial_total r : is_range r = false -> exists t, as_trivial r = Some t.
Proof.
  unfold is_range, as_trivial. destruct (is_wild r); [eauto|]. destruct (is_exact r); [eauto|discriminate].
Qed.

(* refusal is exact: Err iff both true ranges, or the true range is wider than the limit *)
Lemma cartesian_refuses_iff s d :
  cartesian s d = Err <->
  (is_range s = true /\ is_range d = true) \/
  (is_range s = true /\ EXACT_LIMIT < width s) \/
  (is_range d = true /\ EXACT_LIMIT < width d).
Proof.
  unfold cartesian.
  destruct (is_range s) eqn:Hs; destruct (is_range d) eqn:Hd; cbn [andb].
  - split; auto.
  - destruct (as_trivial_total d Hd) as [t ->].
    unfold as_complex. unfold is_range in Hs.
    destruct (is_exact s); [discriminate|]. destruct (is_wild s); [discriminate|].
    destruct (EXACT_LIMIT <? width s) eqn:E.
    + split; [right; left; split; [reflexivity|lia]|reflexivity].
    + split; [discriminate|]. intros [[_ H]|[[_ H]|[H _]]]; try discriminate; lia.
  - destruct (as_trivial_total s Hs) as [t ->].
    unfold as_complex. unfold is_range in Hd.
    destruct (is_exact d); [discriminate|]. destruct (is_wild d); [discriminate|].
    destruct (EXACT_LIMIT <? width d) eqn:E.
    + split; [right; right; split; [reflexivity|lia]|reflexivity].
    + split; [discriminate|]. intros [[H _]|[[H _]|[_ H]]]; try discriminate; lia.
  - destruct (as_trivial_total s Hs) as [a ->]. destruct (as_trivial_total d Hd) as [b ->].
    split; [discriminate|]. intros [[H _]|[[H _]|[H _]]]; discriminate.
Qed.

Lemma cartesian_never_out_of_fuel s d : cartesian s d <> OutOfFuel.
Proof.
  unfold cartesian. destruct (is_range s && is_range d); [discriminate|].
  destruct (is_range s).
  { pose proof (exact_never_out_of_fuel s). destruct (as_complex Exact s); try discriminate; try contradiction.
    destruct (as_trivial d); discriminate. }
  destruct (is_range d).
  { pose proof (exact_never_out_of_fuel d). destruct (as_complex Exact d); try discriminate; try contradiction.
    destruct (as_trivial s); discriminate. }
  destruct (as_trivial s); [|discriminate]. destruct (as_trivial d); discriminate.
Qed.

(* a wildcard on one side of a product rule only if that side denotes every port *)
Lemma cartesian_mask0 s d rs p : wf16 s -> wf16 d -> cartesian s d = Ok rs -> In p rs ->
  (sm p = 0 -> is_wild s = true) /\ (dm p = 0 -> is_wild d = true).
Proof.
  intros Hs Hd. unfold cartesian.
  destruct (is_range s && is_range d); [discriminate|].
  destruct (is_range s) eqn:Hrs.
  { destruct (as_complex Exact s) as [srs| |] eqn:Hc; try discriminate.
    destruct (as_trivial d) as [t|] eqn:Ht; [|discriminate]. intros [= <-] Hin.
    apply in_map_iff in Hin. destruct Hin as (r & <- & Hin). cbn [sm dm]. split.
    - intros Hz. eapply mask0_only_wild; eauto.
    - intros Hz. destruct (as_trivial_spec d t 0 Hd ltac:(unfold U16; lia) Ht) as (_ & _ & H). auto. }
  destruct (is_range d) eqn:Hrd.
  { destruct (as_complex Exact d) as [drs| |] eqn:Hc; try discriminate.
    destruct (as_trivial s) as [t|] eqn:Ht; [|discriminate]. intros [= <-] Hin.
    apply in_map_iff in Hin. destruct Hin as (r & <- & Hin). cbn [sm dm]. split.
    - intros Hz. destruct (as_trivial_spec s t 0 Hs ltac:(unfold U16; lia) Ht) as (_ & _ & H). auto.
    - intros Hz. eapply mask0_only_wild; eauto. }
  destruct (as_trivial s) as [a|] eqn:Ha; [|discriminate].
  destruct (as_trivial d) as [b|] eqn:Hb; [|discriminate].
  intros [= <-] [<-|[]]. cbn [sm dm]. split; intros Hz.
  - destruct (as_trivial_spec s a 0 Hs ltac:(unfold U16; lia) Ha) as (_ & _ & H). auto.
  - destruct (as_trivial_spec d b 0 Hd ltac:(unfold U16; lia) Hb) as (_ & _ & H). auto.
Qed.
