(* C10 - one step of the RRd thread of an association preserves the association invariant *)
From Coq Require Import NArith String List Bool Arith Lia.
From UPF Require Import Base.LTS Model.Teardown Proofs.TeardownInv.
Import ListNotations.
Open Scope list_scope.

Lemma ainv_step_rd sess me alt nd a nd' a' t' :
  AInv sess a ->
  thread_step me RRd alt nd a (get_thr a RRd) = Ok (nd', a', t') ->
  AInv sess (set_thr a' RRd t').
Proof.
  intros Hinv H.
  destruct a as [st de on sh tm hb so ib ta ha rd se ht fs].
  destruct Hinv as (Hrd & Hsel & Hhb & Hfst & Hd & Htmo). cbn in H.
  destruct on as [|r0|]; [home_script rd Hrd | destruct r0 | home_script rd Hrd];
    [do_script rd Hrd | home_script rd Hrd | home_script rd Hrd | home_script rd Hrd | | ];
    unfold Data in Hd; cbn in Hd; destruct Hd; discriminate.
Qed.
