(* Lemmas about the agent model (Model/Agent.v) used by Props/C01, C02, C03, C05, C14. *)
From Coq Require Import NArith Arith List Bool Lia ZifyN ZifyNat ZifyBool.
From UPF Require Import Model.IPPool Model.Fteid Model.PortRange Model.Agent Proofs.PortRangeProofs Proofs.IPPoolProofs.
Import ListNotations.
Open Scope N_scope.

(* ------------------------------------------------------------------ MarkSessionQer never indexes out of range *)
Lemma select_qer_bound : forall qs idx lst ci cid cm,
  let '(r, _, _) := select_qer qs idx lst (ci, cid, cm) in
  r = ci \/ (idx <= r < idx + length qs)%nat.
Proof.
  induction qs as [|q qs IH]; intros idx lst ci cid cm; cbn [select_qer length].
  - left; reflexivity.
  - destruct (mem_n (q_id q) lst).
    + destruct ((0 <? q_gul q) || (0 <? q_gdl q)).
      * specialize (IH (S idx) lst ci cid cm). destruct (select_qer qs (S idx) lst (ci, cid, cm)) as [[r a] b].
        destruct IH as [IH|IH]; [left; exact IH | right; lia].
      * destruct (cm <=? q_mul q).
        -- specialize (IH (S idx) lst idx (q_id q) (q_mul q)).
           destruct (select_qer qs (S idx) lst (idx, q_id q, q_mul q)) as [[r a] b].
           destruct IH as [IH|IH]; right; lia.
        -- specialize (IH (S idx) lst ci cid cm). destruct (select_qer qs (S idx) lst (ci, cid, cm)) as [[r a] b].
           destruct IH as [IH|IH]; [left; exact IH | right; lia].
    + specialize (IH (S idx) lst ci cid cm). destruct (select_qer qs (S idx) lst (ci, cid, cm)) as [[r a] b].
      destruct IH as [IH|IH]; [left; exact IH | right; lia].
Qed.

Lemma mark_session_qer_done ps qs : exists r, mark_session_qer ps qs = Done r.
Proof.
  unfold mark_session_qer. destruct ps as [|p ps]; [eexists; reflexivity|].
  destruct (nth_error (p :: ps) (length (p :: ps) - 1)) as [lastp|] eqn:En.
  2:{ apply nth_error_None in En. cbn [length] in En. lia. }
  destruct (Nat.ltb (length (p_qers lastp)) 1 || Nat.ltb (length qs) 2) eqn:Eg; [eexists; reflexivity|].
  destruct (search_list (p :: ps) (p_qers lastp)) as [lst'|]; [|eexists; reflexivity].
  pose proof (select_qer_bound qs O lst' O 0 0) as Hb.
  destruct (select_qer qs 0 lst' (0%nat, 0, 0)) as [[sidx sid] sm].
  destruct (nth_error qs sidx) eqn:Eq; [eexists; reflexivity|].
  apply nth_error_None in Eq.
  apply orb_false_iff in Eg. destruct Eg as [_ Eg]. apply PeanoNat.Nat.ltb_ge in Eg.
  destruct Hb as [Hb|Hb]; lia.
Qed.

(* ------------------------------------------------------------------ C01: no datagram makes the model crash *)
Section NoCrash.
  Variable burst : N -> N -> N -> N.

  Lemma handle_est_done a c nid cpf pdrs fars qers draws : exists r, handle_est burst a c nid cpf pdrs fars qers draws = Done r.
  Proof.
    unfold handle_est.
    repeat match goal with
           | |- exists r, Done _ = Done r => eexists; reflexivity
           | |- context [match mark_session_qer ?x ?y with _ => _ end] =>
             let H := fresh in destruct (mark_session_qer_done x y) as [[? ?] H]; rewrite H
           | |- context [match ?x with _ => _ end] => destruct x
           | |- context [if ?x then _ else _] => destruct x
           end.
  Qed.

  Lemma handle_mod_done a c seid cpf cp cf cq up uf uq rp rf rq :
    exists r, handle_mod burst a c seid cpf cp cf cq up uf uq rp rf rq = Done r.
  Proof.
    unfold handle_mod.
    repeat match goal with
           | |- exists r, Done _ = Done r => eexists; reflexivity
           | |- context [match mark_session_qer ?x ?y with _ => _ end] =>
             let H := fresh in destruct (mark_session_qer_done x y) as [[? ?] H]; rewrite H
           | |- context [match ?x with _ => _ end] => destruct x
           | |- context [if ?x then _ else _] => destruct x
           end.
  Qed.

  Lemma handle_done a c connected m draws : exists r, handle burst a c connected m draws = Done r.
  Proof.
    destruct m; cbn [handle];
      try (eexists; reflexivity);
      try apply handle_est_done; try apply handle_mod_done.
    - repeat match goal with
             | |- exists r, Done _ = Done r => eexists; reflexivity
             | |- context [match ?x with _ => _ end] => destruct x
             | |- context [if ?x then _ else _] => destruct x
             end.
    - destruct (do_shutdown a c) as [[? ?] ?]. eexists; reflexivity.
    - destruct (pfd_apps apps []); eexists; reflexivity.
  Qed.
End NoCrash.

(* ------------------------------------------------------------------ C02: the reply a message gets *)
Definition reply_matches (m : msg) (r : option reply) : Prop :=
  match m with
  | MHeartbeat => r = Some RHeartbeat
  | MSetup (Some (IOk _)) (Some (IOk _)) => exists c, r = Some (RSetup c)
  | MSetup _ _ => r = None
  | MRelease => r = Some RRelease
  | MPfd _ => exists c, r = Some (RPfd c)
  | MEst _ _ _ _ _ => exists s c n u cr, r = Some (REst s c n u cr)
  | MMod _ _ _ _ _ _ _ _ _ _ _ => exists s c, r = Some (RMod s c)
  | MDel _ => exists s c, r = Some (RDel s c)
  | MReportRsp _ _ | MResponse | MOther => r = None
  end.

Ltac split_all H :=
  repeat match type of H with
         | context [match mark_session_qer ?x ?y with _ => _ end] =>
           let E := fresh in destruct (mark_session_qer_done x y) as [[? ?] E]; rewrite E in H
         | context [match ?x with _ => _ end] => destruct x eqn:?
         | context [if ?x then _ else _] => destruct x eqn:?
         end.

Section Replies.
  Variable burst : N -> N -> N -> N.

  Lemma handle_reply_matches a c connected m draws a' c' o :
    handle burst a c connected m draws = Done (a', c', o) -> reply_matches m (o_reply o).
  Proof.
    intros H. destruct m; cbn [handle] in H.
    - inversion H; reflexivity.
    - cbn [reply_matches]. split_all H; inversion H; subst; cbn; eauto.
    - destruct (do_shutdown a c) as [[? ?] ?]. inversion H; reflexivity.
    - cbn [reply_matches]. split_all H; inversion H; subst; cbn; eauto.
    - cbn [reply_matches]. unfold handle_est in H. split_all H; inversion H; subst; cbn; eauto 8.
    - cbn [reply_matches]. unfold handle_mod in H. split_all H; inversion H; subst; cbn; eauto.
    - cbn [reply_matches]. unfold handle_del in H. split_all H; inversion H; subst; cbn; eauto.
    - cbn [reply_matches]. unfold handle_report_rsp in H. split_all H; inversion H; subst; cbn; eauto.
    - inversion H; reflexivity.
    - inversion H; reflexivity.
  Qed.

  (* requests that name an unknown session are rejected with SEID 0 and change nothing *)
  Lemma mod_unknown a c seid cpf cp cf cq up uf uq rp rf rq :
    find_session seid (c_sessions c) = None ->
    handle_mod burst a c seid cpf cp cf cq up uf uq rp rf rq = Done (a, c, just (RMod 0 CAUSE_REJ)).
  Proof. intros H. unfold handle_mod. rewrite H. reflexivity. Qed.

  Lemma del_unknown a c seid :
    find_session seid (c_sessions c) = None -> handle_del a c seid = (a, c, just (RDel 0 CAUSE_REJ)).
  Proof. intros H. unfold handle_del. rewrite H. reflexivity. Qed.

  Lemma est_without_association a c nid cpf pdrs fars qers draws n rseid v4 :
    nid = Some (IOk n) -> cpf = Some (IOk (rseid, v4)) -> (c_remote c = 0 \/ n <> c_remote c) ->
    handle_est burst a c nid cpf pdrs fars qers draws = Done (a, c, just (REst rseid CAUSE_NOASSOC true None [])).
  Proof.
    intros -> -> H. unfold handle_est.
    destruct H as [H|H].
    - rewrite H. cbn. reflexivity.
    - destruct (c_remote c =? 0); cbn; [reflexivity|].
      destruct (n =? c_remote c) eqn:E; [apply N.eqb_eq in E; contradiction|]. reflexivity.
  Qed.
End Replies.

(* ---- the chosen local SEID *)
Lemma pick_seid_spec : forall r draws stored l,
  pick_seid r draws stored = Some l -> l <> 0 /\ mem_n l stored = false /\ In l draws.
Proof.
  induction r as [|r IH]; intros draws stored l H; cbn [pick_seid] in H; [discriminate|].
  destruct draws as [|d ds]; [discriminate|].
  destruct ((d =? 0) || mem_n d stored) eqn:E.
  - destruct (IH _ _ _ H) as (A & B & C). repeat split; auto. right; exact C.
  - inversion H; subst. apply orb_false_iff in E. destruct E as [E1 E2].
    apply N.eqb_neq in E1. repeat split; auto. left; reflexivity.
Qed.

Lemma pick_seid_none_iff : forall r draws stored,
  (r <= length draws)%nat ->
  (pick_seid r draws stored = None <-> forall d, In d (firstn r draws) -> d = 0 \/ mem_n d stored = true).
Proof.
  induction r as [|r IH]; intros draws stored Hl.
  - cbn. split; [intros _ d []|reflexivity].
  - destruct draws as [|d ds]; [cbn in Hl; lia|]. cbn [pick_seid firstn].
    destruct ((d =? 0) || mem_n d stored) eqn:E.
    + rewrite IH by (cbn in Hl; lia). split.
      * intros H x [<-|Hx]; [|apply H; exact Hx].
        apply orb_true_iff in E. destruct E as [E|E]; [left; apply N.eqb_eq; exact E|right; exact E].
      * intros H x Hx. apply H. right; exact Hx.
    + split; [discriminate|]. intros H. exfalso.
      destruct (H d (or_introl eq_refl)) as [H0|H0].
      * subst d. cbn in E. discriminate.
      * rewrite H0 in E. rewrite orb_true_r in E. discriminate.
Qed.

Lemma find_put s ss : s_lseid s <> 0 -> find_session (s_lseid s) (put_session s ss) = Some s.
Proof.
  intros H. unfold put_session. destruct (s_lseid s =? 0) eqn:E; [apply N.eqb_eq in E; contradiction|].
  cbn. rewrite N.eqb_refl. reflexivity.
Qed.

Lemma mem_n_false_not_in x l : mem_n x l = false -> ~ In x l.
Proof.
  unfold mem_n. intros H Hin. assert (existsb (N.eqb x) l = true) as A.
  { apply existsb_exists. exists x. split; [exact Hin|apply N.eqb_refl]. }
  rewrite A in H. discriminate.
Qed.

Lemma est_pdrs_cause : forall is lseid pf aip pl g acc pl' g' cause ps,
  est_pdrs is lseid pf aip pl g acc = (pl', g', inr (cause, ps)) -> cause = CAUSE_REJ \/ cause = CAUSE_NORES.
Proof.
  induction is as [|i is IH]; intros lseid pf aip pl g acc pl' g' cause ps H; cbn [est_pdrs] in H; [discriminate|].
  destruct (parse_pdr i lseid pf pl) as [pl1 [p|]].
  - destruct (p_choose p).
    + destruct (allocate g); [eapply IH; exact H| |]; inversion H; subst; right; reflexivity.
    + eapply IH; exact H.
  - inversion H; subst; left; reflexivity.
Qed.

Section EstAccepted.
  Variable burst : N -> N -> N -> N.
  (* an accepted establishment: the UP F-SEID is a non-zero draw that no stored session of the
     association uses, the session is stored under it with the control plane's SEID, and the Created
     PDR list is derived from the stored PDRs *)
  Lemma est_accepted a c nid cpf pdrs fars qers draws a' c' rseid n up cr cmds ms sd :
    handle_est burst a c nid cpf pdrs fars qers draws = Done (a', c', Out (Some (REst rseid CAUSE_OK n up cr)) cmds ms sd) ->
    exists l s, up = Some l /\ l <> 0 /\ In l draws /\ ~ In l (map s_lseid (c_sessions c)) /\
                find_session l (c_sessions c') = Some s /\ s_lseid s = l /\ s_rseid s = rseid /\
                cr = created_of (view (s_pdrs s)) /\ n = true /\ ms = [] /\ sd = false /\
                a_gauge a' = a_gauge a + 1 /\
                (exists v4, cpf = Some (IOk (rseid, v4))).
  Proof.
    intros H. unfold handle_est in H. split_all H; inversion H; subst; try discriminate.
    all: try match goal with Hc : CAUSE_NOASSOC = CAUSE_OK |- _ => discriminate Hc end.
    all: try match goal with Hc : CAUSE_NORES = CAUSE_OK |- _ => discriminate Hc end.
    all: try match goal with Hc : CAUSE_REJ = CAUSE_OK |- _ => discriminate Hc end.
    all: try match goal with Hc : CAUSE_MISSING = CAUSE_OK |- _ => discriminate Hc end.
    all: try (unfold CAUSE_OK, CAUSE_REJ, CAUSE_NORES in *; congruence).
    all: try match goal with He : est_pdrs _ _ _ _ _ _ _ = (_, _, inr (CAUSE_OK, _)) |- _ =>
               destruct (est_pdrs_cause _ _ _ _ _ _ _ _ _ _ _ He); discriminate end.
    match goal with Hp : pick_seid _ _ _ = Some ?l |- _ =>
      destruct (pick_seid_spec _ _ _ _ Hp) as (A & B & C) end.
    match goal with |- context [put_session ?s _] => exists (s_lseid s), s end.
    cbn [s_lseid s_rseid s_pdrs c_sessions a_gauge].
    repeat split; eauto.
    - apply mem_n_false_not_in; assumption.
    - match goal with |- find_session ?l (put_session ?s _) = _ =>
        change l with (s_lseid s); apply find_put; assumption end.
    - unfold s_of, view. cbn [len back]. rewrite firstn_all. reflexivity.
  Qed.
End EstAccepted.

(* ------------------------------------------------------------------ tables: the effect of a command list *)
Lemma key_eqb_eq : forall a b, key_eqb a b = true <-> a = b.
Proof.
  induction a as [|x a IH]; destruct b as [|y b]; cbn; split; intros H; try reflexivity; try discriminate.
  - apply andb_true_iff in H. destruct H as [H1 H2]. apply N.eqb_eq in H1. apply IH in H2. subst; reflexivity.
  - inversion H; subst. rewrite N.eqb_refl. cbn. apply IH. reflexivity.
Qed.
Lemma key_eqb_refl a : key_eqb a a = true.
Proof. apply key_eqb_eq; reflexivity. Qed.
Lemma key_eqb_sym a b : key_eqb a b = key_eqb b a.
Proof.
  destruct (key_eqb a b) eqn:E.
  - apply key_eqb_eq in E. subst. symmetry. apply key_eqb_refl.
  - destruct (key_eqb b a) eqn:E2; [|reflexivity]. apply key_eqb_eq in E2. subst. rewrite key_eqb_refl in E. discriminate.
Qed.

Lemma t_get_del k k' t : t_get k' (t_del k t) = if key_eqb k k' then None else t_get k' t.
Proof.
  induction t as [|[k0 v0] t IH]; cbn [t_del t_get].
  - destruct (key_eqb k k'); reflexivity.
  - destruct (key_eqb k k0) eqn:E0.
    + rewrite IH. destruct (key_eqb k k') eqn:E; [reflexivity|].
      apply key_eqb_eq in E0. subst k0. rewrite key_eqb_sym, E. reflexivity.
    + cbn [t_get]. rewrite IH. destruct (key_eqb k' k0) eqn:E1; [|reflexivity].
      apply key_eqb_eq in E1. subst k0. rewrite E0. reflexivity.
Qed.
Lemma t_get_add k v k' t : t_get k' (t_add k v t) = if key_eqb k k' then Some v else t_get k' t.
Proof.
  unfold t_add. cbn [t_get]. rewrite (key_eqb_sym k' k). destruct (key_eqb k k') eqn:E; [reflexivity|].
  rewrite t_get_del, E. reflexivity.
Qed.

Definition tab (m : module) (t : tables) : table :=
  match m with MPdr => t_pdr t | MFar => t_far t | MAppQer => t_app t | MSessQer => t_sess t end.
Definition hits (m : module) (k : list N) (c : cmd) : bool := module_eqb m (c_mod c) && key_eqb (c_key c) k.
(* the last command of the list that addresses (module, key) *)
Fixpoint last_cmd (m : module) (k : list N) (cs : list cmd) : option cmd :=
  match cs with
  | [] => None
  | c :: r => match last_cmd m k r with Some x => Some x | None => if hits m k c then Some c else None end
  end.

Lemma apply_cmd_get c t m k :
  t_get k (tab m (apply_cmd c t)) = if hits m k c then (if c_add c then Some (c_val c) else None) else t_get k (tab m t).
Proof.
  unfold apply_cmd, hits. destruct (c_mod c) eqn:Em; destruct m; cbn [tab module_eqb andb t_pdr t_far t_app t_sess];
    try reflexivity; destruct (c_add c); rewrite ?t_get_add, ?t_get_del; reflexivity.
Qed.

Lemma apply_cmds_get : forall cs t m k,
  t_get k (tab m (apply_cmds cs t)) =
  match last_cmd m k cs with
  | Some c => if c_add c then Some (c_val c) else None
  | None => t_get k (tab m t)
  end.
Proof.
  induction cs as [|c cs IH]; intros t m k; [reflexivity|].
  unfold apply_cmds in *. cbn [fold_left last_cmd]. rewrite IH.
  destruct (last_cmd m k cs); [reflexivity|]. rewrite apply_cmd_get. destruct (hits m k c); reflexivity.
Qed.

(* keys that no command of the list addresses are untouched: nothing else is written *)
Lemma apply_cmds_untouched cs t m k :
  (forall c, In c cs -> hits m k c = false) -> t_get k (tab m (apply_cmds cs t)) = t_get k (tab m t).
Proof.
  intros H. rewrite apply_cmds_get.
  assert (last_cmd m k cs = None) as ->; [|reflexivity].
  induction cs as [|c cs IH]; [reflexivity|]. cbn [last_cmd].
  rewrite IH by (intros x Hx; apply H; right; exact Hx). rewrite (H c (or_introl eq_refl)). reflexivity.
Qed.

Lemma last_cmd_in m k cs c : last_cmd m k cs = Some c -> In c cs /\ hits m k c = true.
Proof.
  induction cs as [|x cs IH]; cbn [last_cmd]; [discriminate|].
  destruct (last_cmd m k cs) eqn:E.
  - intros H; inversion H; subst. destruct (IH eq_refl) as [A B]. split; [right; exact A|exact B].
  - destruct (hits m k x) eqn:Eh; [|discriminate]. intros H; inversion H; subst. split; [left; reflexivity|exact Eh].
Qed.
Lemma last_cmd_some m k cs c : In c cs -> hits m k c = true -> exists c', last_cmd m k cs = Some c'.
Proof.
  induction cs as [|x cs IH]; [intros []|]. intros [<-|Hin] Hh; cbn [last_cmd].
  - destruct (last_cmd m k cs); [eexists; reflexivity|]. rewrite Hh. eexists; reflexivity.
  - destruct (IH Hin Hh) as [c' ->]. eexists; reflexivity.
Qed.

(* a batch of deletes removes every key it names *)
Lemma deletes_remove cs t c :
  (forall x, In x cs -> c_add x = false) -> In c cs -> t_get (c_key c) (tab (c_mod c) (apply_cmds cs t)) = None.
Proof.
  intros Hd Hin. rewrite apply_cmds_get.
  assert (hits (c_mod c) (c_key c) c = true) as Hh.
  { unfold hits. rewrite key_eqb_refl. destruct (c_mod c); reflexivity. }
  destruct (last_cmd_some _ _ _ _ Hin Hh) as [c' E]. rewrite E.
  destruct (last_cmd_in _ _ _ _ E) as [A _]. rewrite (Hd _ A). reflexivity.
Qed.
(* and an absent key stays absent under deletes *)
Lemma deletes_keep_absent cs t m k :
  (forall x, In x cs -> c_add x = false) -> t_get k (tab m t) = None -> t_get k (tab m (apply_cmds cs t)) = None.
Proof.
  intros Hd H0. rewrite apply_cmds_get. destruct (last_cmd m k cs) eqn:E; [|exact H0].
  destruct (last_cmd_in _ _ _ _ E) as [A _]. rewrite (Hd _ A). reflexivity.
Qed.

(* a batch of adds with pairwise distinct (module, key) installs every entry with its value *)
Definition distinct_keys (cs : list cmd) : Prop :=
  forall i j a b, nth_error cs i = Some a -> nth_error cs j = Some b -> i <> j -> hits (c_mod a) (c_key a) b = false.

Lemma last_cmd_unique : forall cs c, distinct_keys cs -> In c cs -> last_cmd (c_mod c) (c_key c) cs = Some c.
Proof.
  induction cs as [|x cs IH]; intros c Hd Hin; [destruct Hin|].
  assert (distinct_keys cs) as Hd'.
  { intros i j a b Ha Hb Hij. apply (Hd (S i) (S j) a b); cbn; auto. }
  cbn [last_cmd]. destruct Hin as [<-|Hin].
  - assert (last_cmd (c_mod x) (c_key x) cs = None) as ->.
    { destruct (last_cmd (c_mod x) (c_key x) cs) eqn:E; [|reflexivity].
      destruct (last_cmd_in _ _ _ _ E) as [A B]. apply In_nth_error in A. destruct A as [j Hj].
      rewrite (Hd O (S j) x c) in B; cbn; auto; discriminate. }
    unfold hits. rewrite key_eqb_refl. destruct (c_mod x); reflexivity.
  - rewrite (IH c Hd' Hin). reflexivity.
Qed.

Lemma adds_install cs t c :
  distinct_keys cs -> (forall x, In x cs -> c_add x = true) -> In c cs ->
  t_get (c_key c) (tab (c_mod c) (apply_cmds cs t)) = Some (c_val c).
Proof.
  intros Hd Ha Hin. rewrite apply_cmds_get, (last_cmd_unique cs c Hd Hin), (Ha _ Hin). reflexivity.
Qed.

(* ------------------------------------------------------------------ C03: add and delete address the same keys *)
Lemma pdr_same_keys p : map c_key (pdr_del p) = map c_key (pdr_add p).
Proof. unfold pdr_del, pdr_add. rewrite !map_map. reflexivity. Qed.
Lemma far_same_keys f : map c_key (far_del f) = map c_key (far_add f).
Proof. reflexivity. Qed.
Lemma qer_same_keys burst q : map c_key (qer_del q) = map c_key (qer_add burst q).
Proof.
  unfold qer_del, qer_add, qer_dir.
  destruct (q_level q =? 0);
    repeat match goal with |- context [if ?x then _ else _] => destruct x end; reflexivity.
Qed.
Lemma pdr_same_module p c : In c (pdr_add p ++ pdr_del p) -> c_mod c = MPdr.
Proof. intros H. apply in_app_or in H. unfold pdr_add, pdr_del in H. destruct H as [H|H]; apply in_map_iff in H; destruct H as (r & <- & _); reflexivity. Qed.

Lemma del_cmds_are_deletes ps fs qs c : In c (del_cmds ps fs qs) -> c_add c = false.
Proof.
  unfold del_cmds. intros H. repeat (apply in_app_or in H; destruct H as [H|H]).
  - apply in_flat_map in H. destruct H as (p & _ & H). unfold pdr_del in H. apply in_map_iff in H. destruct H as (r & <- & _). reflexivity.
  - apply in_flat_map in H. destruct H as (f & _ & H). destruct H as [<-|[]]. reflexivity.
  - apply in_flat_map in H. destruct H as (q & _ & H). unfold qer_del in H.
    destruct (q_level q =? 0); destruct H as [<-|[<-|[]]]; reflexivity.
Qed.

(* ------------------------------------------------------------------ C05: what ending a session reclaims *)
Lemma mem_del x y l : mem x (del y l) = if x =? y then false else mem x l.
Proof.
  unfold mem. induction l as [|z l IH]; cbn [del existsb].
  - destruct (x =? y); reflexivity.
  - destruct (y =? z) eqn:E.
    + rewrite IH. destruct (x =? y) eqn:E2; [reflexivity|].
      apply N.eqb_eq in E. subst z. rewrite E2. reflexivity.
    + cbn [existsb]. rewrite IH. destruct (x =? y) eqn:E2; [|reflexivity].
      apply N.eqb_eq in E2. subst x. rewrite E. reflexivity.
Qed.

Lemma free_id_not_allocated id g : is_allocated id (free_id id g) = false.
Proof.
  unfold is_allocated, free_id. destruct (id <? MINV) eqn:E; [reflexivity|].
  cbn [used]. rewrite mem_del, N.eqb_refl. reflexivity.
Qed.
Lemma free_id_keeps_free id id' g : is_allocated id g = false -> is_allocated id (free_id id' g) = false.
Proof.
  unfold is_allocated, free_id. destruct (id <? MINV) eqn:E; [reflexivity|].
  destruct (id' <? MINV); [auto|]. cbn [used]. rewrite mem_del. destruct (id - MINV =? id' - MINV); auto.
Qed.
Lemma free_teids_keeps_free : forall ps g id, is_allocated id g = false -> is_allocated id (free_teids g ps) = false.
Proof.
  unfold free_teids. induction ps as [|p ps IH]; intros g id H; [exact H|]. cbn [fold_left].
  apply IH. destruct (p_choose p); [apply free_id_keeps_free; exact H|exact H].
Qed.
Lemma free_teids_frees : forall ps g p, In p ps -> p_choose p = true -> is_allocated (p_teid p) (free_teids g ps) = false.
Proof.
  unfold free_teids. induction ps as [|x ps IH]; intros g p Hin Hc; [destruct Hin|]. cbn [fold_left].
  destruct Hin as [<-|Hin].
  - rewrite Hc. apply (free_teids_keeps_free ps). apply free_id_not_allocated.
  - apply IH; assumption.
Qed.

Definition pool_holds (pl : option pool) (seid : N) : bool :=
  match pl with None => false | Some p => match lookup seid (inv p) with Some _ => true | None => false end end.

Lemma release_ips_releases pl lseid ps pl' ok :
  release_ips pl lseid ps = (pl', ok) -> existsb (fun p => p_alloc p && (p_iface p =? CORE)) ps = true ->
  pool_holds pl' lseid = false.
Proof.
  unfold release_ips. intros H E. rewrite E in H. destruct pl as [po|]; [|inversion H; reflexivity].
  unfold dealloc in H. destruct (lookup lseid (inv po)) as [a|] eqn:El.
  - inversion H; subst. cbn. destruct (dealloc_exact lseid po a El) as (_ & B & _). rewrite B. reflexivity.
  - inversion H; subst. cbn. rewrite El. reflexivity.
Qed.

(* everything the session's current rules name is gone from the datapath, its TEIDs are free again, its
   UE address (if one of its PDRs carries the allocation flag) is back in the pool, the gauge went down *)
Record reclaimed (a : agent) (s : session) : Prop := {
  rc_pdr : forall p r, In p (view (s_pdrs s)) -> In r (pdr_rules p) -> t_get (pdr_key p r) (t_pdr (a_tables a)) = None;
  rc_far : forall f, In f (view (s_fars s)) -> t_get [a_id f; a_fseid f] (t_far (a_tables a)) = None;
  rc_qer : forall q c, In q (view (s_qers s)) -> In c (qer_del q) -> t_get (c_key c) (tab (c_mod c) (a_tables a)) = None;
  rc_teid : forall p, In p (view (s_pdrs s)) -> p_choose p = true -> is_allocated (p_teid p) (a_teids a) = false;
  rc_ip : existsb (fun p => p_alloc p && (p_iface p =? CORE)) (view (s_pdrs s)) = true -> pool_holds (a_pool a) (s_lseid s) = false }.

Lemma end_session_reclaims a s a' cmds :
  end_session a s = (a', cmds) -> reclaimed a' s /\ a_gauge a' = a_gauge a - 1.
Proof.
  unfold end_session. destruct (release_ips (a_pool a) (s_lseid s) (view (s_pdrs s))) as [pl ok] eqn:Er.
  intros H; inversion H; subst; clear H. split; [|reflexivity].
  set (cs := del_cmds (view (s_pdrs s)) (view (s_fars s)) (view (s_qers s))).
  assert (forall x, In x cs -> c_add x = false) as Hd by (intros x; apply del_cmds_are_deletes).
  constructor; cbn [a_tables a_teids a_pool].
  - intros p r Hp Hr.
    assert (In (Cmd MPdr false (pdr_key p r) []) cs) as Hin.
    { unfold cs, del_cmds. apply in_or_app; left. apply in_flat_map. exists p. split; [exact Hp|].
      unfold pdr_del. apply in_map_iff. exists r. split; [reflexivity|exact Hr]. }
    exact (deletes_remove cs _ _ Hd Hin).
  - intros f Hf.
    assert (In (Cmd MFar false [a_id f; a_fseid f] []) cs) as Hin.
    { unfold cs, del_cmds. apply in_or_app; right. apply in_or_app; left. apply in_flat_map. exists f. split; [exact Hf|left; reflexivity]. }
    exact (deletes_remove cs _ _ Hd Hin).
  - intros q c Hq Hc.
    assert (In c cs) as Hin.
    { unfold cs, del_cmds. apply in_or_app; right. apply in_or_app; right. apply in_flat_map. exists q. split; assumption. }
    exact (deletes_remove cs _ _ Hd Hin).
  - intros p Hp Hc. apply free_teids_frees; assumption.
  - intros E. eapply release_ips_releases; eassumption.
Qed.

(* later endings never bring anything back *)
Lemma end_session_keeps a s0 s a' cmds : reclaimed a s0 -> end_session a s = (a', cmds) -> s_lseid s <> s_lseid s0 -> reclaimed a' s0.
Proof.
  unfold end_session. destruct (release_ips (a_pool a) (s_lseid s) (view (s_pdrs s))) as [pl ok] eqn:Er.
  intros R H Hne; inversion H; subst; clear H.
  set (cs := del_cmds (view (s_pdrs s)) (view (s_fars s)) (view (s_qers s))).
  assert (forall x, In x cs -> c_add x = false) as Hd by (intros x; apply del_cmds_are_deletes).
  destruct R as [R1 R2 R3 R4 R5]. constructor; cbn [a_tables a_teids a_pool].
  - intros p r Hp Hr. apply (deletes_keep_absent cs _ MPdr _ Hd). apply R1; assumption.
  - intros f Hf. apply (deletes_keep_absent cs _ MFar _ Hd). apply R2; assumption.
  - intros q c Hq Hc. apply (deletes_keep_absent cs _ _ _ Hd). apply R3 with q; assumption.
  - intros p Hp Hc. apply free_teids_keeps_free. apply R4; assumption.
  - intros E. specialize (R5 E). unfold release_ips in Er.
    destruct (existsb _ (view (s_pdrs s))); [|inversion Er; subst; exact R5].
    destruct (a_pool a) as [po|]; [|inversion Er; subst; reflexivity].
    unfold dealloc in Er. destruct (lookup (s_lseid s) (inv po)) as [x|] eqn:El; inversion Er; subst; [|exact R5].
    cbn in *. destruct (dealloc_exact (s_lseid s) po x El) as (_ & _ & C).
    rewrite C by (intro; apply Hne; auto). exact R5.
Qed.

(* ---- the four endings *)
Lemma find_del_session l ss : find_session l (del_session l ss) = None.
Proof.
  induction ss as [|s ss IH]; [reflexivity|]. cbn [del_session].
  destruct (s_lseid s =? l) eqn:E; [exact IH|]. cbn [find_session]. rewrite E. exact IH.
Qed.

Lemma handle_del_accepted a c seid s a' c' o :
  find_session seid (c_sessions c) = Some s -> handle_del a c seid = (a', c', o) ->
  (exists r, o_reply o = Some (RDel r CAUSE_OK)) ->
  reclaimed a' s /\ a_gauge a' = a_gauge a - 1 /\ find_session seid (c_sessions c') = None /\
  o_reply o = Some (RDel (s_rseid s) CAUSE_OK).
Proof.
  intros Hf H [r Hr]. unfold handle_del in H. rewrite Hf in H.
  destruct (release_ips (a_pool a) seid (view (s_pdrs s))) as [pl [|]] eqn:Er; inversion H; subst; clear H;
    cbn [o_reply] in Hr; [|inversion Hr; discriminate].
  assert (s_lseid s = seid) as Hl.
  { clear -Hf. induction (c_sessions c) as [|x l IH]; [discriminate|]. cbn [find_session] in Hf.
    destruct (s_lseid x =? seid) eqn:E; [inversion Hf; subst; apply N.eqb_eq; exact E|auto]. }
  pose proof (end_session_reclaims a s) as Hes. unfold end_session in Hes. rewrite Hl, Er in Hes.
  destruct (Hes _ _ eq_refl) as [R G].
  repeat split; try apply R; cbn [a_gauge c_sessions o_reply]; auto.
  apply find_del_session.
Qed.

Lemma shutdown_sessions_reclaims : forall ss a a' cmds,
  NoDup (map s_lseid ss) -> shutdown_sessions a ss = (a', cmds) ->
  (forall s, In s ss -> reclaimed a' s) /\ a_gauge a' = a_gauge a - N.of_nat (length ss) /\
  (forall s0, reclaimed a s0 -> ~ In (s_lseid s0) (map s_lseid ss) -> reclaimed a' s0).
Proof.
  induction ss as [|s ss IH]; intros a a' cmds Hnd H; cbn [shutdown_sessions] in H.
  - inversion H; subst. split; [intros s []|]. split; [cbn; lia|auto].
  - destruct (end_session a s) as [a1 c1] eqn:E1. destruct (shutdown_sessions a1 ss) as [a2 c2] eqn:E2.
    inversion H; subst; clear H. inversion Hnd as [|? ? Hnin Hnd']; subst.
    destruct (end_session_reclaims _ _ _ _ E1) as [R1 G1].
    destruct (IH _ _ _ Hnd' E2) as (A & B & C).
    split; [|split].
    + intros x [<-|Hx]; [apply C; [exact R1|exact Hnin]|apply A; exact Hx].
    + rewrite B, G1. cbn [length]. lia.
    + intros s0 R0 Hn. apply C.
      * eapply end_session_keeps; [exact R0|exact E1|]. intros Heq. apply Hn. left. exact Heq.
      * intros Hin. apply Hn. right. exact Hin.
Qed.

Lemma report_rsp_not_found a c seid s a' c' o :
  find_session seid (c_sessions c) = Some s ->
  handle_report_rsp a c seid (Some (IOk CAUSE_NOTFOUND)) = (a', c', o) ->
  reclaimed a' s /\ a_gauge a' = a_gauge a - 1 /\ find_session seid (c_sessions c') = None /\ o_reply o = None.
Proof.
  intros Hf H. unfold handle_report_rsp in H. rewrite N.eqb_refl, Hf in H.
  destruct (end_session a s) as [a1 cm] eqn:E. inversion H; subst; clear H.
  destruct (end_session_reclaims _ _ _ _ E) as [R G].
  split; [exact R|]. split; [exact G|]. split; [apply find_del_session|reflexivity].
Qed.

(* ------------------------------------------------------------------ C03: what an accepted establishment installs *)
Section EstInstalls.
  Variable burst : N -> N -> N -> N.
  Lemma est_accepted_tables a c nid cpf pdrs fars qers draws a' c' rseid n l cr cmds ms sd s :
    handle_est burst a c nid cpf pdrs fars qers draws = Done (a', c', Out (Some (REst rseid CAUSE_OK n (Some l) cr)) cmds ms sd) ->
    find_session l (c_sessions c') = Some s ->
    cmds = add_cmds burst (view (s_pdrs s)) (view (s_fars s)) (view (s_qers s)) /\
    a_tables a' = apply_cmds cmds (a_tables a).
  Proof.
    intros H Hf. unfold handle_est in H. split_all H; inversion H; subst; try discriminate.
    all: try (unfold CAUSE_OK, CAUSE_REJ, CAUSE_NORES, CAUSE_NOASSOC, CAUSE_MISSING in *; congruence).
    cbn [c_sessions] in Hf.
    match goal with Hp : pick_seid _ _ _ = Some _ |- _ => destruct (pick_seid_spec _ _ _ _ Hp) as (A & _ & _) end.
    match type of Hf with find_session ?l (put_session ?x _) = _ =>
      change l with (s_lseid x) in Hf; rewrite (find_put x _ A) in Hf end.
    inversion Hf; subst. cbn [s_pdrs s_fars s_qers a_tables]. unfold s_of, view. cbn [len back].
    rewrite !firstn_all. split; reflexivity.
  Qed.
End EstInstalls.

(* ------------------------------------------------------------------ C14: end markers *)
Fixpoint spec_markers (ups : list far) (cur : list far) : list marker :=
  match ups with
  | [] => []
  | f :: r =>
    match find_idx (fun x => a_id x =? a_id f) cur with
    | None => spec_markers r cur
    | Some k => let old := nth k cur far0 in
                (if a_em f then [Marker (a_tsrc old) (a_tdst old) (a_teid old)] else []) ++ spec_markers r (set_nth k f cur)
    end
  end.

Lemma find_idx_lt {A} (f : A -> bool) : forall l k, find_idx f l = Some k -> (k < length l)%nat.
Proof.
  induction l as [|x l IH]; intros k H; cbn [find_idx] in H; [discriminate|].
  destruct (f x); [inversion H; cbn; lia|].
  destruct (find_idx f l) as [j|] eqn:E; [|discriminate]. cbn in H. inversion H; subst. specialize (IH j eq_refl). cbn; lia.
Qed.
Lemma firstn_set_nth {A} : forall n k (x : A) l, (k < n)%nat -> firstn n (set_nth k x l) = set_nth k x (firstn n l).
Proof.
  induction n as [|n IH]; intros k x l H; [lia|].
  destruct l as [|y l]; [destruct k; reflexivity|]. destruct k as [|k]; cbn; [reflexivity|]. rewrite IH by lia. reflexivity.
Qed.
Lemma view_s_set {A} (s : slice A) k x : (k < length (view s))%nat -> view (s_set s k x) = set_nth k x (view s).
Proof.
  unfold view, s_set. cbn [len back]. intros H. rewrite firstn_length in H. apply firstn_set_nth. lia.
Qed.

Lemma mod_update_f_markers : forall is lseid aip cip w w',
  mod_update_f is lseid aip cip w = (w', true) ->
  exists ups, parse_all (fun i => parse_far i lseid aip cip true) is = Some ups /\
              w_marks w' = w_marks w ++ spec_markers ups (view (w_f w)).
Proof.
  induction is as [|i is IH]; intros lseid aip cip w w' H; cbn [mod_update_f] in H.
  - inversion H; subst. exists []. split; [reflexivity|]. cbn. rewrite app_nil_r. reflexivity.
  - cbn [parse_all]. destruct (parse_far i lseid aip cip true) as [f|]; [|discriminate].
    destruct (find_idx (fun x => a_id x =? a_id f) (view (w_f w))) as [k|] eqn:Ek.
    + destruct (IH _ _ _ _ _ H) as (ups & Hp & Hm). exists (f :: ups). rewrite Hp. split; [reflexivity|].
      rewrite Hm. cbn [w_marks w_f spec_markers]. rewrite Ek.
      rewrite view_s_set by (eapply find_idx_lt; exact Ek).
      destruct (a_em f); cbn [app]; rewrite <- ?app_assoc; reflexivity.
    + destruct (IH _ _ _ _ _ H) as (ups & Hp & Hm). exists (f :: ups). rewrite Hp. split; [reflexivity|].
      rewrite Hm. cbn [spec_markers]. rewrite Ek. reflexivity.
Qed.

Lemma spec_markers_unflagged : forall ups cur, (forall f, In f ups -> a_em f = false) -> spec_markers ups cur = [].
Proof.
  induction ups as [|f ups IH]; intros cur H; [reflexivity|]. cbn [spec_markers].
  destruct (find_idx _ cur); [|apply IH; intros; apply H; right; assumption].
  rewrite (H f (or_introl eq_refl)). cbn. apply IH. intros; apply H; right; assumption.
Qed.
Lemma spec_markers_unknown : forall ups cur, (forall f, In f ups -> find_idx (fun x => a_id x =? a_id f) cur = None) -> spec_markers ups cur = [].
Proof.
  induction ups as [|f ups IH]; intros cur H; [reflexivity|]. cbn [spec_markers].
  rewrite (H f (or_introl eq_refl)). apply IH. intros; apply H; right; assumption.
Qed.
Lemma spec_markers_length ups cur : (length (spec_markers ups cur) <= length (filter a_em ups))%nat.
Proof.
  revert cur. induction ups as [|f ups IH]; intros cur; [cbn; lia|]. cbn [spec_markers filter].
  destruct (find_idx _ cur).
  - rewrite app_length. specialize (IH (set_nth n f cur)). destruct (a_em f); cbn [length]; lia.
  - specialize (IH cur). destruct (a_em f); cbn [length]; lia.
Qed.

Section Markers.
  Variable burst : N -> N -> N -> N.
  Lemma other_messages_no_markers a c connected m draws a' c' o :
    handle burst a c connected m draws = Done (a', c', o) ->
    (forall seid cpf cp cf cq up uf uq rp rf rq, m <> MMod seid cpf cp cf cq up uf uq rp rf rq) -> o_markers o = [].
  Proof.
    intros H Hm. destruct m; cbn [handle] in H; try (exfalso; eapply Hm; reflexivity).
    - inversion H; reflexivity.
    - split_all H; inversion H; reflexivity.
    - destruct (do_shutdown a c) as [[? ?] ?]. inversion H; reflexivity.
    - split_all H; inversion H; reflexivity.
    - unfold handle_est in H. split_all H; inversion H; reflexivity.
    - unfold handle_del in H. split_all H; inversion H; reflexivity.
    - unfold handle_report_rsp in H. split_all H; inversion H; reflexivity.
    - inversion H; reflexivity.
    - inversion H; reflexivity.
  Qed.

  Lemma create_p_marks : forall is l pf w, w_marks (fst (mod_create_p is l pf w)) = w_marks w.
  Proof. induction is as [|i is IH]; intros l pf w; cbn [mod_create_p]; [reflexivity|].
         destruct (parse_pdr i l pf (w_pool w)) as [pl [p|]]; [rewrite IH|]; reflexivity. Qed.
  Lemma update_p_marks : forall is l pf w, w_marks (fst (mod_update_p is l pf w)) = w_marks w.
  Proof. induction is as [|i is IH]; intros l pf w; cbn [mod_update_p]; [reflexivity|].
         destruct (parse_pdr i l pf (w_pool w)) as [pl [p|]]; [|reflexivity].
         destruct (find_idx _ _); rewrite IH; reflexivity. Qed.
  Lemma create_f_marks : forall is l x y w, w_marks (fst (mod_create_f is l x y w)) = w_marks w.
  Proof. induction is as [|i is IH]; intros l x y w; cbn [mod_create_f]; [reflexivity|].
         destruct (parse_far i l x y false); [rewrite IH|]; reflexivity. Qed.
  Lemma create_q_marks : forall is l w, w_marks (fst (mod_create_q is l w)) = w_marks w.
  Proof. induction is as [|i is IH]; intros l w; cbn [mod_create_q]; [reflexivity|].
         destruct (parse_qer i l); [rewrite IH|]; reflexivity. Qed.
  Lemma update_q_marks : forall is l w, w_marks (fst (mod_update_q is l w)) = w_marks w.
  Proof. induction is as [|i is IH]; intros l w; cbn [mod_update_q]; [reflexivity|].
         destruct (parse_qer i l); [|reflexivity]. destruct (find_idx _ _); rewrite IH; reflexivity. Qed.

  (* a modification emits nothing, or exactly the markers the Update FAR loop collected - and only
     when end markers are enabled *)
  Lemma mod_markers a c seid cpf cp cf cq up uf uq rp rf rq a' c' o :
    handle_mod burst a c seid cpf cp cf cq up uf uq rp rf rq = Done (a', c', o) ->
    o_markers o = [] \/
    exists w w', mod_update_f uf seid (g_access (a_cfg a)) (g_core (a_cfg a)) w = (w', true) /\ w_marks w = [] /\
                 (exists ups, parse_all (fun i => parse_far i seid (g_access (a_cfg a)) (g_core (a_cfg a)) true) uf = Some ups /\
                              o_markers o = if g_end_marker (a_cfg a) then spec_markers ups (view (w_f w)) else []).
  Proof.
    intros H. unfold handle_mod in H. cbv zeta in H.
    destruct (find_session seid (c_sessions c)) as [s0|]; [|inversion H; left; reflexivity].
    destruct (mod_create_p cp seid (c_pfds c) _) as [w1 [|]] eqn:E1; [|inversion H; left; reflexivity].
    destruct (mod_create_f cf seid _ _ w1) as [w2 [|]] eqn:E2; [|inversion H; left; reflexivity].
    destruct (mod_create_q cq seid w2) as [w3 [|]] eqn:E3; [|inversion H; left; reflexivity].
    destruct (mod_update_p up seid (c_pfds c) w3) as [w4 [|]] eqn:E4; [|inversion H; left; reflexivity].
    destruct (mod_update_f uf seid _ _ w4) as [w5 [|]] eqn:E5; [|inversion H; left; reflexivity].
    destruct (mod_update_q uq seid w5) as [w6 [|]] eqn:E6; [|inversion H; left; reflexivity].
    right. exists w4, w5. split; [exact E5|].
    assert (w_marks w4 = []) as M4.
    { pose proof (update_p_marks up seid (c_pfds c) w3) as A4. rewrite E4 in A4. cbn [fst] in A4. rewrite A4.
      pose proof (create_q_marks cq seid w2) as A3. rewrite E3 in A3. cbn [fst] in A3. rewrite A3.
      pose proof (create_f_marks cf seid (g_access (a_cfg a)) (g_core (a_cfg a)) w1) as A2. rewrite E2 in A2. cbn [fst] in A2. rewrite A2.
      match type of E1 with mod_create_p _ _ _ ?w0 = _ => pose proof (create_p_marks cp seid (c_pfds c) w0) as A1 end.
      rewrite E1 in A1. cbn [fst] in A1. rewrite A1. reflexivity. }
    split; [exact M4|].
    destruct (mod_update_f_markers _ _ _ _ _ _ E5) as (ups & Hp & Hm). exists ups. split; [exact Hp|].
    assert (w_marks w6 = spec_markers ups (view (w_f w4))) as M6.
    { pose proof (update_q_marks uq seid w5) as A6. rewrite E6 in A6. cbn [fst] in A6. rewrite A6, Hm, M4. reflexivity. }
    split_all H; inversion H; subst; cbn [o_markers]; rewrite ?M6; reflexivity.
  Qed.
End Markers.

(* ------------------------------------------------------------------ C03: the entries of one PDR classify exactly its packets *)
Record packet := Pkt { k_iface : N; k_tdst : N; k_teid : N; k_sip : N; k_dip : N; k_sport : N; k_dport : N; k_proto : N }.
Definition mfield (x v m : N) : bool := N.land x m =? N.land v m.
(* WildcardMatch: every field of the packet equals the entry's value under the entry's mask *)
Definition wm_match (key : list N) (k : packet) : bool :=
  match key with
  | [v1; v2; v3; v4; v5; v6; v7; v8; m1; m2; m3; m4; m5; m6; m7; m8] =>
    mfield (k_iface k) v1 m1 && mfield (k_tdst k) v2 m2 && mfield (k_teid k) v3 m3 && mfield (k_sip k) v4 m4 &&
    mfield (k_dip k) v5 m5 && mfield (k_sport k) v6 m6 && mfield (k_dport k) v7 m7 && mfield (k_proto k) v8 m8
  | _ => false
  end.
(* what the PDR denotes: source interface, tunnel endpoint, the two addresses under their prefixes, protocol,
   and the two port ranges *)
Definition pdi_match (p : pdr) (k : packet) : bool :=
  mfield (k_iface k) (p_iface p) (p_iface_m p) && mfield (k_tdst k) (p_tdst p) (p_tdst_m p) &&
  mfield (k_teid k) (p_teid p) (p_teid_m p) && mfield (k_sip k) (f_sip p) (f_sip_m p) &&
  mfield (k_dip k) (f_dip p) (f_dip_m p) && mfield (k_proto k) (f_proto p) (f_proto_m p) &&
  in_range (f_sp p) (k_sport k) && in_range (f_dp p) (k_dport k).

Definition common (p : pdr) (k : packet) : bool :=
  mfield (k_iface k) (p_iface p) (p_iface_m p) && mfield (k_tdst k) (p_tdst p) (p_tdst_m p) &&
  mfield (k_teid k) (p_teid p) (p_teid_m p) && mfield (k_sip k) (f_sip p) (f_sip_m p) &&
  mfield (k_dip k) (f_dip p) (f_dip_m p) && mfield (k_proto k) (f_proto p) (f_proto_m p).

Lemma wm_match_key p r k : wm_match (pdr_key p r) k = common p k && pmatch r (k_sport k) (k_dport k).
Proof.
  unfold wm_match, pdr_key, common, pmatch, mfield.
  set (b1 := N.land (k_iface k) (p_iface_m p) =? _). set (b2 := N.land (k_tdst k) (p_tdst_m p) =? _).
  set (b3 := N.land (k_teid k) (p_teid_m p) =? _). set (b4 := N.land (k_sip k) (f_sip_m p) =? _).
  set (b5 := N.land (k_dip k) (f_dip_m p) =? _). set (b6 := N.land (k_sport k) (sm r) =? _).
  set (b7 := N.land (k_dport k) (dm r) =? _). set (b8 := N.land (k_proto k) (f_proto_m p) =? _).
  destruct b1, b2, b3, b4, b5, b6, b7, b8; reflexivity.
Qed.

Lemma classification p k rs :
  wf16 (f_sp p) -> wf16 (f_dp p) -> k_sport k < U16 -> k_dport k < U16 -> cartesian (f_sp p) (f_dp p) = Ok rs ->
  length (filter (fun r => wm_match (pdr_key p r) k) rs) = if pdi_match p k then 1%nat else 0%nat.
Proof.
  intros Hs Hd Hx Hy Hc.
  pose proof (cartesian_exact_cover _ _ _ _ _ Hs Hd Hx Hy Hc) as Hp. unfold pcount in Hp.
  assert (filter (fun r => wm_match (pdr_key p r) k) rs =
          if common p k then filter (fun r => pmatch r (k_sport k) (k_dport k)) rs else []) as ->.
  { destruct (common p k) eqn:Ec.
    - apply filter_ext. intros r. rewrite wm_match_key, Ec. reflexivity.
    - clear Hp Hc. induction rs as [|r rs IH]; [reflexivity|]. cbn [filter]. rewrite wm_match_key, Ec. exact IH. }
  unfold pdi_match. fold (common p k).
  destruct (common p k); cbn [andb length]; [|reflexivity].
  rewrite Hp. destruct (in_range (f_sp p) (k_sport k)), (in_range (f_dp p) (k_dport k)); reflexivity.
Qed.

(* ------------------------------------------------------------------ more handler facts *)
Section MoreFacts.
  Variable burst : N -> N -> N -> N.

  (* a Session Establishment that is not accepted writes nothing, stores nothing and keeps the gauge *)
  Lemma est_rejected a c nid cpf pdrs fars qers draws a' c' o :
    handle_est burst a c nid cpf pdrs fars qers draws = Done (a', c', o) ->
    (forall s n u cr, o_reply o <> Some (REst s CAUSE_OK n u cr)) ->
    o_cmds o = [] /\ a_tables a' = a_tables a /\ c' = c /\ a_gauge a' = a_gauge a /\ o_markers o = [].
  Proof.
    intros H Hr. unfold handle_est in H. split_all H; inversion H; subst; cbn in *;
      try (repeat split; reflexivity).
    exfalso. eapply Hr. reflexivity.
  Qed.

  Lemma find_replace l s ss s0 :
    find_session l ss = Some s0 -> s_lseid s = l -> find_session l (replace_session s ss) = Some s.
  Proof.
    intros H Hl. subst l. induction ss as [|x ss IH]; [discriminate|]. cbn [find_session replace_session map] in *.
    destruct (s_lseid x =? s_lseid s) eqn:E.
    - cbn [find_session]. rewrite N.eqb_refl. reflexivity.
    - cbn [find_session]. rewrite E. apply IH. exact H.
  Qed.
  Lemma find_lseid l ss s : find_session l ss = Some s -> s_lseid s = l.
  Proof.
    induction ss as [|x ss IH]; [discriminate|]. cbn [find_session].
    destruct (s_lseid x =? l) eqn:E; [intros H; inversion H; subst; apply N.eqb_eq; exact E|exact IH].
  Qed.

  (* an accepted modification answers with the (possibly updated) control-plane SEID, which is the one stored *)
  Lemma mod_accepted_seid a c seid cpf cp cf cq up uf uq rp rf rq a' c' o r :
    handle_mod burst a c seid cpf cp cf cq up uf uq rp rf rq = Done (a', c', o) ->
    o_reply o = Some (RMod r CAUSE_OK) ->
    exists s, find_session seid (c_sessions c') = Some s /\ s_rseid s = r /\ a_gauge a' = a_gauge a.
  Proof.
    intros H Hr. unfold handle_mod in H. cbv zeta in H.
    destruct (find_session seid (c_sessions c)) as [s0|] eqn:Ef; [|inversion H; subst; discriminate].
    pose proof (find_lseid _ _ _ Ef) as Hl.
    split_all H; inversion H; subst; cbn [o_reply] in Hr; try discriminate.
    all: try (inversion Hr; unfold CAUSE_OK, CAUSE_REJ in *; discriminate).
    all: inversion Hr; subst; cbn [c_sessions a_gauge];
      eexists; (split; [eapply find_replace; [exact Ef|reflexivity]|split; reflexivity]).
  Qed.
End MoreFacts.

Definition mod_code_of (c : cmd) : N := match c_mod c with MPdr => 0 | MFar => 1 | MAppQer => 2 | MSessQer => 3 end.

(* ------------------------------------------------------------------ C03: the image invariant, step by step *)
(* "exactly the image": every command of the image is present with its value, and no other key is present *)
Definition is_image (t : tables) (cs : list cmd) : Prop :=
  (forall c, In c cs -> t_get (c_key c) (tab (c_mod c) t) = Some (c_val c)) /\
  (forall m k, (forall c, In c cs -> hits m k c = false) -> t_get k (tab m t) = None).

Definition session_cmds (burst : N -> N -> N -> N) (s : session) : list cmd :=
  add_cmds burst (view (s_pdrs s)) (view (s_fars s)) (view (s_qers s)).
Definition image (burst : N -> N -> N -> N) (ss : list session) : list cmd := flat_map (session_cmds burst) ss.

(* the envelope: no two commands of the image address the same (module, key) - distinct PDRs have distinct
   match keys, FAR / QER ids are distinct inside a session, F-SEIDs are distinct across sessions *)
Definition disjoint_from (xs ys : list cmd) : Prop := forall a b, In a xs -> In b ys -> hits (c_mod a) (c_key a) b = false.

Lemma hits_self c : hits (c_mod c) (c_key c) c = true.
Proof. unfold hits. rewrite key_eqb_refl. destruct (c_mod c); reflexivity. Qed.
Lemma module_eqb_eq a b : module_eqb a b = true <-> a = b.
Proof. destruct a, b; cbn; split; intros H; try reflexivity; try discriminate. Qed.
Lemma hits_sym a b : hits (c_mod a) (c_key a) b = hits (c_mod b) (c_key b) a.
Proof.
  unfold hits. destruct (module_eqb (c_mod a) (c_mod b)) eqn:E.
  - apply module_eqb_eq in E. rewrite E. rewrite (proj2 (module_eqb_eq _ _) eq_refl). cbn. apply key_eqb_sym.
  - destruct (module_eqb (c_mod b) (c_mod a)) eqn:E2; [|reflexivity].
    apply module_eqb_eq in E2. rewrite E2 in E. rewrite (proj2 (module_eqb_eq _ _) eq_refl) in E. discriminate.
Qed.
Lemma hits_same_target m k c d : c_mod c = c_mod d -> c_key c = c_key d -> hits m k c = hits m k d.
Proof. intros A B. unfold hits. rewrite A, B. reflexivity. Qed.

(* adding a batch whose keys are pairwise distinct and disjoint from the image extends the image by the batch *)
Lemma image_add t old new :
  is_image t old -> distinct_keys new -> (forall x, In x new -> c_add x = true) -> disjoint_from new old ->
  is_image (apply_cmds new t) (new ++ old).
Proof.
  intros [I1 I2] Hd Ha Hx. split.
  - intros c Hc. apply in_app_or in Hc. destruct Hc as [Hc|Hc].
    + apply adds_install; assumption.
    + rewrite apply_cmds_untouched; [apply I1; exact Hc|].
      intros n Hn. rewrite hits_sym. apply Hx; assumption.
  - intros m k Hk. rewrite apply_cmds_untouched.
    + apply I2. intros c Hc. apply Hk. apply in_or_app; right; exact Hc.
    + intros c Hc. apply Hk. apply in_or_app; left; exact Hc.
Qed.

(* deleting the keys of one part of the image leaves exactly the rest *)
Definition same_targets (ds cs : list cmd) : Prop :=
  (forall d, In d ds -> exists c, In c cs /\ c_mod c = c_mod d /\ c_key c = c_key d) /\
  (forall c, In c cs -> exists d, In d ds /\ c_mod c = c_mod d /\ c_key c = c_key d).

Lemma image_del t gone rest dels :
  is_image t (gone ++ rest) -> same_targets dels gone -> (forall x, In x dels -> c_add x = false) -> disjoint_from gone rest ->
  is_image (apply_cmds dels t) rest.
Proof.
  intros [I1 I2] [T1 T2] Hd Hx. split.
  - intros c Hc. rewrite apply_cmds_untouched; [apply I1; apply in_or_app; right; exact Hc|].
    intros d Hdd. destruct (T1 d Hdd) as (g & Hg & Gm & Gk).
    rewrite <- (hits_same_target _ _ g d Gm Gk). rewrite hits_sym. apply Hx; assumption.
  - intros m k Hk.
    destruct (existsb (hits m k) gone) eqn:E.
    + apply existsb_exists in E. destruct E as (g & Hg & Hh). destruct (T2 g Hg) as (d & Hdd & Gm & Gk).
      unfold hits in Hh. apply andb_true_iff in Hh. destruct Hh as [Hm Hkk]. apply module_eqb_eq in Hm. apply key_eqb_eq in Hkk.
      subst m k. rewrite Gm, Gk. apply deletes_remove; assumption.
    + apply deletes_keep_absent; [exact Hd|]. apply I2. intros c Hc. apply in_app_or in Hc. destruct Hc as [Hc|Hc].
      * destruct (hits m k c) eqn:Eh; [|reflexivity]. exfalso.
        assert (existsb (hits m k) gone = true) as A by (apply existsb_exists; exists c; split; assumption).
        rewrite A in E. discriminate.
      * apply Hk; exact Hc.
Qed.

Lemma is_image_ext t cs cs' : is_image t cs -> (forall c, In c cs <-> In c cs') -> is_image t cs'.
Proof.
  intros [I1 I2] H. split.
  - intros c Hc. apply I1. apply H; exact Hc.
  - intros m k Hk. apply I2. intros c Hc. apply Hk. apply H; exact Hc.
Qed.

(* delete commands of a session address exactly the keys of its add commands *)
Section SameTargets.
  Variable burst : N -> N -> N -> N.
  Lemma qer_add_shape q : exists v1 v2,
    qer_add burst q = if q_level q =? 0
                      then [Cmd MAppQer true [ACCESS; q_id q; q_fseid q] v1; Cmd MAppQer true [CORE; q_id q; q_fseid q] v2]
                      else [Cmd MSessQer true [ACCESS; q_fseid q] v1; Cmd MSessQer true [CORE; q_fseid q] v2].
  Proof.
    unfold qer_add, qer_dir. destruct (q_level q =? 0);
      repeat match goal with |- context [if ?x then _ else _] => destruct x end; eexists; eexists; reflexivity.
  Qed.

  Lemma same_targets_session s :
    same_targets (del_cmds (view (s_pdrs s)) (view (s_fars s)) (view (s_qers s))) (session_cmds burst s).
  Proof.
    unfold session_cmds, del_cmds, add_cmds. split.
    - intros d Hd. repeat (apply in_app_or in Hd; destruct Hd as [Hd|Hd]).
      + apply in_flat_map in Hd. destruct Hd as (p & Hp & Hd). unfold pdr_del in Hd. apply in_map_iff in Hd. destruct Hd as (r & <- & Hr).
        exists (Cmd MPdr true (pdr_key p r) (pdr_val p)). split; [|split; reflexivity].
        apply in_or_app; left. apply in_flat_map. exists p. split; [exact Hp|]. unfold pdr_add. apply in_map_iff. exists r. split; [reflexivity|exact Hr].
      + apply in_flat_map in Hd. destruct Hd as (f & Hf & Hd). destruct Hd as [<-|[]].
        eexists. split; [apply in_or_app; right; apply in_or_app; left; apply in_flat_map; exists f; split; [exact Hf|left; reflexivity]|split; reflexivity].
      + apply in_flat_map in Hd. destruct Hd as (q & Hq & Hd).
        destruct (qer_add_shape q) as (v1 & v2 & Hs).
        assert (exists c, In c (qer_add burst q) /\ c_mod c = c_mod d /\ c_key c = c_key d) as (c & Hc & A & B).
        { rewrite Hs. unfold qer_del in Hd. destruct (q_level q =? 0); destruct Hd as [<-|[<-|[]]];
            first [ (eexists; split; [left; reflexivity|split; reflexivity])
                  | (eexists; split; [right; left; reflexivity|split; reflexivity]) ]. }
        exists c. split; [|split; assumption]. apply in_or_app; right. apply in_or_app; right. apply in_flat_map. exists q. split; assumption.
    - intros c Hc. repeat (apply in_app_or in Hc; destruct Hc as [Hc|Hc]).
      + apply in_flat_map in Hc. destruct Hc as (p & Hp & Hc). unfold pdr_add in Hc. apply in_map_iff in Hc. destruct Hc as (r & <- & Hr).
        exists (Cmd MPdr false (pdr_key p r) []). split; [|split; reflexivity].
        apply in_or_app; left. apply in_flat_map. exists p. split; [exact Hp|]. unfold pdr_del. apply in_map_iff. exists r. split; [reflexivity|exact Hr].
      + apply in_flat_map in Hc. destruct Hc as (f & Hf & Hc). destruct Hc as [<-|[]].
        eexists. split; [apply in_or_app; right; apply in_or_app; left; apply in_flat_map; exists f; split; [exact Hf|left; reflexivity]|split; reflexivity].
      + apply in_flat_map in Hc. destruct Hc as (q & Hq & Hc).
        destruct (qer_add_shape q) as (v1 & v2 & Hs). rewrite Hs in Hc.
        assert (exists d, In d (qer_del q) /\ c_mod c = c_mod d /\ c_key c = c_key d) as (d & Hd & A & B).
        { unfold qer_del. destruct (q_level q =? 0); destruct Hc as [<-|[<-|[]]];
            first [ (eexists; split; [left; reflexivity|split; reflexivity])
                  | (eexists; split; [right; left; reflexivity|split; reflexivity]) ]. }
        exists d. split; [|split; assumption]. apply in_or_app; right. apply in_or_app; right. apply in_flat_map. exists q. split; assumption.
  Qed.

  Lemma add_cmds_are_adds ps fs qs c : In c (add_cmds burst ps fs qs) -> c_add c = true.
  Proof.
    unfold add_cmds. intros H. repeat (apply in_app_or in H; destruct H as [H|H]).
    - apply in_flat_map in H. destruct H as (p & _ & H). unfold pdr_add in H. apply in_map_iff in H. destruct H as (r & <- & _). reflexivity.
    - apply in_flat_map in H. destruct H as (f & _ & H). destruct H as [<-|[]]. reflexivity.
    - apply in_flat_map in H. destruct H as (q & _ & H). destruct (qer_add_shape q) as (v1 & v2 & Hs). rewrite Hs in H.
      destruct (q_level q =? 0); destruct H as [<-|[<-|[]]]; reflexivity.
  Qed.
End SameTargets.

(* ---- membership facts about the session list *)
Lemma del_session_absent l ss : ~ In l (map s_lseid ss) -> del_session l ss = ss.
Proof.
  induction ss as [|s ss IH]; intros H; [reflexivity|]. cbn [del_session].
  destruct (s_lseid s =? l) eqn:E.
  - exfalso. apply H. left. apply N.eqb_eq. exact E.
  - rewrite IH; [reflexivity|]. intros Hin. apply H. right. exact Hin.
Qed.
Lemma in_del_session l ss x : In x (del_session l ss) <-> In x ss /\ s_lseid x <> l.
Proof.
  induction ss as [|s ss IH]; cbn [del_session In]; [tauto|].
  destruct (s_lseid s =? l) eqn:E.
  - rewrite IH. apply N.eqb_eq in E. split; [tauto|]. intros [[<-|H] Hn]; [contradiction|tauto].
  - cbn [In]. rewrite IH. apply N.eqb_neq in E. split; [intros [<-|H]; tauto|tauto].
Qed.
Lemma find_session_in l ss s : find_session l ss = Some s -> In s ss.
Proof.
  induction ss as [|x ss IH]; [discriminate|]. cbn [find_session].
  destruct (s_lseid x =? l); [intros H; inversion H; left; reflexivity|intros H; right; apply IH; exact H].
Qed.
Lemma nodup_lseid_unique ss a b : NoDup (map s_lseid ss) -> In a ss -> In b ss -> s_lseid a = s_lseid b -> a = b.
Proof.
  induction ss as [|x ss IH]; intros Hn Ha Hb He; [destruct Ha|].
  inversion Hn as [|? ? Hnin Hn']; subst. destruct Ha as [<-|Ha], Hb as [<-|Hb]; auto.
  - exfalso. apply Hnin. rewrite He. apply in_map. exact Hb.
  - exfalso. apply Hnin. rewrite <- He. apply in_map. exact Ha.
Qed.

Section ImageSteps.
  Variable burst : N -> N -> N -> N.

  Lemma in_image x ss : In x (image burst ss) <-> exists s, In s ss /\ In x (session_cmds burst s).
  Proof. unfold image. apply in_flat_map. Qed.

  Lemma est_accepted_store a c nid cpf pdrs fars qers draws a' c' rseid n l cr cmds ms sd s :
    handle_est burst a c nid cpf pdrs fars qers draws = Done (a', c', Out (Some (REst rseid CAUSE_OK n (Some l) cr)) cmds ms sd) ->
    find_session l (c_sessions c') = Some s ->
    c_sessions c' = s :: c_sessions c /\ cmds = session_cmds burst s /\ a_tables a' = apply_cmds cmds (a_tables a).
  Proof.
    intros H Hf.
    destruct (est_accepted burst _ _ _ _ _ _ _ _ _ _ _ _ _ _ _ _ _ H) as (l' & s' & Hup & Hnz & _ & Hnin & Hf' & _).
    inversion Hup; subst l'. rewrite Hf in Hf'. inversion Hf'; subst s'.
    edestruct (est_accepted_tables burst) as [Hc Ht]; [exact H|exact Hf|].
    split; [|split; [exact Hc|exact Ht]].
    unfold handle_est in H. split_all H; inversion H; subst; try discriminate.
    all: try (unfold CAUSE_OK, CAUSE_REJ, CAUSE_NORES, CAUSE_NOASSOC, CAUSE_MISSING in *; congruence).
    cbn [c_sessions] in *.
    match type of Hf with find_session ?l (put_session ?x _) = _ =>
      change l with (s_lseid x) in Hf; rewrite (find_put x _ Hnz) in Hf; inversion Hf; subst end.
    unfold put_session. cbn [s_lseid] in *.
    match goal with |- (if ?l =? 0 then _ else _) = _ => destruct (l =? 0) eqn:E0; [apply N.eqb_eq in E0; contradiction|] end.
    rewrite del_session_absent by exact Hnin. reflexivity.
  Qed.

  (* accepted establishment: the image grows by exactly the new session's entries *)
  Lemma est_image_step a c nid cpf pdrs fars qers draws a' c' rseid n l cr cmds ms sd s others :
    handle_est burst a c nid cpf pdrs fars qers draws = Done (a', c', Out (Some (REst rseid CAUSE_OK n (Some l) cr)) cmds ms sd) ->
    find_session l (c_sessions c') = Some s ->
    is_image (a_tables a) (image burst (c_sessions c ++ others)) ->
    distinct_keys (session_cmds burst s) -> disjoint_from (session_cmds burst s) (image burst (c_sessions c ++ others)) ->
    is_image (a_tables a') (image burst (c_sessions c' ++ others)).
  Proof.
    intros H Hf Hi Hd Hx. edestruct est_accepted_store as (Hs & Hc & Ht); [exact H|exact Hf|].
    rewrite Hs, Ht, Hc. cbn [app image flat_map]. fold (image burst (c_sessions c ++ others)).
    apply image_add; try assumption. intros x Hxx. eapply add_cmds_are_adds. exact Hxx.
  Qed.

  (* the ending of a session: the image shrinks by exactly its entries *)
  Lemma end_session_image_step a s a' cmds ss others :
    end_session a s = (a', cmds) -> In s ss -> NoDup (map s_lseid ss) ->
    is_image (a_tables a) (image burst (ss ++ others)) ->
    disjoint_from (session_cmds burst s) (image burst (del_session (s_lseid s) ss ++ others)) ->
    is_image (a_tables a') (image burst (del_session (s_lseid s) ss ++ others)).
  Proof.
    intros He Hin Hn Hi Hx. unfold end_session in He.
    destruct (release_ips (a_pool a) (s_lseid s) (view (s_pdrs s))) as [pl ok]. inversion He; subst; clear He. cbn [a_tables].
    apply image_del with (gone := session_cmds burst s).
    - eapply is_image_ext; [exact Hi|]. intros x. rewrite in_app_iff, !in_image. split.
      + intros (y & Hy & Hxy). apply in_app_or in Hy. destruct Hy as [Hy|Hy].
        * destruct (N.eq_dec (s_lseid y) (s_lseid s)) as [E|E].
          -- left. rewrite <- (nodup_lseid_unique ss y s Hn Hy Hin E). exact Hxy.
          -- right. exists y. split; [apply in_or_app; left; apply in_del_session; split; assumption|exact Hxy].
        * right. exists y. split; [apply in_or_app; right; exact Hy|exact Hxy].
      + intros [Hs|(y & Hy & Hxy)].
        * exists s. split; [apply in_or_app; left; exact Hin|exact Hs].
        * exists y. split; [|exact Hxy]. apply in_app_or in Hy. destruct Hy as [Hy|Hy]; apply in_or_app.
          -- left. apply in_del_session in Hy. tauto.
          -- right. exact Hy.
    - apply same_targets_session.
    - intros x. apply del_cmds_are_deletes.
    - exact Hx.
  Qed.
End ImageSteps.
