(* C10 - the full statements, Stop included: the node counts the connections it created and waits for one
   completion from each before it closes pConnDone.  Counting invariant over all associations. *)
From Coq Require Import NArith String List Bool Arith Lia Permutation.
From UPF Require Import Base.LTS Model.Teardown Proofs.TeardownInv Proofs.TeardownProofs.
Import ListNotations.
Open Scope list_scope.

(* ================================================================== counting *)
Definition b2n (b : bool) : nat := if b then 1 else 0.
Definition cnt (f : assoc -> bool) (l : list assoc) : nat := List.length (filter f l).

Lemma cnt_cons f a l : cnt f (a :: l) = b2n (f a) + cnt f l.
Proof. unfold cnt. cbn. destruct (f a); reflexivity. Qed.

Lemma cnt_upd f l i a a2 : nth_error l i = Some a -> cnt f (upd l i a2) + b2n (f a) = cnt f l + b2n (f a2).
Proof.
  revert i. induction l as [|x l IH]; intros [|i] H; cbn in H; try discriminate.
  - injection H as ->. cbn [upd]. rewrite !cnt_cons. lia.
  - cbn [upd]. rewrite !cnt_cons. specialize (IH i H). lia.
Qed.

Lemma cnt_le f g l : (forall a, In a l -> f a = true -> g a = true) -> cnt f l <= cnt g l.
Proof.
  induction l as [|x l IH]; intros H; [reflexivity|]. rewrite !cnt_cons.
  assert (IH' : cnt f l <= cnt g l) by (apply IH; intros; apply H; [right|]; assumption).
  destruct (f x) eqn:Ef; cbn; [rewrite (H x (or_introl eq_refl) Ef); cbn; lia | lia].
Qed.

Lemma cnt_eq_all f g l : (forall a, In a l -> f a = true -> g a = true) -> cnt g l <= cnt f l ->
  forall a, In a l -> g a = true -> f a = true.
Proof.
  induction l as [|x l IH]; intros H Hle a Ha Hg; [destruct Ha|]. rewrite !cnt_cons in Hle.
  assert (Hl : cnt f l <= cnt g l) by (apply cnt_le; intros; apply H; [right|]; assumption).
  assert (Hx : f x = true -> g x = true) by (apply H; left; reflexivity).
  assert (Hrec : cnt g l <= cnt f l -> In a l -> f a = true).
  { intros Hc Hin. apply IH; try assumption. intros b Hb. apply H. right. exact Hb. }
  destruct (f x) eqn:Ef, (g x) eqn:Eg; cbn in Hle.
  - destruct Ha as [<-|Ha]; [exact Ef|]. apply Hrec; [lia|exact Ha].
  - specialize (Hx eq_refl). discriminate.
  - lia.
  - destruct Ha as [<-|Ha]; [congruence|]. apply Hrec; [lia|exact Ha].
Qed.

(* ================================================================== local facts *)
Lemma rep_crt sess a : AInv sess a -> rep a = true -> crt a = true.
Proof.
  intros (_ & _ & _ & _ & _ & _ & _ & (H1 & _) & _ & _) Hr. apply H1. unfold rep in Hr. destruct (a_once a); congruence.
Qed.

(* the thread about to send has not reported yet *)
Lemma at_send_rep sess a r : AInv sess a -> is_assoc_role r = true -> at_pc a r FDo 6 = true ->
  rep a = false /\ crt a = true.
Proof.
  intros Ha Hr Hat. unfold at_pc in Hat. apply andb_true_iff in Hat. destruct Hat as [Hf Hp].
  apply Nat.eqb_eq in Hp.
  assert (Hfn : t_fn (get_thr a r) = FDo) by (destruct (t_fn (get_thr a r)); try discriminate; reflexivity).
  pose proof Ha as (Hrd & Hsel & Hhb & Hfst & _ & _ & _ & (H1 & _) & _ & _).
  assert (Ho : a_once a = ORun r).
  { destruct r; try discriminate Hr; unfold fn_ok in *;
      [destruct Hrd as [[_ ?]|[? _]] | destruct Hsel as [[_ ?]|[? _]] | destruct Hhb as [[_ ?]|[? _]]
       | destruct Hfst as [[_ ?]|[? _]]]; try assumption; cbn in *; congruence. }
  split; [unfold rep; rewrite Ho, Hp; reflexivity | apply H1; rewrite Ho; discriminate].
Qed.

Lemma rep_done sess a : AInv sess a -> rep a = true -> Permutation (a_del a) (a_inst a) /\ a_store a = [].
Proof.
  intros (_ & _ & _ & _ & Hd & _) Hr. unfold rep in Hr. unfold Data in Hd.
  destruct (a_once a) as [|r0|]; [discriminate| |tauto].
  destruct Hd as (_ & _ & _ & Hb). unfold Body in Hb.
  destruct (t_pc (get_thr a r0)) as [|[|[|[|[|[|[|[|[|p]]]]]]]]]; cbn in Hr; try discriminate; tauto.
Qed.

(* a peer that was never accepted: nothing was ever done for it *)
Lemma not_crt_untouched sess a : AInv sess a -> crt a = false -> a_once a = ONew.
Proof.
  intros (_ & _ & _ & _ & _ & _ & _ & (H1 & _) & _ & _) Hc.
  destruct (a_once a) as [|r0|]; [reflexivity| |]; (assert (crt a = true) by (apply H1; discriminate); congruence).
Qed.

(* MapStore happens before the first message is handled: nothing has been reported then *)
Lemma at_store_rep sess a r : AInv sess a -> is_assoc_role r = true ->
  at_pc a r FFirst 1 || at_pc a r FFirst 3 = true -> rep a = false /\ r = RFst.
Proof.
  intros Ha Hr Hat.
  pose proof Ha as (Hrd & Hsel & Hhb & Hfst & _ & _ & _ & (_ & _ & H3 & _) & _ & _).
  assert (Hfn : t_fn (get_thr a r) = FFirst /\ (t_pc (get_thr a r) = 1 \/ t_pc (get_thr a r) = 3)).
  { unfold at_pc in Hat. apply orb_true_iff in Hat.
    destruct Hat as [H|H]; apply andb_true_iff in H; destruct H as [Hf Hp]; apply Nat.eqb_eq in Hp;
      (split; [destruct (t_fn (get_thr a r)); try discriminate; reflexivity | auto]). }
  destruct Hfn as [Hfn Hpc].
  assert (r = RFst) as ->.
  { destruct r; try discriminate Hr; try reflexivity; unfold fn_ok in *; cbn in *;
      [destruct Hrd as [[? _]|[? _]] | destruct Hsel as [[? _]|[? _]] | destruct Hhb as [[? _]|[? _]]]; congruence. }
  split; [|reflexivity]. cbn in Hfn, Hpc.
  assert (He : early_t (a_fst a) = true).
  { unfold early_t. rewrite Hfn. destruct Hpc as [->| ->]; reflexivity. }
  unfold rep. rewrite (H3 He). reflexivity.
Qed.

Lemma rep_set_fields a : (forall v, rep (set_inbox a v) = rep a /\ crt (set_inbox a v) = crt a)
  /\ (forall v, rep (set_tmo_armed a v) = rep a /\ crt (set_tmo_armed a v) = crt a)
  /\ (forall v, rep (set_hb_armed a v) = rep a /\ crt (set_hb_armed a v) = crt a).
Proof.
  destruct a as [st de on sh tm hb so ib ta ha hr hm ins rd se ht fs]. unfold rep, crt. cbn.
  repeat split; destruct on as [|r0|]; try reflexivity; destruct r0; reflexivity.
Qed.

(* ================================================================== the node's side *)
Definition NI (nd : node) : Prop :=
  t_fn (n_thr nd) = FNode /\ t_fn (n_stop nd) = FStop /\ t_fn (n_peers nd) = FPeers
  /\ (cclosed (n_pcd nd) = true -> 5 <= t_pc (n_thr nd))
  /\ (cclosed (n_done nd) = true -> 7 <= t_pc (n_thr nd))
  /\ (1 <= t_pc (n_peers nd) -> n_lsock nd = true /\ n_busy nd = false)
  /\ (cclosed (n_npd nd) = true -> 2 <= t_pc (n_peers nd))
  /\ (n_npdnil nd = true -> cclosed (n_npd nd) = true)
  /\ (4 <= t_pc (n_thr nd) -> n_npdnil nd = true /\ n_created nd <= n_ended nd).

(* what a step of the node's own threads does to the counters, the channel and the map *)
Definition neff (nd nd' : node) : Prop :=
  n_created nd' = n_created nd /\
  ((cbuf (n_pcd nd') = cbuf (n_pcd nd) /\ n_ended nd' = n_ended nd /\ n_map nd' = n_map nd)
   \/ (exists v, cbuf (n_pcd nd) = v :: cbuf (n_pcd nd') /\ n_ended nd' = S (n_ended nd)
                 /\ n_map nd' = remove_all v (n_map nd))).

Ltac ni_finish :=
  unfold NI, neff in *; cbn in *;
  repeat match goal with H : _ /\ _ |- _ => destruct H end;
  repeat split; intros;
  first [ assumption | reflexivity | discriminate | congruence | lia
        | (left; repeat split; reflexivity)
        | (right; eexists; repeat split; eauto; fail)
        | solve [auto]
        | match goal with H : ?P -> _ /\ _ |- _ => (assert P as X by first [assumption | lia | congruence]; destruct (H X); first [assumption | lia | congruence]) end
        | match goal with H : ?P -> _ |- _ => (assert P as X by first [assumption | lia | congruence]; specialize (H X); first [assumption | lia | congruence]) end
        | idtac ].

Lemma ni_node alt nd res :
  NI nd -> thread_step 0 RNode alt nd assoc0 (n_thr nd) = res ->
  match res with
  | Ok (nd', _, t') => NI (nset_thr nd' t') /\ neff nd (nset_thr nd' t')
  | Blocked => True
  | Panic _ => False
  end.
Proof.
  intros Hn H.
  destruct nd as [cx pc dn ls mp ex bu mn np nn cr en th sp pe].
  destruct th as [st fn p rt it].
  assert (fn = FNode) as -> by (destruct Hn as (Hf & _); exact Hf).
  unfold thread_step in H. cbn in H.
  destruct res as [[[nd' a'] t']| |site]; [ | exact I | ];
    (destruct st; try discriminate H);
    do 8 (try destruct p as [|p]); cbn in H; try discriminate H;
    unfold ch_close, ch_recv in H; inv_ok.
  all: try (split; ni_finish).
  all: ni_finish.
  all: try (destruct nn; cbn in *; try lia; try reflexivity; destruct cr as [|m]; cbn in *; try lia;
            destruct (Nat.leb_spec en m); cbn in *; lia).
  all: try (apply andb_true_iff in E; destruct E; assumption).
Qed.

Lemma ni_stop nd res :
  NI nd -> thread_step 0 RStop 0 nd assoc0 (n_stop nd) = res ->
  match res with
  | Ok (nd', _, t') => NI (nset_stop nd' t') /\ neff nd (nset_stop nd' t')
  | Blocked => True
  | Panic _ => False
  end.
Proof.
  intros Hn H.
  destruct nd as [cx pc dn ls mp ex bu mn np nn cr en th sp pe].
  destruct sp as [st fn p rt it].
  assert (fn = FStop) as -> by (destruct Hn as (_ & Hf & _); exact Hf).
  unfold thread_step in H. cbn in H.
  destruct res as [[[nd' a'] t']| |site]; [ | exact I | ];
    (destruct st; try discriminate H);
    do 5 (try destruct p as [|p]); cbn in H; try discriminate H;
    unfold ch_cancel, ch_recv in H; inv_ok.
  all: try (split; ni_finish).
  all: ni_finish.
Qed.

Lemma ni_peers nd res :
  NI nd -> thread_step 0 RPeers 0 nd assoc0 (n_peers nd) = res ->
  match res with
  | Ok (nd', _, t') => NI (nset_peers nd' t') /\ neff nd (nset_peers nd' t')
  | Blocked => True
  | Panic _ => False
  end.
Proof.
  intros Hn H.
  destruct nd as [cx pc dn ls mp ex bu mn np nn cr en th sp pe].
  destruct pe as [st fn p rt it].
  assert (fn = FPeers) as -> by (destruct Hn as (_ & _ & Hf & _); exact Hf).
  unfold thread_step in H. cbn in H.
  destruct res as [[[nd' a'] t']| |site]; [ | exact I | ];
    (destruct st; try discriminate H);
    do 4 (try destruct p as [|p]); cbn in H; try discriminate H;
    unfold ch_close in H; inv_ok.
  all: try (split; ni_finish).
  all: ni_finish.
  all: try (match goal with E : _ && _ = true |- _ => apply andb_true_iff in E; destruct E as [? E2]; apply negb_true_iff in E2 end; congruence).

Qed.

(* a step of an association thread keeps the node's invariant: it cannot create a connection once the listener
   has returned *)
Lemma ni_assoc me r a nd nd' a2 :
  NI nd -> node_frame nd nd' -> delta me r a nd nd' a2 -> NI nd'.
Proof.
  intros (N1 & N2 & N3 & N4 & N5 & N6 & N7 & N8 & N9)
         (F1 & F2 & F3 & F4 & F5 & F6 & F7 & F10 & F11 & F12 & F13 & F8 & F9)
         (D1 & D2 & D5 & D6 & D7 & D8 & D3 & Di & D4).
  unfold NI. rewrite F2, F3, F4, F7, F8, F10, F11, F12, F13. repeat split; auto.
  - apply N6. assumption.
  - destruct (n_busy nd') eqn:Eb; [|reflexivity]. destruct (N6 H) as [Hl Hb]. destruct (D7 eq_refl); congruence.
  - apply N9. assumption.
  - destruct (N9 H) as [Hn Hle]. destruct (crt a) eqn:Ec.
    + rewrite (D6 eq_refl) in D5. lia.
    + destruct (crt a2) eqn:Ec2; [|lia]. exfalso.
      assert (n_lsock nd = true) by (apply N6; specialize (N7 (N8 Hn)); lia).
      specialize (D8 eq_refl eq_refl). congruence.
Qed.

Lemma ni_env s e : NI (s_node s) -> NI (s_node (apply_env s e)).
Proof.
  intros H. destruct e as [i d|i|i| |]; cbn; try (destruct (nth_error (s_asc s) i); exact H);
    destruct (s_node s); unfold NI in *; cbn in *; tauto.
Qed.

Lemma ni_init cap cfg : NI (init_node cap cfg).
Proof. unfold NI. cbn. repeat split; intros; try discriminate; lia. Qed.

(* ================================================================== the global invariant *)
Definition idx (i : nat) : N := N.of_nat i.

Record SInv (cfg : list acfg) (s : state) : Prop := {
  si_g : GInv cfg s;
  si_n : NI (s_node s);
  si_panic : s_panic s = None;
  si_rep : cnt rep (s_asc s) = n_ended (s_node s) + List.length (cbuf (n_pcd (s_node s)));
  si_crt : cnt crt (s_asc s) = n_created (s_node s);
  si_map : forall i a, nth_error (s_asc s) i = Some a ->
             (rep a = true -> In (idx i) (cbuf (n_pcd (s_node s))) \/ memN (idx i) (n_map (s_node s)) = false)
             /\ (memN (idx i) (n_map (s_node s)) = true -> crt a = true) }.

Lemma memN_remove_all_same x l : memN x (remove_all x l) = false.
Proof.
  induction l as [|y l IH]; cbn; [reflexivity|]. destruct (N.eqb x y) eqn:E; [exact IH|]. cbn. rewrite E. exact IH.
Qed.
Lemma memN_remove_all_false x y l : memN x l = false -> memN x (remove_all y l) = false.
Proof.
  induction l as [|z l IH]; cbn; [reflexivity|]. intros H. apply orb_false_elim in H. destruct H as [H1 H2].
  destruct (N.eqb y z); [apply IH; exact H2|]. cbn. rewrite H1. apply IH. exact H2.
Qed.
Lemma memN_remove_all_true x y l : memN x (remove_all y l) = true -> memN x l = true.
Proof.
  intros H. destruct (memN x l) eqn:E; [reflexivity|]. rewrite (memN_remove_all_false _ y _ E) in H. discriminate.
Qed.

Lemma all_created_reported cfg s :
  SInv cfg s -> 4 <= t_pc (n_thr (s_node s)) ->
  cbuf (n_pcd (s_node s)) = [] /\ forall a, In a (s_asc s) -> crt a = true -> rep a = true.
Proof.
  intros [Hg Hn _ Hr Hc _] Hpc.
  destruct Hn as (_ & _ & _ & _ & _ & _ & _ & _ & N9). destruct (N9 Hpc) as [_ Hle].
  assert (Himp : forall a, In a (s_asc s) -> rep a = true -> crt a = true).
  { intros a Ha. apply In_nth_error in Ha. destruct Ha as [i Hi].
    destruct (Forall2_nth _ _ _ _ _ Hg Hi) as (se & _ & Hai). eapply rep_crt; eauto. }
  pose proof (cnt_le rep crt (s_asc s) Himp) as Hle2.
  split.
  - destruct (cbuf (n_pcd (s_node s))); [reflexivity|]. cbn in Hr. lia.
  - apply cnt_eq_all; [exact Himp | lia].
Qed.

Lemma cnt_same f l i a a2 : nth_error l i = Some a -> f a2 = f a -> cnt f (upd l i a2) = cnt f l.
Proof. intros H He. pose proof (cnt_upd f l i a a2 H) as Hc. rewrite He in Hc. lia. Qed.

Lemma live_addrs_mem cs k x : memN (N.of_nat x) (live_addrs cs k) = true ->
  exists j c, x = k + j /\ nth_error cs j = Some c /\ c_first c = None.
Proof.
  revert k. induction cs as [|c cs IH]; intros k H; [discriminate|]. cbn [live_addrs] in H.
  destruct (c_first c) eqn:Ef.
  - destruct (IH _ H) as (j & c' & -> & Hn & Hf). exists (S j), c'. repeat split; auto. lia.
  - cbn [memN] in H. apply orb_true_iff in H. destruct H as [H|H].
    + apply N.eqb_eq in H. apply Nat2N.inj in H. subst x. exists 0, c. repeat split; auto.
    + destruct (IH _ H) as (j & c' & -> & Hn & Hf). exists (S j), c'. repeat split; auto. lia.
Qed.

Lemma sinv_init cfg ev : SInv cfg (init cfg ev).
Proof.
  constructor.
  - apply ginv_init.
  - apply ni_init.
  - reflexivity.
  - unfold init, init_cap. cbn -[cnt].
    induction cfg as [|c cfg IH]; [reflexivity|]. cbn [map]. rewrite cnt_cons, IH.
    destruct c as [se hb [d|]]; reflexivity.
  - unfold init, init_cap. cbn -[cnt live_addrs].
    assert (G : forall k, cnt crt (map init_assoc cfg) = List.length (live_addrs cfg k)).
    { induction cfg as [|c cfg IH]; intros k; [reflexivity|]. cbn [map live_addrs]. rewrite cnt_cons.
      destruct c as [se hb [d|]]; cbn; rewrite (IH (S k)); reflexivity. }
    apply G.
  - intros i a Ha. unfold init, init_cap in *. cbn in *. rewrite nth_error_map in Ha.
    destruct (nth_error cfg i) as [c|] eqn:Ec; [|discriminate]. cbn in Ha. injection Ha as <-.
    split; [destruct c as [se hb [d|]]; cbn; discriminate|].
    intros Hm. unfold idx in Hm. apply (live_addrs_mem cfg 0 i) in Hm. destruct Hm as (j & c' & Hj & Hn & Hf).
    cbn in Hj. subst j. rewrite Ec in Hn. injection Hn as <-. unfold crt, crt_t, init_assoc. rewrite Hf. reflexivity.
Qed.

(* environment events change neither the counters nor what has been reported *)
Lemma env_eff s e :
  n_ended (s_node (apply_env s e)) = n_ended (s_node s)
  /\ n_pcd (s_node (apply_env s e)) = n_pcd (s_node s)
  /\ n_created (s_node (apply_env s e)) = n_created (s_node s)
  /\ n_map (s_node (apply_env s e)) = n_map (s_node s)
  /\ cnt rep (s_asc (apply_env s e)) = cnt rep (s_asc s)
  /\ cnt crt (s_asc (apply_env s e)) = cnt crt (s_asc s)
  /\ (forall i a', nth_error (s_asc (apply_env s e)) i = Some a' ->
        exists a, nth_error (s_asc s) i = Some a /\ rep a' = rep a /\ crt a' = crt a).
Proof.
  destruct e as [j d|j|j| |]; cbn.
  1-3: destruct (nth_error (s_asc s) j) as [b|] eqn:Eb; cbn;
       [|repeat split; auto; intros i a' Ha; exists a'; auto];
       destruct (rep_set_fields b) as (R1 & R2 & R3).
  - destruct (R1 (a_inbox b ++ [d])) as [Hr Hc]. repeat split; auto; try (eapply cnt_same; eauto).
    intros i a' Ha. destruct (Nat.eq_dec j i) as [->|Hne].
    + rewrite (nth_error_upd_same _ _ _ _ Eb) in Ha. injection Ha as <-. eauto.
    + rewrite nth_error_upd_other in Ha by exact Hne. eauto.
  - destruct (R2 true) as [Hr Hc]. repeat split; auto; try (eapply cnt_same; eauto).
    intros i a' Ha. destruct (Nat.eq_dec j i) as [->|Hne].
    + rewrite (nth_error_upd_same _ _ _ _ Eb) in Ha. injection Ha as <-. eauto.
    + rewrite nth_error_upd_other in Ha by exact Hne. eauto.
  - destruct (R3 true) as [Hr Hc]. repeat split; auto; try (eapply cnt_same; eauto).
    intros i a' Ha. destruct (Nat.eq_dec j i) as [->|Hne].
    + rewrite (nth_error_upd_same _ _ _ _ Eb) in Ha. injection Ha as <-. eauto.
    + rewrite nth_error_upd_other in Ha by exact Hne. eauto.
  - destruct (s_node s); cbn. repeat split; auto. intros i a' Ha. eauto.
  - destruct (s_node s); cbn. repeat split; auto. intros i a' Ha. eauto.
Qed.

(* a step of one of the node's own threads *)
Lemma sinv_node cfg s nd' :
  SInv cfg s -> NI nd' -> neff (s_node s) nd' ->
  SInv cfg (State nd' (s_asc s) (s_env s) None).
Proof.
  intros [Hg Hn Hp Hr Hc Hm] Hn' (E1 & E2). constructor; cbn -[cnt]; auto.
  - destruct E2 as [(-> & -> & _)|(v & Hb & -> & _)]; [exact Hr|]. rewrite Hr, Hb. cbn. lia.
  - congruence.
  - intros i a Ha. destruct (Hm i a Ha) as [M1 M2].
    destruct E2 as [(-> & _ & ->)|(v & Hb & _ & ->)]; [split; assumption|]. split.
    + intros Hrep. destruct (M1 Hrep) as [Hin|Hmem].
      * rewrite Hb in Hin. destruct Hin as [<-|Hin]; [right; apply memN_remove_all_same | left; exact Hin].
      * right. apply memN_remove_all_false. exact Hmem.
    + intros Hmem. apply M2. eapply memN_remove_all_true; eauto.
Qed.

Lemma sinv_step cfg s l s' : SInv cfg s -> step s l = Some s' -> SInv cfg s'.
Proof.
  intros Hs H. pose proof Hs as [Hg Hn Hp Hr Hc Hm].
  assert (Hg' : GInv cfg s') by (eapply ginv_step; eauto).
  unfold step in H. unfold dead in H. rewrite Hp in H.
  destruct (n_main (s_node s)) eqn:Emain; [discriminate|].
  destruct l as [k|alt| | |i r alt].
  - (* environment *)
    destruct (nth_error (s_env s) k) as [e|] eqn:Ek; [|discriminate]. injection H as <-.
    destruct (env_eff s e) as (X1 & X2 & X3 & X4 & X5 & X6 & X7).
    constructor; cbn -[cnt].
    + exact Hg'.
    + apply ni_env. exact Hn.
    + reflexivity.
    + rewrite X1, X2, X5. exact Hr.
    + rewrite X3, X6. exact Hc.
    + intros i a' Ha. destruct (X7 i a' Ha) as (a & Ha0 & -> & ->). rewrite X2, X4. apply Hm. exact Ha0.
  - destruct (Nat.leb 3 alt); [discriminate|].
    pose proof (ni_node alt (s_node s) _ Hn eq_refl) as Hstep.
    destruct (thread_step 0 RNode alt (s_node s) assoc0 (n_thr (s_node s))) as [[[nd' a'] t']| |site];
      try discriminate; [|destruct Hstep]. injection H as <-. destruct Hstep. apply sinv_node; assumption.
  - pose proof (ni_stop (s_node s) _ Hn eq_refl) as Hstep.
    destruct (thread_step 0 RStop 0 (s_node s) assoc0 (n_stop (s_node s))) as [[[nd' a'] t']| |site];
      try discriminate; [|destruct Hstep]. injection H as <-. destruct Hstep. apply sinv_node; assumption.
  - pose proof (ni_peers (s_node s) _ Hn eq_refl) as Hstep.
    destruct (thread_step 0 RPeers 0 (s_node s) assoc0 (n_peers (s_node s))) as [[[nd' a'] t']| |site];
      try discriminate; [|destruct Hstep]. injection H as <-. destruct Hstep. apply sinv_node; assumption.
  - (* a thread of association i *)
    destruct (negb (is_assoc_role r) || Nat.leb 3 alt) eqn:Eg; [discriminate|].
    apply orb_false_elim in Eg. destruct Eg as [Er _]. apply negb_false_iff in Er.
    destruct (nth_error (s_asc s) i) as [a|] eqn:Ea; [|discriminate].
    destruct (Forall2_nth _ _ _ _ _ Hg Ea) as (se & Hse & Ha).
    pose proof (step_assoc se (N.of_nat i) r alt (s_node s) a _ Er Ha eq_refl) as Hstep.
    destruct (thread_step (N.of_nat i) r alt (s_node s) a (get_thr a r)) as [[[nd' a'] t']| |site];
      try discriminate; injection H as <-.
    + destruct Hstep as [[Ha2 Hd] Hfr]. pose proof Hd as (D1 & D2 & D5 & D6 & D7 & D8 & D3 & Di & D4).
      pose proof Hfr as (F1 & F2 & F3 & F4 & F5 & F6 & F7 & F10 & F11 & F12 & F13 & F8 & F9).
      set (a2 := set_thr a' r t') in *.
      pose proof (cnt_upd rep (s_asc s) i a a2 Ea) as Crep.
      pose proof (cnt_upd crt (s_asc s) i a a2 Ea) as Ccrt.
      constructor; cbn -[cnt].
      * exact Hg'.
      * eapply ni_assoc; eauto.
      * reflexivity.
      * rewrite F12, D1, D3 in *. destruct (at_pc a r FDo 6) eqn:Eat.
        -- destruct (at_send_rep se a r Ha Er Eat) as [Hrf _]. rewrite Hrf in *. cbn in Crep.
           rewrite app_length. cbn. unfold b2n in Crep. lia.
        -- rewrite orb_false_r in Crep. lia.
      * unfold b2n in Ccrt. lia.
      * intros j b Hb. rewrite D1, D2. destruct (Nat.eq_dec i j) as [->|Hne].
        -- rewrite (nth_error_upd_same _ _ _ _ Ea) in Hb. injection Hb as <-.
           destruct (Hm j a Ea) as [M1 M2]. unfold idx in *.
           destruct (at_pc a r FFirst 1 || at_pc a r FFirst 3) eqn:Est.
           ++ destruct (at_store_rep se a r Ha Er Est) as [Hrf ->]. split.
              ** intros Hr2. rewrite D3, Hrf in Hr2. cbn in Hr2.
                 unfold at_pc in Est, Hr2. cbn in Est, Hr2.
                 destruct (t_fn (a_fst a)); cbn in *; try discriminate.
              ** intros _. destruct (crt a) eqn:Ec; [apply D6; reflexivity|].
                 (* the store follows the accept: the connection has been counted *)
                 exfalso. unfold at_pc in Est. cbn in Est. unfold crt, crt_t in Ec.
                 destruct (t_fn (a_fst a)); cbn in *; try discriminate.
                 destruct (t_pc (a_fst a)) as [|[|[|[|p]]]]; cbn in *; discriminate.
           ++ split.
              ** intros Hr2. rewrite D3 in Hr2. destruct (at_pc a r FDo 6).
                 --- left. apply in_or_app. right. left. reflexivity.
                 --- rewrite orb_false_r in Hr2. destruct (M1 Hr2); [left|right]; assumption.
              ** intros Hmem. apply D6. apply M2. exact Hmem.
        -- rewrite nth_error_upd_other in Hb by exact Hne.
           destruct (Hm j b Hb) as [M1 M2]. unfold idx in *.
           assert (Hij : N.eqb (N.of_nat j) (N.of_nat i) = false) by (apply N.eqb_neq; lia).
           split.
           ++ intros Hr2. destruct (M1 Hr2) as [Hin|Hmem].
              ** left. destruct (at_pc a r FDo 6); [apply in_or_app; left|]; exact Hin.
              ** right. destruct (at_pc a r FFirst 1 || at_pc a r FFirst 3); [|exact Hmem].
                 cbn. rewrite Hij. cbn. apply memN_remove_all_false. exact Hmem.
           ++ intros Hmem. apply M2. destruct (at_pc a r FFirst 1 || at_pc a r FFirst 3); [|exact Hmem].
              cbn in Hmem. rewrite Hij in Hmem. cbn in Hmem. eapply memN_remove_all_true; eauto.
    + (* the send on pConnDone cannot find the channel closed: the node closes it only after every connection
         it created has reported *)
      exfalso. destruct Hstep as (Hcl & _ & Hat).
      destruct (at_send_rep se a r Ha Er Hat) as [Hrf Hcr].
      destruct Hn as (_ & _ & _ & N4 & _). specialize (N4 Hcl).
      destruct (all_created_reported cfg s Hs ltac:(lia)) as [_ Hall].
      rewrite (Hall a (nth_error_In _ _ Ea) Hcr) in Hrf. discriminate.
Qed.

(* ================================================================== the theorems *)
Lemma sinv_run cfg ev sch : SInv cfg (run (init cfg ev) sch).
Proof.
  unfold run. apply (run_inv state tid step (SInv cfg)); [intros; eapply sinv_step; eauto | apply sinv_init].
Qed.

(* no panic, whatever the triggers (Stop included) and whatever the schedule *)
Theorem safe_all cfg ev sch : s_panic (run (init cfg ev) sch) = None.
Proof. destruct (sinv_run cfg ev sch) as [_ _ H _ _ _]. exact H. Qed.

(* when node.done is closed (Done() may return, main may exit) every connection the node ever created has an empty
   store, has deleted from the datapath exactly the sessions that were ever installed for it - the configured ones
   and those established by requests in flight - and is gone from pConns; peers that were never accepted were
   never touched *)
Theorem clean_at_exit cfg ev sch i a :
  cclosed (n_done (s_node (run (init cfg ev) sch))) = true ->
  nth_error (s_asc (run (init cfg ev) sch)) i = Some a ->
  in_map (run (init cfg ev) sch) i = false
  /\ ((Permutation (a_del a) (a_inst a) /\ a_store a = []) \/ (crt a = false /\ a_once a = ONew)).
Proof.
  intros Hd Ha. pose proof (sinv_run cfg ev sch) as Hs. set (s := run (init cfg ev) sch) in *.
  pose proof Hs as [Hg Hn _ _ _ Hm].
  destruct Hn as (_ & _ & _ & _ & N5 & _). specialize (N5 Hd).
  destruct (all_created_reported cfg s Hs ltac:(lia)) as [Hbuf Hall].
  destruct (Forall2_nth _ _ _ _ _ Hg Ha) as (se & Hse & Hai).
  destruct (Hm i a Ha) as [M1 M2]. unfold in_map, idx in *.
  destruct (crt a) eqn:Ec.
  - pose proof (Hall a (nth_error_In _ _ Ha) Ec) as Hr. split.
    + destruct (M1 Hr) as [Hin|Hmem]; [rewrite Hbuf in Hin; destruct Hin | exact Hmem].
    + left. eapply rep_done; eauto.
  - split.
    + destruct (memN (N.of_nat i) (n_map (s_node s))) eqn:E; [|reflexivity]. specialize (M2 eq_refl). discriminate.
    + right. split; [reflexivity|]. eapply not_crt_untouched; eauto.
Qed.

(* forgotten, every configuration (first datagram a release included), Stop or not: once the association has
   ended and the node has taken its completion from pConnDone, the address is no longer in pConns *)
Theorem forgotten_all cfg ev sch i a :
  nth_error (s_asc (run (init cfg ev) sch)) i = Some a -> a_once a = ODone ->
  ~ In (N.of_nat i) (cbuf (n_pcd (s_node (run (init cfg ev) sch)))) ->
  in_map (run (init cfg ev) sch) i = false.
Proof.
  intros Ha Ho Hnin. destruct (sinv_run cfg ev sch) as [_ _ _ _ _ Hm].
  destruct (Hm i a Ha) as [M1 _].
  assert (Hr : rep a = true) by (unfold rep; rewrite Ho; reflexivity).
  destruct (M1 Hr) as [Hin|Hmem]; [contradiction | exact Hmem].
Qed.
