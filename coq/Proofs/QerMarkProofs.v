(* C09 - lemmas about MarkSessionQer and the two handlers (Model/Qer.v). *)
From Coq Require Import NArith List Bool Lia ZifyN ZifyNat ZifyBool Arith.
From UPF Require Import Model.Qer Proofs.QerProofs.
Import ListNotations.
Open Scope N_scope.

(* ------------------------------------------------------------------ vocabulary *)
Definition is_sess (q : qer) : bool := q_level q =? 1.
Definition count_sess (l : list qer) : nat := length (filter is_sess l).
Definition all_app (l : list qer) : Prop := Forall (fun q => q_level q = 0) l.
Definition gbr_free (q : qer) : bool := negb ((0 <? q_ulgbr q) || (0 <? q_dlgbr q)).

(* a QER labelled session-level - in the stored session or among the QERs handed to the datapath -
   is referenced by every PDR of the session *)
Definition sound (s : sess) (sent : list qer) : Prop :=
  forall q, In q (s_qers s) \/ In q sent -> q_level q = 1 -> forall p, In p (s_pdrs s) -> In (q_id q) (p_qers p).

(* ------------------------------------------------------------------ small facts *)
Lemma contains_In : forall l v, contains l v = true <-> In v l.
Proof.
  intros l v. unfold contains. rewrite existsb_exists. split.
  - intros (x & Hin & Heq). apply N.eqb_eq in Heq. now subst.
  - intros H. exists v. split; [exact H|apply N.eqb_refl].
Qed.
Lemma contains_ext : forall a b, (forall x, In x a <-> In x b) -> forall x, contains a x = contains b x.
Proof.
  intros a b H x. apply eq_true_iff_eq. rewrite !contains_In. apply H.
Qed.

Lemma set_level_same : forall q, q_level q = 1 -> set_level 1 q = q.
Proof. intros [] H. cbn in *. now subst. Qed.
Lemma set_level_id : forall l q, q_id (set_level l q) = q_id q.
Proof. reflexivity. Qed.

Lemma remove_first_sub : forall v l x, In x (remove_first v l) -> In x l.
Proof.
  induction l as [|h t IH]; cbn; [tauto|]. intros x. destruct (N.eqb_spec v h); cbn; [tauto|].
  intros [H|H]; [now left|right; now apply IH].
Qed.
Lemma remove_first_other : forall v l x, In x l -> x <> v -> In x (remove_first v l).
Proof.
  induction l as [|h t IH]; cbn; [tauto|]. intros x [H|H] Hne.
  - subst. destruct (N.eqb_spec v x); [congruence|now left].
  - destruct (N.eqb_spec v h); [exact H|right; now apply IH].
Qed.
Lemma move_last_In : forall v l x, In x (move_last v l) <-> In x l.
Proof.
  intros v l x. unfold move_last. destruct (contains l v) eqn:E; [|tauto].
  apply contains_In in E. rewrite in_app_iff. cbn. split.
  - intros [H|[H|[]]]; [now apply remove_first_sub in H|now subst].
  - intros H. destruct (N.eq_dec x v) as [->|Hne]; [right; now left|left; now apply remove_first_other].
Qed.

Lemma last_map_ne : forall {A B} (f : A -> B) (l : list A) d d', l <> [] -> last (map f l) d' = f (last l d).
Proof.
  induction l as [|a [|b t] IH]; intros d d' Hne; [congruence|reflexivity|].
  change (last (map f (b :: t)) d' = f (last (b :: t) d)). apply IH. discriminate.
Qed.
Lemma last_In : forall {A} (l : list A) d, l <> [] -> In (last l d) l.
Proof.
  induction l as [|a [|b t] IH]; intros d Hne; [congruence|now left|].
  right. apply IH. discriminate.
Qed.

(* ------------------------------------------------------------------ mark_nth and counting *)
Lemma count_cons : forall q r, count_sess (q :: r) = ((if is_sess q then 1 else 0) + count_sess r)%nat.
Proof. intros. unfold count_sess. cbn [filter]. destruct (is_sess q); reflexivity. Qed.
Lemma is_sess_set : forall q, is_sess (set_level 1 q) = true.
Proof. reflexivity. Qed.
Lemma mark_nth_count : forall i l, (count_sess (mark_nth i l) <= S (count_sess l))%nat.
Proof.
  induction i as [|i IH]; intros [|q r]; cbn [mark_nth]; try lia.
  - rewrite !count_cons, is_sess_set. destruct (is_sess q); lia.
  - rewrite !count_cons. specialize (IH r). lia.
Qed.
Lemma all_app_count : forall l, all_app l -> count_sess l = 0%nat.
Proof.
  induction 1 as [|q r Hq _ IH]; [reflexivity|]. rewrite count_cons. unfold is_sess. rewrite Hq. exact IH.
Qed.
Lemma mark_nth_already : forall i l q, nth_error l i = Some q -> q_level q = 1 -> mark_nth i l = l.
Proof.
  induction i as [|i IH]; intros [|h t] q H Hl; cbn in *; try discriminate.
  - injection H as ->. now rewrite set_level_same.
  - f_equal. eapply IH; eassumption.
Qed.
Lemma mark_nth_keeps : forall j l i q, nth_error l i = Some q -> q_level q = 1 -> nth_error (mark_nth j l) i = Some q.
Proof.
  induction j as [|j IH]; intros [|h t] i q H Hl; cbn in *; try (destruct i; discriminate).
  - destruct i; cbn in *; [injection H as ->; now rewrite set_level_same|exact H].
  - destruct i; cbn in *; [exact H|now apply IH].
Qed.
Lemma mark_nth_marked : forall i l q, all_app l -> In q (mark_nth i l) -> q_level q = 1 ->
  exists q', nth_error l i = Some q' /\ q = set_level 1 q'.
Proof.
  induction i as [|i IH]; intros [|h t] q Ha Hin Hl; cbn in *; try tauto; inversion Ha as [|? ? Hh Ht]; subst.
  - destruct Hin as [<-|Hin]; [now exists h|].
    rewrite Forall_forall in Ht. apply Ht in Hin. rewrite Hin in Hl. discriminate.
  - destruct Hin as [<-|Hin]; [rewrite Hh in Hl; discriminate|]. now apply IH.
Qed.
Lemma mark_nth_exact_one : forall i l q, all_app l -> nth_error l i = Some q -> count_sess (mark_nth i l) = 1%nat.
Proof.
  induction i as [|i IH]; intros [|h t] q Ha H; cbn [mark_nth nth_error] in *; try discriminate; inversion Ha as [|? ? Hh Ht]; subst.
  - rewrite count_cons, is_sess_set, (all_app_count t Ht). reflexivity.
  - rewrite count_cons. unfold is_sess at 1. rewrite Hh. cbn [N.eqb Nat.add]. eapply IH; eassumption.
Qed.

(* ------------------------------------------------------------------ mark: what it can do to the QERs *)
Lemma mark_snd_cases : forall pdrs qers, snd (mark pdrs qers) = qers \/ exists i, snd (mark pdrs qers) = mark_nth i qers.
Proof.
  intros. unfold mark. destruct (search_list pdrs qers); [|now left].
  destruct (select qers l) as [[si sid] m]. right. now exists si.
Qed.
Lemma mark_count : forall pdrs qers, (count_sess (snd (mark pdrs qers)) <= S (count_sess qers))%nat.
Proof.
  intros. destruct (mark_snd_cases pdrs qers) as [->|[i ->]]; [lia|apply mark_nth_count].
Qed.
Lemma mark_keeps : forall pdrs qers i q, nth_error qers i = Some q -> q_level q = 1 -> nth_error (snd (mark pdrs qers)) i = Some q.
Proof.
  intros. destruct (mark_snd_cases pdrs qers) as [->|[j ->]]; [assumption|now apply mark_nth_keeps].
Qed.

Lemma search_list_short : forall pdrs qers, (length qers < 2)%nat -> search_list pdrs qers = None.
Proof.
  intros [|p r] qers H; [reflexivity|]. unfold search_list.
  replace (Nat.ltb (length qers) 2) with true by (symmetry; apply Nat.ltb_lt; exact H).
  now rewrite orb_true_r.
Qed.
Lemma mark_short : forall pdrs qers, (length qers < 2)%nat -> mark pdrs qers = (pdrs, qers).
Proof. intros. unfold mark. now rewrite search_list_short. Qed.

(* at most one session-level QER after an establishment, in the store and in the message's list *)
Lemma establish_fst : forall cp cq, s_qers (fst (establish cp cq)) = snd (mark cp cq).
Proof. intros. unfold establish. destruct (mark cp cq) as [p1 q1]. destruct (mark p1 cq) as [p2 a2]. reflexivity. Qed.
Lemma establish_snd : forall cp cq, snd (establish cp cq) = snd (mark (fst (mark cp cq)) cq).
Proof. intros. unfold establish. destruct (mark cp cq) as [p1 q1]. cbn [fst]. destruct (mark p1 cq) as [p2 a2]. reflexivity. Qed.
Lemma establish_pdrs : forall cp cq, s_pdrs (fst (establish cp cq)) = fst (mark (fst (mark cp cq)) cq).
Proof. intros. unfold establish. destruct (mark cp cq) as [p1 q1]. cbn [fst]. destruct (mark p1 cq) as [p2 a2]. reflexivity. Qed.

Lemma at_most_one_establishment : forall cp cq, all_app cq ->
  (count_sess (s_qers (fst (establish cp cq))) <= 1)%nat /\ (count_sess (snd (establish cp cq)) <= 1)%nat.
Proof.
  intros cp cq Ha. rewrite establish_fst, establish_snd. pose proof (all_app_count cq Ha) as H0. split.
  - pose proof (mark_count cp cq). lia.
  - pose proof (mark_count (fst (mark cp cq)) cq). lia.
Qed.

(* ------------------------------------------------------------------ the search list when nothing is dropped *)
Lemma intersect_all : forall sl b, (forall x, In x sl -> In x b) -> intersect sl b = sl.
Proof.
  unfold intersect. induction sl as [|h t IH]; intros b H; [reflexivity|]. cbn.
  replace (contains b h) with true by (symmetry; apply contains_In; apply H; now left).
  f_equal. apply IH. intros x Hx. apply H. now right.
Qed.
Lemma go_copy_self : forall sl, go_copy sl sl = sl.
Proof. intros. unfold go_copy. rewrite firstn_all, skipn_all. apply app_nil_r. Qed.
Lemma narrow_id : forall pdrs sl, sl <> [] -> (forall p, In p pdrs -> forall x, In x sl -> In x (p_qers p)) -> narrow sl pdrs = Some sl.
Proof.
  induction pdrs as [|p r IH]; intros sl Hne H; [reflexivity|]. cbn [narrow].
  rewrite intersect_all by (apply H; now left).
  destruct sl as [|s s']; [congruence|]. rewrite go_copy_self. apply IH; [exact Hne|].
  intros p' Hp'. apply H. now right.
Qed.

Definition dummy_pdr : pdr := mkPdr 0 [].
Definition last_list (pdrs : list pdr) : list N := p_qers (last pdrs dummy_pdr).
(* every id of the last PDR's list is in every PDR's list: the intersection loop drops nothing *)
Definition covers (pdrs : list pdr) : Prop := forall p, In p pdrs -> forall x, In x (last_list pdrs) -> In x (p_qers p).

Lemma search_list_covered : forall pdrs qers, pdrs <> [] -> last_list pdrs <> [] -> (2 <= length qers)%nat -> covers pdrs ->
  search_list pdrs qers = Some (last_list pdrs).
Proof.
  intros pdrs qers Hne Hl Hq Hc. unfold search_list. destruct pdrs as [|p r]; [congruence|].
  fold dummy_pdr. fold (last_list (p :: r)).
  replace (Nat.ltb (length (last_list (p :: r))) 1) with false
    by (symmetry; apply Nat.ltb_ge; destruct (last_list (p :: r)); [congruence|cbn; lia]).
  replace (Nat.ltb (length qers) 2) with false by (symmetry; apply Nat.ltb_ge; exact Hq).
  cbn [orb]. apply narrow_id; assumption.
Qed.

(* ------------------------------------------------------------------ the selection loop *)
Definition picked (full : list qer) (sl : list N) (acc : nat * N * N) : Prop :=
  exists q, nth_error full (fst (fst acc)) = Some q /\ q_id q = snd (fst acc) /\ contains sl (q_id q) = true /\ gbr_free q = true.
Definition candidate (sl : list N) (q : qer) : Prop := contains sl (q_id q) = true /\ gbr_free q = true.

Lemma select_from_inv : forall qers pre sl acc,
  (picked (pre ++ qers) sl acc \/ snd acc = 0) ->
  let r := select_from (length pre) qers sl acc in
  (picked (pre ++ qers) sl r \/ snd r = 0) /\
  (picked (pre ++ qers) sl acc \/ (exists q, In q qers /\ candidate sl q) -> picked (pre ++ qers) sl r).
Proof.
  induction qers as [|q r IH]; intros pre sl acc Hinv.
  - cbn. split; [exact Hinv|]. intros [H|(q & [] & _)]. exact H.
  - cbn [select_from]. destruct acc as [[si sid] smbr]. cbn [fst snd] in *.
    set (acc' := if contains sl (q_id q)
                 then if (0 <? q_ulgbr q) || (0 <? q_dlgbr q) then (si, sid, smbr)
                      else if smbr <=? q_ulmbr q then (length pre, q_id q, q_ulmbr q) else (si, sid, smbr)
                 else (si, sid, smbr)).
    assert (Hfull : (pre ++ [q]) ++ r = pre ++ q :: r) by (rewrite <- app_assoc; reflexivity).
    assert (Hlen : length (pre ++ [q]) = S (length pre)) by (rewrite app_length; cbn; lia).
    assert (Hnew : picked (pre ++ q :: r) sl (length pre, q_id q, q_ulmbr q) <-> candidate sl q).
    { unfold picked, candidate. cbn [fst snd]. rewrite nth_error_app2 by lia. rewrite Nat.sub_diag. cbn. split.
      - intros (q' & Hq' & _ & H1 & H2). injection Hq' as <-. tauto.
      - intros [H1 H2]. exists q. tauto. }
    assert (Hinv' : picked (pre ++ q :: r) sl acc' \/ snd acc' = 0).
    { unfold acc'. destruct (contains sl (q_id q)) eqn:Ec; [|exact Hinv].
      destruct ((0 <? q_ulgbr q) || (0 <? q_dlgbr q)) eqn:Eg; [exact Hinv|].
      destruct (N.leb_spec smbr (q_ulmbr q)); [|exact Hinv].
      left. apply Hnew. split; [exact Ec|]. unfold gbr_free. now rewrite Eg. }
    specialize (IH (pre ++ [q]) sl acc'). rewrite Hfull, Hlen in IH. specialize (IH Hinv'). cbv zeta in IH.
    destruct IH as [IH1 IH2]. split; [exact IH1|].
    intros Hc. apply IH2.
    destruct Hc as [Hp|(q0 & [<-|Hin] & Hcand)].
    + (* already picked: acc' is either acc or a new pick *)
      unfold acc'. destruct (contains sl (q_id q)) eqn:Ec; [|now left].
      destruct ((0 <? q_ulgbr q) || (0 <? q_dlgbr q)) eqn:Eg; [now left|].
      destruct (N.leb_spec smbr (q_ulmbr q)); [|now left].
      left. apply Hnew. split; [exact Ec|]. unfold gbr_free. now rewrite Eg.
    + (* q itself is a candidate *)
      destruct Hcand as [Ec Eg]. unfold gbr_free in Eg. apply negb_true_iff in Eg.
      unfold acc'. rewrite Ec, Eg. destruct (N.leb_spec smbr (q_ulmbr q)).
      * left. apply Hnew. split; [exact Ec|]. unfold gbr_free. now rewrite Eg.
      * destruct Hinv as [Hp|Hz]; [now left|cbn in Hz; lia].
    + right. now exists q0.
Qed.

Lemma select_sound : forall qers sl, (exists q, In q qers /\ candidate sl q) ->
  exists q', nth_error qers (fst (fst (select qers sl))) = Some q' /\ q_id q' = snd (fst (select qers sl)) /\
             In (q_id q') sl /\ gbr_free q' = true.
Proof.
  intros qers sl Hc. unfold select.
  pose proof (select_from_inv qers [] sl (0%nat, 0, 0) (or_intror eq_refl)) as [_ H]. cbn [app length] in H.
  destruct (H (or_intror Hc)) as (q' & H1 & H2 & H3 & H4). exists q'. repeat split; try assumption.
  now apply contains_In.
Qed.

Lemma select_from_ext : forall qers i sl sl' acc, (forall x, contains sl x = contains sl' x) ->
  select_from i qers sl acc = select_from i qers sl' acc.
Proof.
  induction qers as [|q r IH]; intros i sl sl' acc H; [reflexivity|]. cbn [select_from].
  destruct acc as [[si sid] smbr]. rewrite (H (q_id q)). apply IH. exact H.
Qed.

(* ------------------------------------------------------------------ establishment under the guard *)
Definition reorder (sid : N) (pdrs : list pdr) : list pdr := map (fun p => mkPdr (p_id p) (move_last sid (p_qers p))) pdrs.

Lemma mark_covered : forall pdrs qers, pdrs <> [] -> last_list pdrs <> [] -> (2 <= length qers)%nat -> covers pdrs ->
  mark pdrs qers = (reorder (snd (fst (select qers (last_list pdrs)))) pdrs, mark_nth (fst (fst (select qers (last_list pdrs)))) qers).
Proof.
  intros pdrs qers H1 H2 H3 H4. unfold mark. rewrite search_list_covered by assumption.
  destruct (select qers (last_list pdrs)) as [[si sid] m]. reflexivity.
Qed.

Lemma reorder_In : forall sid pdrs p1, In p1 (reorder sid pdrs) -> exists p, In p pdrs /\ forall x, In x (p_qers p1) <-> In x (p_qers p).
Proof.
  intros sid pdrs p1 H. unfold reorder in H. apply in_map_iff in H. destruct H as (p & <- & Hp).
  exists p. split; [exact Hp|]. intros x. cbn. apply move_last_In.
Qed.
Lemma reorder_last : forall sid pdrs x, pdrs <> [] -> In x (last_list (reorder sid pdrs)) <-> In x (last_list pdrs).
Proof.
  intros sid pdrs x Hne. unfold last_list, reorder. rewrite (last_map_ne _ pdrs dummy_pdr dummy_pdr Hne). cbn. apply move_last_In.
Qed.
Lemma reorder_covers : forall sid pdrs, pdrs <> [] -> covers pdrs -> covers (reorder sid pdrs).
Proof.
  intros sid pdrs Hne Hc p1 Hp1 x Hx. apply reorder_In in Hp1. destruct Hp1 as (p & Hp & Hiff).
  apply Hiff. apply Hc; [exact Hp|]. now apply (reorder_last sid pdrs x Hne).
Qed.
Lemma reorder_ne : forall sid pdrs, pdrs <> [] -> reorder sid pdrs <> [].
Proof. intros sid [|p r] H; [congruence|discriminate]. Qed.

(* boolean guard: PDRs exist, the last PDR lists something, at least two QERs, every id the last PDR
   lists is listed by every PDR, and one of those ids belongs to a QER without GBR *)
Definition est_guard (cp : list pdr) (cq : list qer) : bool :=
  match cp with
  | [] => false
  | _ :: _ =>
    negb (Nat.eqb (length (last_list cp)) 0) && Nat.leb 2 (length cq) &&
    forallb (fun p => forallb (contains (p_qers p)) (last_list cp)) cp &&
    existsb (fun q => contains (last_list cp) (q_id q) && gbr_free q) cq
  end.

Lemma est_guard_spec : forall cp cq, est_guard cp cq = true ->
  cp <> [] /\ last_list cp <> [] /\ (2 <= length cq)%nat /\ covers cp /\ exists q, In q cq /\ candidate (last_list cp) q.
Proof.
  intros cp cq H. unfold est_guard in H. destruct cp as [|p r]; [discriminate|].
  apply andb_true_iff in H. destruct H as [H H4]. apply andb_true_iff in H. destruct H as [H H3].
  apply andb_true_iff in H. destruct H as [H1 H2].
  split; [discriminate|]. split.
  - intros E. rewrite E in H1. discriminate.
  - split; [now apply Nat.leb_le|]. split.
    + intros p' Hp' x Hx. rewrite forallb_forall in H3. specialize (H3 p' Hp'). rewrite forallb_forall in H3.
      apply contains_In. now apply H3.
    + apply existsb_exists in H4. destruct H4 as (q & Hq & Hc). apply andb_true_iff in Hc. exists q. split; [exact Hq|exact Hc].
Qed.

Theorem establish_guarded : forall cp cq, est_guard cp cq = true -> all_app cq ->
  snd (establish cp cq) = s_qers (fst (establish cp cq)) /\
  count_sess (s_qers (fst (establish cp cq))) = 1%nat /\
  sound (fst (establish cp cq)) (snd (establish cp cq)).
Proof.
  intros cp cq Hg Ha. apply est_guard_spec in Hg. destruct Hg as (Hne & Hl & Hq & Hc & Hcand).
  destruct (select_sound cq (last_list cp) Hcand) as (q' & Hn & Hid & Hin & _).
  set (si := fst (fst (select cq (last_list cp)))) in *. set (sid := snd (fst (select cq (last_list cp)))) in *.
  assert (M1 : mark cp cq = (reorder sid cp, mark_nth si cq)) by (apply mark_covered; assumption).
  assert (Hsel : select cq (last_list (reorder sid cp)) = select cq (last_list cp)).
  { unfold select. apply select_from_ext. apply contains_ext. intros x. now apply reorder_last. }
  assert (M2 : mark (reorder sid cp) cq = (reorder sid (reorder sid cp), mark_nth si cq)).
  { rewrite mark_covered.
    - rewrite Hsel. reflexivity.
    - now apply reorder_ne.
    - intros E. apply Hl. destruct (last_list cp) as [|x t] eqn:E'; [reflexivity|].
      assert (In x (last_list (reorder sid cp))) by (apply reorder_last; [exact Hne|rewrite E'; now left]).
      rewrite E in H. destruct H.
    - exact Hq.
    - now apply reorder_covers. }
  assert (E : establish cp cq = (mkSess (reorder sid (reorder sid cp)) (mark_nth si cq), mark_nth si cq)).
  { unfold establish. rewrite M1, M2. reflexivity. }
  rewrite E. cbn [fst snd s_qers s_pdrs].
  split; [reflexivity|]. split; [eapply mark_nth_exact_one; eassumption|].
  intros q Hq' Hlv p Hp. cbn [fst snd s_qers s_pdrs] in *.
  assert (Hqin : In q (mark_nth si cq)) by tauto.
  destruct (mark_nth_marked si cq q Ha Hqin Hlv) as (q0 & Hq0 & ->). rewrite Hn in Hq0. injection Hq0 as <-.
  rewrite set_level_id. rewrite Hid in Hin.
  apply reorder_In in Hp. destruct Hp as (p1 & Hp1 & Hiff1). apply Hiff1.
  apply reorder_In in Hp1. destruct Hp1 as (p0 & Hp0 & Hiff0). apply Hiff0.
  rewrite Hid. apply Hc; assumption.
Qed.

(* fewer than two QERs: nothing is marked *)
Lemma establish_single : forall cp cq, (length cq < 2)%nat -> establish cp cq = (mkSess cp cq, cq).
Proof. intros. unfold establish. rewrite mark_short by assumption. rewrite mark_short by assumption. reflexivity. Qed.

(* ------------------------------------------------------------------ modifications *)
Lemma update_qer_other : forall u l l' i q, update_qer u l = Some l' -> nth_error l i = Some q -> q_id q <> q_id u -> nth_error l' i = Some q.
Proof.
  induction l as [|h t IH]; intros l' i q Hu Hn Hne; cbn in *; [discriminate|].
  destruct (N.eqb_spec (q_id h) (q_id u)) as [E|E].
  - injection Hu as <-. destruct i; cbn in *; [injection Hn as ->; congruence|exact Hn].
  - destruct (update_qer u t) as [t'|] eqn:Et; [|discriminate]. injection Hu as <-.
    destruct i; cbn in *; [exact Hn|]. eapply IH; [reflexivity|eassumption|exact Hne].
Qed.
Lemma update_qer_length : forall u l l', update_qer u l = Some l' -> length l' = length l.
Proof.
  induction l as [|h t IH]; intros l' H; cbn in *; [discriminate|].
  destruct (q_id h =? q_id u); [injection H as <-; reflexivity|].
  destruct (update_qer u t) as [t'|]; [|discriminate]. injection H as <-. cbn. f_equal. now apply IH.
Qed.
Lemma update_qer_In : forall u l l' q, update_qer u l = Some l' -> In q l' -> q = u \/ In q l.
Proof.
  induction l as [|h t IH]; intros l' q H Hin; cbn in *; [discriminate|].
  destruct (q_id h =? q_id u).
  - injection H as <-. destruct Hin as [<-|Hin]; [now left|right; now right].
  - destruct (update_qer u t) as [t'|]; [|discriminate]. injection H as <-.
    destruct Hin as [<-|Hin]; [right; now left|]. destruct (IH t' q eq_refl Hin); [now left|right; now right].
Qed.
Lemma update_qer_count : forall u l l', q_level u = 0 -> update_qer u l = Some l' -> (count_sess l' <= count_sess l)%nat.
Proof.
  induction l as [|h t IH]; intros l' Hu H; cbn [update_qer] in *; [discriminate|].
  destruct (q_id h =? q_id u).
  - injection H as <-. rewrite !count_cons. unfold is_sess at 1. rewrite Hu. cbn [N.eqb]. destruct (is_sess h); lia.
  - destruct (update_qer u t) as [t'|]; [|discriminate]. injection H as <-. rewrite !count_cons.
    specialize (IH t' Hu eq_refl). lia.
Qed.

Definition upd_step (acc : list qer * list qer) (q : qer) : list qer * list qer :=
  match update_qer q (fst acc) with Some l => (l, snd acc ++ [q]) | None => acc end.
Lemma apply_uqers_fold : forall ups qers, apply_uqers ups qers = fold_left upd_step ups (qers, []).
Proof. reflexivity. Qed.

Lemma fold_upd_other : forall ups acc i q, nth_error (fst acc) i = Some q -> (forall u, In u ups -> q_id q <> q_id u) ->
  nth_error (fst (fold_left upd_step ups acc)) i = Some q.
Proof.
  induction ups as [|u r IH]; intros acc i q Hn Hne; [exact Hn|]. cbn [fold_left]. apply IH.
  - unfold upd_step. destruct (update_qer u (fst acc)) as [l|] eqn:E; [|exact Hn]. cbn [fst].
    eapply update_qer_other; [exact E|exact Hn|]. apply Hne. now left.
  - intros u' Hu'. apply Hne. now right.
Qed.
Lemma fold_upd_count : forall ups acc, all_app ups -> (count_sess (fst (fold_left upd_step ups acc)) <= count_sess (fst acc))%nat.
Proof.
  induction ups as [|u r IH]; intros acc Ha; [cbn; lia|]. inversion Ha as [|? ? Hu Hr]; subst. cbn [fold_left].
  specialize (IH (upd_step acc u) Hr). etransitivity; [exact IH|].
  unfold upd_step. destruct (update_qer u (fst acc)) as [l|] eqn:E; [|lia]. cbn [fst]. eapply update_qer_count; eassumption.
Qed.
Lemma fold_upd_marked : forall ups acc q, all_app ups -> In q (fst (fold_left upd_step ups acc)) -> q_level q = 1 -> In q (fst acc).
Proof.
  induction ups as [|u r IH]; intros acc q Ha Hin Hl; [exact Hin|]. inversion Ha as [|? ? Hu Hr]; subst. cbn [fold_left] in Hin.
  specialize (IH (upd_step acc u) q Hr Hin Hl). unfold upd_step in IH.
  destruct (update_qer u (fst acc)) as [l|] eqn:E; [|exact IH]. cbn [fst] in IH.
  destruct (update_qer_In u (fst acc) l q E IH) as [->|H]; [rewrite Hu in Hl; discriminate|exact H].
Qed.
Lemma fold_upd_snd : forall ups acc, exists l, snd (fold_left upd_step ups acc) = snd acc ++ l /\ (length l <= length ups)%nat /\ incl l ups.
Proof.
  induction ups as [|u r IH]; intros acc.
  - exists []. cbn. rewrite app_nil_r. repeat split; [lia|]. intros x [].
  - cbn [fold_left]. destruct (IH (upd_step acc u)) as (l & H1 & H2 & H3).
    assert (Hs : snd (upd_step acc u) = snd acc ++ [u] \/ snd (upd_step acc u) = snd acc).
    { unfold upd_step. destruct (update_qer u (fst acc)); [left|right]; reflexivity. }
    destruct Hs as [Hs|Hs]; rewrite Hs in H1.
    + exists (u :: l). rewrite H1, <- app_assoc. cbn. repeat split; [lia|].
      intros x [<-|Hx]; [now left|right; now apply H3].
    + exists l. repeat split; [exact H1|cbn; lia|]. intros x Hx. right. now apply H3.
Qed.

(* the pieces of modify *)
Definition mod_pdrs (s : sess) (m : modmsg) : list pdr := apply_updrs (m_updrs m) (s_pdrs s ++ m_cpdrs m).
Definition mod_qers (s : sess) (m : modmsg) : list qer := fst (apply_uqers (m_uqers m) (s_qers s ++ m_cqers m)).
Definition mod_add (s : sess) (m : modmsg) : list qer := m_cqers m ++ snd (apply_uqers (m_uqers m) (s_qers s ++ m_cqers m)).
Lemma modify_eq : forall s m,
  modify s m = (mkSess (fst (mark (fst (mark (mod_pdrs s m) (mod_qers s m))) (mod_add s m))) (snd (mark (mod_pdrs s m) (mod_qers s m))),
                snd (mark (fst (mark (mod_pdrs s m) (mod_qers s m))) (mod_add s m))).
Proof.
  intros. unfold modify, mod_pdrs, mod_qers, mod_add.
  destruct (apply_uqers (m_uqers m) (s_qers s ++ m_cqers m)) as [qers upd]. cbn [fst snd].
  destruct (mark (apply_updrs (m_updrs m) (s_pdrs s ++ m_cpdrs m)) qers) as [p1 q1]. cbn [fst snd].
  destruct (mark p1 (m_cqers m ++ upd)) as [p2 a2]. reflexivity.
Qed.

(* the label of a session-level QER survives every modification that does not update that QER *)
Theorem stable_label : forall s m i q, nth_error (s_qers s) i = Some q -> q_level q = 1 ->
  (forall u, In u (m_uqers m) -> q_id q <> q_id u) ->
  nth_error (s_qers (fst (modify s m))) i = Some q.
Proof.
  intros s m i q Hn Hl Hne. rewrite modify_eq. cbn [fst s_qers]. apply mark_keeps; [|exact Hl].
  unfold mod_qers. rewrite apply_uqers_fold. apply fold_upd_other; [|exact Hne].
  cbn [fst]. rewrite nth_error_app1; [exact Hn|]. apply nth_error_Some. congruence.
Qed.

(* a modification that carries at most one QER hands only application-level QERs to the datapath *)
Lemma mod_add_short : forall s m, (length (m_cqers m) + length (m_uqers m) <= 1)%nat -> all_app (m_cqers m) -> all_app (m_uqers m) ->
  snd (modify s m) = mod_add s m /\ all_app (mod_add s m) /\ (length (mod_add s m) <= 1)%nat.
Proof.
  intros s m Hlen Hc Hu. unfold mod_add. rewrite apply_uqers_fold.
  destruct (fold_upd_snd (m_uqers m) (s_qers s ++ m_cqers m, [])) as (l & H1 & H2 & H3). cbn [snd app] in H1.
  assert (Hl : (length (m_cqers m ++ l) <= 1)%nat) by (rewrite app_length; lia).
  assert (Ha : all_app (m_cqers m ++ l)).
  { apply Forall_app. split; [exact Hc|]. apply Forall_forall. intros x Hx. apply H3 in Hx.
    unfold all_app in Hu. rewrite Forall_forall in Hu. now apply Hu. }
  rewrite modify_eq. cbn [snd]. unfold mod_add. rewrite apply_uqers_fold, H1.
  rewrite mark_short by lia. cbn [snd]. repeat split; assumption.
Qed.

Lemma bess_send_app_only : forall conf qers, all_app qers -> forall c, In c (bess_send conf 1 qers) -> k_tbl c = AppTbl.
Proof.
  intros conf qers Ha c Hc. unfold bess_send in Hc. cbn [N.eqb] in Hc. apply in_flat_map in Hc. destruct Hc as (q & Hq & Hc).
  unfold all_app in Ha. rewrite Forall_forall in Ha. specialize (Ha q Hq).
  rewrite add_qer_two in Hc by (now left). destruct (cmd_table_app conf q Ha) as (T1 & _ & _ & T2 & _).
  destruct Hc as [<-|[<-|[]]]; assumption.
Qed.

Theorem stable_datapath_single : forall conf s m, (length (m_cqers m) + length (m_uqers m) <= 1)%nat -> all_app (m_cqers m) -> all_app (m_uqers m) ->
  forall c, In c (snd (bess_modify conf s m)) -> k_tbl c = AppTbl.
Proof.
  intros conf s m Hlen Hc Hu c Hin. unfold bess_modify in Hin. destruct (modify s m) as [s' add] eqn:E. cbn [snd] in Hin.
  destruct (mod_add_short s m Hlen Hc Hu) as (H1 & H2 & _). rewrite E in H1. cbn [snd] in H1. subst add.
  eapply bess_send_app_only; eassumption.
Qed.

(* ------------------------------------------------------------------ histories under the guard *)
(* the state invariant: at most one stored session-level QER, and every PDR references it *)
Definition inv (s : sess) : Prop := (count_sess (s_qers s) <= 1)%nat /\ sound s [].

Definition reselect_ok (s : sess) (m : modmsg) : bool :=
  match search_list (mod_pdrs s m) (mod_qers s m) with
  | None => true
  | Some sl => match nth_error (mod_qers s m) (fst (fst (select (mod_qers s m) sl))) with
               | Some q => q_level q =? 1
               | None => false
               end
  end.
(* a modification that leaves the PDRs alone, carries at most one QER (parsed, hence application
   level), and whose re-run of the selection lands on a QER that is already session-level *)
Definition mod_guard (s : sess) (m : modmsg) : bool :=
  match m_cpdrs m, m_updrs m with
  | [], [] => Nat.leb (length (m_cqers m) + length (m_uqers m)) 1 &&
              forallb (fun q => q_level q =? 0) (m_cqers m ++ m_uqers m) && reselect_ok s m
  | _, _ => false
  end.

Lemma mod_guard_spec : forall s m, mod_guard s m = true ->
  m_cpdrs m = [] /\ m_updrs m = [] /\ (length (m_cqers m) + length (m_uqers m) <= 1)%nat /\
  all_app (m_cqers m) /\ all_app (m_uqers m) /\ reselect_ok s m = true.
Proof.
  intros s m H. unfold mod_guard in H. destruct (m_cpdrs m); [|discriminate]. destruct (m_updrs m); [|discriminate].
  apply andb_true_iff in H. destruct H as [H H3]. apply andb_true_iff in H. destruct H as [H1 H2].
  rewrite forallb_app in H2. apply andb_true_iff in H2. destruct H2 as [H2 H2'].
  repeat split; try assumption; try (now apply Nat.leb_le).
  - apply Forall_forall. intros x Hx. rewrite forallb_forall in H2. now apply N.eqb_eq, H2.
  - apply Forall_forall. intros x Hx. rewrite forallb_forall in H2'. now apply N.eqb_eq, H2'.
Qed.

Lemma mark_fst_In : forall pdrs qers p1, In p1 (fst (mark pdrs qers)) -> exists p, In p pdrs /\ forall x, In x (p_qers p1) <-> In x (p_qers p).
Proof.
  intros pdrs qers p1 H. unfold mark in H. destruct (search_list pdrs qers).
  - destruct (select qers l) as [[si sid] mm]. cbn [fst] in H. now apply (reorder_In sid).
  - cbn [fst] in H. exists p1. split; [exact H|tauto].
Qed.

Theorem modify_guarded : forall s m, inv s -> mod_guard s m = true ->
  inv (fst (modify s m)) /\ all_app (snd (modify s m)) /\ map q_level (s_qers (fst (modify s m))) = map q_level (mod_qers s m).
Proof.
  intros s m [Hcnt Hsound] Hg. apply mod_guard_spec in Hg. destruct Hg as (Hcp & Hup & Hlen & Hc & Hu & Hre).
  destruct (mod_add_short s m Hlen Hc Hu) as (Hadd & Haa & Hal).
  assert (Hpd : mod_pdrs s m = s_pdrs s) by (unfold mod_pdrs; rewrite Hcp, Hup, app_nil_r; reflexivity).
  (* the first call re-marks an already marked QER, or does nothing *)
  assert (Hq1 : snd (mark (mod_pdrs s m) (mod_qers s m)) = mod_qers s m).
  { unfold reselect_ok in Hre. unfold mark. destruct (search_list (mod_pdrs s m) (mod_qers s m)) as [sl|]; [|reflexivity].
    destruct (select (mod_qers s m) sl) as [[si sid] mm]. cbn [fst snd] in *.
    destruct (nth_error (mod_qers s m) si) as [q|] eqn:En; [|discriminate].
    apply N.eqb_eq in Hre. eapply mark_nth_already; eassumption. }
  assert (Hcnt' : (count_sess (mod_qers s m) <= 1)%nat).
  { unfold mod_qers. rewrite apply_uqers_fold. etransitivity; [apply fold_upd_count; exact Hu|]. cbn [fst].
    unfold count_sess in *. rewrite filter_app, app_length. fold (count_sess (m_cqers m)). rewrite (all_app_count _ Hc). lia. }
  assert (Hold : forall q, In q (mod_qers s m) -> q_level q = 1 -> In q (s_qers s)).
  { intros q Hin Hl. unfold mod_qers in Hin. rewrite apply_uqers_fold in Hin.
    apply (fold_upd_marked _ _ q Hu) in Hin; [|exact Hl]. cbn [fst] in Hin. apply in_app_or in Hin.
    destruct Hin as [H|H]; [exact H|]. unfold all_app in Hc. rewrite Forall_forall in Hc. rewrite (Hc q H) in Hl. discriminate. }
  rewrite modify_eq. cbn [fst snd s_qers s_pdrs]. rewrite modify_eq in Hadd. cbn [snd] in Hadd.
  rewrite Hq1. split; [|split; [rewrite Hadd; exact Haa|reflexivity]].
  split; [exact Hcnt'|].
  intros q [Hq|[]] Hl p Hp. cbn [s_qers s_pdrs] in *.
  apply mark_fst_In in Hp. destruct Hp as (p1 & Hp1 & Hiff1). apply Hiff1.
  apply mark_fst_In in Hp1. destruct Hp1 as (p0 & Hp0 & Hiff0). apply Hiff0.
  rewrite Hpd in Hp0. apply (Hsound q); [left; now apply Hold|exact Hl|exact Hp0].
Qed.

Fixpoint guarded (s : sess) (ms : list modmsg) : bool :=
  match ms with
  | [] => true
  | m :: r => mod_guard s m && guarded (fst (modify s m)) r
  end.

Lemma bess_modify_fst : forall conf s m, fst (bess_modify conf s m) = fst (modify s m).
Proof. intros. unfold bess_modify. destruct (modify s m). reflexivity. Qed.
Lemma bess_modify_snd : forall conf s m, snd (bess_modify conf s m) = bess_send conf 1 (snd (modify s m)).
Proof. intros. unfold bess_modify. destruct (modify s m). reflexivity. Qed.
Lemma run_mods_cons : forall conf s m r, run_mods conf s (m :: r) = bess_modify conf s m :: run_mods conf (fst (modify s m)) r.
Proof.
  intros. cbn [run_mods]. rewrite <- (bess_modify_fst conf s m). destruct (bess_modify conf s m) as [s' c]. reflexivity.
Qed.

Lemma run_mods_guarded : forall conf ms s, inv s -> guarded s ms = true ->
  Forall (fun st => inv (fst st) /\ forall c, In c (snd st) -> k_tbl c = AppTbl) (run_mods conf s ms).
Proof.
  induction ms as [|m r IH]; intros s Hi Hg; [constructor|]. cbn [guarded] in Hg. apply andb_true_iff in Hg. destruct Hg as [Hg Hr].
  rewrite run_mods_cons. destruct (modify_guarded s m Hi Hg) as (Hi' & Haa & _). constructor.
  - rewrite bess_modify_fst, bess_modify_snd. split; [exact Hi'|]. intros c Hc. eapply bess_send_app_only; eassumption.
  - apply IH; assumption.
Qed.

Lemma run_history_eq : forall conf cp cq ms,
  run_history conf cp cq ms = (fst (establish cp cq), bess_send conf 0 (s_qers (fst (establish cp cq)))) :: run_mods conf (fst (establish cp cq)) ms.
Proof. intros. unfold run_history, bess_establish. destruct (establish cp cq) as [s a]. reflexivity. Qed.

Theorem history_guarded : forall conf cp cq ms, est_guard cp cq = true -> all_app cq -> guarded (fst (establish cp cq)) ms = true ->
  Forall (fun st => inv (fst st)) (run_history conf cp cq ms) /\
  Forall (fun st => forall c, In c (snd st) -> k_tbl c = AppTbl) (tl (run_history conf cp cq ms)).
Proof.
  intros conf cp cq ms Hg Ha Hr. rewrite run_history_eq. cbn [tl].
  destruct (establish_guarded cp cq Hg Ha) as (_ & Hone & Hs).
  assert (Hi : inv (fst (establish cp cq))).
  { split; [lia|]. intros q [Hq|[]] Hl p Hp. apply (Hs q); [now left|exact Hl|exact Hp]. }
  pose proof (run_mods_guarded conf ms _ Hi Hr) as H. split.
  - constructor; [exact Hi|]. eapply Forall_impl; [|exact H]. cbn. tauto.
  - eapply Forall_impl; [|exact H]. cbn. tauto.
Qed.

(* ------------------------------------------------------------------ refutations (DESIGN F15) *)
Definition q_plain (id mbr gbr : N) : qer := mkQer id 0 9 0 0 mbr mbr gbr gbr 7.

(* the only common QER carries a GBR: nothing is selected, qers[0] is marked; PDR 2 does not list it *)
Lemma unsound_no_candidate :
  let cp := [mkPdr 1 [10; 11]; mkPdr 2 [11]] in let cq := [q_plain 10 100 5; q_plain 11 50 5] in
  all_app cq /\ ~ sound (fst (establish cp cq)) (snd (establish cp cq)).
Proof.
  cbv zeta. split; [repeat constructor|]. intros H.
  specialize (H (set_level 1 (q_plain 10 100 5))). vm_compute in H.
  specialize (H (or_introl (or_introl eq_refl)) eq_refl (mkPdr 2 [11]) (or_intror (or_introl eq_refl))).
  destruct H as [H|[]]; discriminate.
Qed.
(* a non-GBR common QER exists (QER 1), yet copy() leaves id 2 in the search list and QER 2 wins *)
Lemma unsound_stale_list :
  let cp := [mkPdr 1 [1]; mkPdr 2 [1; 2]] in let cq := [q_plain 1 10 0; q_plain 2 20 0] in
  all_app cq /\ ~ sound (fst (establish cp cq)) (snd (establish cp cq)).
Proof.
  cbv zeta. split; [repeat constructor|]. intros H.
  specialize (H (set_level 1 (q_plain 2 20 0))). vm_compute in H.
  specialize (H (or_introl (or_intror (or_introl eq_refl))) eq_refl (mkPdr 1 [1]) (or_introl eq_refl)).
  destruct H as [H|[]]; discriminate.
Qed.
(* three QERs, lists in different order *)
Lemma unsound_three_qers :
  let cp := [mkPdr 1 [2; 1]; mkPdr 2 [1; 2; 3]] in let cq := [q_plain 1 10 0; q_plain 2 20 0; q_plain 3 30 0] in
  all_app cq /\ ~ sound (fst (establish cp cq)) (snd (establish cp cq)).
Proof.
  cbv zeta. split; [repeat constructor|]. intros H.
  specialize (H (set_level 1 (q_plain 3 30 0))). vm_compute in H.
  specialize (H (or_introl (or_intror (or_intror (or_introl eq_refl)))) eq_refl (mkPdr 1 [2; 1]) (or_introl eq_refl)).
  destruct H as [H|[H|[]]]; discriminate.
Qed.

(* updating another QER with a larger MBR: the re-run marks it too and never un-marks the first *)
Lemma two_marked_after_update :
  let cp := [mkPdr 1 [1; 2]; mkPdr 2 [1; 2]] in let cq := [q_plain 1 100 0; q_plain 2 500 0] in
  let m := mkMod [] [] [] [q_plain 1 1000 0] in
  est_guard cp cq = true /\ count_sess (s_qers (fst (modify (fst (establish cp cq)) m))) = 2%nat.
Proof. cbv zeta. split; vm_compute; reflexivity. Qed.

(* a modification that creates two QERs and touches nothing else: the second call marks addQERs[0],
   which goes to sessionQERLookup - the table keyed by (interface, F-SEID) only *)
Lemma overwritten_by_two_new_qers :
  let cp := [mkPdr 1 [1; 2]; mkPdr 2 [1; 2]] in let cq := [q_plain 1 100 0; q_plain 2 500 0] in
  let m := mkMod [] [q_plain 3 10 5; q_plain 4 10 5] [] [] in
  est_guard cp cq = true /\ all_app (m_cqers m) /\
  exists c, In c (snd (bess_modify [] (fst (establish cp cq)) m)) /\ k_tbl c = SessTbl /\
            ~ sound (fst (modify (fst (establish cp cq)) m)) (snd (modify (fst (establish cp cq)) m)).
Proof.
  cbv zeta. split; [vm_compute; reflexivity|]. split; [repeat constructor|].
  eexists. split; [vm_compute; left; reflexivity|]. split; [reflexivity|].
  intros H. specialize (H (set_level 1 (q_plain 3 10 5))). vm_compute in H.
  specialize (H (or_intror (or_introl eq_refl)) eq_refl (mkPdr 1 [1; 2]) (or_introl eq_refl)).
  destruct H as [H|[H|[]]]; discriminate.
Qed.

(* ------------------------------------------------------------------ statements used by Props/C09.v *)
(* the QERs a modification carries come out of parseQER: application level *)
Definition parsed (m : modmsg) : Prop := all_app (m_cqers m) /\ all_app (m_uqers m).
Definition untouched (m : modmsg) (q : qer) : Prop := forall u, In u (m_uqers m) -> q_id q <> q_id u.

Lemma c09_sound_refuted_no_candidate : exists cp cq, all_app cq /\ ~ sound (fst (establish cp cq)) (snd (establish cp cq)).
Proof. eexists. eexists. exact unsound_no_candidate. Qed.
Lemma c09_sound_refuted_stale_list : exists cp cq, all_app cq /\ (exists q, In q cq /\ candidate (last_list cp) q /\ forall p, In p cp -> In (q_id q) (p_qers p)) /\
  ~ sound (fst (establish cp cq)) (snd (establish cp cq)).
Proof.
  exists [mkPdr 1 [1]; mkPdr 2 [1; 2]], [q_plain 1 10 0; q_plain 2 20 0].
  destruct unsound_stale_list as [H1 H2]. split; [exact H1|]. split; [|exact H2].
  exists (q_plain 1 10 0). split; [now left|]. split; [split; reflexivity|].
  intros p [<-|[<-|[]]]; cbn; tauto.
Qed.
Lemma c09_sound_refuted_three_qers : exists cp cq, all_app cq /\ length cq = 3%nat /\ ~ sound (fst (establish cp cq)) (snd (establish cp cq)).
Proof.
  exists [mkPdr 1 [2; 1]; mkPdr 2 [1; 2; 3]], [q_plain 1 10 0; q_plain 2 20 0; q_plain 3 30 0].
  destruct unsound_three_qers as [H1 H2]. split; [exact H1|]. split; [reflexivity|exact H2].
Qed.

Lemma c09_at_most_one_refuted : exists conf cp cq ms st, In st (run_history conf cp cq ms) /\ count_sess (s_qers (fst st)) = 2%nat /\
  est_guard cp cq = true /\ all_app cq /\ Forall parsed ms.
Proof.
  exists [], [mkPdr 1 [1; 2]; mkPdr 2 [1; 2]], [q_plain 1 100 0; q_plain 2 500 0], [mkMod [] [] [] [q_plain 1 1000 0]].
  eexists. split; [vm_compute; right; left; reflexivity|]. split; [vm_compute; reflexivity|]. split; [vm_compute; reflexivity|].
  split; [repeat constructor|]. repeat constructor.
Qed.

Lemma c09_stable_refuted : exists conf cp cq m, est_guard cp cq = true /\ all_app cq /\ parsed m /\ m_cpdrs m = [] /\ m_updrs m = [] /\
  (forall q, In q (s_qers (fst (establish cp cq))) -> untouched m q) /\
  exists c, In c (snd (bess_modify conf (fst (establish cp cq)) m)) /\ k_tbl c = SessTbl.
Proof.
  exists [], [mkPdr 1 [1; 2]; mkPdr 2 [1; 2]], [q_plain 1 100 0; q_plain 2 500 0], (mkMod [] [q_plain 3 10 5; q_plain 4 10 5] [] []).
  split; [vm_compute; reflexivity|]. split; [repeat constructor|]. split; [split; repeat constructor|].
  split; [reflexivity|]. split; [reflexivity|]. split; [intros q _ u []|].
  eexists. split; [vm_compute; left; reflexivity|reflexivity].
Qed.

(* non-vacuity of the guards *)
Lemma est_guard_example :
  est_guard [mkPdr 1 [3; 1; 2]; mkPdr 2 [2; 1]; mkPdr 3 [1; 2]] [q_plain 1 100 5; q_plain 2 500 0; q_plain 3 900 0] = true /\
  map q_level (s_qers (fst (establish [mkPdr 1 [3; 1; 2]; mkPdr 2 [2; 1]; mkPdr 3 [1; 2]] [q_plain 1 100 5; q_plain 2 500 0; q_plain 3 900 0]))) = [0; 1; 0] /\
  map p_qers (s_pdrs (fst (establish [mkPdr 1 [3; 1; 2]; mkPdr 2 [2; 1]; mkPdr 3 [1; 2]] [q_plain 1 100 5; q_plain 2 500 0; q_plain 3 900 0]))) = [[3; 1; 2]; [1; 2]; [1; 2]].
Proof. repeat split; vm_compute; reflexivity. Qed.

Lemma guarded_example :
  let cp := [mkPdr 1 [1; 2]; mkPdr 2 [2; 1]] in let cq := [q_plain 1 100 0; q_plain 2 500 0] in
  let ms := [mkMod [] [q_plain 3 900 0] [] []; mkMod [] [] [] [q_plain 1 300 0]; mkMod [] [q_plain 4 50 5] [] []] in
  est_guard cp cq = true /\ guarded (fst (establish cp cq)) ms = true /\
  map (fun st => map q_level (s_qers (fst st))) (run_history [] cp cq ms) = [[0; 1]; [0; 1; 0]; [0; 1; 0]; [0; 1; 0; 0]].
Proof. cbv zeta. repeat split; vm_compute; reflexivity. Qed.
