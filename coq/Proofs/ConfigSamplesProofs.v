(* The shipped sample files (coq/Gen/Samples_gen.v, regenerated from the repository on every run):
   after comment removal each is a sequence of well-formed JSON tokens without comment markers. *)
From Coq Require Import Ascii String List Bool.
From UPF Require Import Model.Jsonc Gen.Samples_gen.
Import ListNotations.

Lemma all_samples_clean_b : forallb (fun x => clean_after_strip (snd x)) Samples_gen.all = true.
Proof. vm_compute. reflexivity. Qed.

Lemma all_samples_clean : forall path upf text, In (path, upf, text) Samples_gen.all -> clean_after_strip text = true.
Proof.
  intros path upf text H. pose proof all_samples_clean_b as A. rewrite forallb_forall in A.
  exact (A _ H).
Qed.

Lemma samples_nonempty : Samples_gen.all <> [].
Proof. discriminate. Qed.
