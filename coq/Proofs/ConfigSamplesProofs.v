(* The shipped sample files (coq/Gen/Samples_gen.v, regenerated from the repository on every run):
   after comment removal each is a sequence of well-formed JSON tokens without comment markers. *)
From Coq Require Import Ascii String List Bool.
From Coq Require Import NArith.
From UPF Require Import Model.Jsonc Model.Config Gen.Samples_gen.
Import ListNotations.
Open Scope string_scope.

(* The literals of pfcpiface/config.go, re-read on every run, are the ones the models restate:
   the expression Model/Jsonc.v describes, the supported modes and the four defaults of Model/Config.v. *)
Lemma source_constants_match :
  src_regexp = "(?m)//.*$|/\*.*?\*/" /\
  (forall m, In m src_modes <-> In m supported_modes) /\
  src_max_req_retries = max_req_retries_default /\ src_read_timeout = read_timeout_default /\
  src_resp_timeout = resp_timeout_default /\ src_hb_interval = hb_interval_default.
Proof.
  split; [reflexivity|]. split; [|repeat split; reflexivity].
  assert (A : forallb (fun m => existsb (String.eqb m) supported_modes) src_modes = true) by (vm_compute; reflexivity).
  assert (B : forallb (fun m => existsb (String.eqb m) src_modes) supported_modes = true) by (vm_compute; reflexivity).
  rewrite forallb_forall in A, B. intros m. split; intros H.
  - apply A in H. apply existsb_exists in H. destruct H as (x & Hx & E). apply String.eqb_eq in E. now subst.
  - apply B in H. apply existsb_exists in H. destruct H as (x & Hx & E). apply String.eqb_eq in E. now subst.
Qed.

Lemma all_samples_clean_b : forallb (fun x => clean_after_strip (snd x)) Samples_gen.all = true.
Proof. vm_compute. reflexivity. Qed.

Lemma all_samples_clean : forall path upf text, In (path, upf, text) Samples_gen.all -> clean_after_strip text = true.
Proof.
  intros path upf text H. pose proof all_samples_clean_b as A. rewrite forallb_forall in A.
  exact (A _ H).
Qed.

Lemma samples_nonempty : Samples_gen.all <> [].
Proof. discriminate. Qed.
