(* Lemmas about Model/RouteCtl.v (route_control.py).  All invariants are stated through [lookup]
   only, so the representation of the dictionaries never matters. *)
From Coq Require Import NArith ZArith List Bool Lia ZifyN ZifyBool.
From UPF Require Import Model.RouteCtl.
Import ListNotations.
Open Scope N_scope.

(* ---------------------------------------------------------------- decidable keys *)
Class EqbSpec (K : Type) `{Eqb K} := eqb_spec : forall a b : K, reflect (a = b) (eqb a b).
#[global] Instance EqbSpec_N : EqbSpec N := N.eqb_spec.
#[global] Instance EqbSpec_pair {A B} `{EqbSpec A} `{EqbSpec B} : EqbSpec (A * B).
Proof.
  intros [a1 b1] [a2 b2]. unfold eqb, Eqb_pair. cbn [fst snd].
  destruct (eqb_spec a1 a2); destruct (eqb_spec b1 b2); cbn; constructor; congruence.
Qed.
#[global] Instance EqbSpec_modname : EqbSpec modname.
Proof.
  intros a b. unfold eqb, Eqb_modname.
  destruct a, b; try (constructor; congruence);
    repeat match goal with |- context [N.eqb ?x ?y] => destruct (N.eqb_spec x y) end;
    cbn; constructor; congruence.
Qed.
#[global] Instance EqbSpec_route : EqbSpec route.
Proof.
  intros [p1 n1 i1] [p2 n2 i2]. unfold eqb, Eqb_route. cbn [r_pfx r_nh r_if].
  destruct (N.eqb_spec p1 p2); destruct (N.eqb_spec n1 n2); destruct (N.eqb_spec i1 i2); cbn; constructor; congruence.
Qed.
#[global] Arguments eqb {K _} _ _ : simpl never.

Section AssocFacts.
  Context {K V : Type} `{EqbSpec K}.
  Lemma lookup_upsert (k k' : K) (v : V) m :
    lookup k' (upsert k v m) = if eqb k' k then Some v else lookup k' m.
  Proof.
    induction m as [|[a w] m IH]; cbn.
    - reflexivity.
    - destruct (eqb_spec k a) as [->|Hka]; cbn.
      + destruct (eqb_spec k' a); reflexivity.
      + rewrite IH. destruct (eqb_spec k' a) as [->|]; [|reflexivity].
        destruct (eqb_spec a k); [congruence|reflexivity].
  Qed.
  Lemma lookup_remove (k k' : K) (m : list (K * V)) :
    lookup k' (remove k m) = if eqb k' k then None else lookup k' m.
  Proof.
    induction m as [|[a w] m IH]; cbn.
    - destruct (eqb k' k); reflexivity.
    - destruct (eqb_spec k a) as [->|Hka]; cbn.
      + rewrite IH. destruct (eqb_spec k' a); reflexivity.
      + rewrite IH. destruct (eqb_spec k' a) as [->|]; [|reflexivity].
        destruct (eqb_spec a k); [congruence|reflexivity].
  Qed.
  Lemma lookup_in (k : K) (v : V) m : lookup k m = Some v -> In (k, v) m.
  Proof.
    induction m as [|[a w] m IH]; cbn; [discriminate|].
    destruct (eqb_spec k a) as [->|]; [intros [= ->]; now left|intros; right; auto].
  Qed.
End AssocFacts.

(* case analysis on every key comparison in sight *)
Ltac eqb_cases :=
  repeat match goal with
         | |- context [@eqb ?K ?I ?a ?b] => destruct (@eqb_spec K I _ a b)
         | H : context [@eqb ?K ?I ?a ?b] |- _ => destruct (@eqb_spec K I _ a b)
         | |- context [N.eqb ?a ?b] => destruct (N.eqb_spec a b)
         | H : context [N.eqb ?a ?b] |- _ => destruct (N.eqb_spec a b)
         end.
Ltac maps := rewrite ?lookup_upsert, ?lookup_remove in *.

Lemma getd_upsert i j n m : getd j (upsert i n m) = if eqb j i then n else getd j m.
Proof. unfold getd. rewrite lookup_upsert. destruct (eqb j i); reflexivity. Qed.


(* lists of waiting routes *)
Lemma mem_In r l : mem r l = true <-> In r l.
Proof.
  induction l as [|x t IH]; cbn; [split; [discriminate|tauto]|].
  destruct (eqb_spec r x) as [->|Hne]; cbn; [tauto|]. rewrite IH. split; [tauto|intros [H|H]; [congruence|exact H]].
Qed.
Lemma remove1_In x r l : In x (remove1 r l) -> In x l.
Proof.
  induction l as [|y t IH]; cbn; [tauto|]. destruct (eqb_spec r y); cbn; [tauto|]. intros [H|H]; auto.
Qed.
Lemma remove1_keeps x r l : In x l -> x <> r -> In x (remove1 r l).
Proof.
  induction l as [|y t IH]; cbn; [tauto|]. destruct (eqb_spec r y) as [->|Hne]; cbn.
  - intros [H|H] Hx; [congruence|exact H].
  - intros [H|H] Hx; [now left|right; auto].
Qed.
Lemma remove1_NoDup r l : NoDup l -> NoDup (remove1 r l) /\ ~ In r (remove1 r l).
Proof.
  induction l as [|y t IH]; cbn; intros Hn; [split; [constructor|tauto]|].
  inversion Hn as [|? ? Hy Ht]; subst. destruct (eqb_spec r y) as [->|Hne]; cbn.
  - split; assumption.
  - destruct (IH Ht) as (H1 & H2). split.
    + constructor; [|exact H1]. intros H. apply Hy. eapply remove1_In; eauto.
    + intros [H|H]; [congruence|tauto].
Qed.
Lemma NoDup_snoc (r : route) l : NoDup l -> ~ In r l -> NoDup (l ++ [r]).
Proof.
  induction l as [|y t IH]; cbn; intros Hn Hr; [constructor; [tauto|constructor]|].
  inversion Hn; subst. constructor.
  - rewrite in_app_iff. cbn. intros [H|[H|[]]]; [tauto|subst; tauto].
  - apply IH; tauto.
Qed.
Lemma route_eta r : Route (r_pfx r) (r_nh r) (r_if r) = r.
Proof. destruct r; reflexivity. Qed.

(* what add_neighbor never touches *)
Lemma add_neighbor_same s r mac :
  cfg_ifs (add_neighbor s r mac) = cfg_ifs s /\ unres (add_neighbor s r mac) = unres s /\
  kneigh (add_neighbor s r mac) = kneigh s /\ kern (add_neighbor s r mac) = kern s /\
  nhif (add_neighbor s r mac) = nhif s.
Proof. unfold add_neighbor. destruct (lookup (r_nh r) (ncache s)); cbn; auto. Qed.

(* ================================================================ 1. gates (needs only "bound") *)
Definition GInv (s : st) : Prop :=
  (forall nh e, lookup nh (ncache s) = Some e ->
     exists i, lookup nh (nhif s) = Some i /\ n_gate e < getd i (gatecnt s)) /\
  (forall nh1 nh2 e1 e2 i, nh1 <> nh2 -> lookup nh1 (ncache s) = Some e1 -> lookup nh2 (ncache s) = Some e2 ->
     lookup nh1 (nhif s) = Some i -> lookup nh2 (nhif s) = Some i -> n_gate e1 <> n_gate e2) /\
  (forall nh l r, lookup nh (unres s) = Some l -> In r l -> r_nh r = nh /\ lookup nh (nhif s) = Some (r_if r)).

Lemma ginv_mono s s' :
  GInv s ->
  (forall nh e', lookup nh (ncache s') = Some e' -> exists e, lookup nh (ncache s) = Some e /\ n_gate e' = n_gate e) ->
  (forall i, getd i (gatecnt s) <= getd i (gatecnt s')) ->
  (forall k v, lookup k (nhif s) = Some v -> lookup k (nhif s') = Some v) ->
  (forall nh l r, lookup nh (unres s') = Some l -> In r l -> r_nh r = nh /\ lookup nh (nhif s') = Some (r_if r)) ->
  GInv s'.
Proof.
  intros (G1 & G2 & G3) Hnc Hgc Hni Hun. split; [|split].
  - intros nh e' He'. destruct (Hnc _ _ He') as (e & He & Hg). destruct (G1 _ _ He) as (i & Hi & Hlt).
    exists i. split; [auto|]. rewrite Hg. specialize (Hgc i). lia.
  - intros nh1 nh2 e1 e2 i Hne H1 H2 Hi1 Hi2.
    destruct (Hnc _ _ H1) as (f1 & Hf1 & Hg1). destruct (Hnc _ _ H2) as (f2 & Hf2 & Hg2).
    destruct (G1 _ _ Hf1) as (j1 & Hj1 & _). destruct (G1 _ _ Hf2) as (j2 & Hj2 & _).
    pose proof (Hni _ _ Hj1) as Hj1'. pose proof (Hni _ _ Hj2) as Hj2'.
    rewrite Hg1, Hg2. apply (G2 nh1 nh2 f1 f2 i); auto; congruence.
  - apply Hun.
Qed.

Lemma ginv_add_neighbor s r mac :
  GInv s -> lookup (r_nh r) (nhif s) = Some (r_if r) -> GInv (add_neighbor s r mac).
Proof.
  intros (G1 & G2 & G3) Hif. unfold add_neighbor, gate_of.
  destruct (lookup (r_nh r) (ncache s)) as [e|] eqn:E.
  - apply (ginv_mono s); [split; [|split]; auto| | | |]; cbn [ncache gatecnt nhif unres].
    + intros nh e'. maps. eqb_cases; [intros [= <-]; subst; eauto|eauto].
    + intros; lia.
    + auto.
    + auto.
  - split; [|split]; cbn [ncache gatecnt nhif unres].
    + intros nh e'. maps. eqb_cases.
      * intros [= <-]; subst. exists (r_if r). split; [auto|]. rewrite getd_upsert. cbn [n_gate]. eqb_cases; [lia|congruence].
      * intros He. destruct (G1 _ _ He) as (i & Hi & Hlt). exists i. split; [auto|].
        rewrite getd_upsert. eqb_cases; subst; lia.
    + intros nh1 nh2 e1 e2 i Hne. maps. eqb_cases; subst; try congruence.
      * intros [= <-] He2 Hi1 Hi2. cbn [n_gate]. destruct (G1 _ _ He2) as (j & Hj & Hlt).
        assert (j = r_if r) by congruence. subst j. lia.
      * intros He1 [= <-] Hi1 Hi2. cbn [n_gate]. destruct (G1 _ _ He1) as (j & Hj & Hlt).
        assert (j = r_if r) by congruence. subst j. lia.
      * intros He1 He2 Hi1 Hi2. apply (G2 nh1 nh2 e1 e2 i); assumption.
    + apply G3.
Qed.

Lemma ginv_kern_add s r :
  GInv s -> bound_ev s (NewRoute r) = true -> managed s (r_if r) = true ->
  GInv (kern_add s r) /\ lookup (r_nh r) (nhif (kern_add s r)) = Some (r_if r).
Proof.
  intros G Hb M. unfold bound_ev in Hb. rewrite M in Hb. cbn [negb orb] in Hb.
  unfold kern_add. destruct (lookup (r_nh r) (nhif s)) as [i|] eqn:E.
  - eqb_cases; [|discriminate]. subst i. split; [|exact E].
    apply (ginv_mono s); auto; cbn [ncache gatecnt nhif unres]; [eauto|intros; lia|apply G].
  - cbn [nhif]. split; [|maps; eqb_cases; congruence].
    destruct G as (G1 & G2 & G3).
    apply (ginv_mono s); [split; [|split]; auto| | | |]; cbn [ncache gatecnt nhif unres]; [eauto|intros; lia| |].
    + intros k v Hk. maps. eqb_cases; congruence.
    + intros nh l r0 H0 Hin. destruct (G3 _ _ _ H0 Hin) as (Ha & Hb'). split; [auto|]. maps. eqb_cases; congruence.
Qed.

Lemma ginv_delete s r : GInv s -> GInv (delete_route_entry s r).
Proof.
  intros G. unfold delete_route_entry.
  destruct (lookup (r_nh r) (ncache s)) as [e|] eqn:E.
  - destruct (lpm_del (bs s) (r_if r) (r_pfx r)) as [b1|]; [|exact G].
    assert (Hup : GInv (set_nc (set_bs s b1) (upsert (r_nh r) (Neigh (n_gate e) (n_mac e) (n_count e - 1)) (ncache s)))).
    { apply (ginv_mono s); auto; cbn [set_nc set_bs ncache gatecnt nhif unres]; [|intros; lia|apply G].
      intros nh e'. maps. eqb_cases; [intros [= <-]; subst; eauto|eauto]. }
    destruct (Z.eqb _ 0); [|exact Hup].
    destruct (destroy b1 _) as [b2|]; [|exact Hup].
    apply (ginv_mono s); auto; cbn [set_nc set_bs ncache gatecnt nhif unres]; [|intros; lia|apply G].
    intros nh e'. maps. eqb_cases; [discriminate|eauto].
  - destruct (lookup (r_nh r) (unres s)) as [l|] eqn:El; [|exact G].
    destruct (mem r l); [|exact G]. destruct G as (G1 & G2 & G3).
    destruct (remove1 r l) as [|x t] eqn:Er.
    + apply (ginv_mono s); [split; [|split]; auto| | | |]; cbn [set_unres ncache gatecnt nhif unres]; [eauto|intros; lia|auto|].
      intros nh l0 r0. maps. eqb_cases; [discriminate|apply G3].
    + apply (ginv_mono s); [split; [|split]; auto| | | |]; cbn [set_unres ncache gatecnt nhif unres]; [eauto|intros; lia|auto|].
      intros nh l0 r0. maps. eqb_cases; [|apply G3].
      intros [= <-] Hin. subst. apply (G3 _ _ _ El). apply (remove1_In _ r). rewrite Er. exact Hin.
Qed.

Lemma ginv_fold mac l : forall s, GInv s -> (forall r, In r l -> lookup (r_nh r) (nhif s) = Some (r_if r)) ->
  GInv (fold_left (fun s' r => add_neighbor s' r mac) l s).
Proof.
  induction l as [|r t IH]; intros s G H; cbn; [exact G|].
  apply IH; [apply ginv_add_neighbor; [exact G|apply H; now left]|].
  intros r0 Hr0. destruct (add_neighbor_same s r mac) as (_ & _ & _ & _ & ->). apply H. now right.
Qed.
Lemma fold_same mac l : forall s,
  let s' := fold_left (fun s' r => add_neighbor s' r mac) l s in
  cfg_ifs s' = cfg_ifs s /\ unres s' = unres s /\ kneigh s' = kneigh s /\ kern s' = kern s /\ nhif s' = nhif s.
Proof.
  induction l as [|r t IH]; intros s; cbn; [auto|].
  destruct (IH (add_neighbor s r mac)) as (A & B & C & D & E).
  destruct (add_neighbor_same s r mac) as (A' & B' & C' & D' & E'). repeat split; congruence.
Qed.

Lemma ginv_step s ev : GInv s -> bound_ev s ev = true -> GInv (step s ev).
Proof.
  intros G Hb. destruct ev as [r|r|nh mac|nh|nh|]; cbn [step].
  - destruct (managed s (r_if r)) eqn:M; [|exact G].
    destruct (ginv_kern_add s r G Hb M) as (G' & Hif). set (s1 := kern_add s r) in *.
    unfold add_new_route_entry. destruct (lookup (r_nh r) (kneigh s1)) as [mac|].
    + apply ginv_add_neighbor; assumption.
    + unfold probe_addr. apply (ginv_mono s1); auto; cbn [ncache gatecnt nhif unres]; [eauto|intros; lia|].
      destruct G' as (_ & _ & G3). intros nh l r0. maps. eqb_cases; [|apply G3].
      intros [= <-] Hin. subst nh.
      change (unres s1) with (unres s) in *. destruct (lookup (r_nh r) (unres s)) as [l0|] eqn:El.
      * destruct (mem r l0); [exact (G3 _ _ _ El Hin)|].
        apply in_app_or in Hin. destruct Hin as [Hin|[<-|[]]]; [exact (G3 _ _ _ El Hin)|auto].
      * cbn in Hin. destruct Hin as [<-|[]]. auto.
  - destruct (managed s (r_if r)); [|exact G]. apply ginv_delete.
    unfold kern_del. destruct (kern_has s r); [|exact G].
    apply (ginv_mono s); auto; cbn [ncache gatecnt nhif unres]; [eauto|intros; lia|apply G].
  - unfold new_neigh. set (s1 := St _ _ _ _ (upsert nh mac (kneigh s)) _ _ _ _).
    assert (G1 : GInv s1).
    { apply (ginv_mono s); auto; unfold s1; cbn [ncache gatecnt nhif unres]; [eauto|intros; lia|apply G]. }
    destruct (lookup nh (unres s1)) as [[|r t]|] eqn:E; [exact G1| |exact G1].
    set (l := r :: t) in *.
    assert (G2 : GInv (fold_left (fun s' r0 => add_neighbor s' r0 mac) l s1)).
    { apply ginv_fold; [exact G1|]. intros r0 Hr0. destruct G1 as (_ & _ & Gc).
      destruct (Gc _ _ _ E Hr0) as (-> & Hif). exact Hif. }
    destruct (fold_same mac l s1) as (_ & Hu & _ & _ & Hn). cbn zeta in Hu, Hn.
    apply (ginv_mono _ _ G2); cbn [set_unres ncache gatecnt nhif unres]; [eauto|intros; lia|auto|].
    intros nh0 l0 r0. maps. eqb_cases; [discriminate|]. apply G2.
  - apply (ginv_mono s); auto; cbn [no_addr ncache gatecnt nhif unres]; [eauto|intros; lia|apply G].
  - apply (ginv_mono s); auto; cbn [no_addr ncache gatecnt nhif unres]; [eauto|intros; lia|apply G].
  - exact G.
Qed.

Lemma ginv_init ifs : GInv (init ifs).
Proof. split; [|split]; cbn; intros; discriminate. Qed.

Lemma ginv_run h : forall s, GInv s -> run_ok bound_ev s h = true -> GInv (run s h).
Proof.
  induction h as [|ev h IH]; intros s G Hok; cbn in *; [exact G|].
  apply andb_true_iff in Hok. destruct Hok as (H1 & H2). apply IH; [apply ginv_step; assumption|exact H2].
Qed.

(* two next hops in the neighbour cache that sit on the same interface never have the same gate *)
Definition gates_distinct (s : st) : Prop :=
  forall nh1 nh2 e1 e2 i, nh1 <> nh2 ->
    lookup nh1 (ncache s) = Some e1 -> lookup nh2 (ncache s) = Some e2 ->
    lookup nh1 (nhif s) = Some i -> lookup nh2 (nhif s) = Some i -> n_gate e1 <> n_gate e2.

Lemma gates_distinct_all ifs h : run_ok bound_ev (init ifs) h = true -> gates_distinct (run (init ifs) h).
Proof. intros H. destruct (ginv_run h (init ifs) (ginv_init ifs) H) as (_ & G2 & _). exact G2. Qed.

(* ================================================================ 2. the BESS side of _add_neighbor *)
(* invariants of the module graph alone *)
Definition BInv (s : st) : Prop :=
  (forall i g x, lookup (MRoutes i, g) (links (bs s)) = Some x -> g < getd i (gatecnt s)) /\
  (forall u mac, lookup u (upd (bs s)) = Some mac ->
     exists i, u = MUpdI i mac /\ lookup (u, 0) (links (bs s)) = Some (MMerge i, 0)) /\
  (forall u og x, lookup (u, og) (links (bs s)) = Some x -> mod_exists (bs s) u = true).

Lemma connect_ok b src og dst ig :
  mod_exists b src = true -> mod_exists b dst = true -> lookup (src, og) (links b) = None ->
  connect b src og dst ig = Some (Bess (lpm b) (upd b) (upsert (src, og) (dst, ig) (links b))).
Proof. intros H1 H2 H3. unfold connect. rewrite H1, H2, H3. reflexivity. Qed.
Lemma connect_busy b src og dst ig x :
  lookup (src, og) (links b) = Some x -> connect b src og dst ig = None.
Proof. intros H. unfold connect. rewrite H. destruct (_ && _); reflexivity. Qed.

Lemma create_and_link_spec b i g mac :
  lookup (MRoutes i, g) (links b) = None ->
  (forall u m, lookup u (upd b) = Some m -> exists j, u = MUpdI j m /\ lookup (u, 0) (links b) = Some (MMerge j, 0)) ->
  (forall u og x, lookup (u, og) (links b) = Some x -> mod_exists b u = true) ->
  let b' := create_and_link b i g mac in
  lpm b' = lpm b /\
  (forall u, lookup u (upd b') = if eqb u (MUpdI i mac) then Some mac else lookup u (upd b)) /\
  (forall k, lookup k (links b') =
             if eqb k (MRoutes i, g) then Some (MUpdI i mac, 0)
             else if eqb k (MUpdI i mac, 0) then Some (MMerge i, 0) else lookup k (links b)).
Proof.
  intros Hfree H9 H10. unfold create_and_link, create_upd.
  destruct (lookup (MUpdI i mac) (upd b)) as [m|] eqn:E.
  - (* the module exists already: EEXIST, first link made, second link EBUSY *)
    destruct (H9 _ _ E) as (j & Hj & Hl). injection Hj as <- <-.
    assert (Hex : mod_exists b (MUpdI i mac) = true) by (cbn [mod_exists]; now rewrite E).
    rewrite Hex. rewrite (connect_ok b (MRoutes i) g (MUpdI i mac) 0) by auto.
    rewrite (connect_busy _ (MUpdI i mac) 0 (MMerge i) 0 (MMerge i, 0)).
    2:{ cbn [links]. rewrite lookup_upsert. destruct (eqb_spec (MUpdI i mac, 0) (MRoutes i, g)) as [Hc|_]; [discriminate Hc|exact Hl]. }
    cbn [lpm upd links]. split; [reflexivity|]. split.
    + intros u. eqb_cases; subst; auto.
    + intros k. rewrite lookup_upsert. eqb_cases; subst; auto; congruence.
  - (* a new module: created, both links made *)
    assert (Hex : mod_exists b (MUpdI i mac) = false) by (cbn [mod_exists]; now rewrite E).
    rewrite Hex. set (b2 := Bess (lpm b) (upsert (MUpdI i mac) mac (upd b)) (links b)).
    assert (Hex2 : mod_exists b2 (MUpdI i mac) = true).
    { cbn [mod_exists b2 upd]. rewrite lookup_upsert. destruct (eqb_spec (MUpdI i mac) (MUpdI i mac)); [reflexivity|congruence]. }
    rewrite (connect_ok b2 (MRoutes i) g (MUpdI i mac) 0) by auto.
    rewrite connect_ok; [| exact Hex2 | reflexivity |].
    2:{ cbn [links b2]. rewrite lookup_upsert. destruct (eqb_spec (MUpdI i mac, 0) (MRoutes i, g)) as [Hc|_]; [discriminate Hc|].
        destruct (lookup (MUpdI i mac, 0) (links b)) as [x|] eqn:El; [|reflexivity].
        apply H10 in El. congruence. }
    cbn [lpm upd links b2]. split; [reflexivity|]. split.
    + intros u. rewrite lookup_upsert. reflexivity.
    + intros k. rewrite !lookup_upsert. eqb_cases; subst; auto; congruence.
Qed.

Lemma connect_lpm b src og dst ig b' : connect b src og dst ig = Some b' -> lpm b' = lpm b.
Proof.
  unfold connect. destruct (_ && _); [|discriminate].
  destruct (lookup (src, og) (links b)); [discriminate|]. intros [= <-]. reflexivity.
Qed.
Lemma create_and_link_lpm b i g mac : lpm (create_and_link b i g mac) = lpm b.
Proof.
  unfold create_and_link, create_upd.
  destruct (mod_exists b (MUpdI i mac)).
  - destruct (connect b (MRoutes i) g (MUpdI i mac) 0) as [b1|] eqn:C1; [|reflexivity].
    destruct (connect b1 (MUpdI i mac) 0 (MMerge i) 0) as [b2|] eqn:C2.
    + now rewrite (connect_lpm _ _ _ _ _ _ C2), (connect_lpm _ _ _ _ _ _ C1).
    + now rewrite (connect_lpm _ _ _ _ _ _ C1).
  - set (b0 := Bess _ _ _). change (lpm b) with (lpm b0).
    destruct (connect b0 (MRoutes i) g (MUpdI i mac) 0) as [b1|] eqn:C1; [|reflexivity].
    destruct (connect b1 (MUpdI i mac) 0 (MMerge i) 0) as [b2|] eqn:C2.
    + now rewrite (connect_lpm _ _ _ _ _ _ C2), (connect_lpm _ _ _ _ _ _ C1).
    + now rewrite (connect_lpm _ _ _ _ _ _ C1).
Qed.

(* ---- the unchanged naming bug: destroy is always asked for a name that was never created *)
Definition no_updr (s : st) : Prop := forall i mac, lookup (MUpdR i mac) (upd (bs s)) = None.

Lemma connect_upd b src og dst ig b' : connect b src og dst ig = Some b' -> upd b' = upd b.
Proof.
  unfold connect. destruct (_ && _); [|discriminate].
  destruct (lookup (src, og) (links b)); [discriminate|]. intros [= <-]. reflexivity.
Qed.

Lemma create_and_link_upd b i g mac u :
  lookup u (upd (create_and_link b i g mac)) =
  if mod_exists b (MUpdI i mac) then lookup u (upd b)
  else if eqb u (MUpdI i mac) then Some mac else lookup u (upd b).
Proof.
  unfold create_and_link, create_upd.
  destruct (mod_exists b (MUpdI i mac)) eqn:E.
  - destruct (connect b (MRoutes i) g (MUpdI i mac) 0) as [b1|] eqn:C1; [|reflexivity].
    destruct (connect b1 (MUpdI i mac) 0 (MMerge i) 0) as [b2|] eqn:C2.
    + now rewrite (connect_upd _ _ _ _ _ _ C2), (connect_upd _ _ _ _ _ _ C1).
    + now rewrite (connect_upd _ _ _ _ _ _ C1).
  - set (b0 := Bess _ _ _).
    assert (H0 : lookup u (upd b0) = if eqb u (MUpdI i mac) then Some mac else lookup u (upd b)).
    { unfold b0. cbn [upd]. apply lookup_upsert. }
    destruct (connect b0 (MRoutes i) g (MUpdI i mac) 0) as [b1|] eqn:C1; [|exact H0].
    destruct (connect b1 (MUpdI i mac) 0 (MMerge i) 0) as [b2|] eqn:C2.
    + now rewrite (connect_upd _ _ _ _ _ _ C2), (connect_upd _ _ _ _ _ _ C1).
    + now rewrite (connect_upd _ _ _ _ _ _ C1).
Qed.

Lemma no_updr_nn s r mac : no_updr s -> no_updr (add_neighbor s r mac).
Proof.
  intros Hn i0 m0. unfold add_neighbor. destruct (lookup (r_nh r) (ncache s)); cbn [bs]; [apply Hn|].
  rewrite create_and_link_upd. cbn [lpm_add upd mod_exists].
  destruct (match lookup (MUpdI (r_if r) mac) (upd (bs s)) with Some _ => true | None => false end); [apply Hn|].
  destruct (eqb_spec (MUpdR i0 m0) (MUpdI (r_if r) mac)); [discriminate|apply Hn].
Qed.

Lemma add_neighbor_upd s r mac u m :
  no_updr s -> lookup u (upd (bs s)) = Some m ->
  lookup u (upd (bs (add_neighbor s r mac))) = Some m /\ no_updr (add_neighbor s r mac).
Proof.
  intros Hn Hu. split; [|apply no_updr_nn; exact Hn].
  unfold add_neighbor. destruct (lookup (r_nh r) (ncache s)); cbn [bs]; [exact Hu|].
  rewrite create_and_link_upd. cbn [lpm_add upd mod_exists].
  destruct (lookup (MUpdI (r_if r) mac) (upd (bs s))) eqn:E; [exact Hu|].
  destruct (eqb_spec u (MUpdI (r_if r) mac)); [subst; congruence|exact Hu].
Qed.

Lemma no_updr_fold mac l : forall s, no_updr s -> no_updr (fold_left (fun s' r => add_neighbor s' r mac) l s).
Proof. induction l as [|r t IH]; intros s H; cbn; [exact H|]. apply IH, no_updr_nn, H. Qed.
Lemma fold_upd mac u m l : forall s, no_updr s -> lookup u (upd (bs s)) = Some m ->
  lookup u (upd (bs (fold_left (fun s' r => add_neighbor s' r mac) l s))) = Some m.
Proof.
  induction l as [|r t IH]; intros s Hn Hu; cbn; [exact Hu|].
  destruct (add_neighbor_upd s r mac u m Hn Hu) as (H1 & H2). apply IH; assumption.
Qed.

(* delete_route_entry, given that destroy cannot succeed *)
Definition gm (e : neigh) : N * N := (n_gate e, n_mac e).
Lemma delete_effect s r :
  no_updr s ->
  let s' := delete_route_entry s r in
  upd (bs s') = upd (bs s) /\ links (bs s') = links (bs s) /\ gatecnt s' = gatecnt s /\ nhif s' = nhif s /\
  kern s' = kern s /\ kneigh s' = kneigh s /\ cfg_ifs s' = cfg_ifs s /\
  (forall nh, option_map gm (lookup nh (ncache s')) = option_map gm (lookup nh (ncache s))).
Proof.
  intros Hn. unfold delete_route_entry.
  destruct (lookup (r_nh r) (ncache s)) as [e|] eqn:E.
  - unfold lpm_del. destruct (lookup (r_if r, r_pfx r) (lpm (bs s))); [|cbn; repeat split; reflexivity].
    assert (H : forall c, let s' := set_nc (set_bs s (Bess (remove (r_if r, r_pfx r) (lpm (bs s))) (upd (bs s)) (links (bs s))))
                                     (upsert (r_nh r) (Neigh (n_gate e) (n_mac e) c) (ncache s)) in
              upd (bs s') = upd (bs s) /\ links (bs s') = links (bs s) /\ gatecnt s' = gatecnt s /\ nhif s' = nhif s /\
              kern s' = kern s /\ kneigh s' = kneigh s /\ cfg_ifs s' = cfg_ifs s /\
              (forall nh, option_map gm (lookup nh (ncache s')) = option_map gm (lookup nh (ncache s)))).
    { intros c. cbn. repeat split. intros nh. maps. eqb_cases; [subst; rewrite E|]; reflexivity. }
    destruct (Z.eqb _ 0); [|apply H].
    unfold destroy. cbn [upd]. rewrite (Hn (r_if r) (n_mac e)). apply H.
  - destruct (lookup (r_nh r) (unres s)) as [l|]; [|cbn; repeat split; reflexivity].
    destruct (mem r l); [|cbn; repeat split; reflexivity].
    destruct (remove1 r l); cbn; repeat split; reflexivity.
Qed.
Lemma delete_upd s r : no_updr s -> upd (bs (delete_route_entry s r)) = upd (bs s).
Proof. intros Hn. apply (delete_effect s r Hn). Qed.

Lemma no_updr_step s ev : no_updr s -> no_updr (step s ev).
Proof.
  intros Hs. destruct ev as [r|r|nh mac|nh|nh|]; cbn [step].
  - destruct (managed s (r_if r)); [|apply Hs]. unfold add_new_route_entry.
    change (kneigh (kern_add s r)) with (kneigh s).
    destruct (lookup (r_nh r) (kneigh s)); [apply no_updr_nn; exact Hs|apply Hs].
  - destruct (managed s (r_if r)); [|apply Hs].
    assert (Hk : bs (kern_del s r) = bs s) by (unfold kern_del; destruct (kern_has s r); reflexivity).
    unfold no_updr. rewrite delete_upd; [rewrite Hk; apply Hs|unfold no_updr; rewrite Hk; exact Hs].
  - unfold new_neigh. set (s1 := St _ _ _ _ (upsert nh mac (kneigh s)) _ _ _ _).
    change (unres s1) with (unres s). destruct (lookup nh (unres s)) as [[|r t]|]; try apply Hs.
    unfold no_updr. cbn [set_unres bs]. apply (no_updr_fold mac (r :: t) s1). exact Hs.
  - apply Hs.
  - apply Hs.
  - apply Hs.
Qed.

Lemma step_upd s ev u m :
  no_updr s -> lookup u (upd (bs s)) = Some m -> lookup u (upd (bs (step s ev))) = Some m.
Proof.
  intros Hn Hu. destruct ev as [r|r|nh mac|nh|nh|]; cbn [step].
  - destruct (managed s (r_if r)); [|auto]. unfold add_new_route_entry.
    change (kneigh (kern_add s r)) with (kneigh s).
    destruct (lookup (r_nh r) (kneigh s)) as [mac|]; [|exact Hu].
    apply add_neighbor_upd; auto.
  - destruct (managed s (r_if r)); [|auto].
    assert (Hk : bs (kern_del s r) = bs s) by (unfold kern_del; destruct (kern_has s r); reflexivity).
    rewrite delete_upd; [rewrite Hk; exact Hu|unfold no_updr; rewrite Hk; exact Hn].
  - unfold new_neigh. set (s1 := St _ _ _ _ (upsert nh mac (kneigh s)) _ _ _ _).
    change (unres s1) with (unres s). destruct (lookup nh (unres s)) as [[|r t]|]; try exact Hu.
    cbn [set_unres bs]. apply (fold_upd mac u m (r :: t) s1); auto.
  - exact Hu.
  - exact Hu.
  - auto.
Qed.

Lemma no_updr_run h : forall s, no_updr s -> no_updr (run s h).
Proof. induction h as [|ev h IH]; intros s H; cbn; [exact H|]. apply IH, no_updr_step, H. Qed.
Lemma no_updr_init ifs : no_updr (init ifs).
Proof. intros i m. reflexivity. Qed.

(* once created, an Update module stays for ever - on EVERY history *)
Theorem update_modules_never_removed ifs h1 h2 u m :
  lookup u (upd (bs (run (init ifs) h1))) = Some m ->
  lookup u (upd (bs (run (init ifs) (h1 ++ h2)))) = Some m.
Proof.
  unfold run. rewrite fold_left_app. fold (run (init ifs) h1).
  pose proof (no_updr_run h1 _ (no_updr_init ifs)) as Hn.
  generalize (run (init ifs) h1) Hn. clear Hn.
  induction h2 as [|ev h IH]; intros s Hn Hu; cbn; [exact Hu|].
  apply IH; [apply no_updr_step; exact Hn|apply step_upd; assumption].
Qed.

(* ================================================================ 3. the mirror invariant (kernel-admissible histories) *)
Lemma add_neighbor_shape s r mac :
  exists e', ncache (add_neighbor s r mac) = upsert (r_nh r) e' (ncache s) /\
             lpm (bs (add_neighbor s r mac)) = upsert (r_if r, r_pfx r) (n_gate e') (lpm (bs s)) /\
             match lookup (r_nh r) (ncache s) with Some e => gm e' = gm e | None => n_mac e' = mac end.
Proof.
  unfold add_neighbor, gate_of. destruct (lookup (r_nh r) (ncache s)) as [e|]; eexists; cbn [ncache bs];
    (split; [reflexivity|]); rewrite ?create_and_link_lpm; cbn [lpm_add lpm n_gate]; split; reflexivity.
Qed.

(* hp: prefixes whose "installed" clause is suspended, hn: next hop whose "waiting" clause is
   suspended, between the kernel-side update of an event and the end of the handler *)
Record InvM (s : st) (uf : bool) (hp : list N) (hn : option N) : Prop := {
  mA2 : forall nh l r, hn <> Some nh -> lookup nh (unres s) = Some l -> In r l ->
          r_nh r = nh /\ lookup (r_pfx r) (kern s) = Some (nh, r_if r) /\ lookup nh (kneigh s) = None;
  mND : forall nh l, lookup nh (unres s) = Some l -> NoDup l;
  mA3 : forall p nh i, lookup p (kern s) = Some (nh, i) -> lookup nh (kneigh s) = None ->
          exists l, lookup nh (unres s) = Some l /\ In (Route p nh i) l;
  mA4 : forall nh e, lookup nh (ncache s) = Some e -> lookup nh (kneigh s) = Some (n_mac e);
  mA5 : forall i p g, lookup (i, p) (lpm (bs s)) = Some g ->
          exists nh e, lookup p (kern s) = Some (nh, i) /\ lookup nh (ncache s) = Some e /\ g = n_gate e;
  mA6 : forall p nh i mac, ~ In p hp -> lookup p (kern s) = Some (nh, i) -> lookup nh (kneigh s) = Some mac ->
          exists e, lookup nh (ncache s) = Some e /\ lookup (i, p) (lpm (bs s)) = Some (n_gate e);
  (* only demanded (uf = true) on histories in which no resolved next hop loses its last route *)
  mA11 : uf = true -> forall nh e, lookup nh (ncache s) = Some e -> exists p i, lookup p (kern s) = Some (nh, i);
  mU : no_updr s }.

Ltac inj :=
  repeat match goal with
         | H : Some _ = Some _ |- _ => injection H; clear H; intros; subst
         | H : (_, _) = (_, _) |- _ => injection H; clear H; intros; subst
         end.
Ltac prj := cbn [n_gate n_mac n_count r_pfx r_nh r_if fst snd gm] in *.

Lemma fillM uf s r mac hp hn :
  InvM s uf (r_pfx r :: hp) hn ->
  lookup (r_pfx r) (kern s) = Some (r_nh r, r_if r) -> lookup (r_nh r) (kneigh s) = Some mac ->
  InvM (add_neighbor s r mac) uf hp hn.
Proof.
  intros I Hkr Hkn. destruct (add_neighbor_shape s r mac) as (e' & Hnc & Hlpm & Hgm).
  destruct (add_neighbor_same s r mac) as (_ & Hu & Hkn' & Hkr' & _).
  assert (Hmac : lookup (r_nh r) (kneigh s) = Some (n_mac e')).
  { destruct (lookup (r_nh r) (ncache s)) as [e|] eqn:E.
    - rewrite (mA4 _ _ _ _ I _ _ E). unfold gm in Hgm. congruence.
    - congruence. }
  assert (Hgate : forall e, lookup (r_nh r) (ncache s) = Some e -> n_gate e' = n_gate e).
  { intros e E. rewrite E in Hgm. unfold gm in Hgm. congruence. }
  constructor; rewrite ?Hu, ?Hkn', ?Hkr', ?Hnc, ?Hlpm.
  - apply (mA2 _ _ _ _ I).
  - apply (mND _ _ _ _ I).
  - apply (mA3 _ _ _ _ I).
  - intros nh e. maps. eqb_cases; [intros [= <-]; subst; exact Hmac|apply (mA4 _ _ _ _ I)].
  - intros i p g. maps. destruct (eqb_spec (i, p) (r_if r, r_pfx r)) as [Hk|Hk].
    + intros [= <-]. injection Hk as -> ->. exists (r_nh r), e'. maps.
      destruct (eqb_spec (r_nh r) (r_nh r)); [auto|congruence].
    + intros H. destruct (mA5 _ _ _ _ I _ _ _ H) as (nh & e & K & Ne & ->). exists nh.
      destruct (eqb_spec nh (r_nh r)) as [->|Hn].
      * exists e'. maps. destruct (eqb_spec (r_nh r) (r_nh r)); [|congruence]. split; [auto|]. split; [auto|].
        symmetry. apply Hgate. exact Ne.
      * exists e. maps. destruct (eqb_spec nh (r_nh r)); [congruence|auto].
  - intros p nh i m Hp K Kn. destruct (eqb_spec p (r_pfx r)) as [->|Hne].
    + rewrite Hkr in K. injection K as <- <-. exists e'. maps.
      destruct (eqb_spec (r_nh r) (r_nh r)); [|congruence].
      destruct (eqb_spec (r_if r, r_pfx r) (r_if r, r_pfx r)); [auto|congruence].
    + destruct (mA6 _ _ _ _ I p nh i m) as (e & Ne & L); auto.
      { cbn. intros [H|H]; [congruence|auto]. }
      destruct (eqb_spec nh (r_nh r)) as [->|Hn].
      * exists e'. maps. destruct (eqb_spec (r_nh r) (r_nh r)); [|congruence].
        destruct (eqb_spec (i, p) (r_if r, r_pfx r)); [congruence|]. rewrite (Hgate _ Ne). auto.
      * exists e. maps. destruct (eqb_spec nh (r_nh r)); [congruence|].
        destruct (eqb_spec (i, p) (r_if r, r_pfx r)); [congruence|auto].
  - intros U nh e. maps. eqb_cases; [intros _; subst; eauto|apply (mA11 _ _ _ _ I U)].
  - apply no_updr_nn, (mU _ _ _ _ I).
Qed.

Lemma fillM_fold uf mac hn l : forall s,
  InvM s uf (map r_pfx l) hn ->
  (forall r, In r l -> lookup (r_pfx r) (kern s) = Some (r_nh r, r_if r) /\ lookup (r_nh r) (kneigh s) = Some mac) ->
  InvM (fold_left (fun s' r => add_neighbor s' r mac) l s) uf [] hn.
Proof.
  induction l as [|r t IH]; intros s I H; cbn; [exact I|].
  apply IH.
  - apply fillM; [exact I| |]; apply H; now left.
  - intros r0 Hr0. destruct (add_neighbor_same s r mac) as (_ & _ & -> & -> & _). apply H. now right.
Qed.

(* --- NEWROUTE *)
Lemma invM_kern_add_known uf s r mac :
  InvM s uf [] None -> lookup (r_pfx r) (kern s) = None -> lookup (r_nh r) (kneigh s) = Some mac ->
  InvM (kern_add s r) uf [r_pfx r] None.
Proof.
  intros I Hfresh Hk.
  constructor; cbn [kern_add unres kern kneigh ncache bs lpm].
  - intros nh l r0 _ H Hin. destruct (mA2 _ _ _ _ I nh l r0 ltac:(discriminate) H Hin) as (A & B & C).
    split; [auto|]. split; [|auto]. maps. eqb_cases; congruence.
  - apply (mND _ _ _ _ I).
  - intros p nh i. maps. eqb_cases; [intros [= <- <-] Hn; congruence|apply (mA3 _ _ _ _ I)].
  - apply (mA4 _ _ _ _ I).
  - intros i p g H. destruct (mA5 _ _ _ _ I _ _ _ H) as (nh & e & K & Ne & Hg). exists nh, e.
    split; [|auto]. maps. eqb_cases; congruence.
  - intros p nh i m Hp. maps. eqb_cases; [exfalso; apply Hp; now left|]. apply (mA6 _ _ _ _ I). intros [].
  - intros U nh e H. destruct (mA11 _ _ _ _ I U nh e H) as (p0 & i0 & K). exists p0, i0. maps. eqb_cases; congruence.
  - exact (mU _ _ _ _ I).
Qed.

Lemma invM_probe uf s r :
  InvM s uf [] None -> lookup (r_pfx r) (kern s) = None -> lookup (r_nh r) (kneigh s) = None ->
  InvM (probe_addr (kern_add s r) r) uf [] None.
Proof.
  intros I Hfresh Hk. unfold probe_addr. change (unres (kern_add s r)) with (unres s).
  set (l0 := match lookup (r_nh r) (unres s) with Some l => l | None => [] end).
  assert (Hl0 : forall x, In x l0 -> r_nh x = r_nh r /\ lookup (r_pfx x) (kern s) = Some (r_nh r, r_if x) /\ x <> r).
  { intros x Hx. unfold l0 in Hx. destruct (lookup (r_nh r) (unres s)) as [l|] eqn:E; [|destruct Hx].
    destruct (mA2 _ _ _ _ I _ _ x ltac:(discriminate) E Hx) as (A & B & _). repeat split; auto. intros ->. congruence. }
  assert (Hnd : NoDup l0).
  { unfold l0. destruct (lookup (r_nh r) (unres s)) as [l|] eqn:E; [exact (mND _ _ _ _ I _ _ E)|constructor]. }
  assert (Hmem : mem r l0 = false).
  { destruct (mem r l0) eqn:M; [|reflexivity]. apply mem_In in M. destruct (Hl0 _ M) as (_ & _ & H). congruence. }
  rewrite Hmem.
  constructor; cbn [kern_add unres kern kneigh ncache bs lpm].
  - intros nh l x _ H Hin. rewrite lookup_upsert in H. destruct (eqb_spec nh (r_nh r)) as [->|Hn].
    + injection H as <-. apply in_app_or in Hin. destruct Hin as [Hin|[<-|[]]].
      * destruct (Hl0 _ Hin) as (A & B & C). split; [auto|]. split; [|auto].
        rewrite lookup_upsert. destruct (eqb_spec (r_pfx x) (r_pfx r)); congruence.
      * split; [auto|]. split; [|auto]. rewrite lookup_upsert. destruct (eqb_spec (r_pfx r) (r_pfx r)); congruence.
    + destruct (mA2 _ _ _ _ I nh l x ltac:(discriminate) H Hin) as (A & B & C).
      split; [auto|]. split; [|auto]. rewrite lookup_upsert. destruct (eqb_spec (r_pfx x) (r_pfx r)); congruence.
  - intros nh l. maps. eqb_cases; [|apply (mND _ _ _ _ I)].
    intros [= <-]. apply NoDup_snoc; [exact Hnd|]. intros H. destruct (Hl0 _ H) as (_ & _ & C). congruence.
  - intros p nh i. maps. destruct (eqb_spec p (r_pfx r)) as [->|Hp].
    + intros [= <- <-] _. destruct (eqb_spec (r_nh r) (r_nh r)); [|congruence]. eexists. split; [reflexivity|].
      apply in_or_app. right. left. symmetry. apply route_eta.
    + intros K Kn. destruct (mA3 _ _ _ _ I _ _ _ K Kn) as (l & Hl & Hin).
      destruct (eqb_spec nh (r_nh r)) as [->|Hn].
      * eexists. split; [reflexivity|]. apply in_or_app. left. unfold l0. rewrite Hl. exact Hin.
      * exists l. auto.
  - apply (mA4 _ _ _ _ I).
  - intros i p g H. destruct (mA5 _ _ _ _ I _ _ _ H) as (nh & e & K & Ne & Hg). exists nh, e.
    split; [|auto]. maps. eqb_cases; congruence.
  - intros p nh i m _. maps. eqb_cases; [intros [= <- <-] Kn; congruence|]. apply (mA6 _ _ _ _ I). intros [].
  - intros U nh e H. destruct (mA11 _ _ _ _ I U nh e H) as (p0 & i0 & K). exists p0, i0. maps. eqb_cases; congruence.
  - exact (mU _ _ _ _ I).
Qed.

(* --- DELROUTE *)
Lemma kern_has_true s r : kern_has s r = true -> lookup (r_pfx r) (kern s) = Some (r_nh r, r_if r).
Proof.
  unfold kern_has. destruct (lookup (r_pfx r) (kern s)) as [x|]; [|discriminate].
  destruct (eqb_spec x (r_nh r, r_if r)); [congruence|discriminate].
Qed.

Lemma delete_shape s r e g :
  lookup (r_nh r) (ncache s) = Some e -> lookup (r_if r, r_pfx r) (lpm (bs s)) = Some g -> no_updr s ->
  delete_route_entry s r =
  set_nc (set_bs s (Bess (remove (r_if r, r_pfx r) (lpm (bs s))) (upd (bs s)) (links (bs s))))
         (upsert (r_nh r) (Neigh (n_gate e) (n_mac e) (n_count e - 1)) (ncache s)).
Proof.
  intros He Hl Hn. unfold delete_route_entry, lpm_del. rewrite He, Hl. cbn [n_count].
  destruct (Z.eqb (n_count e - 1) 0); [|reflexivity].
  unfold destroy. cbn [upd]. rewrite (Hn (r_if r) (n_mac e)). reflexivity.
Qed.

Lemma keepuser_other s r mac :
  managed s (r_if r) = true -> lookup (r_nh r) (kneigh s) = Some mac -> keepuser_ev s (DelRoute r) = true ->
  exists p i, p <> r_pfx r /\ lookup p (kern s) = Some (r_nh r, i).
Proof.
  intros M Hk H. cbn [keepuser_ev] in H. rewrite M, Hk in H. cbn [negb orb is_none] in H.
  apply existsb_exists in H. destruct H as ([p v] & _ & H). cbn [fst] in H.
  apply andb_true_iff in H. destruct H as (H1 & H2).
  destruct (lookup p (kern s)) as [[nh i]|] eqn:E; [|discriminate].
  exists p, i. eqb_cases; try discriminate. subst. auto.
Qed.

Lemma invM_delete_known uf s r mac :
  InvM s uf [] None -> kern_has s r = true -> lookup (r_nh r) (kneigh s) = Some mac ->
  (uf = true -> exists p i, p <> r_pfx r /\ lookup p (kern s) = Some (r_nh r, i)) ->
  InvM (delete_route_entry (kern_del s r) r) uf [] None.
Proof.
  intros I Hh Hk Hkeep. pose proof (kern_has_true _ _ Hh) as Hkr.
  destruct (mA6 _ _ _ _ I _ _ _ _ ltac:(intros []) Hkr Hk) as (e & He & Hl).
  unfold kern_del. rewrite Hh.
  rewrite (delete_shape _ r e (n_gate e)); cbn [ncache bs]; auto; [|exact (mU _ _ _ _ I)].
  constructor; cbn [set_nc set_bs unres kern kneigh ncache bs lpm upd].
  - intros nh l x _ H Hin. destruct (mA2 _ _ _ _ I nh l x ltac:(discriminate) H Hin) as (A & B & C).
    split; [auto|]. split; [|auto]. maps. eqb_cases; congruence.
  - apply (mND _ _ _ _ I).
  - intros p nh i. maps. eqb_cases; [discriminate|apply (mA3 _ _ _ _ I)].
  - intros nh e0. maps. eqb_cases; [intros [= <-]; subst; cbn [n_mac]; apply (mA4 _ _ _ _ I _ _ He)|apply (mA4 _ _ _ _ I)].
  - intros i p g. rewrite lookup_remove. destruct (eqb_spec (i, p) (r_if r, r_pfx r)) as [Hkey|Hkey]; [discriminate|].
    intros H. destruct (mA5 _ _ _ _ I _ _ _ H) as (nh & e0 & K & Ne & ->).
    assert (p <> r_pfx r) by (intros ->; rewrite Hkr in K; injection K as <- <-; congruence).
    destruct (eqb_spec nh (r_nh r)) as [->|Hn].
    + exists (r_nh r), (Neigh (n_gate e) (n_mac e) (n_count e - 1)). maps.
      destruct (eqb_spec p (r_pfx r)); [congruence|]. destruct (eqb_spec (r_nh r) (r_nh r)); [|congruence].
      cbn [n_gate]. split; [auto|]. split; [auto|congruence].
    + exists nh, e0. maps. destruct (eqb_spec p (r_pfx r)); [congruence|].
      destruct (eqb_spec nh (r_nh r)); [congruence|auto].
  - intros p nh i m _. rewrite lookup_remove. destruct (eqb_spec p (r_pfx r)) as [->|Hp]; [discriminate|].
    intros K Kn. destruct (mA6 _ _ _ _ I _ _ _ _ ltac:(intros []) K Kn) as (e0 & Ne & L).
    destruct (eqb_spec nh (r_nh r)) as [->|Hn].
    + exists (Neigh (n_gate e) (n_mac e) (n_count e - 1)). maps.
      destruct (eqb_spec (r_nh r) (r_nh r)); [|congruence].
      destruct (eqb_spec (i, p) (r_if r, r_pfx r)); [congruence|]. cbn [n_gate]. split; [auto|congruence].
    + exists e0. maps. destruct (eqb_spec nh (r_nh r)); [congruence|].
      destruct (eqb_spec (i, p) (r_if r, r_pfx r)); [congruence|auto].
  - intros U nh e0. maps. destruct (eqb_spec nh (r_nh r)) as [->|Hn].
    + intros _. destruct (Hkeep U) as (p0 & i0 & Hp0 & K). exists p0, i0. maps. eqb_cases; congruence.
    + intros H. destruct (mA11 _ _ _ _ I U nh e0 H) as (p0 & i0 & K). exists p0, i0. maps. eqb_cases; [|exact K].
      subst. congruence.
  - exact (mU _ _ _ _ I).
Qed.

(* deleting a route that is still waiting for its next hop takes it off the waiting list *)
Lemma invM_delete_pending uf s r :
  InvM s uf [] None -> kern_has s r = true -> lookup (r_nh r) (kneigh s) = None ->
  InvM (delete_route_entry (kern_del s r) r) uf [] None.
Proof.
  intros I Hh Hk. pose proof (kern_has_true _ _ Hh) as Hkr.
  destruct (mA3 _ _ _ _ I _ _ _ Hkr Hk) as (l & Hl & Hin). rewrite route_eta in Hin.
  pose proof (mND _ _ _ _ I _ _ Hl) as Hnd.
  assert (Hnc : lookup (r_nh r) (ncache s) = None).
  { destruct (lookup (r_nh r) (ncache s)) as [e|] eqn:E; [|reflexivity]. rewrite (mA4 _ _ _ _ I _ _ E) in Hk. discriminate. }
  destruct (remove1_NoDup r l Hnd) as (Hnd' & Hnotin).
  unfold kern_del. rewrite Hh. unfold delete_route_entry. cbn [ncache unres]. rewrite Hnc, Hl.
  rewrite (proj2 (mem_In r l) Hin).
  (* both outcomes of the emptiness test have the same lookups *)
  set (u' := match remove1 r l with [] => remove (r_nh r) (unres s) | _ :: _ => upsert (r_nh r) (remove1 r l) (unres s) end).
  assert (Hu' : forall nh, lookup nh u' = if eqb nh (r_nh r) then match remove1 r l with [] => None | x => Some x end
                                          else lookup nh (unres s)).
  { intros nh. unfold u'. destruct (remove1 r l); maps; reflexivity. }
  match goal with |- InvM ?st _ _ _ => assert (Hst : st = set_unres (St (cfg_ifs s) (ncache s) (unres s) (gatecnt s) (kneigh s)
      (remove (r_pfx r) (kern s)) (nhif s) (bs s) (pings s)) u') by (unfold u'; destruct (remove1 r l); reflexivity) end.
  rewrite Hst. clear Hst.
  constructor; cbn [set_unres unres kern kneigh ncache bs lpm].
  - intros nh l0 x _ H Hx. rewrite Hu' in H. destruct (eqb_spec nh (r_nh r)) as [->|Hn].
    + assert (l0 = remove1 r l) by (destruct (remove1 r l); congruence). subst l0.
      destruct (mA2 _ _ _ _ I _ _ x ltac:(discriminate) Hl (remove1_In _ _ _ Hx)) as (A & B & C).
      split; [auto|]. split; [|auto]. maps. destruct (eqb_spec (r_pfx x) (r_pfx r)) as [Hp|]; [|exact B].
      exfalso. apply Hnotin. assert (x = r); [|subst x; exact Hx]. rewrite Hp, Hkr in B. injection B as B.
      destruct x, r; cbn in *; congruence.
    + destruct (mA2 _ _ _ _ I nh l0 x ltac:(discriminate) H Hx) as (A & B & C).
      split; [auto|]. split; [|auto]. maps. destruct (eqb_spec (r_pfx x) (r_pfx r)) as [Hp|]; [|exact B].
      rewrite Hp, Hkr in B. congruence.
  - intros nh l0 H. rewrite Hu' in H. destruct (eqb_spec nh (r_nh r)) as [->|Hn]; [|exact (mND _ _ _ _ I _ _ H)].
    assert (l0 = remove1 r l) by (destruct (remove1 r l); congruence). subst l0. exact Hnd'.
  - intros p nh i. rewrite lookup_remove. destruct (eqb_spec p (r_pfx r)) as [->|Hp]; [discriminate|].
    intros K Kn. destruct (mA3 _ _ _ _ I _ _ _ K Kn) as (l0 & Hl0 & Hin0). rewrite Hu'.
    destruct (eqb_spec nh (r_nh r)) as [->|Hn]; [|eauto].
    assert (l0 = l) by congruence. subst l0.
    assert (Hin' : In (Route p (r_nh r) i) (remove1 r l)).
    { apply remove1_keeps; [exact Hin0|]. intros Heq. apply Hp. rewrite <- Heq. reflexivity. }
    exists (remove1 r l). split; [|exact Hin']. destruct (remove1 r l); [destruct Hin'|reflexivity].
  - apply (mA4 _ _ _ _ I).
  - intros i p g H. destruct (mA5 _ _ _ _ I _ _ _ H) as (nh & e & K & Ne & Hg). exists nh, e.
    split; [|auto]. maps. destruct (eqb_spec p (r_pfx r)) as [->|]; [|exact K].
    rewrite Hkr in K. injection K as <- <-. congruence.
  - intros p nh i m _. rewrite lookup_remove. destruct (eqb_spec p (r_pfx r)); [discriminate|]. apply (mA6 _ _ _ _ I). intros [].
  - intros U nh e H. destruct (mA11 _ _ _ _ I U nh e H) as (p0 & i0 & K). exists p0, i0. maps.
    destruct (eqb_spec p0 (r_pfx r)) as [->|]; [|exact K]. rewrite Hkr in K. injection K as <- <-. congruence.
  - exact (mU _ _ _ _ I).
Qed.

(* --- NEWNEIGH *)
Lemma invM_newneigh uf s nh mac :
  InvM s uf [] None -> wf_ev s (NewNeigh nh mac) = true -> InvM (new_neigh s nh mac) uf [] None.
Proof.
  intros I Hw. cbn [wf_ev] in Hw. unfold new_neigh.
  set (s1 := St (cfg_ifs s) (ncache s) (unres s) (gatecnt s) (upsert nh mac (kneigh s)) (kern s) (nhif s) (bs s) (pings s)).
  change (unres s1) with (unres s).
  (* the state after the kernel-side update, with the clauses of nh suspended *)
  assert (I1 : forall l, lookup nh (unres s) = Some l -> InvM s1 uf (map r_pfx l) (Some nh)).
  { intros l El. unfold s1. constructor; cbn [unres kern kneigh ncache bs].
    - intros nh0 l0 x Hne H Hx. destruct (mA2 _ _ _ _ I nh0 l0 x ltac:(discriminate) H Hx) as (A & B & C).
      split; [auto|]. split; [auto|]. maps. destruct (eqb_spec nh0 nh); congruence.
    - apply (mND _ _ _ _ I).
    - intros p nh0 i K. maps. destruct (eqb_spec nh0 nh); [discriminate|apply (mA3 _ _ _ _ I _ _ _ K)].
    - intros nh0 e H. pose proof (mA4 _ _ _ _ I _ _ H) as Hm. maps. destruct (eqb_spec nh0 nh) as [->|]; [|exact Hm].
      rewrite Hm in Hw. apply N.eqb_eq in Hw. congruence.
    - apply (mA5 _ _ _ _ I).
    - intros p nh0 i m Hp K. maps. destruct (eqb_spec nh0 nh) as [->|Hn]; [|apply (mA6 _ _ _ _ I); [intros []|exact K]].
      intros _. destruct (lookup nh (kneigh s)) as [m'|] eqn:Ek.
      + apply (mA6 _ _ _ _ I _ _ _ m' ltac:(intros []) K Ek).
      + destruct (mA3 _ _ _ _ I _ _ _ K Ek) as (l0 & Hl0 & Hin). exfalso. apply Hp.
        assert (l0 = l) by congruence. subst l0. apply (in_map r_pfx) in Hin. exact Hin.
    - apply (mA11 _ _ _ _ I).
    - exact (mU _ _ _ _ I). }
  destruct (lookup nh (unres s)) as [[|r t]|] eqn:Eu.
  - (* an empty list is falsy *)
    assert (Hnone : lookup nh (kneigh s) <> None \/ forall p i, lookup p (kern s) <> Some (nh, i)).
    { destruct (lookup nh (kneigh s)) eqn:Ek; [left; discriminate|right]. intros p i K.
      destruct (mA3 _ _ _ _ I _ _ _ K Ek) as (l0 & Hl0 & Hin). rewrite Eu in Hl0. injection Hl0 as <-. destruct Hin. }
    pose proof (I1 [] eq_refl) as J. cbn [map] in J.
    constructor; try apply J.
    + intros nh0 l0 x _ H Hx. destruct (eqb_spec nh0 nh) as [->|Hn].
      * unfold s1 in H. cbn [unres] in H. rewrite Eu in H. injection H as <-. destruct Hx.
      * apply (mA2 _ _ _ _ J nh0 l0 x); [congruence|exact H|exact Hx].
  - (* every waiting route is installed, then the key goes *)
    set (l := r :: t) in *.
    assert (Hall : forall x, In x l -> r_nh x = nh /\ lookup (r_pfx x) (kern s) = Some (nh, r_if x) /\ lookup nh (kneigh s) = None).
    { intros x Hx. apply (mA2 _ _ _ _ I nh l x); [discriminate|exact Eu|exact Hx]. }
    assert (I2 : InvM (fold_left (fun s' x => add_neighbor s' x mac) l s1) uf [] (Some nh)).
    { apply fillM_fold; [apply I1; reflexivity|]. intros x Hx. destruct (Hall x Hx) as (A & B & C).
      unfold s1. cbn [kern kneigh]. rewrite A. split; [exact B|]. maps. destruct (eqb_spec nh nh); congruence. }
    destruct (fold_same mac l s1) as (_ & Hu & Hk & Hkr & _). cbn zeta in Hu, Hk, Hkr.
    set (s2 := fold_left _ l s1) in *.
    constructor; cbn [set_unres unres kern kneigh ncache bs]; try apply I2.
    + intros nh0 l0 x _ H Hx. rewrite lookup_remove in H. destruct (eqb_spec nh0 nh); [discriminate|].
      apply (mA2 _ _ _ _ I2 nh0 l0 x); [congruence|exact H|exact Hx].
    + intros nh0 l0 H. rewrite lookup_remove in H. destruct (eqb_spec nh0 nh); [discriminate|].
      apply (mND _ _ _ _ I2 _ _ H).
    + intros p nh0 i K Kn. destruct (mA3 _ _ _ _ I2 _ _ _ K Kn) as (l0 & Hl0 & Hin). exists l0. split; [|exact Hin].
      rewrite lookup_remove. destruct (eqb_spec nh0 nh) as [->|]; [|exact Hl0].
      rewrite Hk in Kn. unfold s1 in Kn. cbn [kneigh] in Kn. rewrite lookup_upsert in Kn.
      destruct (eqb_spec nh nh); congruence.
  - (* nothing was waiting *)
    assert (Hnone : forall p i, lookup p (kern s) = Some (nh, i) -> lookup nh (kneigh s) <> None).
    { intros p i K Ek. destruct (mA3 _ _ _ _ I _ _ _ K Ek) as (l0 & Hl0 & _). congruence. }
    unfold s1. constructor; cbn [unres kern kneigh ncache bs].
    + intros nh0 l0 x _ H Hx. destruct (mA2 _ _ _ _ I nh0 l0 x ltac:(discriminate) H Hx) as (A & B & C).
      split; [auto|]. split; [auto|]. maps. destruct (eqb_spec nh0 nh); congruence.
    + apply (mND _ _ _ _ I).
    + intros p nh0 i K. maps. destruct (eqb_spec nh0 nh); [discriminate|apply (mA3 _ _ _ _ I _ _ _ K)].
    + intros nh0 e H. pose proof (mA4 _ _ _ _ I _ _ H) as Hm. maps. destruct (eqb_spec nh0 nh) as [->|]; [|exact Hm].
      rewrite Hm in Hw. apply N.eqb_eq in Hw. congruence.
    + apply (mA5 _ _ _ _ I).
    + intros p nh0 i m _ K. maps. destruct (eqb_spec nh0 nh) as [->|Hn]; [|apply (mA6 _ _ _ _ I); [intros []|exact K]].
      intros _. destruct (lookup nh (kneigh s)) as [m'|] eqn:Ek; [|exfalso; exact (Hnone _ _ K eq_refl)].
      apply (mA6 _ _ _ _ I _ _ _ m' ltac:(intros []) K Ek).
    + apply (mA11 _ _ _ _ I).
    + exact (mU _ _ _ _ I).
Qed.

(* --- one step, whole histories *)
Lemma is_none_true {A} (o : option A) : is_none o = true -> o = None.
Proof. destruct o; [discriminate|reflexivity]. Qed.

(* NEWNEIGH without a link-layer address / DELNEIGH for a next hop the kernel has no address for *)
Lemma invM_no_addr uf s nh :
  InvM s uf [] None -> lookup nh (kneigh s) = None -> InvM (no_addr s nh) uf [] None.
Proof.
  intros I Hk.
  assert (Hsame : forall x, lookup x (remove nh (kneigh s)) = lookup x (kneigh s)).
  { intros x. rewrite lookup_remove. destruct (eqb_spec x nh); congruence. }
  constructor; cbn [no_addr unres kern kneigh ncache bs].
  - intros nh0 l r Hne. rewrite Hsame. apply (mA2 _ _ _ _ I nh0 l r Hne).
  - apply (mND _ _ _ _ I).
  - intros p nh0 i. rewrite Hsame. apply (mA3 _ _ _ _ I).
  - intros nh0 e. rewrite Hsame. apply (mA4 _ _ _ _ I).
  - apply (mA5 _ _ _ _ I).
  - intros p nh0 i m Hp. rewrite Hsame. apply (mA6 _ _ _ _ I p nh0 i m Hp).
  - apply (mA11 _ _ _ _ I).
  - exact (mU _ _ _ _ I).
Qed.

Lemma invM_step uf s ev :
  InvM s uf [] None -> wf_ev s ev = true -> (uf = true -> keepuser_ev s ev = true) -> InvM (step s ev) uf [] None.
Proof.
  intros I Hw Hkeep. destruct ev as [r|r|nh mac|nh|nh|]; cbn [step].
  - destruct (managed s (r_if r)) eqn:M; [|exact I].
    cbn [wf_ev] in Hw. rewrite M in Hw. cbn [negb orb] in Hw. apply is_none_true in Hw.
    unfold add_new_route_entry. change (kneigh (kern_add s r)) with (kneigh s).
    destruct (lookup (r_nh r) (kneigh s)) as [mac|] eqn:Ek.
    + apply fillM.
      * apply invM_kern_add_known with (mac := mac); assumption.
      * unfold kern_add. cbn [kern]. rewrite lookup_upsert. destruct (eqb_spec (r_pfx r) (r_pfx r)); congruence.
      * exact Ek.
    + apply invM_probe; assumption.
  - destruct (managed s (r_if r)) eqn:M; [|exact I].
    cbn [wf_ev] in Hw. rewrite M in Hw. cbn [negb orb] in Hw.
    destruct (lookup (r_nh r) (kneigh s)) as [mac|] eqn:Ek.
    + apply invM_delete_known with (mac := mac); try assumption.
      intros U. apply keepuser_other with (mac := mac); auto.
    + apply invM_delete_pending; assumption.
  - apply invM_newneigh; assumption.
  - apply invM_no_addr; [exact I|]. cbn [wf_ev] in Hw. apply is_none_true in Hw. exact Hw.
  - apply invM_no_addr; [exact I|]. cbn [wf_ev] in Hw. apply is_none_true in Hw. exact Hw.
  - exact I.
Qed.

Lemma invM_init uf ifs : InvM (init ifs) uf [] None.
Proof. constructor; cbn; try (intros; discriminate). apply no_updr_init. Qed.

Lemma invM_run h : forall s, InvM s false [] None -> run_ok wf_ev s h = true -> InvM (run s h) false [] None.
Proof.
  induction h as [|ev h IH]; intros s I Hok; cbn in *; [exact I|].
  apply andb_true_iff in Hok. destruct Hok as (H1 & H2).
  apply IH; [apply invM_step; [assumption|assumption|discriminate]|exact H2].
Qed.
Lemma invMu_run h : forall s, InvM s true [] None -> run_ok wfu_ev s h = true -> InvM (run s h) true [] None.
Proof.
  induction h as [|ev h IH]; intros s I Hok; cbn in *; [exact I|].
  apply andb_true_iff in Hok. destruct Hok as (H1 & H2). unfold wfu_ev in H1. apply andb_true_iff in H1.
  destruct H1 as (Ha & Hb). apply IH; [apply invM_step; auto|exact H2].
Qed.

(* ================================================================ 4. gates lead to the right rewrite module ("bound" histories) *)
(* gate g of <iface i>Routes leads to the Update module that writes mac, which feeds <iface i>Merge *)
Definition path (b : bess) (i g mac : N) : Prop :=
  lookup (MRoutes i, g) (links b) = Some (MUpdI i mac, 0) /\
  lookup (MUpdI i mac) (upd b) = Some mac /\
  lookup (MUpdI i mac, 0) (links b) = Some (MMerge i, 0).

Record InvP (s : st) (uf : bool) : Prop := {
  pA1 : forall p nh i, lookup p (kern s) = Some (nh, i) -> lookup nh (nhif s) = Some i;
  pA4 : forall nh e, lookup nh (ncache s) = Some e ->
          exists i, lookup nh (nhif s) = Some i /\ path (bs s) i (n_gate e) (n_mac e);
  pA12 : uf = true -> forall u mac, lookup u (upd (bs s)) = Some mac ->
           exists nh e i, lookup nh (ncache s) = Some e /\ lookup nh (nhif s) = Some i /\ u = MUpdI i (n_mac e);
  pB : BInv s }.

Lemma nhif_kern_add s r k v :
  lookup k (nhif s) = Some v -> lookup k (nhif (kern_add s r)) = Some v.
Proof.
  intros H. unfold kern_add. cbn [nhif]. destruct (lookup (r_nh r) (nhif s)) eqn:E; [exact H|].
  maps. eqb_cases; congruence.
Qed.
Lemma nhif_kern_add_nh s r :
  bound_ev s (NewRoute r) = true -> managed s (r_if r) = true ->
  lookup (r_nh r) (nhif (kern_add s r)) = Some (r_if r).
Proof.
  intros Hb M. unfold bound_ev in Hb. rewrite M in Hb. cbn [negb orb] in Hb.
  unfold kern_add. cbn [nhif]. destruct (lookup (r_nh r) (nhif s)) as [i|] eqn:E.
  - eqb_cases; congruence.
  - maps. eqb_cases; congruence.
Qed.

Lemma invP_kern_add uf s r :
  InvP s uf -> managed s (r_if r) = true -> bound_ev s (NewRoute r) = true -> InvP (kern_add s r) uf.
Proof.
  intros J M Hb. pose proof (nhif_kern_add_nh s r Hb M) as Hnh. pose proof (nhif_kern_add s r) as Hext.
  constructor.
  - intros p nh i. unfold kern_add at 1. cbn [kern]. maps. eqb_cases.
    + intros [= <- <-]. exact Hnh.
    + intros K. apply Hext. exact (pA1 _ _ J _ _ _ K).
  - intros nh e H. destruct (pA4 _ _ J nh e H) as (i & Hi & Hp). exists i. split; [apply Hext; exact Hi|exact Hp].
  - intros U u m H. destruct (pA12 _ _ J U u m H) as (nh & e & i & A & B & C). exists nh, e, i. auto.
  - exact (pB _ _ J).
Qed.

Lemma invP_same uf s s' :
  InvP s uf ->
  (forall p x, lookup p (kern s') = Some x -> lookup p (kern s) = Some x) ->
  nhif s' = nhif s -> gatecnt s' = gatecnt s -> upd (bs s') = upd (bs s) -> links (bs s') = links (bs s) ->
  (forall nh, option_map gm (lookup nh (ncache s')) = option_map gm (lookup nh (ncache s))) ->
  InvP s' uf.
Proof.
  intros J Hk Hn Hg Hu Hl Hc.
  assert (Hfw : forall nh e', lookup nh (ncache s') = Some e' -> exists e, lookup nh (ncache s) = Some e /\ gm e = gm e').
  { intros nh e' H. specialize (Hc nh). rewrite H in Hc. destruct (lookup nh (ncache s)) as [e|]; [|discriminate].
    cbn in Hc. exists e. split; congruence. }
  assert (Hbw : forall nh e, lookup nh (ncache s) = Some e -> exists e', lookup nh (ncache s') = Some e' /\ gm e = gm e').
  { intros nh e H. specialize (Hc nh). rewrite H in Hc. destruct (lookup nh (ncache s')) as [e'|]; [|discriminate].
    cbn in Hc. exists e'. split; congruence. }
  constructor.
  - intros p nh i K. rewrite Hn. exact (pA1 _ _ J _ _ _ (Hk _ _ K)).
  - intros nh e' H. destruct (Hfw _ _ H) as (e & He & Hgm). destruct (pA4 _ _ J nh e He) as (i & Hi & Hp).
    exists i. rewrite Hn. split; [exact Hi|]. unfold gm in Hgm. injection Hgm as <- <-.
    unfold path in *. rewrite Hl, Hu. exact Hp.
  - intros U u m H. rewrite Hu in H. destruct (pA12 _ _ J U u m H) as (nh & e & i & A & B & C).
    destruct (Hbw _ _ A) as (e' & He' & Hgm). exists nh, e', i. rewrite Hn. unfold gm in Hgm. injection Hgm as _ <-. auto.
  - destruct (pB _ _ J) as (B7 & B9 & B10). unfold BInv. rewrite Hl, Hu, Hg. split; [exact B7|]. split; [exact B9|].
    intros u og x H. specialize (B10 u og x H). destruct u; cbn [mod_exists] in *; auto; rewrite Hu; exact B10.
Qed.

Lemma invP_add_neighbor uf s r mac :
  InvP s uf -> lookup (r_nh r) (nhif s) = Some (r_if r) -> InvP (add_neighbor s r mac) uf.
Proof.
  intros J Hni. destruct (pB _ _ J) as (B7 & B9 & B10).
  unfold add_neighbor, gate_of. destruct (lookup (r_nh r) (ncache s)) as [e|] eqn:E.
  - (* neighbour known: only the table and the count change *)
    apply (invP_same uf s); auto; cbn [kern nhif gatecnt bs ncache lpm_add upd links]; auto.
    intros nh. maps. eqb_cases; [subst; rewrite E|]; reflexivity.
  - (* new neighbour: module, links, cache entry, gate counter *)
    set (i := r_if r) in *. set (g := getd i (gatecnt s)) in *.
    assert (Hfree : lookup (MRoutes i, g) (links (bs s)) = None).
    { destruct (lookup (MRoutes i, g) (links (bs s))) as [x|] eqn:El; [|reflexivity]. apply B7 in El. unfold g in El. lia. }
    destruct (create_and_link_spec (lpm_add (bs s) i (r_pfx r) g) i g mac Hfree B9 B10) as (Hl & Hu & Hk).
    set (b' := create_and_link _ i g mac) in *. cbn [lpm_add lpm upd links] in Hl, Hu, Hk.
    constructor; cbn [kern nhif gatecnt bs ncache].
    + apply (pA1 _ _ J).
    + intros nh e'. maps. eqb_cases.
      * intros [= <-]. cbn [n_gate n_mac]. exists i. split; [subst; exact Hni|]. unfold path. rewrite !Hk, !Hu.
        eqb_cases; repeat split; congruence.
      * intros H. destruct (pA4 _ _ J nh e' H) as (j & Hj & (P1 & P2 & P3)). exists j. split; [exact Hj|].
        unfold path. rewrite !Hk, !Hu. eqb_cases; inj; repeat split; try congruence; auto.
    + intros U u m. rewrite Hu. eqb_cases.
      * intros [= <-]. subst u. eexists (r_nh r), _, i. maps. destruct (eqb_spec (r_nh r) (r_nh r)); [|congruence].
        split; [reflexivity|]. split; [exact Hni|reflexivity].
      * intros H. destruct (pA12 _ _ J U u m H) as (nh0 & e0 & i0 & A & B & C).
        exists nh0, e0, i0. maps. destruct (eqb_spec nh0 (r_nh r)); [congruence|]. auto.
    + unfold BInv. cbn [bs gatecnt]. split; [|split].
      * intros i0 g0 x. rewrite Hk, getd_upsert. eqb_cases; inj; try lia; try congruence; intros H; apply B7 in H; subst; unfold g in *; lia.
      * intros u m. rewrite Hu. eqb_cases.
        -- intros [= <-]. subst u. exists i. split; [reflexivity|]. rewrite Hk. eqb_cases; congruence.
        -- intros H. destruct (B9 _ _ H) as (j & -> & Hj). exists j. split; [reflexivity|]. rewrite Hk. eqb_cases; inj; congruence.
      * intros u og x. rewrite Hk. destruct u; cbn [mod_exists]; auto; rewrite Hu; eqb_cases; inj; try congruence; auto;
          intros H; apply B10 in H; cbn [mod_exists] in H; exact H.
Qed.

Lemma invP_fold uf mac l : forall s, InvP s uf -> (forall r, In r l -> lookup (r_nh r) (nhif s) = Some (r_if r)) ->
  InvP (fold_left (fun s' r => add_neighbor s' r mac) l s) uf.
Proof.
  induction l as [|r t IH]; intros s J H; cbn; [exact J|].
  apply IH; [apply invP_add_neighbor; [exact J|apply H; now left]|].
  intros r0 Hr0. destruct (add_neighbor_same s r mac) as (_ & _ & _ & _ & ->). apply H. now right.
Qed.

Lemma invP_step uf s ev :
  InvM s uf [] None -> InvP s uf -> good_ev s ev = true -> InvP (step s ev) uf.
Proof.
  intros I J Hg. unfold good_ev in Hg. apply andb_true_iff in Hg. destruct Hg as (Hw & Hb).
  destruct ev as [r|r|nh mac|nh|nh|]; cbn [step].
  - destruct (managed s (r_if r)) eqn:M; [|exact J].
    pose proof (invP_kern_add uf s r J M Hb) as J1. pose proof (nhif_kern_add_nh s r Hb M) as Hnh.
    unfold add_new_route_entry. change (kneigh (kern_add s r)) with (kneigh s).
    destruct (lookup (r_nh r) (kneigh s)) as [mac|].
    + apply invP_add_neighbor; assumption.
    + apply (invP_same uf (kern_add s r)); auto.
  - destruct (managed s (r_if r)) eqn:M; [|exact J].
    assert (Hn1 : no_updr (kern_del s r)).
    { unfold kern_del. destruct (kern_has s r); exact (mU _ _ _ _ I). }
    destruct (delete_effect (kern_del s r) r Hn1) as (E1 & E2 & E3 & E4 & E5 & E6 & E7 & E8). cbn zeta in *.
    apply (invP_same uf s _ J).
    + intros p x. rewrite E5. unfold kern_del. destruct (kern_has s r); [cbn [kern]; maps; eqb_cases; congruence|auto].
    + rewrite E4. unfold kern_del. destruct (kern_has s r); reflexivity.
    + rewrite E3. unfold kern_del. destruct (kern_has s r); reflexivity.
    + rewrite E1. unfold kern_del. destruct (kern_has s r); reflexivity.
    + rewrite E2. unfold kern_del. destruct (kern_has s r); reflexivity.
    + intros nh. rewrite E8. unfold kern_del. destruct (kern_has s r); reflexivity.
  - unfold new_neigh. set (s1 := St _ _ _ _ (upsert nh mac (kneigh s)) _ _ _ _).
    assert (J1 : InvP s1 uf) by (apply (invP_same uf s _ J); auto).
    change (unres s1) with (unres s). destruct (lookup nh (unres s)) as [[|r t]|] eqn:Eu; [exact J1| |exact J1].
    set (l := r :: t) in *.
    assert (J2 : InvP (fold_left (fun s' x => add_neighbor s' x mac) l s1) uf).
    { apply invP_fold; [exact J1|]. intros x Hx.
      destruct (mA2 _ _ _ _ I nh l x ltac:(discriminate) Eu Hx) as (A & B & _). rewrite A.
      exact (pA1 _ _ J _ _ _ B). }
    apply (invP_same uf _ _ J2); auto.
  - apply (invP_same uf s _ J); auto.
  - apply (invP_same uf s _ J); auto.
  - exact J.
Qed.

Lemma invP_init uf ifs : InvP (init ifs) uf.
Proof.
  constructor; cbn; try (intros; discriminate).
  unfold BInv. cbn. split; [|split]; intros; discriminate.
Qed.

Lemma good_parts s ev : good_ev s ev = true -> wf_ev s ev = true /\ bound_ev s ev = true.
Proof. unfold good_ev. rewrite andb_true_iff. tauto. Qed.
Lemma good_wf s h : run_ok good_ev s h = true -> run_ok wf_ev s h = true.
Proof.
  revert s. induction h as [|ev h IH]; intros s H; cbn in *; [reflexivity|].
  apply andb_true_iff in H. destruct H as (H1 & H2). apply good_parts in H1. rewrite IH by assumption.
  destruct H1 as (-> & _). reflexivity.
Qed.
Lemma good_bound s h : run_ok good_ev s h = true -> run_ok bound_ev s h = true.
Proof.
  revert s. induction h as [|ev h IH]; intros s H; cbn in *; [reflexivity|].
  apply andb_true_iff in H. destruct H as (H1 & H2). apply good_parts in H1. rewrite IH by assumption.
  destruct H1 as (_ & ->). reflexivity.
Qed.

Lemma invMP_run h : forall s, InvM s false [] None -> InvP s false -> run_ok good_ev s h = true ->
  InvM (run s h) false [] None /\ InvP (run s h) false.
Proof.
  induction h as [|ev h IH]; intros s I J Hok; cbn in *; [auto|].
  apply andb_true_iff in Hok. destruct Hok as (H1 & H2). destruct (good_parts _ _ H1) as (Hw & Hb).
  apply IH; [apply invM_step; [assumption|assumption|discriminate]|apply invP_step; assumption|exact H2].
Qed.
Lemma invMPu_run h : forall s, InvM s true [] None -> InvP s true -> run_ok goodu_ev s h = true ->
  InvM (run s h) true [] None /\ InvP (run s h) true.
Proof.
  induction h as [|ev h IH]; intros s I J Hok; cbn in *; [auto|].
  apply andb_true_iff in Hok. destruct Hok as (H1 & H2). unfold goodu_ev in H1. apply andb_true_iff in H1.
  destruct H1 as (Hg & Hk). destruct (good_parts _ _ Hg) as (Hw & Hb).
  apply IH; [apply invM_step; auto|apply invP_step; assumption|exact H2].
Qed.

(* ================================================================ 5. the statements of C20 on a state *)
(* installed in the interface's lookup module  <->  the kernel has it and the next hop's MAC is known *)
Definition mirror (s : st) : Prop :=
  forall i p, (exists g, lookup (i, p) (lpm (bs s)) = Some g) <->
              (exists nh mac, lookup p (kern s) = Some (nh, i) /\ lookup nh (kneigh s) = Some mac).
(* every installed kernel route through nh uses THE gate of nh, and that gate leads to THE Update
   module writing nh's MAC, which feeds the interface's Merge *)
Definition routes_share (s : st) : Prop :=
  forall p nh i g, lookup p (kern s) = Some (nh, i) -> lookup (i, p) (lpm (bs s)) = Some g ->
    exists e, lookup nh (ncache s) = Some e /\ g = n_gate e /\
              lookup nh (kneigh s) = Some (n_mac e) /\ path (bs s) i g (n_mac e).
(* all installed routes through one next hop use one gate - needs no hypothesis on interfaces *)
Definition one_gate_per_next_hop (s : st) : Prop :=
  forall p1 p2 nh i1 i2 g1 g2, lookup p1 (kern s) = Some (nh, i1) -> lookup p2 (kern s) = Some (nh, i2) ->
    lookup (i1, p1) (lpm (bs s)) = Some g1 -> lookup (i2, p2) (lpm (bs s)) = Some g2 -> g1 = g2.
(* installed routes of two different next hops on one interface use different gates *)
Definition obs_gates_distinct (s : st) : Prop :=
  forall p1 p2 nh1 nh2 i g1 g2, nh1 <> nh2 ->
    lookup p1 (kern s) = Some (nh1, i) -> lookup p2 (kern s) = Some (nh2, i) ->
    lookup (i, p1) (lpm (bs s)) = Some g1 -> lookup (i, p2) (lpm (bs s)) = Some g2 -> g1 <> g2.
(* a run-time (Update) module exists only while an installed kernel route is forwarded to it *)
Definition update_used (s : st) : Prop :=
  forall u mac, lookup u (upd (bs s)) = Some mac ->
    exists p nh i g, lookup p (kern s) = Some (nh, i) /\ lookup (i, p) (lpm (bs s)) = Some g /\
                     lookup (MRoutes i, g) (links (bs s)) = Some (u, 0).

Lemma invM_mirror uf s : InvM s uf [] None -> mirror s.
Proof.
  intros I i p. split.
  - intros (g & Hg). destruct (mA5 _ _ _ _ I _ _ _ Hg) as (nh & e & K & Ne & _).
    exists nh, (n_mac e). split; [exact K|exact (mA4 _ _ _ _ I _ _ Ne)].
  - intros (nh & mac & K & Kn). destruct (mA6 _ _ _ _ I _ _ _ _ ltac:(intros []) K Kn) as (e & _ & L). eauto.
Qed.

Lemma invM_one_gate uf s : InvM s uf [] None -> one_gate_per_next_hop s.
Proof.
  intros I p1 p2 nh i1 i2 g1 g2 K1 K2 L1 L2.
  destruct (mA5 _ _ _ _ I _ _ _ L1) as (n1 & e1 & K1' & N1 & ->).
  destruct (mA5 _ _ _ _ I _ _ _ L2) as (n2 & e2 & K2' & N2 & ->).
  assert (n1 = nh) by congruence. assert (n2 = nh) by congruence. subst. congruence.
Qed.

Lemma inv_routes_share uf s : InvM s uf [] None -> InvP s uf -> routes_share s.
Proof.
  intros I J p nh i g K L.
  destruct (mA5 _ _ _ _ I _ _ _ L) as (n & e & K' & Ne & ->). assert (n = nh) by congruence. subst n.
  exists e. split; [exact Ne|]. split; [reflexivity|]. split; [exact (mA4 _ _ _ _ I _ _ Ne)|].
  destruct (pA4 _ _ J _ _ Ne) as (j & Hj & Hp). pose proof (pA1 _ _ J _ _ _ K) as Hi.
  assert (j = i) by congruence. subst j. exact Hp.
Qed.

Lemma inv_obs_gates uf s : InvM s uf [] None -> InvP s uf -> GInv s -> obs_gates_distinct s.
Proof.
  intros I J (G1 & G2 & G3) p1 p2 nh1 nh2 i g1 g2 Hne K1 K2 L1 L2.
  destruct (inv_routes_share uf s I J _ _ _ _ K1 L1) as (e1 & N1 & -> & _).
  destruct (inv_routes_share uf s I J _ _ _ _ K2 L2) as (e2 & N2 & -> & _).
  apply (G2 nh1 nh2 e1 e2 i); auto.
  - exact (pA1 _ _ J _ _ _ K1).
  - exact (pA1 _ _ J _ _ _ K2).
Qed.

Lemma invu_update_used s : InvM s true [] None -> InvP s true -> update_used s.
Proof.
  intros I J u mac Hu.
  destruct (pA12 _ _ J eq_refl u mac Hu) as (nh & e & i & Hn & Hi & ->).
  destruct (mA11 _ _ _ _ I eq_refl nh e Hn) as (p & i' & K).
  pose proof (pA1 _ _ J _ _ _ K) as Hi'. assert (i' = i) by congruence. subst i'.
  pose proof (mA4 _ _ _ _ I _ _ Hn) as Hk.
  destruct (pA4 _ _ J _ _ Hn) as (j & Hj & (P1 & _)). assert (j = i) by congruence. subst j.
  destruct (mA6 _ _ _ _ I _ _ _ _ ltac:(intros []) K Hk) as (e' & Hn' & Hl).
  assert (e' = e) by congruence. subst e'.
  exists p, nh, i, (n_gate e). auto.
Qed.

(* ================================================================ 6. theorems over all histories *)
Theorem mirror_wf ifs h : run_ok wf_ev (init ifs) h = true -> mirror (run (init ifs) h).
Proof. intros H. apply (invM_mirror false), invM_run; [apply invM_init|exact H]. Qed.

Theorem one_gate_wf ifs h : run_ok wf_ev (init ifs) h = true -> one_gate_per_next_hop (run (init ifs) h).
Proof. intros H. apply (invM_one_gate false), invM_run; [apply invM_init|exact H]. Qed.

Theorem routes_share_good ifs h : run_ok good_ev (init ifs) h = true -> routes_share (run (init ifs) h).
Proof.
  intros H. destruct (invMP_run h _ (invM_init false ifs) (invP_init false ifs) H) as (I & J).
  exact (inv_routes_share false _ I J).
Qed.

Theorem obs_gates_good ifs h : run_ok good_ev (init ifs) h = true -> obs_gates_distinct (run (init ifs) h).
Proof.
  intros H. destruct (invMP_run h _ (invM_init false ifs) (invP_init false ifs) H) as (I & J).
  apply (inv_obs_gates false _ I J). apply ginv_run; [apply ginv_init|apply good_bound; exact H].
Qed.

Theorem update_used_goodu ifs h : run_ok goodu_ev (init ifs) h = true -> update_used (run (init ifs) h).
Proof.
  intros H. destruct (invMPu_run h _ (invM_init true ifs) (invP_init true ifs) H) as (I & J).
  exact (invu_update_used _ I J).
Qed.

(* the rewrite module of a gate in use exists (converse of update_used), on every good history *)
Theorem used_update_exists ifs h :
  run_ok good_ev (init ifs) h = true ->
  forall p nh i g, lookup p (kern (run (init ifs) h)) = Some (nh, i) ->
    lookup (i, p) (lpm (bs (run (init ifs) h))) = Some g ->
    exists u mac, lookup (MRoutes i, g) (links (bs (run (init ifs) h))) = Some (u, 0) /\
                  lookup u (upd (bs (run (init ifs) h))) = Some mac /\
                  lookup nh (kneigh (run (init ifs) h)) = Some mac.
Proof.
  intros H p nh i g K L. destruct (routes_share_good ifs h H p nh i g K L) as (e & _ & _ & Hk & (P1 & P2 & _)).
  eauto.
Qed.

(* ================================================================ 7. what is still false (F29c, F40) *)
(* every guard except "a next hop sits on one interface" *)
Definition but_bound (s : st) (ev : event) : bool := wf_ev s ev && keepuser_ev s ev.

(* F29c: the last route of a next hop goes; the module created as <iface>DstMAC.. stays because
   <iface>RoutesDstMAC.. is what delete_route_entry asks BESS to destroy *)
Definition h_leak : list event := [NewNeigh 1 101; NewRoute (Route 0 1 0); DelRoute (Route 0 1 0)].
Lemma update_used_refuted :
  exists ifs h, run_ok good_ev (init ifs) h = true /\ ~ update_used (run (init ifs) h).
Proof.
  exists [0], h_leak. split; [vm_compute; reflexivity|].
  intros U. destruct (U (MUpdI 0 101) 101) as (p & nh & i & g & _ & Hl & _); [vm_compute; reflexivity|].
  vm_compute in Hl. discriminate.
Qed.

(* F40: one next hop reached over two interfaces: the cache is keyed by the address alone, so the
   second interface's table uses the first interface's gate number, which there belongs to
   another next hop *)
Definition h_two_ifaces : list event :=
  [NewNeigh 1 101; NewNeigh 2 102; NewRoute (Route 0 1 0); NewRoute (Route 1 2 1); NewRoute (Route 2 1 1)].
Lemma shared_gate_refuted_two_ifaces :
  exists ifs h, run_ok but_bound (init ifs) h = true /\
                ~ routes_share (run (init ifs) h) /\ ~ obs_gates_distinct (run (init ifs) h).
Proof.
  exists [0; 1], h_two_ifaces. split; [vm_compute; reflexivity|]. split.
  - intros R. destruct (R 2 1 1 0) as (e & He & _ & _ & (P1 & _)); try (vm_compute; reflexivity).
    vm_compute in He. injection He as <-. vm_compute in P1. discriminate.
  - intros D. apply (D 1 2 2 1 1 0 0); try (vm_compute; reflexivity). discriminate.
Qed.

(* non-vacuity: a guarded history with three routes waiting for one next hop (one of them deleted
   while waiting), ARP-timeout and DELNEIGH notifications in between, routes sharing a next hop, deletions, noise, an unmanaged interface *)
Definition h_good : list event :=
  [NewRoute (Route 0 1 0); NewRoute (Route 1 1 0); NeighNoAddr 1; NewRoute (Route 6 1 0); DelNeigh 1; DelRoute (Route 6 1 0);
   NeighNoAddr 1; NewNeigh 1 101; NeighNoAddr 9; NewNeigh 2 102; NewRoute (Route 2 2 0);
   NewNeigh 4 104; NewRoute (Route 3 4 1); Noise; DelRoute (Route 0 1 0); NewRoute (Route 4 3 0); NewNeigh 3 103;
   NewRoute (Route 0 3 0); DelRoute (Route 4 3 0); NewRoute (Route 5 1 7)].
(* the histories that refuted the mirror before the repair 1b62c73 (F29a, F29b) now satisfy it *)
Definition h_overwritten : list event := [NewRoute (Route 0 1 0); NewRoute (Route 1 1 0); NewNeigh 1 101].
Definition h_deleted_pending : list event := [NewRoute (Route 0 1 0); DelRoute (Route 0 1 0); NewNeigh 1 101].
(* an ARP timeout (RTM_NEWNEIGH without NDA_LLADDR) while a route waits, then the route is withdrawn *)
Definition h_failed_neigh : list event :=
  [NewRoute (Route 0 1 0); NeighNoAddr 1; DelRoute (Route 0 1 0); DelNeigh 1; NewNeigh 1 101].
