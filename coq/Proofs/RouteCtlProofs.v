(* Lemmas about Model/RouteCtl.v (route_control.py).  All invariants are stated through [lookup]
   only, so the representation of the dictionaries never matters. *)
From Coq Require Import NArith ZArith List Bool Lia ZifyN ZifyBool.
From UPF Require Import Model.RouteCtl.
Import ListNotations.
Open Scope N_scope.

(* ---------------------------------------------------------------- decidable keys *)
Class EqbSpec (K : Type) `{Eqb K} := eqb_spec : forall a b : K, reflect (a = b) (eqb a b).
#[global] Instance EqbSpec_N : EqbSpec N := N.eqb_spec.
#[global] Instance EqbSpec_pair {A B} `{EqbSpec A} `{EqbSpec B} : EqbSpec (A * B).
Proof.
  intros [a1 b1] [a2 b2]. unfold eqb, Eqb_pair. cbn [fst snd].
  destruct (eqb_spec a1 a2); destruct (eqb_spec b1 b2); cbn; constructor; congruence.
Qed.
#[global] Instance EqbSpec_modname : EqbSpec modname.
Proof.
  intros a b. unfold eqb, Eqb_modname.
  destruct a, b; try (constructor; congruence);
    repeat match goal with |- context [N.eqb ?x ?y] => destruct (N.eqb_spec x y) end;
    cbn; constructor; congruence.
Qed.
#[global] Arguments eqb {K _} _ _ : simpl never.

Section AssocFacts.
  Context {K V : Type} `{EqbSpec K}.
  Lemma lookup_upsert (k k' : K) (v : V) m :
    lookup k' (upsert k v m) = if eqb k' k then Some v else lookup k' m.
  Proof.
    induction m as [|[a w] m IH]; cbn.
    - reflexivity.
    - destruct (eqb_spec k a) as [->|Hka]; cbn.
      + destruct (eqb_spec k' a); reflexivity.
      + rewrite IH. destruct (eqb_spec k' a) as [->|]; [|reflexivity].
        destruct (eqb_spec a k); [congruence|reflexivity].
  Qed.
  Lemma lookup_remove (k k' : K) (m : list (K * V)) :
    lookup k' (remove k m) = if eqb k' k then None else lookup k' m.
  Proof.
    induction m as [|[a w] m IH]; cbn.
    - destruct (eqb k' k); reflexivity.
    - destruct (eqb_spec k a) as [->|Hka]; cbn.
      + rewrite IH. destruct (eqb_spec k' a); reflexivity.
      + rewrite IH. destruct (eqb_spec k' a) as [->|]; [|reflexivity].
        destruct (eqb_spec a k); [congruence|reflexivity].
  Qed.
  Lemma lookup_in (k : K) (v : V) m : lookup k m = Some v -> In (k, v) m.
  Proof.
    induction m as [|[a w] m IH]; cbn; [discriminate|].
    destruct (eqb_spec k a) as [->|]; [intros [= ->]; now left|intros; right; auto].
  Qed.
End AssocFacts.

(* case analysis on every key comparison in sight *)
Ltac eqb_cases :=
  repeat match goal with
         | |- context [@eqb ?K ?I ?a ?b] => destruct (@eqb_spec K I _ a b)
         | H : context [@eqb ?K ?I ?a ?b] |- _ => destruct (@eqb_spec K I _ a b)
         | |- context [N.eqb ?a ?b] => destruct (N.eqb_spec a b)
         | H : context [N.eqb ?a ?b] |- _ => destruct (N.eqb_spec a b)
         end.
Ltac maps := rewrite ?lookup_upsert, ?lookup_remove in *.

Lemma getd_upsert i j n m : getd j (upsert i n m) = if eqb j i then n else getd j m.
Proof. unfold getd. rewrite lookup_upsert. destruct (eqb j i); reflexivity. Qed.

(* ================================================================ 1. gates (needs only "bound") *)
Definition GInv (s : st) : Prop :=
  (forall nh e, lookup nh (ncache s) = Some e ->
     exists i, lookup nh (nhif s) = Some i /\ n_gate e < getd i (gatecnt s)) /\
  (forall nh1 nh2 e1 e2 i, nh1 <> nh2 -> lookup nh1 (ncache s) = Some e1 -> lookup nh2 (ncache s) = Some e2 ->
     lookup nh1 (nhif s) = Some i -> lookup nh2 (nhif s) = Some i -> n_gate e1 <> n_gate e2) /\
  (forall nh r, lookup nh (unres s) = Some r -> r_nh r = nh /\ lookup nh (nhif s) = Some (r_if r)).

Lemma ginv_mono s s' :
  GInv s ->
  (forall nh e', lookup nh (ncache s') = Some e' -> exists e, lookup nh (ncache s) = Some e /\ n_gate e' = n_gate e) ->
  (forall i, getd i (gatecnt s) <= getd i (gatecnt s')) ->
  (forall k v, lookup k (nhif s) = Some v -> lookup k (nhif s') = Some v) ->
  (forall nh r, lookup nh (unres s') = Some r -> r_nh r = nh /\ lookup nh (nhif s') = Some (r_if r)) ->
  GInv s'.
Proof.
  intros (G1 & G2 & G3) Hnc Hgc Hni Hun. split; [|split].
  - intros nh e' He'. destruct (Hnc _ _ He') as (e & He & Hg). destruct (G1 _ _ He) as (i & Hi & Hlt).
    exists i. split; [auto|]. rewrite Hg. specialize (Hgc i). lia.
  - intros nh1 nh2 e1 e2 i Hne H1 H2 Hi1 Hi2.
    destruct (Hnc _ _ H1) as (f1 & Hf1 & Hg1). destruct (Hnc _ _ H2) as (f2 & Hf2 & Hg2).
    destruct (G1 _ _ Hf1) as (j1 & Hj1 & _). destruct (G1 _ _ Hf2) as (j2 & Hj2 & _).
    pose proof (Hni _ _ Hj1) as Hj1'. pose proof (Hni _ _ Hj2) as Hj2'.
    rewrite Hg1, Hg2. apply (G2 nh1 nh2 f1 f2 i); auto; congruence.
  - apply Hun.
Qed.

Lemma ginv_add_neighbor s r mac :
  GInv s -> lookup (r_nh r) (nhif s) = Some (r_if r) -> GInv (add_neighbor s r mac).
Proof.
  intros (G1 & G2 & G3) Hif. unfold add_neighbor, gate_of.
  destruct (lookup (r_nh r) (ncache s)) as [e|] eqn:E.
  - apply (ginv_mono s); [split; [|split]; auto| | | |]; cbn [ncache gatecnt nhif unres].
    + intros nh e'. maps. eqb_cases; [intros [= <-]; subst; eauto|eauto].
    + intros; lia.
    + auto.
    + auto.
  - split; [|split]; cbn [ncache gatecnt nhif unres].
    + intros nh e'. maps. eqb_cases.
      * intros [= <-]; subst. exists (r_if r). split; [auto|]. rewrite getd_upsert. cbn [n_gate]. eqb_cases; [lia|congruence].
      * intros He. destruct (G1 _ _ He) as (i & Hi & Hlt). exists i. split; [auto|].
        rewrite getd_upsert. eqb_cases; subst; lia.
    + intros nh1 nh2 e1 e2 i Hne. maps. eqb_cases; subst; try congruence.
      * intros [= <-] He2 Hi1 Hi2. cbn [n_gate]. destruct (G1 _ _ He2) as (j & Hj & Hlt).
        assert (j = r_if r) by congruence. subst j. lia.
      * intros He1 [= <-] Hi1 Hi2. cbn [n_gate]. destruct (G1 _ _ He1) as (j & Hj & Hlt).
        assert (j = r_if r) by congruence. subst j. lia.
      * intros He1 He2 Hi1 Hi2. apply (G2 nh1 nh2 e1 e2 i); assumption.
    + apply G3.
Qed.

Lemma ginv_kern_add s r :
  GInv s -> bound_ev s (NewRoute r) = true -> managed s (r_if r) = true ->
  GInv (kern_add s r) /\ lookup (r_nh r) (nhif (kern_add s r)) = Some (r_if r).
Proof.
  intros G Hb M. unfold bound_ev in Hb. rewrite M in Hb. cbn [negb orb] in Hb.
  unfold kern_add. destruct (lookup (r_nh r) (nhif s)) as [i|] eqn:E.
  - eqb_cases; [|discriminate]. subst i. split; [|exact E].
    apply (ginv_mono s); auto; cbn [ncache gatecnt nhif unres]; [eauto|intros; lia|apply G].
  - cbn [nhif]. split; [|maps; eqb_cases; congruence].
    destruct G as (G1 & G2 & G3).
    apply (ginv_mono s); [split; [|split]; auto| | | |]; cbn [ncache gatecnt nhif unres]; [eauto|intros; lia| |].
    + intros k v Hk. maps. eqb_cases; congruence.
    + intros nh r0 H0. destruct (G3 _ _ H0) as (Ha & Hb'). split; [auto|]. maps. eqb_cases; congruence.
Qed.

Lemma ginv_delete s r : GInv s -> GInv (delete_route_entry s r).
Proof.
  intros G. unfold delete_route_entry.
  destruct (lookup (r_nh r) (ncache s)) as [e|] eqn:E; [|exact G].
  destruct (lpm_del (bs s) (r_if r) (r_pfx r)) as [b1|]; [|exact G].
  assert (Hup : GInv (set_nc (set_bs s b1) (upsert (r_nh r) (Neigh (n_gate e) (n_mac e) (n_count e - 1)) (ncache s)))).
  { apply (ginv_mono s); auto; cbn [set_nc set_bs ncache gatecnt nhif unres]; [|intros; lia|apply G].
    intros nh e'. maps. eqb_cases; [intros [= <-]; subst; eauto|eauto]. }
  destruct (Z.eqb _ 0); [|exact Hup].
  destruct (destroy b1 _) as [b2|]; [|exact Hup].
  apply (ginv_mono s); auto; cbn [set_nc set_bs ncache gatecnt nhif unres]; [|intros; lia|apply G].
  intros nh e'. maps. eqb_cases; [discriminate|eauto].
Qed.

Lemma ginv_step s ev : GInv s -> bound_ev s ev = true -> GInv (step s ev).
Proof.
  intros G Hb. destruct ev as [r|r|nh mac|]; cbn [step].
  - destruct (managed s (r_if r)) eqn:M; [|exact G].
    destruct (ginv_kern_add s r G Hb M) as (G' & Hif). set (s1 := kern_add s r) in *.
    unfold add_new_route_entry. destruct (lookup (r_nh r) (kneigh s1)) as [mac|].
    + apply ginv_add_neighbor; assumption.
    + apply (ginv_mono s1); auto; cbn [ncache gatecnt nhif unres]; [eauto|intros; lia|].
      intros nh r0. maps. eqb_cases; [intros [= <-]; subst; auto|apply G'].
  - destruct (managed s (r_if r)); [|exact G]. apply ginv_delete.
    unfold kern_del. destruct (kern_has s r); [|exact G].
    apply (ginv_mono s); auto; cbn [ncache gatecnt nhif unres]; [eauto|intros; lia|apply G].
  - unfold new_neigh. set (s1 := St _ _ _ _ (upsert nh mac (kneigh s)) _ _ _ _).
    assert (G1 : GInv s1).
    { apply (ginv_mono s); auto; unfold s1; cbn [ncache gatecnt nhif unres]; [eauto|intros; lia|apply G]. }
    destruct (lookup nh (unres s1)) as [r|] eqn:E; [|exact G1].
    destruct G1 as (Ga & Gb & Gc). destruct (Gc _ _ E) as (Hnh & Hif).
    assert (G2 : GInv (add_neighbor s1 r mac)).
    { apply ginv_add_neighbor; [split; [|split]; assumption|]. rewrite Hnh. exact Hif. }
    apply (ginv_mono (add_neighbor s1 r mac)); auto; cbn [set_unres ncache gatecnt nhif unres]; [eauto|intros; lia|].
    intros nh0 r0. maps. eqb_cases; [discriminate|apply G2].
  - exact G.
Qed.

Lemma ginv_init ifs : GInv (init ifs).
Proof. split; [|split]; cbn; intros; discriminate. Qed.

Lemma ginv_run h : forall s, GInv s -> run_ok bound_ev s h = true -> GInv (run s h).
Proof.
  induction h as [|ev h IH]; intros s G Hok; cbn in *; [exact G|].
  apply andb_true_iff in Hok. destruct Hok as (H1 & H2). apply IH; [apply ginv_step; assumption|exact H2].
Qed.

(* two next hops in the neighbour cache that sit on the same interface never have the same gate *)
Definition gates_distinct (s : st) : Prop :=
  forall nh1 nh2 e1 e2 i, nh1 <> nh2 ->
    lookup nh1 (ncache s) = Some e1 -> lookup nh2 (ncache s) = Some e2 ->
    lookup nh1 (nhif s) = Some i -> lookup nh2 (nhif s) = Some i -> n_gate e1 <> n_gate e2.

Lemma gates_distinct_all ifs h : run_ok bound_ev (init ifs) h = true -> gates_distinct (run (init ifs) h).
Proof. intros H. destruct (ginv_run h (init ifs) (ginv_init ifs) H) as (_ & G2 & _). exact G2. Qed.

(* ================================================================ 2. the BESS side of _add_neighbor *)
(* invariants of the module graph alone *)
Definition BInv (s : st) : Prop :=
  (forall i g x, lookup (MRoutes i, g) (links (bs s)) = Some x -> g < getd i (gatecnt s)) /\
  (forall u mac, lookup u (upd (bs s)) = Some mac ->
     exists i, u = MUpdI i mac /\ lookup (u, 0) (links (bs s)) = Some (MMerge i, 0)) /\
  (forall u og x, lookup (u, og) (links (bs s)) = Some x -> mod_exists (bs s) u = true).

Lemma connect_ok b src og dst ig :
  mod_exists b src = true -> mod_exists b dst = true -> lookup (src, og) (links b) = None ->
  connect b src og dst ig = Some (Bess (lpm b) (upd b) (upsert (src, og) (dst, ig) (links b))).
Proof. intros H1 H2 H3. unfold connect. rewrite H1, H2, H3. reflexivity. Qed.
Lemma connect_busy b src og dst ig x :
  lookup (src, og) (links b) = Some x -> connect b src og dst ig = None.
Proof. intros H. unfold connect. rewrite H. destruct (_ && _); reflexivity. Qed.

Lemma create_and_link_spec b i g mac :
  lookup (MRoutes i, g) (links b) = None ->
  (forall u m, lookup u (upd b) = Some m -> exists j, u = MUpdI j m /\ lookup (u, 0) (links b) = Some (MMerge j, 0)) ->
  (forall u og x, lookup (u, og) (links b) = Some x -> mod_exists b u = true) ->
  let b' := create_and_link b i g mac in
  lpm b' = lpm b /\
  (forall u, lookup u (upd b') = if eqb u (MUpdI i mac) then Some mac else lookup u (upd b)) /\
  (forall k, lookup k (links b') =
             if eqb k (MRoutes i, g) then Some (MUpdI i mac, 0)
             else if eqb k (MUpdI i mac, 0) then Some (MMerge i, 0) else lookup k (links b)).
Proof.
  intros Hfree H9 H10. unfold create_and_link, create_upd.
  destruct (lookup (MUpdI i mac) (upd b)) as [m|] eqn:E.
  - (* the module exists already: EEXIST, first link made, second link EBUSY *)
    destruct (H9 _ _ E) as (j & Hj & Hl). injection Hj as <- <-.
    assert (Hex : mod_exists b (MUpdI i mac) = true) by (cbn [mod_exists]; now rewrite E).
    rewrite Hex. rewrite (connect_ok b (MRoutes i) g (MUpdI i mac) 0) by auto.
    rewrite (connect_busy _ (MUpdI i mac) 0 (MMerge i) 0 (MMerge i, 0)).
    2:{ cbn [links]. rewrite lookup_upsert. destruct (eqb_spec (MUpdI i mac, 0) (MRoutes i, g)) as [Hc|_]; [discriminate Hc|exact Hl]. }
    cbn [lpm upd links]. split; [reflexivity|]. split.
    + intros u. eqb_cases; subst; auto.
    + intros k. rewrite lookup_upsert. eqb_cases; subst; auto; congruence.
  - (* a new module: created, both links made *)
    assert (Hex : mod_exists b (MUpdI i mac) = false) by (cbn [mod_exists]; now rewrite E).
    rewrite Hex. set (b2 := Bess (lpm b) (upsert (MUpdI i mac) mac (upd b)) (links b)).
    assert (Hex2 : mod_exists b2 (MUpdI i mac) = true).
    { cbn [mod_exists b2 upd]. rewrite lookup_upsert. destruct (eqb_spec (MUpdI i mac) (MUpdI i mac)); [reflexivity|congruence]. }
    rewrite (connect_ok b2 (MRoutes i) g (MUpdI i mac) 0) by auto.
    rewrite connect_ok; [| exact Hex2 | reflexivity |].
    2:{ cbn [links b2]. rewrite lookup_upsert. destruct (eqb_spec (MUpdI i mac, 0) (MRoutes i, g)) as [Hc|_]; [discriminate Hc|].
        destruct (lookup (MUpdI i mac, 0) (links b)) as [x|] eqn:El; [|reflexivity].
        apply H10 in El. congruence. }
    cbn [lpm upd links b2]. split; [reflexivity|]. split.
    + intros u. rewrite lookup_upsert. reflexivity.
    + intros k. rewrite !lookup_upsert. eqb_cases; subst; auto; congruence.
Qed.

(* ================================================================ 3. the mirror invariant ("good" histories) *)
(* gate g of <iface i>Routes leads to the Update module that writes mac, which feeds <iface i>Merge *)
Definition path (b : bess) (i g mac : N) : Prop :=
  lookup (MRoutes i, g) (links b) = Some (MUpdI i mac, 0) /\
  lookup (MUpdI i mac) (upd b) = Some mac /\
  lookup (MUpdI i mac, 0) (links b) = Some (MMerge i, 0).

(* hp / hn: the prefix / next hop whose clause is suspended between the kernel-side update of an
   event and the end of the handler *)
Record InvH (s : st) (uf : bool) (hp hn : option N) : Prop := {
  iA1 : forall p nh i, lookup p (kern s) = Some (nh, i) -> lookup nh (nhif s) = Some i;
  iA2 : forall nh r, hn <> Some nh -> lookup nh (unres s) = Some r ->
          r_nh r = nh /\ lookup (r_pfx r) (kern s) = Some (nh, r_if r) /\ lookup nh (kneigh s) = None;
  iA3 : forall p nh i, lookup p (kern s) = Some (nh, i) -> lookup nh (kneigh s) = None ->
          lookup nh (unres s) = Some (Route p nh i);
  iA4 : forall nh e, lookup nh (ncache s) = Some e ->
          lookup nh (kneigh s) = Some (n_mac e) /\
          exists i, lookup nh (nhif s) = Some i /\ path (bs s) i (n_gate e) (n_mac e);
  iA5 : forall i p g, lookup (i, p) (lpm (bs s)) = Some g ->
          exists nh e, lookup p (kern s) = Some (nh, i) /\ lookup nh (ncache s) = Some e /\ g = n_gate e;
  iA6 : forall p nh i mac, hp <> Some p -> lookup p (kern s) = Some (nh, i) -> lookup nh (kneigh s) = Some mac ->
          exists e, lookup nh (ncache s) = Some e /\ lookup (i, p) (lpm (bs s)) = Some (n_gate e);
  (* only demanded (uf = true) on histories in which no next hop loses its last route *)
  iA11 : uf = true -> forall nh e, lookup nh (ncache s) = Some e -> exists p i, lookup p (kern s) = Some (nh, i);
  iA12 : uf = true -> forall u mac, lookup u (upd (bs s)) = Some mac ->
           exists nh e i, lookup nh (ncache s) = Some e /\ lookup nh (nhif s) = Some i /\ u = MUpdI i (n_mac e);
  iB : BInv s }.
Definition InvF (uf : bool) (s : st) : Prop := InvH s uf None None.
Definition Inv (s : st) : Prop := InvF false s.

Lemma route_eta r : Route (r_pfx r) (r_nh r) (r_if r) = r.
Proof. destruct r; reflexivity. Qed.

(* ---- automation: saturate the context with the consequences of an invariant *)
Definition Done (P : Prop) : Prop := P.
Ltac learn H :=
  let T0 := type of H in
  let T := eval cbn [r_pfx r_nh r_if n_gate n_mac n_count fst snd] in T0 in
  lazymatch goal with
  | _ : T |- _ => fail
  | _ : Done T |- _ => fail
  | _ => pose proof (H : T)
  end.
Ltac side := solve [discriminate | congruence | assumption].
Ltac sat1 I :=
  match goal with
  | H : lookup ?p (kern _) = Some (?nh, ?i) |- _ => learn (iA1 _ _ _ _ I p nh i H)
  | H : lookup ?nh (unres _) = Some ?r |- _ => learn (iA2 _ _ _ _ I nh r ltac:(side) H)
  | H1 : lookup ?p (kern _) = Some (?nh, ?i), H2 : lookup ?nh (kneigh _) = None |- _ => learn (iA3 _ _ _ _ I p nh i H1 H2)
  | H : lookup ?nh (ncache _) = Some ?e |- _ => learn (iA4 _ _ _ _ I nh e H)
  | H : lookup (?i, ?p) (lpm _) = Some ?g |- _ => learn (iA5 _ _ _ _ I i p g H)
  | H1 : lookup ?p (kern _) = Some (?nh, ?i), H2 : lookup ?nh (kneigh _) = Some ?m |- _ =>
      learn (iA6 _ _ _ _ I p nh i m ltac:(side) H1 H2)
  end.
Ltac open1 :=
  match goal with
  | H : ?A /\ ?B |- _ => let X := fresh in pose proof H as X; change (Done (A /\ B)) in H; destruct X
  | H : @ex ?T ?P |- _ => let X := fresh in pose proof H as X; change (Done (@ex T P)) in H; destruct X
  end.
Ltac rnd I := repeat sat1 I; repeat open1.
Ltac sat I := rnd I; rnd I.
Ltac simp_st :=
  cbn [kern_add set_nc set_bs set_unres cfg_ifs ncache unres gatecnt kneigh kern nhif bs pings lpm upd links lpm_add
       r_pfx r_nh r_if n_gate n_mac n_count fst snd] in *.
Ltac brk := repeat lazymatch goal with |- _ /\ _ => split | |- @ex _ _ => eexists end.
Ltac wit :=
  try match goal with
      | |- exists nh e, lookup ?p ?m = Some (nh, ?i) /\ _ =>
          match goal with H : lookup p m = Some (?x, i) |- _ => exists x end
      end.
Ltac inj :=
  repeat match goal with
         | H : Some _ = Some _ |- _ => injection H; clear H; intros; subst
         | H : (_, _) = (_, _) |- _ => injection H; clear H; intros; subst
         end.
Ltac prj := cbn [n_gate n_mac n_count r_pfx r_nh r_if fst snd] in *.
Ltac g1 :=
  first [ eassumption | reflexivity
        | solve [prj; first [congruence | lia | eauto 4]]
        | solve [maps; eqb_cases; inj; prj; first [reflexivity | congruence | eassumption | lia]] ].
Ltac fin :=
  subst; inj; rewrite ?route_eta; try congruence; try lia;
  try solve [eauto 4];
  try solve [brk; g1].

(* --- NEWROUTE, kernel side *)
Lemma nhif_kern_add s r k v :
  lookup k (nhif s) = Some v -> lookup k (nhif (kern_add s r)) = Some v.
Proof.
  intros H. unfold kern_add. cbn [nhif]. destruct (lookup (r_nh r) (nhif s)) eqn:E; [exact H|].
  maps. eqb_cases; congruence.
Qed.
Lemma nhif_kern_add_nh s r :
  bound_ev s (NewRoute r) = true -> managed s (r_if r) = true ->
  lookup (r_nh r) (nhif (kern_add s r)) = Some (r_if r).
Proof.
  intros Hb M. unfold bound_ev in Hb. rewrite M in Hb. cbn [negb orb] in Hb.
  unfold kern_add. cbn [nhif]. destruct (lookup (r_nh r) (nhif s)) as [i|] eqn:E.
  - eqb_cases; congruence.
  - maps. eqb_cases; congruence.
Qed.

Lemma inv_kern_add_known uf s r mac :
  InvF uf s -> managed s (r_if r) = true -> bound_ev s (NewRoute r) = true ->
  lookup (r_pfx r) (kern s) = None -> lookup (r_nh r) (kneigh s) = Some mac ->
  InvH (kern_add s r) uf (Some (r_pfx r)) None.
Proof.
  intros I M Hb Hfresh Hk. pose proof (nhif_kern_add_nh s r Hb M) as Hnh.
  pose proof (nhif_kern_add s r) as Hext. set (ni := nhif (kern_add s r)) in *.
  constructor; simp_st; fold ni.
  - intros p nh i H. maps. eqb_cases; sat I; fin.
  - intros nh r0 _ H. maps. sat I. eqb_cases; fin.
  - intros p nh i H1 H2. maps. eqb_cases; sat I; fin.
  - intros nh e H. sat I. fin.
  - intros i p g H. sat I. maps. eqb_cases; fin.
  - intros p nh i m Hp H1 H2. maps. eqb_cases; sat I; fin.
  - intros U nh e H. destruct (iA11 _ _ _ _ I U nh e H) as (p0 & i0 & K). exists p0, i0. maps. eqb_cases; congruence.
  - intros U u m H. destruct (iA12 _ _ _ _ I U u m H) as (nh0 & e0 & i0 & A & B & C). exists nh0, e0, i0. brk; auto.
  - exact (iB _ _ _ _ I).
Qed.

Lemma inv_kern_add_pending uf s r :
  InvF uf s -> managed s (r_if r) = true -> bound_ev s (NewRoute r) = true ->
  lookup (r_pfx r) (kern s) = None -> lookup (r_nh r) (kneigh s) = None -> lookup (r_nh r) (unres s) = None ->
  InvF uf (add_new_route_entry (kern_add s r) r).
Proof.
  intros I M Hb Hfresh Hk Hu. pose proof (nhif_kern_add_nh s r Hb M) as Hnh.
  pose proof (nhif_kern_add s r) as Hext.
  unfold add_new_route_entry. change (kneigh (kern_add s r)) with (kneigh s). rewrite Hk.
  set (ni := nhif (kern_add s r)) in *.
  constructor; simp_st; fold ni.
  - intros p nh i H. maps. eqb_cases; sat I; fin.
  - intros nh r0 _ H. maps. eqb_cases; sat I; maps; eqb_cases; fin.
  - intros p nh i H1 H2. maps. eqb_cases; sat I; fin.
  - intros nh e H. sat I. fin.
  - intros i p g H. sat I. maps. eqb_cases; fin.
  - intros p nh i m Hp H1 H2. maps. eqb_cases; sat I; fin.
  - intros U nh e H. destruct (iA11 _ _ _ _ I U nh e H) as (p0 & i0 & K). exists p0, i0. maps. eqb_cases; congruence.
  - intros U u m H. destruct (iA12 _ _ _ _ I U u m H) as (nh0 & e0 & i0 & A & B & C). exists nh0, e0, i0. brk; auto.
  - exact (iB _ _ _ _ I).
Qed.

(* --- _add_neighbor fills the suspended clause of its route *)
Lemma inv_fill uf s r mac hn :
  InvH s uf (Some (r_pfx r)) hn ->
  lookup (r_pfx r) (kern s) = Some (r_nh r, r_if r) -> lookup (r_nh r) (kneigh s) = Some mac ->
  InvH (add_neighbor s r mac) uf None hn.
Proof.
  intros I Hkr Hkn. pose proof (iA1 _ _ _ _ I _ _ _ Hkr) as Hni. destruct (iB _ _ _ _ I) as (B7 & B9 & B10).
  unfold add_neighbor, gate_of. destruct (lookup (r_nh r) (ncache s)) as [e|] eqn:E.
  - (* neighbour known: only the table and the count change *)
    constructor; simp_st.
    + apply (iA1 _ _ _ _ I).
    + apply (iA2 _ _ _ _ I).
    + apply (iA3 _ _ _ _ I).
    + intros nh e' H. maps. eqb_cases; sat I; fin.
    + intros i p g H. maps. eqb_cases; sat I; inj; wit; maps; eqb_cases; fin.
    + intros p nh i m _ H1 H2. destruct (eqb_spec p (r_pfx r)) as [->|Hp].
      * maps. eqb_cases; sat I; fin.
      * sat I. maps. eqb_cases; fin.
    + intros U nh e' H. maps. eqb_cases; [subst; exists (r_pfx r), (r_if r); exact Hkr|]. exact (iA11 _ _ _ _ I U nh e' H).
    + intros U u m H. destruct (iA12 _ _ _ _ I U u m H) as (nh0 & e0 & i0 & A & B & C).
      destruct (eqb_spec nh0 (r_nh r)) as [->|Hne].
      * eexists (r_nh r), _, i0. maps. destruct (eqb_spec (r_nh r) (r_nh r)); [|congruence]. brk; [reflexivity|exact B|]. prj. congruence.
      * exists nh0, e0, i0. maps. destruct (eqb_spec nh0 (r_nh r)); [congruence|]. auto.
    + unfold BInv. simp_st. auto.
  - (* new neighbour: module, links, cache entry, gate counter *)
    set (i := r_if r) in *. set (g := getd i (gatecnt s)) in *.
    assert (Hfree : lookup (MRoutes i, g) (links (bs s)) = None).
    { destruct (lookup (MRoutes i, g) (links (bs s))) as [x|] eqn:El; [|reflexivity]. apply B7 in El. unfold g in El. lia. }
    destruct (create_and_link_spec (lpm_add (bs s) i (r_pfx r) g) i g mac Hfree B9 B10) as (Hl & Hu & Hk).
    set (b' := create_and_link _ i g mac) in *. cbn [lpm_add lpm upd links] in Hl, Hu, Hk.
    constructor; simp_st.
    + apply (iA1 _ _ _ _ I).
    + apply (iA2 _ _ _ _ I).
    + apply (iA3 _ _ _ _ I).
    + intros nh e' H. maps. eqb_cases.
      * inj. prj. split; [exact Hkn|]. exists i. split; [exact Hni|]. unfold path. rewrite !Hk, !Hu. eqb_cases; fin.
      * sat I. split; [assumption|].
        match goal with Hp : path (bs s) ?j _ _ |- _ => exists j; split; [assumption|]; unfold path in *; repeat open1; rewrite !Hk, !Hu; eqb_cases; fin end.
    + intros i0 p g0 H. rewrite Hl in H. maps. eqb_cases; sat I; inj; wit; maps; eqb_cases; fin.
    + intros p nh i0 m _ H1 H2. rewrite Hl. destruct (eqb_spec p (r_pfx r)) as [->|Hp].
      * maps. eqb_cases; sat I; fin.
      * sat I. maps. eqb_cases; fin.
    + intros U nh e' H. maps. eqb_cases; [subst; exists (r_pfx r), (r_if r); exact Hkr|]. exact (iA11 _ _ _ _ I U nh e' H).
    + intros U u m. rewrite Hu. eqb_cases.
      * intros [= <-]. subst u. eexists (r_nh r), _, i. maps. destruct (eqb_spec (r_nh r) (r_nh r)); [|congruence]. brk; [reflexivity|exact Hni|reflexivity].
      * intros H. destruct (iA12 _ _ _ _ I U u m H) as (nh0 & e0 & i0 & A & B & C).
        exists nh0, e0, i0. maps. destruct (eqb_spec nh0 (r_nh r)); [congruence|]. auto.
    + unfold BInv. simp_st. split; [|split].
      * intros i0 g0 x. rewrite Hk, getd_upsert. eqb_cases; inj; try lia; try congruence; intros H; apply B7 in H; subst; unfold g in *; lia.
      * intros u m. rewrite Hu. eqb_cases.
        -- intros [= <-]. subst u. exists i. split; [reflexivity|]. rewrite Hk. eqb_cases; fin.
        -- intros H. destruct (B9 _ _ H) as (j & -> & Hj). exists j. split; [reflexivity|]. rewrite Hk. eqb_cases; fin.
      * intros u og x. rewrite Hk. destruct u; cbn [mod_exists]; auto; rewrite Hu; eqb_cases; inj; try congruence; auto;
          intros H; apply B10 in H; cbn [mod_exists] in H; exact H.
Qed.

(* --- DELROUTE *)
Lemma kern_has_true s r : kern_has s r = true -> lookup (r_pfx r) (kern s) = Some (r_nh r, r_if r).
Proof.
  unfold kern_has. destruct (lookup (r_pfx r) (kern s)) as [x|]; [|discriminate].
  destruct (eqb_spec x (r_nh r, r_if r)); [congruence|discriminate].
Qed.

Lemma delete_shape s r e g :
  lookup (r_nh r) (ncache s) = Some e -> lookup (r_if r, r_pfx r) (lpm (bs s)) = Some g ->
  (forall u mac, lookup u (upd (bs s)) = Some mac -> exists i, u = MUpdI i mac) ->
  delete_route_entry s r =
  set_nc (set_bs s (Bess (remove (r_if r, r_pfx r) (lpm (bs s))) (upd (bs s)) (links (bs s))))
         (upsert (r_nh r) (Neigh (n_gate e) (n_mac e) (n_count e - 1)) (ncache s)).
Proof.
  intros He Hl H9. unfold delete_route_entry, lpm_del. rewrite He, Hl. cbn [n_count].
  destruct (Z.eqb (n_count e - 1) 0); [|reflexivity].
  unfold destroy. cbn [upd].
  destruct (lookup (MUpdR (r_if r) (n_mac e)) (upd (bs s))) as [m|] eqn:E; [|reflexivity].
  destruct (H9 _ _ E) as (j & Hj). discriminate Hj.
Qed.

Lemma keepuser_other s r :
  managed s (r_if r) = true -> keepuser_ev s (DelRoute r) = true ->
  exists p i, p <> r_pfx r /\ lookup p (kern s) = Some (r_nh r, i).
Proof.
  intros M H. cbn [keepuser_ev] in H. rewrite M in H. cbn [negb orb] in H.
  apply existsb_exists in H. destruct H as ([p v] & _ & H). cbn [fst] in H.
  apply andb_true_iff in H. destruct H as (H1 & H2).
  destruct (lookup p (kern s)) as [[nh i]|] eqn:E; [|discriminate].
  exists p, i. eqb_cases; try discriminate. subst. auto.
Qed.

Lemma inv_delete uf s r :
  InvF uf s -> kern_has s r = true -> is_some (lookup (r_nh r) (kneigh s)) = true ->
  (uf = true -> exists p i, p <> r_pfx r /\ lookup p (kern s) = Some (r_nh r, i)) ->
  InvF uf (delete_route_entry (kern_del s r) r).
Proof.
  intros I Hh Hk Hkeep. pose proof (kern_has_true _ _ Hh) as Hkr.
  destruct (lookup (r_nh r) (kneigh s)) as [mac|] eqn:Ekn; [|discriminate]. clear Hk.
  destruct (iA6 _ _ _ _ I _ _ _ _ ltac:(discriminate) Hkr Ekn) as (e & He & Hl).
  destruct (iB _ _ _ _ I) as (B7 & B9 & B10).
  unfold kern_del. rewrite Hh.
  rewrite (delete_shape _ r e (n_gate e)); simp_st; auto.
  2:{ intros u m H. destruct (B9 _ _ H) as (j & Hj & _). eauto. }
  constructor; simp_st.
  - intros p nh i H. maps. eqb_cases; sat I; fin.
  - intros nh r0 _ H. sat I. maps. eqb_cases; fin.
  - intros p nh i H1 H2. maps. eqb_cases; sat I; fin.
  - intros nh e' H. unfold path. simp_st. maps. eqb_cases; sat I; unfold path in *; fin.
  - intros i p g H. maps. eqb_cases; sat I; inj; wit; maps; eqb_cases; fin.
  - intros p nh i m _ H1 H2. maps. eqb_cases; sat I; fin.
  - intros U nh e' H. maps. eqb_cases.
    + destruct (Hkeep U) as (p0 & i0 & Hp0 & K). exists p0, i0. maps. eqb_cases; congruence.
    + destruct (iA11 _ _ _ _ I U nh e' H) as (p0 & i0 & K). exists p0, i0. maps. eqb_cases; [|exact K].
      congruence.
  - intros U u m H. destruct (iA12 _ _ _ _ I U u m H) as (nh0 & e0 & i0 & A & B & C).
    destruct (eqb_spec nh0 (r_nh r)) as [->|Hne].
    + eexists (r_nh r), _, i0. maps. destruct (eqb_spec (r_nh r) (r_nh r)); [|congruence]. brk; [reflexivity|exact B|]. prj. congruence.
    + exists nh0, e0, i0. maps. destruct (eqb_spec nh0 (r_nh r)); [congruence|]. auto.
  - unfold BInv. simp_st. auto.
Qed.

(* --- NEWNEIGH *)
Lemma inv_newneigh uf s nh mac :
  InvF uf s -> wf_ev s (NewNeigh nh mac) = true -> InvF uf (new_neigh s nh mac).
Proof.
  intros I Hw. cbn [wf_ev] in Hw. unfold new_neigh.
  set (s1 := St (cfg_ifs s) (ncache s) (unres s) (gatecnt s) (upsert nh mac (kneigh s)) (kern s) (nhif s) (bs s) (pings s)).
  change (unres s1) with (unres s).
  destruct (lookup nh (unres s)) as [r|] eqn:Eu.
  - (* a route was waiting for this next hop *)
    destruct (iA2 _ _ _ _ I nh r ltac:(discriminate) Eu) as (Hnh & Hkr & Hkn).
    assert (I1 : InvH s1 uf (Some (r_pfx r)) (Some nh)).
    { unfold s1. constructor; simp_st.
      - apply (iA1 _ _ _ _ I).
      - intros nh0 r0 Hne H. maps. eqb_cases; subst; sat I; fin.
      - intros p nh0 i H1 H2. maps. eqb_cases; subst; sat I; fin.
      - intros nh0 e H. maps. eqb_cases; subst; sat I; fin.
      - apply (iA5 _ _ _ _ I).
      - intros p nh0 i m Hp H1 H2. maps. eqb_cases; subst; sat I; fin.
      - apply (iA11 _ _ _ _ I).
      - apply (iA12 _ _ _ _ I).
      - exact (iB _ _ _ _ I). }
    assert (I2 : InvH (add_neighbor s1 r mac) uf None (Some nh)).
    { apply inv_fill; [exact I1| |]; unfold s1; simp_st; [congruence|]. maps. rewrite Hnh. eqb_cases; congruence. }
    set (s2 := add_neighbor s1 r mac) in *.
    assert (Hsame : unres s2 = unres s /\ kern s2 = kern s /\ kneigh s2 = upsert nh mac (kneigh s)).
    { unfold s2, add_neighbor. destruct (lookup (r_nh r) (ncache s1)); auto. }
    destruct Hsame as (Hu2 & Hk2 & Hn2).
    constructor; simp_st.
    + apply (iA1 _ _ _ _ I2).
    + intros nh0 r0 _ H. rewrite Hnh in H. maps. eqb_cases; [discriminate|].
      apply (iA2 _ _ _ _ I2 nh0 r0); [congruence|exact H].
    + intros p nh0 i H1 H2. rewrite Hnh. maps.
      pose proof (iA3 _ _ _ _ I2 _ _ _ H1 H2) as H3. rewrite Hn2 in H2. maps. eqb_cases; fin.
    + apply (iA4 _ _ _ _ I2).
    + apply (iA5 _ _ _ _ I2).
    + apply (iA6 _ _ _ _ I2).
    + apply (iA11 _ _ _ _ I2).
    + apply (iA12 _ _ _ _ I2).
    + exact (iB _ _ _ _ I2).
  - (* nothing was waiting *)
    unfold s1. constructor; simp_st.
    + apply (iA1 _ _ _ _ I).
    + intros nh0 r0 _ H. maps. eqb_cases; subst; sat I; fin.
    + intros p nh0 i H1 H2. maps. eqb_cases; subst; sat I; fin.
    + intros nh0 e H. maps. eqb_cases; subst; sat I; fin.
      match goal with H1 : lookup nh (kneigh s) = Some _ |- _ => rewrite H1 in Hw end.
      apply N.eqb_eq in Hw. subst. fin.
    + apply (iA5 _ _ _ _ I).
    + intros p nh0 i m _ H1 H2. maps. eqb_cases; subst.
      * destruct (lookup nh (kneigh s)) as [m'|] eqn:Ek; sat I; fin.
      * sat I; fin.
    + apply (iA11 _ _ _ _ I).
    + apply (iA12 _ _ _ _ I).
    + exact (iB _ _ _ _ I).
Qed.

(* --- one step, whole histories *)
Lemma good_ev_parts s ev :
  good_ev s ev = true ->
  wf_ev s ev = true /\ bound_ev s ev = true /\ onepending_ev s ev = true /\ nodelpending_ev s ev = true.
Proof. unfold good_ev. rewrite !andb_true_iff. tauto. Qed.

Lemma is_none_true {A} (o : option A) : is_none o = true -> o = None.
Proof. destruct o; [discriminate|reflexivity]. Qed.

Lemma inv_step uf s ev :
  InvF uf s -> good_ev s ev = true -> (uf = true -> keepuser_ev s ev = true) -> InvF uf (step s ev).
Proof.
  intros I Hg Hkeep. destruct (good_ev_parts _ _ Hg) as (Hw & Hb & Ho & Hd).
  destruct ev as [r|r|nh mac|]; cbn [step].
  - destruct (managed s (r_if r)) eqn:M; [|exact I].
    cbn [wf_ev onepending_ev] in Hw, Ho. rewrite M in Hw, Ho. cbn [negb orb] in Hw, Ho.
    apply is_none_true in Hw.
    destruct (lookup (r_nh r) (kneigh s)) as [mac|] eqn:Ek.
    + unfold add_new_route_entry. change (kneigh (kern_add s r)) with (kneigh s). rewrite Ek.
      apply inv_fill.
      * eapply inv_kern_add_known; eauto.
      * unfold kern_add. cbn [kern]. rewrite lookup_upsert. destruct (eqb_spec (r_pfx r) (r_pfx r)); congruence.
      * exact Ek.
    + cbn [is_some is_none negb orb] in Ho. apply is_none_true in Ho.
      apply inv_kern_add_pending; assumption.
  - destruct (managed s (r_if r)) eqn:M; [|exact I].
    cbn [wf_ev nodelpending_ev] in Hw, Hd. rewrite M in Hw, Hd. cbn [negb orb] in Hw, Hd.
    apply inv_delete; try assumption.
    intros U. apply keepuser_other; auto.
  - apply inv_newneigh; assumption.
  - exact I.
Qed.

Lemma inv_init uf ifs : InvF uf (init ifs).
Proof.
  constructor; cbn; try (intros; discriminate).
  unfold BInv. cbn. split; [|split]; intros; discriminate.
Qed.

Lemma good_bound s h : run_ok good_ev s h = true -> run_ok bound_ev s h = true.
Proof.
  revert s. induction h as [|ev h IH]; intros s H; cbn in *; [reflexivity|].
  apply andb_true_iff in H. destruct H as (H1 & H2). apply good_ev_parts in H1.
  rewrite IH by assumption. destruct H1 as (_ & -> & _). reflexivity.
Qed.
Lemma goodu_good s h : run_ok goodu_ev s h = true -> run_ok good_ev s h = true.
Proof.
  revert s. induction h as [|ev h IH]; intros s H; cbn in *; [reflexivity|].
  apply andb_true_iff in H. destruct H as (H1 & H2). unfold goodu_ev in H1. apply andb_true_iff in H1.
  rewrite IH by assumption. destruct H1 as (-> & _). reflexivity.
Qed.

Lemma inv_run h : forall s, Inv s -> run_ok good_ev s h = true -> Inv (run s h).
Proof.
  induction h as [|ev h IH]; intros s I Hok; cbn in *; [exact I|].
  apply andb_true_iff in Hok. destruct Hok as (H1 & H2).
  apply IH; [apply inv_step; [assumption|assumption|discriminate]|exact H2].
Qed.
Lemma invu_run h : forall s, InvF true s -> run_ok goodu_ev s h = true -> InvF true (run s h).
Proof.
  induction h as [|ev h IH]; intros s I Hok; cbn in *; [exact I|].
  apply andb_true_iff in Hok. destruct Hok as (H1 & H2). unfold goodu_ev in H1. apply andb_true_iff in H1.
  destruct H1 as (Ha & Hb). apply IH; [apply inv_step; auto|exact H2].
Qed.
Lemma invf_weaken s : InvF true s -> Inv s.
Proof.
  intros I. constructor; try apply I; intros; discriminate.
Qed.

(* ================================================================ 4. the statements of C20 on a state *)
(* installed in the interface's lookup module  <->  the kernel has it and the next hop's MAC is known *)
Definition mirror (s : st) : Prop :=
  forall i p, (exists g, lookup (i, p) (lpm (bs s)) = Some g) <->
              (exists nh mac, lookup p (kern s) = Some (nh, i) /\ lookup nh (kneigh s) = Some mac).
(* every installed kernel route through nh uses THE gate of nh, and that gate leads to THE Update
   module writing nh's MAC, which feeds the interface's Merge *)
Definition routes_share (s : st) : Prop :=
  forall p nh i g, lookup p (kern s) = Some (nh, i) -> lookup (i, p) (lpm (bs s)) = Some g ->
    exists e, lookup nh (ncache s) = Some e /\ g = n_gate e /\
              lookup nh (kneigh s) = Some (n_mac e) /\ path (bs s) i g (n_mac e).
(* installed routes of two different next hops on one interface use different gates *)
Definition obs_gates_distinct (s : st) : Prop :=
  forall p1 p2 nh1 nh2 i g1 g2, nh1 <> nh2 ->
    lookup p1 (kern s) = Some (nh1, i) -> lookup p2 (kern s) = Some (nh2, i) ->
    lookup (i, p1) (lpm (bs s)) = Some g1 -> lookup (i, p2) (lpm (bs s)) = Some g2 -> g1 <> g2.
(* a run-time (Update) module exists only while an installed kernel route is forwarded to it *)
Definition update_used (s : st) : Prop :=
  forall u mac, lookup u (upd (bs s)) = Some mac ->
    exists p nh i g, lookup p (kern s) = Some (nh, i) /\ lookup (i, p) (lpm (bs s)) = Some g /\
                     lookup (MRoutes i, g) (links (bs s)) = Some (u, 0).

Lemma inv_mirror s : Inv s -> mirror s.
Proof.
  intros I i p. split.
  - intros (g & Hg). sat I. fin.
  - intros (nh & mac & H1 & H2). sat I. fin.
Qed.

Lemma inv_routes_share s : Inv s -> routes_share s.
Proof.
  intros I p nh i g H1 H2. sat I.
  match goal with
  | H5 : lookup p (kern s) = Some (?x, i), H7 : lookup ?x (ncache s) = Some ?e, Hp : path (bs s) ?j _ _ |- _ =>
      assert (x = nh) by congruence; assert (j = i) by congruence; subst; exists e; brk; auto
  end.
Qed.

Lemma inv_obs_gates s : Inv s -> GInv s -> obs_gates_distinct s.
Proof.
  intros I (G1 & G2 & G3) p1 p2 nh1 nh2 i g1 g2 Hne K1 K2 L1 L2.
  destruct (inv_routes_share s I _ _ _ _ K1 L1) as (e1 & N1 & -> & _).
  destruct (inv_routes_share s I _ _ _ _ K2 L2) as (e2 & N2 & -> & _).
  apply (G2 nh1 nh2 e1 e2 i); auto.
  - exact (iA1 _ _ _ _ I _ _ _ K1).
  - exact (iA1 _ _ _ _ I _ _ _ K2).
Qed.

Lemma invu_update_used s : InvF true s -> update_used s.
Proof.
  intros I u mac Hu.
  destruct (iA12 _ _ _ _ I eq_refl u mac Hu) as (nh & e & i & Hn & Hi & ->).
  destruct (iA11 _ _ _ _ I eq_refl nh e Hn) as (p & i' & K).
  pose proof (iA1 _ _ _ _ I _ _ _ K) as Hi'. assert (i' = i) by congruence. subst i'.
  destruct (iA4 _ _ _ _ I _ _ Hn) as (Hk & j & Hj & Hp & _). assert (j = i) by congruence. subst j.
  destruct (iA6 _ _ _ _ I _ _ _ _ ltac:(discriminate) K Hk) as (e' & Hn' & Hl).
  assert (e' = e) by congruence. subst e'.
  exists p, nh, i, (n_gate e). auto.
Qed.

(* ================================================================ 5. theorems over all histories *)
Theorem mirror_good ifs h : run_ok good_ev (init ifs) h = true -> mirror (run (init ifs) h).
Proof. intros H. apply inv_mirror, inv_run; [apply inv_init|exact H]. Qed.

Theorem routes_share_good ifs h : run_ok good_ev (init ifs) h = true -> routes_share (run (init ifs) h).
Proof. intros H. apply inv_routes_share, inv_run; [apply inv_init|exact H]. Qed.

Theorem obs_gates_good ifs h : run_ok good_ev (init ifs) h = true -> obs_gates_distinct (run (init ifs) h).
Proof.
  intros H. apply inv_obs_gates; [apply inv_run; [apply inv_init|exact H]|].
  apply ginv_run; [apply ginv_init|apply good_bound; exact H].
Qed.

Theorem update_used_goodu ifs h : run_ok goodu_ev (init ifs) h = true -> update_used (run (init ifs) h).
Proof. intros H. apply invu_update_used, invu_run; [apply inv_init|exact H]. Qed.

(* the rewrite module of a gate in use exists (converse of update_used), on every good history *)
Theorem used_update_exists ifs h :
  run_ok good_ev (init ifs) h = true ->
  forall p nh i g, lookup p (kern (run (init ifs) h)) = Some (nh, i) ->
    lookup (i, p) (lpm (bs (run (init ifs) h))) = Some g ->
    exists u mac, lookup (MRoutes i, g) (links (bs (run (init ifs) h))) = Some (u, 0) /\
                  lookup u (upd (bs (run (init ifs) h))) = Some mac /\
                  lookup nh (kneigh (run (init ifs) h)) = Some mac.
Proof.
  intros H p nh i g K L. destruct (routes_share_good ifs h H p nh i g K L) as (e & _ & _ & Hk & (P1 & P2 & _)).
  eauto.
Qed.

(* the unchanged code never removes an Update module: destroy is always asked for a name that
   was never created (MUpdR), whatever the history *)
Definition no_updr (s : st) : Prop := forall i mac, lookup (MUpdR i mac) (upd (bs s)) = None.

Lemma connect_upd b src og dst ig b' : connect b src og dst ig = Some b' -> upd b' = upd b.
Proof.
  unfold connect. destruct (_ && _); [|discriminate].
  destruct (lookup (src, og) (links b)); [discriminate|]. intros [= <-]. reflexivity.
Qed.

Lemma create_and_link_upd b i g mac u :
  lookup u (upd (create_and_link b i g mac)) =
  if mod_exists b (MUpdI i mac) then lookup u (upd b)
  else if eqb u (MUpdI i mac) then Some mac else lookup u (upd b).
Proof.
  unfold create_and_link, create_upd.
  destruct (mod_exists b (MUpdI i mac)) eqn:E.
  - destruct (connect b (MRoutes i) g (MUpdI i mac) 0) as [b1|] eqn:C1; [|reflexivity].
    destruct (connect b1 (MUpdI i mac) 0 (MMerge i) 0) as [b2|] eqn:C2.
    + now rewrite (connect_upd _ _ _ _ _ _ C2), (connect_upd _ _ _ _ _ _ C1).
    + now rewrite (connect_upd _ _ _ _ _ _ C1).
  - set (b0 := Bess _ _ _).
    assert (H0 : lookup u (upd b0) = if eqb u (MUpdI i mac) then Some mac else lookup u (upd b)).
    { unfold b0. cbn [upd]. apply lookup_upsert. }
    destruct (connect b0 (MRoutes i) g (MUpdI i mac) 0) as [b1|] eqn:C1; [|exact H0].
    destruct (connect b1 (MUpdI i mac) 0 (MMerge i) 0) as [b2|] eqn:C2.
    + now rewrite (connect_upd _ _ _ _ _ _ C2), (connect_upd _ _ _ _ _ _ C1).
    + now rewrite (connect_upd _ _ _ _ _ _ C1).
Qed.

Lemma no_updr_nn s r mac : no_updr s -> no_updr (add_neighbor s r mac).
Proof.
  intros Hn i0 m0. unfold add_neighbor. destruct (lookup (r_nh r) (ncache s)); cbn [bs]; [apply Hn|].
  rewrite create_and_link_upd. cbn [lpm_add upd mod_exists].
  destruct (match lookup (MUpdI (r_if r) mac) (upd (bs s)) with Some _ => true | None => false end); [apply Hn|].
  destruct (eqb_spec (MUpdR i0 m0) (MUpdI (r_if r) mac)); [discriminate|apply Hn].
Qed.

Lemma add_neighbor_upd s r mac u m :
  no_updr s -> lookup u (upd (bs s)) = Some m ->
  lookup u (upd (bs (add_neighbor s r mac))) = Some m /\ no_updr (add_neighbor s r mac).
Proof.
  intros Hn Hu. split; [|apply no_updr_nn; exact Hn].
  unfold add_neighbor. destruct (lookup (r_nh r) (ncache s)); cbn [bs]; [exact Hu|].
  rewrite create_and_link_upd. cbn [lpm_add upd mod_exists].
  destruct (lookup (MUpdI (r_if r) mac) (upd (bs s))) eqn:E; [exact Hu|].
  destruct (eqb_spec u (MUpdI (r_if r) mac)); [subst; congruence|exact Hu].
Qed.

Lemma delete_upd s r : no_updr s -> upd (bs (delete_route_entry s r)) = upd (bs s).
Proof.
  intros Hn. unfold delete_route_entry. destruct (lookup (r_nh r) (ncache s)) as [e|]; [|reflexivity].
  unfold lpm_del. destruct (lookup (r_if r, r_pfx r) (lpm (bs s))); [|reflexivity].
  destruct (Z.eqb _ 0); [|reflexivity].
  unfold destroy. cbn [upd]. rewrite (Hn (r_if r) (n_mac e)). reflexivity.
Qed.

Lemma step_upd s ev u m :
  no_updr s -> lookup u (upd (bs s)) = Some m ->
  lookup u (upd (bs (step s ev))) = Some m /\ no_updr (step s ev).
Proof.
  intros Hn Hu. destruct ev as [r|r|nh mac|]; cbn [step].
  - destruct (managed s (r_if r)); [|auto]. unfold add_new_route_entry.
    change (kneigh (kern_add s r)) with (kneigh s).
    destruct (lookup (r_nh r) (kneigh s)) as [mac|].
    + apply add_neighbor_upd; auto.
    + auto.
  - destruct (managed s (r_if r)); [|auto].
    assert (Hk : bs (kern_del s r) = bs s) by (unfold kern_del; destruct (kern_has s r); reflexivity).
    assert (Hn' : no_updr (kern_del s r)) by (unfold no_updr; rewrite Hk; exact Hn).
    split.
    + rewrite delete_upd by exact Hn'. rewrite Hk. exact Hu.
    + unfold no_updr. rewrite delete_upd by exact Hn'. rewrite Hk. exact Hn.
  - unfold new_neigh. set (s1 := St _ _ _ _ (upsert nh mac (kneigh s)) _ _ _ _).
    change (unres s1) with (unres s). destruct (lookup nh (unres s)) as [r|]; [|auto].
    change (bs (set_unres ?x ?y)) with (bs x). unfold no_updr. cbn [set_unres bs].
    apply (add_neighbor_upd s1 r mac u m); auto.
  - auto.
Qed.

(* once created, an Update module stays for ever - on EVERY history *)
Theorem update_modules_never_removed ifs h1 h2 u m :
  lookup u (upd (bs (run (init ifs) h1))) = Some m ->
  lookup u (upd (bs (run (init ifs) (h1 ++ h2)))) = Some m.
Proof.
  unfold run. rewrite fold_left_app. fold (run (init ifs) h1).
  assert (Hn : no_updr (run (init ifs) h1)).
  { unfold run. generalize (init ifs) (fun i m => eq_refl : lookup (MUpdR i m) (upd (bs (init ifs))) = None).
    induction h1 as [|ev h IH]; intros s Hs; cbn; [exact Hs|].
    apply IH. intros i0 m0.
    destruct ev as [r|r|nh mac|]; cbn [step].
    - destruct (managed s (r_if r)); [|apply Hs]. unfold add_new_route_entry.
      change (kneigh (kern_add s r)) with (kneigh s).
      destruct (lookup (r_nh r) (kneigh s)); [apply no_updr_nn; exact Hs|apply Hs].
    - destruct (managed s (r_if r)); [|apply Hs].
      assert (Hk : bs (kern_del s r) = bs s) by (unfold kern_del; destruct (kern_has s r); reflexivity).
      rewrite delete_upd; [rewrite Hk; apply Hs|unfold no_updr; rewrite Hk; exact Hs].
    - unfold new_neigh. set (s1 := St _ _ _ _ (upsert nh mac (kneigh s)) _ _ _ _).
      change (unres s1) with (unres s). destruct (lookup nh (unres s)); [|apply Hs].
      cbn [set_unres bs]. apply (no_updr_nn s1); exact Hs.
    - apply Hs. }
  generalize (run (init ifs) h1) Hn. clear Hn.
  induction h2 as [|ev h IH]; intros s Hn Hu; cbn; [exact Hu|].
  destruct (step_upd s ev u m Hn Hu) as (H1 & H2). apply IH; assumption.
Qed.

(* ================================================================ 6. the refuting histories (F29a, F29b, F29c, F40) *)
(* every guard except one *)
Definition but_onepending (s : st) (ev : event) : bool :=
  wf_ev s ev && bound_ev s ev && nodelpending_ev s ev && keepuser_ev s ev.
(* (a route deleted while pending is necessarily the only route of its next hop, so keepuser is moot) *)
Definition but_nodelpending (s : st) (ev : event) : bool :=
  wf_ev s ev && bound_ev s ev && onepending_ev s ev.
Definition but_bound (s : st) (ev : event) : bool :=
  wf_ev s ev && onepending_ev s ev && nodelpending_ev s ev && keepuser_ev s ev.

(* F29a: two routes wait for next hop 1; the second overwrites the first; only the second is installed *)
Definition h_overwritten : list event :=
  [NewRoute (Route 0 1 0); NewRoute (Route 1 1 0); NewNeigh 1 101].
Lemma mirror_refuted_overwritten :
  exists ifs h, run_ok but_onepending (init ifs) h = true /\ ~ mirror (run (init ifs) h).
Proof.
  exists [0], h_overwritten. split; [vm_compute; reflexivity|].
  intros M. destruct (proj2 (M 0 0)) as (g & Hg).
  - exists 1, 101. split; vm_compute; reflexivity.
  - vm_compute in Hg. discriminate.
Qed.

(* F29b: a route is deleted while its next hop is unresolved; it is installed when the neighbour appears *)
Definition h_deleted_pending : list event :=
  [NewRoute (Route 0 1 0); DelRoute (Route 0 1 0); NewNeigh 1 101].
Lemma mirror_refuted_deleted_pending :
  exists ifs h, run_ok but_nodelpending (init ifs) h = true /\ ~ mirror (run (init ifs) h).
Proof.
  exists [0], h_deleted_pending. split; [vm_compute; reflexivity|].
  intros M. destruct (proj1 (M 0 0)) as (nh & mac & Hk & _).
  - exists 0. vm_compute. reflexivity.
  - vm_compute in Hk. discriminate.
Qed.

(* F29b, second face: the stale route is installed OVER the live route of another next hop, which
   then shares next hop 1's gate and rewrite module *)
Definition h_stale_over_live : list event :=
  [NewRoute (Route 0 1 0); DelRoute (Route 0 1 0); NewNeigh 2 102; NewRoute (Route 0 2 0); NewNeigh 1 101;
   NewRoute (Route 1 1 0)].
Lemma shared_gate_refuted_stale :
  exists ifs h, run_ok but_nodelpending (init ifs) h = true /\
                ~ routes_share (run (init ifs) h) /\ ~ obs_gates_distinct (run (init ifs) h).
Proof.
  exists [0], h_stale_over_live. split; [vm_compute; reflexivity|]. split.
  - intros R. destruct (R 0 2 0 1) as (e & He & Hg & Hk & _); try (vm_compute; reflexivity).
    vm_compute in He. injection He as <-. vm_compute in Hg. discriminate.
  - intros D. apply (D 0 1 2 1 0 1 1); try (vm_compute; reflexivity). discriminate.
Qed.

(* F29c: the last route of a next hop goes; the module created as <iface>DstMAC.. stays because
   <iface>RoutesDstMAC.. is what delete_route_entry asks BESS to destroy *)
Definition h_leak : list event := [NewNeigh 1 101; NewRoute (Route 0 1 0); DelRoute (Route 0 1 0)].
Lemma update_used_refuted :
  exists ifs h, run_ok good_ev (init ifs) h = true /\ ~ update_used (run (init ifs) h).
Proof.
  exists [0], h_leak. split; [vm_compute; reflexivity|].
  intros U. destruct (U (MUpdI 0 101) 101) as (p & nh & i & g & _ & Hl & _); [vm_compute; reflexivity|].
  vm_compute in Hl. discriminate.
Qed.

(* F40: one next hop reached over two interfaces: the cache is keyed by the address alone, so the
   second interface's table uses the first interface's gate number, which there belongs to
   another next hop *)
Definition h_two_ifaces : list event :=
  [NewNeigh 1 101; NewNeigh 2 102; NewRoute (Route 0 1 0); NewRoute (Route 1 2 1); NewRoute (Route 2 1 1)].
Lemma shared_gate_refuted_two_ifaces :
  exists ifs h, run_ok but_bound (init ifs) h = true /\
                ~ routes_share (run (init ifs) h) /\ ~ obs_gates_distinct (run (init ifs) h).
Proof.
  exists [0; 1], h_two_ifaces. split; [vm_compute; reflexivity|]. split.
  - intros R. destruct (R 2 1 1 0) as (e & He & _ & _ & (P1 & _)); try (vm_compute; reflexivity).
    vm_compute in He. injection He as <-. vm_compute in P1. discriminate.
  - intros D. apply (D 1 2 2 1 1 0 0); try (vm_compute; reflexivity). discriminate.
Qed.

(* non-vacuity: guarded histories that install, share, re-use and delete *)
Definition h_good : list event :=
  [NewRoute (Route 0 1 0); NewNeigh 1 101; NewNeigh 2 102; NewRoute (Route 1 1 0); NewRoute (Route 2 2 0);
   NewNeigh 4 104; NewRoute (Route 3 4 1); Noise; DelRoute (Route 0 1 0); NewRoute (Route 4 3 0); NewNeigh 3 103;
   NewRoute (Route 0 3 0); DelRoute (Route 4 3 0); NewRoute (Route 5 1 7)].
