(* Lemmas about the comment stripper and the token lexer of Model/Jsonc.v. *)
From Coq Require Import Ascii String List Bool Arith Lia.
From UPF Require Import Model.Jsonc.
Import ListNotations.
Open Scope char_scope.
Open Scope list_scope.

(* ---------------------------------------------------------------- fuel independence, equations *)

Lemma skip_line_len s : length (skip_line s) <= length s.
Proof.
  induction s as [|c r IH]; cbn; [lia|]. destruct (Ascii.eqb c nl); cbn; lia.
Qed.

Lemma find_close_len : forall s r, find_close s = Some r -> length r < length s.
Proof.
  induction s as [|c s IH]; intros r H; cbn in H; [discriminate|].
  destruct (Ascii.eqb c nl); [discriminate|].
  destruct s as [|d s']; [discriminate|].
  destruct (Ascii.eqb c star && Ascii.eqb d slash).
  - injection H as <-. cbn. lia.
  - apply IH in H. cbn in *. lia.
Qed.

Lemma strip_fuel_irrel : forall n m s, length s < n -> length s < m -> strip_fuel n s = strip_fuel m s.
Proof.
  induction n as [|n IH]; intros m s Hn Hm; [lia|].
  destruct m as [|m]; [lia|].
  destruct s as [|c r]; [reflexivity|]. cbn [strip_fuel]. cbn [length] in Hn, Hm.
  destruct (Ascii.eqb c slash).
  - destruct r as [|d r']; [reflexivity|]. cbn [length] in Hn, Hm.
    destruct (Ascii.eqb d slash).
    + pose proof (skip_line_len r'). apply IH; lia.
    + destruct (Ascii.eqb d star).
      * destruct (find_close r') as [rest|] eqn:E.
        -- apply find_close_len in E. apply IH; lia.
        -- f_equal. apply IH; cbn [length]; lia.
      * f_equal. apply IH; cbn [length]; lia.
  - f_equal. apply IH; lia.
Qed.

Lemma strip_fuel_S n s : strip_fuel (S n) s =
  match s with
  | [] => []
  | c :: r =>
    if Ascii.eqb c slash then
      match r with
      | d :: r' =>
        if Ascii.eqb d slash then strip_fuel n (skip_line r')
        else if Ascii.eqb d star then
          match find_close r' with
          | Some rest => strip_fuel n rest
          | None => c :: strip_fuel n r
          end
        else c :: strip_fuel n r
      | [] => [c]
      end
    else c :: strip_fuel n r
  end.
Proof. reflexivity. Qed.

Lemma strip_unfold s n : length s < n -> strip_fuel n s = strip s.
Proof. intros H. unfold strip. apply strip_fuel_irrel; lia. Qed.

Lemma strip_nil : strip [] = [].
Proof. reflexivity. Qed.

Ltac open_strip := unfold strip at 1; rewrite strip_fuel_S; cbv iota beta.

Lemma strip_other c r : Ascii.eqb c slash = false -> strip (c :: r) = c :: strip r.
Proof.
  intros H. open_strip. rewrite H. reflexivity.
Qed.

Lemma strip_slash_last : strip [slash] = [slash].
Proof. reflexivity. Qed.

Lemma strip_slash_other d r : Ascii.eqb d slash = false -> Ascii.eqb d star = false ->
  strip (slash :: d :: r) = slash :: strip (d :: r).
Proof.
  intros H1 H2. open_strip. rewrite H1, H2.
  change (Ascii.eqb slash slash) with true. cbv iota. reflexivity.
Qed.

Lemma strip_line r : strip (slash :: slash :: r) = strip (skip_line r).
Proof.
  open_strip. change (Ascii.eqb slash slash) with true. cbv iota.
  apply strip_unfold. pose proof (skip_line_len r). cbn [length]. lia.
Qed.

Lemma strip_block_closed r rest : find_close r = Some rest -> strip (slash :: star :: r) = strip rest.
Proof.
  intros H. open_strip. change (Ascii.eqb slash slash) with true.
  change (Ascii.eqb star slash) with false. change (Ascii.eqb star star) with true. cbv iota.
  rewrite H. apply strip_unfold. apply find_close_len in H. cbn [length]. lia.
Qed.

Lemma strip_block_open r : find_close r = None -> strip (slash :: star :: r) = slash :: strip (star :: r).
Proof.
  intros H. open_strip. change (Ascii.eqb slash slash) with true.
  change (Ascii.eqb star slash) with false. change (Ascii.eqb star star) with true. cbv iota.
  rewrite H. reflexivity.
Qed.

(* ---------------------------------------------------------------- safe text passes unchanged *)

Lemma strip_safe_app : forall t s, safe t = true -> strip (t ++ s) = t ++ strip s.
Proof.
  induction t as [|c r IH]; intros s H; [reflexivity|].
  cbn [safe] in H. cbn [app].
  destruct (Ascii.eqb c slash) eqn:Ec.
  - apply Ascii.eqb_eq in Ec. subst c.
    destruct r as [|d r']; [discriminate|].
    apply andb_prop in H. destruct H as [H Hs]. apply andb_prop in H. destruct H as [H1 H2].
    apply negb_true_iff in H1. apply negb_true_iff in H2.
    cbn [app]. rewrite strip_slash_other by assumption. f_equal. exact (IH s Hs).
  - rewrite strip_other by assumption. f_equal. apply IH. exact H.
Qed.

(* ---------------------------------------------------------------- comments disappear *)

Lemma skip_line_app : forall b s, no_nl b = true -> skip_line (b ++ nl :: s) = nl :: s.
Proof.
  induction b as [|c r IH]; intros s H; cbn.
  - reflexivity.
  - cbn in H. apply andb_prop in H. destruct H as [H1 H2]. apply negb_true_iff in H1. rewrite H1.
    apply IH. exact H2.
Qed.

Lemma find_close_app : forall b s, no_nl b = true -> has_close b = false ->
  find_close (b ++ star :: slash :: s) = Some s.
Proof.
  induction b as [|c r IH]; intros s Hn Hc.
  - reflexivity.
  - cbn in Hn. apply andb_prop in Hn. destruct Hn as [H1 H2]. apply negb_true_iff in H1.
    cbn [app find_close]. rewrite H1.
    destruct r as [|d r'].
    + cbn [app]. change (Ascii.eqb star slash) with false. rewrite andb_false_r.
      reflexivity.
    + cbn [app]. cbn [has_close] in Hc. apply orb_false_iff in Hc. destruct Hc as [Hc1 Hc2].
      rewrite Hc1. exact (IH s H2 Hc2).
Qed.

Lemma strip_item i s : item_ok i = true -> strip (item_bytes i ++ s) = item_blank i ++ strip s.
Proof.
  destruct i as [c|b|b]; cbn [item_ok item_bytes item_blank]; intros H.
  - cbn [app]. apply strip_other. unfold is_ws in H.
    destruct (Ascii.eqb_spec c slash) as [->|]; [discriminate H|reflexivity].
  - cbn [app]. rewrite strip_line. rewrite <- app_assoc. cbn [app]. rewrite skip_line_app by exact H.
    apply strip_other. reflexivity.
  - apply andb_prop in H. destruct H as [H1 H2]. apply negb_true_iff in H2.
    cbn [app]. rewrite <- app_assoc. cbn [app].
    apply strip_block_closed. apply find_close_app; assumption.
Qed.

Definition gap_ok (g : gap) : Prop := Forall (fun i => item_ok i = true) g.

Lemma strip_gap : forall g s, gap_ok g -> strip (gap_bytes g ++ s) = gap_blank g ++ strip s.
Proof.
  induction g as [|i g IH]; intros s H; [reflexivity|].
  inversion H as [|? ? Hi Hg]; subst. unfold gap_bytes, gap_blank. cbn [flat_map].
  rewrite <- !app_assoc. rewrite strip_item by exact Hi. f_equal. apply IH. exact Hg.
Qed.

Definition piece_ok (tg : token * gap) : Prop := safe (tok_bytes (fst tg)) = true /\ gap_ok (snd tg).

Theorem strip_render : forall tgs g0, gap_ok g0 -> Forall piece_ok tgs ->
  strip (render g0 tgs) = render_blank g0 tgs.
Proof.
  induction tgs as [|[t g] r IH]; intros g0 H0 H.
  - cbn [render render_blank]. rewrite strip_gap by exact H0. reflexivity.
  - cbn [render render_blank]. inversion H as [|? ? [Ht Hg] Hr]; subst. cbn [fst snd] in *.
    rewrite strip_gap by exact H0. f_equal. rewrite strip_safe_app by exact Ht. f_equal.
    apply IH; assumption.
Qed.

(* ---------------------------------------------------------------- the lexer ignores white space *)

Lemma punct_not_ws c : is_punct c = true -> is_ws c = false.
Proof.
  unfold is_punct. intros H. repeat (apply orb_prop in H; destruct H as [H|H]);
    apply Ascii.eqb_eq in H; subst c; reflexivity.
Qed.

Lemma word_classes c : is_word c = true -> is_ws c = false /\ is_punct c = false /\ Ascii.eqb c quote = false.
Proof.
  unfold is_word. intros H. apply negb_true_iff in H. apply orb_false_iff in H. destruct H as [H H3].
  apply orb_false_iff in H. tauto.
Qed.

Definition all_ws (b : bytes) : Prop := Forall (fun c => is_ws c = true) b.

Lemma lexm_ws : forall b s, all_ws b -> lexm LNone (b ++ s) = lexm LNone s.
Proof.
  induction b as [|c r IH]; intros s H; [reflexivity|].
  inversion H as [|? ? Hc Hr]; subst. cbn [app lexm]. rewrite Hc. apply IH. exact Hr.
Qed.

Lemma gap_blank_ws g : gap_ok g -> all_ws (gap_blank g).
Proof.
  induction g as [|i g IH]; intros H; [constructor|].
  inversion H as [|? ? Hi Hg]; subst. unfold gap_blank. cbn [flat_map].
  apply Forall_app. split; [|apply IH; exact Hg].
  destruct i as [c|b|b]; cbn [item_blank item_ok] in *.
  - constructor; [exact Hi|constructor].
  - constructor; [reflexivity|constructor].
  - constructor.
Qed.

Lemma lexm_str : forall b esc acc s, body_ok esc b = true ->
  lexm (if esc then LEsc acc else LStr acc) (b ++ quote :: s) = ocons (TStr (rev acc ++ b)) (lexm LNone s).
Proof.
  induction b as [|c r IH]; intros esc acc s H.
  - destruct esc; [discriminate|]. cbn [app lexm]. change (Ascii.eqb quote quote) with true. cbn iota.
    rewrite app_nil_r. reflexivity.
  - cbn [body_ok] in H. destruct esc.
    + cbn [app lexm]. rewrite (IH false (c :: acc) s H). cbn [rev]. rewrite <- app_assoc. reflexivity.
    + cbn [app lexm]. destruct (Ascii.eqb c quote); [discriminate|].
      destruct (Ascii.eqb c bslash).
      * rewrite (IH true (c :: acc) s H). cbn [rev]. rewrite <- app_assoc. reflexivity.
      * rewrite (IH false (c :: acc) s H). cbn [rev]. rewrite <- app_assoc. reflexivity.
Qed.

Lemma lexm_word : forall w acc s, forallb is_word w = true ->
  lexm (LWord acc) (w ++ s) = lexm (LWord (rev w ++ acc)) s.
Proof.
  induction w as [|c r IH]; intros acc s H; [reflexivity|].
  cbn [forallb] in H. apply andb_prop in H. destruct H as [Hc Hr].
  destruct (word_classes c Hc) as (H1 & H2 & H3).
  cbn [app lexm]. rewrite H1, H2, H3. rewrite (IH (c :: acc) s Hr). cbn [rev]. rewrite <- app_assoc.
  reflexivity.
Qed.

Definition starts_nonword (s : bytes) : bool :=
  match s with [] => true | c :: _ => negb (is_word c) end.

Lemma lexm_word_end acc s : starts_nonword s = true ->
  lexm (LWord acc) s = ocons (TWord (rev acc)) (lexm LNone s).
Proof.
  destruct s as [|c r]; intros H; [reflexivity|].
  cbn [starts_nonword] in H. apply negb_true_iff in H. unfold is_word in H. apply negb_false_iff in H.
  cbn [lexm]. destruct (is_ws c) eqn:E1; [reflexivity|].
  destruct (is_punct c) eqn:E2; [reflexivity|].
  cbn [orb] in H. rewrite H. reflexivity.
Qed.

Definition piece_wf (tg : token * gap) : Prop := tok_wf (fst tg) = true /\ gap_ok (snd tg).

Lemma lex_tok t s : tok_wf t = true -> (is_wordtok t = true -> starts_nonword s = true) ->
  lexm LNone (tok_bytes t ++ s) = ocons t (lexm LNone s).
Proof.
  destruct t as [c|b|w]; cbn [tok_wf tok_bytes is_wordtok]; intros Hwf Hs.
  - cbn [app lexm]. rewrite (punct_not_ws c Hwf), Hwf. reflexivity.
  - cbn [app lexm]. change (is_ws quote) with false. change (is_punct quote) with false.
    change (Ascii.eqb quote quote) with true. cbn iota. rewrite <- app_assoc. cbn [app].
    rewrite (lexm_str b false [] s Hwf). reflexivity.
  - destruct w as [|c r]; [discriminate|]. cbn [forallb] in Hwf. apply andb_prop in Hwf.
    destruct Hwf as [Hc Hr]. destruct (word_classes c Hc) as (H1 & H2 & H3).
    cbn [app lexm]. rewrite H1, H2, H3. rewrite (lexm_word r [c] s Hr).
    rewrite lexm_word_end by (apply Hs; reflexivity).
    rewrite rev_app_distr, rev_involutive. reflexivity.
Qed.

Lemma first_of_tok t s : tok_wf t = true -> is_wordtok t = false -> starts_nonword (tok_bytes t ++ s) = true.
Proof.
  destruct t as [c|b|w]; cbn [tok_wf tok_bytes is_wordtok]; intros Hwf Hw; [| |discriminate].
  - cbn [app starts_nonword]. unfold is_word. rewrite Hwf. rewrite orb_true_r. reflexivity.
  - reflexivity.
Qed.

Lemma starts_nonword_ws b s : all_ws b -> b <> [] -> starts_nonword (b ++ s) = true.
Proof.
  destruct b as [|c r]; intros H Hne; [congruence|].
  inversion H as [|? ? Hc Hr]; subst. cbn [app starts_nonword]. unfold is_word. rewrite Hc. reflexivity.
Qed.

Theorem lex_render_blank : forall tgs g0, gap_ok g0 -> Forall piece_wf tgs -> separated tgs = true ->
  lex (render_blank g0 tgs) = Some (map fst tgs).
Proof.
  unfold lex. induction tgs as [|[t g] r IH]; intros g0 H0 H Hsep.
  - cbn [render_blank map]. rewrite lexm_ws by (apply gap_blank_ws; exact H0). reflexivity.
  - cbn [render_blank map fst]. inversion H as [|? ? [Ht Hg] Hr]; subst. cbn [fst snd] in *.
    rewrite lexm_ws by (apply gap_blank_ws; exact H0).
    assert (Hsep' : separated r = true).
    { cbn [separated] in Hsep. destruct r as [|[t' g'] r']; [reflexivity|].
      apply andb_prop in Hsep. tauto. }
    rewrite lex_tok.
    + rewrite (IH g Hg Hr Hsep'). reflexivity.
    + exact Ht.
    + intros Hw. destruct r as [|[t' g'] r'].
      * cbn [render_blank]. rewrite app_nil_r.
        destruct (gap_blank g) as [|c b] eqn:E; [reflexivity|].
        rewrite <- (app_nil_r (c :: b)). apply starts_nonword_ws; [|discriminate].
        rewrite <- E. apply gap_blank_ws. exact Hg.
      * cbn [separated] in Hsep. apply andb_prop in Hsep. destruct Hsep as [Hsep _].
        cbn [render_blank].
        destruct (gap_blank g) as [|c b] eqn:E.
        -- rewrite Hw in Hsep. cbn [andb negb orb] in Hsep.
           destruct (is_wordtok t') eqn:Ew; [discriminate Hsep|].
           cbn [app]. inversion Hr as [|? ? [Ht' _] _]; subst. cbn [fst] in Ht'.
           apply first_of_tok; assumption.
        -- apply starts_nonword_ws; [|discriminate]. rewrite <- E. apply gap_blank_ws. exact Hg.
Qed.

(* ---------------------------------------------------------------- C18: comments between tokens *)

Definition piece_good (tg : token * gap) : Prop :=
  tok_wf (fst tg) = true /\ safe (tok_bytes (fst tg)) = true /\ gap_ok (snd tg).

Theorem comments_ignored : forall g0 tgs, gap_ok g0 -> Forall piece_good tgs -> separated tgs = true ->
  strip (render g0 tgs) = render_blank g0 tgs /\
  lex (strip (render g0 tgs)) = Some (map fst tgs).
Proof.
  intros g0 tgs H0 H Hsep.
  assert (H1 : Forall piece_ok tgs).
  { eapply Forall_impl; [|exact H]. intros tg (_ & A & B). split; assumption. }
  assert (H2 : Forall piece_wf tgs).
  { eapply Forall_impl; [|exact H]. intros tg (A & _ & B). split; assumption. }
  rewrite (strip_render tgs g0 H0 H1). split; [reflexivity|].
  apply lex_render_blank; assumption.
Qed.

(* the token sequence does not depend on what the gaps contain *)
Corollary comments_placement_irrelevant : forall g0 g0' tgs tgs',
  gap_ok g0 -> gap_ok g0' -> Forall piece_good tgs -> Forall piece_good tgs' ->
  separated tgs = true -> separated tgs' = true -> map fst tgs = map fst tgs' ->
  lex (strip (render g0 tgs)) = lex (strip (render g0' tgs')).
Proof.
  intros g0 g0' tgs tgs' A B C D E F G.
  destruct (comments_ignored g0 tgs A C E) as [_ ->].
  destruct (comments_ignored g0' tgs' B D F) as [_ ->]. now rewrite G.
Qed.

(* a text without any slash is left alone *)
Lemma strip_no_slash : forall s, forallb (fun c => negb (Ascii.eqb c slash)) s = true -> strip s = s.
Proof.
  induction s as [|c r IH]; intros H; [reflexivity|].
  cbn in H. apply andb_prop in H. destruct H as [H1 H2]. apply negb_true_iff in H1.
  rewrite strip_other by exact H1. f_equal. apply IH. exact H2.
Qed.

(* the stripper never lengthens the text (it only deletes) *)
Lemma strip_fuel_len : forall n s, length (strip_fuel n s) <= length s.
Proof.
  induction n as [|n IH]; intros s; [cbn; lia|].
  destruct s as [|c r]; [cbn; lia|]. cbn [strip_fuel].
  destruct (Ascii.eqb c slash).
  - destruct r as [|d r']; [cbn; lia|].
    destruct (Ascii.eqb d slash).
    + pose proof (IH (skip_line r')). pose proof (skip_line_len r'). cbn [length]. lia.
    + destruct (Ascii.eqb d star).
      * destruct (find_close r') as [rest|] eqn:E.
        -- apply find_close_len in E. pose proof (IH rest). cbn [length]. lia.
        -- pose proof (IH (d :: r')). cbn [length] in *. lia.
      * pose proof (IH (d :: r')). cbn [length] in *. lia.
  - pose proof (IH r). cbn [length]. lia.
Qed.

Lemma strip_len s : length (strip s) <= length s.
Proof. apply strip_fuel_len. Qed.

(* ---------------------------------------------------------------- why the guards are needed *)

(* the expression deletes a comment instead of replacing it by a blank: 1 block-comment 5 reads 15 *)
Lemma glued_words_witness : exists g0 tgs,
  gap_ok g0 /\ Forall piece_good tgs /\ lex (strip (render g0 tgs)) <> Some (map fst tgs).
Proof.
  exists [], [(TWord ["1"%char], [GBlock []]); (TWord ["5"%char], [])].
  split; [constructor|]. split.
  - repeat constructor.
  - vm_compute. discriminate.
Qed.

(* quotes do not protect a comment opener: the opener inside the first string value pairs with the
   closer inside the last one, the members in between vanish and the rest still lexes *)
Lemma marker_in_string_witness : exists g0 tgs,
  gap_ok g0 /\ Forall (fun tg => tok_wf (fst tg) = true /\ gap_ok (snd tg)) tgs /\ separated tgs = true /\
  exists toks, lex (strip (render g0 tgs)) = Some toks /\ toks <> map fst tgs.
Proof.
  exists [],
    [(TPunct "{", []); (TStr (list_ascii_of_string "notify_sockaddr"), []); (TPunct ":", []);
     (TStr (list_ascii_of_string "a/*b"), []); (TPunct ",", []); (TStr (list_ascii_of_string "mode"), []);
     (TPunct ":", []); (TStr (list_ascii_of_string "sim"), []); (TPunct ",", []);
     (TStr (list_ascii_of_string "endmarker_sockaddr"), []); (TPunct ":", []);
     (TStr (list_ascii_of_string "c*/d"), []); (TPunct "}", [])].
  split; [constructor|]. split; [repeat constructor|]. split; [reflexivity|].
  eexists. split; [vm_compute; reflexivity|discriminate].
Qed.
