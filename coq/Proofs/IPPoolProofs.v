From Coq Require Import ZArith NArith List Bool Lia ZifyN ZifyNat ZifyBool Permutation.
From UPF Require Import Base.Lists Model.IPPool.
Import ListNotations.
Open Scope N_scope.

Definition pool_addrs (base len : N) : list N := addrs_from (N.to_nat (subnet_size len - 2)) (base + 1).

Definition held (p : pool) : list N := map snd (inv p).
Definition Inv (all : list N) (p : pool) : Prop :=
  Permutation (free p ++ held p) all /\ NoDup (map fst (inv p)).

Lemma addrs_from_spec n a x : In x (addrs_from n a) <-> a <= x < a + N.of_nat n.
Proof.
  revert a. induction n as [|n IH]; intros a; cbn [addrs_from In].
  - lia.
  - rewrite IH. lia.
Qed.

Lemma addrs_from_nodup n a : NoDup (addrs_from n a).
Proof.
  revert a. induction n as [|n IH]; intros a; cbn [addrs_from]; constructor; [|apply IH].
  rewrite addrs_from_spec. lia.
Qed.

Lemma lookup_in k m v : lookup k m = Some v -> In (k, v) m.
Proof.
  induction m as [|[k' v'] r IH]; cbn; [discriminate|].
  destruct (k =? k') eqn:E; [intros [= <-]; left; f_equal; lia | auto].
Qed.

Lemma lookup_none k m : lookup k m = None <-> ~ In k (map fst m).
Proof.
  induction m as [|[k' v'] r IH]; cbn; [tauto|].
  destruct (k =? k') eqn:E; [split; [discriminate|intros H; exfalso; apply H; left; lia]|].
  rewrite IH. split; [intros H [H1|H1]; [lia|tauto] | tauto].
Qed.

Lemma remove_not_in k m : ~ In k (map fst (remove k m)).
Proof.
  induction m as [|[k' v'] r IH]; cbn; [tauto|].
  destruct (k =? k') eqn:E; [exact IH|]. cbn. intros [H|H]; [lia|tauto].
Qed.

Lemma remove_in k k' m : In k' (map fst (remove k m)) -> In k' (map fst m).
Proof.
  induction m as [|[k2 v2] r IH]; cbn; [tauto|].
  destruct (k =? k2) eqn:E; cbn; tauto.
Qed.

Lemma remove_nodup k m : NoDup (map fst m) -> NoDup (map fst (remove k m)).
Proof.
  induction m as [|[k2 v2] r IH]; cbn; [auto|].
  intros H. inversion H as [|? ? Hn Hd]; subst.
  destruct (k =? k2) eqn:E; [auto|]. cbn. constructor; [|auto].
  intros Hin. apply Hn. eapply remove_in; eauto.
Qed.

Lemma remove_other k k' m : k' <> k -> lookup k' (remove k m) = lookup k' m.
Proof.
  intros Hne. induction m as [|[k2 v2] r IH]; cbn; [reflexivity|].
  destruct (k =? k2) eqn:E.
  - destruct (k' =? k2) eqn:E2; [lia|exact IH].
  - cbn. destruct (k' =? k2); [reflexivity|exact IH].
Qed.

(* with unique keys, removing k takes out exactly its value *)
Lemma remove_perm k v m : NoDup (map fst m) -> lookup k m = Some v ->
  Permutation (map snd m) (v :: map snd (remove k m)).
Proof.
  induction m as [|[k2 v2] r IH]; cbn; [discriminate|].
  intros Hd. inversion Hd as [|? ? Hn Hd']; subst.
  destruct (k =? k2) eqn:E.
  - intros [= <-]. assert (k = k2) by lia. subst k2.
    replace (remove k r) with r; [reflexivity|].
    clear -Hn. induction r as [|[k3 v3] r IH]; cbn in *; [reflexivity|].
    destruct (k =? k3) eqn:E; [exfalso; apply Hn; left; lia|]. f_equal. apply IH. tauto.
  - intros H. cbn. rewrite perm_swap. constructor. auto.
Qed.

Lemma alloc_inv all s p : Inv all p -> Inv all (fst (alloc s p)).
Proof.
  intros [Hp Hd]. unfold alloc. destruct (lookup s (inv p)) eqn:El; [cbn [fst]; split; assumption|].
  destruct (free p) as [|a rest] eqn:Ef; [cbn [fst]; split; [rewrite Ef|]; assumption|].
  cbn [fst]. unfold Inv, held in *. cbn [free inv map fst snd]. split.
  - rewrite <- Hp. cbn. rewrite <- Permutation_middle. reflexivity.
  - constructor; [|assumption]. now apply lookup_none.
Qed.

Lemma dealloc_inv all s p : Inv all p -> Inv all (fst (dealloc s p)).
Proof.
  intros [Hp Hd]. unfold dealloc. destruct (lookup s (inv p)) as [a|] eqn:El; [|cbn [fst]; split; assumption].
  cbn [fst]. unfold Inv, held in *. cbn [free inv]. split.
  - rewrite <- Hp. rewrite <- app_assoc. apply Permutation_app_head. cbn [app].
    symmetry. now apply remove_perm.
  - now apply remove_nodup.
Qed.

Lemma step_inv all o p : Inv all p -> Inv all (fst (step p o)).
Proof. destruct o; [apply alloc_inv|apply dealloc_inv]. Qed.

Lemma run_inv all ops : forall p, Inv all p -> Inv all (fst (run p ops)).
Proof.
  induction ops as [|o r IH]; intros p H; [exact H|].
  cbn [run]. pose proof (step_inv all o p H) as H1.
  destruct (step p o) as [p' x]. cbn [fst] in H1. specialize (IH p' H1).
  destruct (run p' r) as [p'' xs]. exact IH.
Qed.

Lemma new_pool_inv base len p : new_pool base len = Some p -> Inv (pool_addrs base len) p /\ inv p = [].
Proof.
  unfold new_pool. destruct (subnet_size len <? 2); [discriminate|]. intros [= <-].
  unfold Inv, held, pool_addrs. cbn. rewrite app_nil_r. repeat split; [reflexivity|constructor].
Qed.

(* every reachable state *)
Lemma reachable_inv base len p0 ops :
  new_pool base len = Some p0 -> Inv (pool_addrs base len) (fst (run p0 ops)).
Proof. intros H. apply run_inv. now apply new_pool_inv in H. Qed.

(* --- consequences of the invariant --- *)

Lemma pool_addrs_range base len x : 1 <= len <= 30 -> base mod subnet_size len = 0 ->
  In x (pool_addrs base len) -> base < x < base + subnet_size len - 1.
Proof.
  intros Hl Hb. unfold pool_addrs. rewrite addrs_from_spec.
  assert (4 <= subnet_size len).
  { unfold subnet_size. change 4 with (2 ^ 2). apply N.pow_le_mono_r; lia. }
  lia.
Qed.

Lemma inv_exclusive all p : NoDup all -> Inv all p -> NoDup (held p) /\ NoDup (free p)
  /\ (forall a, In a (free p) -> ~ In a (held p)).
Proof.
  intros Hn [Hp _]. assert (H : NoDup (free p ++ held p)).
  { eapply Permutation_NoDup; [symmetry; exact Hp|exact Hn]. }
  apply nodup_app in H. destruct H as (H1 & H2 & H3). auto.
Qed.

Lemma alloc_result_in all s p a : Inv all p -> snd (alloc s p) = RIp a -> In a all.
Proof.
  intros [Hp _]. unfold alloc. destruct (lookup s (inv p)) as [a'|] eqn:El.
  - cbn. intros [= <-]. eapply Permutation_in; [exact Hp|]. apply in_or_app. right.
    unfold held. apply lookup_in in El. now apply (in_map snd) in El.
  - destruct (free p) as [|b rest] eqn:Ef; cbn; [discriminate|]. intros [= <-].
    eapply Permutation_in; [exact Hp|]. now left.
Qed.

Lemma alloc_sticky s p a : snd (alloc s p) = RIp a ->
  alloc s (fst (alloc s p)) = (fst (alloc s p), RIp a).
Proof.
  unfold alloc. destruct (lookup s (inv p)) as [a'|] eqn:El.
  - cbn. intros [= <-]. now rewrite El.
  - destruct (free p) as [|b rest] eqn:Ef; cbn; [discriminate|]. intros [= <-].
    rewrite N.eqb_refl. reflexivity.
Qed.

(* sticky across any operations that do not release s *)
Lemma lookup_preserved s a o p : lookup s (inv p) = Some a -> o <> Dealloc s ->
  lookup s (inv (fst (step p o))) = Some a.
Proof.
  intros Hl Hne. destruct o as [s'|s']; cbn [step].
  - unfold alloc. destruct (lookup s' (inv p)) eqn:E; [exact Hl|].
    destruct (free p); [exact Hl|]. cbn. destruct (s =? s') eqn:E2; [|exact Hl].
    assert (s = s') by lia; subst. congruence.
  - unfold dealloc. destruct (lookup s' (inv p)) eqn:E; [|exact Hl]. cbn.
    rewrite remove_other; [exact Hl|]. intros ->. now apply Hne.
Qed.

Lemma alloc_refuse_iff s p : snd (alloc s p) = RErr <-> lookup s (inv p) = None /\ free p = [].
Proof.
  unfold alloc. destruct (lookup s (inv p)) eqn:El; cbn.
  - split; [discriminate|intros [H _]; discriminate].
  - destruct (free p); cbn; split; try discriminate; auto. intros [_ H]; discriminate.
Qed.

Lemma full_when_refused all s p : Inv all p -> snd (alloc s p) = RErr ->
  length (inv p) = length all /\ (forall a, In a all -> In a (held p)).
Proof.
  intros [Hp _] H. apply alloc_refuse_iff in H. destruct H as [_ Hf]. rewrite Hf in Hp. cbn in Hp.
  split.
  - apply Permutation_length in Hp. unfold held in Hp. now rewrite map_length in Hp.
  - intros a Ha. eapply Permutation_in; [symmetry; exact Hp|exact Ha].
Qed.

Lemma dealloc_exact s p a : lookup s (inv p) = Some a ->
  dealloc s p = (Pool (free p ++ [a]) (remove s (inv p)), ROk)
  /\ lookup s (remove s (inv p)) = None
  /\ (forall s', s' <> s -> lookup s' (remove s (inv p)) = lookup s' (inv p)).
Proof.
  intros H. unfold dealloc. rewrite H. split; [reflexivity|]. split.
  - apply lookup_none. apply remove_not_in.
  - intros s' Hne. now apply remove_other.
Qed.

Lemma dealloc_unknown s p : lookup s (inv p) = None -> dealloc s p = (p, RErr).
Proof. intros H. unfold dealloc. now rewrite H. Qed.

(* interleavings: any merge of per-thread operation lists is itself an operation list, and every
   method body is one atomic step (mutex held throughout: tie T1), so all of the above holds for
   every schedule. *)
Inductive merge {A} : list (list A) -> list A -> Prop :=
| merge_nil ts : Forall (fun t => t = []) ts -> merge ts []
| merge_step ts1 x t ts2 l : merge (ts1 ++ t :: ts2) l -> merge (ts1 ++ (x :: t) :: ts2) (x :: l).

Lemma any_interleaving_inv base len p0 (threads : list (list op)) sched :
  new_pool base len = Some p0 -> merge threads sched ->
  Inv (pool_addrs base len) (fst (run p0 sched)).
Proof. intros H _. now apply reachable_inv. Qed.

(* packaged statements used by Props/C06.v *)
Definition reachable (base len : N) (p : pool) : Prop :=
  exists p0 ops, new_pool base len = Some p0 /\ p = fst (run p0 ops).

Lemma reachable_Inv base len p : reachable base len p -> Inv (pool_addrs base len) p.
Proof. intros (p0 & ops & H & ->). now apply reachable_inv. Qed.

Lemma c06_in_range base len p s a : 1 <= len <= 30 -> base mod subnet_size len = 0 ->
  reachable base len p -> snd (alloc s p) = RIp a -> base < a < base + subnet_size len - 1.
Proof.
  intros Hl Hb Hr Ha. apply pool_addrs_range; try assumption.
  eapply alloc_result_in; [apply reachable_Inv; eassumption|eassumption].
Qed.

Lemma c06_exclusive base len p s1 s2 a : reachable base len p ->
  lookup s1 (inv p) = Some a -> lookup s2 (inv p) = Some a -> s1 = s2.
Proof.
  intros Hr H1 H2. pose proof (reachable_Inv _ _ _ Hr) as HI.
  destruct (inv_exclusive _ _ (addrs_from_nodup _ _) HI) as (Hh & _ & _).
  destruct HI as [_ Hk]. unfold held in Hh.
  apply lookup_in in H1. apply lookup_in in H2. clear -Hh Hk H1 H2.
  induction (inv p) as [|[k v] r IH]; [destruct H1|].
  cbn in *. inversion Hh as [|? ? Hnv Hdv]; inversion Hk as [|? ? Hnk Hdk]; subst.
  destruct H1 as [E1|H1], H2 as [E2|H2]; auto.
  - congruence.
  - exfalso. apply Hnv. apply (in_map snd) in H2. cbn in H2. congruence.
  - exfalso. apply Hnv. apply (in_map snd) in H1. cbn in H1. congruence.
Qed.

Lemma c06_free_not_held base len p a : reachable base len p -> In a (free p) ->
  forall s, lookup s (inv p) <> Some a.
Proof.
  intros Hr Hf s Hl. pose proof (reachable_Inv _ _ _ Hr) as HI.
  destruct (inv_exclusive _ _ (addrs_from_nodup _ _) HI) as (_ & _ & H).
  apply (H a Hf). unfold held. apply lookup_in in Hl. now apply (in_map snd) in Hl.
Qed.

Lemma c06_refused_means_full base len p s : reachable base len p -> snd (alloc s p) = RErr ->
  forall a, In a (pool_addrs base len) -> exists s', lookup s' (inv p) = Some a.
Proof.
  intros Hr He a Ha. pose proof (reachable_Inv _ _ _ Hr) as HI.
  destruct (full_when_refused _ _ _ HI He) as [_ H]. specialize (H a Ha).
  unfold held in H. apply in_map_iff in H. destruct H as ([k v] & Hv & Hin). cbn in Hv. subst v.
  exists k. destruct HI as [_ Hk]. clear -Hk Hin.
  induction (inv p) as [|[k2 v2] r IH]; [destruct Hin|]. cbn in *.
  inversion Hk as [|? ? Hn Hd]; subst. destruct Hin as [[= -> ->]|Hin].
  - now rewrite N.eqb_refl.
  - destruct (k =? k2) eqn:E; [|auto]. exfalso. apply Hn. assert (k = k2) by lia; subst.
    now apply (in_map fst) in Hin.
Qed.

Lemma has5th_always_false f : has5th f = false.
Proof.
  unfold has5th. change 16 with (2 ^ 4).
  destruct (N.land f (2 ^ 4) =? 1) eqn:E; [|reflexivity]. exfalso.
  apply N.eqb_eq in E. assert (H : N.testbit (N.land f (2 ^ 4)) 0 = true) by (rewrite E; reflexivity).
  rewrite N.land_spec in H. rewrite N.pow2_bits_false in H by lia. now rewrite andb_false_r in H.
Qed.
