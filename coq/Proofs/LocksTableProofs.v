(* C11: the lockset discipline evaluated on the lock table generated from pfcpiface (Gen/Locks_gen.v).
   Every lemma here is re-checked against the regenerated table on every run (tie T1). *)
From Coq Require Import String List Bool.
From UPF Require Import Model.Locks Gen.Locks_gen Model.LocksTable Proofs.LocksProofs.
Import ListNotations.
Local Open Scope string_scope.

Lemma lockset_bess : lockset_ok bess_table = true.
Proof. vm_compute. reflexivity. Qed.
Lemma lockset_pools : lockset_ok pool_table = true.
Proof. vm_compute. reflexivity. Qed.

(* the tables are not trivially fine: they contain conflicting pairs / the expected fields *)
Lemma pools_nonvacuous : has_conflict pool_table = true /\
  forallb (has_field pool_table) ["IPPool.freePool"; "IPPool.inventory"; "FTEIDGenerator.offset"; "FTEIDGenerator.usedMap";
                                  "InMemoryStore.sessions"] = true.
Proof. vm_compute. split; reflexivity. Qed.
Lemma bess_nonvacuous :
  forallb (has_field bess_table) ["bess.client"; "bess.conn"; "bess.qciQosMap"; "bess.endMarkerChan"; "upf.ippool";
                                  "upf.fteidGenerator"; "global.Timeout"] = true.
Proof. vm_compute. reflexivity. Qed.

(* UP4 while the datapath stays connected: the discipline holds in full *)
Lemma lockset_up4 : lockset_ok up4_run_table = true.
Proof. vm_compute. reflexivity. Qed.

Lemma up4_nonvacuous :
  forallb (has_field up4_run_table) ["UP4.meters"; "UP4.ueAddrToFSEID"; "UP4.fseidToUEAddr"; "UP4.tunnelPeerIDs"; "UP4.tunnelPeerIDsPool";
                                     "UP4.applicationIDs"; "UP4.applicationIDsPool"; "tunnelPeer.usedBy"; "internalApp.usedBy";
                                     "counter.counterIDsPool"; "UP4.appMeterCellIDsPool"; "UP4.sessMeterCellIDsPool"; "UP4.connected"] = true /\
  has_conflict up4_run_table = true /\
  has_conflict session_state_rows = true.
Proof. vm_compute. repeat split; reflexivity. Qed.

(* every access of the three maps outside start-up holds UP4.sessionStateMu; writers hold it exclusively
   (a lock taken by RLock is not counted for a write by the extractor) *)
Lemma session_state_locked :
  forallb (fun a => mem_s "UP4.sessionStateMu" (a_locks a) || negb (live_phase a)) session_state_rows = true /\
  forallb (fun f => existsb (fun a => String.eqb (a_field a) f && is_w a && live_phase a) session_state_rows) session_state_fields = true.
Proof. vm_compute. split; reflexivity. Qed.

(* with the re-initialisation that UP4.tryConnect performs after a lost datapath connection *)
Lemma up4_bad_all : bad_fields up4_table = reconnect_fields.
Proof. vm_compute. reflexivity. Qed.

Lemma up4_reconnect_refuted :
  lockset_ok up4_table = false /\
  forall f, In f reconnect_fields ->
    exists a1 a2, In a1 up4_table /\ In a2 up4_table /\ a_field a1 = f /\ a_field a2 = f /\
                  (a_rw a1 = W \/ a_rw a2 = W) /\ may_run_concurrently a1 a2 /\
                  forall l, In l (a_locks a1) -> ~ In l (a_locks a2).
Proof.
  split; [vm_compute; reflexivity|]. intros f Hf. apply bad_field_witness. rewrite up4_bad_all. exact Hf.
Qed.

(* atomic regions of the generated table *)
Lemma atomic_steps_tied : atomic_ok atomic_steps atomic_tbl = true.
Proof. vm_compute. reflexivity. Qed.
Lemma application_write_outside : atomic_ok application_steps_with_write atomic_tbl = false /\
  forallb (fun a => negb (prefix "UP4.addInternalApplication" (af_func a) || prefix "UP4.removeInternalApplication" (af_func a))
                    || (af_covered a && Nat.eqb (af_dp_calls a) 0)) atomic_tbl = true.
Proof. vm_compute. split; reflexivity. Qed.
