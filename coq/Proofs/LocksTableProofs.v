(* C11: the lockset discipline evaluated on the lock table generated from pfcpiface (Gen/Locks_gen.v).
   Every lemma here is re-checked against the regenerated table on every run (tie T1). *)
From Coq Require Import String List Bool.
From UPF Require Import Model.Locks Gen.Locks_gen Model.LocksTable Proofs.LocksProofs.
Import ListNotations.
Local Open Scope string_scope.

Lemma lockset_bess : lockset_ok bess_table = true.
Proof. vm_compute. reflexivity. Qed.
Lemma lockset_pools : lockset_ok pool_table = true.
Proof. vm_compute. reflexivity. Qed.

(* the tables are not trivially fine: they contain conflicting pairs / the expected fields *)
Lemma pools_nonvacuous : has_conflict pool_table = true /\
  forallb (has_field pool_table) ["IPPool.freePool"; "IPPool.inventory"; "FTEIDGenerator.offset"; "FTEIDGenerator.usedMap";
                                  "InMemoryStore.sessions"] = true.
Proof. vm_compute. split; reflexivity. Qed.
Lemma bess_nonvacuous :
  forallb (has_field bess_table) ["bess.client"; "bess.conn"; "bess.qciQosMap"; "bess.endMarkerChan"; "upf.ippool";
                                  "upf.fteidGenerator"; "global.Timeout"] = true.
Proof. vm_compute. reflexivity. Qed.

Lemma up4_bad_run : bad_fields up4_run_table = f22_fields.
Proof. vm_compute. reflexivity. Qed.
Lemma up4_bad_all : bad_fields up4_table =
  ["UP4.appMeterCellIDsPool"; "UP4.endMarkerChan"; "UP4.fseidToUEAddr"; "UP4.meters"; "UP4.p4RtTranslator"; "UP4.p4client";
   "UP4.sessMeterCellIDsPool"; "UP4.ueAddrToFSEID"; "counter.counterIDsPool"].
Proof. vm_compute. reflexivity. Qed.
Lemma up4_writers :
  map (fun f => unlocked_writers f up4_run_table) f22_fields =
  [["UP4.removeUeAddrAndFSEIDMappings"; "UP4.updateUEAddrAndFSEIDMappings"];
   ["UP4.configureMeters"; "UP4.resetMeters"];
   ["UP4.removeUeAddrAndFSEIDMappings"; "UP4.updateUEAddrAndFSEIDMappings"]].
Proof. vm_compute. reflexivity. Qed.

Lemma up4_refuted :
  lockset_ok up4_run_table = false /\
  forall f, In f f22_fields ->
    exists a1 a2, In a1 up4_run_table /\ In a2 up4_run_table /\ a_field a1 = f /\ a_field a2 = f /\
                  (a_rw a1 = W \/ a_rw a2 = W) /\ may_run_concurrently a1 a2 /\
                  forall l, In l (a_locks a1) -> ~ In l (a_locks a2).
Proof.
  split; [vm_compute; reflexivity|]. intros f Hf. apply bad_field_witness. rewrite up4_bad_run. exact Hf.
Qed.

(* everything else the UP4 plug-in shares between associations (tunnel peers, applications, the counter
   and meter-cell pools, the connection flag) obeys the discipline as long as no reconnection happens *)
Lemma up4_partial : lockset_ok up4_guarded_table = true /\
  forallb (has_field up4_guarded_table) ["UP4.tunnelPeerIDs"; "UP4.tunnelPeerIDsPool"; "UP4.applicationIDs"; "UP4.applicationIDsPool";
                                         "tunnelPeer.usedBy"; "internalApp.usedBy"; "counter.counterIDsPool";
                                         "UP4.appMeterCellIDsPool"; "UP4.sessMeterCellIDsPool"; "UP4.connected"] = true /\
  has_conflict up4_guarded_table = true.
Proof. vm_compute. repeat split; reflexivity. Qed.
