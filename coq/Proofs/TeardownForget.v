(* C10 - "the association is forgotten": for every number of associations and every schedule without Stop, an
   established association that has reported its address is either still queued on pConnDone or no longer in
   pConns; once the node has drained the channel a fresh Setup from that address is processed. *)
From Coq Require Import NArith String List Bool Arith Lia.
From UPF Require Import Base.LTS Model.Teardown Proofs.TeardownInv Proofs.TeardownProofs.
Import ListNotations.
Open Scope list_scope.

Lemma memN_remove_all_same x l : memN x (remove_all x l) = false.
Proof.
  induction l as [|y l IH]; cbn; [reflexivity|]. destruct (N.eqb x y) eqn:E; [exact IH|]. cbn. rewrite E. exact IH.
Qed.
Lemma memN_remove_all_false x y l : memN x l = false -> memN x (remove_all y l) = false.
Proof.
  induction l as [|z l IH]; cbn; [reflexivity|]. intros H. apply orb_false_elim in H. destruct H as [H1 H2].
  destruct (N.eqb y z); [apply IH; exact H2|]. cbn. rewrite H1. apply IH. exact H2.
Qed.

Lemma thread_step_running me r alt nd a t x : thread_step me r alt nd a t = Ok x -> t_st t = TRunning.
Proof. unfold thread_step. destruct (t_st t); try discriminate. reflexivity. Qed.

Definition FInv (cfg : list acfg) (s : state) : Prop :=
  forall i c a, nth_error cfg i = Some c -> c_first c = None -> nth_error (s_asc s) i = Some a ->
    t_st (a_fst a) = TFinished /\
    (rep a = true -> In (N.of_nat i) (cbuf (n_pcd (s_node s))) \/ memN (N.of_nat i) (n_map (s_node s)) = false).

Lemma finv_init cfg ev : FInv cfg (init cfg ev).
Proof.
  intros i c a Hc Hf Ha. unfold init, init_cap in Ha. cbn in Ha. rewrite nth_error_map, Hc in Ha. cbn in Ha.
  injection Ha as <-. destruct c as [sess hb [d|]]; [discriminate|]. cbn. split; [reflexivity|discriminate].
Qed.

Lemma rep_env_fields a : (forall v, rep (set_inbox a v) = rep a /\ a_fst (set_inbox a v) = a_fst a)
  /\ (forall v, rep (set_tmo_armed a v) = rep a /\ a_fst (set_tmo_armed a v) = a_fst a)
  /\ (forall v, rep (set_hb_armed a v) = rep a /\ a_fst (set_hb_armed a v) = a_fst a).
Proof.
  destruct a as [st de on sh tm hb so ib ta ha rd se ht fs]. unfold rep. cbn.
  repeat split; destruct on as [|r0|]; try reflexivity; destruct r0; reflexivity.
Qed.

Lemma finv_env cfg s e : is_stop_ev e = false -> FInv cfg s -> FInv cfg (apply_env s e).
Proof.
  intros He H i c a Hc Hf Ha.
  destruct (apply_env_node s e He) as (-> & _ & _).
  destruct e as [j d|j|j| |]; try discriminate He; cbn in Ha;
    (destruct (nth_error (s_asc s) j) as [b|] eqn:Eb; cbn in Ha; [|eapply H; eauto]);
    (destruct (Nat.eq_dec j i) as [->|Hne];
     [ rewrite (nth_error_upd_same _ _ _ _ Eb) in Ha; injection Ha as <-;
       destruct (H i c b Hc Hf Eb) as [H1 H2]; destruct (rep_env_fields b) as (R1 & R2 & R3)
     | rewrite nth_error_upd_other in Ha by exact Hne; eapply H; eauto ]).
  - destruct (R1 (a_inbox b ++ [d])) as [-> ->]. auto.
  - destruct (R2 true) as [-> ->]. auto.
  - destruct (R3 true) as [-> ->]. auto.
Qed.

Lemma at_first_false sess a r : AInv sess a -> t_st (a_fst a) = TFinished -> t_st (get_thr a r) = TRunning ->
  is_assoc_role r = true -> at_pc a r FFirst 2 = false.
Proof.
  intros (Hrd & Hsel & Hhb & Hfst & _) Hfin Hrun Hr. unfold at_pc.
  destruct r; try discriminate Hr; unfold fn_ok in *; cbn in *.
  - destruct Hrd as [[-> _]|[-> _]]; reflexivity.
  - destruct Hsel as [[-> _]|[-> _]]; reflexivity.
  - destruct Hhb as [[-> _]|[-> _]]; reflexivity.
  - congruence.
Qed.

Lemma finv_step cfg s l s' : GInv cfg s -> NS s -> FInv cfg s -> step s l = Some s' -> FInv cfg s'.
Proof.
  intros Hg [Hp Hc Hd Ht Hs Hm Hl Hcap He] Hf H. unfold step in H. unfold dead in H. rewrite Hp, Hm in H.
  destruct l as [k|alt| |j r alt].
  - destruct (nth_error (s_env s) k) as [e|] eqn:Ek; [|discriminate]. injection H as <-.
    intros i c a Hci Hfi Ha. cbn in *. eapply (finv_env cfg s e); eauto. eapply no_stop_nth; eauto.
  - destruct (Nat.leb 3 alt); [discriminate|].
    destruct (s_node s) as [cx pc dn ls mp ex bu mn th sp] eqn:End. cbn in *. subst cx th sp mn.
    unfold thread_step in H. cbn in H.
    destruct alt as [|[|[|alt]]]; cbn in H; try discriminate.
    unfold ch_recv in H. destruct (cbuf pc) as [|v rest] eqn:Eb.
    + rewrite Hd in H. discriminate.
    + cbn in H. injection H as <-. intros i c a Hci Hfi Ha. cbn in *.
      destruct (Hf i c a Hci Hfi Ha) as [H1 H2]. rewrite End in H2. cbn in H2. rewrite Eb in H2.
      split; [exact H1|]. intros Hr. destruct (H2 Hr) as [[<-|Hin]|Hm'].
      * right. apply memN_remove_all_same.
      * left. exact Hin.
      * right. apply memN_remove_all_false. exact Hm'.
  - rewrite Hs in H. cbn in H. discriminate.
  - destruct (negb (is_assoc_role r) || Nat.leb 3 alt) eqn:Eg; [discriminate|].
    apply orb_false_elim in Eg. destruct Eg as [Er _]. apply negb_false_iff in Er.
    destruct (nth_error (s_asc s) j) as [b|] eqn:Eb; [|discriminate].
    destruct (Forall2_nth _ _ _ _ _ Hg Eb) as (se & Hse & Hb).
    pose proof (step_assoc se (N.of_nat j) r alt (s_node s) b _ Er Hb eq_refl) as Hstep.
    destruct (thread_step (N.of_nat j) r alt (s_node s) b (get_thr b r)) as [[[nd' a'] t']| |site] eqn:Ets;
      try discriminate; injection H as <-.
    + destruct Hstep as [[_ (D1 & D2 & D3 & D4)] _].
      pose proof (thread_step_running _ _ _ _ _ _ _ Ets) as Hrun.
      intros i c a Hci Hfi Ha. cbn in *.
      destruct (Nat.eq_dec j i) as [->|Hne].
      * rewrite (nth_error_upd_same _ _ _ _ Eb) in Ha. injection Ha as <-.
        destruct (Hf i c b Hci Hfi Eb) as [H1 H2].
        split; [apply D4; exact H1|]. intros Hr. rewrite D3 in Hr.
        rewrite (at_first_false se b r Hb H1 Hrun Er) in D2. rewrite D1, D2.
        destruct (at_pc b r FDo 5).
        -- left. apply in_or_app. right. left. reflexivity.
        -- rewrite orb_false_r in Hr. exact (H2 Hr).
      * rewrite nth_error_upd_other in Ha by exact Hne.
        destruct (Hf i c a Hci Hfi Ha) as [H1 H2]. split; [exact H1|]. intros Hr.
        rewrite D1, D2. destruct (H2 Hr) as [Hin|Hm'].
        -- left. destruct (at_pc b r FDo 5); [apply in_or_app; left|]; exact Hin.
        -- right. destruct (at_pc b r FFirst 2); [|exact Hm']. cbn.
           assert (N.eqb (N.of_nat i) (N.of_nat j) = false) as -> by (apply N.eqb_neq; lia).
           cbn. apply memN_remove_all_false. exact Hm'.
    + intros i c a Hci Hfi Ha. cbn in *. eapply Hf; eauto.
Qed.

Theorem forgotten_without_stop cfg ev sch i c a :
  no_stop ev -> nth_error cfg i = Some c -> c_first c = None ->
  nth_error (s_asc (run (init cfg ev) sch)) i = Some a -> a_once a = ODone ->
  cbuf (n_pcd (s_node (run (init cfg ev) sch))) = [] ->
  in_map (run (init cfg ev) sch) i = false /\ fresh_setup_processed (run (init cfg ev) sch) i = true.
Proof.
  intros Hns Hc Hfi Ha Ho Hbuf.
  set (P := fun s => (GInv cfg s /\ NS s) /\ FInv cfg s).
  assert (H : P (run (init cfg ev) sch)).
  { unfold run. apply (run_inv state tid step P).
    - intros s l s' [[Hg Hn] Hf] Hs. split; [split; [eapply ginv_step; eauto | eapply ns_step; eauto]|].
      eapply finv_step; eauto.
    - split; [split; [apply ginv_init | apply ns_init; exact Hns]|apply finv_init]. }
  destruct H as [[_ Hn] Hf]. destruct (Hf i c a Hc Hfi Ha) as [_ H2].
  assert (Hr : rep a = true) by (unfold rep; rewrite Ho; reflexivity).
  destruct (H2 Hr) as [Hin|Hm]; [rewrite Hbuf in Hin; destruct Hin|].
  unfold fresh_setup_processed, in_map. rewrite Hm. destruct Hn as [_ _ _ _ _ _ Hl _ _]. rewrite Hl. auto.
Qed.

(* the node's loop can always take a queued completion (it never leaves its select without Stop), so when no thread
   can move the channel is empty *)
Lemma quiet_buffer_empty cfg ev sch :
  no_stop ev -> step (run (init cfg ev) sch) (TNode 0) = None ->
  cbuf (n_pcd (s_node (run (init cfg ev) sch))) = [].
Proof.
  intros Hns H.
  assert (Hn : GInv cfg (run (init cfg ev) sch) /\ NS (run (init cfg ev) sch)).
  { unfold run. apply (run_inv state tid step (fun s => GInv cfg s /\ NS s)).
    - intros s l s' [Hg Hn] Hs. split; [eapply ginv_step; eauto | eapply ns_step; eauto].
    - split; [apply ginv_init | apply ns_init; exact Hns]. }
  destruct Hn as [_ [Hp Hc Hd Ht Hs Hm Hl Hcap He]].
  set (s := run (init cfg ev) sch) in *.
  unfold step in H. unfold dead in H. rewrite Hp, Hm in H. cbn in H.
  destruct (s_node s) as [cx pc dn ls mp ex bu mn th sp] eqn:End. cbn in *. subst cx th sp mn.
  unfold thread_step in H. cbn in H. unfold ch_recv in H.
  destruct (cbuf pc) as [|v rest]; [reflexivity|]. cbn in H. discriminate.
Qed.
