(* C10 - consequences without Stop: the node keeps draining pConnDone, the listening socket stays open, so an
   ended association is forgotten and a fresh Setup from its address is processed; established associations
   never run NewPFCPConn again. *)
From Coq Require Import NArith String List Bool Arith Lia.
From UPF Require Import Base.LTS Model.Teardown Proofs.TeardownInv Proofs.TeardownProofs Proofs.TeardownStop.
Import ListNotations.
Open Scope list_scope.

Lemma ns_run cfg ev sch : no_stop ev -> GInv cfg (run (init cfg ev) sch) /\ NS (run (init cfg ev) sch).
Proof.
  intros Hns. unfold run. apply (run_inv state tid step (fun s => GInv cfg s /\ NS s)).
  - intros s l s' [Hg Hn] Hs. split; [eapply ginv_step; eauto | eapply ns_step; eauto].
  - split; [apply ginv_init | apply ns_init; exact Hns].
Qed.

(* the node's loop can always take a queued completion (it never leaves its select without Stop), so when it
   cannot move the channel is empty *)
Lemma quiet_buffer_empty cfg ev sch :
  no_stop ev -> step (run (init cfg ev) sch) (TNode 0) = None ->
  cbuf (n_pcd (s_node (run (init cfg ev) sch))) = [].
Proof.
  intros Hns H. destruct (ns_run cfg ev sch Hns) as [_ [Hp Hc Hd Ht Hs Hpe Hm Hl Hcap He]].
  set (s := run (init cfg ev) sch) in *.
  unfold step in H. unfold dead in H. rewrite Hp, Hm in H. cbn in H.
  destruct (s_node s) as [cx pc dn ls mp ex bu mn np nn cr en th sp pe] eqn:End. cbn in *. subst cx th sp mn.
  unfold thread_step in H. cbn in H. unfold ch_recv in H.
  destruct (cbuf pc) as [|v rest]; [reflexivity|]. cbn in H. discriminate.
Qed.

Theorem fresh_setup_without_stop cfg ev sch i a :
  no_stop ev -> nth_error (s_asc (run (init cfg ev) sch)) i = Some a -> a_once a = ODone ->
  cbuf (n_pcd (s_node (run (init cfg ev) sch))) = [] ->
  in_map (run (init cfg ev) sch) i = false /\ fresh_setup_processed (run (init cfg ev) sch) i = true.
Proof.
  intros Hns Ha Ho Hb.
  assert (Hm : in_map (run (init cfg ev) sch) i = false).
  { eapply forgotten_all; eauto. rewrite Hb. intros []. }
  split; [exact Hm|]. unfold fresh_setup_processed. rewrite Hm.
  destruct (ns_run cfg ev sch Hns) as [_ [_ _ _ _ _ _ _ Hl _ _]]. rewrite Hl. reflexivity.
Qed.

(* an established association's accept goroutine has long returned *)
Definition EInv (cfg : list acfg) (s : state) : Prop :=
  forall i c a, nth_error cfg i = Some c -> c_first c = None -> nth_error (s_asc s) i = Some a ->
    t_st (a_fst a) = TFinished.

Lemma einv_init cfg ev : EInv cfg (init cfg ev).
Proof.
  intros i c a Hc Hf Ha. unfold init, init_cap in Ha. cbn in Ha. rewrite nth_error_map, Hc in Ha. cbn in Ha.
  injection Ha as <-. destruct c as [sess hb [d|]]; [discriminate|]. reflexivity.
Qed.

Lemma einv_step cfg s l s' : GInv cfg s -> EInv cfg s -> step s l = Some s' -> EInv cfg s'.
Proof.
  intros Hg Hf H. unfold step in H. destruct (dead s); [discriminate|].
  destruct l as [k|alt| | |j r alt].
  - destruct (nth_error (s_env s) k) as [e|]; [|discriminate]. injection H as <-.
    intros i c a Hci Hfi Ha. cbn in Ha.
    destruct e as [x d|x|x| |]; cbn in Ha; try (eapply Hf; eauto; fail);
      (destruct (nth_error (s_asc s) x) as [b|] eqn:Eb; cbn in Ha; [|eapply Hf; eauto]);
      (destruct (Nat.eq_dec x i) as [->|Hne];
       [ rewrite (nth_error_upd_same _ _ _ _ Eb) in Ha; injection Ha as <-;
         pose proof (Hf i c b Hci Hfi Eb) as H1; destruct b; exact H1
       | rewrite nth_error_upd_other in Ha by exact Hne; eapply Hf; eauto ]).
  - destruct (Nat.leb 3 alt); [discriminate|].
    destruct (thread_step 0 RNode alt (s_node s) assoc0 (n_thr (s_node s))) as [[[nd' a'] t']| |site];
      try discriminate; injection H as <-; exact Hf.
  - destruct (thread_step 0 RStop 0 (s_node s) assoc0 (n_stop (s_node s))) as [[[nd' a'] t']| |site];
      try discriminate; injection H as <-; exact Hf.
  - destruct (thread_step 0 RPeers 0 (s_node s) assoc0 (n_peers (s_node s))) as [[[nd' a'] t']| |site];
      try discriminate; injection H as <-; exact Hf.
  - destruct (negb (is_assoc_role r) || Nat.leb 3 alt) eqn:Eg; [discriminate|].
    apply orb_false_elim in Eg. destruct Eg as [Er _]. apply negb_false_iff in Er.
    destruct (nth_error (s_asc s) j) as [b|] eqn:Eb; [|discriminate].
    destruct (Forall2_nth _ _ _ _ _ Hg Eb) as (se & Hse & Hb).
    pose proof (step_assoc se (N.of_nat j) r alt (s_node s) b _ Er Hb eq_refl) as Hstep.
    destruct (thread_step (N.of_nat j) r alt (s_node s) b (get_thr b r)) as [[[nd' a'] t']| |site];
      try discriminate; injection H as <-; [|exact Hf].
    destruct Hstep as [[_ (_ & _ & _ & _ & _ & _ & _ & _ & D4)] _].
    intros i c a Hci Hfi Ha. cbn in Ha. destruct (Nat.eq_dec j i) as [->|Hne].
    + rewrite (nth_error_upd_same _ _ _ _ Eb) in Ha. injection Ha as <-. apply D4. eapply Hf; eauto.
    + rewrite nth_error_upd_other in Ha by exact Hne. eapply Hf; eauto.
Qed.

Lemma einv_run cfg ev sch : EInv cfg (run (init cfg ev) sch).
Proof.
  assert (H : GInv cfg (run (init cfg ev) sch) /\ EInv cfg (run (init cfg ev) sch)).
  { unfold run. apply (run_inv state tid step (fun s => GInv cfg s /\ EInv cfg s)).
    - intros s l s' [Hg He] Hs. split; [eapply ginv_step; eauto | eapply einv_step; eauto].
    - split; [apply ginv_init | apply einv_init]. }
  destruct H as [_ H]. exact H.
Qed.
