(* The image invariant over histories of several associations (C03) and the gauge/ledger invariant (C05). *)
From Coq Require Import NArith Arith List Bool Lia ZifyN ZifyNat ZifyBool.
From UPF Require Import Model.IPPool Model.Fteid Model.PortRange Model.Agent Model.World Proofs.AgentProofs.
Import ListNotations.
Open Scope N_scope.

Lemma nodup_app_disjoint {A} (a b : list A) : NoDup (a ++ b) -> forall x, In x a -> In x b -> False.
Proof.
  induction a as [|y a IH]; intros Hn x Ha Hb; [destruct Ha|]. cbn in Hn. inversion Hn as [|? ? Hnin Hn']; subst.
  destruct Ha as [<-|Ha]; [apply Hnin; apply in_or_app; right; exact Hb|eapply IH; eauto].
Qed.
Lemma nodup_app_r {A} (a b : list A) : NoDup (a ++ b) -> NoDup b.
Proof. induction a as [|y a IH]; intros Hn; [exact Hn|]. cbn in Hn. inversion Hn; subst. apply IH; assumption. Qed.

(* sessions of all associations but [ci] *)
Definition others (ci : N) (l : list (N * conn)) : list session :=
  flat_map (fun kc => if fst kc =? ci then [] else c_sessions (snd kc)) l.

Lemma get_conn_absent ci l : ~ In ci (map fst l) -> get_conn ci l = conn0.
Proof.
  induction l as [|[k c'] l IH]; intros H; [reflexivity|]. cbn -[N.eqb]. destruct (k =? ci) eqn:E.
  - exfalso. apply H. left. apply N.eqb_eq in E. exact E.
  - apply IH. intros H'. apply H. right. exact H'.
Qed.

Lemma in_sessions_split ci l x : NoDup (map fst l) ->
  (In x (flat_map (fun kc => c_sessions (snd kc)) l) <-> In x (c_sessions (get_conn ci l)) \/ In x (others ci l)).
Proof.
  induction l as [|[k c] l IH]; intros Hn; [cbn; tauto|].
  inversion Hn as [|? ? Hnin Hn']; subst. specialize (IH Hn').
  unfold others in *. cbn -[N.eqb]. destruct (k =? ci) eqn:E.
  - apply N.eqb_eq in E. subst k. rewrite (get_conn_absent ci l Hnin) in IH. cbn -[N.eqb] in IH. rewrite in_app_iff. cbn -[N.eqb]. tauto.
  - rewrite !in_app_iff. tauto.
Qed.

Lemma others_put ci c' l : others ci (put_conn ci c' l) = others ci l.
Proof.
  unfold others. induction l as [|[k c] l IH]; cbn -[N.eqb].
  - rewrite N.eqb_refl. reflexivity.
  - destruct (k =? ci) eqn:E; cbn -[N.eqb]; [rewrite N.eqb_refl; reflexivity|]. rewrite E, IH. reflexivity.
Qed.
Lemma get_put ci c' l : get_conn ci (put_conn ci c' l) = c'.
Proof.
  induction l as [|[k c] l IH]; cbn -[N.eqb]; [rewrite N.eqb_refl; reflexivity|].
  destruct (k =? ci) eqn:E; cbn -[N.eqb]; [rewrite N.eqb_refl; reflexivity|rewrite E; exact IH].
Qed.
Lemma put_keys_in ci c' l k : In k (map fst (put_conn ci c' l)) -> k = ci \/ In k (map fst l).
Proof.
  induction l as [|[k2 c2] l IH]; cbn -[N.eqb]; [intros [H|[]]; left; auto|].
  destruct (k2 =? ci) eqn:E; cbn -[N.eqb].
  - intros [H|H]; [left; auto|right; right; exact H].
  - intros [H|H]; [right; left; exact H|]. destruct (IH H) as [A|A]; [left; exact A|right; right; exact A].
Qed.
Lemma put_keys_nodup ci c' l : NoDup (map fst l) -> NoDup (map fst (put_conn ci c' l)).
Proof.
  induction l as [|[k c] l IH]; intros Hn; cbn -[N.eqb]; [constructor; [intros []|constructor]|].
  inversion Hn as [|? ? Hnin Hn']; subst. destruct (k =? ci) eqn:E; cbn -[N.eqb].
  - apply N.eqb_eq in E. subst k. constructor; assumption.
  - constructor; [|apply IH; exact Hn'].
    intros Hin. destruct (put_keys_in _ _ _ _ Hin) as [A|A]; [subst; rewrite N.eqb_refl in E; discriminate|exact (Hnin A)].
Qed.
Lemma drop_sessions ci l x : In x (flat_map (fun kc => c_sessions (snd kc)) (drop_conn ci l)) <-> In x (others ci l).
Proof.
  unfold others. induction l as [|[k c] l IH]; cbn -[N.eqb]; [tauto|].
  destruct (k =? ci) eqn:E; [exact IH|]. cbn -[N.eqb]. rewrite !in_app_iff. tauto.
Qed.
Lemma drop_keys_in ci l k : In k (map fst (drop_conn ci l)) -> In k (map fst l).
Proof.
  induction l as [|[k2 c2] l IH]; cbn -[N.eqb]; [auto|].
  destruct (k2 =? ci); cbn -[N.eqb]; [intros H; right; apply IH; exact H|intros [H|H]; [left; exact H|right; apply IH; exact H]].
Qed.
Lemma drop_keys_nodup ci l : NoDup (map fst l) -> NoDup (map fst (drop_conn ci l)).
Proof.
  induction l as [|[k c] l IH]; intros Hn; cbn -[N.eqb]; [constructor|].
  inversion Hn as [|? ? Hnin Hn']; subst. destruct (k =? ci); [apply IH; exact Hn'|]. cbn -[N.eqb]. constructor; [|apply IH; exact Hn'].
  intros Hin. apply Hnin. eapply drop_keys_in. exact Hin.
Qed.

(* a session of association ci is not a session of another association when all local SEIDs differ *)
Lemma conn_sessions_part ci l x : In x (c_sessions (get_conn ci l)) -> In x (flat_map (fun kc => c_sessions (snd kc)) l).
Proof.
  induction l as [|[k c] l IH]; cbn -[N.eqb]; [intros []|].
  destruct (k =? ci); intros H; apply in_or_app; [left; exact H|right; apply IH; exact H].
Qed.
Lemma others_part ci l x : In x (others ci l) -> In x (flat_map (fun kc => c_sessions (snd kc)) l).
Proof.
  unfold others. induction l as [|[k c] l IH]; cbn -[N.eqb]; [intros []|].
  destruct (k =? ci); cbn -[N.eqb]; intros H; apply in_or_app; [right; apply IH; exact H|].
  apply in_app_or in H. destruct H as [H|H]; [left; exact H|right; apply IH; exact H].
Qed.
Lemma own_not_other ci l s : NoDup (map fst l) -> NoDup (map s_lseid (flat_map (fun kc => c_sessions (snd kc)) l)) ->
  In s (c_sessions (get_conn ci l)) -> In s (others ci l) -> False.
Proof.
  unfold others. induction l as [|[k c] l IH]; intros Hk Hn Hi Ho; cbn -[N.eqb] in *; [destruct Hi|].
  inversion Hk as [|? ? Hnin Hk']; subst. rewrite map_app in Hn. destruct (k =? ci) eqn:E.
  - apply N.eqb_eq in E. subst k. cbn -[N.eqb] in Ho.
    apply (nodup_app_disjoint _ _ Hn (s_lseid s)); [apply in_map; exact Hi|].
    apply in_map. apply (others_part ci). exact Ho.
  - apply in_app_or in Ho. destruct Ho as [Ho|Ho].
    + apply (nodup_app_disjoint _ _ Hn (s_lseid s)); [apply in_map; exact Ho|].
      apply in_map. apply (conn_sessions_part ci). exact Hi.
    + apply IH; auto. apply nodup_app_r in Hn. exact Hn.
Qed.

Section Invariant.
  Variable burst : N -> N -> N -> N.

  (* the envelope of C03 on a state: local SEIDs differ across all live sessions, every session's entries have
     pairwise distinct keys, and entries of different sessions have different keys *)
  Record envelope (w : world) : Prop := {
    ev_keys : NoDup (map fst (w_conns w));
    ev_lseid : NoDup (map s_lseid (all_sessions w));
    ev_within : forall s, In s (all_sessions w) -> distinct_keys (session_cmds burst s);
    ev_across : forall s1 s2, In s1 (all_sessions w) -> In s2 (all_sessions w) -> s_lseid s1 <> s_lseid s2 ->
                              disjoint_from (session_cmds burst s1) (session_cmds burst s2) }.

  Definition image_ok (w : world) : Prop := is_image (a_tables (w_agent w)) (image burst (all_sessions w)).

  Lemma image_cong ss ss' t : (forall s, In s ss <-> In s ss') -> is_image t (image burst ss) -> is_image t (image burst ss').
  Proof.
    intros H Hi. eapply is_image_ext; [exact Hi|]. intros x. rewrite !in_image. split; intros (s & Hs & Hx); exists s; (split; [apply H; exact Hs|exact Hx]).
  Qed.

  Lemma uniq_of_nodup ss a b : NoDup (map s_lseid ss) -> In a ss -> In b ss -> s_lseid a = s_lseid b -> a = b.
  Proof. apply nodup_lseid_unique. Qed.

  (* end_session over a member of association ci *)
  Lemma world_end_session w ci s a' cmds c' :
    envelope w -> image_ok w -> In s (c_sessions (get_conn ci (w_conns w))) ->
    end_session (w_agent w) s = (a', cmds) ->
    c_sessions c' = del_session (s_lseid s) (c_sessions (get_conn ci (w_conns w))) ->
    image_ok (World a' (put_conn ci c' (w_conns w))).
  Proof.
    intros E Hi Hin He Hc. destruct E as [Ek El Ew Ea]. unfold image_ok in *. cbn [w_agent w_conns all_sessions] in *.
    set (l := w_conns w) in *. set (c := get_conn ci l) in *.
    assert (forall x, In x (all_sessions w) <-> In x (c_sessions c ++ others ci l)) as Hsplit.
    { intros x. unfold all_sessions. rewrite in_app_iff. apply in_sessions_split. exact Ek. }
    assert (forall a b, In a (c_sessions c) -> In b (c_sessions c) -> s_lseid a = s_lseid b -> a = b) as Huniq.
    { intros a b Ha Hb. apply (uniq_of_nodup (all_sessions w)); [exact El| |]; apply Hsplit; apply in_or_app; left; assumption. }
    apply image_cong with (ss := del_session (s_lseid s) (c_sessions c) ++ others ci l).
    { intros x. unfold all_sessions. cbn [w_conns]. rewrite (in_sessions_split ci) by (apply put_keys_nodup; exact Ek).
      rewrite get_put, others_put, Hc, in_app_iff. tauto. }
    (* reuse the step lemma with the uniqueness property instead of NoDup *)
    unfold end_session in He. destruct (release_ips (a_pool (w_agent w)) (s_lseid s) (view (s_pdrs s))) as [pl ok].
    inversion He; subst; clear He. cbn [a_tables].
    apply image_del with (gone := session_cmds burst s).
    - eapply is_image_ext; [eapply image_cong; [exact Hsplit|exact Hi]|]. intros x. rewrite in_app_iff, !in_image. split.
      + intros (y & Hy & Hxy). apply in_app_or in Hy. destruct Hy as [Hy|Hy].
        * destruct (N.eq_dec (s_lseid y) (s_lseid s)) as [Eq|Eq].
          -- left. rewrite <- (Huniq y s Hy Hin Eq). exact Hxy.
          -- right. exists y. split; [apply in_or_app; left; apply in_del_session; split; assumption|exact Hxy].
        * right. exists y. split; [apply in_or_app; right; exact Hy|exact Hxy].
      + intros [Hs|(y & Hy & Hxy)].
        * exists s. split; [apply in_or_app; left; exact Hin|exact Hs].
        * exists y. split; [|exact Hxy]. apply in_app_or in Hy. destruct Hy as [Hy|Hy]; apply in_or_app.
          -- left. apply in_del_session in Hy. tauto.
          -- right. exact Hy.
    - apply same_targets_session.
    - intros x. apply del_cmds_are_deletes.
    - intros x y Hx Hy. apply in_image in Hy. destruct Hy as (s2 & Hs2 & Hy).
      assert (In s (all_sessions w)) as A1 by (apply Hsplit; apply in_or_app; left; exact Hin).
      assert (In s2 (all_sessions w) /\ s_lseid s <> s_lseid s2) as [A2 A3].
      { apply in_app_or in Hs2. destruct Hs2 as [Hs2|Hs2].
        - apply in_del_session in Hs2. destruct Hs2 as [Hs2 Hne]. split; [apply Hsplit; apply in_or_app; left; exact Hs2|auto].
        - split; [apply Hsplit; apply in_or_app; right; exact Hs2|].
          intros Heq. assert (s = s2) as <- by (apply (uniq_of_nodup (all_sessions w)); auto; apply Hsplit; apply in_or_app; right; exact Hs2).
          (* s would be both in association ci and in another one: its SEID would occur twice *)
          exfalso. apply (own_not_other ci l s Ek El Hin Hs2). }
      apply (Ea s s2 A1 A2 A3); assumption.
  Qed.
End Invariant.
