(* The image invariant over histories of several associations (C03) and the gauge/ledger invariant (C05). *)
From Coq Require Import NArith Arith List Bool Lia ZifyN ZifyNat ZifyBool.
From UPF Require Import Model.IPPool Model.Fteid Model.PortRange Model.Agent Model.World Proofs.AgentProofs.
Import ListNotations.
Open Scope N_scope.

Lemma nodup_app_disjoint {A} (a b : list A) : NoDup (a ++ b) -> forall x, In x a -> In x b -> False.
Proof.
  induction a as [|y a IH]; intros Hn x Ha Hb; [destruct Ha|]. cbn in Hn. inversion Hn as [|? ? Hnin Hn']; subst.
  destruct Ha as [<-|Ha]; [apply Hnin; apply in_or_app; right; exact Hb|eapply IH; eauto].
Qed.
Lemma nodup_app_r {A} (a b : list A) : NoDup (a ++ b) -> NoDup b.
Proof. induction a as [|y a IH]; intros Hn; [exact Hn|]. cbn in Hn. inversion Hn; subst. apply IH; assumption. Qed.

(* sessions of all associations but [ci] *)
Definition others (ci : N) (l : list (N * conn)) : list session :=
  flat_map (fun kc => if fst kc =? ci then [] else c_sessions (snd kc)) l.

Lemma get_conn_absent ci l : ~ In ci (map fst l) -> get_conn ci l = conn0.
Proof.
  induction l as [|[k c'] l IH]; intros H; [reflexivity|]. cbn -[N.eqb]. destruct (k =? ci) eqn:E.
  - exfalso. apply H. left. apply N.eqb_eq in E. exact E.
  - apply IH. intros H'. apply H. right. exact H'.
Qed.

Lemma in_sessions_split ci l x : NoDup (map fst l) ->
  (In x (flat_map (fun kc => c_sessions (snd kc)) l) <-> In x (c_sessions (get_conn ci l)) \/ In x (others ci l)).
Proof.
  induction l as [|[k c] l IH]; intros Hn; [cbn; tauto|].
  inversion Hn as [|? ? Hnin Hn']; subst. specialize (IH Hn').
  unfold others in *. cbn -[N.eqb]. destruct (k =? ci) eqn:E.
  - apply N.eqb_eq in E. subst k. rewrite (get_conn_absent ci l Hnin) in IH. cbn -[N.eqb] in IH. rewrite in_app_iff. cbn -[N.eqb]. tauto.
  - rewrite !in_app_iff. tauto.
Qed.

Lemma others_put ci c' l : others ci (put_conn ci c' l) = others ci l.
Proof.
  unfold others. induction l as [|[k c] l IH]; cbn -[N.eqb].
  - rewrite N.eqb_refl. reflexivity.
  - destruct (k =? ci) eqn:E; cbn -[N.eqb]; [rewrite N.eqb_refl; reflexivity|]. rewrite E, IH. reflexivity.
Qed.
Lemma get_put ci c' l : get_conn ci (put_conn ci c' l) = c'.
Proof.
  induction l as [|[k c] l IH]; cbn -[N.eqb]; [rewrite N.eqb_refl; reflexivity|].
  destruct (k =? ci) eqn:E; cbn -[N.eqb]; [rewrite N.eqb_refl; reflexivity|rewrite E; exact IH].
Qed.
Lemma put_keys_in ci c' l k : In k (map fst (put_conn ci c' l)) -> k = ci \/ In k (map fst l).
Proof.
  induction l as [|[k2 c2] l IH]; cbn -[N.eqb]; [intros [H|[]]; left; auto|].
  destruct (k2 =? ci) eqn:E; cbn -[N.eqb].
  - intros [H|H]; [left; auto|right; right; exact H].
  - intros [H|H]; [right; left; exact H|]. destruct (IH H) as [A|A]; [left; exact A|right; right; exact A].
Qed.
Lemma put_keys_nodup ci c' l : NoDup (map fst l) -> NoDup (map fst (put_conn ci c' l)).
Proof.
  induction l as [|[k c] l IH]; intros Hn; cbn -[N.eqb]; [constructor; [intros []|constructor]|].
  inversion Hn as [|? ? Hnin Hn']; subst. destruct (k =? ci) eqn:E; cbn -[N.eqb].
  - apply N.eqb_eq in E. subst k. constructor; assumption.
  - constructor; [|apply IH; exact Hn'].
    intros Hin. destruct (put_keys_in _ _ _ _ Hin) as [A|A]; [subst; rewrite N.eqb_refl in E; discriminate|exact (Hnin A)].
Qed.
Lemma drop_sessions ci l x : In x (flat_map (fun kc => c_sessions (snd kc)) (drop_conn ci l)) <-> In x (others ci l).
Proof.
  unfold others. induction l as [|[k c] l IH]; cbn -[N.eqb]; [tauto|].
  destruct (k =? ci) eqn:E; [exact IH|]. cbn -[N.eqb]. rewrite !in_app_iff. tauto.
Qed.
Lemma drop_keys_in ci l k : In k (map fst (drop_conn ci l)) -> In k (map fst l).
Proof.
  induction l as [|[k2 c2] l IH]; cbn -[N.eqb]; [auto|].
  destruct (k2 =? ci); cbn -[N.eqb]; [intros H; right; apply IH; exact H|intros [H|H]; [left; exact H|right; apply IH; exact H]].
Qed.
Lemma drop_keys_nodup ci l : NoDup (map fst l) -> NoDup (map fst (drop_conn ci l)).
Proof.
  induction l as [|[k c] l IH]; intros Hn; cbn -[N.eqb]; [constructor|].
  inversion Hn as [|? ? Hnin Hn']; subst. destruct (k =? ci); [apply IH; exact Hn'|]. cbn -[N.eqb]. constructor; [|apply IH; exact Hn'].
  intros Hin. apply Hnin. eapply drop_keys_in. exact Hin.
Qed.

(* a session of association ci is not a session of another association when all local SEIDs differ *)
Lemma conn_sessions_part ci l x : In x (c_sessions (get_conn ci l)) -> In x (flat_map (fun kc => c_sessions (snd kc)) l).
Proof.
  induction l as [|[k c] l IH]; cbn -[N.eqb]; [intros []|].
  destruct (k =? ci); intros H; apply in_or_app; [left; exact H|right; apply IH; exact H].
Qed.
Lemma others_part ci l x : In x (others ci l) -> In x (flat_map (fun kc => c_sessions (snd kc)) l).
Proof.
  unfold others. induction l as [|[k c] l IH]; cbn -[N.eqb]; [intros []|].
  destruct (k =? ci); cbn -[N.eqb]; intros H; apply in_or_app; [right; apply IH; exact H|].
  apply in_app_or in H. destruct H as [H|H]; [left; exact H|right; apply IH; exact H].
Qed.
Lemma own_not_other ci l s : NoDup (map fst l) -> NoDup (map s_lseid (flat_map (fun kc => c_sessions (snd kc)) l)) ->
  In s (c_sessions (get_conn ci l)) -> In s (others ci l) -> False.
Proof.
  unfold others. induction l as [|[k c] l IH]; intros Hk Hn Hi Ho; cbn -[N.eqb] in *; [destruct Hi|].
  inversion Hk as [|? ? Hnin Hk']; subst. rewrite map_app in Hn. destruct (k =? ci) eqn:E.
  - apply N.eqb_eq in E. subst k. cbn -[N.eqb] in Ho.
    apply (nodup_app_disjoint _ _ Hn (s_lseid s)); [apply in_map; exact Hi|].
    apply in_map. apply (others_part ci). exact Ho.
  - apply in_app_or in Ho. destruct Ho as [Ho|Ho].
    + apply (nodup_app_disjoint _ _ Hn (s_lseid s)); [apply in_map; exact Ho|].
      apply in_map. apply (conn_sessions_part ci). exact Hi.
    + apply IH; auto. apply nodup_app_r in Hn. exact Hn.
Qed.

Section Invariant.
  Variable burst : N -> N -> N -> N.

  (* the envelope of C03 on a state: local SEIDs differ across all live sessions, every session's entries have
     pairwise distinct keys, and entries of different sessions have different keys *)
  Record envelope (w : world) : Prop := {
    ev_keys : NoDup (map fst (w_conns w));
    ev_lseid : NoDup (map s_lseid (all_sessions w));
    ev_within : forall s, In s (all_sessions w) -> distinct_keys (session_cmds burst s);
    ev_across : forall s1 s2, In s1 (all_sessions w) -> In s2 (all_sessions w) -> s_lseid s1 <> s_lseid s2 ->
                              disjoint_from (session_cmds burst s1) (session_cmds burst s2) }.

  Definition image_ok (w : world) : Prop := is_image (a_tables (w_agent w)) (image burst (all_sessions w)).

  Lemma image_cong ss ss' t : (forall s, In s ss <-> In s ss') -> is_image t (image burst ss) -> is_image t (image burst ss').
  Proof.
    intros H Hi. eapply is_image_ext; [exact Hi|]. intros x. rewrite !in_image. split; intros (s & Hs & Hx); exists s; (split; [apply H; exact Hs|exact Hx]).
  Qed.

  Lemma uniq_of_nodup ss a b : NoDup (map s_lseid ss) -> In a ss -> In b ss -> s_lseid a = s_lseid b -> a = b.
  Proof. apply nodup_lseid_unique. Qed.

  (* end_session over a member of association ci *)
  (* the datapath effect of ending session s of association ci, whatever else the handler does to the agent *)
  Lemma world_end_session w ci s a' c' :
    envelope w -> image_ok w -> In s (c_sessions (get_conn ci (w_conns w))) ->
    a_tables a' = apply_cmds (del_cmds (view (s_pdrs s)) (view (s_fars s)) (view (s_qers s))) (a_tables (w_agent w)) ->
    c_sessions c' = del_session (s_lseid s) (c_sessions (get_conn ci (w_conns w))) ->
    image_ok (World a' (put_conn ci c' (w_conns w))).
  Proof.
    intros E Hi Hin He Hc. destruct E as [Ek El Ew Ea]. unfold image_ok in *. cbn [w_agent w_conns all_sessions] in *.
    set (l := w_conns w) in *. set (c := get_conn ci l) in *.
    assert (forall x, In x (all_sessions w) <-> In x (c_sessions c ++ others ci l)) as Hsplit.
    { intros x. unfold all_sessions. rewrite in_app_iff. apply in_sessions_split. exact Ek. }
    assert (forall a b, In a (c_sessions c) -> In b (c_sessions c) -> s_lseid a = s_lseid b -> a = b) as Huniq.
    { intros a b Ha Hb. apply (uniq_of_nodup (all_sessions w)); [exact El| |]; apply Hsplit; apply in_or_app; left; assumption. }
    apply image_cong with (ss := del_session (s_lseid s) (c_sessions c) ++ others ci l).
    { intros x. unfold all_sessions. cbn [w_conns]. rewrite (in_sessions_split ci) by (apply put_keys_nodup; exact Ek).
      rewrite get_put, others_put, Hc, in_app_iff. tauto. }
    (* reuse the step lemma with the uniqueness property instead of NoDup *)
    rewrite He.
    apply image_del with (gone := session_cmds burst s).
    - eapply is_image_ext; [eapply image_cong; [exact Hsplit|exact Hi]|]. intros x. rewrite in_app_iff, !in_image. split.
      + intros (y & Hy & Hxy). apply in_app_or in Hy. destruct Hy as [Hy|Hy].
        * destruct (N.eq_dec (s_lseid y) (s_lseid s)) as [Eq|Eq].
          -- left. rewrite <- (Huniq y s Hy Hin Eq). exact Hxy.
          -- right. exists y. split; [apply in_or_app; left; apply in_del_session; split; assumption|exact Hxy].
        * right. exists y. split; [apply in_or_app; right; exact Hy|exact Hxy].
      + intros [Hs|(y & Hy & Hxy)].
        * exists s. split; [apply in_or_app; left; exact Hin|exact Hs].
        * exists y. split; [|exact Hxy]. apply in_app_or in Hy. destruct Hy as [Hy|Hy]; apply in_or_app.
          -- left. apply in_del_session in Hy. tauto.
          -- right. exact Hy.
    - apply same_targets_session.
    - intros x. apply del_cmds_are_deletes.
    - intros x y Hx Hy. apply in_image in Hy. destruct Hy as (s2 & Hs2 & Hy).
      assert (In s (all_sessions w)) as A1 by (apply Hsplit; apply in_or_app; left; exact Hin).
      assert (In s2 (all_sessions w) /\ s_lseid s <> s_lseid s2) as [A2 A3].
      { apply in_app_or in Hs2. destruct Hs2 as [Hs2|Hs2].
        - apply in_del_session in Hs2. destruct Hs2 as [Hs2 Hne]. split; [apply Hsplit; apply in_or_app; left; exact Hs2|auto].
        - split; [apply Hsplit; apply in_or_app; right; exact Hs2|].
          intros Heq. assert (s = s2) as <- by (apply (uniq_of_nodup (all_sessions w)); auto; apply Hsplit; apply in_or_app; right; exact Hs2).
          (* s would be both in association ci and in another one: its SEID would occur twice *)
          exfalso. apply (own_not_other ci l s Ek El Hin Hs2). }
      apply (Ea s s2 A1 A2 A3); assumption.
  Qed.

  Definition sdel (s : session) : list cmd := del_cmds (view (s_pdrs s)) (view (s_fars s)) (view (s_qers s)).

  Lemma apply_cmds_app a b t : apply_cmds (a ++ b) t = apply_cmds b (apply_cmds a t).
  Proof. unfold apply_cmds. apply fold_left_app. Qed.

  Lemma shutdown_tables : forall ss a a' cmds,
    shutdown_sessions a ss = (a', cmds) -> a_tables a' = apply_cmds (flat_map sdel ss) (a_tables a).
  Proof.
    induction ss as [|s ss IH]; intros a a' cmds H; cbn [shutdown_sessions flat_map] in *; [inversion H; reflexivity|].
    destruct (end_session a s) as [a1 c1] eqn:E1. destruct (shutdown_sessions a1 ss) as [a2 c2] eqn:E2. inversion H; subst; clear H.
    rewrite apply_cmds_app, (IH _ _ _ E2). f_equal.
    unfold end_session in E1. destruct (release_ips (a_pool a) (s_lseid s) (view (s_pdrs s))) as [pl ok]. inversion E1; reflexivity.
  Qed.

  Lemma same_targets_flat ss : same_targets (flat_map sdel ss) (image burst ss).
  Proof.
    split.
    - intros d Hd. apply in_flat_map in Hd. destruct Hd as (s & Hs & Hd).
      destruct (same_targets_session burst s) as [T1 _]. destruct (T1 d Hd) as (c & Hc & A & B).
      exists c. split; [apply in_image; exists s; split; assumption|split; assumption].
    - intros c Hc. apply in_image in Hc. destruct Hc as (s & Hs & Hc).
      destruct (same_targets_session burst s) as [_ T2]. destruct (T2 c Hc) as (d & Hd & A & B).
      exists d. split; [apply in_flat_map; exists s; split; assumption|split; assumption].
  Qed.

  Lemma world_shutdown w ci a' cmds :
    envelope w -> image_ok w ->
    shutdown_sessions (w_agent w) (c_sessions (get_conn ci (w_conns w))) = (a', cmds) ->
    image_ok (World a' (drop_conn ci (w_conns w))).
  Proof.
    intros E Hi Hs. destruct E as [Ek El Ew Ea]. unfold image_ok in *. cbn [w_agent w_conns] in *.
    set (l := w_conns w) in *. set (c := get_conn ci l) in *.
    assert (forall x, In x (all_sessions w) <-> In x (c_sessions c ++ others ci l)) as Hsplit.
    { intros x. unfold all_sessions. rewrite in_app_iff. apply in_sessions_split. exact Ek. }
    apply image_cong with (ss := others ci l).
    { intros x. unfold all_sessions. cbn [w_conns]. symmetry. apply drop_sessions. }
    rewrite (shutdown_tables _ _ _ _ Hs).
    apply image_del with (gone := image burst (c_sessions c)).
    - eapply is_image_ext; [eapply image_cong; [exact Hsplit|exact Hi]|]. intros x.
      rewrite in_app_iff, !in_image. split.
      + intros (y & Hy & Hxy). apply in_app_or in Hy. destruct Hy as [Hy|Hy]; [left|right]; exists y; split; assumption.
      + intros [(y & Hy & Hxy)|(y & Hy & Hxy)]; exists y; (split; [apply in_or_app; auto|exact Hxy]).
    - apply same_targets_flat.
    - intros x Hx. apply in_flat_map in Hx. destruct Hx as (s & _ & Hx). eapply del_cmds_are_deletes. exact Hx.
    - intros x y Hx Hy. apply in_image in Hx. apply in_image in Hy. destruct Hx as (s1 & H1 & Hx). destruct Hy as (s2 & H2 & Hy).
      assert (In s1 (all_sessions w)) as A1 by (apply Hsplit; apply in_or_app; left; exact H1).
      assert (In s2 (all_sessions w)) as A2 by (apply Hsplit; apply in_or_app; right; exact H2).
      apply (Ea s1 s2 A1 A2); try assumption.
      intros Heq. assert (s1 = s2) as <- by (apply (uniq_of_nodup (all_sessions w)); auto).
      exact (own_not_other ci l s1 Ek El H1 H2).
  Qed.

  (* a step that changes neither the tables nor the session list of association ci *)
  Lemma world_unchanged w ci a' c' :
    envelope w -> image_ok w -> a_tables a' = a_tables (w_agent w) ->
    c_sessions c' = c_sessions (get_conn ci (w_conns w)) ->
    image_ok (World a' (put_conn ci c' (w_conns w))).
  Proof.
    intros E Hi Ht Hc. destruct E as [Ek _ _ _]. unfold image_ok in *. cbn [w_agent w_conns] in *. rewrite Ht.
    eapply image_cong; [|exact Hi]. intros x. unfold all_sessions. cbn [w_conns].
    rewrite (in_sessions_split ci (w_conns w)) by exact Ek.
    rewrite (in_sessions_split ci (put_conn ci c' (w_conns w))) by (apply put_keys_nodup; exact Ek).
    rewrite get_put, others_put, Hc. tauto.
  Qed.

  (* accepted establishment on association ci; the envelope is needed of the state AFTER the step *)
  Lemma world_establish w ci nid cpf pdrs fars qers draws a' c' rseid n l cr cmds ms sd :
    envelope w -> envelope (World a' (put_conn ci c' (w_conns w))) -> image_ok w ->
    handle_est burst (w_agent w) (get_conn ci (w_conns w)) nid cpf pdrs fars qers draws
      = Done (a', c', Out (Some (REst rseid CAUSE_OK n (Some l) cr)) cmds ms sd) ->
    image_ok (World a' (put_conn ci c' (w_conns w))).
  Proof.
    intros E E' Hi H. destruct E as [Ek El Ew Ea]. destruct E' as [Ek' El' Ew' Ea'].
    unfold image_ok in *. cbn [w_agent w_conns] in *.
    set (lc := w_conns w) in *. set (c := get_conn ci lc) in *.
    destruct (est_accepted burst _ _ _ _ _ _ _ _ _ _ _ _ _ _ _ _ _ H) as (l' & s & Hup & Hnz & _ & Hnin & Hf & Hl & _).
    assert (l' = l) as El2 by (inversion Hup; reflexivity). rewrite El2 in *. clear El2 Hup.
    assert (forall x, In x (all_sessions w) <-> In x (c_sessions c ++ others ci lc)) as Hsplit.
    { intros x. unfold all_sessions. rewrite in_app_iff. apply in_sessions_split. exact Ek. }
    assert (forall x, In x (all_sessions (World a' (put_conn ci c' lc))) <-> In x (c_sessions c' ++ others ci lc)) as Hsplit'.
    { intros x. unfold all_sessions. cbn [w_conns]. rewrite in_app_iff, (in_sessions_split ci) by exact Ek'. rewrite get_put, others_put. tauto. }
    apply image_cong with (ss := c_sessions c' ++ others ci lc); [intros x; symmetry; apply Hsplit'|].
    edestruct (est_accepted_store burst) as (Hs & _ & _); [exact H|exact Hf|].
    eapply est_image_step; [exact H|exact Hf| | |].
    - eapply image_cong; [exact Hsplit|exact Hi].
    - apply Ew'. apply Hsplit'. rewrite Hs. left. reflexivity.
    - intros x y Hx Hy. apply in_image in Hy. destruct Hy as (s2 & H2 & Hy).
      assert (In s (all_sessions (World a' (put_conn ci c' lc)))) as A1 by (apply Hsplit'; rewrite Hs; left; reflexivity).
      assert (In s2 (all_sessions (World a' (put_conn ci c' lc)))) as A2.
      { apply Hsplit'. rewrite Hs. apply in_app_or in H2. destruct H2 as [H2|H2]; [right; apply in_or_app; left; exact H2|right; apply in_or_app; right; exact H2]. }
      apply (Ea' s s2 A1 A2); try assumption.
      (* the new local SEID differs from every other one: the SEIDs of the new state are duplicate free *)
      intros Heq. unfold all_sessions in El'. cbn [w_conns] in El'.
      assert (s = s2) as <- by (apply (uniq_of_nodup _ s s2 El'); auto).
      apply in_app_or in H2. destruct H2 as [H2|H2].
      + apply Hnin. rewrite <- Hl. apply in_map. exact H2.
      + apply (own_not_other ci (put_conn ci c' lc) s Ek' El'); [rewrite get_put, Hs; left; reflexivity|rewrite others_put; exact H2].
  Qed.

  (* ---- one event *)
  Definition is_mod (m : msg) : bool := match m with MMod _ _ _ _ _ _ _ _ _ _ _ => true | _ => false end.
  Definition clean_tables (t : tables) : bool :=
    match t with Tables [] [] [] [] => true | _ => false end.
  (* the events of the partial theorem: no Session Modification; a restart begins with the cleared datapath *)
  Definition ev_ok (e : wevent) : bool :=
    match e with
    | WMsg _ _ m _ => negb (is_mod m)
    | WTeardown _ => true
    | WRestart a0 => clean_tables (a_tables a0)
    end.
  (* the allocation flag of a stored PDR is backed by the pool (true of every reachable state; assumed here) *)
  Definition alloc_backed (w : world) : Prop :=
    forall s, In s (all_sessions w) -> existsb (fun p => p_alloc p && (p_iface p =? CORE)) (view (s_pdrs s)) = true ->
              pool_holds (a_pool (w_agent w)) (s_lseid s) = true.

  Lemma release_ok pl lseid ps : (existsb (fun p => p_alloc p && (p_iface p =? CORE)) ps = true -> pool_holds pl lseid = true) ->
    snd (release_ips pl lseid ps) = true.
  Proof.
    unfold release_ips, pool_holds. destruct (existsb _ ps); [|reflexivity]. intros H. specialize (H eq_refl).
    destruct pl as [po|]; [|discriminate]. unfold dealloc. destruct (lookup lseid (inv po)); [reflexivity|discriminate].
  Qed.

  Lemma image_empty : is_image no_tables [].
  Proof. split; [intros c []|]. intros m k _. destruct m; reflexivity. Qed.

  Lemma wstep_image w e w' o :
    envelope w -> alloc_backed w -> envelope w' -> image_ok w -> ev_ok e = true ->
    wstep burst w e = Done (w', o) -> image_ok w'.
  Proof.
    intros E Hab E' Hi Hok H. destruct e as [ci connected m draws|ci|a0]; cbn [wstep] in H.
    - destruct (handle burst (w_agent w) (get_conn ci (w_conns w)) connected m draws) as [[[a' c'] res]|] eqn:Hh; [|discriminate].
      inversion H; subst w' o; clear H. cbn [ev_ok] in Hok.
      assert (In_conn : forall s, In s (c_sessions (get_conn ci (w_conns w))) -> In s (all_sessions w)).
      { intros s Hs. unfold all_sessions. apply (in_sessions_split ci); [apply E|left; exact Hs]. }
      pose proof Hh as Hh0.
      destruct m; cbn [handle is_mod negb] in Hh, Hok; try discriminate.
      + inversion Hh; subst. cbn [o_shutdown just]. apply world_unchanged; auto.
      + split_all Hh; inversion Hh; subst; cbn [o_shutdown just no_out]; apply world_unchanged; auto.
      + destruct (do_shutdown (w_agent w) (get_conn ci (w_conns w))) as [[a1 c1] cm] eqn:Hd. inversion Hh; subst. cbn [o_shutdown].
        unfold do_shutdown in Hd. destruct (shutdown_sessions (w_agent w) (c_sessions (get_conn ci (w_conns w)))) as [a2 cm2] eqn:Hs.
        inversion Hd; subst. eapply world_shutdown; eauto.
      + split_all Hh; inversion Hh; subst; cbn [o_shutdown just]; apply world_unchanged; auto.
      + destruct res as [r cmds ms sd]. 
        destruct r as [r|].
        2:{ pose proof (handle_reply_matches burst _ _ _ _ _ _ _ _ Hh0) as Hm. cbn in Hm. destruct Hm as (? & ? & ? & ? & ? & Hm). discriminate. }
        destruct r as [| | | |sx cause nx ux crx| |];
          try (pose proof (handle_reply_matches burst _ _ _ _ _ _ _ _ Hh0) as Hm; cbn in Hm; destruct Hm as (? & ? & ? & ? & ? & Hm); discriminate).
        destruct (N.eq_dec cause CAUSE_OK) as [->|Hne].
        * destruct (est_accepted burst _ _ _ _ _ _ _ _ _ _ _ _ _ _ _ _ _ Hh) as (l & s & -> & _ & _ & _ & _ & _ & _ & _ & _ & _ & -> & _).
          cbn [o_shutdown] in *. eapply world_establish; eauto.
        * edestruct (est_rejected burst) as (_ & Ht & Hc & _); [exact Hh| |].
          { intros s0 n0 u0 cr0 Hr. cbn [o_reply] in Hr. inversion Hr. contradiction. }
          assert (sd = false) as ->.
          { clear -Hh. unfold handle_est in Hh. split_all Hh; inversion Hh; reflexivity. }
          cbn [o_shutdown]. subst c'. apply world_unchanged; auto.
      + unfold handle_del in Hh. destruct (find_session seid (c_sessions (get_conn ci (w_conns w)))) as [s|] eqn:Hf.
        2:{ inversion Hh; subst. cbn [o_shutdown just]. apply world_unchanged; auto. }
        pose proof (find_lseid _ _ _ Hf) as Hl. pose proof (find_session_in _ _ _ Hf) as Hin.
        subst seid.
        pose proof (release_ok (a_pool (w_agent w)) (s_lseid s) (view (s_pdrs s))) as Hr.
        specialize (Hr (Hab s (In_conn s Hin))).
        destruct (release_ips (a_pool (w_agent w)) (s_lseid s) (view (s_pdrs s))) as [pl ok]. cbn [snd] in Hr. subst ok.
        inversion Hh; subst. cbn [o_shutdown]. apply (world_end_session w ci s); auto.
      + unfold handle_report_rsp in Hh.
        destruct cause as [[|cz]|]; try (inversion Hh; subst; cbn [o_shutdown no_out]; apply world_unchanged; auto; fail).
        destruct (cz =? CAUSE_NOTFOUND); [|inversion Hh; subst; cbn [o_shutdown no_out]; apply world_unchanged; auto].
        destruct (find_session seid (c_sessions (get_conn ci (w_conns w)))) as [s|] eqn:Hf;
          [|inversion Hh; subst; cbn [o_shutdown no_out]; apply world_unchanged; auto].
        pose proof (find_lseid _ _ _ Hf) as Hl. pose proof (find_session_in _ _ _ Hf) as Hin.
        destruct (end_session (w_agent w) s) as [a1 cm] eqn:He. inversion Hh; subst. cbn [o_shutdown].
        apply (world_end_session w ci s); auto.
        unfold end_session in He. destruct (release_ips _ _ _) as [pl ok]. inversion He; reflexivity.
      + inversion Hh; subst. cbn [o_shutdown no_out]. apply world_unchanged; auto.
      + inversion Hh; subst. cbn [o_shutdown no_out]. apply world_unchanged; auto.
    - destruct (do_shutdown (w_agent w) (get_conn ci (w_conns w))) as [[a1 c1] cm] eqn:Hd. inversion H; subst.
      unfold do_shutdown in Hd. destruct (shutdown_sessions (w_agent w) (c_sessions (get_conn ci (w_conns w)))) as [a2 cm2] eqn:Hs.
      inversion Hd; subst. eapply world_shutdown; eauto.
    - inversion H; subst. unfold image_ok. cbn [w_agent w_conns all_sessions flat_map image]. cbn [ev_ok] in Hok.
      destruct (a_tables a0) as [[|? ?] [|? ?] [|? ?] [|? ?]]; try discriminate. apply image_empty.
  Qed.

  (* ---- histories: the image invariant holds along every history of establishments, deletions, releases,
     teardowns, report responses, restarts and node-level messages (no Session Modification), as long as every
     state the history goes through is inside the envelope *)
  Fixpoint states (w : world) (es : list wevent) : list world :=
    match es with
    | [] => [w]
    | e :: r => w :: match wstep burst w e with Done (w', _) => states w' r | Crash _ => [] end
    end.

  Theorem image_invariant : forall es w w',
    (forall x, In x (states w es) -> envelope x /\ alloc_backed x) ->
    forallb ev_ok es = true -> image_ok w -> wrun burst w es = Done w' -> image_ok w'.
  Proof.
    induction es as [|e es IH]; intros w w' Henv Hok Hi Hr; cbn [wrun states forallb] in *.
    - inversion Hr; subst. exact Hi.
    - apply andb_true_iff in Hok. destruct Hok as [Hok1 Hok2].
      destruct (wstep burst w e) as [[w1 o]|] eqn:Hs; [|discriminate].
      assert (In w1 (states w1 es)) as Hin1 by (destruct es; cbn; auto).
      destruct (Henv w (or_introl eq_refl)) as [E Hab].
      destruct (Henv w1 (or_intror Hin1)) as [E1 _].
      apply (IH w1 w'); [intros x Hx; apply Henv; right; exact Hx|exact Hok2| |exact Hr].
      eapply (wstep_image w e w1 o); eauto.
  Qed.
End Invariant.

(* ------------------------------------------------------------------ histories never crash; the gauge counts the live sessions *)
Section Histories.
  Variable burst : N -> N -> N -> N.

  Lemma wstep_done w e : exists r, wstep burst w e = Done r.
  Proof.
    destruct e as [ci connected m draws|ci|a0]; cbn [wstep].
    - destruct (handle_done burst (w_agent w) (get_conn ci (w_conns w)) connected m draws) as [[[a' c'] res] H]. rewrite H. eexists; reflexivity.
    - destruct (do_shutdown (w_agent w) (get_conn ci (w_conns w))) as [[a' c'] cm]. eexists; reflexivity.
    - eexists; reflexivity.
  Qed.

  Theorem wrun_done : forall es w, exists w', wrun burst w es = Done w'.
  Proof.
    induction es as [|e es IH]; intros w; cbn [wrun]; [eexists; reflexivity|].
    destruct (wstep_done w e) as [[w1 o] H]. rewrite H. apply IH.
  Qed.

  (* whatever the history before (any datagrams on any associations, teardowns, restarts), a heartbeat on any
     association is answered and changes nothing else *)
  Theorem heartbeat_after_any_history : forall es w w' ci connected draws,
    wrun burst w es = Done w' ->
    exists w'', wstep burst w' (WMsg ci connected MHeartbeat draws) = Done (w'', just RHeartbeat) /\ w_agent w'' = w_agent w'.
  Proof. intros es w w' ci connected draws _. cbn [wstep handle]. eexists. split; reflexivity. Qed.
End Histories.

(* ------------------------------------------------------------------ C05: the sessions gauge counts the live sessions, along every history *)
Lemma del_session_nodup l ss : NoDup (map s_lseid ss) -> NoDup (map s_lseid (del_session l ss)).
Proof.
  induction ss as [|s ss IH]; intros H; cbn [del_session]; [constructor|]. inversion H as [|? ? Hnin H']; subst.
  destruct (s_lseid s =? l); [apply IH; exact H'|]. cbn [map]. constructor; [|apply IH; exact H'].
  intros Hin. apply Hnin. apply in_map_iff in Hin. destruct Hin as (x & Hx & Hi). apply in_del_session in Hi. rewrite <- Hx. apply in_map. tauto.
Qed.
Lemma del_session_length l ss s : NoDup (map s_lseid ss) -> find_session l ss = Some s ->
  S (length (del_session l ss)) = length ss.
Proof.
  induction ss as [|x ss IH]; intros Hn Hf; [discriminate|]. cbn [find_session del_session] in *. inversion Hn as [|? ? Hnin Hn']; subst.
  destruct (s_lseid x =? l) eqn:E.
  - apply N.eqb_eq in E. cbn [length]. f_equal. rewrite del_session_absent; [reflexivity|]. rewrite <- E. exact Hnin.
  - cbn [length]. f_equal. apply IH; assumption.
Qed.
Lemma replace_session_lseids s ss : map s_lseid (replace_session s ss) = map s_lseid ss.
Proof.
  unfold replace_session. rewrite map_map. apply map_ext_in. intros x _. destruct (s_lseid x =? s_lseid s) eqn:E; [apply N.eqb_eq in E; auto|reflexivity].
Qed.

Section Gauge.
  Variable burst : N -> N -> N -> N.

  Lemma handle_counts a c connected m draws a' c' o :
    handle burst a c connected m draws = Done (a', c', o) ->
    NoDup (map s_lseid (c_sessions c)) -> N.of_nat (length (c_sessions c)) <= a_gauge a ->
    a_gauge a' + N.of_nat (length (c_sessions c)) = a_gauge a + N.of_nat (if o_shutdown o then 0 else length (c_sessions c')) /\
    NoDup (map s_lseid (c_sessions c')).
  Proof.
    intros H Hn Hg. destruct m; cbn [handle] in H.
    - inversion H; subst. cbn. split; [lia|exact Hn].
    - split_all H; inversion H; subst; cbn; (split; [lia|exact Hn]).
    - destruct (do_shutdown a c) as [[a1 c1] cm] eqn:Hd. inversion H; subst. unfold do_shutdown in Hd.
      destruct (shutdown_sessions a (c_sessions c)) as [a2 cm2] eqn:Hs. inversion Hd; subst.
      destruct (shutdown_sessions_reclaims _ _ _ _ Hn Hs) as (_ & G & _). cbn [o_shutdown c_sessions]. split; [rewrite G; lia|constructor].
    - split_all H; inversion H; subst; cbn; (split; [lia|exact Hn]).
    - destruct o as [r cmds ms sd]. destruct r as [r|].
      2:{ pose proof (handle_reply_matches burst a c connected (MEst nodeid cpfseid pdrs fars qers) draws _ _ _ H) as Hm. cbn in Hm. destruct Hm as (? & ? & ? & ? & ? & Hm). discriminate. }
      destruct r as [| | | |sx cause nx ux crx| |];
        try (pose proof (handle_reply_matches burst a c connected (MEst nodeid cpfseid pdrs fars qers) draws _ _ _ H) as Hm; cbn in Hm; destruct Hm as (? & ? & ? & ? & ? & Hm); discriminate).
      destruct (N.eq_dec cause CAUSE_OK) as [->|Hne].
      + destruct (est_accepted burst _ _ _ _ _ _ _ _ _ _ _ _ _ _ _ _ _ H) as (l & s & -> & Hnz & _ & Hnin & Hf & Hl & _ & _ & _ & _ & -> & Hgg & _).
        edestruct (est_accepted_store burst) as (Hs & _ & _); [exact H|exact Hf|].
        cbn [o_shutdown]. rewrite Hs, Hgg. cbn [length map]. split; [lia|]. constructor; [rewrite Hl; exact Hnin|exact Hn].
      + edestruct (est_rejected burst) as (_ & _ & Hc & Hgg & _); [exact H| |].
        { intros s0 n0 u0 cr0 Hr. cbn [o_reply] in Hr. inversion Hr. contradiction. }
        assert (sd = false) as -> by (clear -H; unfold handle_est in H; split_all H; inversion H; reflexivity).
        subst c'. cbn [o_shutdown]. rewrite Hgg. split; [lia|exact Hn].
    - unfold handle_mod in H. cbv zeta in H.
      destruct (find_session seid (c_sessions c)) as [s0|] eqn:Ef; [|inversion H; subst; cbn; split; [lia|exact Hn]].
      split_all H; inversion H; subst; cbn [o_shutdown a_gauge c_sessions];
        (split; [unfold replace_session; rewrite map_length; lia|rewrite replace_session_lseids; exact Hn]).
    - unfold handle_del in H. destruct (find_session seid (c_sessions c)) as [s|] eqn:Ef; [|inversion H; subst; cbn; split; [lia|exact Hn]].
      destruct (release_ips (a_pool a) seid (view (s_pdrs s))) as [pl [|]]; inversion H; subst; cbn [o_shutdown a_gauge c_sessions].
      + pose proof (del_session_length _ _ _ Hn Ef) as Hl. split; [lia|apply del_session_nodup; exact Hn].
      + split; [lia|exact Hn].
    - unfold handle_report_rsp in H.
      destruct cause as [[|cz]|]; try (inversion H; subst; cbn; split; [lia|exact Hn]).
      destruct (cz =? CAUSE_NOTFOUND); [|inversion H; subst; cbn; split; [lia|exact Hn]].
      destruct (find_session seid (c_sessions c)) as [s|] eqn:Ef; [|inversion H; subst; cbn; split; [lia|exact Hn]].
      destruct (end_session a s) as [a1 cm] eqn:He. inversion H; subst. cbn [o_shutdown c_sessions].
      destruct (end_session_reclaims _ _ _ _ He) as [_ G]. pose proof (del_session_length _ _ _ Hn Ef) as Hl.
      split; [rewrite G; lia|apply del_session_nodup; exact Hn].
    - inversion H; subst. cbn. split; [lia|exact Hn].
    - inversion H; subst. cbn. split; [lia|exact Hn].
  Qed.
End Gauge.

Definition sess_of (l : list (N * conn)) : list session := flat_map (fun kc => c_sessions (snd kc)) l.

Lemma put_conn_length ci c' l : NoDup (map fst l) ->
  (length (sess_of (put_conn ci c' l)) + length (c_sessions (get_conn ci l)) = length (sess_of l) + length (c_sessions c'))%nat.
Proof.
  unfold sess_of. induction l as [|[k c] l IH]; intros Hn; cbn -[N.eqb]; [rewrite app_nil_r; lia|].
  inversion Hn as [|? ? Hnin Hn']; subst. destruct (k =? ci) eqn:E; cbn -[N.eqb]; rewrite ?app_length; [lia|].
  specialize (IH Hn'). lia.
Qed.
Lemma drop_conn_length ci l : NoDup (map fst l) ->
  (length (sess_of (drop_conn ci l)) + length (c_sessions (get_conn ci l)) = length (sess_of l))%nat.
Proof.
  unfold sess_of. induction l as [|[k c] l IH]; intros Hn; cbn -[N.eqb]; [lia|].
  inversion Hn as [|? ? Hnin Hn']; subst. destruct (k =? ci) eqn:E; cbn -[N.eqb]; rewrite ?app_length.
  - apply N.eqb_eq in E. subst k.
    assert (drop_conn ci l = l) as ->.
    { clear -Hnin. induction l as [|[k2 c2] l IH]; [reflexivity|]. cbn -[N.eqb]. destruct (k2 =? ci) eqn:E2.
      - exfalso. apply Hnin. left. apply N.eqb_eq in E2. exact E2.
      - f_equal. apply IH. intros H. apply Hnin. right. exact H. }
    lia.
  - specialize (IH Hn'). lia.
Qed.
Lemma get_conn_in ci l : In ci (map fst l) -> In (ci, get_conn ci l) l.
Proof.
  induction l as [|[k c] l IH]; [intros []|]. cbn -[N.eqb]. intros [H|H].
  - subst. rewrite N.eqb_refl. left. reflexivity.
  - destruct (k =? ci) eqn:E; [apply N.eqb_eq in E; subst; left; reflexivity|right; apply IH; exact H].
Qed.
Lemma in_put_conn ci c' l kc : In kc (put_conn ci c' l) -> kc = (ci, c') \/ In kc l.
Proof.
  induction l as [|[k c] l IH]; cbn -[N.eqb]; [intros [H|[]]; left; auto|].
  destruct (k =? ci); cbn -[N.eqb]; intros [H|H]; auto. destruct (IH H); auto.
Qed.
Lemma in_drop_conn ci l kc : In kc (drop_conn ci l) -> In kc l.
Proof.
  induction l as [|[k c] l IH]; cbn -[N.eqb]; [auto|].
  destruct (k =? ci); cbn -[N.eqb]; [intros H; right; apply IH; exact H|intros [H|H]; auto].
Qed.

Section GaugeWorld.
  Variable burst : N -> N -> N -> N.

  Record gauge_inv (w : world) : Prop := {
    gi_keys : NoDup (map fst (w_conns w));
    gi_lseid : forall kc, In kc (w_conns w) -> NoDup (map s_lseid (c_sessions (snd kc)));
    gi_gauge : a_gauge (w_agent w) = N.of_nat (length (all_sessions w)) }.

  Definition restart_ok (e : wevent) : bool := match e with WRestart a0 => a_gauge a0 =? 0 | _ => true end.

  Lemma conn_nodup w ci : gauge_inv w -> NoDup (map s_lseid (c_sessions (get_conn ci (w_conns w)))).
  Proof.
    intros [Hk Hl _]. destruct (in_dec N.eq_dec ci (map fst (w_conns w))) as [Hin|Hnin].
    - apply (Hl (ci, get_conn ci (w_conns w))). apply get_conn_in. exact Hin.
    - rewrite get_conn_absent by exact Hnin. constructor.
  Qed.
  Lemma conn_le w ci : gauge_inv w -> N.of_nat (length (c_sessions (get_conn ci (w_conns w)))) <= a_gauge (w_agent w).
  Proof.
    intros G. destruct G as [Hk _ Hg]. rewrite Hg. unfold all_sessions. fold (sess_of (w_conns w)).
    pose proof (drop_conn_length ci (w_conns w) Hk). lia.
  Qed.

  Lemma wstep_gauge w e w' o : gauge_inv w -> restart_ok e = true -> wstep burst w e = Done (w', o) -> gauge_inv w'.
  Proof.
    intros G Hr H. pose proof (conn_nodup w) as Hcn. pose proof (conn_le w) as Hcl.
    destruct e as [ci connected m draws|ci|a0]; cbn [wstep] in H.
    - destruct (handle burst (w_agent w) (get_conn ci (w_conns w)) connected m draws) as [[[a' c'] res]|] eqn:Hh; [|discriminate].
      inversion H; subst; clear H.
      destruct (handle_counts burst _ _ _ _ _ _ _ _ Hh (Hcn ci G) (Hcl ci G)) as [Hc Hn'].
      destruct G as [Hk Hl Hg]. destruct (o_shutdown o).
      + constructor; cbn [w_conns w_agent].
        * apply drop_keys_nodup. exact Hk.
        * intros kc Hin. apply Hl. eapply in_drop_conn. exact Hin.
        * unfold all_sessions in *. cbn [w_conns]. fold (sess_of (drop_conn ci (w_conns w))). fold (sess_of (w_conns w)) in Hg.
          pose proof (drop_conn_length ci (w_conns w) Hk). lia.
      + constructor; cbn [w_conns w_agent].
        * apply put_keys_nodup. exact Hk.
        * intros kc Hin. destruct (in_put_conn _ _ _ _ Hin) as [->|Hin']; [exact Hn'|apply Hl; exact Hin'].
        * unfold all_sessions in *. cbn [w_conns]. fold (sess_of (put_conn ci c' (w_conns w))). fold (sess_of (w_conns w)) in Hg.
          pose proof (put_conn_length ci c' (w_conns w) Hk). lia.
    - destruct (do_shutdown (w_agent w) (get_conn ci (w_conns w))) as [[a1 c1] cm] eqn:Hd. inversion H; subst; clear H.
      unfold do_shutdown in Hd. destruct (shutdown_sessions (w_agent w) (c_sessions (get_conn ci (w_conns w)))) as [a2 cm2] eqn:Hs. inversion Hd; subst.
      destruct (shutdown_sessions_reclaims _ _ _ _ (Hcn ci G) Hs) as (_ & Gg & _). specialize (Hcl ci G).
      destruct G as [Hk Hl Hg]. constructor; cbn [w_conns w_agent].
      + apply drop_keys_nodup. exact Hk.
      + intros kc Hin. apply Hl. eapply in_drop_conn. exact Hin.
      + unfold all_sessions in *. cbn [w_conns]. fold (sess_of (drop_conn ci (w_conns w))). fold (sess_of (w_conns w)) in Hg.
        pose proof (drop_conn_length ci (w_conns w) Hk). lia.
    - inversion H; subst. cbn [restart_ok] in Hr. apply N.eqb_eq in Hr. constructor; cbn; [constructor|intros kc []|exact Hr].
  Qed.

  (* along EVERY history - accepted and rejected establishments and modifications, deletions, report responses,
     releases, teardowns, restarts, garbage - the gauge equals the number of live sessions *)
  Theorem gauge_invariant : forall es w w',
    gauge_inv w -> forallb restart_ok es = true -> wrun burst w es = Done w' -> gauge_inv w'.
  Proof.
    induction es as [|e es IH]; intros w w' G Hr H; cbn [wrun forallb] in *; [inversion H; subst; exact G|].
    apply andb_true_iff in Hr. destruct Hr as [Hr1 Hr2].
    destruct (wstep burst w e) as [[w1 o]|] eqn:Hs; [|discriminate].
    apply (IH w1 w'); auto. eapply wstep_gauge; eauto.
  Qed.
End GaugeWorld.
