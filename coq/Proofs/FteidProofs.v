(* Lemmas about Model/Fteid.v: the TEID generator (all cursor positions, all used sets, all
   operation sequences), the local-SEID choice (all draw streams) and the establishment step. *)
From Coq Require Import ZArith NArith List Bool Lia ZifyN ZifyNat ZifyBool Permutation.
From UPF Require Import Base.Lists Model.Fteid.
Import ListNotations.
Ltac Zify.zify_post_hook ::= Z.div_mod_to_equations.
Open Scope N_scope.

(* ------------------------------------------------------------------ lists *)
Lemma mem_In x l : mem x l = true <-> In x l.
Proof.
  unfold mem. rewrite existsb_exists. split.
  - intros (y & Hy & E). apply N.eqb_eq in E. now subst.
  - intros H. exists x. split; [exact H|apply N.eqb_refl].
Qed.
Lemma mem_nIn x l : mem x l = false <-> ~ In x l.
Proof. rewrite <- mem_In. destruct (mem x l); split; congruence. Qed.

Lemma In_del x y l : In y (del x l) <-> In y l /\ y <> x.
Proof.
  induction l as [|z l IH]; cbn [del]; [cbn [In]; tauto|].
  destruct (N.eqb_spec x z) as [->|Hn].
  - rewrite IH. cbn [In]. split.
    + intros [H1 H2]. split; [now right|exact H2].
    + intros [[E|H] Hne]; [congruence|now split].
  - cbn [In]. rewrite IH. split.
    + intros [E|[H1 H2]]; [split; [now left|congruence]|split; [now right|exact H2]].
    + intros [[E|H] Hne]; [now left|right; now split].
Qed.
Lemma NoDup_del x l : NoDup l -> NoDup (del x l).
Proof.
  induction 1 as [|z l Hn Hd IH]; cbn [del]; [constructor|].
  destruct (x =? z); [exact IH|]. constructor; [|exact IH]. rewrite In_del. tauto.
Qed.
Lemma Forall_del (P : N -> Prop) x l : Forall P l -> Forall P (del x l).
Proof. induction 1; cbn [del]; [constructor|]. destruct (x =? _); [assumption|now constructor]. Qed.
Lemma del_notin x l : ~ In x l -> del x l = l.
Proof.
  induction l as [|z l IH]; cbn [del]; [reflexivity|]. intros H.
  destruct (N.eqb_spec x z) as [->|Hn]; [exfalso; apply H; now left|].
  f_equal. apply IH. intros Hi. apply H. now right.
Qed.
Lemma length_del_le x l : (length (del x l) <= length l)%nat.
Proof. induction l as [|z l IH]; cbn [del length]; [lia|]. destruct (x =? z); cbn [length]; lia. Qed.

Lemma NoDup_map_inj_on {A B} (f : A -> B) l :
  (forall x y, In x l -> In y l -> f x = f y -> x = y) -> NoDup l -> NoDup (map f l).
Proof.
  intros Hinj Hd. induction Hd as [|x l Hn Hd IH]; cbn [map]; [constructor|].
  constructor.
  - intros Hin. apply in_map_iff in Hin. destruct Hin as (y & E & Hy).
    assert (y = x) by (apply Hinj; [now right|now left|exact E]). subst. contradiction.
  - apply IH. intros a b Ha Hb. apply Hinj; now right.
Qed.

(* ------------------------------------------------------------------ the cursor walk *)
Lemma update_offset_lt o : update_offset o < MAXV.
Proof. unfold update_offset, MAXV, U32. lia. Qed.

Lemma update_offset_small o : o < MAXV -> update_offset o = (o + 1) mod MAXV.
Proof. unfold update_offset, MAXV, U32. intros H. lia. Qed.

(* position after k steps from b *)
Definition pos (b : N) (k : nat) : N := (b + N.of_nat k) mod MAXV.

Lemma pos_lt b k : pos b k < MAXV.
Proof. unfold pos, MAXV. lia. Qed.
Lemma pos_0 b : b < MAXV -> pos b 0 = b.
Proof. unfold pos, MAXV. intros H. cbn [N.of_nat]. lia. Qed.
Lemma pos_S b k : update_offset (pos b k) = pos b (S k).
Proof. rewrite update_offset_small by apply pos_lt. unfold pos, MAXV. lia. Qed.
Lemma pos_inj b j k : N.of_nat j < MAXV -> N.of_nat k < MAXV -> pos b j = pos b k -> j = k.
Proof. unfold pos, MAXV. intros Hj Hk E. lia. Qed.
Lemma pos_back b k : b < MAXV -> N.of_nat (S k) <= MAXV -> pos b (S k) = b -> N.of_nat (S k) = MAXV.
Proof. unfold pos, MAXV. intros Hb Hk E. lia. Qed.
Lemma pos_full b : b < MAXV -> pos b (N.to_nat MAXV) = b.
Proof. unfold pos, MAXV. intros Hb. lia. Qed.
Lemma pos_surj b o : b < MAXV -> o < MAXV -> exists j, N.of_nat j < MAXV /\ pos b j = o.
Proof.
  intros Hb Ho. exists (N.to_nat ((o + MAXV - b) mod MAXV)). unfold pos, MAXV in *. split; lia.
Qed.

(* k distinct visited offsets, all used: k <= |used| *)
Lemma visited_le b u k : N.of_nat k <= MAXV ->
  (forall j, (j < k)%nat -> In (pos b j) u) -> (k <= length u)%nat.
Proof.
  intros Hk Hin.
  assert (Hnd : NoDup (map (pos b) (seq 0 k))).
  { apply NoDup_map_inj_on; [|apply seq_NoDup].
    intros x y Hx Hy. apply in_seq in Hx, Hy. apply pos_inj; lia. }
  apply NoDup_incl_length with (l' := u) in Hnd.
  - now rewrite map_length, seq_length in Hnd.
  - intros a Ha. apply in_map_iff in Ha. destruct Ha as (j & <- & Hj). apply in_seq in Hj.
    apply Hin. lia.
Qed.

(* the loop of Allocate, from any point of the walk *)
Lemma find_free_spec fuel : forall b u k, b < MAXV -> N.of_nat k < MAXV ->
  (forall j, (j < k)%nat -> In (pos b j) u) -> (length u < k + fuel)%nat ->
  match find_free fuel b (pos b k) u with
  | None => False
  | Some None => forall o, o < MAXV -> In o u
  | Some (Some off) => exists k', N.of_nat k' < MAXV /\ off = pos b k' /\ ~ In off u /\
                                  forall j, (j < k')%nat -> In (pos b j) u
  end.
Proof.
  induction fuel as [|f IH]; intros b u k Hb Hk Hin Hlen.
  - assert (k <= length u)%nat by (apply (visited_le b); [lia|exact Hin]). lia.
  - cbn [find_free]. destruct (mem (pos b k) u) eqn:E.
    + apply mem_In in E. rewrite pos_S.
      assert (Hin' : forall j, (j < S k)%nat -> In (pos b j) u).
      { intros j Hj. destruct (Nat.eq_dec j k) as [->|]; [exact E|apply Hin; lia]. }
      destruct (N.eqb_spec (pos b (S k)) b) as [Eb|Nb].
      * apply pos_back in Eb; [|exact Hb|lia].
        intros o Ho. destruct (pos_surj b o Hb Ho) as (j & Hj & <-). apply Hin'. lia.
      * assert (N.of_nat (S k) < MAXV).
        { destruct (N.eq_dec (N.of_nat (S k)) MAXV) as [Ek|]; [|lia].
          exfalso. apply Nb. replace (S k) with (N.to_nat MAXV) by lia. now apply pos_full. }
        apply IH; [exact Hb|assumption|exact Hin'|lia].
    + apply mem_nIn in E. exists k. repeat split; assumption.
Qed.

(* ------------------------------------------------------------------ Allocate *)
Lemma allocate_cases g : offset g < MAXV ->
  match allocate g with
  | AFuel => False
  | AErr g' => g' = g /\ forall o, o < MAXV -> In o (used g)
  | AOk id g' => exists k, N.of_nat k < MAXV /\ let off := pos (offset g) k in
       id = off + 1 /\ ~ In off (used g) /\ (forall j, (j < k)%nat -> In (pos (offset g) j) (used g)) /\
       g' = Gen (update_offset off) (off :: used g)
  end.
Proof.
  intros Hb. unfold allocate.
  pose proof (find_free_spec (S (length (used g))) (offset g) (used g) 0 Hb) as H.
  rewrite pos_0 in H by exact Hb.
  specialize (H ltac:(unfold MAXV; lia) ltac:(intros; lia) ltac:(lia)).
  destruct (find_free _ _ _ _) as [[off|]|]; [| |exact H].
  - destruct H as (k & Hk & -> & Hn & Hj). exists k. cbn zeta. repeat split; try assumption.
    pose proof (pos_lt (offset g) k). unfold MINV, U32, MAXV in *. lia.
  - split; [now destruct g|exact H].
Qed.

Lemma allocate_never_fuel g : offset g < MAXV -> allocate g <> AFuel.
Proof. intros H E. pose proof (allocate_cases g H) as C. now rewrite E in C. Qed.

Lemma allocate_fresh g id g' : offset g < MAXV -> allocate g = AOk id g' ->
  1 <= id <= MAXV /\ ~ In (id - 1) (used g) /\ used g' = (id - 1) :: used g /\ offset g' < MAXV.
Proof.
  intros Hb E. pose proof (allocate_cases g Hb) as C. rewrite E in C.
  destruct C as (k & Hk & C). cbn zeta in C. destruct C as (-> & Hn & _ & ->).
  pose proof (pos_lt (offset g) k) as Hl.
  replace (pos (offset g) k + 1 - 1) with (pos (offset g) k) by lia.
  cbn [used offset]. repeat split; try assumption; try (unfold MAXV in *; lia).
  apply update_offset_lt.
Qed.

(* the id chosen is the first free offset at or after the cursor, cyclically, plus one *)
Lemma allocate_first_free g id g' : offset g < MAXV -> allocate g = AOk id g' ->
  exists k, N.of_nat k < MAXV /\ id = (offset g + N.of_nat k) mod MAXV + 1 /\
    (forall j, (j < k)%nat -> In ((offset g + N.of_nat j) mod MAXV) (used g)) /\
    offset g' = (id mod MAXV).
Proof.
  intros Hb E. pose proof (allocate_cases g Hb) as C. rewrite E in C.
  destruct C as (k & Hk & C). cbn zeta in C. destruct C as (-> & Hn & Hj & ->).
  exists k. repeat split; try assumption. cbn [offset].
  rewrite update_offset_small by apply pos_lt. reflexivity.
Qed.

Lemma allocate_refuse_iff g : offset g < MAXV ->
  ((exists g', allocate g = AErr g') <-> forall o, o < MAXV -> In o (used g)).
Proof.
  intros Hb. pose proof (allocate_cases g Hb) as C. split.
  - intros (g' & E). rewrite E in C. apply C.
  - intros Hall. destruct (allocate g) as [id g'| g'|]; [|now exists g'|contradiction].
    exfalso. destruct C as (k & Hk & C). cbn zeta in C. destruct C as (_ & Hn & _).
    apply Hn. apply Hall. apply pos_lt.
Qed.

Lemma allocate_err_unchanged g g' : offset g < MAXV -> allocate g = AErr g' -> g' = g.
Proof. intros Hb E. pose proof (allocate_cases g Hb) as C. rewrite E in C. apply C. Qed.

(* ------------------------------------------------------------------ well-formed states *)
Definition wf (g : gen) : Prop :=
  offset g < MAXV /\ NoDup (used g) /\ Forall (fun o => o < MAXV) (used g).

Lemma wf_new : wf new_gen.
Proof. unfold wf, new_gen. cbn [offset used]. split; [unfold MAXV; lia|split; constructor]. Qed.

Lemma wf_allocate g id g' : wf g -> allocate g = AOk id g' -> wf g'.
Proof.
  intros (Hb & Hd & Hf) E. pose proof (allocate_cases g Hb) as C. rewrite E in C.
  destruct C as (k & Hk & C). cbn zeta in C. destruct C as (_ & Hn & _ & ->).
  repeat split; cbn [offset used].
  - apply update_offset_lt.
  - now constructor.
  - constructor; [apply pos_lt|exact Hf].
Qed.

Lemma wf_free id g : wf g -> wf (free_id id g).
Proof.
  intros (Hb & Hd & Hf). unfold free_id. destruct (id <? MINV); [now repeat split|].
  repeat split; cbn [offset used]; [exact Hb|now apply NoDup_del|now apply Forall_del].
Qed.

Lemma wf_step g o : wf g -> wf (fst (step g o)).
Proof.
  intros H. destruct o as [|id|id]; cbn [step].
  - destruct (allocate g) as [id g'|g'|] eqn:E; cbn [fst]; [|
      |exact H].
    + eapply wf_allocate; eassumption.
    + apply allocate_err_unchanged in E; [now subst|apply H].
  - now apply wf_free.
  - exact H.
Qed.

Lemma run_cons g o r : run g (o :: r) =
  (fst (run (fst (step g o)) r), snd (step g o) :: snd (run (fst (step g o)) r)).
Proof. cbn [run]. destruct (step g o) as [g' x]. cbn [fst snd]. now destruct (run g' r). Qed.

Lemma wf_run ops : forall g, wf g -> wf (fst (run g ops)).
Proof.
  induction ops as [|o r IH]; intros g H; [exact H|].
  rewrite run_cons. cbn [fst]. apply IH. now apply wf_step.
Qed.

(* live ids: in [1, 2^32-1], pairwise distinct *)
Lemma live_ids_nodup g : wf g -> NoDup (live_ids g).
Proof.
  intros (_ & Hd & _). unfold live_ids. apply NoDup_map_inj_on; [|exact Hd].
  intros x y _ _. unfold MINV. lia.
Qed.
Lemma live_ids_range g id : wf g -> In id (live_ids g) -> 1 <= id <= MAXV.
Proof.
  intros (_ & _ & Hf) Hin. unfold live_ids in Hin. apply in_map_iff in Hin.
  destruct Hin as (o & <- & Ho). rewrite Forall_forall in Hf. specialize (Hf o Ho).
  unfold MINV, MAXV in *. lia.
Qed.

Lemma is_allocated_live id g : is_allocated id g = true <-> In id (live_ids g).
Proof.
  unfold is_allocated, live_ids, MINV. destruct (N.ltb_spec id 1) as [Hl|Hl].
  - split; [discriminate|]. intros H. apply in_map_iff in H. destruct H as (o & E & _). lia.
  - rewrite mem_In, in_map_iff. split.
    + intros H. exists (id - 1). split; [lia|exact H].
    + intros (o & E & H). now replace (id - 1) with o by lia.
Qed.

Lemma live_ids_free id g : live_ids (free_id id g) = del id (live_ids g).
Proof.
  unfold free_id, live_ids, MINV. destruct (N.ltb_spec id 1) as [Hl|Hl].
  - symmetry. apply del_notin. intros H. apply in_map_iff in H. destruct H as (o & E & _). lia.
  - cbn [used]. induction (used g) as [|z l IH]; cbn [del map]; [reflexivity|].
    destruct (N.eqb_spec (id - 1) z) as [E|E]; destruct (N.eqb_spec id (z + 1)) as [E'|E']; try lia.
    + exact IH.
    + cbn [map]. now rewrite IH.
Qed.

(* cardinality: in a well-formed state "every offset used" is "|used| = 2^32-1" *)
Lemma full_iff_card g : wf g ->
  ((forall o, o < MAXV -> In o (used g)) <-> N.of_nat (length (used g)) = MAXV).
Proof.
  intros (_ & Hd & Hf). rewrite Forall_forall in Hf.
  set (range := map N.of_nat (seq 0 (N.to_nat MAXV))).
  assert (Hlen : length range = N.to_nat MAXV) by (unfold range; now rewrite map_length, seq_length).
  assert (Hr : forall o, In o range <-> o < MAXV).
  { intros o. unfold range. rewrite in_map_iff. split.
    - intros (j & <- & Hj). apply in_seq in Hj. lia.
    - intros Ho. exists (N.to_nat o). split; [lia|]. apply in_seq. lia. }
  assert (Hrd : NoDup range).
  { unfold range. apply NoDup_map_inj_on; [|apply seq_NoDup]. intros x y _ _. lia. }
  clearbody range.
  assert (Hle : (length (used g) <= length range)%nat).
  { apply NoDup_incl_length; [exact Hd|]. intros o Ho. apply Hr. now apply Hf. }
  split.
  - intros Hall. assert (length range <= length (used g))%nat.
    { apply NoDup_incl_length; [exact Hrd|]. intros o Ho. apply Hall. now apply Hr. }
    lia.
  - intros Hc o Ho. apply Hr in Ho.
    assert (Hincl : incl (used g) range) by (intros x Hx; apply Hr; now apply Hf).
    apply (NoDup_length_incl Hd) in Hincl; [now apply Hincl|lia].
Qed.

(* ------------------------------------------------------------------ the history monitor *)
Lemma hist_ok_run ops : forall g, wf g -> hist_ok (live_ids g) ops (snd (run g ops)) = true.
Proof.
  induction ops as [|o r IH]; intros g H; [reflexivity|].
  rewrite run_cons. cbn [snd]. pose proof (wf_step g o H) as Hs.
  destruct o as [|id|id]; cbn [step] in *.
  - pose proof (allocate_cases g (proj1 H)) as C.
    destruct (allocate g) as [id g'|g'|] eqn:E; cbn [fst snd hist_ok] in *; [| |contradiction].
    + destruct (allocate_fresh g id g' (proj1 H) E) as (Hr & Hn & Hu & _).
      assert (El : live_ids g' = id :: live_ids g).
      { unfold live_ids. rewrite Hu. cbn [map]. f_equal. unfold MINV. lia. }
      rewrite <- El, (IH g' Hs), andb_true_r.
      assert (~ In id (live_ids g)).
      { intros Hin. apply Hn. unfold live_ids in Hin. apply in_map_iff in Hin.
        destruct Hin as (o & Eo & Ho). unfold MINV in Eo. now replace (id - 1) with o by lia. }
      apply mem_nIn in H0. rewrite H0. unfold MINV, MAXV in *.
      destruct (N.leb_spec 1 id); destruct (N.leb_spec id 4294967295); try lia; reflexivity.
    + destruct C as (-> & Hall). rewrite (IH g H), andb_true_r.
      apply (full_iff_card g H) in Hall. unfold live_ids. rewrite map_length. now apply N.eqb_eq.
  - cbn [fst snd hist_ok]. rewrite <- live_ids_free. now apply IH.
  - cbn [fst snd hist_ok]. rewrite (IH g H), andb_true_r.
    destruct (is_allocated id g) eqn:E.
    + apply is_allocated_live, mem_In in E. now rewrite E.
    + destruct (mem id (live_ids g)) eqn:E'; [|reflexivity].
      apply mem_In, is_allocated_live in E'. congruence.
Qed.

(* ------------------------------------------------------------------ interleavings *)
(* any merge of per-goroutine operation lists is an operation list; each method is one atomic
   step because FTEIDGenerator.lock is held over the whole body (source tie in tools/props/c07.py) *)
Inductive merge {A} : list (list A) -> list A -> Prop :=
| merge_nil ts : Forall (fun t => t = []) ts -> merge ts []
| merge_step ts1 x t ts2 l : merge (ts1 ++ t :: ts2) l -> merge (ts1 ++ (x :: t) :: ts2) (x :: l).

Lemma any_interleaving g0 (threads : list (list op)) sched : wf g0 -> merge threads sched ->
  wf (fst (run g0 sched)) /\ NoDup (live_ids (fst (run g0 sched))) /\
  hist_ok (live_ids g0) sched (snd (run g0 sched)) = true.
Proof.
  intros H _. split; [now apply wf_run|]. split; [apply live_ids_nodup; now apply wf_run|].
  now apply hist_ok_run.
Qed.

(* a merge schedules exactly the operations of the threads *)
Lemma merge_perm {A} (ts : list (list A)) l : merge ts l -> Permutation (concat ts) l.
Proof.
  induction 1 as [ts Hall|ts1 x t ts2 l Hm IH].
  - replace (concat ts) with (@nil A); [constructor|].
    induction Hall as [|t ts -> _ IHt]; cbn; [reflexivity|exact IHt].
  - rewrite concat_app in *. cbn [concat] in *. rewrite <- app_comm_cons.
    symmetry. apply Permutation_cons_app. symmetry. exact IH.
Qed.

(* ------------------------------------------------------------------ NewPFCPSession *)
Lemma new_seid_fresh retries draws : forall i st l j,
  new_seid retries draws i st = (Some l, j) -> l <> 0 /\ ~ In l st /\ (i < j)%nat /\ l = draws (j - 1)%nat /\
  forall k, (i <= k < j - 1)%nat -> bad_draw st (draws k) = true.
Proof.
  induction retries as [|r IH]; intros i st l j; cbn [new_seid]; [discriminate|].
  destruct ((draws i =? 0) || mem (draws i) st) eqn:E.
  - intros H. apply IH in H. destruct H as (H1 & H2 & H3 & H4 & H5).
    repeat split; try assumption; [lia|]. intros k Hk.
    destruct (Nat.eq_dec k i) as [->|]; [exact E|apply H5; lia].
  - intros H. injection H as <- <-. apply orb_false_elim in E. destruct E as (E0 & Em).
    apply N.eqb_neq in E0. apply mem_nIn in Em.
    replace (S i - 1)%nat with i by lia. repeat split; try assumption; [lia|]. intros k Hk. lia.
Qed.

Lemma new_seid_refuse retries draws : forall i st,
  (forall k, (i <= k < i + retries)%nat -> bad_draw st (draws k) = true) ->
  new_seid retries draws i st = (None, (i + retries)%nat).
Proof.
  induction retries as [|r IH]; intros i st H; cbn [new_seid]; [f_equal; lia|].
  unfold bad_draw in H. rewrite (H i) by lia. rewrite IH; [f_equal; lia|].
  intros k Hk. apply H. lia.
Qed.

Lemma new_seid_none retries draws : forall i st j,
  new_seid retries draws i st = (None, j) ->
  j = (i + retries)%nat /\ forall k, (i <= k < i + retries)%nat -> bad_draw st (draws k) = true.
Proof.
  induction retries as [|r IH]; intros i st j; cbn [new_seid].
  - intros H. injection H as <-. split; [lia|]. intros k Hk. lia.
  - destruct ((draws i =? 0) || mem (draws i) st) eqn:E; [|discriminate].
    intros H. apply IH in H. destruct H as (-> & H). split; [lia|]. intros k Hk.
    destruct (Nat.eq_dec k i) as [->|]; [exact E|apply H; lia].
Qed.

Lemma new_seid_bound retries draws i st : (i <= snd (new_seid retries draws i st) <= i + retries)%nat.
Proof.
  revert i. induction retries as [|r IH]; intros i; cbn [new_seid snd]; [lia|].
  destruct ((draws i =? 0) || mem (draws i) st); cbn [snd]; [|lia].
  specialize (IH (S i)). lia.
Qed.

(* the outcome depends only on the first [retries] draws from position i *)
Lemma new_seid_ext retries d1 d2 : forall i st,
  (forall k, (i <= k < i + retries)%nat -> d1 k = d2 k) ->
  new_seid retries d1 i st = new_seid retries d2 i st.
Proof.
  induction retries as [|r IH]; intros i st H; cbn [new_seid]; [reflexivity|].
  rewrite <- (H i) by lia. destruct ((d1 i =? 0) || mem (d1 i) st); [|reflexivity].
  apply IH. intros k Hk. apply H. lia.
Qed.

(* ------------------------------------------------------------------ establishment *)
Lemma release_wf ts : forall g, wf g -> wf (release ts g).
Proof.
  unfold release. induction ts as [|t r IH]; intros g H; cbn [fold_left]; [exact H|].
  apply IH. now apply wf_free.
Qed.

Lemma live_release ts : forall g id,
  In id (live_ids (release ts g)) <-> In id (live_ids g) /\ ~ In id ts.
Proof.
  unfold release. induction ts as [|t r IH]; intros g id; cbn [fold_left].
  - cbn [In]. tauto.
  - rewrite IH, live_ids_free, In_del. cbn [In]. split.
    + intros [[H1 H2] H3]. split; [exact H1|]. intros [E|E]; [congruence|contradiction].
    + intros [H1 H2]. split; [split; [exact H1|]|]; intros E; apply H2; [left; congruence|now right].
Qed.

Lemma allocate_live g id g' : wf g -> allocate g = AOk id g' ->
  live_ids g' = id :: live_ids g /\ ~ In id (live_ids g) /\ 1 <= id <= MAXV.
Proof.
  intros Hw Ea. destruct (allocate_fresh g id g' (proj1 Hw) Ea) as (Hr & Hn & Hu & _).
  split; [|split; [|exact Hr]].
  - unfold live_ids. rewrite Hu. cbn [map]. f_equal. unfold MINV. lia.
  - intros Hin. apply Hn. unfold live_ids in Hin. apply in_map_iff in Hin.
    destruct Hin as (o & Eo & Ho). unfold MINV in Eo. now replace (id - 1) with o by lia.
Qed.

(* what the Create PDR loop does to the generator and what it returns, whatever the outcome *)
Lemma build_pdrs_spec lseid access ps : forall g g' ds c, wf g ->
  build_pdrs lseid access g ps = (g', ds, c) ->
  wf g' /\
  Forall (fun d => d_fseid d = lseid) ds /\
  (* chosen TEIDs: non-zero, fresh, pairwise distinct, marked used afterwards *)
  NoDup (chosen ds) /\
  Forall (fun t => 1 <= t <= MAXV /\ ~ In t (live_ids g)) (chosen ds) /\
  Permutation (live_ids g') (rev (chosen ds) ++ live_ids g) /\
  Forall (fun d => d_choose d = true -> d_ip d = access) ds /\
  c <> Some 0 /\
  (c = None -> map d_id ds = map cp_id ps).
Proof.
  induction ps as [|p r IH]; intros g g' ds c Hw; cbn [build_pdrs].
  - intros H. injection H as <- <- <-. unfold chosen. cbn [filter map rev app].
    split; [exact Hw|]. split; [constructor|]. split; [constructor|]. split; [constructor|].
    split; [apply Permutation_refl|]. split; [constructor|]. split; [discriminate|reflexivity].
  - destruct (cp_parse_ok p); cbn [negb].
    2:{ intros H. injection H as <- <- <-. unfold chosen. cbn [filter map rev app].
        split; [exact Hw|]. split; [constructor|]. split; [constructor|]. split; [constructor|].
        split; [apply Permutation_refl|]. split; [constructor|]. split; discriminate. }
    destruct (cp_choose p) eqn:Ech.
    + pose proof (allocate_cases g (proj1 Hw)) as C.
      destruct (allocate g) as [id g1|g1|] eqn:Ea; [| |contradiction].
      * destruct (build_pdrs lseid access g1 r) as [[g2 ds'] c'] eqn:Eb.
        intros H. injection H as <- <- <-.
        pose proof (wf_allocate g id g1 Hw Ea) as Hw1.
        destruct (allocate_live g id g1 Hw Ea) as (El & Hnl & Hr).
        destruct (IH g1 g2 ds' c' Hw1 Eb) as (Hw2 & Hf & Hnd & Hch & Hp & Hip & Hc0 & Hid).
        unfold chosen in *. cbn [filter d_choose map d_teid d_fseid d_id d_ip rev] in *.
        split; [exact Hw2|]. split; [constructor; [reflexivity|exact Hf]|].
        split.
        { constructor; [|exact Hnd]. intros Hin. rewrite Forall_forall in Hch.
          apply Hch in Hin. destruct Hin as (_ & Hin). apply Hin. rewrite El. now left. }
        split.
        { constructor; [split; assumption|]. eapply Forall_impl; [|exact Hch]. cbn beta.
          intros t (H1 & H2). split; [exact H1|]. intros Hin. apply H2. rewrite El. now right. }
        split.
        { etransitivity; [exact Hp|]. rewrite El, <- app_assoc. cbn [app]. apply Permutation_refl. }
        split; [constructor; [reflexivity|exact Hip]|]. split; [exact Hc0|].
        intros E. cbn [map]. now rewrite (Hid E).
      * destruct C as (-> & _). intros H. injection H as <- <- <-. unfold chosen. cbn [filter map rev app].
        split; [exact Hw|]. split; [constructor|]. split; [constructor|]. split; [constructor|].
        split; [apply Permutation_refl|]. split; [constructor|]. split; discriminate.
    + set (d := if cp_teid p =? 0 then DPdr lseid (cp_id p) 0 0 false
                else DPdr lseid (cp_id p) (cp_teid p) (cp_ip p) false).
      assert (D : d_fseid d = lseid /\ d_id d = cp_id p /\ d_choose d = false).
      { unfold d. destruct (cp_teid p =? 0); cbn; repeat split. }
      destruct D as (D1 & D2 & D3).
      destruct (build_pdrs lseid access g r) as [[g2 ds'] c'] eqn:Eb.
      intros H. injection H as <- <- <-.
      destruct (IH g g2 ds' c' Hw Eb) as (Hw2 & Hf & Hnd & Hch & Hp & Hip & Hc0 & Hid).
      unfold chosen in *. cbn [filter map]. rewrite D3.
      split; [exact Hw2|]. split; [now constructor|]. split; [exact Hnd|]. split; [exact Hch|].
      split; [exact Hp|]. split; [constructor; [rewrite D3; discriminate|exact Hip]|].
      split; [exact Hc0|]. intros E. cbn [map]. now rewrite D2, (Hid E).
Qed.

Lemma created_chosen ds : map (fun x : N * N * N => snd (fst x)) (created_of ds) = chosen ds.
Proof. unfold created_of, chosen. rewrite map_map. reflexivity. Qed.

(* one establishment, accepted *)
Lemma establish_accepted retries access draws aok dok ps st i g l created batch j g' : wf g ->
  establish retries access draws aok dok ps st i g = (EAccepted l created batch, j, g') ->
  (l <> 0 /\ ~ In l st /\ (i < j <= i + retries)%nat /\ l = draws (j - 1)%nat) /\
  (Forall (fun e => d_fseid e = l) batch /\ map d_id batch = map cp_id ps /\
   created = created_of batch /\
   Forall (fun e => d_choose e = true -> d_ip e = access) batch) /\
  (NoDup (chosen batch) /\
   Forall (fun t => 1 <= t <= MAXV /\ ~ In t (live_ids g)) (chosen batch) /\
   Permutation (live_ids g') (rev (chosen batch) ++ live_ids g)) /\
  wf g'.
Proof.
  intros Hw. unfold establish. destruct aok; cbn [negb]; [|discriminate].
  destruct (new_seid retries draws i st) as [[l0|] i'] eqn:Es; [|discriminate].
  destruct (build_pdrs l0 access g ps) as [[g1 ds] [cause|]] eqn:Eb; [discriminate|].
  destruct dok; [|discriminate]. intros H. injection H as <- <- <- <- <-.
  destruct (new_seid_fresh _ _ _ _ _ _ Es) as (S1 & S2 & S3 & S4 & _).
  pose proof (new_seid_bound retries draws i st) as Sb. rewrite Es in Sb. cbn [snd] in Sb.
  destruct (build_pdrs_spec _ _ _ _ _ _ _ Hw Eb) as (Hw1 & Hf & Hnd & Hch & Hp & Hip & _ & Hid).
  split; [repeat split; try assumption; lia|].
  split; [split; [exact Hf|split; [now apply Hid|split; [reflexivity|exact Hip]]]|].
  split; [|exact Hw1]. split; [exact Hnd|split; [exact Hch|exact Hp]].
Qed.

(* every Created PDR of the response is a PDR handed to the datapath with the same id, TEID and
   address, and every CHOOSE PDR handed to the datapath is reported *)
Lemma created_of_spec ds pid t ip :
  In (pid, t, ip) (created_of ds) <->
  exists e, In e ds /\ d_choose e = true /\ d_id e = pid /\ d_teid e = t /\ d_ip e = ip.
Proof.
  unfold created_of. rewrite in_map_iff. split.
  - intros (e & E & He). apply filter_In in He. destruct He as (He & Hc). injection E as <- <- <-.
    exists e. repeat split; assumption.
  - intros (e & He & Hc & <- & <- & <-). exists e. split; [reflexivity|]. apply filter_In. now split.
Qed.

(* a refusal for lack of a SEID consumes exactly [retries] draws, all of them 0 or stored, and
   changes nothing else *)
Lemma establish_seid_refusal retries access draws dok ps st i g :
  (forall k, (i <= k < i + retries)%nat -> bad_draw st (draws k) = true) ->
  establish retries access draws true dok ps st i g =
  (ERefused CAUSE_NO_RESOURCES None, (i + retries)%nat, g).
Proof. intros H. unfold establish. cbn [negb]. now rewrite (new_seid_refuse _ _ _ _ H). Qed.

(* a refused establishment gives back every TEID it had chosen: the set of live TEIDs is as
   before; the generator stays well formed *)
Lemma establish_refused retries access draws aok dok ps st i g cause b j g' : wf g ->
  establish retries access draws aok dok ps st i g = (ERefused cause b, j, g') ->
  wf g' /\ (forall id, In id (live_ids g') <-> In id (live_ids g)) /\ cause <> 0 /\
  (i <= j <= i + retries)%nat.
Proof.
  intros Hw. unfold establish. destruct aok; cbn [negb].
  2:{ intros H. injection H as <- <- <- <-. repeat split; try apply Hw; auto; try lia. discriminate. }
  pose proof (new_seid_bound retries draws i st) as Sb.
  destruct (new_seid retries draws i st) as [[l0|] i'] eqn:Es; cbn [snd] in Sb.
  2:{ intros H. injection H as <- <- <- <-. repeat split; try apply Hw; auto; try lia. discriminate. }
  destruct (build_pdrs l0 access g ps) as [[g1 ds] c] eqn:Eb.
  destruct (build_pdrs_spec _ _ _ _ _ _ _ Hw Eb) as (Hw1 & _ & _ & Hch & Hp & _ & Hc0 & _).
  assert (R : wf (release (chosen ds) g1) /\
              forall id, In id (live_ids (release (chosen ds) g1)) <-> In id (live_ids g)).
  { split; [now apply release_wf|]. intros id. rewrite live_release. split.
    - intros (H1 & H2). eapply Permutation_in in H1; [|exact Hp]. apply in_app_or in H1.
      destruct H1 as [H1|H1]; [|exact H1]. apply in_rev in H1. contradiction.
    - intros H. split.
      + eapply Permutation_in; [symmetry; exact Hp|]. apply in_or_app. now right.
      + intros Hc. rewrite Forall_forall in Hch. apply Hch in Hc. now apply Hc. }
  destruct c as [c|].
  - intros H. injection H as <- <- <- <-. destruct R as (R1 & R2).
    split; [exact R1|]. split; [exact R2|]. split; [congruence|lia].
  - destruct dok; [discriminate|]. intros H. injection H as <- <- <- <-. destruct R as (R1 & R2).
    split; [exact R1|]. split; [exact R2|]. split; [discriminate|lia].
Qed.

(* ---- histories over several associations sharing the generator ---- *)
Definition skey (s : sess) : nat * N := (s_conn s, s_seid s).

(* per association the stored SEIDs are pairwise distinct and non-zero; no TEID belongs to two
   live sessions; every TEID of a live session is marked used in the generator *)
Definition WInv (w : world) : Prop :=
  wf (w_gen w) /\
  NoDup (map skey (w_sess w)) /\
  Forall (fun s => s_seid s <> 0) (w_sess w) /\
  NoDup (all_teids (w_sess w)) /\
  incl (all_teids (w_sess w)) (live_ids (w_gen w)).

Lemma store_of_In k l ss : In l (store_of k ss) <-> In (k, l) (map skey ss).
Proof.
  unfold store_of. rewrite !in_map_iff. split.
  - intros (s & <- & Hs). apply filter_In in Hs. destruct Hs as (Hs & E). apply Nat.eqb_eq in E.
    exists s. split; [unfold skey; now rewrite E|exact Hs].
  - intros (s & E & Hs). unfold skey in E. injection E as E1 E2. exists s. split; [exact E2|].
    apply filter_In. split; [exact Hs|]. now apply Nat.eqb_eq.
Qed.

Lemma NoDup_map_filter {A B} (f : A -> B) (p : A -> bool) l : NoDup (map f l) -> NoDup (map f (filter p l)).
Proof.
  induction l as [|x l IH]; cbn [map filter]; [auto|]. intros H. inversion H as [|? ? Hn Hd]; subst.
  destruct (p x); [|now apply IH]. cbn [map]. constructor; [|now apply IH].
  intros Hin. apply Hn. apply in_map_iff in Hin. destruct Hin as (y & E & Hy).
  apply filter_In in Hy. apply in_map_iff. exists y. split; [exact E|apply Hy].
Qed.

Lemma all_teids_filter_incl (p : sess -> bool) ss : incl (all_teids (filter p ss)) (all_teids ss).
Proof.
  unfold all_teids. induction ss as [|s ss IH]; cbn [filter map concat]; [apply incl_refl|].
  destruct (p s); cbn [map concat].
  - apply incl_app; [apply incl_appl, incl_refl|apply incl_appr, IH].
  - apply incl_appr, IH.
Qed.

Lemma NoDup_all_teids_filter (p : sess -> bool) ss : NoDup (all_teids ss) -> NoDup (all_teids (filter p ss)).
Proof.
  unfold all_teids. induction ss as [|s ss IH]; cbn [filter map concat]; [auto|]. intros H.
  apply nodup_app in H. destruct H as (H1 & H2 & H3).
  destruct (p s); [|now apply IH]. cbn [map concat]. apply nodup_app.
  split; [exact H1|]. split; [now apply IH|]. intros a Ha Hb. apply (H3 a Ha).
  now apply (all_teids_filter_incl p ss).
Qed.

Lemma all_teids_partition (p : sess -> bool) ss t : NoDup (all_teids ss) ->
  In t (all_teids (filter p ss)) -> In t (all_teids (filter (fun s => negb (p s)) ss)) -> False.
Proof.
  unfold all_teids. induction ss as [|s ss IH]; cbn [filter map concat]; [auto|]. intros H.
  apply nodup_app in H. destruct H as (H1 & H2 & H3).
  destruct (p s); cbn [negb map concat].
  - intros Ha Hb. apply in_app_or in Ha. destruct Ha as [Ha|Ha]; [|now apply IH].
    apply (H3 t Ha). now apply (all_teids_filter_incl (fun s => negb (p s)) ss).
  - intros Ha Hb. apply in_app_or in Hb. destruct Hb as [Hb|Hb]; [|now apply IH].
    apply (H3 t Hb). now apply (all_teids_filter_incl p ss).
Qed.

Lemma ev_step_inv retries access draws w e : ev_claims e = false ->
  WInv w -> WInv (fst (ev_step retries access draws w e)).
Proof.
  intros Hok (Hg & Hk & H0 & Hn & Hi). destruct e as [k aok dok ps|k seid|k seid ch teid]; cbn [ev_step].
  3:{ cbn [ev_claims] in Hok. cbn [fst].
      assert (E : map (fun s => if is_sess k seid s && ch && negb (teid =? 0)
                                then Sess (s_conn s) (s_seid s) (s_teids s ++ [teid]) else s) (w_sess w) = w_sess w).
      { rewrite <- (map_id (w_sess w)) at 2. apply map_ext. intros s.
        rewrite <- andb_assoc, Hok, andb_false_r. reflexivity. }
      unfold WInv. cbn [w_gen w_sess]. rewrite E.
      split; [exact Hg|split; [exact Hk|split; [exact H0|split; [exact Hn|exact Hi]]]]. }
  - destruct (establish retries access (draws k) aok dok ps (store_of k (w_sess w)) (w_drawn w k) (w_gen w))
      as [[r j] g'] eqn:Ee.
    cbn [fst]. destruct r as [l cr batch|cause b]; unfold WInv; cbn [w_gen w_sess].
    + destruct (establish_accepted _ _ _ _ _ _ _ _ _ _ _ _ _ _ Hg Ee)
        as ((S1 & S2 & _) & _ & (T1 & T2 & T3) & Hw').
      split; [exact Hw'|]. split.
      { cbn [map]. constructor; [|exact Hk]. unfold skey at 1. cbn [s_conn s_seid].
        intros Hin. apply S2. now apply store_of_In. }
      split; [constructor; [exact S1|exact H0]|].
      unfold all_teids in *. cbn [map concat s_teids]. split.
      { apply nodup_app. split; [exact T1|]. split; [exact Hn|].
        intros a Ha Hb. rewrite Forall_forall in T2. apply (T2 a Ha). now apply Hi. }
      { intros a Ha. eapply Permutation_in; [symmetry; exact T3|]. apply in_or_app.
        apply in_app_or in Ha. destruct Ha as [Ha|Ha]; [left; now apply in_rev in Ha|right; now apply Hi].
      }
    + destruct (establish_refused _ _ _ _ _ _ _ _ _ _ _ _ _ Hg Ee) as (Hw' & Hl & _).
      split; [exact Hw'|]. split; [exact Hk|]. split; [exact H0|]. split; [exact Hn|].
      intros a Ha. apply Hl. now apply Hi.
  - cbn [fst]. unfold WInv; cbn [w_gen w_sess].
    split; [now apply release_wf|]. split; [now apply NoDup_map_filter|].
    split.
    { rewrite Forall_forall in *. intros s Hs. apply filter_In in Hs. now apply H0. }
    split; [now apply NoDup_all_teids_filter|].
    intros a Ha. apply live_release. split.
    + apply Hi. now apply (all_teids_filter_incl _ _ a Ha).
    + intros Hb. exact (all_teids_partition (is_sess k seid) (w_sess w) a Hn Hb Ha).
Qed.

Lemma ev_run_cons retries access draws w e r : ev_run retries access draws w (e :: r) =
  (fst (ev_run retries access draws (fst (ev_step retries access draws w e)) r),
   snd (ev_step retries access draws w e) :: snd (ev_run retries access draws (fst (ev_step retries access draws w e)) r)).
Proof.
  cbn [ev_run]. destruct (ev_step retries access draws w e) as [w1 x]. cbn [fst snd].
  now destruct (ev_run retries access draws w1 r).
Qed.

Lemma ev_run_inv retries access draws es : forall w, existsb ev_claims es = false ->
  WInv w -> WInv (fst (ev_run retries access draws w es)).
Proof.
  induction es as [|e r IH]; intros w Hok H; [exact H|]. rewrite ev_run_cons. cbn [fst].
  cbn [existsb] in Hok. apply orb_false_elim in Hok. destruct Hok as (Hok1 & Hok2).
  apply IH; [exact Hok2|]. now apply ev_step_inv.
Qed.

(* the unguarded statement is false: session 22 claims (CHOOSE flag plus an explicit F-TEID in one
   PDI) the TEID 1 that was chosen for session 11, and releases it when it is deleted *)
Lemma ev_run_inv_refuted : exists retries access draws es w,
  WInv w /\ ~ WInv (fst (ev_run retries access draws w es)).
Proof.
  exists MAX_RETRIES, 0, (fun _ _ => 0), [EvMod 0 22 true 1; EvDel 0 22],
         (World [Sess 0 22 []; Sess 0 11 [1]] (fun _ => 0%nat) (Gen 1 [0])).
  split.
  - unfold WInv, wf, all_teids, live_ids, skey.
    cbn [w_gen w_sess offset used map concat app s_conn s_seid s_teids].
    split; [split; [unfold MAXV; lia|split]|split; [|split; [|split]]].
    + constructor; [intros []|constructor].
    + constructor; [unfold MAXV; lia|constructor].
    + constructor; [intros [E|[]]; discriminate E|constructor; [intros []|constructor]].
    + constructor; [discriminate|constructor; [discriminate|constructor]].
    + constructor; [intros []|constructor].
    + intros a Ha. exact Ha.
  - intros (_ & _ & _ & _ & Hi).
    assert (E : fst (ev_run MAX_RETRIES 0 (fun _ _ => 0) (World [Sess 0 22 []; Sess 0 11 [1]] (fun _ => 0%nat) (Gen 1 [0]))
                     [EvMod 0 22 true 1; EvDel 0 22]) =
                World [Sess 0 11 [1]] (fun _ => 0%nat) (Gen 1 [])) by (vm_compute; reflexivity).
    rewrite E in Hi. specialize (Hi 1 (or_introl eq_refl)). exact Hi.
Qed.

(* ------------------------------------------------------------------ statements used by Props/C07.v *)
Lemma c07_teid_fresh g id g' : offset g < MAXV -> allocate g = AOk id g' ->
  1 <= id <= MAXV /\ ~ In (id - 1) (used g) /\ used g' = (id - 1) :: used g.
Proof. intros H E. destruct (allocate_fresh g id g' H E) as (A & B & C & _). now repeat split. Qed.

Lemma c07_teid_unique g0 ops : wf g0 ->
  NoDup (live_ids (fst (run g0 ops))) /\
  (forall id, In id (live_ids (fst (run g0 ops))) -> 1 <= id <= MAXV) /\
  wf (fst (run g0 ops)).
Proof.
  intros H. pose proof (wf_run ops g0 H) as Hr. split; [now apply live_ids_nodup|].
  split; [|exact Hr]. intros id. now apply live_ids_range.
Qed.

Lemma c07_teid_refuse_iff_card g : wf g ->
  ((exists g', allocate g = AErr g') <-> N.of_nat (length (used g)) = MAXV).
Proof. intros H. rewrite (allocate_refuse_iff g (proj1 H)). now apply full_iff_card. Qed.

Lemma c07_seid_fresh retries (draws : stream) i st l j :
  new_seid retries draws i st = (Some l, j) -> l <> 0 /\ ~ In l st.
Proof. intros H. destruct (new_seid_fresh _ _ _ _ _ _ H) as (A & B & _). now split. Qed.

Lemma c07_seid_first_good retries (draws : stream) i st l j :
  new_seid retries draws i st = (Some l, j) ->
  (i < j <= i + retries)%nat /\ l = draws (j - 1)%nat /\
  forall k, (i <= k < j - 1)%nat -> bad_draw st (draws k) = true.
Proof.
  intros H. destruct (new_seid_fresh _ _ _ _ _ _ H) as (_ & _ & A & B & C).
  pose proof (new_seid_bound retries draws i st) as Sb. rewrite H in Sb. cbn [snd] in Sb.
  repeat split; try assumption; lia.
Qed.

Lemma c07_seid_refuse_iff retries (draws : stream) i st :
  fst (new_seid retries draws i st) = None <->
  forall k, (i <= k < i + retries)%nat -> bad_draw st (draws k) = true.
Proof.
  split.
  - intros H. destruct (new_seid retries draws i st) as [[l|] j] eqn:E; [discriminate|].
    now apply new_seid_none in E.
  - intros H. now rewrite (new_seid_refuse _ _ _ _ H).
Qed.

Lemma c07_seid_draws_100 (draws : stream) i st :
  (i <= snd (new_seid MAX_RETRIES draws i st) <= i + 100)%nat.
Proof. apply (new_seid_bound MAX_RETRIES draws i st). Qed.

Lemma c07_programmed retries access draws aok dok ps st i g l created batch j g' : wf g ->
  establish retries access draws aok dok ps st i g = (EAccepted l created batch, j, g') ->
  Forall (fun e => d_fseid e = l) batch /\
  map d_id batch = map cp_id ps /\
  (forall pid t ip, In (pid, t, ip) created <->
     exists e, In e batch /\ d_choose e = true /\ d_id e = pid /\ d_teid e = t /\ d_ip e = ip) /\
  (forall pid t ip, In (pid, t, ip) created -> ip = access /\ 1 <= t <= MAXV).
Proof.
  intros Hw E. destruct (establish_accepted _ _ _ _ _ _ _ _ _ _ _ _ _ _ Hw E)
    as (_ & (P1 & P2 & -> & P4) & (_ & T2 & _) & _).
  split; [exact P1|]. split; [exact P2|]. split; [intros; apply created_of_spec|].
  intros pid t ip Hin. split.
  - apply created_of_spec in Hin. destruct Hin as (e & He & Hc & _ & _ & <-).
    rewrite Forall_forall in P4. now apply P4.
  - rewrite Forall_forall in T2.
    assert (In t (chosen batch)).
    { rewrite <- created_chosen. apply in_map_iff. exists (pid, t, ip). now split. }
    now apply T2 in H.
Qed.

Lemma c07_est_ids retries access draws aok dok ps st i g l created batch j g' : wf g ->
  establish retries access draws aok dok ps st i g = (EAccepted l created batch, j, g') ->
  (l <> 0 /\ ~ In l st) /\
  NoDup (map (fun x => snd (fst x)) created) /\
  Forall (fun t => 1 <= t <= MAXV /\ ~ In t (live_ids g) /\ In t (live_ids g'))
         (map (fun x => snd (fst x)) created).
Proof.
  intros Hw E. destruct (establish_accepted _ _ _ _ _ _ _ _ _ _ _ _ _ _ Hw E)
    as ((S1 & S2 & _) & (_ & _ & -> & _) & (T1 & T2 & T3) & _).
  rewrite created_chosen. split; [now split|]. split; [exact T1|].
  rewrite Forall_forall in *. intros t Ht. destruct (T2 t Ht) as (A & B).
  split; [exact A|]. split; [exact B|].
  eapply Permutation_in; [symmetry; exact T3|]. apply in_or_app. left. now apply in_rev in Ht.
Qed.

Lemma c07_refused_restores retries access draws aok dok ps st i g cause b j g' : wf g ->
  establish retries access draws aok dok ps st i g = (ERefused cause b, j, g') ->
  forall id, In id (live_ids g') <-> In id (live_ids g).
Proof. intros Hw E. now destruct (establish_refused _ _ _ _ _ _ _ _ _ _ _ _ _ Hw E) as (_ & H & _). Qed.
