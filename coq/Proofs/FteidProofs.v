(* Lemmas about Model/Fteid.v: the TEID generator (all cursor positions, all used sets, all
   operation sequences), the local-SEID choice (all draw streams) and the establishment step. *)
From Coq Require Import ZArith NArith List Bool Lia ZifyN ZifyNat ZifyBool Permutation.
From UPF Require Import Model.Fteid.
Import ListNotations.
Ltac Zify.zify_post_hook ::= Z.div_mod_to_equations.
Open Scope N_scope.

(* ------------------------------------------------------------------ lists *)
Lemma mem_In x l : mem x l = true <-> In x l.
Proof.
  unfold mem. rewrite existsb_exists. split.
  - intros (y & Hy & E). apply N.eqb_eq in E. now subst.
  - intros H. exists x. split; [exact H|apply N.eqb_refl].
Qed.
Lemma mem_nIn x l : mem x l = false <-> ~ In x l.
Proof. rewrite <- mem_In. destruct (mem x l); split; congruence. Qed.

Lemma In_del x y l : In y (del x l) <-> In y l /\ y <> x.
Proof.
  induction l as [|z l IH]; cbn [del]; [cbn [In]; tauto|].
  destruct (N.eqb_spec x z) as [->|Hn].
  - rewrite IH. cbn [In]. split.
    + intros [H1 H2]. split; [now right|exact H2].
    + intros [[E|H] Hne]; [congruence|now split].
  - cbn [In]. rewrite IH. split.
    + intros [E|[H1 H2]]; [split; [now left|congruence]|split; [now right|exact H2]].
    + intros [[E|H] Hne]; [now left|right; now split].
Qed.
Lemma NoDup_del x l : NoDup l -> NoDup (del x l).
Proof.
  induction 1 as [|z l Hn Hd IH]; cbn [del]; [constructor|].
  destruct (x =? z); [exact IH|]. constructor; [|exact IH]. rewrite In_del. tauto.
Qed.
Lemma Forall_del (P : N -> Prop) x l : Forall P l -> Forall P (del x l).
Proof. induction 1; cbn [del]; [constructor|]. destruct (x =? _); [assumption|now constructor]. Qed.
Lemma del_notin x l : ~ In x l -> del x l = l.
Proof.
  induction l as [|z l IH]; cbn [del]; [reflexivity|]. intros H.
  destruct (N.eqb_spec x z) as [->|Hn]; [exfalso; apply H; now left|].
  f_equal. apply IH. intros Hi. apply H. now right.
Qed.
Lemma length_del_le x l : (length (del x l) <= length l)%nat.
Proof. induction l as [|z l IH]; cbn [del length]; [lia|]. destruct (x =? z); cbn [length]; lia. Qed.

Lemma NoDup_map_inj_on {A B} (f : A -> B) l :
  (forall x y, In x l -> In y l -> f x = f y -> x = y) -> NoDup l -> NoDup (map f l).
Proof.
  intros Hinj Hd. induction Hd as [|x l Hn Hd IH]; cbn [map]; [constructor|].
  constructor.
  - intros Hin. apply in_map_iff in Hin. destruct Hin as (y & E & Hy).
    assert (y = x) by (apply Hinj; [now right|now left|exact E]). subst. contradiction.
  - apply IH. intros a b Ha Hb. apply Hinj; now right.
Qed.

(* ------------------------------------------------------------------ the cursor walk *)
Lemma update_offset_lt o : update_offset o < MAXV.
Proof. unfold update_offset, MAXV, U32. lia. Qed.

Lemma update_offset_small o : o < MAXV -> update_offset o = (o + 1) mod MAXV.
Proof. unfold update_offset, MAXV, U32. intros H. lia. Qed.

(* position after k steps from b *)
Definition pos (b : N) (k : nat) : N := (b + N.of_nat k) mod MAXV.

Lemma pos_lt b k : pos b k < MAXV.
Proof. unfold pos, MAXV. lia. Qed.
Lemma pos_0 b : b < MAXV -> pos b 0 = b.
Proof. unfold pos, MAXV. intros H. cbn [N.of_nat]. lia. Qed.
Lemma pos_S b k : update_offset (pos b k) = pos b (S k).
Proof. rewrite update_offset_small by apply pos_lt. unfold pos, MAXV. lia. Qed.
Lemma pos_inj b j k : N.of_nat j < MAXV -> N.of_nat k < MAXV -> pos b j = pos b k -> j = k.
Proof. unfold pos, MAXV. intros Hj Hk E. lia. Qed.
Lemma pos_back b k : b < MAXV -> N.of_nat (S k) <= MAXV -> pos b (S k) = b -> N.of_nat (S k) = MAXV.
Proof. unfold pos, MAXV. intros Hb Hk E. lia. Qed.
Lemma pos_full b : b < MAXV -> pos b (N.to_nat MAXV) = b.
Proof. unfold pos, MAXV. intros Hb. lia. Qed.
Lemma pos_surj b o : b < MAXV -> o < MAXV -> exists j, N.of_nat j < MAXV /\ pos b j = o.
Proof.
  intros Hb Ho. exists (N.to_nat ((o + MAXV - b) mod MAXV)). unfold pos, MAXV in *. split; lia.
Qed.

(* k distinct visited offsets, all used: k <= |used| *)
Lemma visited_le b u k : N.of_nat k <= MAXV ->
  (forall j, (j < k)%nat -> In (pos b j) u) -> (k <= length u)%nat.
Proof.
  intros Hk Hin.
  assert (Hnd : NoDup (map (pos b) (seq 0 k))).
  { apply NoDup_map_inj_on; [|apply seq_NoDup].
    intros x y Hx Hy. apply in_seq in Hx, Hy. apply pos_inj; lia. }
  apply NoDup_incl_length with (l' := u) in Hnd.
  - now rewrite map_length, seq_length in Hnd.
  - intros a Ha. apply in_map_iff in Ha. destruct Ha as (j & <- & Hj). apply in_seq in Hj.
    apply Hin. lia.
Qed.

(* the loop of Allocate, from any point of the walk *)
Lemma find_free_spec fuel : forall b u k, b < MAXV -> N.of_nat k < MAXV ->
  (forall j, (j < k)%nat -> In (pos b j) u) -> (length u < k + fuel)%nat ->
  match find_free fuel b (pos b k) u with
  | None => False
  | Some None => forall o, o < MAXV -> In o u
  | Some (Some off) => exists k', N.of_nat k' < MAXV /\ off = pos b k' /\ ~ In off u /\
                                  forall j, (j < k')%nat -> In (pos b j) u
  end.
Proof.
  induction fuel as [|f IH]; intros b u k Hb Hk Hin Hlen.
  - assert (k <= length u)%nat by (apply (visited_le b); [lia|exact Hin]). lia.
  - cbn [find_free]. destruct (mem (pos b k) u) eqn:E.
    + apply mem_In in E. rewrite pos_S.
      assert (Hin' : forall j, (j < S k)%nat -> In (pos b j) u).
      { intros j Hj. destruct (Nat.eq_dec j k) as [->|]; [exact E|apply Hin; lia]. }
      destruct (N.eqb_spec (pos b (S k)) b) as [Eb|Nb].
      * apply pos_back in Eb; [|exact Hb|lia].
        intros o Ho. destruct (pos_surj b o Hb Ho) as (j & Hj & <-). apply Hin'. lia.
      * assert (N.of_nat (S k) < MAXV).
        { destruct (N.eq_dec (N.of_nat (S k)) MAXV) as [Ek|]; [|lia].
          exfalso. apply Nb. replace (S k) with (N.to_nat MAXV) by lia. now apply pos_full. }
        apply IH; [exact Hb|assumption|exact Hin'|lia].
    + apply mem_nIn in E. exists k. repeat split; assumption.
Qed.

(* ------------------------------------------------------------------ Allocate *)
Lemma allocate_cases g : offset g < MAXV ->
  match allocate g with
  | AFuel => False
  | AErr g' => g' = g /\ forall o, o < MAXV -> In o (used g)
  | AOk id g' => exists k, N.of_nat k < MAXV /\ let off := pos (offset g) k in
       id = off + 1 /\ ~ In off (used g) /\ (forall j, (j < k)%nat -> In (pos (offset g) j) (used g)) /\
       g' = Gen (update_offset off) (off :: used g)
  end.
Proof.
  intros Hb. unfold allocate.
  pose proof (find_free_spec (S (length (used g))) (offset g) (used g) 0 Hb) as H.
  rewrite pos_0 in H by exact Hb.
  specialize (H ltac:(unfold MAXV; lia) ltac:(intros; lia) ltac:(lia)).
  destruct (find_free _ _ _ _) as [[off|]|]; [| |exact H].
  - destruct H as (k & Hk & -> & Hn & Hj). exists k. cbn zeta. repeat split; try assumption.
    pose proof (pos_lt (offset g) k). unfold MINV, U32, MAXV in *. lia.
  - split; [now destruct g|exact H].
Qed.

Lemma allocate_never_fuel g : offset g < MAXV -> allocate g <> AFuel.
Proof. intros H E. pose proof (allocate_cases g H) as C. now rewrite E in C. Qed.

Lemma allocate_fresh g id g' : offset g < MAXV -> allocate g = AOk id g' ->
  1 <= id <= MAXV /\ ~ In (id - 1) (used g) /\ used g' = (id - 1) :: used g /\ offset g' < MAXV.
Proof.
  intros Hb E. pose proof (allocate_cases g Hb) as C. rewrite E in C.
  destruct C as (k & Hk & C). cbn zeta in C. destruct C as (-> & Hn & _ & ->).
  pose proof (pos_lt (offset g) k) as Hl.
  replace (pos (offset g) k + 1 - 1) with (pos (offset g) k) by lia.
  cbn [used offset]. repeat split; try assumption; try (unfold MAXV in *; lia).
  apply update_offset_lt.
Qed.

(* the id chosen is the first free offset at or after the cursor, cyclically, plus one *)
Lemma allocate_first_free g id g' : offset g < MAXV -> allocate g = AOk id g' ->
  exists k, N.of_nat k < MAXV /\ id = (offset g + N.of_nat k) mod MAXV + 1 /\
    (forall j, (j < k)%nat -> In ((offset g + N.of_nat j) mod MAXV) (used g)) /\
    offset g' = (id mod MAXV).
Proof.
  intros Hb E. pose proof (allocate_cases g Hb) as C. rewrite E in C.
  destruct C as (k & Hk & C). cbn zeta in C. destruct C as (-> & Hn & Hj & ->).
  exists k. repeat split; try assumption. cbn [offset].
  rewrite update_offset_small by apply pos_lt. reflexivity.
Qed.

Lemma allocate_refuse_iff g : offset g < MAXV ->
  ((exists g', allocate g = AErr g') <-> forall o, o < MAXV -> In o (used g)).
Proof.
  intros Hb. pose proof (allocate_cases g Hb) as C. split.
  - intros (g' & E). rewrite E in C. apply C.
  - intros Hall. destruct (allocate g) as [id g'| g'|]; [|now exists g'|contradiction].
    exfalso. destruct C as (k & Hk & C). cbn zeta in C. destruct C as (_ & Hn & _).
    apply Hn. apply Hall. apply pos_lt.
Qed.

Lemma allocate_err_unchanged g g' : offset g < MAXV -> allocate g = AErr g' -> g' = g.
Proof. intros Hb E. pose proof (allocate_cases g Hb) as C. rewrite E in C. apply C. Qed.

(* ------------------------------------------------------------------ well-formed states *)
Definition wf (g : gen) : Prop :=
  offset g < MAXV /\ NoDup (used g) /\ Forall (fun o => o < MAXV) (used g).

Lemma wf_new : wf new_gen.
Proof. unfold wf, new_gen. cbn [offset used]. split; [unfold MAXV; lia|split; constructor]. Qed.

Lemma wf_allocate g id g' : wf g -> allocate g = AOk id g' -> wf g'.
Proof.
  intros (Hb & Hd & Hf) E. pose proof (allocate_cases g Hb) as C. rewrite E in C.
  destruct C as (k & Hk & C). cbn zeta in C. destruct C as (_ & Hn & _ & ->).
  repeat split; cbn [offset used].
  - apply update_offset_lt.
  - now constructor.
  - constructor; [apply pos_lt|exact Hf].
Qed.

Lemma wf_free id g : wf g -> wf (free_id id g).
Proof.
  intros (Hb & Hd & Hf). unfold free_id. destruct (id <? MINV); [now repeat split|].
  repeat split; cbn [offset used]; [exact Hb|now apply NoDup_del|now apply Forall_del].
Qed.

Lemma wf_step g o : wf g -> wf (fst (step g o)).
Proof.
  intros H. destruct o as [|id|id]; cbn [step].
  - destruct (allocate g) as [id g'|g'|] eqn:E; cbn [fst]; [|
      |exact H].
    + eapply wf_allocate; eassumption.
    + apply allocate_err_unchanged in E; [now subst|apply H].
  - now apply wf_free.
  - exact H.
Qed.

Lemma run_cons g o r : run g (o :: r) =
  (fst (run (fst (step g o)) r), snd (step g o) :: snd (run (fst (step g o)) r)).
Proof. cbn [run]. destruct (step g o) as [g' x]. cbn [fst snd]. now destruct (run g' r). Qed.

Lemma wf_run ops : forall g, wf g -> wf (fst (run g ops)).
Proof.
  induction ops as [|o r IH]; intros g H; [exact H|].
  rewrite run_cons. cbn [fst]. apply IH. now apply wf_step.
Qed.

(* live ids: in [1, 2^32-1], pairwise distinct *)
Lemma live_ids_nodup g : wf g -> NoDup (live_ids g).
Proof.
  intros (_ & Hd & _). unfold live_ids. apply NoDup_map_inj_on; [|exact Hd].
  intros x y _ _. unfold MINV. lia.
Qed.
Lemma live_ids_range g id : wf g -> In id (live_ids g) -> 1 <= id <= MAXV.
Proof.
  intros (_ & _ & Hf) Hin. unfold live_ids in Hin. apply in_map_iff in Hin.
  destruct Hin as (o & <- & Ho). rewrite Forall_forall in Hf. specialize (Hf o Ho).
  unfold MINV, MAXV in *. lia.
Qed.

Lemma is_allocated_live id g : is_allocated id g = true <-> In id (live_ids g).
Proof.
  unfold is_allocated, live_ids, MINV. destruct (N.ltb_spec id 1) as [Hl|Hl].
  - split; [discriminate|]. intros H. apply in_map_iff in H. destruct H as (o & E & _). lia.
  - rewrite mem_In, in_map_iff. split.
    + intros H. exists (id - 1). split; [lia|exact H].
    + intros (o & E & H). now replace (id - 1) with o by lia.
Qed.

Lemma live_ids_free id g : live_ids (free_id id g) = del id (live_ids g).
Proof.
  unfold free_id, live_ids, MINV. destruct (N.ltb_spec id 1) as [Hl|Hl].
  - symmetry. apply del_notin. intros H. apply in_map_iff in H. destruct H as (o & E & _). lia.
  - cbn [used]. induction (used g) as [|z l IH]; cbn [del map]; [reflexivity|].
    destruct (N.eqb_spec (id - 1) z) as [E|E]; destruct (N.eqb_spec id (z + 1)) as [E'|E']; try lia.
    + exact IH.
    + cbn [map]. now rewrite IH.
Qed.

(* cardinality: in a well-formed state "every offset used" is "|used| = 2^32-1" *)
Lemma full_iff_card g : wf g ->
  ((forall o, o < MAXV -> In o (used g)) <-> N.of_nat (length (used g)) = MAXV).
Proof.
  intros (_ & Hd & Hf). rewrite Forall_forall in Hf.
  set (range := map N.of_nat (seq 0 (N.to_nat MAXV))).
  assert (Hlen : length range = N.to_nat MAXV) by (unfold range; now rewrite map_length, seq_length).
  assert (Hr : forall o, In o range <-> o < MAXV).
  { intros o. unfold range. rewrite in_map_iff. split.
    - intros (j & <- & Hj). apply in_seq in Hj. lia.
    - intros Ho. exists (N.to_nat o). split; [lia|]. apply in_seq. lia. }
  assert (Hrd : NoDup range).
  { unfold range. apply NoDup_map_inj_on; [|apply seq_NoDup]. intros x y _ _. lia. }
  clearbody range.
  assert (Hle : (length (used g) <= length range)%nat).
  { apply NoDup_incl_length; [exact Hd|]. intros o Ho. apply Hr. now apply Hf. }
  split.
  - intros Hall. assert (length range <= length (used g))%nat.
    { apply NoDup_incl_length; [exact Hrd|]. intros o Ho. apply Hall. now apply Hr. }
    lia.
  - intros Hc o Ho. apply Hr in Ho.
    assert (Hincl : incl (used g) range) by (intros x Hx; apply Hr; now apply Hf).
    apply (NoDup_length_incl Hd) in Hincl; [now apply Hincl|lia].
Qed.

(* ------------------------------------------------------------------ the history monitor *)
Lemma hist_ok_run ops : forall g, wf g -> hist_ok (live_ids g) ops (snd (run g ops)) = true.
Proof.
  induction ops as [|o r IH]; intros g H; [reflexivity|].
  rewrite run_cons. cbn [snd]. pose proof (wf_step g o H) as Hs.
  destruct o as [|id|id]; cbn [step] in *.
  - pose proof (allocate_cases g (proj1 H)) as C.
    destruct (allocate g) as [id g'|g'|] eqn:E; cbn [fst snd hist_ok] in *; [| |contradiction].
    + destruct (allocate_fresh g id g' (proj1 H) E) as (Hr & Hn & Hu & _).
      assert (El : live_ids g' = id :: live_ids g).
      { unfold live_ids. rewrite Hu. cbn [map]. f_equal. unfold MINV. lia. }
      rewrite <- El, (IH g' Hs), andb_true_r.
      assert (~ In id (live_ids g)).
      { intros Hin. apply Hn. unfold live_ids in Hin. apply in_map_iff in Hin.
        destruct Hin as (o & Eo & Ho). unfold MINV in Eo. now replace (id - 1) with o by lia. }
      apply mem_nIn in H0. rewrite H0. unfold MINV, MAXV in *.
      destruct (N.leb_spec 1 id); destruct (N.leb_spec id 4294967295); try lia; reflexivity.
    + destruct C as (-> & Hall). rewrite (IH g H), andb_true_r.
      apply (full_iff_card g H) in Hall. unfold live_ids. rewrite map_length. now apply N.eqb_eq.
  - cbn [fst snd hist_ok]. rewrite <- live_ids_free. now apply IH.
  - cbn [fst snd hist_ok]. rewrite (IH g H), andb_true_r.
    destruct (is_allocated id g) eqn:E.
    + apply is_allocated_live, mem_In in E. now rewrite E.
    + destruct (mem id (live_ids g)) eqn:E'; [|reflexivity].
      apply mem_In, is_allocated_live in E'. congruence.
Qed.

(* ------------------------------------------------------------------ interleavings *)
(* any merge of per-goroutine operation lists is an operation list; each method is one atomic
   step because FTEIDGenerator.lock is held over the whole body (source tie in tools/props/c07.py) *)
Inductive merge {A} : list (list A) -> list A -> Prop :=
| merge_nil ts : Forall (fun t => t = []) ts -> merge ts []
| merge_step ts1 x t ts2 l : merge (ts1 ++ t :: ts2) l -> merge (ts1 ++ (x :: t) :: ts2) (x :: l).

Lemma any_interleaving g0 (threads : list (list op)) sched : wf g0 -> merge threads sched ->
  wf (fst (run g0 sched)) /\ NoDup (live_ids (fst (run g0 sched))) /\
  hist_ok (live_ids g0) sched (snd (run g0 sched)) = true.
Proof.
  intros H _. split; [now apply wf_run|]. split; [apply live_ids_nodup; now apply wf_run|].
  now apply hist_ok_run.
Qed.

(* a merge schedules exactly the operations of the threads *)
Lemma merge_perm {A} (ts : list (list A)) l : merge ts l -> Permutation (concat ts) l.
Proof.
  induction 1 as [ts Hall|ts1 x t ts2 l Hm IH].
  - replace (concat ts) with (@nil A); [constructor|].
    induction Hall as [|t ts -> _ IHt]; cbn; [reflexivity|exact IHt].
  - rewrite concat_app in *. cbn [concat] in *. rewrite <- app_comm_cons.
    symmetry. apply Permutation_cons_app. symmetry. exact IH.
Qed.

(* ------------------------------------------------------------------ NewPFCPSession *)
Lemma new_seid_fresh retries draws : forall i st l j,
  new_seid retries draws i st = (Some l, j) -> l <> 0 /\ ~ In l st /\ (i < j)%nat /\ l = draws (j - 1)%nat /\
  forall k, (i <= k < j - 1)%nat -> bad_draw st (draws k) = true.
Proof.
  induction retries as [|r IH]; intros i st l j; cbn [new_seid]; [discriminate|].
  destruct ((draws i =? 0) || mem (draws i) st) eqn:E.
  - intros H. apply IH in H. destruct H as (H1 & H2 & H3 & H4 & H5).
    repeat split; try assumption; [lia|]. intros k Hk.
    destruct (Nat.eq_dec k i) as [->|]; [exact E|apply H5; lia].
  - intros H. injection H as <- <-. apply orb_false_elim in E. destruct E as (E0 & Em).
    apply N.eqb_neq in E0. apply mem_nIn in Em.
    replace (S i - 1)%nat with i by lia. repeat split; try assumption; [lia|]. intros k Hk. lia.
Qed.

Lemma new_seid_refuse retries draws : forall i st,
  (forall k, (i <= k < i + retries)%nat -> bad_draw st (draws k) = true) ->
  new_seid retries draws i st = (None, (i + retries)%nat).
Proof.
  induction retries as [|r IH]; intros i st H; cbn [new_seid]; [f_equal; lia|].
  unfold bad_draw in H. rewrite (H i) by lia. rewrite IH; [f_equal; lia|].
  intros k Hk. apply H. lia.
Qed.

Lemma new_seid_none retries draws : forall i st j,
  new_seid retries draws i st = (None, j) ->
  j = (i + retries)%nat /\ forall k, (i <= k < i + retries)%nat -> bad_draw st (draws k) = true.
Proof.
  induction retries as [|r IH]; intros i st j; cbn [new_seid].
  - intros H. injection H as <-. split; [lia|]. intros k Hk. lia.
  - destruct ((draws i =? 0) || mem (draws i) st) eqn:E; [|discriminate].
    intros H. apply IH in H. destruct H as (-> & H). split; [lia|]. intros k Hk.
    destruct (Nat.eq_dec k i) as [->|]; [exact E|apply H; lia].
Qed.

Lemma new_seid_bound retries draws i st : (i <= snd (new_seid retries draws i st) <= i + retries)%nat.
Proof.
  revert i. induction retries as [|r IH]; intros i; cbn [new_seid snd]; [lia|].
  destruct ((draws i =? 0) || mem (draws i) st); cbn [snd]; [|lia].
  specialize (IH (S i)). lia.
Qed.

(* the outcome depends only on the first [retries] draws from position i *)
Lemma new_seid_ext retries d1 d2 : forall i st,
  (forall k, (i <= k < i + retries)%nat -> d1 k = d2 k) ->
  new_seid retries d1 i st = new_seid retries d2 i st.
Proof.
  induction retries as [|r IH]; intros i st H; cbn [new_seid]; [reflexivity|].
  rewrite <- (H i) by lia. destruct ((d1 i =? 0) || mem (d1 i) st); [|reflexivity].
  apply IH. intros k Hk. apply H. lia.
Qed.

(* ------------------------------------------------------------------ establishment *)
(* what build_pdrs does to the generator and what it returns *)
Lemma build_pdrs_spec lseid access ps : forall g g' ds, wf g ->
  build_pdrs lseid access g ps = (g', inr ds) ->
  wf g' /\
  Forall (fun d => d_fseid d = lseid) ds /\
  map d_id ds = map cp_id ps /\
  (* chosen TEIDs: non-zero, fresh, pairwise distinct, marked used afterwards, access IP *)
  (let chosen := map d_teid (filter d_choose ds) in
   NoDup chosen /\
   Forall (fun t => 1 <= t <= MAXV /\ ~ In t (live_ids g) /\ In t (live_ids g')) chosen /\
   Permutation (live_ids g') (rev chosen ++ live_ids g)) /\
  Forall (fun d => d_choose d = true -> d_ip d = access) ds /\
  Forall2 (fun p d => d_choose d = cp_choose p /\
                      (cp_choose p = false -> d_teid d = cp_teid p /\
                          d_ip d = if cp_teid p =? 0 then 0 else cp_ip p)) ps ds.
Proof.
  induction ps as [|p r IH]; intros g g' ds Hw; cbn [build_pdrs].
  - intros H. injection H as <- <-. cbn [filter map rev app].
    split; [exact Hw|]. split; [constructor|]. split; [reflexivity|].
    split; [split; [constructor|split; [constructor|apply Permutation_refl]]|].
    split; constructor.
  - destruct (cp_parse_ok p); cbn [negb]; [|discriminate].
    destruct (cp_choose p) eqn:Ech.
    + pose proof (allocate_cases g (proj1 Hw)) as C.
      destruct (allocate g) as [id g1|g1|] eqn:Ea; [| discriminate|contradiction].
      destruct (build_pdrs lseid access g1 r) as [g2 [c|ds']] eqn:Eb; [discriminate|].
      intros H. injection H as <- <-.
      pose proof (wf_allocate g id g1 Hw Ea) as Hw1.
      destruct (allocate_fresh g id g1 (proj1 Hw) Ea) as (Hr & Hn & Hu & _).
      assert (El : live_ids g1 = id :: live_ids g).
      { unfold live_ids. rewrite Hu. cbn [map]. f_equal. unfold MINV. lia. }
      assert (Hnl : ~ In id (live_ids g)).
      { intros Hin. apply Hn. unfold live_ids in Hin. apply in_map_iff in Hin.
        destruct Hin as (o & Eo & Ho). unfold MINV in Eo. now replace (id - 1) with o by lia. }
      destruct (IH g1 g2 ds' Hw1 Eb) as (Hw2 & Hf & Hid & (Hnd & Hch & Hp) & Hip & Hf2).
      cbn [filter d_choose map d_teid d_fseid d_id d_ip rev] in *.
      split; [|split; [|split; [|split; [split; [|split]|split]]]].
      * exact Hw2.
      * constructor; [reflexivity|exact Hf].
      * now rewrite Hid.
      * constructor; [|exact Hnd]. intros Hin. rewrite Forall_forall in Hch.
        apply Hch in Hin. destruct Hin as (_ & Hin & _). apply Hin. rewrite El. now left.
      * constructor.
        -- split; [exact Hr|]. split; [exact Hnl|].
           eapply Permutation_in; [symmetry; exact Hp|]. apply in_or_app. right. rewrite El. now left.
        -- eapply Forall_impl; [|exact Hch]. cbn beta. intros t (H1 & H2 & H3).
           split; [exact H1|]. split; [|exact H3]. intros Hin. apply H2. rewrite El. now right.
      * etransitivity; [exact Hp|]. rewrite El. rewrite <- app_assoc. cbn [app]. apply Permutation_refl.
      * constructor; [reflexivity|exact Hip].
      * constructor; [|exact Hf2]. cbn [d_choose]. rewrite Ech. split; [reflexivity|discriminate].
    + assert (exists d, (if cp_teid p =? 0 then (g, @inr N dpdr (DPdr lseid (cp_id p) 0 0 false))
                         else (g, inr (DPdr lseid (cp_id p) (cp_teid p) (cp_ip p) false))) = (g, inr d) /\
                        d_fseid d = lseid /\ d_id d = cp_id p /\ d_choose d = false /\
                        d_teid d = cp_teid p /\ d_ip d = if cp_teid p =? 0 then 0 else cp_ip p) as (d & -> & D1 & D2 & D3 & D4 & D5).
      { destruct (N.eqb_spec (cp_teid p) 0) as [E0|E0]; eexists; repeat split; cbn; try reflexivity. now rewrite E0. }
      destruct (build_pdrs lseid access g r) as [g2 [c|ds']] eqn:Eb; [discriminate|].
      intros H. injection H as <- <-.
      destruct (IH g g2 ds' Hw Eb) as (Hw2 & Hf & Hid & (Hnd & Hch & Hp) & Hip & Hf2).
      cbn [filter map]. rewrite D3.
      split; [exact Hw2|split; [|split; [|split; [split; [exact Hnd|split; [exact Hch|exact Hp]]|split]]]].
      * now constructor.
      * cbn [map]. now rewrite D2, Hid.
      * constructor; [rewrite D3; discriminate|exact Hip].
      * constructor; [|exact Hf2]. split; [congruence|]. intros _. now split.
Qed.

Lemma build_pdrs_wf lseid access ps : forall g, wf g -> wf (fst (build_pdrs lseid access g ps)) /\
  (forall id, In id (live_ids g) -> In id (live_ids (fst (build_pdrs lseid access g ps)))) /\
  snd (build_pdrs lseid access g ps) <> inl 0.
Proof.
  induction ps as [|p r IH]; intros g Hw; cbn [build_pdrs].
  - cbn. repeat split; [apply Hw..|auto|discriminate].
  - destruct (cp_parse_ok p); cbn [negb fst snd]; [|repeat split; [apply Hw..|auto|discriminate]].
    destruct (cp_choose p).
    + pose proof (allocate_cases g (proj1 Hw)) as C.
      destruct (allocate g) as [id g1|g1|] eqn:Ea; [| |contradiction].
      * pose proof (wf_allocate g id g1 Hw Ea) as Hw1.
        destruct (allocate_fresh g id g1 (proj1 Hw) Ea) as (_ & _ & Hu & _).
        destruct (IH g1 Hw1) as (I1 & I2 & I3).
        destruct (build_pdrs lseid access g1 r) as [g2 [c|ds']]; cbn [fst snd] in *.
        -- split; [exact I1|]. split; [|exact I3]. intros x Hx. apply I2. unfold live_ids in *.
           rewrite Hu. cbn [map]. now right.
        -- split; [exact I1|]. split; [|discriminate]. intros x Hx. apply I2. unfold live_ids in *.
           rewrite Hu. cbn [map]. now right.
      * destruct C as (-> & _). cbn [fst snd]. split; [exact Hw|]. split; [auto|discriminate].
    + assert (E : (if cp_teid p =? 0 then (g, @inr N dpdr (DPdr lseid (cp_id p) 0 0 false))
                   else (g, inr (DPdr lseid (cp_id p) (cp_teid p) (cp_ip p) false))) =
                  (g, inr (if cp_teid p =? 0 then DPdr lseid (cp_id p) 0 0 false
                           else DPdr lseid (cp_id p) (cp_teid p) (cp_ip p) false)))
        by (destruct (cp_teid p =? 0); reflexivity).
      rewrite E. destruct (IH g Hw) as (I1 & I2 & I3).
      destruct (build_pdrs lseid access g r) as [g2 [c|ds']]; cbn [fst snd] in *.
      * split; [exact I1|]. split; [exact I2|exact I3].
      * split; [exact I1|]. split; [exact I2|discriminate].
Qed.

(* one establishment *)
Lemma establish_accepted retries access draws aok dok ps c g l created batch c' g' : wf g ->
  establish retries access draws aok dok ps c g = (EAccepted l created batch, c', g') ->
  (l <> 0 /\ ~ In l (store c) /\ store c' = l :: store c /\
   (drawn c < drawn c' <= drawn c + retries)%nat /\ l = draws (drawn c' - 1)%nat) /\
  (Forall (fun e => d_fseid e = l) batch /\ map d_id batch = map cp_id ps /\
   created = created_of batch /\
   Forall (fun e => d_choose e = true -> d_ip e = access) batch) /\
  (let chosen := map (fun x => snd (fst x)) created in
   NoDup chosen /\
   Forall (fun t => 1 <= t <= MAXV /\ ~ In t (live_ids g) /\ In t (live_ids g')) chosen) /\
  wf g'.
Proof.
  intros Hw. unfold establish. destruct aok; cbn [negb]; [|discriminate].
  destruct (new_seid retries draws (drawn c) (store c)) as [[l0|] i] eqn:Es; [|discriminate].
  destruct (build_pdrs l0 access g ps) as [g1 [cause|ds]] eqn:Eb; [discriminate|].
  destruct dok; [|discriminate]. intros H. injection H as <- <- <- <- <-.
  destruct (new_seid_fresh _ _ _ _ _ _ Es) as (S1 & S2 & S3 & S4 & _).
  pose proof (new_seid_bound retries draws (drawn c) (store c)) as Sb. rewrite Es in Sb. cbn [snd] in Sb.
  destruct (build_pdrs_spec _ _ _ _ _ _ Hw Eb) as (Hw1 & Hf & Hid & (Hnd & Hch & _) & Hip & _).
  cbn [store drawn].
  assert (Em : map (fun x : N * N * N => snd (fst x)) (created_of ds) = map d_teid (filter d_choose ds)).
  { unfold created_of. rewrite map_map. reflexivity. }
  split; [repeat split; try assumption; lia|].
  split; [repeat split; assumption|].
  split; [|exact Hw1]. cbn zeta. rewrite Em. split; assumption.
Qed.

(* every Created PDR of the response is a PDR handed to the datapath with the same id, TEID and
   address, and every CHOOSE PDR handed to the datapath is reported *)
Lemma created_of_spec ds pid t ip :
  In (pid, t, ip) (created_of ds) <->
  exists e, In e ds /\ d_choose e = true /\ d_id e = pid /\ d_teid e = t /\ d_ip e = ip.
Proof.
  unfold created_of. rewrite in_map_iff. split.
  - intros (e & E & He). apply filter_In in He. destruct He as (He & Hc). injection E as <- <- <-.
    exists e. repeat split; assumption.
  - intros (e & He & Hc & <- & <- & <-). exists e. split; [reflexivity|]. apply filter_In. now split.
Qed.

(* a refusal for lack of a SEID consumes exactly [retries] draws, all of them 0 or stored, and
   changes nothing else *)
Lemma establish_seid_refusal retries access draws dok ps c g :
  (forall k, (drawn c <= k < drawn c + retries)%nat -> bad_draw (store c) (draws k) = true) ->
  establish retries access draws true dok ps c g =
  (ERefused CAUSE_NO_RESOURCES None, Conn (store c) (drawn c + retries), g).
Proof. intros H. unfold establish. cbn [negb]. now rewrite (new_seid_refuse _ _ _ _ H). Qed.

(* the store never changes on a refusal; the generator stays well formed and never loses an id *)
Lemma establish_any retries access draws aok dok ps c g : wf g ->
  let '(r, c', g') := establish retries access draws aok dok ps c g in
  wf g' /\ (forall id, In id (live_ids g) -> In id (live_ids g')) /\
  (drawn c <= drawn c' <= drawn c + retries)%nat /\
  match r with
  | EAccepted l _ _ => store c' = l :: store c
  | ERefused cause _ => store c' = store c /\ cause <> 0
  end.
Proof.
  intros Hw. unfold establish. destruct aok; cbn [negb].
  2:{ repeat split; try apply Hw; auto; try lia. discriminate. }
  pose proof (new_seid_bound retries draws (drawn c) (store c)) as Sb.
  destruct (new_seid retries draws (drawn c) (store c)) as [[l0|] i] eqn:Es; cbn [snd] in Sb.
  2:{ cbn [drawn store]. repeat split; try apply Hw; auto; try lia. discriminate. }
  destruct (build_pdrs_wf l0 access ps g Hw) as (B1 & B2 & B3).
  destruct (build_pdrs l0 access g ps) as [g1 [cause|ds]] eqn:Eb; cbn [fst snd] in *.
  - cbn [drawn store]. repeat split; try apply B1; auto; try lia. congruence.
  - destruct dok; cbn [drawn store]; repeat split; try apply B1; auto; try lia. discriminate.
Qed.

(* ---- histories over several associations sharing the generator ---- *)
Definition conn_ok (c : conn) : Prop := NoDup (store c) /\ ~ In 0 (store c).
Definition WInv (w : world) : Prop := wf (w_gen w) /\ Forall conn_ok (w_conns w).

Lemma Forall_set_nth {A} (P : A -> Prop) n x l : Forall P l -> P x -> Forall P (set_nth n x l).
Proof.
  intros Hl Hx. revert n. induction Hl as [|y l Hy Hl IH]; intros n; cbn [set_nth].
  - destruct n; constructor.
  - destruct n; constructor; auto.
Qed.

Lemma fold_free_wf ids : forall g, wf g -> wf (fold_left (fun g id => free_id id g) ids g).
Proof. induction ids as [|i r IH]; intros g H; cbn [fold_left]; [exact H|]. apply IH. now apply wf_free. Qed.

Lemma ev_step_inv retries access draws w e : WInv w -> WInv (fst (ev_step retries access draws w e)).
Proof.
  intros (Hg & Hc). destruct e as [k aok dok ps|k seid freed]; cbn [ev_step].
  - destruct (nth_error (w_conns w) k) as [c|] eqn:En; [|now split].
    assert (Hck : conn_ok c) by (rewrite Forall_forall in Hc; apply Hc; eapply nth_error_In; eassumption).
    pose proof (establish_any retries access (draws k) aok dok ps c (w_gen w) Hg) as A.
    destruct (establish retries access (draws k) aok dok ps c (w_gen w)) as [[r c'] g'] eqn:Ee.
    cbn [fst]. destruct A as (A1 & _ & _ & A4). split; cbn [w_gen w_conns]; [exact A1|].
    apply Forall_set_nth; [exact Hc|]. destruct r as [l cr b|cause b].
    + destruct (establish_accepted _ _ _ _ _ _ _ _ _ _ _ _ _ Hg Ee) as ((S1 & S2 & S3 & _) & _).
      destruct Hck as (Hd & H0). unfold conn_ok. rewrite S3. split; [now constructor|].
      intros [E|E]; [congruence|contradiction].
    + destruct A4 as (A4 & _). unfold conn_ok. now rewrite A4.
  - destruct (nth_error (w_conns w) k) as [c|] eqn:En; [|now split].
    assert (Hck : conn_ok c) by (rewrite Forall_forall in Hc; apply Hc; eapply nth_error_In; eassumption).
    cbn [fst]. split; cbn [w_gen w_conns]; [now apply fold_free_wf|].
    apply Forall_set_nth; [exact Hc|]. destruct Hck as (Hd & H0). split; cbn [store].
    + now apply NoDup_del.
    + rewrite In_del. tauto.
Qed.

Lemma ev_run_cons retries access draws w e r : ev_run retries access draws w (e :: r) =
  (fst (ev_run retries access draws (fst (ev_step retries access draws w e)) r),
   snd (ev_step retries access draws w e) :: snd (ev_run retries access draws (fst (ev_step retries access draws w e)) r)).
Proof.
  cbn [ev_run]. destruct (ev_step retries access draws w e) as [w1 x]. cbn [fst snd].
  now destruct (ev_run retries access draws w1 r).
Qed.

Lemma ev_run_inv retries access draws es : forall w, WInv w -> WInv (fst (ev_run retries access draws w es)).
Proof.
  induction es as [|e r IH]; intros w H; [exact H|]. rewrite ev_run_cons. cbn [fst].
  apply IH. now apply ev_step_inv.
Qed.

Lemma ev_run_app retries access draws es1 : forall w es2,
  fst (ev_run retries access draws w (es1 ++ es2)) =
  fst (ev_run retries access draws (fst (ev_run retries access draws w es1)) es2).
Proof.
  induction es1 as [|e r IH]; intros w es2; [reflexivity|].
  rewrite <- app_comm_cons, !ev_run_cons. cbn [fst]. apply IH.
Qed.

(* ------------------------------------------------------------------ statements used by Props/C07.v *)
Lemma c07_teid_fresh g id g' : offset g < MAXV -> allocate g = AOk id g' ->
  1 <= id <= MAXV /\ ~ In (id - 1) (used g) /\ used g' = (id - 1) :: used g.
Proof. intros H E. destruct (allocate_fresh g id g' H E) as (A & B & C & _). now repeat split. Qed.

Lemma c07_teid_unique g0 ops : wf g0 ->
  NoDup (live_ids (fst (run g0 ops))) /\
  (forall id, In id (live_ids (fst (run g0 ops))) -> 1 <= id <= MAXV) /\
  wf (fst (run g0 ops)).
Proof.
  intros H. pose proof (wf_run ops g0 H) as Hr. split; [now apply live_ids_nodup|].
  split; [|exact Hr]. intros id. now apply live_ids_range.
Qed.

Lemma c07_teid_refuse_iff_card g : wf g ->
  ((exists g', allocate g = AErr g') <-> N.of_nat (length (used g)) = MAXV).
Proof. intros H. rewrite (allocate_refuse_iff g (proj1 H)). now apply full_iff_card. Qed.

Lemma c07_seid_fresh retries (draws : stream) i st l j :
  new_seid retries draws i st = (Some l, j) -> l <> 0 /\ ~ In l st.
Proof. intros H. destruct (new_seid_fresh _ _ _ _ _ _ H) as (A & B & _). now split. Qed.

Lemma c07_seid_first_good retries (draws : stream) i st l j :
  new_seid retries draws i st = (Some l, j) ->
  (i < j <= i + retries)%nat /\ l = draws (j - 1)%nat /\
  forall k, (i <= k < j - 1)%nat -> bad_draw st (draws k) = true.
Proof.
  intros H. destruct (new_seid_fresh _ _ _ _ _ _ H) as (_ & _ & A & B & C).
  pose proof (new_seid_bound retries draws i st) as Sb. rewrite H in Sb. cbn [snd] in Sb.
  repeat split; try assumption; lia.
Qed.

Lemma c07_seid_refuse_iff retries (draws : stream) i st :
  fst (new_seid retries draws i st) = None <->
  forall k, (i <= k < i + retries)%nat -> bad_draw st (draws k) = true.
Proof.
  split.
  - intros H. destruct (new_seid retries draws i st) as [[l|] j] eqn:E; [discriminate|].
    now apply new_seid_none in E.
  - intros H. now rewrite (new_seid_refuse _ _ _ _ H).
Qed.

Lemma c07_seid_draws_100 (draws : stream) i st :
  (i <= snd (new_seid MAX_RETRIES draws i st) <= i + 100)%nat.
Proof. apply (new_seid_bound MAX_RETRIES draws i st). Qed.

Lemma c07_programmed retries access draws aok dok ps c g l created batch c' g' : wf g ->
  establish retries access draws aok dok ps c g = (EAccepted l created batch, c', g') ->
  Forall (fun e => d_fseid e = l) batch /\
  map d_id batch = map cp_id ps /\
  (forall pid t ip, In (pid, t, ip) created <->
     exists e, In e batch /\ d_choose e = true /\ d_id e = pid /\ d_teid e = t /\ d_ip e = ip) /\
  (forall pid t ip, In (pid, t, ip) created -> ip = access /\ 1 <= t <= MAXV).
Proof.
  intros Hw E. destruct (establish_accepted _ _ _ _ _ _ _ _ _ _ _ _ _ Hw E)
    as (_ & (P1 & P2 & -> & P4) & (_ & T2) & _).
  split; [exact P1|]. split; [exact P2|]. split; [intros; apply created_of_spec|].
  intros pid t ip Hin. split.
  - apply created_of_spec in Hin. destruct Hin as (e & He & Hc & _ & _ & <-).
    rewrite Forall_forall in P4. now apply P4.
  - cbn zeta in T2. rewrite Forall_forall in T2.
    assert (In t (map (fun x : N * N * N => snd (fst x)) (created_of batch))).
    { apply in_map_iff. exists (pid, t, ip). now split. }
    now apply T2 in H.
Qed.

Lemma c07_est_ids retries access draws aok dok ps c g l created batch c' g' : wf g ->
  establish retries access draws aok dok ps c g = (EAccepted l created batch, c', g') ->
  (l <> 0 /\ ~ In l (store c) /\ store c' = l :: store c) /\
  NoDup (map (fun x => snd (fst x)) created) /\
  Forall (fun t => 1 <= t <= MAXV /\ ~ In t (live_ids g) /\ In t (live_ids g'))
         (map (fun x => snd (fst x)) created).
Proof.
  intros Hw E. destruct (establish_accepted _ _ _ _ _ _ _ _ _ _ _ _ _ Hw E)
    as ((S1 & S2 & S3 & _) & _ & (T1 & T2) & _).
  repeat split; assumption.
Qed.
