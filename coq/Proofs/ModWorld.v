(* C03: the image invariant over histories of several associations, Session Modification included under the
   guard [mod_ok] (Proofs/ModImage.v has the per-step lemmas). *)
From Coq Require Import NArith Arith List Bool Lia ZifyN ZifyNat ZifyBool Permutation.
From UPF Require Import Model.IPPool Model.Fteid Model.PortRange Model.Agent Model.World
     Proofs.PortRangeProofs Proofs.IPPoolProofs Proofs.AgentProofs Proofs.WorldProofs Proofs.ModImage.
Import ListNotations.
Open Scope N_scope.

Lemma in_replace_session s' ss x s0 : In s0 ss -> s_lseid s' = s_lseid s0 ->
  (In x (replace_session s' ss) <-> x = s' \/ (In x ss /\ s_lseid x <> s_lseid s0)).
Proof.
  intros Hin Hl. unfold replace_session. rewrite in_map_iff. split.
  - intros (y & Hy & Hyin). destruct (s_lseid y =? s_lseid s') eqn:E.
    + left. symmetry. exact Hy.
    + right. subst x. split; [exact Hyin|]. apply N.eqb_neq in E. congruence.
  - intros [->|[Hx Hne]].
    + exists s0. split; [|exact Hin]. rewrite <- Hl, N.eqb_refl. reflexivity.
    + exists x. split; [|exact Hx]. destruct (s_lseid x =? s_lseid s') eqn:E; [|reflexivity].
      apply N.eqb_eq in E. exfalso. apply Hne. congruence.
Qed.

Section ModWorld.
  Variable burst : N -> N -> N -> N.

  Lemma image_focus ss oth s0 :
    (forall a b, In a ss -> In b ss -> s_lseid a = s_lseid b -> a = b) -> In s0 ss ->
    forall x, In x (image burst (ss ++ oth)) <-> In x (session_cmds burst s0 ++ image burst (del_session (s_lseid s0) ss ++ oth)).
  Proof.
    intros Huniq Hin x. rewrite in_app_iff, !in_image. split.
    - intros (y & Hy & Hxy). apply in_app_or in Hy. destruct Hy as [Hy|Hy].
      + destruct (N.eq_dec (s_lseid y) (s_lseid s0)) as [Eq|Eq].
        * left. rewrite <- (Huniq y s0 Hy Hin Eq). exact Hxy.
        * right. exists y. split; [apply in_or_app; left; apply in_del_session; split; assumption|exact Hxy].
      + right. exists y. split; [apply in_or_app; right; exact Hy|exact Hxy].
    - intros [Hs|(y & Hy & Hxy)].
      + exists s0. split; [apply in_or_app; left; exact Hin|exact Hs].
      + exists y. split; [|exact Hxy]. apply in_app_or in Hy. destruct Hy as [Hy|Hy]; apply in_or_app.
        * left. apply in_del_session in Hy. tauto.
        * right. exact Hy.
  Qed.
  Lemma image_focus_replaced ss oth s0 s' : In s0 ss -> s_lseid s' = s_lseid s0 ->
    forall x, In x (image burst (replace_session s' ss ++ oth)) <-> In x (session_cmds burst s' ++ image burst (del_session (s_lseid s0) ss ++ oth)).
  Proof.
    intros Hin Hl x. rewrite in_app_iff, !in_image. split.
    - intros (y & Hy & Hxy). apply in_app_or in Hy. destruct Hy as [Hy|Hy].
      + apply (in_replace_session s' ss y s0 Hin Hl) in Hy. destruct Hy as [->|[Hy Hne]]; [left; exact Hxy|].
        right. exists y. split; [apply in_or_app; left; apply in_del_session; split; assumption|exact Hxy].
      + right. exists y. split; [apply in_or_app; right; exact Hy|exact Hxy].
    - intros [Hs|(y & Hy & Hxy)].
      + exists s'. split; [apply in_or_app; left; apply (in_replace_session s' ss s' s0 Hin Hl); left; reflexivity|exact Hs].
      + exists y. split; [|exact Hxy]. apply in_app_or in Hy. destruct Hy as [Hy|Hy]; apply in_or_app.
        * left. apply in_del_session in Hy. apply (in_replace_session s' ss y s0 Hin Hl). right. exact Hy.
        * right. exact Hy.
  Qed.

  (* the live sessions other than [s0] of association [ci] *)
  Definition rest_sessions (w : world) (ci : N) (s0 : session) : list session :=
    del_session (s_lseid s0) (c_sessions (get_conn ci (w_conns w))) ++ others ci (w_conns w).

  (* a step that replaces one stored session of association ci and changes the tables accordingly *)
  Lemma world_modify w ci seid s0 s' a' c' :
    envelope burst w -> envelope burst (World a' (put_conn ci c' (w_conns w))) -> image_ok burst w ->
    find_session seid (c_sessions (get_conn ci (w_conns w))) = Some s0 ->
    c_sessions c' = replace_session s' (c_sessions (get_conn ci (w_conns w))) -> s_lseid s' = s_lseid s0 ->
    (let rest := image burst (rest_sessions w ci s0) in
     is_image (a_tables (w_agent w)) (session_cmds burst s0 ++ rest) ->
     NoDup (map tg (session_cmds burst s0)) -> disjoint_from (session_cmds burst s0) rest ->
     NoDup (map tg (session_cmds burst s')) -> disjoint_from (session_cmds burst s') rest ->
     is_image (a_tables a') (session_cmds burst s' ++ rest)) ->
    image_ok burst (World a' (put_conn ci c' (w_conns w))).
  Proof.
    intros E E' Hi Hf Hc Hl Hstep. destruct E as [Ek El Ew Ea]. destruct E' as [Ek' El' Ew' Ea'].
    unfold image_ok, rest_sessions in *. cbv zeta in Hstep. cbn [w_agent w_conns] in *.
    set (l := w_conns w) in *. set (c := get_conn ci l) in *.
    pose proof (find_session_in _ _ _ Hf) as Hin.
    assert (forall x, In x (all_sessions w) <-> In x (c_sessions c ++ others ci l)) as Hsplit.
    { intros x. unfold all_sessions. rewrite in_app_iff. apply in_sessions_split. exact Ek. }
    assert (forall x, In x (all_sessions (World a' (put_conn ci c' l))) <-> In x (replace_session s' (c_sessions c) ++ others ci l)) as Hsplit'.
    { intros x. unfold all_sessions. cbn [w_conns]. rewrite in_app_iff, (in_sessions_split ci) by exact Ek'. rewrite get_put, others_put, Hc. tauto. }
    assert (forall a b, In a (c_sessions c) -> In b (c_sessions c) -> s_lseid a = s_lseid b -> a = b) as Huniq.
    { intros a b Ha Hb. apply (nodup_lseid_unique (all_sessions w)); [exact El| |]; apply Hsplit; apply in_or_app; left; assumption. }
    set (rs := del_session (s_lseid s0) (c_sessions c) ++ others ci l).
    assert (In s0 (all_sessions w)) as A0 by (apply Hsplit; apply in_or_app; left; exact Hin).
    assert (In s' (all_sessions (World a' (put_conn ci c' l)))) as A0'.
    { apply Hsplit'. apply in_or_app. left. apply (in_replace_session s' _ s' s0 Hin Hl). left. reflexivity. }
    (* the other sessions: members of both states, with a different local SEID *)
    assert (forall s2, In s2 rs -> In s2 (all_sessions w) /\ In s2 (all_sessions (World a' (put_conn ci c' l))) /\ s_lseid s2 <> s_lseid s0) as Hrs.
    { intros s2 H2. unfold rs in H2. apply in_app_or in H2. destruct H2 as [H2|H2].
      - apply in_del_session in H2. destruct H2 as [H2 Hne]. split; [apply Hsplit; apply in_or_app; left; exact H2|]. split; [|exact Hne].
        apply Hsplit'. apply in_or_app. left. apply (in_replace_session s' _ s2 s0 Hin Hl). right. split; assumption.
      - split; [apply Hsplit; apply in_or_app; right; exact H2|]. split; [apply Hsplit'; apply in_or_app; right; exact H2|].
        intros Heq. assert (s2 = s0) as -> by (apply (nodup_lseid_unique (all_sessions w)); auto; apply Hsplit; apply in_or_app; right; exact H2).
        exact (own_not_other ci l s0 Ek El Hin H2). }
    eapply is_image_ext; [apply Hstep|].
    - eapply is_image_ext; [exact Hi|]. intros x. unfold rs. rewrite <- (image_focus (c_sessions c) (others ci l) s0 Huniq Hin x).
      rewrite !in_image. split; intros (y & Hy & Hxy); exists y; (split; [apply Hsplit; exact Hy|exact Hxy]).
    - apply distinct_keys_nodup. apply Ew. exact A0.
    - intros x y Hx Hy. apply in_image in Hy. destruct Hy as (s2 & H2 & Hy). destruct (Hrs s2 H2) as (B1 & _ & B3).
      apply (Ea s0 s2 A0 B1); auto.
    - apply distinct_keys_nodup. apply Ew'. exact A0'.
    - intros x y Hx Hy. apply in_image in Hy. destruct Hy as (s2 & H2 & Hy). destruct (Hrs s2 H2) as (_ & B2 & B3).
      apply (Ea' s' s2 A0' B2); auto. rewrite Hl. auto.
    - intros x. unfold rs. rewrite <- (image_focus_replaced (c_sessions c) (others ci l) s0 s' Hin Hl x).
      rewrite !in_image. split; intros (y & Hy & Hxy); exists y; (split; [apply Hsplit'; exact Hy|exact Hxy]).
  Qed.

  Fixpoint nodup_tgb (l : list (module * list N)) : bool :=
    match l with [] => true | x :: r => negb (existsb (tg_eqb x) r) && nodup_tgb r end.
  Lemma nodup_tgb_spec l : nodup_tgb l = true -> NoDup l.
  Proof.
    induction l as [|x l IH]; intros H; [constructor|]. cbn [nodup_tgb] in H. apply andb_true_iff in H. destruct H as [H1 H2].
    constructor; [|apply IH; exact H2]. intros Hin.
    assert (existsb (tg_eqb x) l = true) as A by (apply existsb_exists; exists x; split; [exact Hin|apply tg_eqb_eq; reflexivity]).
    rewrite A in H1. discriminate.
  Qed.

  (* ---- the guard on (state before, message) *)
  Definition mod_ok (w : world) (ci : N) (m : msg) : bool :=
    let a := w_agent w in let c := get_conn ci (w_conns w) in
    match m with
    | MMod seid cpf cp cf cq up uf uq rp rf rq =>
      match find_session seid (c_sessions c) with
      | None => true                        (* unknown session: rejected, nothing changes *)
      | Some s0 =>
        let '(wk, k) := mod_loops a c s0 seid cp cf cq up uf uq in
        match k with
        | O =>
          (* a message that both creates and removes: between the add batch and the delete batch the session holds the
             old and the new rules; their keys must be pairwise distinct and differ from the other sessions' keys *)
          let mid := if (nil_b cp && nil_b cf && nil_b cq) || (nil_b rp && nil_b rf && nil_b rq) then true
                     else nodup_tgb (map tg (add_cmds burst (view (w_p wk)) (view (w_f wk)) (view (w_q wk)) ++
                                             image burst (rest_sessions w ci s0))) in
          late_ok a c seid s0 wk cp cf cq up uf uq rp rf rq mid
        | S _ => early_ok s0 k wk cp cf cq
        end
      end
    | _ => true
    end.
  (* the events of the extended theorem: those of [ev_ok], plus Session Modifications inside the guard *)
  Definition ev_ok_mod (w : world) (e : wevent) : bool :=
    match e with
    | WMsg ci _ m _ => if is_mod m then mod_ok w ci m else true
    | _ => ev_ok e
    end.

  Lemma mod_no_shutdown a c seid cpf cp cf cq up uf uq rp rf rq a' c' o :
    handle_mod burst a c seid cpf cp cf cq up uf uq rp rf rq = Done (a', c', o) -> o_shutdown o = false.
  Proof.
    intros H. unfold handle_mod in H. cbv zeta in H.
    destruct (find_session seid (c_sessions c)) as [s0|]; [|inversion H; reflexivity].
    split_all H; inversion H; reflexivity.
  Qed.

  Lemma wstep_image_mod w e w' o :
    envelope burst w -> alloc_backed w -> envelope burst w' -> image_ok burst w -> ev_ok_mod w e = true ->
    wstep burst w e = Done (w', o) -> image_ok burst w'.
  Proof.
    intros E Hab E' Hi Hok H.
    destruct e as [ci connected m draws|ci|a0];
      [|exact (wstep_image burst w _ w' o E Hab E' Hi Hok H)|exact (wstep_image burst w _ w' o E Hab E' Hi Hok H)].
    cbn [ev_ok_mod] in Hok. destruct (is_mod m) eqn:Em.
    2:{ apply (wstep_image burst w (WMsg ci connected m draws) w' o E Hab E' Hi); [cbn [ev_ok]; rewrite Em; reflexivity|exact H]. }
    destruct m; try discriminate Em. cbn [wstep handle] in H. cbn [mod_ok] in Hok.
    destruct (handle_mod burst (w_agent w) (get_conn ci (w_conns w)) seid cpfseid cp cf cq up uf uq rp rf rq) as [[[a' c'] res]|] eqn:Hh; [|discriminate].
    rewrite (mod_no_shutdown _ _ _ _ _ _ _ _ _ _ _ _ _ _ _ _ Hh) in H. inversion H; subst w' o; clear H.
    destruct (find_session seid (c_sessions (get_conn ci (w_conns w)))) as [s0|] eqn:Hf.
    2:{ rewrite (mod_unknown burst _ _ _ cpfseid cp cf cq up uf uq rp rf rq Hf) in Hh. inversion Hh; subst. apply world_unchanged; auto. }
    destruct (mod_loops (w_agent w) (get_conn ci (w_conns w)) s0 seid cp cf cq up uf uq) as [wk k] eqn:HL.
    destruct k as [|k].
    - destruct (mod_late_image burst _ _ _ _ _ _ _ _ _ _ _ _ _ _ _ _ _ _ _ Hf HL Hok Hh) as (s' & Hc & Hl & _ & _ & Hstep).
      eapply world_modify; eauto. cbv zeta. intros Hi0 Hn0 Hd0 Hn' Hd'. apply Hstep; auto.
      intros EX Hmid. rewrite EX in Hmid.
      apply nodup_tgb_spec in Hmid. rewrite map_app in Hmid. destruct (nodup_app_split _ _ Hmid) as (A & _ & C).
        split; [exact A|]. apply disjoint_from_tg. exact C.
    - destruct (mod_early_image burst _ _ _ _ _ _ _ _ _ _ _ _ _ _ _ _ _ _ _ Hf HL Hok Hh) as (s' & Hc & Hl & Ht & _ & _ & Hsc).
      eapply world_modify; eauto.
      cbv zeta. intros Hi0 _ _ _ _. rewrite Ht, Hsc. exact Hi0.
  Qed.

  (* ---- histories: every event is checked against the state it meets *)
  Fixpoint guarded_hist (w : world) (es : list wevent) : bool :=
    match es with
    | [] => true
    | e :: r => ev_ok_mod w e && match wstep burst w e with Done (w', _) => guarded_hist w' r | Crash _ => true end
    end.

  Theorem image_invariant_mod : forall es w w',
    (forall x, In x (states burst w es) -> envelope burst x /\ alloc_backed x) ->
    guarded_hist w es = true -> image_ok burst w -> wrun burst w es = Done w' -> image_ok burst w'.
  Proof.
    induction es as [|e es IH]; intros w w' Henv Hok Hi Hr; cbn [wrun states guarded_hist] in *.
    - inversion Hr; subst. exact Hi.
    - apply andb_true_iff in Hok. destruct Hok as [Hok1 Hok2].
      destruct (wstep burst w e) as [[w1 o]|] eqn:Hs; [|discriminate].
      assert (In w1 (states burst w1 es)) as Hin1 by (destruct es; cbn; auto).
      destruct (Henv w (or_introl eq_refl)) as [E Hab].
      destruct (Henv w1 (or_intror Hin1)) as [E1 _].
      apply (IH w1 w'); [intros x Hx; apply Henv; right; exact Hx|exact Hok2| |exact Hr].
      eapply (wstep_image_mod w e w1 o); eauto.
  Qed.

  (* histories without Session Modification are inside the guard: the new theorem subsumes the old one *)
  Lemma ev_ok_hist_ok : forall es w, forallb ev_ok es = true -> guarded_hist w es = true.
  Proof.
    induction es as [|e es IH]; intros w H; cbn [forallb guarded_hist] in *; [reflexivity|].
    apply andb_true_iff in H. destruct H as [H1 H2]. apply andb_true_iff. split.
    - destruct e as [ci cn m dr| |]; cbn [ev_ok_mod]; try exact H1. cbn [ev_ok] in H1. destruct (is_mod m); [discriminate|reflexivity].
    - destruct (wstep burst w e) as [[w1 o]|]; [apply IH; exact H2|reflexivity].
  Qed.

  (* ---- deciding the hypotheses on concrete states (used by the non-vacuity examples) *)
  Lemma image_nodup_within : forall ss s, NoDup (map tg (image burst ss)) -> In s ss -> NoDup (map tg (session_cmds burst s)).
  Proof.
    induction ss as [|x ss IH]; intros s Hn Hs; [destruct Hs|]. cbn [image flat_map] in Hn. rewrite map_app in Hn.
    destruct (nodup_app_split _ _ Hn) as (A & B & _). destruct Hs as [<-|Hs]; [exact A|apply IH; assumption].
  Qed.
  Lemma image_nodup_across : forall ss s1 s2, NoDup (map tg (image burst ss)) -> In s1 ss -> In s2 ss -> s_lseid s1 <> s_lseid s2 ->
    disjoint_from (session_cmds burst s1) (session_cmds burst s2).
  Proof.
    induction ss as [|x ss IH]; intros s1 s2 Hn H1 H2 Hne; [destruct H1|]. cbn [image flat_map] in Hn. rewrite map_app in Hn.
    destruct (nodup_app_split _ _ Hn) as (A & B & C). fold (image burst ss) in *.
    assert (forall s, In s ss -> disjoint_from (session_cmds burst x) (session_cmds burst s)) as Hx.
    { intros s Hs a b Ha Hb. apply hits_false_tg. intros Eq. apply (C (tg a)); [apply in_map; exact Ha|].
      rewrite Eq. apply in_map. apply in_image. exists s. split; assumption. }
    destruct H1 as [<-|H1], H2 as [<-|H2].
    - exfalso. apply Hne. reflexivity.
    - apply Hx. exact H2.
    - intros a b Ha Hb. rewrite hits_sym. apply (Hx s1 H1); assumption.
    - apply IH; assumption.
  Qed.

  Definition envelope_b (w : world) : bool :=
    nodupb (map fst (w_conns w)) && nodupb (map s_lseid (all_sessions w)) && nodup_tgb (map tg (image burst (all_sessions w))).
  Lemma envelope_b_spec w : envelope_b w = true -> envelope burst w.
  Proof.
    unfold envelope_b. intros H. apply andb_true_iff in H. destruct H as [H H3]. apply andb_true_iff in H. destruct H as [H1 H2].
    apply nodupb_spec in H1, H2. apply nodup_tgb_spec in H3. constructor.
    - exact H1.
    - exact H2.
    - intros s Hs. apply nodup_distinct_keys. eapply image_nodup_within; eauto.
    - intros s1 s2 A B Hne. eapply image_nodup_across; eauto.
  Qed.
  Definition alloc_backed_b (w : world) : bool :=
    forallb (fun s => negb (existsb (fun p => p_alloc p && (p_iface p =? CORE)) (view (s_pdrs s))) || pool_holds (a_pool (w_agent w)) (s_lseid s))
            (all_sessions w).
  Lemma alloc_backed_b_spec w : alloc_backed_b w = true -> alloc_backed w.
  Proof.
    unfold alloc_backed_b, alloc_backed. intros H s Hs He. pose proof (proj1 (forallb_forall _ _) H s Hs) as A. cbn beta in A.
    rewrite He in A. exact A.
  Qed.
  Lemma states_ok_b w es :
    forallb (fun x => envelope_b x && alloc_backed_b x) (states burst w es) = true ->
    forall x, In x (states burst w es) -> envelope burst x /\ alloc_backed x.
  Proof.
    intros H x Hx. pose proof (proj1 (forallb_forall _ _) H x Hx) as A. cbn beta in A. apply andb_true_iff in A. destruct A as [A B].
    split; [apply envelope_b_spec; exact A|apply alloc_backed_b_spec; exact B].
  Qed.

  (* what a history answers and emits, event by event (for the examples) *)
  Fixpoint wtrace (w : world) (es : list wevent) : list (option reply * list marker) :=
    match es with
    | [] => []
    | e :: r => match wstep burst w e with
                | Done (w', o) => (o_reply o, o_markers o) :: wtrace w' r
                | Crash _ => []
                end
    end.
End ModWorld.
