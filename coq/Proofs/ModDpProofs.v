(* Lemmas about Model/ModDp.v: the datapath-aware modification handler. *)
From Coq Require Import NArith List Bool.
From UPF Require Import Model.IPPool Model.Fteid Model.PortRange Model.Agent Model.ModDp.
Import ListNotations.
Open Scope N_scope.

Section ModDpProofs.
  Variable burst : N -> N -> N -> N.

  (* with an accepting datapath the handler is the one of Model/Agent.v *)
  Lemma handle_mod_dp_ok a c seid cpf cp cf cq up uf uq rp rf rq :
    handle_mod_dp burst true a c seid cpf cp cf cq up uf uq rp rf rq = handle_mod burst a c seid cpf cp cf cq up uf uq rp rf rq.
  Proof. reflexivity. Qed.

  Ltac step H :=
    match type of H with
    | match ?x with _ => _ end = _ => let E := fresh "E" in destruct x eqn:E
    | (let '(_, _) := ?x in _) = _ => let E := fresh "E" in destruct x eqn:E
    | (if ?x then _ else _) = _ => let E := fresh "E" in destruct x eqn:E
    end.

  (* a modification whose datapath update failed is answered with a rejection and emits no end marker *)
  Lemma mod_dp_failed a c seid cpf cp cf cq up uf uq rp rf rq a' c' o :
    handle_mod_dp burst false a c seid cpf cp cf cq up uf uq rp rf rq = Done (a', c', o) ->
    o_markers o = [] /\ exists r, o_reply o = Some (RMod r CAUSE_REJ).
  Proof.
    intros H. unfold handle_mod_dp in H. cbv zeta in H. cbn [negb] in H.
    repeat (step H; try discriminate H);
      inversion H; subst; cbn [o_markers o_reply just]; (split; [reflexivity | eexists; reflexivity]).
  Qed.

  (* end markers are emitted only when the datapath update succeeded *)
  Lemma mod_dp_markers_need_success dp_ok a c seid cpf cp cf cq up uf uq rp rf rq a' c' o :
    handle_mod_dp burst dp_ok a c seid cpf cp cf cq up uf uq rp rf rq = Done (a', c', o) ->
    o_markers o <> [] -> dp_ok = true.
  Proof.
    intros H Hm. destruct dp_ok; [reflexivity|]. apply mod_dp_failed in H. destruct H as [H _]. contradiction.
  Qed.
End ModDpProofs.
