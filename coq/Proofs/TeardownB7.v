(* C10 - bounded termination of Stop with two live associations *)
From Coq Require Import NArith String List Bool Arith.
From UPF Require Import Base.LTS Model.Teardown Proofs.TeardownBounded.
Import ListNotations.
Lemma inst8_terminates : level 49 (init cfg4 [EStop]) = [].
Proof. vm_compute. reflexivity. Qed.
