(* C14 / C05 corollaries of the guarded Session Modification lemmas (Proofs/ModImage.v, Proofs/ModWorld.v):
   - the end markers of a guarded modification are computed from the FAR list as STORED before the message, one per
     flagged Update FAR of an existing FAR, and each carries the tunnel the datapath (farLookup) held for that FAR;
   - an accepted modification frees exactly the TEIDs of the PDRs it removed. *)
From Coq Require Import NArith Arith List Bool Lia ZifyN ZifyNat ZifyBool Permutation.
From UPF Require Import Model.IPPool Model.Fteid Model.PortRange Model.Agent Model.World
     Proofs.PortRangeProofs Proofs.IPPoolProofs Proofs.AgentProofs Proofs.WorldProofs Proofs.ModImage Proofs.ModWorld.
Import ListNotations.
Open Scope N_scope.

(* every flagged Update FAR of a FAR that exists in [cur] yields the marker of that FAR as it is in [cur] *)
Definition marker_of (f : far) : marker := Marker (a_tsrc f) (a_tdst f) (a_teid f).
Definition static_markers (ups : list far) (cur : list far) : list marker :=
  flat_map (fun u => match find_idx (fun x => a_id x =? a_id u) cur with
                     | Some k => if a_em u then [marker_of (nth k cur far0)] else []
                     | None => []
                     end) ups.

Lemma find_idx_ids {A} (idf : A -> N) i : forall l, find_idx (fun x => idf x =? i) l = find_idx (fun y => y =? i) (map idf l).
Proof. induction l as [|x l IH]; [reflexivity|]. cbn [find_idx map]. rewrite IH. reflexivity. Qed.
Lemma nth_set_nth_other {A} (d : A) : forall k j x l, j <> k -> nth j (set_nth k x l) d = nth j l d.
Proof.
  induction k as [|k IH]; intros j x l H; destruct l as [|y l]; cbn [set_nth]; try reflexivity.
  - destruct j; [contradiction|reflexivity].
  - destruct j; [reflexivity|]. cbn [nth]. apply IH. lia.
Qed.

Lemma spec_markers_static_gen : forall ups cur cur0 prev,
  map a_id cur = map a_id cur0 ->
  (forall k, nth k cur far0 = nth k cur0 far0 \/ In (a_id (nth k cur0 far0)) (map a_id prev)) ->
  NoDup (map a_id (prev ++ snd (upd_list a_id ups cur))) ->
  spec_markers ups cur = static_markers ups cur0.
Proof.
  induction ups as [|u r IH]; intros cur cur0 prev Hids Hnth Hn; [reflexivity|].
  cbn [spec_markers static_markers flat_map upd_list] in *.
  assert (find_idx (fun x => a_id x =? a_id u) cur0 = find_idx (fun x => a_id x =? a_id u) cur) as Ef
    by (rewrite !(find_idx_ids a_id), Hids; reflexivity).
  rewrite Ef. destruct (find_idx (fun x => a_id x =? a_id u) cur) as [k|] eqn:Ek.
  - destruct (upd_list a_id r (set_nth k u cur)) as [c' h] eqn:Eu. cbn [snd] in Hn.
    destruct (find_idx_some _ far0 _ _ Ek) as [Hk Hid]. destruct (find_idx_some _ far0 _ _ Ef) as [Hk0 Hid0].
    apply N.eqb_eq in Hid, Hid0.
    assert (nth k cur far0 = nth k cur0 far0) as Eold.
    { destruct (Hnth k) as [E|E]; [exact E|]. exfalso. rewrite Hid0 in E.
      rewrite map_app in Hn. cbn [map] in Hn. apply NoDup_remove_2 in Hn. apply Hn. apply in_or_app. left. exact E. }
    rewrite Eold. fold (static_markers r cur0). unfold marker_of. f_equal.
    apply (IH (set_nth k u cur) cur0 (prev ++ [u])).
    + rewrite <- Hids. apply (map_set_nth a_id far0); [exact Hk|symmetry; exact Hid].
    + intros j. destruct (Nat.eq_dec j k) as [->|Hne].
      * right. rewrite Hid0, map_app. apply in_or_app. right. left. reflexivity.
      * rewrite (nth_set_nth_other far0) by exact Hne. destruct (Hnth j) as [E|E]; [left; exact E|right].
        rewrite map_app. apply in_or_app. left. exact E.
    + rewrite Eu. cbn [snd]. rewrite <- app_assoc. exact Hn.
  - fold (static_markers r cur0). apply (IH cur cur0 prev); assumption.
Qed.

Lemma spec_markers_static ups cur :
  NoDup (map a_id (snd (upd_list a_id ups cur))) -> spec_markers ups cur = static_markers ups cur.
Proof. intros H. apply (spec_markers_static_gen ups cur cur []); [reflexivity|intros k; left; reflexivity|exact H]. Qed.

Lemma static_markers_in ups cur m : In m (static_markers ups cur) ->
  exists u f, In u ups /\ a_em u = true /\ In f cur /\ a_id f = a_id u /\ m = marker_of f.
Proof.
  unfold static_markers. intros H. apply in_flat_map in H. destruct H as (u & Hu & H).
  destruct (find_idx (fun x => a_id x =? a_id u) cur) as [k|] eqn:Ek; [|destruct H].
  destruct (a_em u) eqn:Em; [|destruct H]. destruct H as [<-|[]].
  destruct (find_idx_some _ far0 _ _ Ek) as [Hk Hid]. apply N.eqb_eq in Hid.
  exists u, (nth k cur far0). repeat split; auto. apply nth_In. exact Hk.
Qed.

Section ModMarkers.
  Variable burst : N -> N -> N -> N.

  (* the stored FARs are installed: what farLookup holds under the key of a stored FAR *)
  Lemma image_far_entry w s f : image_ok burst w -> In s (all_sessions w) -> In f (view (s_fars s)) ->
    t_get [a_id f; a_fseid f] (t_far (a_tables (w_agent w))) =
    Some [a_ttype f; far_action f; a_ttype f; a_tsrc f; a_tdst f; a_teid f; a_tport f].
  Proof.
    intros [I1 _] Hs Hf.
    apply (I1 (Cmd MFar true [a_id f; a_fseid f] [a_ttype f; far_action f; a_ttype f; a_tsrc f; a_tdst f; a_teid f; a_tport f])).
    apply in_image. exists s. split; [exact Hs|]. unfold session_cmds. apply in_add_cmds. right. left. exists f. split; [exact Hf|left; reflexivity].
  Qed.

  (* per message: an accepted guarded modification emits - when end markers are enabled - exactly the static markers
     of its Update FARs over the FAR list stored before the message (plus the FARs the message creates) *)
  Lemma mod_markers_static a c seid cpf cp cf cq up uf uq rp rf rq mid s0 w6 a' c' o :
    find_session seid (c_sessions c) = Some s0 ->
    mod_loops a c s0 seid cp cf cq up uf uq = (w6, 0%nat) ->
    late_ok a c seid s0 w6 cp cf cq up uf uq rp rf rq mid = true ->
    handle_mod burst a c seid cpf cp cf cq up uf uq rp rf rq = Done (a', c', o) ->
    exists fs ups,
      parse_all (fun i => parse_far i seid (g_access (a_cfg a)) (g_core (a_cfg a)) false) cf = Some fs /\
      parse_all (fun i => parse_far i seid (g_access (a_cfg a)) (g_core (a_cfg a)) true) uf = Some ups /\
      o_reply o = Some (RMod (new_rseid cpf s0) CAUSE_OK) /\
      o_markers o = if g_end_marker (a_cfg a) then static_markers ups (view (s_fars s0) ++ fs) else [].
  Proof.
    intros Hf HL HG H.
    destruct (mod_late_result burst _ _ _ cpf _ _ _ _ _ _ _ _ _ _ _ _ Hf HL HG) as (wp3 & g3 & dp & wf3 & df & wq3 & dq & _ & _ & _ & Hr).
    rewrite Hr in H. inversion H; subst a' c' o; clear H Hr. cbn [o_markers o_reply].
    destruct (loops_marks _ _ _ _ _ _ _ _ _ _ _ HL) as (fs & ups & Pf & Pu & Hm).
    exists fs, ups. split; [exact Pf|]. split; [exact Pu|]. split; [reflexivity|].
    destruct (g_end_marker (a_cfg a)); [|reflexivity]. rewrite Hm. apply spec_markers_static.
    (* the written FARs have pairwise distinct ids (guard) *)
    destruct (loops_facts _ _ _ _ _ _ _ _ _ _ _ HL) as (ps & fs' & qs & ups' & uqs & _ & Pf' & _ & Pu' & _ & _ & _ & _ & _ & AF & _).
    rewrite Pf in Pf'. inversion Pf'; subst fs'. rewrite Pu in Pu'. inversion Pu'; subst ups'.
    unfold late_ok in HG.
    apply andb_true_iff in HG; destruct HG as [HG _]. apply andb_true_iff in HG; destruct HG as [HG _].
    apply andb_true_iff in HG; destruct HG as [HG _]. apply andb_true_iff in HG; destruct HG as [HG _].
    apply andb_true_iff in HG; destruct HG as [HG _]. apply andb_true_iff in HG; destruct HG as [HG _].
    apply andb_true_iff in HG; destruct HG as [HG _]. apply andb_true_iff in HG; destruct HG as [_ G5].
    apply nodupb_spec in G5. rewrite AF, map_app in G5. apply nodup_app_split in G5. apply G5.
  Qed.

  (* per message, any outcome under the guard: no markers, or the modification is accepted and they are the static ones *)
  Lemma mod_markers_guarded w ci seid cpf cp cf cq up uf uq rp rf rq a' c' o :
    let a := w_agent w in let c := get_conn ci (w_conns w) in
    mod_ok burst w ci (MMod seid cpf cp cf cq up uf uq rp rf rq) = true ->
    handle_mod burst a c seid cpf cp cf cq up uf uq rp rf rq = Done (a', c', o) ->
    o_markers o = [] \/
    exists s0 fs ups,
      find_session seid (c_sessions c) = Some s0 /\
      parse_all (fun i => parse_far i seid (g_access (a_cfg a)) (g_core (a_cfg a)) false) cf = Some fs /\
      parse_all (fun i => parse_far i seid (g_access (a_cfg a)) (g_core (a_cfg a)) true) uf = Some ups /\
      o_reply o = Some (RMod (new_rseid cpf s0) CAUSE_OK) /\
      o_markers o = if g_end_marker (a_cfg a) then static_markers ups (view (s_fars s0) ++ fs) else [].
  Proof.
    intros a c Hok H. unfold mod_ok in Hok. cbv zeta in Hok. fold a c in Hok.
    destruct (find_session seid (c_sessions c)) as [s0|] eqn:Hf.
    2:{ rewrite (mod_unknown burst _ _ _ cpf cp cf cq up uf uq rp rf rq Hf) in H. inversion H; subst. left. reflexivity. }
    destruct (mod_loops a c s0 seid cp cf cq up uf uq) as [wk k] eqn:HL. destruct k as [|k].
    - right. destruct (mod_markers_static _ _ _ _ _ _ _ _ _ _ _ _ _ _ _ _ _ _ _ Hf HL Hok H) as (fs & ups & A & B & C & D).
      exists s0, fs, ups. repeat split; assumption.
    - left. rewrite (handle_mod_early burst _ _ _ cpf _ _ _ _ _ _ rp rf rq _ _ _ Hf HL) in H. inversion H; subst. reflexivity.
  Qed.

  (* over histories: after ANY guarded history, every end marker a guarded modification without Create FAR emits
     carries source, destination and TEID of a FAR [f] stored for the session, named by a flagged Update FAR of the
     message - and this is the tunnel farLookup holds under the key of [f] at that moment (the old tunnel) *)
  Theorem markers_to_installed_tunnel : forall es w w' ci cn seid cpf cp cq up uf uq rp rf rq draws w'' o,
    (forall x, In x (states burst w es) -> envelope burst x /\ alloc_backed x) ->
    guarded_hist burst w es = true -> image_ok burst w -> wrun burst w es = Done w' ->
    mod_ok burst w' ci (MMod seid cpf cp [] cq up uf uq rp rf rq) = true ->
    wstep burst w' (WMsg ci cn (MMod seid cpf cp [] cq up uf uq rp rf rq) draws) = Done (w'', o) ->
    forall m, In m (o_markers o) ->
      exists s0 f u ups,
        find_session seid (c_sessions (get_conn ci (w_conns w'))) = Some s0 /\ In s0 (all_sessions w') /\
        parse_all (fun i => parse_far i seid (g_access (a_cfg (w_agent w'))) (g_core (a_cfg (w_agent w'))) true) uf = Some ups /\
        In u ups /\ a_em u = true /\ a_id f = a_id u /\
        In f (view (s_fars s0)) /\ m = marker_of f /\ g_end_marker (a_cfg (w_agent w')) = true /\
        t_get [a_id f; a_fseid f] (t_far (a_tables (w_agent w'))) =
        Some [a_ttype f; far_action f; a_ttype f; a_tsrc f; a_tdst f; a_teid f; a_tport f].
  Proof.
    intros es w w' ci cn seid cpf cp cq up uf uq rp rf rq draws w'' o Henv Hok Hi Hr Hg Hs m Hm.
    pose proof (image_invariant_mod burst es w w' Henv Hok Hi Hr) as Hi'.
    cbn [wstep handle] in Hs.
    destruct (handle_mod burst (w_agent w') (get_conn ci (w_conns w')) seid cpf cp [] cq up uf uq rp rf rq) as [[[a' c'] res]|] eqn:Hh; [|discriminate].
    inversion Hs; subst w'' o; clear Hs.
    destruct (mod_markers_guarded _ _ _ _ _ _ _ _ _ _ _ _ _ _ _ _ Hg Hh) as [E|(s0 & fs & ups & Hf & Pf & Pu & _ & E)].
    - rewrite E in Hm. destruct Hm.
    - cbn [parse_all] in Pf. inversion Pf; subst fs. rewrite app_nil_r in E. rewrite E in Hm.
      destruct (g_end_marker (a_cfg (w_agent w'))) eqn:Eg; [|destruct Hm].
      destruct (static_markers_in _ _ _ Hm) as (u & f & Hu & Hem & Hfin & Hid & ->).
      assert (In s0 (all_sessions w')) as Hs0.
      { unfold all_sessions. apply (conn_sessions_part ci). eapply find_session_in. exact Hf. }
      exists s0, f, u, ups. repeat split; try assumption.
      eapply image_far_entry; eauto.
  Qed.
End ModMarkers.

(* ------------------------------------------------------------------ C05: an accepted modification frees exactly the
   TEIDs of the PDRs it removes *)
Lemma free_id_other id id' g : id <> id' -> is_allocated id (free_id id' g) = is_allocated id g.
Proof.
  intros Hne. unfold is_allocated, free_id. destruct (id' <? MINV) eqn:E'; [reflexivity|].
  destruct (id <? MINV) eqn:E; [reflexivity|]. cbn [used]. rewrite mem_del.
  destruct (id - MINV =? id' - MINV) eqn:E2; [|reflexivity].
  apply N.eqb_eq in E2. apply N.ltb_ge in E, E'. exfalso. apply Hne. lia.
Qed.
Lemma free_teids_other : forall ps g id, (forall p, In p ps -> p_choose p = true -> p_teid p <> id) ->
  is_allocated id (free_teids g ps) = is_allocated id g.
Proof.
  unfold free_teids. induction ps as [|p ps IH]; intros g id H; [reflexivity|]. cbn [fold_left].
  rewrite IH by (intros q Hq; apply H; right; exact Hq).
  destruct (p_choose p) eqn:Ec; [|reflexivity]. apply free_id_other. intros E. apply (H p (or_introl eq_refl) Ec). symmetry. exact E.
Qed.

Lemma remove_p_frees : forall ids s g del s' g' del',
  mod_remove_p ids s g del = (s', g', Some del') -> exists new, del' = del ++ new /\ g' = free_teids g new.
Proof.
  induction ids as [|[|id] ids IH]; intros s g del s' g' del' H; cbn [mod_remove_p] in H; try discriminate.
  - inversion H; subst. exists []. rewrite app_nil_r. split; reflexivity.
  - destruct (find_idx (fun x => p_id x =? id) (view s)) as [k|]; [|discriminate].
    destruct (IH _ _ _ _ _ _ H) as (new & -> & ->). exists (nth k (view s) pdr0 :: new). rewrite <- app_assoc. split; reflexivity.
Qed.

Section ModTeids.
  Variable burst : N -> N -> N -> N.

  Lemma mod_removes_free a c seid cpf cp cf cq up uf uq rp rf rq mid s0 w6 a' c' o :
    find_session seid (c_sessions c) = Some s0 ->
    mod_loops a c s0 seid cp cf cq up uf uq = (w6, 0%nat) ->
    late_ok a c seid s0 w6 cp cf cq up uf uq rp rf rq mid = true ->
    handle_mod burst a c seid cpf cp cf cq up uf uq rp rf rq = Done (a', c', o) ->
    exists s' dp,
      find_session seid (c_sessions c') = Some s' /\
      Permutation (view (w_p w6)) (view (s_pdrs s') ++ dp) /\
      (cp = [] -> up = [] -> view (w_p w6) = view (s_pdrs s0)) /\
      a_teids a' = free_teids (a_teids a) dp /\
      (forall p, In p dp -> p_choose p = true -> is_allocated (p_teid p) (a_teids a') = false) /\
      (forall id, (forall p, In p dp -> p_choose p = true -> p_teid p <> id) -> is_allocated id (a_teids a') = is_allocated id (a_teids a)) /\
      a_gauge a' = a_gauge a.
  Proof.
    intros Hf HL HG H.
    destruct (mod_late_result burst _ _ _ cpf _ _ _ _ _ _ _ _ _ _ _ _ Hf HL HG) as (wp3 & g3 & dp & wf3 & df & wq3 & dq & R1 & _ & _ & Hr).
    rewrite Hr in H. inversion H; subst a' c' o; clear H Hr. cbn [a_teids a_gauge c_sessions].
    exists (Sess (s_lseid s0) (new_rseid cpf s0) wp3 wf3 wq3), dp.
    pose proof (remove_p_perm _ _ _ _ _ _ _ R1) as PP. rewrite app_nil_r in PP.
    destruct (remove_p_frees _ _ _ _ _ _ _ R1) as (new & En & ->). cbn [app] in En. subst new.
    split; [eapply find_replace; [exact Hf|cbn [s_lseid]; eapply find_lseid; exact Hf]|].
    split; [exact PP|]. split.
    { intros -> ->. destruct (loops_facts _ _ _ _ _ _ _ _ _ _ _ HL) as (ps & fs & qs & ups & uqs & Lp & _ & _ & _ & _ & _ & VP & _).
      destruct ps; [|discriminate Lp]. rewrite VP. unfold upd_pdrs. cbn. rewrite app_nil_r. reflexivity. }
    split; [reflexivity|]. split; [intros p Hp Hc; apply free_teids_frees; assumption|].
    split; [intros id Hid; apply free_teids_other; exact Hid|reflexivity].
  Qed.
End ModTeids.
