(* C10 - lemmas about Model/Teardown.v *)
From Coq Require Import NArith String List Bool Arith Lia.
From UPF Require Import Base.LTS Model.Teardown Proofs.TeardownInv
  Proofs.TeardownInvRd Proofs.TeardownInvSel Proofs.TeardownInvHb Proofs.TeardownInvFst.
Import ListNotations.
Open Scope list_scope.

Lemma ainv_step sess me r alt nd a nd' a' t' :
  is_assoc_role r = true -> AInv sess a ->
  thread_step me r alt nd a (get_thr a r) = Ok (nd', a', t') ->
  AInv sess (set_thr a' r t').
Proof.
  intros Hr. destruct r; try discriminate Hr.
  - apply ainv_step_rd.
  - apply ainv_step_sel.
  - apply ainv_step_hb.
  - apply ainv_step_fst.
Qed.
