(* C10 - lemmas about Model/Teardown.v *)
From Coq Require Import NArith String List Bool Arith Lia.
From UPF Require Import Base.LTS Model.Teardown Proofs.TeardownInv
  Proofs.TeardownInvRd Proofs.TeardownInvSel Proofs.TeardownInvHb Proofs.TeardownInvFst.
Import ListNotations.
Open Scope list_scope.

Lemma step_assoc sess me r alt nd a res :
  is_assoc_role r = true -> AInv sess a ->
  thread_step me r alt nd a (get_thr a r) = res ->
  match res with
  | Ok (nd', a', t') => AInv sess (set_thr a' r t') /\ node_frame nd nd'
  | Blocked => True
  | Panic _ => cclosed (n_pcd nd) = true
  end.
Proof.
  intros Hr. destruct r; try discriminate Hr.
  - apply step_rd.
  - apply step_sel.
  - apply step_hb.
  - apply step_fst.
Qed.

(* ================================================================== lists *)
Lemma nth_error_upd_same {A} (l : list A) i x y : nth_error l i = Some y -> nth_error (upd l i x) i = Some x.
Proof. revert i. induction l as [|a l IH]; intros [|i] H; cbn in *; try discriminate; auto. Qed.
Lemma nth_error_upd_other {A} (l : list A) i j x : i <> j -> nth_error (upd l i x) j = nth_error l j.
Proof.
  revert i j. induction l as [|a l IH]; intros [|i] [|j] H; cbn; try reflexivity; try congruence.
  apply IH. congruence.
Qed.
Lemma upd_length {A} (l : list A) i x : List.length (upd l i x) = List.length l.
Proof. revert i. induction l as [|a l IH]; intros [|i]; cbn; auto. Qed.

Lemma Forall2_nth {A B} (P : A -> B -> Prop) la lb i b :
  Forall2 P la lb -> nth_error lb i = Some b -> exists a, nth_error la i = Some a /\ P a b.
Proof.
  intros H. revert i. induction H as [|x y la lb Hxy H IH]; intros [|i] Hn; cbn in *; try discriminate.
  - injection Hn as <-. eauto.
  - apply IH. exact Hn.
Qed.
Lemma Forall2_nth_l {A B} (P : A -> B -> Prop) la lb i a :
  Forall2 P la lb -> nth_error la i = Some a -> exists b, nth_error lb i = Some b /\ P a b.
Proof.
  intros H. revert i. induction H as [|x y la lb Hxy H IH]; intros [|i] Hn; cbn in *; try discriminate.
  - injection Hn as <-. eauto.
  - apply IH. exact Hn.
Qed.
Lemma Forall2_upd {A B} (P : A -> B -> Prop) la lb i a b :
  Forall2 P la lb -> nth_error la i = Some a -> P a b -> Forall2 P la (upd lb i b).
Proof.
  intros H. revert i. induction H as [|x y la lb Hxy H IH]; intros [|i] Hn Hp; cbn in *; try discriminate.
  - injection Hn as <-. constructor; assumption.
  - constructor; [assumption|]. apply IH; assumption.
Qed.

(* ================================================================== the invariant holds in every reachable state *)
Definition GInv (cfg : list acfg) (s : state) : Prop := Forall2 AInv (map c_sess cfg) (s_asc s).

Lemma ainv_init c : AInv (c_sess c) (init_assoc c).
Proof.
  destruct c as [sess hb [d|]]; destruct hb; unfold AInv, fn_ok, Data, init_assoc; cbn;
  repeat (split; try reflexivity); try (right; split; [reflexivity|discriminate]).
Qed.

Lemma ginv_init cap cfg ev : GInv cfg (init_cap cap cfg ev).
Proof.
  unfold GInv, init_cap. cbn. induction cfg as [|c r IH]; cbn; constructor; [apply ainv_init|exact IH].
Qed.

Lemma ainv_set_inbox sess a v : AInv sess a -> AInv sess (set_inbox a v).
Proof. destruct a. unfold AInv, fn_ok, Data. cbn. destruct a_once as [|r|]; cbn; tauto. Qed.
Lemma ainv_set_tmo_armed sess a v : AInv sess a -> AInv sess (set_tmo_armed a v).
Proof. destruct a. unfold AInv, fn_ok, Data. cbn. destruct a_once as [|r|]; cbn; tauto. Qed.
Lemma ainv_set_hb_armed sess a v : AInv sess a -> AInv sess (set_hb_armed a v).
Proof. destruct a. unfold AInv, fn_ok, Data. cbn. destruct a_once as [|r|]; cbn; tauto. Qed.

Lemma ginv_env cfg s e : GInv cfg s -> GInv cfg (apply_env s e).
Proof.
  unfold GInv. intros H. destruct e as [i d|i|i| |]; cbn; try exact H;
    destruct (nth_error (s_asc s) i) as [a|] eqn:E; cbn; try exact H;
    destruct (Forall2_nth _ _ _ _ _ H E) as (se & Hs & Ha);
    eapply Forall2_upd; eauto using ainv_set_inbox, ainv_set_tmo_armed, ainv_set_hb_armed.
Qed.

Lemma ginv_step cfg s l s' : GInv cfg s -> step s l = Some s' -> GInv cfg s'.
Proof.
  intros Hg H. unfold step in H. destruct (dead s); [discriminate|].
  destruct l as [k|alt| |i r alt].
  - destruct (nth_error (s_env s) k); [|discriminate]. injection H as <-. unfold GInv. cbn. apply ginv_env. exact Hg.
  - destruct (Nat.leb 3 alt); [discriminate|].
    destruct (thread_step 0 RNode alt (s_node s) assoc0 (n_thr (s_node s))) as [[[nd' a'] t']| |site];
      try discriminate; injection H as <-; exact Hg.
  - destruct (thread_step 0 RStop 0 (s_node s) assoc0 (n_stop (s_node s))) as [[[nd' a'] t']| |site];
      try discriminate; injection H as <-; exact Hg.
  - destruct (negb (is_assoc_role r) || (Nat.leb 3 alt)) eqn:Eg; [discriminate|].
    apply orb_false_elim in Eg. destruct Eg as [Er _]. apply negb_false_iff in Er.
    destruct (nth_error (s_asc s) i) as [a|] eqn:Ea; [|discriminate].
    destruct (Forall2_nth _ _ _ _ _ Hg Ea) as (se & Hs & Ha).
    pose proof (step_assoc se (N.of_nat i) r alt (s_node s) a _ Er Ha eq_refl) as Hstep.
    destruct (thread_step (N.of_nat i) r alt (s_node s) a (get_thr a r)) as [[[nd' a'] t']| |site];
      try discriminate; injection H as <-; unfold GInv; cbn.
    + destruct Hstep as [Hi _]. eapply Forall2_upd; eauto.
    + exact Hg.
Qed.

Lemma ginv_reach cfg ev s : reach (init cfg ev) s -> GInv cfg s.
Proof.
  intros H. unfold reach in H.
  eapply (reach_inv state tid step (GInv cfg)); [apply ginv_init | intros; eapply ginv_step; eauto | exact H].
Qed.

(* ================================================================== at most once / exactly once *)
Lemma count_app x a b : count x (a ++ b) = count x a + count x b.
Proof. induction a as [|y a IH]; cbn; [reflexivity|]. rewrite IH. lia. Qed.
Lemma count_notin x l : ~ In x l -> count x l = 0.
Proof.
  induction l as [|y l IH]; cbn; [reflexivity|]. intros H. destruct (N.eqb_spec x y) as [->|Hn]; [tauto|].
  apply IH. tauto.
Qed.
Lemma count_nodup x l : NoDup l -> count x l <= 1.
Proof.
  induction 1 as [|y l Hn Hd IH]; cbn; [lia|]. destruct (N.eqb_spec x y) as [->|Hne]; [|exact IH].
  rewrite count_notin by exact Hn. lia.
Qed.
Lemma count_in_nodup x l : NoDup l -> In x l -> count x l = 1.
Proof.
  induction 1 as [|y l Hn Hd IH]; cbn; [tauto|]. intros [->|Hi].
  - rewrite N.eqb_refl, count_notin by exact Hn. reflexivity.
  - destruct (N.eqb_spec x y) as [->|Hne]; [tauto|]. apply IH. exact Hi.
Qed.

(* the delete commands issued so far are always a prefix of the association's session list *)
Lemma ainv_prefix sess a : AInv sess a -> exists rest, a_del a ++ rest = sess.
Proof.
  intros (Hrd & Hsel & Hhb & Hfst & Hd & _). unfold Data in Hd. destruct (a_once a) as [|r0|].
  - destruct Hd as (-> & _). exists sess. reflexivity.
  - destruct Hd as [_ Hb]. unfold Body in Hb.
    destruct (t_pc (get_thr a r0)) as [|[|[|[|[|[|[|[|p]]]]]]]]; try (exfalso; exact Hb).
    + destruct Hb as (-> & _). exists sess. reflexivity.
    + destruct Hb as (-> & _). exists sess. reflexivity.
    + destruct Hb as (-> & _). exists sess. reflexivity.
    + destruct Hb as (x & r & _ & _ & H & _). eauto.
    + destruct Hb as (x & r & d & _ & _ & -> & H & _). exists r. rewrite <- app_assoc. exact H.
    + destruct Hb as (-> & _). exists []. apply app_nil_r.
    + destruct Hb as (-> & _). exists []. apply app_nil_r.
    + destruct Hb as (-> & _). exists []. apply app_nil_r.
  - destruct Hd as (-> & _). exists []. apply app_nil_r.
Qed.

Lemma ainv_at_most_once sess a x : AInv sess a -> NoDup sess -> count x (a_del a) <= 1.
Proof.
  intros Ha Hn. destruct (ainv_prefix _ _ Ha) as [rest <-].
  pose proof (count_nodup x _ Hn) as H. rewrite count_app in H. lia.
Qed.

Lemma ainv_done_exact sess a : AInv sess a -> a_once a = ODone -> a_del a = sess /\ a_store a = [].
Proof. intros (_ & _ & _ & _ & Hd & _) Ho. unfold Data in Hd. rewrite Ho in Hd. tauto. Qed.

Definition nodup_cfg (cfg : list acfg) : Prop := forall c, In c cfg -> NoDup (c_sess c).

Theorem at_most_once_all cfg ev sch i x :
  nodup_cfg cfg -> deleted (run (init cfg ev) sch) i x <= 1.
Proof.
  intros Hn. unfold deleted.
  destruct (nth_error (s_asc (run (init cfg ev) sch)) i) as [a|] eqn:E; [|lia].
  assert (Hg : GInv cfg (run (init cfg ev) sch)) by (apply (ginv_reach cfg ev); apply (reach_run state tid step)).
  destruct (Forall2_nth _ _ _ _ _ Hg E) as (se & Hs & Ha).
  apply (ainv_at_most_once se); [exact Ha|].
  apply nth_error_In in Hs. apply in_map_iff in Hs. destruct Hs as (c & <- & Hc). apply Hn. exact Hc.
Qed.

Theorem ended_exactly_once cfg ev sch i c a :
  nodup_cfg cfg -> nth_error cfg i = Some c ->
  nth_error (s_asc (run (init cfg ev) sch)) i = Some a -> a_once a = ODone ->
  a_store a = [] /\ forall x, In x (c_sess c) -> deleted (run (init cfg ev) sch) i x = 1.
Proof.
  intros Hn Hc Ea Ho.
  assert (Hg : GInv cfg (run (init cfg ev) sch)) by (apply (ginv_reach cfg ev); apply (reach_run state tid step)).
  destruct (Forall2_nth _ _ _ _ _ Hg Ea) as (se & Hs & Ha).
  assert (se = c_sess c) as ->.
  { rewrite nth_error_map, Hc in Hs. cbn in Hs. congruence. }
  destruct (ainv_done_exact _ _ Ha Ho) as [Hd Hst]. split; [exact Hst|].
  intros x Hx. unfold deleted. rewrite Ea, Hd. apply count_in_nodup; [|exact Hx].
  apply Hn. eapply nth_error_In; eauto.
Qed.
