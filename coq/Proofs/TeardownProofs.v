(* C10 - lemmas about Model/Teardown.v *)
From Coq Require Import NArith String List Bool Arith Lia Permutation.
From UPF Require Import Base.LTS Model.Teardown Proofs.TeardownInv
  Proofs.TeardownInvRd Proofs.TeardownInvSel Proofs.TeardownInvHb Proofs.TeardownInvFst.
Import ListNotations.
Open Scope list_scope.

Lemma step_assoc sess me r alt nd a res :
  is_assoc_role r = true -> AInv sess a ->
  thread_step me r alt nd a (get_thr a r) = res ->
  match res with
  | Ok (nd', a', t') => (AInv sess (set_thr a' r t') /\ delta me r a nd nd' (set_thr a' r t')) /\ node_frame nd nd'
  | Blocked => True
  | Panic site => cclosed (n_pcd nd) = true /\ site = "send on closed channel"%string /\ at_pc a r FDo 6 = true
  end.
Proof.
  intros Hr. destruct r; try discriminate Hr.
  - apply step_rd.
  - apply step_sel.
  - apply step_hb.
  - apply step_fst.
Qed.

(* ================================================================== lists *)
Lemma nth_error_upd_same {A} (l : list A) i x y : nth_error l i = Some y -> nth_error (upd l i x) i = Some x.
Proof. revert i. induction l as [|a l IH]; intros [|i] H; cbn in *; try discriminate; auto. Qed.
Lemma nth_error_upd_other {A} (l : list A) i j x : i <> j -> nth_error (upd l i x) j = nth_error l j.
Proof.
  revert i j. induction l as [|a l IH]; intros [|i] [|j] H; cbn; try reflexivity; try congruence.
  apply IH. congruence.
Qed.
Lemma upd_length {A} (l : list A) i x : List.length (upd l i x) = List.length l.
Proof. revert i. induction l as [|a l IH]; intros [|i]; cbn; auto. Qed.

Lemma Forall2_nth {A B} (P : A -> B -> Prop) la lb i b :
  Forall2 P la lb -> nth_error lb i = Some b -> exists a, nth_error la i = Some a /\ P a b.
Proof.
  intros H. revert i. induction H as [|x y la lb Hxy H IH]; intros [|i] Hn; cbn in *; try discriminate.
  - injection Hn as <-. eauto.
  - apply IH. exact Hn.
Qed.
Lemma Forall2_nth_l {A B} (P : A -> B -> Prop) la lb i a :
  Forall2 P la lb -> nth_error la i = Some a -> exists b, nth_error lb i = Some b /\ P a b.
Proof.
  intros H. revert i. induction H as [|x y la lb Hxy H IH]; intros [|i] Hn; cbn in *; try discriminate.
  - injection Hn as <-. eauto.
  - apply IH. exact Hn.
Qed.
Lemma Forall2_upd {A B} (P : A -> B -> Prop) la lb i a b :
  Forall2 P la lb -> nth_error la i = Some a -> P a b -> Forall2 P la (upd lb i b).
Proof.
  intros H. revert i. induction H as [|x y la lb Hxy H IH]; intros [|i] Hn Hp; cbn in *; try discriminate.
  - injection Hn as <-. constructor; assumption.
  - constructor; [assumption|]. apply IH; assumption.
Qed.

(* ================================================================== the invariant holds in every reachable state *)
Definition GInv (cfg : list acfg) (s : state) : Prop := Forall2 AInv (map c_sess cfg) (s_asc s).

Lemma ainv_init c : AInv (c_sess c) (init_assoc c).
Proof.
  destruct c as [sess hb [d|]]; destruct hb;
    unfold AInv, fn_ok, Data, tmo_ok, hb_ok, life_ok, inst_ok, rd_ok, accounted, not_started, code_len, init_assoc, crt_t, bg_t, early_t; cbn;
    repeat (split; try reflexivity); try (left; reflexivity); try discriminate; try (intros; congruence);
    try (right; split; [reflexivity|split; [discriminate|lia]]); try (intros [?|?]; discriminate);
    try (exists []; rewrite app_nil_r; reflexivity); auto.
Qed.

Lemma ginv_init cap cfg ev : GInv cfg (init_cap cap cfg ev).
Proof.
  unfold GInv, init_cap. cbn. induction cfg as [|c r IH]; cbn; constructor; [apply ainv_init|exact IH].
Qed.

Lemma ainv_set_inbox sess a d : AInv sess a -> AInv sess (set_inbox a (a_inbox a ++ [d])).
Proof.
  destruct a. intros (H1 & H2 & H3 & H4 & H5 & H6 & H7 & H8 & H9 & (H10 & H11)).
  split; [exact H1|]. split; [exact H2|]. split; [exact H3|]. split; [exact H4|]. split; [exact H5|].
  split; [exact H6|]. split; [exact H7|]. split; [exact H8|]. split; [exact H9|]. split; [|exact H11].
  cbn. intros _ _ _ Hn. apply app_eq_nil in Hn. destruct Hn. discriminate.
Qed.
Lemma ainv_set_tmo_armed sess a v : AInv sess a -> AInv sess (set_tmo_armed a v).
Proof. destruct a. exact (fun H => H). Qed.
Lemma ainv_set_hb_armed sess a v : AInv sess a -> AInv sess (set_hb_armed a v).
Proof. destruct a. exact (fun H => H). Qed.

Lemma ginv_env cfg s e : GInv cfg s -> GInv cfg (apply_env s e).
Proof.
  unfold GInv. intros H. destruct e as [i d|i|i| |]; cbn; try exact H;
    destruct (nth_error (s_asc s) i) as [a|] eqn:E; cbn; try exact H;
    destruct (Forall2_nth _ _ _ _ _ H E) as (se & Hs & Ha);
    eapply Forall2_upd; eauto using ainv_set_inbox, ainv_set_tmo_armed, ainv_set_hb_armed.
Qed.

Lemma ginv_step cfg s l s' : GInv cfg s -> step s l = Some s' -> GInv cfg s'.
Proof.
  intros Hg H. unfold step in H. destruct (dead s); [discriminate|].
  destruct l as [k|alt| | |i r alt].
  - destruct (nth_error (s_env s) k); [|discriminate]. injection H as <-. unfold GInv. cbn. apply ginv_env. exact Hg.
  - destruct (Nat.leb 3 alt); [discriminate|].
    destruct (thread_step 0 RNode alt (s_node s) assoc0 (n_thr (s_node s))) as [[[nd' a'] t']| |site];
      try discriminate; injection H as <-; exact Hg.
  - destruct (thread_step 0 RStop 0 (s_node s) assoc0 (n_stop (s_node s))) as [[[nd' a'] t']| |site];
      try discriminate; injection H as <-; exact Hg.
  - destruct (thread_step 0 RPeers 0 (s_node s) assoc0 (n_peers (s_node s))) as [[[nd' a'] t']| |site];
      try discriminate; injection H as <-; exact Hg.
  - destruct (negb (is_assoc_role r) || (Nat.leb 3 alt)) eqn:Eg; [discriminate|].
    apply orb_false_elim in Eg. destruct Eg as [Er _]. apply negb_false_iff in Er.
    destruct (nth_error (s_asc s) i) as [a|] eqn:Ea; [|discriminate].
    destruct (Forall2_nth _ _ _ _ _ Hg Ea) as (se & Hs & Ha).
    pose proof (step_assoc se (N.of_nat i) r alt (s_node s) a _ Er Ha eq_refl) as Hstep.
    destruct (thread_step (N.of_nat i) r alt (s_node s) a (get_thr a r)) as [[[nd' a'] t']| |site];
      try discriminate; injection H as <-; unfold GInv; cbn.
    + destruct Hstep as [[Hi _] _]. eapply Forall2_upd; eauto.
    + exact Hg.
Qed.

Lemma ginv_reach cfg ev s : reach (init cfg ev) s -> GInv cfg s.
Proof.
  intros H. unfold reach in H.
  eapply (reach_inv state tid step (GInv cfg)); [apply ginv_init | intros; eapply ginv_step; eauto | exact H].
Qed.

(* ================================================================== at most once / exactly once *)
Lemma count_app x a b : count x (a ++ b) = count x a + count x b.
Proof. induction a as [|y a IH]; cbn; [reflexivity|]. rewrite IH. lia. Qed.
Lemma count_notin x l : ~ In x l -> count x l = 0.
Proof.
  induction l as [|y l IH]; cbn; [reflexivity|]. intros H. destruct (N.eqb_spec x y) as [->|Hn]; [tauto|].
  apply IH. tauto.
Qed.
Lemma count_nodup x l : NoDup l -> count x l <= 1.
Proof.
  induction 1 as [|y l Hn Hd IH]; cbn; [lia|]. destruct (N.eqb_spec x y) as [->|Hne]; [|exact IH].
  rewrite count_notin by exact Hn. lia.
Qed.
Lemma count_in_nodup x l : NoDup l -> In x l -> count x l = 1.
Proof.
  induction 1 as [|y l Hn Hd IH]; cbn; [tauto|]. intros [->|Hi].
  - rewrite N.eqb_refl, count_notin by exact Hn. reflexivity.
  - destruct (N.eqb_spec x y) as [->|Hne]; [tauto|]. apply IH. exact Hi.
Qed.

(* the delete commands issued so far, together with what is still to be deleted, are the installed sessions *)
Lemma ainv_perm sess a : AInv sess a -> exists rest, Permutation (a_del a ++ rest) (a_inst a).
Proof.
  intros (Hrd & Hsel & Hhb & Hfst & Hd & _). unfold Data, accounted in Hd. destruct (a_once a) as [|r0|].
  - destruct Hd as (H & _). eauto.
  - destruct Hd as (_ & _ & _ & Hb). unfold Body, accounted in Hb.
    destruct (t_pc (get_thr a r0)) as [|[|[|[|[|[|[|[|[|p]]]]]]]]]; try (exfalso; exact Hb).
    + destruct Hb as (H & _). eauto.
    + destruct Hb as (H & _). eauto.
    + destruct Hb as (H & _). eauto.
    + destruct Hb as (H & _). eauto.
    + destruct Hb as (x & r & _ & _ & H & _). eauto.
    + destruct Hb as (x & r & d & _ & _ & -> & H & _). exists r. rewrite <- app_assoc. exact H.
    + destruct Hb as (_ & H & _). exists []. rewrite app_nil_r. exact H.
    + destruct Hb as (_ & H & _). exists []. rewrite app_nil_r. exact H.
    + destruct Hb as (_ & H & _). exists []. rewrite app_nil_r. exact H.
  - destruct Hd as (_ & H & _). exists []. rewrite app_nil_r. exact H.
Qed.

Lemma ainv_at_most_once sess a x : AInv sess a -> NoDup (a_inst a) -> count x (a_del a) <= 1.
Proof.
  intros Ha Hn. destruct (ainv_perm _ _ Ha) as [rest Hp].
  assert (Hn2 : NoDup (a_del a ++ rest)) by (eapply Permutation_NoDup; [symmetry; exact Hp | exact Hn]).
  pose proof (count_nodup x _ Hn2) as H. rewrite count_app in H. lia.
Qed.

Lemma ainv_done_exact sess a : AInv sess a -> a_once a = ODone -> Permutation (a_del a) (a_inst a) /\ a_store a = [].
Proof. intros (_ & _ & _ & _ & Hd & _) Ho. unfold Data in Hd. rewrite Ho in Hd. tauto. Qed.

Lemma ainv_inst sess a : AInv sess a -> exists extra, a_inst a = sess ++ extra.
Proof. intros (_ & _ & _ & _ & _ & _ & _ & _ & H & _). exact H. Qed.

Definition nodup_cfg (cfg : list acfg) : Prop := forall c, In c cfg -> NoDup (c_sess c).

Lemma NoDup_app_fresh {A} (l : list A) x : NoDup l -> ~ In x l -> NoDup (l ++ [x]).
Proof.
  intros Hn Hx. induction Hn as [|y l Hy Hn IH]; cbn; [constructor; [tauto|constructor]|].
  constructor.
  - intros Hi. apply in_app_or in Hi. destruct Hi as [Hi|[->|[]]]; [tauto|]. apply Hx. left. reflexivity.
  - apply IH. intros Hi. apply Hx. right. exact Hi.
Qed.

Lemma memN_false_notin x l : memN x l = false -> ~ In x l.
Proof.
  induction l as [|y l IH]; cbn; [tauto|]. intros H. apply orb_false_elim in H. destruct H as [H1 H2].
  intros [->|Hi]; [rewrite N.eqb_refl in H1; discriminate | exact (IH H2 Hi)].
Qed.

(* UP-chosen SEIDs are fresh: the list of installed sessions never repeats an element *)
Definition NDInv (s : state) : Prop := forall a, In a (s_asc s) -> NoDup (a_inst a).

Lemma in_upd {A} (l : list A) i x y : In y (upd l i x) -> y = x \/ In y l.
Proof.
  revert i. induction l as [|z l IH]; intros [|i]; cbn; auto.
  - intros [<-|H]; auto.
  - intros [<-|H]; auto. destruct (IH _ H); auto.
Qed.

Lemma ndinv_step cfg s l s' : GInv cfg s -> NDInv s -> step s l = Some s' -> NDInv s'.
Proof.
  intros Hg Hn H. unfold step in H. destruct (dead s); [discriminate|].
  destruct l as [k|alt| | |i r alt].
  - destruct (nth_error (s_env s) k) as [e|]; [|discriminate]. injection H as <-. intros a Ha. cbn in Ha.
    destruct e as [j d|j|j| |]; cbn in Ha; try (apply Hn; exact Ha);
      (destruct (nth_error (s_asc s) j) as [b|] eqn:Eb; cbn in Ha; [|apply Hn; exact Ha]);
      (apply in_upd in Ha; destruct Ha as [->|Ha]; [|apply Hn; exact Ha]);
      pose proof (Hn b (nth_error_In _ _ Eb)) as Hb; destruct b; exact Hb.
  - destruct (Nat.leb 3 alt); [discriminate|].
    destruct (thread_step 0 RNode alt (s_node s) assoc0 (n_thr (s_node s))) as [[[nd' a'] t']| |site];
      try discriminate; injection H as <-; exact Hn.
  - destruct (thread_step 0 RStop 0 (s_node s) assoc0 (n_stop (s_node s))) as [[[nd' a'] t']| |site];
      try discriminate; injection H as <-; exact Hn.
  - destruct (thread_step 0 RPeers 0 (s_node s) assoc0 (n_peers (s_node s))) as [[[nd' a'] t']| |site];
      try discriminate; injection H as <-; exact Hn.
  - destruct (negb (is_assoc_role r) || (Nat.leb 3 alt)) eqn:Eg; [discriminate|].
    apply orb_false_elim in Eg. destruct Eg as [Er _]. apply negb_false_iff in Er.
    destruct (nth_error (s_asc s) i) as [a|] eqn:Ea; [|discriminate].
    destruct (Forall2_nth _ _ _ _ _ Hg Ea) as (se & Hs & Ha).
    pose proof (step_assoc se (N.of_nat i) r alt (s_node s) a _ Er Ha eq_refl) as Hstep.
    destruct (thread_step (N.of_nat i) r alt (s_node s) a (get_thr a r)) as [[[nd' a'] t']| |site];
      try discriminate; injection H as <-; [|exact Hn].
    destruct Hstep as [[_ (_ & _ & _ & _ & _ & _ & _ & Di & _)] _].
    intros b Hb. cbn in Hb. apply in_upd in Hb. destruct Hb as [->|Hb]; [|apply Hn; exact Hb].
    pose proof (Hn a (nth_error_In _ _ Ea)) as Hna.
    destruct Di as [->|(x & Hx & ->)]; [exact Hna|].
    apply NoDup_app_fresh; [exact Hna | apply memN_false_notin; exact Hx].
Qed.

Lemma ndinv_run cfg ev sch : nodup_cfg cfg -> NDInv (run (init cfg ev) sch).
Proof.
  intros Hc.
  assert (H : GInv cfg (run (init cfg ev) sch) /\ NDInv (run (init cfg ev) sch)).
  { unfold run. apply (run_inv state tid step (fun s => GInv cfg s /\ NDInv s)).
    - intros s l s' [Hg Hn] Hs. split; [eapply ginv_step; eauto | eapply ndinv_step; eauto].
    - split; [apply ginv_init|]. intros a Ha. unfold init, init_cap in Ha. cbn in Ha.
      apply in_map_iff in Ha. destruct Ha as (c & <- & Hin). destruct c as [se hb [d|]]; cbn; apply (Hc _ Hin). }
  destruct H as [_ H]. exact H.
Qed.

Theorem at_most_once_all cfg ev sch i x :
  nodup_cfg cfg -> deleted (run (init cfg ev) sch) i x <= 1.
Proof.
  intros Hn. unfold deleted.
  destruct (nth_error (s_asc (run (init cfg ev) sch)) i) as [a|] eqn:E; [|lia].
  assert (Hg : GInv cfg (run (init cfg ev) sch)) by (apply (ginv_reach cfg ev); apply (reach_run state tid step)).
  destruct (Forall2_nth _ _ _ _ _ Hg E) as (se & Hs & Ha).
  apply (ainv_at_most_once se); [exact Ha|].
  apply (ndinv_run cfg ev sch Hn). eapply nth_error_In; eauto.
Qed.

(* an ended association: the store is empty and every session that was ever installed for it - configured, or
   established by a request that was handled before the teardown - has been deleted from the datapath exactly once *)
Theorem ended_exactly_once cfg ev sch i c a :
  nodup_cfg cfg -> nth_error cfg i = Some c ->
  nth_error (s_asc (run (init cfg ev) sch)) i = Some a -> a_once a = ODone ->
  a_store a = [] /\ (forall x, In x (a_inst a) -> deleted (run (init cfg ev) sch) i x = 1)
  /\ (forall x, In x (c_sess c) -> In x (a_inst a)).
Proof.
  intros Hn Hc Ea Ho.
  assert (Hg : GInv cfg (run (init cfg ev) sch)) by (apply (ginv_reach cfg ev); apply (reach_run state tid step)).
  destruct (Forall2_nth _ _ _ _ _ Hg Ea) as (se & Hs & Ha).
  assert (se = c_sess c) as ->.
  { rewrite nth_error_map, Hc in Hs. cbn in Hs. congruence. }
  destruct (ainv_done_exact _ _ Ha Ho) as [Hd Hst]. split; [exact Hst|]. split.
  - intros x Hx. unfold deleted. rewrite Ea. apply count_in_nodup.
    + eapply Permutation_NoDup; [symmetry; exact Hd|]. apply (ndinv_run cfg ev sch Hn). eapply nth_error_In; eauto.
    + eapply Permutation_in; [symmetry; exact Hd | exact Hx].
  - intros x Hx. destruct (ainv_inst _ _ Ha) as [extra ->]. apply in_or_app. left. exact Hx.
Qed.

(* ================================================================== without Stop nothing can panic *)
Definition is_stop_ev (e : env) : bool := match e with EStop | ECancel => true | _ => false end.
Definition no_stop (ev : list env) : Prop := forallb (fun e => negb (is_stop_ev e)) ev = true.

Record NS (s : state) : Prop := {
  ns_panic : s_panic s = None;
  ns_ctx : n_ctx (s_node s) = mkchan 0;
  ns_pcd : cclosed (n_pcd (s_node s)) = false;
  ns_thr : n_thr (s_node s) = thr0 TRunning FNode;
  ns_stop : n_stop (s_node s) = thr0 TNotStarted FStop;
  ns_peers : n_peers (s_node s) = thr0 TRunning FPeers;
  ns_main : n_main (s_node s) = false;
  ns_lsock : n_lsock (s_node s) = false;
  ns_cap : ccap (n_pcd (s_node s)) = pcd_cap;
  ns_env : no_stop (s_env s) }.

Lemma no_stop_remove ev k : no_stop ev -> no_stop (remove_nth ev k).
Proof.
  unfold no_stop. revert k. induction ev as [|e ev IH]; intros [|k] H; cbn in *; auto.
  - apply andb_true_iff in H. tauto.
  - apply andb_true_iff in H. destruct H as [H1 H2]. rewrite H1. cbn. apply IH. exact H2.
Qed.
Lemma no_stop_nth ev k e : no_stop ev -> nth_error ev k = Some e -> is_stop_ev e = false.
Proof.
  unfold no_stop. intros H Hn. apply nth_error_In in Hn. rewrite forallb_forall in H.
  apply H in Hn. apply negb_true_iff in Hn. exact Hn.
Qed.

Lemma apply_env_node s e : is_stop_ev e = false -> s_node (apply_env s e) = s_node s
  /\ s_panic (apply_env s e) = s_panic s /\ s_env (apply_env s e) = s_env s.
Proof.
  destruct e as [i d|i|i| |]; cbn; try discriminate; intros _;
    destruct (nth_error (s_asc s) i); cbn; auto.
Qed.

Lemma ns_init cfg ev : no_stop ev -> NS (init cfg ev).
Proof. intros H. constructor; cbn; auto. Qed.

Lemma ns_step cfg s l s' : GInv cfg s -> NS s -> step s l = Some s' -> NS s'.
Proof.
  intros Hg [Hp Hc Hd Ht Hs Hpe Hm Hl Hcap He] H. unfold step in H. unfold dead in H. rewrite Hp, Hm in H.
  destruct l as [k|alt| | |i r alt].
  - destruct (nth_error (s_env s) k) as [e|] eqn:Ek; [|discriminate]. injection H as <-.
    destruct (apply_env_node s e (no_stop_nth _ _ _ He Ek)) as (Hn & _ & _).
    constructor; cbn; rewrite ?Hn; auto. apply no_stop_remove. exact He.
  - destruct (Nat.leb 3 alt); [discriminate|].
    destruct (s_node s) as [cx pc dn ls mp ex bu mn np nn cr en th sp pe] eqn:End. cbn in *. subst cx th sp mn.
    unfold thread_step in H. cbn in H.
    destruct alt as [|[|[|alt]]]; cbn in H; try discriminate.
    unfold ch_recv in H. destruct (cbuf pc) as [|v rest] eqn:Eb.
    + rewrite Hd in H. discriminate.
    + cbn in H. injection H as <-. constructor; cbn; auto.
  - rewrite Hs in H. cbn in H. discriminate.
  - rewrite Hpe in H. unfold thread_step in H. cbn in H. rewrite Hl in H. cbn in H. discriminate.
  - destruct (negb (is_assoc_role r) || Nat.leb 3 alt) eqn:Eg; [discriminate|].
    apply orb_false_elim in Eg. destruct Eg as [Er _]. apply negb_false_iff in Er.
    destruct (nth_error (s_asc s) i) as [a|] eqn:Ea; [|discriminate].
    destruct (Forall2_nth _ _ _ _ _ Hg Ea) as (se & Hse & Ha).
    pose proof (step_assoc se (N.of_nat i) r alt (s_node s) a _ Er Ha eq_refl) as Hstep.
    destruct (thread_step (N.of_nat i) r alt (s_node s) a (get_thr a r)) as [[[nd' a'] t']| |site];
      try discriminate; injection H as <-.
    + destruct Hstep as [_ (F1 & F2 & F3 & F4 & F5 & F6 & F7 & F10 & F11 & F12 & F13 & F8 & F9)].
      constructor; cbn; try congruence. rewrite F1; [exact Hc|]. rewrite Hc. reflexivity.
    + destruct Hstep. congruence.
Qed.

Theorem no_panic_without_stop cfg ev sch : no_stop ev -> s_panic (run (init cfg ev) sch) = None.
Proof.
  intros Hns.
  assert (H : GInv cfg (run (init cfg ev) sch) /\ NS (run (init cfg ev) sch)).
  { unfold run. apply (run_inv state tid step (fun s => GInv cfg s /\ NS s)).
    - intros s l s' [Hg Hn] Hs. split; [eapply ginv_step; eauto | eapply ns_step; eauto].
    - split; [apply ginv_init | apply ns_init; exact Hns]. }
  destruct H as [_ [Hp _ _ _ _ _ _ _ _ _]]. exact Hp.
Qed.

(* with or without Stop: the only panic the system can ever raise comes from a send on the closed pConnDone
   by a connection, or from the node closing a channel twice - which never happens (see node_no_double_close) *)

(* ================================================================== isolation *)
Definition env_target (e : env) : option nat :=
  match e with EDeliver i _ | ETimeout i | EHbFail i => Some i | _ => None end.
Definition untouched (ev : list env) (j : nat) : Prop := forall e, In e ev -> env_target e <> Some j.

(* an established association nobody talks to: each of its threads waits *)
Lemma idle_blocked c me r alt nd :
  c_first c = None -> n_ctx nd = mkchan 0 -> is_assoc_role r = true ->
  thread_step me r alt nd (init_assoc c) (get_thr (init_assoc c) r) = Blocked.
Proof.
  destruct c as [sess hb [d|]]; cbn; [discriminate|]. intros _ Hc Hr.
  destruct nd as [cx pc dn ls mp ex bu mn np nn cr en th sp pe]. cbn in Hc. subst cx.
  destruct r; try discriminate Hr; destruct hb; destruct alt as [|[|[|[|alt]]]]; reflexivity.
Qed.

Lemma in_remove_nth {A} (l : list A) k x : In x (remove_nth l k) -> In x l.
Proof.
  revert k. induction l as [|y l IH]; intros [|k]; cbn; auto. intros [->|H]; auto. right. eapply IH. exact H.
Qed.

Lemma apply_env_other s e j : env_target e <> Some j ->
  nth_error (s_asc (apply_env s e)) j = nth_error (s_asc s) j.
Proof.
  destruct e as [i d|i|i| |]; cbn; intros H; try reflexivity;
    (destruct (nth_error (s_asc s) i); cbn; [apply nth_error_upd_other; congruence | reflexivity]).
Qed.

Theorem isolated cfg ev j c sch :
  no_stop ev -> untouched ev j -> nth_error cfg j = Some c -> c_first c = None ->
  nth_error (s_asc (run (init cfg ev) sch)) j = Some (init_assoc c).
Proof.
  intros Hns Hu Hc Hf.
  set (P := fun s => (GInv cfg s /\ NS s) /\ nth_error (s_asc s) j = Some (init_assoc c) /\ untouched (s_env s) j).
  assert (H : P (run (init cfg ev) sch)).
  { unfold run. apply (run_inv state tid step P).
    - intros s l s' [[Hg Hn] [Hj Hun]] Hs. split; [split; [eapply ginv_step; eauto | eapply ns_step; eauto]|].
      pose proof Hn as [Hp Hcx _ _ Hst Hpe Hm Hl _ _].
      unfold step in Hs. unfold dead in Hs. rewrite Hp, Hm in Hs.
      destruct l as [k|alt| | |i r alt].
      + destruct (nth_error (s_env s) k) as [e|] eqn:Ek; [|discriminate]. injection Hs as <-. cbn. split.
        * rewrite apply_env_other; [exact Hj|]. apply Hun. eapply nth_error_In; eauto.
        * intros e' He'. apply Hun. eapply in_remove_nth; eauto.
      + destruct (Nat.leb 3 alt); [discriminate|].
        destruct (thread_step 0 RNode alt (s_node s) assoc0 (n_thr (s_node s))) as [[[nd' a'] t']| |site];
          try discriminate; injection Hs as <-; cbn; auto.
      + destruct (thread_step 0 RStop 0 (s_node s) assoc0 (n_stop (s_node s))) as [[[nd' a'] t']| |site];
          try discriminate; injection Hs as <-; cbn; auto.
      + destruct (thread_step 0 RPeers 0 (s_node s) assoc0 (n_peers (s_node s))) as [[[nd' a'] t']| |site];
          try discriminate; injection Hs as <-; cbn; auto.
      + destruct (negb (is_assoc_role r) || Nat.leb 3 alt) eqn:Eg; [discriminate|].
        apply orb_false_elim in Eg. destruct Eg as [Er _]. apply negb_false_iff in Er.
        destruct (nth_error (s_asc s) i) as [a|] eqn:Ea; [|discriminate].
        destruct (Nat.eq_dec i j) as [->|Hne].
        * rewrite Hj in Ea. injection Ea as <-. rewrite idle_blocked in Hs by assumption. discriminate.
        * destruct (thread_step (N.of_nat i) r alt (s_node s) a (get_thr a r)) as [[[nd' a'] t']| |site];
            try discriminate; injection Hs as <-; cbn; [|auto].
          split; [|exact Hun]. rewrite nth_error_upd_other by exact Hne. exact Hj.
    - split; [split; [apply ginv_init | apply ns_init; exact Hns]|]. split; [|exact Hu].
      unfold init, init_cap. cbn. rewrite nth_error_map, Hc. reflexivity. }
  destruct H as [_ [H _]]. exact H.
Qed.

