(* C10 - lemmas about Model/Teardown.v *)
From Coq Require Import NArith String List Bool Arith Lia.
From UPF Require Import Base.LTS Model.Teardown.
Import ListNotations.

(* ------------------------------------------------------------------ witnesses (refutations of the full statements) *)
Definition one_live (k : list N) : list acfg := [ACfg k false None].

(* F21a: Stop with one live association: the node closes pConnDone before the connection reports *)
Definition w_send_closed : list tid :=
  [TEnv 0; TStop; TNode 1; TNode 0; TNode 0; TNode 0; TNode 0;   (* cancel; ctx branch; Close; drain; len; close(pConnDone) *)
   TA 0 RSel 1; TA 0 RSel 0; TA 0 RSel 0; TA 0 RSel 0; TA 0 RSel 0; TA 0 RSel 0; TA 0 RSel 0; TA 0 RSel 0].
Lemma stop_send_on_closed :
  s_panic (run (init (one_live [7%N]) [EStop]) w_send_closed) = Some "send on closed channel"%string.
Proof. vm_compute. reflexivity. Qed.
