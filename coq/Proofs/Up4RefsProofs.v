(* C15 - references to tunnel peers survive every (re-)send of a FAR, whatever the Write answers.

   The ownership theorems of Up4IdsProofs.v speak about the plug-in's map entries (one owner per tunnel-parameter
   entry).  What keeps an entry - and with it the peer id - out of the pool while a live session forwards through
   it is the entry's user set: removeGTPTunnelPeer frees the id when the set becomes empty.  This file proves that
   addOrUpdateGTPTunnelPeer and updateTunnelPeersBasedOnFARs never drop a user from any entry and never change an
   entry's id, on success and on every failure (seeded change C15-m5: the release-on-error closure also removed
   the FAR's reference from an existing shared peer). *)
From Coq Require Import NArith List Bool.
From UPF Require Import Model.Up4Ids Proofs.Up4IdsProofs.
Import ListNotations.
Open Scope N_scope.

(* every (entry, user) pair of [u] is still there in [u'], under the same id *)
Definition refs_kept (u u' : up4) : Prop :=
  forall k id users r, alookup N.eqb k (peers u) = Some (id, users) -> In r users ->
    exists users', alookup N.eqb k (peers u') = Some (id, users') /\ In r users'.

Lemma refs_kept_refl : forall u, refs_kept u u.
Proof. intros u k id users r H Hr. exists users. split; assumption. Qed.

Lemma refs_kept_trans : forall u1 u2 u3, refs_kept u1 u2 -> refs_kept u2 u3 -> refs_kept u1 u3.
Proof.
  intros u1 u2 u3 H12 H23 k id users r H Hr.
  destruct (H12 k id users r H Hr) as [us2 [H2 Hr2]].
  exact (H23 k id us2 r H2 Hr2).
Qed.

Lemma alookup_aupsert_same : forall (V : Type) k (v : V) l, alookup N.eqb k (aupsert N.eqb k v l) = Some v.
Proof.
  intros V k v l. induction l as [|[k' v'] l IH]; cbn [aupsert alookup].
  - rewrite N.eqb_refl. reflexivity.
  - destruct (k =? k') eqn:E; cbn [alookup]; rewrite ?N.eqb_refl, ?E; [reflexivity|exact IH].
Qed.

Lemma alookup_aupsert_other : forall (V : Type) k k0 (v : V) l, (k0 =? k) = false ->
  alookup N.eqb k0 (aupsert N.eqb k v l) = alookup N.eqb k0 l.
Proof.
  intros V k k0 v l Hne. induction l as [|[k' v'] l IH]; cbn [aupsert alookup].
  - rewrite Hne. reflexivity.
  - destruct (k =? k') eqn:E; cbn [alookup].
    + apply N.eqb_eq in E. subst k'. rewrite Hne. reflexivity.
    + destruct (k0 =? k'); [reflexivity|exact IH].
Qed.

Lemma in_pset_add : forall v l r, In r l -> In r (pset_add v l).
Proof. intros v l r H. unfold pset_add. destruct (pmem v l); [exact H|apply in_or_app; left; exact H]. Qed.

(* a new entry under a key that has none, or more users under the same id: nothing is lost *)
Lemma refs_kept_upsert_new : forall u k v, alookup N.eqb k (peers u) = None ->
  refs_kept u (set_peers (aupsert N.eqb k v (peers u)) u).
Proof.
  intros u k v Hnone k0 id users r H Hr. destruct u; cbn in *.
  destruct (k0 =? k) eqn:E.
  - apply N.eqb_eq in E. subst k0. rewrite Hnone in H. discriminate.
  - exists users. rewrite alookup_aupsert_other by exact E. split; assumption.
Qed.

Lemma refs_kept_upsert_more : forall u k id users users', alookup N.eqb k (peers u) = Some (id, users) ->
  (forall r, In r users -> In r users') ->
  refs_kept u (set_peers (aupsert N.eqb k (id, users') (peers u)) u).
Proof.
  intros u k id users users' Hk Hincl k0 id0 users0 r H Hr. destruct u; cbn in *.
  destruct (k0 =? k) eqn:E.
  - apply N.eqb_eq in E. subst k0. rewrite Hk in H. injection H as <- <-.
    exists users'. rewrite alookup_aupsert_same. split; [reflexivity|apply Hincl; exact Hr].
  - exists users0. rewrite alookup_aupsert_other by exact E. split; assumption.
Qed.

Lemma write_u : forall s w, w_u (fst (write s w)) = w_u w.
Proof. intros s w. unfold write. destruct (w_faults w); reflexivity. Qed.

Lemma pop_peer_peers : forall w, peers (w_u (fst (pop_peer w))) = peers (w_u w).
Proof. intros w. unfold pop_peer. destruct (peer_pool (w_u w)); [reflexivity|]. destruct (w_u w); reflexivity. Qed.

Lemma refs_kept_same_peers : forall u u', peers u' = peers u -> refs_kept u u'.
Proof. intros u u' E k id users r H Hr. exists users. rewrite E. split; assumption. Qed.

(* one FAR: success, exhausted pool, refused INSERT, refused MODIFY - no user is dropped, no id changes *)
Lemma addOrUpdate_keeps_refs : forall sid f w,
  refs_kept (w_u w) (w_u (fst (addOrUpdateGTPTunnelPeer sid f w))).
Proof.
  intros sid f w. unfold addOrUpdateGTPTunnelPeer. rewrite bind_eq. cbn [get_u].
  destruct (alookup N.eqb (f_peer f) (peers (w_u w))) as [[id users]|] eqn:Hk.
  - (* the peer exists *)
    rewrite bind_eq. cbn [modify_u]. rewrite bind_eq.
    match goal with |- context [write SPeer ?w0] => pose proof (write_u SPeer w0) as Hw; destruct (write SPeer w0) as [w1 [r|]] end;
      cbn [fst] in Hw |- *.
    + assert (Hu : w_u (fst ((if is_ok r then ret tt else fail) w1)) = w_u w1) by (destruct (is_ok r); reflexivity).
      rewrite Hu, Hw. cbn [w_u].
      apply (refs_kept_upsert_more _ _ _ users); [exact Hk|intros r0; apply in_pset_add].
    + rewrite Hw. cbn [w_u].
      apply (refs_kept_upsert_more _ _ _ users); [exact Hk|intros r0; apply in_pset_add].
  - (* a new peer *)
    rewrite bind_eq. pose proof (pop_peer_peers w) as Hp.
    destruct (pop_peer w) as [w0 [[id|]|]] eqn:Hpop; cbn [fst] in Hp |- *;
      try (apply refs_kept_same_peers; exact Hp).
    rewrite bind_eq. pose proof (write_u SPeer w0) as Hw.
    destruct (write SPeer w0) as [w1 [r|]]; cbn [fst] in Hw |- *.
    + destruct (is_ok r); cbn [modify_u fail fst w_u].
      * apply refs_kept_trans with (w_u w0); [apply refs_kept_same_peers; exact Hp|].
        rewrite Hw. apply refs_kept_upsert_new. rewrite Hp. exact Hk.
      * apply refs_kept_same_peers. rewrite Hw. exact Hp.
    + apply refs_kept_same_peers. rewrite Hw. exact Hp.
Qed.

(* any preorder on the plug-in state that every element's action respects is respected by the loop, also when
   the loop stops at a failing element *)
Lemma forM_keeps : forall (A : Type) (f : A -> M unit) (l : list A),
  (forall a w, refs_kept (w_u w) (w_u (fst (f a w)))) ->
  forall w, refs_kept (w_u w) (w_u (fst (forM_ l f w))).
Proof.
  intros A f l Hf. induction l as [|a l IH]; intros w; cbn [forM_].
  - apply refs_kept_refl.
  - rewrite bind_eq. pose proof (Hf a w) as Ha. destruct (f a w) as [w' [[]|]]; cbn [fst] in Ha |- *.
    + apply refs_kept_trans with (w_u w'); [exact Ha|apply IH].
    + exact Ha.
Qed.

Theorem update_peers_keeps_refs : forall sid fars w,
  refs_kept (w_u w) (w_u (fst (updateTunnelPeersBasedOnFARs sid fars w))).
Proof.
  intros sid fars w. unfold updateTunnelPeersBasedOnFARs. apply forM_keeps.
  intros f w0. destruct (f_encap f); [apply addOrUpdate_keeps_refs|apply refs_kept_refl].
Qed.

(* corollary in the property's words: an id whose entry has a user before the FARs are (re-)sent is not in the pool
   afterwards unless it was there before - the loop only ever takes ids OUT of the pool *)
Lemma pop_peer_pool_incl : forall w, incl (peer_pool (w_u (fst (pop_peer w)))) (peer_pool (w_u w)).
Proof.
  intros w. unfold pop_peer. destruct (peer_pool (w_u w)) as [|h r] eqn:E; cbn [fst w_u].
  - rewrite E. apply incl_refl.
  - destruct (w_u w); cbn in *. subst. apply incl_tl, incl_refl.
Qed.

Lemma addOrUpdate_pool_incl : forall sid f w,
  incl (peer_pool (w_u (fst (addOrUpdateGTPTunnelPeer sid f w)))) (peer_pool (w_u w)).
Proof.
  intros sid f w. unfold addOrUpdateGTPTunnelPeer. rewrite bind_eq. cbn [get_u].
  destruct (alookup N.eqb (f_peer f) (peers (w_u w))) as [[id users]|] eqn:Hk.
  - rewrite bind_eq. cbn [modify_u]. rewrite bind_eq.
    match goal with |- context [write SPeer ?w0] => pose proof (write_u SPeer w0) as Hw; destruct (write SPeer w0) as [w1 [r|]] end;
      cbn [fst] in Hw |- *.
    + assert (Hu : w_u (fst ((if is_ok r then ret tt else fail) w1)) = w_u w1) by (destruct (is_ok r); reflexivity).
      rewrite Hu, Hw. cbn [w_u]. destruct (w_u w); cbn. apply incl_refl.
    + rewrite Hw. cbn [w_u]. destruct (w_u w); cbn. apply incl_refl.
  - rewrite bind_eq. pose proof (pop_peer_pool_incl w) as Hp.
    destruct (pop_peer w) as [w0 [[id|]|]] eqn:Hpop; cbn [fst] in Hp |- *; try exact Hp.
    rewrite bind_eq. pose proof (write_u SPeer w0) as Hw.
    destruct (write SPeer w0) as [w1 [r|]]; cbn [fst] in Hw |- *.
    + destruct (is_ok r); cbn [modify_u fail fst w_u]; rewrite Hw; [|exact Hp].
      destruct (w_u w0); cbn in *. exact Hp.
    + rewrite Hw. exact Hp.
Qed.

Theorem update_peers_pool_incl : forall sid fars w,
  incl (peer_pool (w_u (fst (updateTunnelPeersBasedOnFARs sid fars w)))) (peer_pool (w_u w)).
Proof.
  intros sid fars w. unfold updateTunnelPeersBasedOnFARs. revert w.
  induction fars as [|f fars IH]; intros w; cbn [forM_].
  - apply incl_refl.
  - rewrite bind_eq.
    assert (Ha : incl (peer_pool (w_u (fst ((if f_encap f then addOrUpdateGTPTunnelPeer sid f else ret tt) w)))) (peer_pool (w_u w)))
      by (destruct (f_encap f); [apply addOrUpdate_pool_incl|apply incl_refl]).
    destruct ((if f_encap f then addOrUpdateGTPTunnelPeer sid f else ret tt) w) as [w' [[]|]]; cbn [fst] in Ha |- *.
    + eapply incl_tran; [apply IH|exact Ha].
    + exact Ha.
Qed.
