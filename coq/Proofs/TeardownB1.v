(* C10 - instances decided by computation: one association, every trigger (no Stop) *)
From Coq Require Import NArith String List Bool Arith.
From UPF Require Import Base.LTS Model.Teardown Proofs.TeardownBounded.
Import ListNotations.
Open Scope N_scope.

(* one established association with two sessions and a heartbeat monitor; two releases (a retransmission),
   an in-flight request, silence past the read timeout and a heartbeat failure, in any order and interleaving *)
Definition cfg1 : list acfg := [ACfg [1; 2] true None].
Definition ev1 : list env := [rel 0; rel 0; EDeliver 0 DOther; ETimeout 0; EHbFail 0].
Lemma inst1_ok : instance_ok fuel_1m cfg1 ev1 = true.
Proof. vm_compute. reflexivity. Qed.
Lemma inst1_terminates : level 34 (init cfg1 ev1) = [].
Proof. vm_compute. reflexivity. Qed.

(* a peer whose first datagram is a Setup (the monitor starts while triggers arrive), then every trigger *)
Definition cfg3 : list acfg := [ACfg [1] true (Some DSetup)].
Definition ev3 : list env := [rel 0; ETimeout 0; EHbFail 0].
Lemma inst3_ok : instance_ok fuel_1m cfg3 ev3 = true.
Proof. vm_compute. reflexivity. Qed.

(* a peer whose first datagram is a release, retransmitted, then silence: forgotten like any other *)
Definition cfg2 : list acfg := [ACfg [1] false (Some DRelease)].
Definition ev2 : list env := [rel 0; ETimeout 0].
Lemma inst2_ok : instance_ok fuel_1m cfg2 ev2 = true.
Proof. vm_compute. reflexivity. Qed.
