(* Proofs about Model/FlowDesc.v: the grammar (AST, printer, denotation), the token scanner as a
   recursion on the remaining tokens and its equality with the index loop, crash-freedom,
   round trip, meaning of the PDR filter, application ids, malformed texts, PFD management. *)
From Coq Require Import Arith NArith List Bool Ascii String Lia ZifyN ZifyNat ZifyBool.
From UPF Require Import Base.Words Model.PortRange Model.FlowDesc Proofs.FlowDescText.
Import ListNotations.
Open Scope N_scope.

(* ================================================================== the grammar *)

Inductive act := Permit | Deny.
Inductive dirn := DIn | DOut.
Inductive protof := PIp | PTcp | PUdp | PNum (n : N).
Inductive addr := AAny | AAssigned | AIp (ip : N) (len : option N).
Inductive portf := PNone | POne (p : N) | PRng (l h : N).

Record ast := Ast {
  a_act : act; a_dir : dirn; a_proto : protof;
  a_from : addr; a_fport : portf; a_to : addr; a_tport : portf }.

Definition act_tok (a : act) : str := match a with Permit => K "permit" | Deny => K "deny" end.
Definition dir_tok (d : dirn) : str := match d with DIn => K "in" | DOut => K "out" end.
Definition proto_tok (p : protof) : str :=
  match p with PIp => K "ip" | PTcp => K "tcp" | PUdp => K "udp" | PNum n => print_dec n end.
Definition addr_tok (a : addr) : str :=
  match a with AAny => K "any" | AAssigned => K "assigned" | AIp ip len => ip_text ip len end.
Definition port_toks (p : portf) : list str :=
  match p with
  | PNone => []
  | POne p => [print_dec p]
  | PRng l h => [print_dec l ++ dash :: print_dec h]
  end.

Definition print (a : ast) : list str :=
  [act_tok (a_act a); dir_tok (a_dir a); proto_tok (a_proto a); K "from"; addr_tok (a_from a)]
  ++ port_toks (a_fport a) ++ [K "to"; addr_tok (a_to a)] ++ port_toks (a_tport a).

(* the text: tokens joined by single spaces *)
Definition render (a : ast) : str := join (print a).

Definition wf_proto (p : protof) : Prop := match p with PNum n => n <= 255 | _ => True end.
Definition wf_addr (a : addr) : Prop :=
  match a with AIp ip len => ip < 2 ^ 32 /\ (forall l, len = Some l -> l <= 32) | _ => True end.
Definition wf_port (p : portf) : Prop :=
  match p with PNone => True | POne p => p <= 65535 | PRng l h => l <= h /\ h <= 65535 end.
Definition wf_ast (a : ast) : Prop :=
  wf_proto (a_proto a) /\ wf_addr (a_from a) /\ wf_port (a_fport a) /\ wf_addr (a_to a) /\ wf_port (a_tport a).

(* denotation: the ipFilterRule the text stands for, given the UE address *)
Definition proto_val (p : protof) : N :=
  match p with PIp => RESERVED_PROTO | PTcp => 6 | PUdp => 17 | PNum n => n end.
Definition net_of (a : addr) (u : N) : N * N :=
  match a with
  | AAny => (0, 0)
  | AAssigned => if u =? 0 then (0, 0) else net_of_ip u None
  | AIp ip len => net_of_ip ip len
  end.
Definition range_of (p : portf) : prange :=
  match p with PNone => wild_ports | POne p => new_range p p | PRng l h => new_range l h end.
Definition denote (a : ast) (u : N) : rule :=
  Rule (act_tok (a_act a)) (dir_tok (a_dir a)) (proto_val (a_proto a))
       (Some (net_of (a_from a) u)) (range_of (a_fport a))
       (Some (net_of (a_to a) u)) (range_of (a_tport a)).

(* ================================================================== the scanner on suffixes *)

Fixpoint scan (ue : str) (ts : list str) (st : rule) : pres rule :=
  match ts with
  | [] => POk st
  | t :: r =>
    if leqb t (K "from") then
      match r with
      | [] => PErrBad
      | a :: r2 =>
        match parse_net (xform ue a) with
        | None => PErrOther
        | Some n =>
          match r2 with
          | [] => POk (set_src st n)
          | p :: r3 =>
            if leqb p (K "to") then scan ue r2 (set_src st n)
            else match parse_port p with
                 | None => PErrOther
                 | Some pr => scan ue r3 (set_sports (set_src st n) pr)
                 end
          end
        end
      end
    else if leqb t (K "to") then
      match r with
      | [] => PErrBad
      | a :: r2 =>
        match parse_net (xform ue a) with
        | None => PErrOther
        | Some n =>
          match r2 with
          | [] => POk (set_dst st n)
          | p :: r3 =>
            match parse_port p with
            | None => PErrOther
            | Some pr => scan ue r3 (set_dports (set_dst st n) pr)
            end
          end
        end
      end
    else scan ue r st
  end.

Lemma skipn_nth {A} (l : list A) i t : nth_error l i = Some t -> skipn i l = t :: skipn (S i) l.
Proof.
  revert l; induction i as [|i IH]; intros [|x l] H; cbn in *; try discriminate.
  - now injection H as ->.
  - now apply IH.
Qed.

(* the index loop of the model computes the suffix scanner: every fields[...] is in range *)
Lemma loop_scan ue : forall f fs i st,
  (List.length fs - i < f)%nat -> loop f fs ue i st = scan ue (skipn i fs) st.
Proof.
  induction f as [|f IH]; intros fs i st Hf; [lia|].
  cbn [loop].
  destruct (Nat.leb_spec (List.length fs) i) as [Hle|Hlt].
  { rewrite skipn_all2 by assumption. reflexivity. }
  destruct (nth_error fs i) as [t|] eqn:Et; [|apply nth_error_None in Et; lia].
  rewrite (skipn_nth _ _ _ Et). cbn [scan].
  destruct (leqb t (K "from")).
  { destruct (Nat.leb_spec (List.length fs) (S i)) as [Hle1|Hlt1].
    { rewrite (skipn_all2 fs) by assumption. reflexivity. }
    destruct (nth_error fs (S i)) as [a|] eqn:Ea; [|apply nth_error_None in Ea; lia].
    rewrite (skipn_nth _ _ _ Ea).
    destruct (parse_net (xform ue a)) as [n|]; [|reflexivity].
    destruct (Nat.ltb_spec (S (S i)) (List.length fs)) as [Hlt2|Hge2].
    - destruct (nth_error fs (S (S i))) as [p|] eqn:Ep; [|apply nth_error_None in Ep; lia].
      rewrite (skipn_nth _ _ _ Ep).
      destruct (leqb p (K "to")).
      + rewrite IH by lia. now rewrite (skipn_nth _ _ _ Ep).
      + destruct (parse_port p); [|reflexivity]. now rewrite IH by lia.
    - rewrite IH by lia. rewrite !(skipn_all2 fs) by lia. reflexivity. }
  destruct (leqb t (K "to")).
  { destruct (Nat.leb_spec (List.length fs) (S i)) as [Hle1|Hlt1].
    { rewrite (skipn_all2 fs) by assumption. reflexivity. }
    destruct (nth_error fs (S i)) as [a|] eqn:Ea; [|apply nth_error_None in Ea; lia].
    rewrite (skipn_nth _ _ _ Ea).
    destruct (parse_net (xform ue a)) as [n|]; [|reflexivity].
    destruct (Nat.ltb_spec (S i) (List.length fs - 1)) as [Hlt2|Hge2].
    - destruct (nth_error fs (S (S i))) as [p|] eqn:Ep; [|apply nth_error_None in Ep; lia].
      rewrite (skipn_nth _ _ _ Ep).
      destruct (parse_port p); [|reflexivity]. now rewrite IH by lia.
    - rewrite IH by lia. rewrite !(skipn_all2 fs) by lia. reflexivity. }
  now rewrite IH by lia.
Qed.

Definition st0 (a d p : str) : rule := Rule a d (parse_proto p) None wild_ports None wild_ports.

Definition nil_check (r : pres rule) : pres rule :=
  match r with
  | POk st => match r_src st, r_dst st with Some _, Some _ => POk st | _, _ => PErrBad end
  | e => e
  end.

Lemma parse_tokens_scan a d p rest ue :
  parse_tokens (a :: d :: p :: rest) ue =
  if negb (parse_action a) then PErrBad
  else if negb (parse_direction d) then PErrBad
  else nil_check (scan ue rest (st0 a d p)).
Proof.
  unfold parse_tokens. cbn [List.length nth_error Nat.ltb Nat.leb].
  rewrite loop_scan by (cbn [List.length]; lia). cbn [skipn]. unfold nil_check, st0.
  destruct (negb (parse_action a)); [reflexivity|]. destruct (negb (parse_direction d)); [reflexivity|].
  destruct (scan ue rest _); reflexivity.
Qed.

Lemma parse_tokens_short fs ue : (List.length fs < 3)%nat -> parse_tokens fs ue = PErrBad.
Proof.
  intros H. unfold parse_tokens. destruct (Nat.ltb_spec (List.length fs) 3); [reflexivity|lia].
Qed.

(* ================================================================== crash freedom *)

Definition benign {A} (r : pres A) : Prop := r <> PCrash /\ r <> PFuel.

Lemma scan_benign ue : forall n ts st, (List.length ts <= n)%nat -> benign (scan ue ts st).
Proof.
  induction n as [|n IH]; intros ts st Hn.
  { destruct ts; [split; discriminate|cbn in Hn; lia]. }
  destruct ts as [|t r]; [split; discriminate|]. cbn [scan]. cbn [List.length] in Hn.
  destruct (leqb t (K "from")).
  { destruct r as [|a r2]; [split; discriminate|].
    destruct (parse_net (xform ue a)) as [nn|]; [|split; discriminate].
    destruct r2 as [|p r3]; [split; discriminate|]. cbn [List.length] in Hn.
    destruct (leqb p (K "to")); [apply IH; cbn [List.length]; lia|].
    destruct (parse_port p); [|split; discriminate]. apply IH. lia. }
  destruct (leqb t (K "to")).
  { destruct r as [|a r2]; [split; discriminate|].
    destruct (parse_net (xform ue a)) as [nn|]; [|split; discriminate].
    destruct r2 as [|p r3]; [split; discriminate|]. cbn [List.length] in Hn.
    destruct (parse_port p); [|split; discriminate]. apply IH. lia. }
  apply IH. lia.
Qed.

Lemma parse_tokens_benign fs ue : benign (parse_tokens fs ue).
Proof.
  destruct fs as [|a [|d [|p rest]]]; try (rewrite parse_tokens_short by (cbn; lia); split; discriminate).
  rewrite parse_tokens_scan.
  destruct (negb (parse_action a)); [split; discriminate|].
  destruct (negb (parse_direction d)); [split; discriminate|].
  pose proof (scan_benign ue _ rest (st0 a d p) (le_n _)) as [H1 H2].
  destruct (scan ue rest (st0 a d p)) as [st| | | |]; cbn [nil_check]; try (split; discriminate); try contradiction.
  destruct (r_src st), (r_dst st); split; discriminate.
Qed.

Lemma parse_flow_desc_benign desc ue : benign (parse_flow_desc desc ue).
Proof. apply parse_tokens_benign. Qed.

(* ================================================================== round trip *)

Lemma from_from : leqb (K "from") (K "from") = true. Proof. reflexivity. Qed.
Lemma to_from : leqb (K "to") (K "from") = false. Proof. reflexivity. Qed.
Lemma to_to : leqb (K "to") (K "to") = true. Proof. reflexivity. Qed.

Lemma scan_from_port ue a p r3 st n pr :
  parse_net (xform ue a) = Some n -> leqb p (K "to") = false -> parse_port p = Some pr ->
  scan ue (K "from" :: a :: p :: r3) st = scan ue r3 (set_sports (set_src st n) pr).
Proof. intros H1 H2 H3. cbn [scan]. now rewrite from_from, H1, H2, H3. Qed.

Lemma scan_from_to ue a r st n :
  parse_net (xform ue a) = Some n ->
  scan ue (K "from" :: a :: K "to" :: r) st = scan ue (K "to" :: r) (set_src st n).
Proof. intros H1. cbn [scan]. rewrite from_from, H1, to_to. reflexivity. Qed.

Lemma scan_to_port ue a p st n pr :
  parse_net (xform ue a) = Some n -> parse_port p = Some pr ->
  scan ue [K "to"; a; p] st = POk (set_dports (set_dst st n) pr).
Proof. intros H1 H2. cbn [scan]. now rewrite to_from, to_to, H1, H2. Qed.

Lemma scan_to_end ue a st n :
  parse_net (xform ue a) = Some n -> scan ue [K "to"; a] st = POk (set_dst st n).
Proof. intros H1. cbn [scan]. now rewrite to_from, to_to, H1. Qed.

Lemma addr_tok_parse ad u : wf_addr ad -> u < 2 ^ 32 ->
  parse_net (xform (print_ip u) (addr_tok ad)) = Some (net_of ad u).
Proof.
  intros Hwf Hu. destruct ad as [| |ip len]; cbn [addr_tok net_of].
  - unfold xform. change (leqb (K "any") (K "any")) with true. cbn iota. apply parse_net_wildcard.
  - unfold xform. change (leqb (K "assigned") (K "any")) with false.
    change (leqb (K "assigned") (K "assigned")) with true. cbn iota.
    destruct (N.eqb_spec u 0) as [->|Hnz].
    + change (print_ip 0) with (K "0.0.0.0"). change (leqb (K "0.0.0.0") (K "0.0.0.0")) with true.
      cbn iota. apply parse_net_wildcard.
    + replace (leqb (print_ip u) (K "0.0.0.0")) with false.
      2:{ symmetry. apply leqb_neq. change (K "0.0.0.0") with (print_ip 0). intros E.
          apply print_ip_inj in E; [contradiction|assumption|reflexivity]. }
      destruct (print_ip_starts u) as (c & r & E & D).
      replace (leqb (print_ip u) []) with false by (rewrite E; reflexivity).
      rewrite (starts_digit_neq (print_ip u) (K "<nil>")) by (try apply print_ip_starts; reflexivity).
      cbn [negb andb]. apply (parse_net_ip_text u None); [assumption|discriminate].
  - destruct Hwf as [Hip Hl].
    assert (S : starts_digit (ip_text ip len)).
    { unfold ip_text. destruct len; [apply starts_digit_app|]; apply print_ip_starts. }
    unfold xform.
    rewrite (starts_digit_neq _ (K "any") S) by reflexivity.
    rewrite (starts_digit_neq _ (K "assigned") S) by reflexivity.
    now apply parse_net_ip_text.
Qed.

Lemma port_tok_props p : wf_port p -> p <> PNone ->
  exists t, port_toks p = [t] /\ leqb t (K "to") = false /\ parse_port t = Some (range_of p).
Proof.
  intros Hwf Hne. destruct p as [|q|l h]; [contradiction| |]; cbn [port_toks range_of wf_port] in *.
  - eexists; split; [reflexivity|]. split.
    + apply starts_digit_neq; [apply print_dec_starts|reflexivity].
    + now apply parse_port_single.
  - destruct Hwf. eexists; split; [reflexivity|]. split.
    + apply starts_digit_neq; [apply starts_digit_app, print_dec_starts|reflexivity].
    + now apply parse_port_range.
Qed.

Lemma portf_eq_none p : p = PNone \/ p <> PNone.
Proof. destruct p; [now left|right; discriminate|right; discriminate]. Qed.

Lemma scan_print ue a d p af pf at_ pt u :
  ue = print_ip u -> u < 2 ^ 32 -> wf_addr af -> wf_port pf -> wf_addr at_ -> wf_port pt ->
  scan ue (K "from" :: addr_tok af :: port_toks pf ++ K "to" :: addr_tok at_ :: port_toks pt)
       (Rule a d p None wild_ports None wild_ports)
  = POk (Rule a d p (Some (net_of af u)) (range_of pf) (Some (net_of at_ u)) (range_of pt)).
Proof.
  intros -> Hu Haf Hpf Hat Hpt.
  pose proof (addr_tok_parse af u Haf Hu) as Nf. pose proof (addr_tok_parse at_ u Hat Hu) as Nt.
  assert (TO : forall st, scan (print_ip u) (K "to" :: addr_tok at_ :: port_toks pt) st =
               POk (match pt with PNone => set_dst st (net_of at_ u)
                              | _ => set_dports (set_dst st (net_of at_ u)) (range_of pt) end)).
  { intros st. destruct (portf_eq_none pt) as [->|Hne].
    - cbn [port_toks]. now apply scan_to_end.
    - destruct (port_tok_props pt Hpt Hne) as (t & -> & _ & Pt).
      rewrite (scan_to_port _ _ _ _ _ _ Nt Pt). destruct pt; [contradiction|reflexivity|reflexivity]. }
  destruct (portf_eq_none pf) as [->|Hne].
  - cbn [port_toks app]. rewrite (scan_from_to _ _ _ _ _ Nf), TO.
    destruct pt; reflexivity.
  - destruct (port_tok_props pf Hpf Hne) as (t & -> & Tt & Pt). cbn [app].
    rewrite (scan_from_port _ _ _ _ _ _ _ Nf Tt Pt), TO.
    destruct pf; [contradiction| |]; destruct pt; reflexivity.
Qed.

Lemma act_tok_ok a : parse_action (act_tok a) = true.
Proof. destruct a; reflexivity. Qed.
Lemma dir_tok_ok d : parse_direction (dir_tok d) = true.
Proof. destruct d; reflexivity. Qed.
Lemma proto_tok_val p : wf_proto p -> parse_proto (proto_tok p) = proto_val p.
Proof.
  destruct p as [| | |n]; try reflexivity. cbn [wf_proto proto_tok proto_val]. intros H.
  unfold parse_proto. rewrite parse_uint_print; [reflexivity|change (2 ^ 8) with 256; lia|unfold DEC_BOUND; lia].
Qed.

Theorem roundtrip_tokens a u : wf_ast a -> u < 2 ^ 32 ->
  parse_tokens (print a) (print_ip u) = POk (denote a u).
Proof.
  intros (Hp & Hf & Hfp & Ht & Htp) Hu. unfold print. cbn [app].
  rewrite parse_tokens_scan, act_tok_ok, dir_tok_ok. cbn [negb]. unfold st0.
  rewrite (proto_tok_val _ Hp).
  rewrite (scan_print _ _ _ _ _ _ _ _ u eq_refl Hu Hf Hfp Ht Htp). reflexivity.
Qed.

(* the printed tokens contain no white space, so strings.Fields recovers them from the text *)
Definition ns (s : str) : Prop := Forall (fun c => is_space c = false) s.

Lemma ns_print_dec n : ns (print_dec n).
Proof. apply digits_no_space, print_dec_digits. Qed.

Lemma ns_print_ip ip : ns (print_ip ip).
Proof.
  unfold print_ip, ns.
  repeat (apply Forall_app; split; [apply ns_print_dec|]; constructor; [reflexivity|]).
  apply ns_print_dec.
Qed.

Lemma tok_ok_starts s : starts_digit s -> ns s -> tok_ok s.
Proof. intros (c & r & -> & _) H. split; [discriminate|exact H]. Qed.

Lemma print_tok_ok a : Forall tok_ok (print a).
Proof.
  assert (KW : forall s, In s [K "permit"; K "deny"; K "in"; K "out"; K "ip"; K "tcp"; K "udp"; K "from"; K "to";
                              K "any"; K "assigned"] -> tok_ok s).
  { intros s H. cbn in H.
    repeat (destruct H as [<-|H]; [split; [discriminate|repeat constructor]|]). contradiction. }
  assert (AD : forall ad, tok_ok (addr_tok ad)).
  { intros [| |ip len]; cbn [addr_tok]; try (apply KW; cbn; tauto).
    unfold ip_text. destruct len as [l|].
    - apply tok_ok_starts; [apply starts_digit_app, print_ip_starts|].
      apply Forall_app; split; [apply ns_print_ip|]. constructor; [reflexivity|apply ns_print_dec].
    - apply tok_ok_starts; [apply print_ip_starts|apply ns_print_ip]. }
  assert (PT : forall p, Forall tok_ok (port_toks p)).
  { intros [|q|l h]; cbn [port_toks]; [constructor| |].
    - apply Forall_cons; [|apply Forall_nil].
      apply tok_ok_starts; [apply print_dec_starts|apply ns_print_dec].
    - apply Forall_cons; [|apply Forall_nil].
      apply tok_ok_starts; [apply starts_digit_app, print_dec_starts|].
      apply Forall_app; split; [apply ns_print_dec|]. constructor; [reflexivity|apply ns_print_dec]. }
  unfold print. apply Forall_app; split.
  - repeat (apply Forall_cons; [|try apply Forall_nil]).
    + destruct (a_act a); apply KW; cbn; tauto.
    + destruct (a_dir a); apply KW; cbn; tauto.
    + destruct (a_proto a); try (apply KW; cbn; tauto).
      apply tok_ok_starts; [apply print_dec_starts|apply ns_print_dec].
    + apply KW; cbn; tauto.
    + apply AD.
  - apply Forall_app; split; [apply PT|]. apply Forall_app; split; [|apply PT].
    apply Forall_cons; [apply KW; cbn; tauto|]. apply Forall_cons; [apply AD|apply Forall_nil].
Qed.

Lemma fields_render a : fields (render a) = print a.
Proof. apply fields_join, print_tok_ok. Qed.

Theorem roundtrip a u : wf_ast a -> u < 2 ^ 32 ->
  parse_flow_desc (render a) (print_ip u) = POk (denote a u).
Proof. intros. unfold parse_flow_desc. rewrite fields_render. now apply roundtrip_tokens. Qed.

Lemma render_nonempty a : render a <> [].
Proof.
  intros E. pose proof (fields_render a) as F. rewrite E in F. cbn in F. unfold print in F. discriminate.
Qed.

(* ================================================================== meaning of the PDR filter *)

(* x lies in the IPv4 prefix ip/len *)
Definition in_prefix (x ip len : N) : Prop := x / 2 ^ (32 - len) = ip / 2 ^ (32 - len).

(* what an endpoint says about an address; 'assigned' is the UE address as a host (/32) prefix *)
Definition addr_sem (a : addr) (u x : N) : Prop :=
  match a with
  | AAny => True
  | AAssigned => in_prefix x u 32
  | AIp ip None => in_prefix x ip 32
  | AIp ip (Some l) => in_prefix x ip l
  end.

Definition proto_sem (p : protof) (x : N) : Prop :=
  match p with PIp => True | PTcp => x = 6 | PUdp => x = 17 | PNum n => x = n end.

(* the remote end of a packet for a PDR: source on the core side, destination on the access side *)
Definition remote (i : iface) (k : packet) : N := match i with Core => k_src k | _ => k_dst k end.
Definition ue_side (i : iface) (k : packet) : N := match i with Core => k_dst k | _ => k_src k end.
Definition remote_port (i : iface) (k : packet) : N := match i with Core => k_sport k | _ => k_dport k end.

Definition one_port (a : ast) : Prop := a_fport a = PNone \/ a_tport a = PNone.
(* the port range written (on whichever endpoint), the whole range when none is *)
Definition written_of (fp tp : portf) : prange :=
  match fp with PNone => range_of tp | POne p => new_range p p | PRng l h => new_range l h end.
Definition written (a : ast) : prange := written_of (a_fport a) (a_tport a).

Definition wf_pkt (k : packet) : Prop := k_src k < 2 ^ 32 /\ k_dst k < 2 ^ 32 /\ k_proto k < 256.
(* protocol number 255 is the code's "no protocol" sentinel *)
Definition no_sentinel (a : ast) : Prop := a_proto a <> PNum 255.

Lemma in_prefix_32 x ip : in_prefix x ip 32 <-> x = ip.
Proof. unfold in_prefix. change (2 ^ (32 - 32)) with 1. now rewrite !N.div_1_r. Qed.

Lemma prefix_match x ip l : x < 2 ^ 32 -> ip < 2 ^ 32 -> l <= 32 ->
  (N.land x (mask_of l) =? N.land ip (mask_of l)) = true <-> in_prefix x ip l.
Proof.
  intros Hx Hip Hl. unfold mask_of, in_prefix. rewrite !land_himask_arith by assumption.
  rewrite N.eqb_eq. split.
  - intros H. apply N.mul_cancel_r in H; [exact H|]. apply N.pow_nonzero. lia.
  - now intros ->.
Qed.

Lemma net_of_ip_match x ip len : x < 2 ^ 32 -> ip < 2 ^ 32 -> (forall l, len = Some l -> l <= 32) ->
  (N.land x (snd (net_of_ip ip len)) =? fst (net_of_ip ip len)) = true <->
  in_prefix x ip (match len with Some l => l | None => 32 end).
Proof.
  intros Hx Hip Hl. unfold net_of_ip. cbn [fst snd]. apply prefix_match; auto.
  destruct len as [l|]; [now apply Hl|lia].
Qed.

Lemma addr_match ad u x : wf_addr ad -> 0 < u < 2 ^ 32 -> x < 2 ^ 32 ->
  (N.land x (snd (net_of ad u)) =? fst (net_of ad u)) = true <-> addr_sem ad u x.
Proof.
  intros Hwf Hu Hx. destruct ad as [| |ip len]; cbn [net_of addr_sem].
  - cbn [fst snd]. rewrite N.land_0_r. split; [trivial|reflexivity].
  - replace (u =? 0) with false by lia. apply (net_of_ip_match x u None); [assumption|lia|discriminate].
  - destruct Hwf as [Hip Hl]. destruct len as [l|].
    + apply (net_of_ip_match x ip (Some l)); auto.
    + apply (net_of_ip_match x ip None); auto.
Qed.

Lemma proto_match p f x : wf_proto p -> p <> PNum 255 -> x < 256 -> f_proto f = 0 -> f_proto_mask f = 0 ->
  (N.land x (f_proto_mask (with_proto f (proto_val p))) =? f_proto (with_proto f (proto_val p))) = true
  <-> proto_sem p x.
Proof.
  intros Hwf Hne Hx F0 M0.
  assert (L : N.land x 255 = x).
  { change 255 with (N.ones 8). rewrite N.land_ones. apply N.mod_small. exact Hx. }
  destruct p as [| | |n]; cbn [proto_val proto_sem wf_proto] in *.
  - unfold with_proto. change (RESERVED_PROTO =? RESERVED_PROTO) with true. cbn iota.
    rewrite F0, M0, N.land_0_r. split; [trivial|reflexivity].
  - unfold with_proto. change (6 =? RESERVED_PROTO) with false. cbn [f_proto f_proto_mask].
    rewrite L. apply N.eqb_eq.
  - unfold with_proto. change (17 =? RESERVED_PROTO) with false. cbn [f_proto f_proto_mask].
    rewrite L. apply N.eqb_eq.
  - unfold with_proto. replace (n =? RESERVED_PROTO) with false.
    2:{ symmetry. apply N.eqb_neq. intros ->. now apply Hne. }
    cbn [f_proto f_proto_mask]. rewrite L. apply N.eqb_eq.
Qed.

Lemma in_range_wild x : in_range wild_ports x = true.
Proof. reflexivity. Qed.

Lemma in_range_is_wild r x : is_wild r = true -> in_range r x = true.
Proof. intros H. unfold in_range. now rewrite H. Qed.

(* the port work-around of parseSDFFilter: with at most one written range, the filter constrains the
   remote port by it and leaves the other port free *)
Lemma ports_workaround fp tp x y : fp = PNone \/ tp = PNone ->
  (let '(s, d) := if negb (is_wild (range_of tp)) then (range_of tp, wild_ports) else (range_of fp, range_of tp)
   in in_range s x && in_range d y) =
  in_range (written_of fp tp) x.
Proof.
  intros [-> | ->].
  - cbn [range_of written_of]. destruct (is_wild (range_of tp)) eqn:W; cbn [negb].
    + now rewrite in_range_wild, !in_range_is_wild by assumption.
    + now rewrite in_range_wild, andb_true_r.
  - cbn [range_of]. change (is_wild wild_ports) with true. cbn [negb].
    rewrite in_range_wild, andb_true_r. destruct fp; reflexivity.
Qed.

Theorem filter_meaning a u i k :
  wf_ast a -> one_port a -> no_sentinel a -> 0 < u < 2 ^ 32 -> wf_pkt k -> i = Access \/ i = Core ->
  fmatch (orient_sdf i (denote a u) (prefill i u)) k = true <->
  addr_sem (a_from a) u (remote i k) /\ addr_sem (a_to a) u (ue_side i k) /\
  proto_sem (a_proto a) (k_proto k) /\ in_range (written a) (remote_port i k) = true.
Proof.
  intros (Hp & Hf & Hfp & Ht & Htp) Hone Hns Hu (Ks & Kd & Kp) Hi.
  assert (PF : f_proto (prefill i u) = 0 /\ f_proto_mask (prefill i u) = 0).
  { unfold prefill. destruct (u =? 0), i; split; reflexivity. }
  destruct PF as [PF0 PM0].
  pose proof (proto_match (a_proto a) (prefill i u) (k_proto k) Hp Hns Kp PF0 PM0) as PR.
  pose proof (ports_workaround (a_fport a) (a_tport a)) as PW.
  unfold written. destruct Hi as [-> | ->]; unfold orient_sdf, denote, fmatch;
    cbn [r_proto r_src r_dst r_sports r_dports net_ip net_mask remote ue_side remote_port].
  - (* access: packet source is the UE side = 'to', packet destination is the remote = 'from' *)
    specialize (PW (k_dport k) (k_sport k) Hone).
    destruct (if negb (is_wild (range_of (a_tport a)))
              then (range_of (a_tport a), wild_ports) else (range_of (a_fport a), range_of (a_tport a))) as [s d] eqn:E.
    assert (E' : (if negb (is_wild (range_of (a_tport a)))
                  then (wild_ports, range_of (a_tport a)) else (range_of (a_tport a), range_of (a_fport a))) = (d, s)).
    { destruct (negb (is_wild (range_of (a_tport a)))); injection E as <- <-; reflexivity. }
    rewrite E'. cbn [f_src_ip f_dst_ip f_src_mask f_dst_mask f_proto f_proto_mask f_sports f_dports].
    destruct (net_of (a_from a) u) as [fi fm] eqn:NF. destruct (net_of (a_to a) u) as [ti tm] eqn:NT.
    pose proof (addr_match (a_from a) u (k_dst k) Hf Hu Kd) as AF. rewrite NF in AF. cbn [fst snd] in AF.
    pose proof (addr_match (a_to a) u (k_src k) Ht Hu Ks) as AT. rewrite NT in AT. cbn [fst snd] in AT.
    rewrite !andb_true_iff, AF, AT, PR, <- PW. rewrite andb_true_iff. tauto.
  - specialize (PW (k_sport k) (k_dport k) Hone).
    destruct (if negb (is_wild (range_of (a_tport a)))
              then (range_of (a_tport a), wild_ports) else (range_of (a_fport a), range_of (a_tport a))) as [s d] eqn:E.
    cbn [f_src_ip f_dst_ip f_src_mask f_dst_mask f_proto f_proto_mask f_sports f_dports].
    destruct (net_of (a_from a) u) as [fi fm] eqn:NF. destruct (net_of (a_to a) u) as [ti tm] eqn:NT.
    pose proof (addr_match (a_from a) u (k_src k) Hf Hu Ks) as AF. rewrite NF in AF. cbn [fst snd] in AF.
    pose proof (addr_match (a_to a) u (k_dst k) Ht Hu Kd) as AT. rewrite NT in AT. cbn [fst snd] in AT.
    rewrite !andb_true_iff, AF, AT, PR, <- PW. rewrite andb_true_iff. tauto.
Qed.

(* ================================================================== PDR level *)

Lemma parse_pdr_sdf i u t desc : desc <> [] ->
  parse_pdr i u t [ISdf (Some desc)] =
  match parse_flow_desc desc (ue_text u) with
  | POk r => Accepted (orient_sdf i r (prefill i u))
  | _ => Accepted (prefill i u)
  end.
Proof.
  intros Hne. unfold parse_pdr. cbn [pdi_items]. unfold parse_sdf_filter.
  destruct desc as [|c desc]; [contradiction|].
  destruct (parse_flow_desc (c :: desc) (ue_text u)); reflexivity.
Qed.

Theorem sdf_pdr a u i t : wf_ast a -> u < 2 ^ 32 ->
  parse_pdr i u t [ISdf (Some (render a))] = Accepted (orient_sdf i (denote a u) (prefill i u)).
Proof.
  intros Hwf Hu. rewrite parse_pdr_sdf by apply render_nonempty.
  unfold ue_text. now rewrite roundtrip.
Qed.

Theorem sdf_pdr_meaning a u i t k :
  wf_ast a -> one_port a -> no_sentinel a -> 0 < u < 2 ^ 32 -> wf_pkt k -> i = Access \/ i = Core ->
  exists f, parse_pdr i u t [ISdf (Some (render a))] = Accepted f /\
  (fmatch f k = true <->
   addr_sem (a_from a) u (remote i k) /\ addr_sem (a_to a) u (ue_side i k) /\
   proto_sem (a_proto a) (k_proto k) /\ in_range (written a) (remote_port i k) = true).
Proof.
  intros Hwf H1 Hns Hu Hk Hi. eexists. split; [apply sdf_pdr; [assumption|lia]|].
  now apply filter_meaning.
Qed.

(* protocol number 255: the text is accepted and the filter matches every protocol *)
Definition a255 : ast := Ast Permit DOut (PNum 255) AAny PNone AAssigned PNone.
Definition k_tcp : packet := Pkt 134744072 167772161 443 50000 6.

Lemma sentinel_255_witness :
  wf_ast a255 /\ one_port a255 /\ wf_pkt k_tcp /\
  parse_pdr Core 167772161 [] [ISdf (Some (render a255))] =
    Accepted (orient_sdf Core (denote a255 167772161) (prefill Core 167772161)) /\
  fmatch (orient_sdf Core (denote a255 167772161) (prefill Core 167772161)) k_tcp = true /\
  ~ proto_sem (a_proto a255) (k_proto k_tcp).
Proof.
  split; [cbn; repeat split; try lia; discriminate|]. split; [now left|]. split; [repeat split|].
  split; [vm_compute; reflexivity|]. split; [vm_compute; reflexivity|]. cbn. discriminate.
Qed.

Theorem filter_meaning_refuted :
  exists a u i k, wf_ast a /\ one_port a /\ 0 < u < 2 ^ 32 /\ wf_pkt k /\ (i = Access \/ i = Core) /\
  ~ (fmatch (orient_sdf i (denote a u) (prefill i u)) k = true <->
     addr_sem (a_from a) u (remote i k) /\ addr_sem (a_to a) u (ue_side i k) /\
     proto_sem (a_proto a) (k_proto k) /\ in_range (written a) (remote_port i k) = true).
Proof.
  exists a255, 167772161, Core, k_tcp.
  destruct sentinel_255_witness as (W & O & P & _ & M & NP).
  split; [exact W|]. split; [exact O|]. split; [split; reflexivity|]. split; [exact P|].
  split; [now right|]. intros [H _]. apply H in M. tauto.
Qed.

(* every outcome of a PDR with one inline SDF filter: refused, UE-only, or the oriented result of a
   successful parse - never anything else *)
Theorem sdf_pdr_cases i u t o :
  parse_pdr i u t [ISdf o] = Rejected \/
  parse_pdr i u t [ISdf o] = Accepted (prefill i u) \/
  exists desc r, o = Some desc /\ parse_flow_desc desc (ue_text u) = POk r /\
                 parse_pdr i u t [ISdf o] = Accepted (orient_sdf i r (prefill i u)).
Proof.
  destruct o as [[|c desc]|]; [now left|..|now left].
  rewrite parse_pdr_sdf by discriminate.
  destruct (parse_flow_desc (c :: desc) (ue_text u)) eqn:E; eauto 10.
Qed.

(* ================================================================== application ids *)

Definition nonmatching (i : iface) (u : N) (d : str) : Prop :=
  exists r, parse_flow_desc d (ue_text u) = POk r /\ dir_matches i (r_dir r) = false.

Lemma app_scan_first i u pre d post f r :
  Forall (nonmatching i u) pre -> parse_flow_desc d (ue_text u) = POk r -> dir_matches i (r_dir r) = true ->
  app_scan i u (pre ++ d :: post) f = (verbatim r f, None).
Proof.
  intros Hpre Hd Hm. induction Hpre as [|x pre (rx & Px & Mx) _ IH]; cbn [app app_scan].
  - now rewrite Hd, Hm.
  - now rewrite Px, Mx.
Qed.

Lemma app_scan_bad i u pre d post f :
  Forall (nonmatching i u) pre -> (forall r, parse_flow_desc d (ue_text u) <> POk r) ->
  app_scan i u (pre ++ d :: post) f = (f, Some EBad).
Proof.
  intros Hpre Hd. induction Hpre as [|x pre (rx & Px & Mx) _ IH]; cbn [app app_scan].
  - destruct (parse_flow_desc d (ue_text u)) as [r0| | | |] eqn:E; try reflexivity. exfalso. now apply (Hd r0).
  - now rewrite Px, Mx.
Qed.

Lemma app_scan_none i u ds f : Forall (nonmatching i u) ds -> app_scan i u ds f = (f, None).
Proof. intros H. induction H as [|x ds (rx & Px & Mx) _ IH]; cbn [app_scan]; [reflexivity|]. now rewrite Px, Mx. Qed.

Lemma parse_pdr_app i u t id :
  parse_pdr i u t [IApp (Some id)] =
  match tbl_lookup id t with
  | None => Rejected
  | Some ds => Accepted (fst (app_scan i u ds (prefill i u)))
  end.
Proof.
  unfold parse_pdr. cbn [pdi_items]. unfold parse_application_id.
  destruct (tbl_lookup id t) as [ds|]; [|reflexivity].
  destruct (app_scan i u ds (prefill i u)) as [f [[|]|]] eqn:E; cbn [fst]; try reflexivity.
  (* app_scan never reports EOther *)
  exfalso. clear -E. revert E. generalize (prefill i u). induction ds as [|d ds IH]; intros f0 E; cbn [app_scan] in E.
  - discriminate.
  - destruct (parse_flow_desc d (ue_text u)); try discriminate.
    destruct (dir_matches i (r_dir a)); [discriminate|]. now apply IH in E.
Qed.

Theorem appid_verbatim t id pre a post i u :
  wf_ast a -> u < 2 ^ 32 ->
  tbl_lookup id t = Some (pre ++ render a :: post) ->
  Forall (nonmatching i u) pre -> dir_matches i (dir_tok (a_dir a)) = true ->
  parse_pdr i u t [IApp (Some id)] = Accepted (verbatim (denote a u) (prefill i u)).
Proof.
  intros Hwf Hu Hl Hpre Hm. rewrite parse_pdr_app, Hl.
  rewrite (app_scan_first i u pre (render a) post _ (denote a u)); [reflexivity|assumption| |exact Hm].
  unfold ue_text. now apply roundtrip.
Qed.

(* verbatim: source to packet source, destination to packet destination, ports alike *)
Lemma verbatim_fields r f :
  f_src_ip (verbatim r f) = net_ip (r_src r) /\ f_src_mask (verbatim r f) = net_mask (r_src r) /\
  f_dst_ip (verbatim r f) = net_ip (r_dst r) /\ f_dst_mask (verbatim r f) = net_mask (r_dst r) /\
  f_sports (verbatim r f) = r_sports r /\ f_dports (verbatim r f) = r_dports r.
Proof. repeat split. Qed.

Theorem appid_bad_description t id pre d post i u :
  tbl_lookup id t = Some (pre ++ d :: post) -> Forall (nonmatching i u) pre ->
  (forall r, parse_flow_desc d (ue_text u) <> POk r) ->
  parse_pdr i u t [IApp (Some id)] = Accepted (prefill i u).
Proof. intros Hl Hpre Hd. rewrite parse_pdr_app, Hl, app_scan_bad; auto. Qed.

Theorem appid_no_match t id ds i u :
  tbl_lookup id t = Some ds -> Forall (nonmatching i u) ds ->
  parse_pdr i u t [IApp (Some id)] = Accepted (prefill i u).
Proof. intros Hl H. rewrite parse_pdr_app, Hl, app_scan_none; auto. Qed.

Theorem appid_unknown t id i u : tbl_lookup id t = None -> parse_pdr i u t [IApp (Some id)] = Rejected.
Proof. intros Hl. now rewrite parse_pdr_app, Hl. Qed.

(* ================================================================== structurally malformed texts *)

Definition refused {A} (r : pres A) : Prop := r = PErrBad \/ r = PErrOther.

Definition is_kw (k : str) : Prop := k = K "from" \/ k = K "to".

Lemma kw_not_addr ue k : is_kw k -> parse_net (xform ue k) = None.
Proof. intros [-> | ->]; reflexivity. Qed.
Lemma kw_not_port k : is_kw k -> parse_port k = None.
Proof. intros [-> | ->]; reflexivity. Qed.

Lemma refused_nil_check r : refused r -> refused (nil_check r).
Proof. intros [-> | ->]; [now left|now right]. Qed.

(* a token list that ends in 'from' or 'to' (the address is missing) is never accepted *)
Lemma scan_dangling ue kw : is_kw kw ->
  forall n r st, (List.length r <= n)%nat -> refused (scan ue (r ++ [kw]) st).
Proof.
  intros Hkw. assert (Base : forall st, refused (scan ue [kw] st)).
  { intros st. destruct Hkw as [-> | ->]; now left. }
  induction n as [|n IH]; intros r st Hn.
  { destruct r; [apply Base|cbn in Hn; lia]. }
  destruct r as [|t r]; [apply Base|]. cbn [List.length] in Hn. cbn [app scan].
  destruct (leqb t (K "from")).
  { destruct r as [|a r2]; cbn [app].
    - rewrite (kw_not_addr ue kw Hkw). now right.
    - destruct (parse_net (xform ue a)) as [nn|]; [|now right].
      destruct r2 as [|p r3]; cbn [app].
      + destruct (leqb kw (K "to")); [apply Base|]. rewrite (kw_not_port kw Hkw). now right.
      + cbn [List.length] in Hn. destruct (leqb p (K "to")).
        * apply (IH (p :: r3)). cbn [List.length]. lia.
        * destruct (parse_port p); [|now right]. apply IH. lia. }
  destruct (leqb t (K "to")).
  { destruct r as [|a r2]; cbn [app].
    - rewrite (kw_not_addr ue kw Hkw). now right.
    - destruct (parse_net (xform ue a)) as [nn|]; [|now right].
      destruct r2 as [|p r3]; cbn [app].
      + rewrite (kw_not_port kw Hkw). now right.
      + cbn [List.length] in Hn. destruct (parse_port p); [|now right]. apply IH. lia. }
  apply IH. lia.
Qed.

(* without a 'from' token no source net is ever set; without 'to' no destination net *)
Lemma scan_no_from ue : forall n ts st, (List.length ts <= n)%nat -> ~ In (K "from") ts -> r_src st = None ->
  match scan ue ts st with POk st' => r_src st' = None | _ => True end.
Proof.
  induction n as [|n IH]; intros ts st Hn Hin Hs.
  { destruct ts; [exact Hs|cbn in Hn; lia]. }
  destruct ts as [|t r]; [exact Hs|]. cbn [List.length] in Hn. cbn [scan].
  replace (leqb t (K "from")) with false.
  2:{ symmetry. apply leqb_neq. intros ->. apply Hin. now left. }
  destruct (leqb t (K "to")).
  - destruct r as [|a r2]; [trivial|]. destruct (parse_net (xform ue a)) as [nn|]; [|trivial].
    destruct r2 as [|p r3]; [exact Hs|]. destruct (parse_port p); [|trivial].
    cbn [List.length] in Hn. apply IH; [lia| |exact Hs]. intros H. apply Hin. right. right. now right.
  - apply IH; [lia| |exact Hs]. intros H. apply Hin. now right.
Qed.

Lemma scan_no_to ue : forall n ts st, (List.length ts <= n)%nat -> ~ In (K "to") ts -> r_dst st = None ->
  match scan ue ts st with POk st' => r_dst st' = None | _ => True end.
Proof.
  induction n as [|n IH]; intros ts st Hn Hin Hs.
  { destruct ts; [exact Hs|cbn in Hn; lia]. }
  destruct ts as [|t r]; [exact Hs|]. cbn [List.length] in Hn. cbn [scan].
  destruct (leqb t (K "from")).
  - destruct r as [|a r2]; [trivial|]. destruct (parse_net (xform ue a)) as [nn|]; [|trivial].
    destruct r2 as [|p r3]; [exact Hs|]. cbn [List.length] in Hn.
    replace (leqb p (K "to")) with false.
    2:{ symmetry. apply leqb_neq. intros ->. apply Hin. right. right. now left. }
    destruct (parse_port p); [|trivial].
    apply IH; [lia| |exact Hs]. intros H. apply Hin. right. right. now right.
  - replace (leqb t (K "to")) with false.
    2:{ symmetry. apply leqb_neq. intros ->. apply Hin. now left. }
    apply IH; [lia| |exact Hs]. intros H. apply Hin. now right.
Qed.

Lemma refused_header a d p rest ue :
  refused (nil_check (scan ue rest (st0 a d p))) -> refused (parse_tokens (a :: d :: p :: rest) ue).
Proof.
  intros H. rewrite parse_tokens_scan.
  destruct (negb (parse_action a)); [now left|]. destruct (negb (parse_direction d)); [now left|]. exact H.
Qed.

(* The structural defects the property lists, for arbitrary surrounding tokens:
   too few tokens; unknown action; unknown direction; no from / no to clause; the text ends in the
   keyword (address missing); the token in address position does not parse as an address; the token
   in port position does not parse as a port or port range (this includes inverted ranges, see
   parse_port_inverted). [x], [y] are the tokens in address position, [q] in port position. *)
Inductive malformed (ue : str) : list str -> Prop :=
| M_short ts : (List.length ts < 3)%nat -> malformed ue ts
| M_action a r : parse_action a = false -> malformed ue (a :: r)
| M_direction a d r : parse_direction d = false -> malformed ue (a :: d :: r)
| M_no_from a d p r : ~ In (K "from") r -> malformed ue (a :: d :: p :: r)
| M_no_to a d p r : ~ In (K "to") r -> malformed ue (a :: d :: p :: r)
| M_dangling a d p r kw : is_kw kw -> malformed ue (a :: d :: p :: r ++ [kw])
| M_from_addr a d p x r : parse_net (xform ue x) = None -> malformed ue (a :: d :: p :: K "from" :: x :: r)
| M_from_port a d p x q r : q <> K "to" -> parse_port q = None ->
    malformed ue (a :: d :: p :: K "from" :: x :: q :: r)
| M_to_addr a d p x fp y r : fp = [] \/ (exists q, fp = [q] /\ q <> K "to") -> parse_net (xform ue y) = None ->
    malformed ue (a :: d :: p :: K "from" :: x :: fp ++ K "to" :: y :: r)
| M_to_port a d p x fp y q r : fp = [] \/ (exists q', fp = [q'] /\ q' <> K "to") -> parse_port q = None ->
    malformed ue (a :: d :: p :: K "from" :: x :: fp ++ K "to" :: y :: q :: r).

Theorem malformed_refused ue ts : malformed ue ts -> refused (parse_tokens ts ue).
Proof.
  intros H. destruct H.
  - left. now apply parse_tokens_short.
  - destruct r as [|d [|p rest]]; try (left; apply parse_tokens_short; cbn; lia).
    rewrite parse_tokens_scan, H. now left.
  - destruct r as [|p rest]; try (left; apply parse_tokens_short; cbn; lia).
    rewrite parse_tokens_scan, H. destruct (negb (parse_action a)); now left.
  - apply refused_header.
    pose proof (scan_no_from ue _ r (st0 a d p) (le_n _) H eq_refl) as S.
    destruct (scan ue r (st0 a d p)) as [st| | | |] eqn:E; cbn [nil_check].
    + rewrite S. now left.
    + now left.
    + now right.
    + pose proof (scan_benign ue _ r (st0 a d p) (le_n _)) as [B _]. congruence.
    + pose proof (scan_benign ue _ r (st0 a d p) (le_n _)) as [_ B]. congruence.
  - apply refused_header.
    pose proof (scan_no_to ue _ r (st0 a d p) (le_n _) H eq_refl) as S.
    destruct (scan ue r (st0 a d p)) as [st| | | |] eqn:E; cbn [nil_check].
    + rewrite S. destruct (r_src st); now left.
    + now left.
    + now right.
    + pose proof (scan_benign ue _ r (st0 a d p) (le_n _)) as [B _]. congruence.
    + pose proof (scan_benign ue _ r (st0 a d p) (le_n _)) as [_ B]. congruence.
  - apply refused_header, refused_nil_check. now apply (scan_dangling ue kw H _ r _ (le_n _)).
  - apply refused_header, refused_nil_check. cbn [scan]. rewrite from_from, H. now right.
  - apply refused_header, refused_nil_check. cbn [scan]. rewrite from_from.
    destruct (parse_net (xform ue x)); [|now right].
    replace (leqb q (K "to")) with false by (symmetry; now apply leqb_neq). rewrite H0. now right.
  - apply refused_header, refused_nil_check. cbn [scan]. rewrite from_from.
    destruct (parse_net (xform ue x)) as [nn|]; [|now right].
    destruct H as [-> | (q & -> & Hq)]; cbn [app].
    + rewrite to_to. cbn [scan]. rewrite to_from, to_to, H0. now right.
    + replace (leqb q (K "to")) with false by (symmetry; now apply leqb_neq).
      destruct (parse_port q); [|now right]. cbn [scan]. rewrite to_from, to_to, H0. now right.
  - apply refused_header, refused_nil_check. cbn [scan]. rewrite from_from.
    destruct (parse_net (xform ue x)) as [nn|]; [|now right].
    destruct H as [-> | (q' & -> & Hq)]; cbn [app].
    + rewrite to_to. cbn [scan]. rewrite to_from, to_to.
      destruct (parse_net (xform ue y)); [|now right]. rewrite H0. now right.
    + replace (leqb q' (K "to")) with false by (symmetry; now apply leqb_neq).
      destruct (parse_port q'); [|now right]. cbn [scan]. rewrite to_from, to_to.
      destruct (parse_net (xform ue y)); [|now right]. rewrite H0. now right.
Qed.

(* at the PDR: refused, or accepted with the filter the UE address alone gives *)
Theorem malformed_pdr i u t desc : malformed (ue_text u) (fields desc) ->
  parse_pdr i u t [ISdf (Some desc)] = Rejected \/ parse_pdr i u t [ISdf (Some desc)] = Accepted (prefill i u).
Proof.
  intros H. destruct desc as [|c desc]; [now left|]. right.
  rewrite parse_pdr_sdf by discriminate. unfold parse_flow_desc.
  destruct (malformed_refused _ _ H) as [-> | ->]; reflexivity.
Qed.

Theorem malformed_appid t id pre d post i u :
  tbl_lookup id t = Some (pre ++ d :: post) -> Forall (nonmatching i u) pre ->
  malformed (ue_text u) (fields d) ->
  parse_pdr i u t [IApp (Some id)] = Accepted (prefill i u).
Proof.
  intros Hl Hpre H. apply (appid_bad_description t id pre d post); auto.
  intros r E. unfold parse_flow_desc in E. destruct (malformed_refused _ _ H); congruence.
Qed.

(* ================================================================== PFD management *)

(* flow descriptions carried by a list of PFD Contents outcomes *)
Definition fds (cs : list (option str)) : list str :=
  flat_map (fun o => match o with Some d => [d] | None => [] end) cs.

(* the table a request carries: per Application ID's PFDs IE, in order (a later IE for the same id
   wins), the flow descriptions of ALL its PFD Contexts, in order *)
Definition ctx_children (c : option (list (option str))) : list (option str) :=
  match c with Some l => l | None => [] end.
Definition carried (a : app_ie) : list str := fds (List.concat (map ctx_children (a_ctxs a))).

Fixpoint table_of (req : list app_ie) (t : table) : table :=
  match req with
  | [] => t
  | a :: r =>
    match a_id a with
    | Some id => table_of r (tbl_set id (carried a) t)
    | None => t
    end
  end.

Lemma all_contents_some cs l : all_contents cs = Some l -> l = List.concat (map ctx_children cs).
Proof.
  revert l; induction cs as [|[c|] cs IH]; intros l H; cbn [all_contents] in H; [now injection H as <-| |discriminate].
  destruct (all_contents cs) as [l'|]; [|discriminate]. injection H as <-. cbn [map List.concat ctx_children].
  now rewrite (IH l' eq_refl).
Qed.

Lemma a_ctx_some a cs : a_ctx a = Some cs -> fds cs = carried a.
Proof.
  unfold a_ctx, carried. intros H. destruct (a_ctxs a) as [|c r] eqn:E; [discriminate|].
  now rewrite (all_contents_some _ _ H).
Qed.

Lemma fill_ok cs acc ds : fill cs acc = FillOk ds -> ds = acc ++ fds cs.
Proof.
  revert acc; induction cs as [|[[|c d]|] cs IH]; intros acc H; cbn [fill] in H; try discriminate.
  - injection H as <-. cbn. now rewrite app_nil_r.
  - apply IH in H. subst. cbn [fds flat_map]. now rewrite <- app_assoc.
Qed.

Lemma tbl_remove_idem k t : tbl_remove k (tbl_remove k t) = tbl_remove k t.
Proof.
  induction t as [|[k' v] t IH]; cbn [tbl_remove]; [reflexivity|].
  destruct (leqb k k') eqn:E; [exact IH|]. cbn [tbl_remove]. now rewrite E, IH.
Qed.

Lemma tbl_set_set k v w t : tbl_set k v (tbl_set k w t) = tbl_set k v t.
Proof. unfold tbl_set. cbn [tbl_remove]. now rewrite leqb_refl, tbl_remove_idem. Qed.

Lemma pfd_loop_rejected old : forall req new t, pfd_loop old new req = (t, false) -> t = old.
Proof.
  induction req as [|a r IH]; intros new t H; cbn [pfd_loop] in H; [discriminate|].
  destruct (a_id a) as [id|]; [|now injection H as <-].
  destruct (a_ctx a) as [cs|]; [|now injection H as <-].
  destruct (fill cs []); [now apply IH in H|now injection H as <-|now injection H as <-].
Qed.

Lemma pfd_loop_accepted old : forall req new t, pfd_loop old new req = (t, true) -> t = table_of req new.
Proof.
  induction req as [|a r IH]; intros new t H; cbn [pfd_loop table_of] in *; [now injection H as <-|].
  destruct (a_id a) as [id|]; [|discriminate].
  destruct (a_ctx a) as [cs|] eqn:C; [|discriminate].
  destruct (fill cs []) as [ds| |] eqn:F; [|discriminate|discriminate].
  apply fill_ok in F. cbn [app] in F. subst ds. rewrite tbl_set_set in H.
  rewrite (a_ctx_some a cs C) in H. now apply IH in H.
Qed.

Theorem pfd_rollback old req t : handle_pfd old req = (t, false) -> t = old.
Proof. apply pfd_loop_rejected. Qed.

(* accepted: the table afterwards is exactly the table the request carries - nothing of the previous
   table survives, nothing of the request is lost *)
Theorem pfd_replace old req t : handle_pfd old req = (t, true) -> t = table_of req [].
Proof. apply pfd_loop_accepted. Qed.

(* the decision: accepted exactly when every IE has an id and at least one PFD Context, every context
   is readable and every child of every context decodes to a non-empty flow description *)
Definition child_ok (o : option str) : bool := match o with Some (_ :: _) => true | _ => false end.
Definition app_ok (a : app_ie) : bool :=
  match a_id a, a_ctx a with Some _, Some cs => forallb child_ok cs | _, _ => false end.

Lemma fill_total cs acc : (exists ds, fill cs acc = FillOk ds) <-> forallb child_ok cs = true.
Proof.
  revert acc; induction cs as [|[[|c d]|] cs IH]; intros acc; cbn [fill forallb child_ok andb].
  - split; eauto.
  - split; [intros (ds & H); discriminate|discriminate].
  - apply IH.
  - split; [intros (ds & H); discriminate|discriminate].
Qed.

Theorem pfd_accept_iff old req : snd (handle_pfd old req) = true <-> forallb app_ok req = true.
Proof.
  unfold handle_pfd. generalize (@nil (str * list str)) as new.
  induction req as [|a r IH]; intros new; cbn [pfd_loop forallb]; [tauto|]. unfold app_ok at 1.
  destruct (a_id a) as [id|]; [|cbn; split; discriminate].
  destruct (a_ctx a) as [cs|]; [|cbn; split; discriminate].
  destruct (fill cs []) as [ds| |] eqn:F.
  - assert (forallb child_ok cs = true) as -> by (apply (fill_total cs []); eauto). cbn [andb]. apply IH.
  - assert (forallb child_ok cs = false) as ->.
    { destruct (forallb child_ok cs) eqn:E; [|reflexivity]. apply (fill_total cs []) in E as (ds & E). congruence. }
    cbn. split; discriminate.
  - assert (forallb child_ok cs = false) as ->.
    { destruct (forallb child_ok cs) eqn:E; [|reflexivity]. apply (fill_total cs []) in E as (ds & E). congruence. }
    cbn. split; discriminate.
Qed.

(* two PFD Contexts for one application: both flow descriptions are provisioned, in order, and an
   access PDR naming the application gets, verbatim, the 'out' description of the second context *)
Definition req2 : list app_ie :=
  [AppIE (Some (K "app1")) [Some [Some (K "permit in ip from any to assigned")];
                            Some [Some (K "permit out udp from 1.2.3.4 80 to assigned")]]].

Lemma pfd_two_contexts :
  handle_pfd [] req2 = ([(K "app1", [K "permit in ip from any to assigned"; K "permit out udp from 1.2.3.4 80 to assigned"])], true)
  /\ parse_pdr Access 167772161 (fst (handle_pfd [] req2)) [IApp (Some (K "app1"))] =
     Accepted (AF 16909060 167772161 (PR 80 80) (PR 0 65535) 17 4294967295 4294967295 255).
Proof. split; vm_compute; reflexivity. Qed.

(* an unreadable later PFD Context: rejected, previous table kept *)
Lemma pfd_unreadable_context old :
  handle_pfd old [AppIE (Some (K "app1")) [Some [Some (K "permit in ip from any to assigned")]; None]] = (old, false).
Proof. reflexivity. Qed.
