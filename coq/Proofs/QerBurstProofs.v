(* C09 - calcBurstSizeFromRate in binary64 against the exact value, with Flocq.
   burst_ge_guarded: for every 40-bit rate and every duration whose binary64 quotient ms/1000 does
   not round below ms/1000 (boolean guard ratio_ok, evaluated on primitive floats), the truncated
   float product is at least floor(kbps*125*ms/1000), provided the product stays within binary64's
   integer range.  The default duration (10 ms, also the UP4 constant) satisfies the guard.
   The proof goes through the reals (Flocq's Bmult_correct / Bdiv_correct, monotonicity of rounding),
   hence Print Assumptions lists the axioms of Coq's classical reals next to the primitive
   float / int operations and their specifications. *)
From Coq Require Import NArith ZArith Bool Reals Floats Uint63 Lia Lra Psatz.
From Flocq Require Import Core.Core IEEE754.BinarySingleNaN IEEE754.PrimFloat.
From UPF Require Import Model.Qer.
Open Scope R_scope.

Notation fexp64 := (fexp prec emax).
#[local] Instance vexp64 : Valid_exp fexp64 := fexp_correct prec emax Hprec.
Definition R_of (f : PrimFloat.float) : R := B2R (Prim2B f).
Definition fin (f : PrimFloat.float) : bool := is_finite (Prim2B f).

Lemma fmt_int : forall m e : Z, (Z.abs m < 2 ^ 53)%Z -> (-1074 <= e)%Z -> generic_format radix2 fexp64 (F2R (Float radix2 m e)).
Proof.
  intros m e Hm He. apply generic_format_FLT. apply (FLT_spec _ _ _ _ (Float radix2 m e)); [reflexivity|exact Hm|exact He].
Qed.
Lemma fmt_Z : forall m : Z, (Z.abs m < 2 ^ 53)%Z -> generic_format radix2 fexp64 (IZR m).
Proof.
  intros m H. replace (IZR m) with (F2R (Float radix2 m 0)) by (unfold F2R; simpl; ring). apply fmt_int; [exact H|lia].
Qed.

Lemma bpow53 : bpow radix2 53 = IZR (2 ^ 53).
Proof. rewrite <- (IZR_Zpower radix2 53) by lia. reflexivity. Qed.

Lemma small_lt_emax : forall x, Rabs x < bpow radix2 53 -> Rlt_bool (Rabs x) (bpow radix2 emax) = true.
Proof.
  intros x H. apply Rlt_bool_true. eapply Rlt_le_trans; [exact H|]. apply bpow_le. unfold emax. lia.
Qed.
Lemma small_Z : forall m : Z, (Z.abs m < 2 ^ 53)%Z -> Rabs (IZR m) < bpow radix2 53.
Proof. intros m H. rewrite <- abs_IZR, bpow53. now apply IZR_lt. Qed.

Lemma of_int_exact : forall n : Z, (0 <= n < 2 ^ 53)%Z ->
  fin (of_uint63 (Uint63.of_Z n)) = true /\ R_of (of_uint63 (Uint63.of_Z n)) = IZR n.
Proof.
  intros n Hn. unfold fin, R_of. rewrite of_int63_equiv.
  assert (Hz : Uint63.to_Z (Uint63.of_Z n) = n).
  { rewrite Uint63.of_Z_spec. apply Z.mod_small. change wB with (2 ^ 63)%Z. lia. }
  rewrite Hz.
  pose proof (binary_normalize_correct prec emax Hprec Hmax mode_NE n 0 false) as C. cbv zeta in C.
  replace (F2R (Float radix2 n 0)) with (IZR n) in C by (unfold F2R; simpl; ring).
  rewrite round_generic in C; [|auto with typeclass_instances|apply fmt_Z; lia].
  rewrite small_lt_emax in C by (apply small_Z; lia). destruct C as (C1 & C2 & _). now split.
Qed.

Lemma mul_exact : forall a b (p q : Z), fin a = true -> fin b = true -> R_of a = IZR p -> R_of b = IZR q ->
  (Z.abs (p * q) < 2 ^ 53)%Z -> fin (a * b)%float = true /\ R_of (a * b)%float = IZR (p * q).
Proof.
  intros a b p q Fa Fb Ra Rb Hpq. unfold fin, R_of in *. rewrite mul_equiv.
  pose proof (Bmult_correct prec emax Hprec Hmax mode_NE (Prim2B a) (Prim2B b)) as C.
  rewrite Ra, Rb, <- mult_IZR in C.
  rewrite round_generic in C; [|auto with typeclass_instances|apply fmt_Z; exact Hpq].
  rewrite small_lt_emax in C by (apply small_Z; exact Hpq). destruct C as (C1 & C2 & _).
  rewrite C2, Fa, Fb. now split.
Qed.

Lemma div_exact : forall a b (p q r : Z), fin a = true -> R_of a = IZR p -> R_of b = IZR q -> q <> 0%Z -> p = (q * r)%Z ->
  (Z.abs r < 2 ^ 53)%Z -> fin (a / b)%float = true /\ R_of (a / b)%float = IZR r.
Proof.
  intros a b p q r Fa Ra Rb Hq Hp Hr. unfold fin, R_of in *. rewrite div_equiv.
  assert (Hq' : B2R (Prim2B b) <> 0) by (rewrite Rb; now apply not_0_IZR).
  pose proof (Bdiv_correct prec emax Hprec Hmax mode_NE (Prim2B a) (Prim2B b) Hq') as C.
  rewrite Ra, Rb in C.
  replace (IZR p / IZR q) with (IZR r) in C by (subst p; rewrite mult_IZR; field; now apply not_0_IZR).
  rewrite round_generic in C; [|auto with typeclass_instances|apply fmt_Z; exact Hr].
  rewrite small_lt_emax in C by (apply small_Z; exact Hr). destruct C as (C1 & C2 & _).
  rewrite C2, Fa. now split.
Qed.

(* a product is at least any representable number below the exact product *)
Lemma mul_lower : forall a b lo, fin a = true -> fin b = true -> generic_format radix2 fexp64 lo ->
  0 <= lo <= R_of a * R_of b -> R_of a * R_of b <= bpow radix2 52 ->
  fin (a * b)%float = true /\ lo <= R_of (a * b)%float.
Proof.
  intros a b lo Fa Fb Glo [H0 Hlo] Hup. unfold fin, R_of in *. rewrite mul_equiv.
  pose proof (Bmult_correct prec emax Hprec Hmax mode_NE (Prim2B a) (Prim2B b)) as C.
  set (x := B2R (Prim2B a) * B2R (Prim2B b)) in *.
  assert (Hge : lo <= round radix2 fexp64 (round_mode mode_NE) x).
  { apply round_ge_generic; auto with typeclass_instances. }
  assert (Hle : round radix2 fexp64 (round_mode mode_NE) x <= bpow radix2 52).
  { apply round_le_generic; auto with typeclass_instances. apply generic_format_bpow. unfold fexp, FLT_exp, emin, emax, prec. lia. }
  rewrite small_lt_emax in C.
  - destruct C as (C1 & C2 & _). rewrite C1, C2, Fa, Fb. now split.
  - rewrite Rabs_pos_eq by lra. eapply Rle_lt_trans; [exact Hle|]. apply bpow_lt. lia.
Qed.

(* Prim2SF gives the real value *)
Lemma R_of_SF : forall f m e, Prim2SF f = S754_finite false m e -> R_of f = IZR (Zpos m) * bpow radix2 e.
Proof.
  intros f m e H. unfold R_of. rewrite <- B2SF_Prim2B in H.
  destruct (Prim2B f) as [s|s| |s m' e' Hb]; cbn in H; try discriminate. injection H as -> -> ->.
  cbn. unfold F2R. cbn. reflexivity.
Qed.
Lemma R_of_SF_zero : forall f s, Prim2SF f = S754_zero s -> R_of f = 0.
Proof.
  intros f s H. unfold R_of. rewrite <- B2SF_Prim2B in H.
  destruct (Prim2B f) as [s'|s'| |s' m' e' Hb]; cbn in H; try discriminate. reflexivity.
Qed.

Lemma R_of_SF_gen : forall f s m e, Prim2SF f = S754_finite s m e -> R_of f = IZR (cond_Zopp s (Zpos m)) * bpow radix2 e /\ fin f = true.
Proof.
  intros f s m e H. unfold R_of, fin. rewrite <- B2SF_Prim2B in H.
  destruct (Prim2B f) as [s'|s'| |s' m' e' Hb]; cbn in H; try discriminate. injection H as -> -> ->.
  split; [|reflexivity]. cbn. unfold F2R. cbn. reflexivity.
Qed.
Lemma fin_SF_inf : forall f s, Prim2SF f = S754_infinity s -> fin f = false.
Proof.
  intros f s H. unfold fin. rewrite <- B2SF_Prim2B in H.
  destruct (Prim2B f) as [s'|s'| |s' m' e' Hb]; cbn in H; try discriminate. reflexivity.
Qed.
Lemma fin_SF_nan : forall f, Prim2SF f = S754_nan -> fin f = false.
Proof.
  intros f H. unfold fin. rewrite <- B2SF_Prim2B in H.
  destruct (Prim2B f) as [s'|s'| |s' m' e' Hb]; cbn in H; try discriminate. reflexivity.
Qed.



(* ------------------------------------------------------------------ the guarded lower bound *)
(* the binary64 quotient ms/1000, read back exactly: it is not below ms/1000 (and not above (ms+1)/1000) *)
Definition ratio_ok (ms : N) : bool :=
  match Prim2SF (f_of_N ms / 1000)%float with
  | S754_finite false m (Zneg p) => andb (ms * 2 ^ N.pos p <=? N.pos m * 1000)%N (N.pos m * 1000 <=? (ms + 1) * 2 ^ N.pos p)%N
  | _ => false
  end.

Lemma k125 : forall k : N, (k < 2 ^ 40)%N ->
  fin (f_of_N k * 1000 / 8)%float = true /\ R_of (f_of_N k * 1000 / 8)%float = IZR (Z.of_N k * 125).
Proof.
  intros k Hk. assert (Hk' : (0 <= Z.of_N k < 2 ^ 40)%Z) by (change (2 ^ 40)%N with 1099511627776%N in Hk; lia).
  assert (E0 : f_of_N k = of_uint63 (Uint63.of_Z (Z.of_N k))).
  { unfold f_of_N, f_of_N63. replace (k <? 2 ^ 63)%N with true; [reflexivity|].
    symmetry. apply N.ltb_lt. change (2 ^ 63)%N with 9223372036854775808%N. change (2 ^ 40)%N with 1099511627776%N in Hk. lia. }
  destruct (of_int_exact (Z.of_N k)) as [F0 R0]; [lia|]. rewrite <- E0 in F0, R0.
  assert (E1 : 1000%float = of_uint63 (Uint63.of_Z 1000)) by (vm_compute; reflexivity).
  destruct (of_int_exact 1000) as [F1 R1]; [lia|]. rewrite <- E1 in F1, R1.
  assert (E8 : 8%float = of_uint63 (Uint63.of_Z 8)) by (vm_compute; reflexivity).
  destruct (of_int_exact 8) as [F8 R8]; [lia|]. rewrite <- E8 in F8, R8.
  destruct (mul_exact (f_of_N k) 1000 (Z.of_N k) 1000 F0 F1 R0 R1) as [F2 R2]; [lia|].
  apply (div_exact _ 8 (Z.of_N k * 1000) 8 (Z.of_N k * 125) F2 R2 R8); lia.
Qed.

Lemma bpow_neg : forall p, bpow radix2 (Z.neg p) = / IZR (2 ^ Z.pos p).
Proof.
  intros p. replace (IZR (2 ^ Z.pos p)) with (bpow radix2 (Z.pos p)) by (rewrite <- (IZR_Zpower radix2 (Z.pos p)); [reflexivity|lia]).
  change (Z.neg p) with (- Z.pos p)%Z. apply bpow_opp.
Qed.
Lemma bpow_pos : forall p, bpow radix2 (Z.pos p) = IZR (2 ^ Z.pos p).
Proof. intros p. rewrite <- (IZR_Zpower radix2 (Z.pos p)); [reflexivity|lia]. Qed.

(* truncation of a finite non-negative float is at least any integer below its value *)
Lemma trunc_ge : forall r (u : N), fin r = true -> IZR (Z.of_N u) <= R_of r -> (u <= 2 ^ 63)%N -> (u <= go_u64_of_float r)%N.
Proof.
  intros r u Fr Rr Hu63. unfold go_u64_of_float, f_trunc. destruct (Prim2SF r) as [s|s| |s m e] eqn:E.
  - apply R_of_SF_zero in E. rewrite E in Rr. apply (le_IZR _ 0) in Rr. cbn. lia.
  - apply fin_SF_inf in E. congruence.
  - apply fin_SF_nan in E. congruence.
  - apply R_of_SF_gen in E. destruct E as [E _]. destruct s; cbn [cond_Zopp] in E; rewrite E in Rr.
    + assert (0 < bpow radix2 e) by apply bpow_gt_0.
      assert (IZR (- Z.pos m) < 0) by (apply (IZR_lt _ 0); lia).
      assert (IZR (- Z.pos m) * bpow radix2 e < 0) by (rewrite <- (Rmult_0_l (bpow radix2 e)); apply Rmult_lt_compat_r; assumption).
      assert (IZR (Z.of_N u) < 0) by lra. apply (lt_IZR _ 0) in H2. lia.
    + assert (G : (u <= match e with Z0 => N.pos m | Zpos p => N.pos m * 2 ^ N.pos p | Zneg p => N.pos m / 2 ^ N.pos p end)%N).
      { destruct e as [|p|p].
        - cbn [bpow] in Rr. rewrite Rmult_1_r in Rr. apply le_IZR in Rr. lia.
        - rewrite bpow_pos, <- mult_IZR in Rr. apply le_IZR in Rr.
          assert (Z.of_N (N.pos m * 2 ^ N.pos p) = Z.pos m * 2 ^ Z.pos p)%Z by (rewrite N2Z.inj_mul, N2Z.inj_pow; reflexivity). lia.
        - rewrite bpow_neg in Rr. assert (Pp : 0 < IZR (2 ^ Z.pos p)) by (apply (IZR_lt 0); lia).
          assert (H : IZR (Z.of_N u * 2 ^ Z.pos p) <= IZR (Z.pos m)).
          { rewrite mult_IZR. apply Rmult_le_reg_r with (/ IZR (2 ^ Z.pos p)); [now apply Rinv_0_lt_compat|].
            rewrite Rmult_assoc, Rinv_r by lra. lra. }
          apply le_IZR in H. apply N.div_le_lower_bound; [apply N.pow_nonzero; discriminate|].
          assert (Z.of_N (2 ^ N.pos p * u) = 2 ^ Z.pos p * Z.of_N u)%Z by (rewrite N2Z.inj_mul, N2Z.inj_pow; reflexivity). lia. }
      destruct (_ <? 2 ^ 64)%N; [exact G|exact Hu63].
Qed.

Theorem burst_ge_guarded : forall k ms : N, (k < 2 ^ 40)%N -> ratio_ok ms = true -> (k * 125 * (ms + 1) <= 1000 * 2 ^ 52)%N ->
  (burst_exact k ms <= calc_burst k ms)%N.
Proof.
  intros k ms Hk Hr Hb. assert (Hk' : (0 <= Z.of_N k < 2 ^ 40)%Z) by (change (2 ^ 40)%N with 1099511627776%N in Hk; lia).
  destruct (k125 k Hk) as [Fa Ra]. set (a := (f_of_N k * 1000 / 8)%float) in *.
  unfold ratio_ok in Hr. set (c := (f_of_N ms / 1000)%float) in *.
  destruct (Prim2SF c) as [s|s| |s m e] eqn:Ec; try discriminate. destruct s; [discriminate|]. destruct e as [|p|p]; try discriminate.
  apply andb_true_iff in Hr. destruct Hr as [Hlo Hhi]. apply N.leb_le in Hlo, Hhi.
  apply R_of_SF_gen in Ec. destruct Ec as [Rc Fc]. cbn [cond_Zopp] in Rc. rewrite bpow_neg in Rc.
  set (u := burst_exact k ms).
  set (K := (Z.of_N k * 125)%Z) in *. set (Q := (2 ^ Z.pos p)%Z) in *. set (M := Z.pos m) in *. set (S := Z.of_N ms).
  assert (HQ : (0 < Q)%Z) by (unfold Q; lia).
  assert (HK : (0 <= K)%Z) by (unfold K; lia).
  assert (Hlo' : (S * Q <= M * 1000)%Z).
  { unfold S, Q, M. replace (2 ^ Z.pos p)%Z with (Z.of_N (2 ^ N.pos p)) by (rewrite N2Z.inj_pow; reflexivity). lia. }
  assert (Hhi' : (M * 1000 <= (S + 1) * Q)%Z).
  { unfold S, Q, M. replace (2 ^ Z.pos p)%Z with (Z.of_N (2 ^ N.pos p)) by (rewrite N2Z.inj_pow; reflexivity). lia. }
  assert (Hb' : (K * (S + 1) <= 1000 * 2 ^ 52)%Z).
  { unfold K, S. change (2 ^ 52)%N with 4503599627370496%N in Hb. change (2 ^ 52)%Z with 4503599627370496%Z. lia. }
  assert (Hu : (Z.of_N u * 1000 <= K * S)%Z).
  { unfold u, burst_exact, K, S. zify. Z.to_euclidean_division_equations. lia. }
  assert (Hu0 : (0 <= Z.of_N u)%Z) by lia. assert (HS : (0 <= S)%Z) by (unfold S; lia).
  (* integer facts: u * Q <= K * M and K * M <= 2^52 * Q *)
  assert (I1 : (Z.of_N u * Q <= K * M)%Z).
  { assert (Z.of_N u * 1000 * Q <= K * S * Q)%Z by (apply Z.mul_le_mono_nonneg_r; lia).
    assert (K * (S * Q) <= K * (M * 1000))%Z by (apply Z.mul_le_mono_nonneg_l; lia). nia. }
  assert (I2 : (K * M <= 2 ^ 52 * Q)%Z).
  { assert (K * (M * 1000) <= K * ((S + 1) * Q))%Z by (apply Z.mul_le_mono_nonneg_l; lia).
    assert (K * (S + 1) * Q <= 1000 * 2 ^ 52 * Q)%Z by (apply Z.mul_le_mono_nonneg_r; lia). nia. }
  assert (Hu52 : (Z.of_N u <= 2 ^ 52)%Z) by nia.
  assert (PQ : 0 < IZR Q) by (apply (IZR_lt 0); exact HQ).
  assert (Hprod : R_of a * R_of c = IZR (K * M) / IZR Q).
  { rewrite Ra, Rc, mult_IZR. unfold M. field. lra. }
  destruct (mul_lower a c (IZR (Z.of_N u)) Fa Fc) as [Fr Rr].
  - apply fmt_Z. change (2 ^ 52)%Z with 4503599627370496%Z in Hu52. change (2 ^ 53)%Z with 9007199254740992%Z. lia.
  - rewrite Hprod. split; [apply (IZR_le 0); lia|].
    apply Rmult_le_reg_r with (IZR Q); [exact PQ|]. unfold Rdiv. rewrite Rmult_assoc, Rinv_l, Rmult_1_r by lra.
    rewrite <- mult_IZR. apply IZR_le. exact I1.
  - rewrite Hprod. apply Rmult_le_reg_r with (IZR Q); [exact PQ|]. unfold Rdiv. rewrite Rmult_assoc, Rinv_l, Rmult_1_r by lra.
    rewrite <- (IZR_Zpower radix2 52) by lia. rewrite <- mult_IZR. apply IZR_le. exact I2.
  - unfold calc_burst, calc_burst_f. fold c. fold a. apply trunc_ge; [exact Fr|exact Rr|].
    change (2 ^ 63)%N with 9223372036854775808%N. change (2 ^ 52)%Z with 4503599627370496%Z in Hu52. lia.
Qed.

Lemma ratio_ok_10 : ratio_ok 10 = true.
Proof. vm_compute. reflexivity. Qed.

Theorem burst_10ms_ge : forall k : N, (k < 2 ^ 40)%N -> (burst_exact k 10 <= calc_burst k 10)%N.
Proof.
  intros k Hk. apply burst_ge_guarded; [exact Hk|exact ratio_ok_10|].
  change (2 ^ 40)%N with 1099511627776%N in Hk. change (2 ^ 52)%N with 4503599627370496%N. lia.
Qed.

(* ------------------------------------------------------------------ the burst sentence under the guard *)
From UPF Require Import Proofs.QerProofs.
From Coq Require Import List.
Import ListNotations.

(* a burst duration for which the float product is safe for every 40-bit rate *)
Definition dur_ok (d : N) : bool := andb (ratio_ok d) (d <? 32768)%N.

Lemma burst_ge_dur : forall k d : N, (k < 2 ^ 40)%N -> dur_ok d = true -> (burst_exact k d <= calc_burst k d)%N.
Proof.
  intros k d Hk Hd. unfold dur_ok in Hd. apply andb_true_iff in Hd. destruct Hd as [Hr Hd]. apply N.ltb_lt in Hd.
  apply burst_ge_guarded; [exact Hk|exact Hr|].
  change (2 ^ 40)%N with 1099511627776%N in Hk. change (2 ^ 52)%N with 4503599627370496%N. nia.
Qed.

Lemma c09_burst_partial : forall conf q, lvl_ok q -> r40 q ->
  exists c1 c2, add_qer conf q = [c1; c2] /\ bursts_min conf q c1 c2 /\
                (dur_ok (c_dur (cfg_for conf (q_qfi q))) = true -> bursts_cover conf q c1 c2).
Proof.
  intros conf q Hl (H1 & H2 & H3 & H4). exists (ul_cmd conf q), (dl_cmd conf q).
  split; [now apply add_qer_two|]. split; [apply bursts_min_cmds|]. intros Hd.
  pose proof (bursts_rate_cmds conf q) as B. cbv zeta in B. destruct B as (B1 & B2 & B3 & B4 & B5 & B6).
  unfold bursts_cover. cbv zeta.
  repeat split; (eapply N.le_trans; [apply burst_ge_dur; [|exact Hd]|]); eassumption.
Qed.

(* UP4: the burst duration is the constant 10 ms, so the sentence holds outright *)
Lemma c09_up4_burst : forall mbr gbr, (mbr < 2 ^ 40)%N ->
  (burst_exact mbr 10 <= m_pburst (up4_meter_cfg mbr gbr))%N.
Proof. intros mbr gbr H. unfold up4_meter_cfg. cbn [m_pburst]. now apply burst_10ms_ge. Qed.

Lemma dur_ok_examples : dur_ok 10 = true /\ dur_ok 1 = true /\ dur_ok 1000 = true /\ dur_ok 20 = true /\ dur_ok 87 = false.
Proof. repeat split; vm_compute; reflexivity. Qed.
