(* Lemmas for C11 (Props/C11.v): the lockset discipline, commutation of key-disjoint command lists
   over the tables of the agent model, interleavings, the shared allocators, the SEID collision. *)
From Coq Require Import String List Bool Arith NArith Lia ZifyN ZifyNat ZifyBool.
From UPF Require Import Model.IPPool Model.Fteid Model.PortRange Model.Agent Model.Locks
     Proofs.FteidProofs Proofs.IPPoolProofs Proofs.AgentProofs.
Import ListNotations.

(* ------------------------------------------------------------------ lockset discipline *)
Lemma mem_s_In x l : mem_s x l = true <-> In x l.
Proof.
  unfold mem_s. rewrite existsb_exists. split.
  - intros (y & Hy & E). apply String.eqb_eq in E. subst. exact Hy.
  - intros H. exists x. split; [exact H|apply String.eqb_refl].
Qed.

Lemma may_par_spec a1 a2 : may_par a1 a2 = true <-> may_run_concurrently a1 a2.
Proof.
  unfold may_par, may_run_concurrently. rewrite !andb_true_iff, existsb_exists. split.
  - intros [[L1 L2] (c1 & I1 & H)]. apply existsb_exists in H. destruct H as (c2 & I2 & H).
    unfold par_classes in H. rewrite !andb_true_iff, orb_true_iff, negb_true_iff in H.
    destruct H as [[R1 R2] H]. repeat split; try assumption. exists c1, c2. repeat split; try assumption.
    destruct H as [H|H]; [left|right; exact H]. intros E. rewrite E, String.eqb_refl in H. discriminate.
  - intros (L1 & L2 & c1 & c2 & I1 & I2 & R1 & R2 & H). split; [split; assumption|].
    exists c1. split; [exact I1|]. apply existsb_exists. exists c2. split; [exact I2|].
    unfold par_classes. rewrite R1, R2. cbn [andb]. destruct H as [H|H].
    + apply String.eqb_neq in H. rewrite H. reflexivity.
    + rewrite H. apply orb_true_r.
Qed.

Lemma lockset_pair t a1 a2 : lockset_ok t = true -> In a1 t -> In a2 t -> pair_ok a1 a2 = true.
Proof.
  intros H I1 I2. unfold lockset_ok in H. rewrite forallb_forall in H. specialize (H a1 I1).
  rewrite forallb_forall in H. exact (H a2 I2).
Qed.

(* data-race freedom in the lockset sense *)
Lemma lockset_drf t : lockset_ok t = true ->
  forall a1 a2, In a1 t -> In a2 t -> a_field a1 = a_field a2 -> (a_rw a1 = W \/ a_rw a2 = W) ->
  may_run_concurrently a1 a2 -> exists l, In l (a_locks a1) /\ In l (a_locks a2).
Proof.
  intros H a1 a2 I1 I2 Ef Hw Hp. pose proof (lockset_pair _ _ _ H I1 I2) as P.
  unfold pair_ok in P. assert (conflict a1 a2 = true) as C.
  { unfold conflict. rewrite Ef, String.eqb_refl. apply may_par_spec in Hp. rewrite Hp.
    unfold is_w. destruct Hw as [-> | ->]; [reflexivity|]. destruct (a_rw a1); reflexivity. }
  rewrite C in P. cbn [implb] in P. unfold common_lock in P. apply existsb_exists in P.
  destruct P as (l & Il & M). exists l. split; [exact Il|]. apply mem_s_In. exact M.
Qed.

(* no assignment of locks to goroutines lets two different goroutines stand at conflicting accesses *)
Lemma lockset_exclusion t : lockset_ok t = true ->
  forall (h : holders) g1 g2 a1 a2, g1 <> g2 -> In a1 t -> In a2 t -> a_field a1 = a_field a2 ->
  (a_rw a1 = W \/ a_rw a2 = W) -> may_run_concurrently a1 a2 ->
  stands_at h g1 a1 -> stands_at h g2 a2 -> False.
Proof.
  intros H h g1 g2 a1 a2 Hne I1 I2 Ef Hw Hp S1 S2.
  destruct (lockset_drf t H a1 a2 I1 I2 Ef Hw Hp) as (l & L1 & L2).
  specialize (S1 l L1). specialize (S2 l L2). rewrite S1 in S2. inversion S2. contradiction.
Qed.

(* what the boolean atomic-region check establishes *)
Lemma atomic_ok_spec reqs t : atomic_ok reqs t = true ->
  forall f need, In (f, need) reqs ->
  exists a, In a t /\ af_func a = f /\ af_covered a = true /\ (0 < af_accesses a)%nat /\ (need = true -> af_dp_inside a = true).
Proof.
  unfold atomic_ok. rewrite forallb_forall. intros H f need Hin. specialize (H _ Hin).
  apply existsb_exists in H. destruct H as (a & Ia & M). unfold meets in M. cbn [fst snd] in M.
  rewrite !andb_true_iff in M. destruct M as [[[E C] L] D]. apply String.eqb_eq in E. apply Nat.ltb_lt in L.
  exists a. repeat split; try assumption. intros ->. cbn in D. exact D.
Qed.

Lemma dedup_In x l : In x (dedup l) -> In x l.
Proof.
  induction l as [|y r IH]; [intros []|]. cbn [dedup]. destruct (mem_s y r).
  - intros H. right. apply IH. exact H.
  - intros [<-|H]; [left; reflexivity|right; apply IH; exact H].
Qed.
Lemma dedup_nil l : dedup l = [] -> l = [].
Proof.
  induction l as [|y r IH]; [reflexivity|]. cbn [dedup]. destruct (mem_s y r) eqn:E; [|discriminate].
  intros H. rewrite (IH H) in E. discriminate.
Qed.

Lemma forallb_false_ex {A} (f : A -> bool) l : forallb f l = false -> exists x, In x l /\ f x = false.
Proof.
  induction l as [|y r IH]; [discriminate|]. cbn [forallb]. destruct (f y) eqn:E.
  - intros H. destruct (IH H) as (x & I & F). exists x. split; [right; exact I|exact F].
  - intros _. exists y. split; [left; reflexivity|exact E].
Qed.

(* every field reported by [bad_fields] has a witness pair: a conflict without a common lock *)
Lemma bad_field_witness t f : In f (bad_fields t) ->
  exists a1 a2, In a1 t /\ In a2 t /\ a_field a1 = f /\ a_field a2 = f /\ (a_rw a1 = W \/ a_rw a2 = W) /\
                may_run_concurrently a1 a2 /\ forall l, In l (a_locks a1) -> ~ In l (a_locks a2).
Proof.
  unfold bad_fields. intros H. apply dedup_In in H. apply in_map_iff in H. destruct H as (a1 & Ef & H).
  apply filter_In in H. destruct H as [I1 H]. apply negb_true_iff in H.
  destruct (forallb_false_ex _ _ H) as (a2 & I2 & P). unfold pair_ok in P.
  destruct (conflict a1 a2) eqn:C; [|discriminate]. cbn [implb] in P. unfold conflict in C.
  rewrite !andb_true_iff in C. destruct C as [[E Wr] Pp]. apply String.eqb_eq in E.
  exists a1, a2. split; [exact I1|]. split; [exact I2|]. split; [exact Ef|]. split; [congruence|].
  split; [|split].
  - unfold is_w in Wr. destruct (a_rw a1); [|left; reflexivity]. destruct (a_rw a2); [discriminate|right; reflexivity].
  - apply may_par_spec. exact Pp.
  - intros l L1 L2. unfold common_lock in P. assert (existsb (fun l => mem_s l (a_locks a2)) (a_locks a1) = true) as X.
    { apply existsb_exists. exists l. split; [exact L1|apply mem_s_In; exact L2]. }
    rewrite X in P. discriminate.
Qed.

Lemma bad_fields_nil t : bad_fields t = [] -> lockset_ok t = true.
Proof.
  unfold bad_fields, lockset_ok. intros H. apply dedup_nil in H. apply map_eq_nil in H.
  apply forallb_forall. intros a Ia. destruct (forallb (pair_ok a) t) eqn:E; [reflexivity|].
  assert (In a (filter (fun a1 => negb (forallb (pair_ok a1) t)) t)) as X.
  { apply filter_In. split; [exact Ia|]. rewrite E. reflexivity. }
  rewrite H in X. destruct X.
Qed.

(* ------------------------------------------------------------------ tables: commutation *)
Local Open Scope N_scope.

Lemma tab_of_eq m t : tab_of m t = tab m t.
Proof. reflexivity. Qed.

Lemma module_eqb_eq a b : module_eqb a b = true <-> a = b.
Proof. destruct a, b; cbn; split; intros H; try reflexivity; try discriminate. Qed.

Lemma same_slot_sym c1 c2 : same_slot c1 c2 = same_slot c2 c1.
Proof.
  unfold same_slot. rewrite (key_eqb_sym (c_key c1)). f_equal.
  destruct (c_mod c1), (c_mod c2); reflexivity.
Qed.

Lemma hits_both m k c1 c2 : hits m k c1 = true -> hits m k c2 = true -> same_slot c1 c2 = true.
Proof.
  unfold hits, same_slot. rewrite !andb_true_iff. intros [M1 K1] [M2 K2].
  apply module_eqb_eq in M1, M2. apply key_eqb_eq in K1, K2. subst m. rewrite <- M2, K1, K2.
  split; [apply module_eqb_eq; reflexivity|apply key_eqb_refl].
Qed.

Lemma last_cmd_app m k A B :
  last_cmd m k (A ++ B) = match last_cmd m k B with Some c => Some c | None => last_cmd m k A end.
Proof.
  induction A as [|x A IH]; cbn [app last_cmd].
  - destruct (last_cmd m k B); reflexivity.
  - rewrite IH. destruct (last_cmd m k B); [reflexivity|]. reflexivity.
Qed.

Lemma apply_cmds_cons x l t : apply_cmds (x :: l) t = apply_cmds l (apply_cmd x t).
Proof. reflexivity. Qed.
Lemma apply_cmds_app A B t : apply_cmds (A ++ B) t = apply_cmds B (apply_cmds A t).
Proof. unfold apply_cmds. apply fold_left_app. Qed.

Lemma teq_refl t : teq t t.
Proof. intros m k. reflexivity. Qed.
Lemma teq_sym t1 t2 : teq t1 t2 -> teq t2 t1.
Proof. intros H m k. symmetry. apply H. Qed.
Lemma teq_trans t1 t2 t3 : teq t1 t2 -> teq t2 t3 -> teq t1 t3.
Proof. intros H1 H2 m k. rewrite H1. apply H2. Qed.
Lemma teq_apply cs t1 t2 : teq t1 t2 -> teq (apply_cmds cs t1) (apply_cmds cs t2).
Proof.
  intros H m k. rewrite !tab_of_eq, !apply_cmds_get. destruct (last_cmd m k cs); [reflexivity|].
  rewrite <- !tab_of_eq. apply H.
Qed.

(* key-disjoint command lists commute *)
Lemma batches_commute cs1 cs2 t : keys_disjoint cs1 cs2 ->
  teq (apply_cmds (cs1 ++ cs2) t) (apply_cmds (cs2 ++ cs1) t).
Proof.
  intros D m k. rewrite !tab_of_eq, !apply_cmds_get, !last_cmd_app.
  destruct (last_cmd m k cs1) as [c1|] eqn:E1, (last_cmd m k cs2) as [c2|] eqn:E2; try reflexivity.
  exfalso. destruct (last_cmd_in _ _ _ _ E1) as [I1 H1]. destruct (last_cmd_in _ _ _ _ E2) as [I2 H2].
  pose proof (hits_both _ _ _ _ H1 H2) as X. rewrite (D c1 c2 I1 I2) in X. discriminate.
Qed.

(* a command moves behind commands that address other slots *)
Lemma move_behind x A rest t : (forall c, In c A -> same_slot x c = false) ->
  teq (apply_cmds (x :: A ++ rest) t) (apply_cmds (A ++ x :: rest) t).
Proof.
  intros D m k. rewrite !tab_of_eq, !apply_cmds_get.
  change (x :: A ++ rest) with ([x] ++ A ++ rest). rewrite !last_cmd_app. cbn [last_cmd].
  destruct (last_cmd m k rest); [reflexivity|].
  destruct (hits m k x) eqn:Hx; [|destruct (last_cmd m k A); reflexivity].
  destruct (last_cmd m k A) as [c|] eqn:EA; [|reflexivity].
  exfalso. destruct (last_cmd_in _ _ _ _ EA) as [Ic Hc].
  pose proof (hits_both _ _ _ _ Hx Hc) as X. rewrite (D c Ic) in X. discriminate.
Qed.

Lemma keys_disjointb_spec cs1 cs2 : keys_disjointb cs1 cs2 = true <-> keys_disjoint cs1 cs2.
Proof.
  unfold keys_disjointb, keys_disjoint. rewrite forallb_forall. split.
  - intros H c1 c2 I1 I2. specialize (H c1 I1). rewrite forallb_forall in H. specialize (H c2 I2).
    apply negb_true_iff in H. exact H.
  - intros H c1 I1. apply forallb_forall. intros c2 I2. apply negb_true_iff. apply H; assumption.
Qed.

Lemma keys_disjoint_sym cs1 cs2 : keys_disjoint cs1 cs2 -> keys_disjoint cs2 cs1.
Proof. intros H c2 c1 I2 I1. rewrite same_slot_sym. apply H; assumption. Qed.

Lemma pd_app l1 l2 : pairwise_disjoint (l1 ++ l2) <->
  pairwise_disjoint l1 /\ pairwise_disjoint l2 /\ (forall a b, In a l1 -> In b l2 -> keys_disjoint a b).
Proof.
  induction l1 as [|t r IH]; cbn [app pairwise_disjoint].
  - split; [intros H; repeat split; [exact H|intros a b []]|intros (_ & H & _); exact H].
  - rewrite IH. split.
    + intros (H1 & H2 & H3 & H4). repeat split; try assumption.
      * intros t' I. apply H1. apply in_or_app. left. exact I.
      * intros a b [<-|Ia] Ib; [apply H1; apply in_or_app; right; exact Ib|apply H4; assumption].
    + intros ((H1 & H2) & H3 & H4). repeat split; try assumption.
      * intros t' I. apply in_app_or in I. destruct I as [I|I]; [apply H1; exact I|apply H4; [left; reflexivity|exact I]].
      * intros a b Ia Ib. apply H4; [right; exact Ia|exact Ib].
Qed.

Lemma pairwise_disjointb_spec ts : pairwise_disjointb ts = true <-> pairwise_disjoint ts.
Proof.
  induction ts as [|t r IH]; cbn [pairwise_disjointb pairwise_disjoint]; [tauto|].
  rewrite andb_true_iff, IH, forallb_forall. split; intros [H1 H2]; (split; [|exact H2]); intros t' I.
  - apply keys_disjointb_spec. apply H1. exact I.
  - apply keys_disjointb_spec. apply H1. exact I.
Qed.

Lemma concat_all_nil {A} (ts : list (list A)) : Forall (fun t => t = []) ts -> concat ts = [].
Proof. induction 1 as [|t r -> _ IH]; [reflexivity|exact IH]. Qed.

(* every interleaving of pairwise key-disjoint command lists yields the tables of running the lists
   one after the other *)
Lemma interleaving_serializable ts sched : merge ts sched -> pairwise_disjoint ts ->
  forall t, teq (apply_cmds sched t) (apply_cmds (concat ts) t).
Proof.
  induction 1 as [ts Hn|ts1 x th ts2 l Hm IH]; intros Hd t.
  - rewrite (concat_all_nil _ Hn). apply teq_refl.
  - apply pd_app in Hd. destruct Hd as (D1 & D2 & D3). cbn [pairwise_disjoint] in D2. destruct D2 as [D2 D4].
    assert (pairwise_disjoint (ts1 ++ th :: ts2)) as Hd'.
    { apply pd_app. repeat split; try assumption.
      - intros t' I c1 c2 I1 I2. apply (D2 t' I); [right; exact I1|exact I2].
      - intros a b Ia [<-|Ib]; [|apply D3; [exact Ia|right; exact Ib]].
        intros c1 c2 I1 I2. apply (D3 a (x :: th) Ia (or_introl eq_refl)); [exact I1|right; exact I2]. }
    rewrite apply_cmds_cons. eapply teq_trans; [apply (IH Hd')|].
    rewrite !concat_app. cbn [concat]. rewrite <- apply_cmds_cons.
    change ((x :: th) ++ concat ts2) with (x :: th ++ concat ts2).
    apply move_behind. intros c Ic. apply in_concat in Ic. destruct Ic as (a & Ia & Ica).
    rewrite same_slot_sym. apply (D3 a (x :: th) Ia (or_introl eq_refl)); [exact Ica|left; reflexivity].
Qed.

Lemma merge_two_serializable cs1 cs2 sched t : merge [cs1; cs2] sched -> keys_disjoint cs1 cs2 ->
  teq (apply_cmds sched t) (apply_cmds (cs1 ++ cs2) t) /\ teq (apply_cmds sched t) (apply_cmds (cs2 ++ cs1) t).
Proof.
  intros Hm Hd. assert (teq (apply_cmds sched t) (apply_cmds (cs1 ++ cs2) t)) as X.
  { pose proof (interleaving_serializable [cs1; cs2] sched Hm) as H. cbn [concat] in H. rewrite app_nil_r in H.
    apply H. cbn [pairwise_disjoint]. split; [|split; [intros t' []|exact I]]. intros t' [<-|[]]. exact Hd. }
  split; [exact X|]. eapply teq_trans; [exact X|]. apply batches_commute. exact Hd.
Qed.

(* an interleaving of whole request batches is in particular an interleaving of their commands *)
Lemma merge_prepend {A} (b : list A) ts1 t ts2 l : merge (ts1 ++ t :: ts2) l -> merge (ts1 ++ (b ++ t) :: ts2) (b ++ l).
Proof.
  induction b as [|x b IH]; intros H; [exact H|]. cbn [app]. apply merge_step. apply IH. exact H.
Qed.
Lemma merge_batches {A} (bts : list (list (list A))) bsched : merge bts bsched -> merge (map (@concat A) bts) (concat bsched).
Proof.
  induction 1 as [ts Hn|ts1 b t ts2 l Hm IH].
  - apply merge_nil. apply Forall_forall. intros x Ix. apply in_map_iff in Ix. destruct Ix as (y & <- & Iy).
    rewrite Forall_forall in Hn. rewrite (Hn y Iy). reflexivity.
  - rewrite map_app in *. cbn [map concat] in *. apply merge_prepend. exact IH.
Qed.

(* ------------------------------------------------------------------ what separates two sessions' commands *)

Lemma fseid_separates c1 c2 s1 s2 : cmd_of_fseid c1 s1 -> cmd_of_fseid c2 s2 -> s1 <> s2 -> same_slot c1 c2 = false.
Proof.
  intros H1 H2 Hne. apply N.eqb_neq in Hne. unfold same_slot.
  destruct H1 as [[M1 (i1 & K1)]|[[M1 (i1 & j1 & K1)]|[M1 (i1 & K1)]]];
  destruct H2 as [[M2 (i2 & K2)]|[[M2 (i2 & j2 & K2)]|[M2 (i2 & K2)]]];
  rewrite M1, M2, K1, K2; cbn [module_eqb andb key_eqb]; try reflexivity;
  rewrite Hne; rewrite ?andb_false_r; reflexivity.
Qed.

Lemma far_cmds_fseid f c : In c (far_add f ++ far_del f) -> cmd_of_fseid c (a_fseid f).
Proof.
  cbn. intros [<-|[<-|[]]]; left; (split; [reflexivity|eexists; reflexivity]).
Qed.

Lemma qer_cmds_fseid burst q c : In c (qer_add burst q ++ qer_del q) -> cmd_of_fseid c (q_fseid q).
Proof.
  unfold qer_add, qer_del, qer_dir. intros H.
  destruct (q_level q =? 0) eqn:El;
    repeat match type of H with context [if ?b then _ else _] => destruct b end;
    cbn in H; rewrite ?El in H; cbn in H;
    repeat (destruct H as [<-|H]; [right; first [left; split; [reflexivity|do 2 eexists; reflexivity]
                                               |right; split; [reflexivity|eexists; reflexivity]]|]);
    try destruct H.
Qed.

Lemma pdr_cmds_mod p c : In c (pdr_add p ++ pdr_del p) -> c_mod c = MPdr.
Proof. apply pdr_same_module. Qed.

Section Sessions.
  Variable burst : N -> N -> N -> N.

  Lemma session_cmd_cases ps fs qs s c : owned_by s fs qs -> In c (rule_cmds burst ps fs qs) ->
    (c_mod c = MPdr /\ In c (pdr_cmds ps)) \/ cmd_of_fseid c s.
  Proof.
    intros [Of Oq] H. unfold rule_cmds, add_cmds, del_cmds, pdr_cmds in *.
    rewrite !in_app_iff, !in_flat_map in H. rewrite in_app_iff, !in_flat_map.
    destruct H as [[(p & Ip & Ic)|[(f & If & Ic)|(q & Iq & Ic)]]|[(p & Ip & Ic)|[(f & If & Ic)|(q & Iq & Ic)]]].
    - left. split; [apply (pdr_cmds_mod p); apply in_or_app; left; exact Ic|left; exists p; tauto].
    - right. rewrite <- (Of f If). apply far_cmds_fseid. apply in_or_app. left. exact Ic.
    - right. rewrite <- (Oq q Iq). apply (qer_cmds_fseid burst). apply in_or_app. left. exact Ic.
    - left. split; [apply (pdr_cmds_mod p); apply in_or_app; right; exact Ic|right; exists p; tauto].
    - right. rewrite <- (Of f If). apply far_cmds_fseid. apply in_or_app. right. exact Ic.
    - right. rewrite <- (Oq q Iq). apply (qer_cmds_fseid burst). apply in_or_app. right. exact Ic.
  Qed.

  Lemma fseid_cmd_not_pdr c s : cmd_of_fseid c s -> c_mod c <> MPdr.
  Proof. intros [[M _]|[[M _]|[M _]]]; rewrite M; discriminate. Qed.

  (* sessions with different local SEIDs (and PDR match keys that differ) never address the same slot *)
  Lemma sessions_disjoint s1 s2 ps1 fs1 qs1 ps2 fs2 qs2 :
    s1 <> s2 -> owned_by s1 fs1 qs1 -> owned_by s2 fs2 qs2 -> keys_disjoint (pdr_cmds ps1) (pdr_cmds ps2) ->
    keys_disjoint (rule_cmds burst ps1 fs1 qs1) (rule_cmds burst ps2 fs2 qs2).
  Proof.
    intros Hne O1 O2 Dp c1 c2 I1 I2.
    destruct (session_cmd_cases _ _ _ _ _ O1 I1) as [[M1 P1]|F1];
    destruct (session_cmd_cases _ _ _ _ _ O2 I2) as [[M2 P2]|F2].
    - apply Dp; assumption.
    - unfold same_slot. rewrite M1. pose proof (fseid_cmd_not_pdr _ _ F2) as X.
      destruct (c_mod c2); try reflexivity. contradiction.
    - unfold same_slot. rewrite M2. pose proof (fseid_cmd_not_pdr _ _ F1) as X.
      destruct (c_mod c1); try reflexivity. contradiction.
    - eapply fseid_separates; eassumption.
  Qed.
End Sessions.

(* PDR match keys differ as soon as the TEID or one of the addresses differs (the envelope: distinct UE
   addresses / tunnel endpoints for different sessions) *)
Lemma pdr_keys_differ p1 p2 : (p_teid p1 <> p_teid p2 \/ f_sip p1 <> f_sip p2 \/ f_dip p1 <> f_dip p2) ->
  keys_disjoint (pdr_add p1 ++ pdr_del p1) (pdr_add p2 ++ pdr_del p2).
Proof.
  intros Hd c1 c2 I1 I2.
  assert (forall p c, In c (pdr_add p ++ pdr_del p) -> c_mod c = MPdr /\ exists r, c_key c = pdr_key p r) as K.
  { intros p c I. split; [apply (pdr_cmds_mod p); exact I|]. unfold pdr_add, pdr_del in I.
    apply in_app_or in I. destruct I as [I|I]; apply in_map_iff in I; destruct I as (r & <- & _); exists r; reflexivity. }
  destruct (K _ _ I1) as [M1 (r1 & K1)]. destruct (K _ _ I2) as [M2 (r2 & K2)].
  unfold same_slot. rewrite M1, M2, K1, K2. cbn [module_eqb andb].
  destruct (key_eqb (pdr_key p1 r1) (pdr_key p2 r2)) eqn:E; [|reflexivity].
  apply key_eqb_eq in E. unfold pdr_key in E. inversion E. exfalso. destruct Hd as [H|[H|H]]; apply H; assumption.
Qed.

(* ------------------------------------------------------------------ the shared allocators *)
(* UE addresses: whatever the two runs (interleavings) were, the addresses held by the same sessions are
   related by a partial injection - the results differ only by an injective renaming *)
Lemma ippool_renaming base len p1 p2 : reachable base len p1 -> reachable base len p2 ->
  forall sa sb a1 a2 b1 b2,
    lookup sa (inv p1) = Some a1 -> lookup sa (inv p2) = Some a2 ->
    lookup sb (inv p1) = Some b1 -> lookup sb (inv p2) = Some b2 ->
    (a1 = b1 <-> a2 = b2).
Proof.
  intros R1 R2 sa sb a1 a2 b1 b2 A1 A2 B1 B2. split; intros E; subst.
  - assert (sa = sb) by (eapply (c06_exclusive base len p1); eassumption). subst. congruence.
  - assert (sa = sb) by (eapply (c06_exclusive base len p2); eassumption). subst. congruence.
Qed.

(* TEIDs: at every point of every interleaving of the atomic methods (= operation sequence from the fresh
   generator) an identifier handed out was not in use, is non-zero, and is in use afterwards.  Built on C07's
   lemmas (Proofs/FteidProofs.v). *)
Lemma teid_fresh (threads : list (list Fteid.op)) sched g id g' : merge threads sched ->
  g = fst (Fteid.run new_gen sched) -> allocate g = AOk id g' ->
  is_allocated id g = false /\ is_allocated id g' = true /\ 1 <= id.
Proof.
  intros _ -> E. pose proof (wf_run sched new_gen wf_new) as [Hb _].
  destruct (allocate_fresh _ _ _ Hb E) as ([H1 _] & Hn & Hu & _).
  unfold is_allocated, MINV. assert (id <? 1 = false) as -> by lia. rewrite Hu.
  split; [apply FteidProofs.mem_nIn; exact Hn|]. split; [|exact H1].
  cbn [Fteid.mem existsb]. rewrite N.eqb_refl. reflexivity.
Qed.

(* ------------------------------------------------------------------ SEID collision (F32) *)
Lemma seid_collision :
  exists t1 t2 t3 ss1 ss2 cmds1,
    cz_run = Some (t1, t2, t3, ss1, ss2, cmds1) /\
    (* both associations hold a live session under the same local SEID *)
    (exists s, find_session cz_draw ss1 = Some s) /\
    (* association 1 installed its FAR entry ... *)
    In (Cmd MFar true [1; cz_draw] [1; 0; 1; 3323068417; 3232235777; 11; 2152]) cmds1 /\
    t_get [1; cz_draw] (t_far t1) = Some [1; 0; 1; 3323068417; 3232235777; 11; 2152] /\
    (* ... which association 2's establishment overwrote with its own tunnel ... *)
    t_get [1; cz_draw] (t_far t2) = Some [1; 0; 1; 3323068417; 3232235778; 22; 2152] /\
    (* ... and association 2's deletion removed, although association 1's session is still there *)
    ss2 = [] /\ t_get [1; cz_draw] (t_far t3) = None.
Proof. vm_compute. do 6 eexists. repeat split; try reflexivity; [eexists; reflexivity|right; left; reflexivity]. Qed.

(* ------------------------------------------------------------------ an accepted establishment only writes its own session's slots *)
Lemma fwd_loop_fseid : forall els aip cip f, a_fseid (fwd_loop els aip cip f) = a_fseid f.
Proof.
  induction els as [|e els IH]; intros aip cip f; [reflexivity|]. cbn [fwd_loop].
  destruct e as [[|[t v]]|[|d]|[|fl]|]; try (rewrite IH; reflexivity).
  destruct (has2nd_bit fl); rewrite IH; reflexivity.
Qed.
Lemma parse_far_fseid i s aip cip u f : parse_far i s aip cip u = Some f -> a_fseid f = s.
Proof.
  unfold parse_far. destruct (fi_id i); [discriminate|]. destruct (fi_action i); [discriminate|].
  destruct (a0 =? 0); [discriminate|]. destruct u.
  - destruct (fi_fwd_u i); [discriminate|]. intros H; inversion H. rewrite fwd_loop_fseid. reflexivity.
  - destruct (negb (N.land a0 2 =? 0)).
    + destruct (fi_fwd_c i); [discriminate|]. intros H; inversion H. rewrite fwd_loop_fseid. reflexivity.
    + intros H; inversion H. reflexivity.
Qed.
Lemma parse_qer_fseid i s q : parse_qer i s = Some q -> q_fseid q = s.
Proof. unfold parse_qer. destruct (qi_id i); [discriminate|]. intros H; inversion H. reflexivity. Qed.
Lemma parse_all_each {I R} (f : I -> option R) : forall is l, parse_all f is = Some l -> forall x, In x l -> exists i, f i = Some x.
Proof.
  induction is as [|i is IH]; intros l H x Hx; cbn [parse_all] in H.
  - inversion H; subst. destruct Hx.
  - destruct (f i) eqn:E; [|discriminate]. destruct (parse_all f is) eqn:E2; [|discriminate]. cbn in H. inversion H; subst.
    destruct Hx as [<-|Hx]; [exists i; exact E|eapply IH; [reflexivity|exact Hx]].
Qed.
Lemma set_nth_In {A} : forall n (y : A) l x, In x (set_nth n y l) -> x = y \/ In x l.
Proof.
  induction n as [|n IH]; intros y l x H; destruct l as [|z l]; cbn [set_nth] in H; try (destruct H; fail).
  - destruct H as [<-|H]; [left; reflexivity|right; right; exact H].
  - destruct H as [<-|H]; [right; left; reflexivity|]. destruct (IH _ _ _ H) as [->|H']; [left; reflexivity|right; right; exact H'].
Qed.
Lemma mark_keeps_fseid ps qs ps1 qs1 s : mark_session_qer ps qs = Done (ps1, qs1) ->
  (forall q, In q qs -> q_fseid q = s) -> forall q, In q qs1 -> q_fseid q = s.
Proof.
  unfold mark_session_qer. intros H Hq. destruct ps as [|p0 pr]; [inversion H; subst; exact Hq|].
  destruct (nth_error (p0 :: pr) (length (p0 :: pr) - 1)); [|discriminate].
  destruct (Nat.ltb (length (p_qers p)) 1 || Nat.ltb (length qs) 2); [inversion H; subst; exact Hq|].
  destruct (search_list (p0 :: pr) (p_qers p)); [|inversion H; subst; exact Hq].
  destruct (select_qer qs 0 l (0%nat, 0, 0)) as [[sidx sid] sm].
  destruct (nth_error qs sidx) as [q0|] eqn:En; [|discriminate]. inversion H; subst.
  intros q Iq. destruct (set_nth_In _ _ _ _ Iq) as [->|I]; [|apply Hq; exact I].
  cbn. apply Hq. eapply nth_error_In. exact En.
Qed.


Section EstIsolated.
  Variable burst : N -> N -> N -> N.

  Lemma est_owned a c nid cpf pdrs fars qers draws a' c' rseid n l cr cmds ms sd s :
    handle_est burst a c nid cpf pdrs fars qers draws = Done (a', c', Out (Some (REst rseid CAUSE_OK n (Some l) cr)) cmds ms sd) ->
    find_session l (c_sessions c') = Some s ->
    owned_by l (view (s_fars s)) (view (s_qers s)).
  Proof.
    intros H Hf. unfold handle_est in H. split_all H; inversion H; subst; try discriminate.
    all: try (unfold CAUSE_OK, CAUSE_REJ, CAUSE_NORES, CAUSE_NOASSOC, CAUSE_MISSING in *; congruence).
    cbn [c_sessions] in Hf.
    match goal with Hp : pick_seid _ _ _ = Some _ |- _ => destruct (pick_seid_spec _ _ _ _ Hp) as (A & _ & _) end.
    match type of Hf with find_session ?l (put_session ?x _) = _ =>
      change l with (s_lseid x) in Hf; rewrite (find_put x _ A) in Hf end.
    inversion Hf; subst. cbn [s_fars s_qers]. unfold s_of, view. cbn [len back]. rewrite !firstn_all.
    split.
    - intros f If. match goal with Hp : parse_all _ fars = Some _ |- _ => destruct (parse_all_each _ _ _ Hp f If) as (i & Ei) end.
      eapply parse_far_fseid. exact Ei.
    - match goal with Hm : mark_session_qer _ ?qs = Done (_, ?qs1) |- forall q, In q ?qs1 -> _ =>
        apply (mark_keeps_fseid _ _ _ _ _ Hm) end.
      intros q Iq. match goal with Hp : parse_all _ qers = Some _ |- _ => destruct (parse_all_each _ _ _ Hp q Iq) as (i & Ei) end.
      eapply parse_qer_fseid. exact Ei.
  Qed.

  (* the FAR / QER slots of a session with another local SEID read the same before and after *)
  Lemma est_isolated a c nid cpf pdrs fars qers draws a' c' rseid n l cr cmds ms sd m k l1 :
    handle_est burst a c nid cpf pdrs fars qers draws = Done (a', c', Out (Some (REst rseid CAUSE_OK n (Some l) cr)) cmds ms sd) ->
    l1 <> l -> slot_of_fseid m k l1 ->
    t_get k (tab_of m (a_tables a')) = t_get k (tab_of m (a_tables a)).
  Proof.
    intros H Hne Hs. destruct (est_accepted burst _ _ _ _ _ _ _ _ _ _ _ _ _ _ _ _ _ H) as (l' & s & Hu & _ & _ & _ & Hf & _).
    inversion Hu; subst l'. destruct (est_accepted_tables burst _ _ _ _ _ _ _ _ _ _ _ _ _ _ _ _ _ _ H Hf) as [Hc Ht].
    pose proof (est_owned _ _ _ _ _ _ _ _ _ _ _ _ _ _ _ _ _ _ H Hf) as Ho.
    rewrite Ht, !tab_of_eq. apply apply_cmds_untouched. intros x Ix.
    assert (In x (rule_cmds burst (view (s_pdrs s)) (view (s_fars s)) (view (s_qers s)))) as Ix'.
    { unfold rule_cmds. apply in_or_app. left. rewrite <- Hc. exact Ix. }
    destruct (session_cmd_cases burst _ _ _ _ _ Ho Ix') as [[Mx _]|Fx].
    - unfold hits. rewrite Mx. destruct Hs as [[-> _]|[[-> _]|[-> _]]]; reflexivity.
    - (* a pseudo command that sits in the slot (m, k) *)
      pose (y := Cmd m true k []).
      assert (cmd_of_fseid y l1) as Fy by exact Hs.
      pose proof (fseid_separates _ _ _ _ Fy Fx Hne) as X. unfold same_slot in X. cbn [c_mod c_key y] in X.
      unfold hits. rewrite (key_eqb_sym (c_key x) k). exact X.
  Qed.
End EstIsolated.
