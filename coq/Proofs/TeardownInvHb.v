(* C10 - one step of the RHb thread of an association preserves the association invariant *)
From Coq Require Import NArith String List Bool Arith Lia.
From UPF Require Import Base.LTS Model.Teardown Proofs.TeardownInv.
Import ListNotations.
Open Scope list_scope.

Lemma ainv_step_hb sess me alt nd a nd' a' t' :
  AInv sess a ->
  thread_step me RHb alt nd a (get_thr a RHb) = Ok (nd', a', t') ->
  AInv sess (set_thr a' RHb t').
Proof.
  intros Hinv H.
  destruct a as [st de on sh tm hb so ib ta ha rd se ht fs].
  destruct Hinv as (Hrd & Hsel & Hhb & Hfst & Hd & Htmo). cbn in H.
  destruct on as [|r0|]; [home_script ht Hhb | destruct r0 | home_script ht Hhb];
    [home_script ht Hhb | home_script ht Hhb | do_script ht Hhb | home_script ht Hhb | | ];
    unfold Data in Hd; cbn in Hd; destruct Hd; discriminate.
Qed.
