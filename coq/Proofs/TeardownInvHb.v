(* C10 - one step of the RHb thread of an association: the association invariant is preserved, the node is
   changed only inside its frame, and the only possible panic is the send on a closed pConnDone *)
From Coq Require Import NArith String List Bool Arith Lia.
From UPF Require Import Base.LTS Model.Teardown Proofs.TeardownInv.
Import ListNotations.
Open Scope list_scope.

Lemma step_hb sess me alt nd a res :
  AInv sess a ->
  thread_step me RHb alt nd a (get_thr a RHb) = res ->
  match res with
  | Ok (nd', a', t') => (AInv sess (set_thr a' RHb t') /\ delta me RHb a nd nd' (set_thr a' RHb t')) /\ node_frame nd nd'
  | Blocked => True
  | Panic site => cclosed (n_pcd nd) = true /\ site = "send on closed channel"%string /\ at_pc a RHb FDo 6 = true
  end.
Proof.
  intros Hinv H.
  destruct a as [st de on sh tm hb so ib ta ha hr hm ins rd se ht fs].
  destruct nd as [cx pc dn ls mp ex bu mn np nn cr en th sp pe].
  destruct Hinv as (Hrd & Hsel & Hhb & Hfst & Hd & Htmo & Hhbok & Hlife & Hinst & Hrdok). cbn in H.
  destruct res as [[[nd' a'] t']| |site]; [ | exact I | ].
  - split.
    + destruct on as [|r0|]; [home_script ht Hhb | destruct r0 | home_script ht Hhb];
        [home_script ht Hhb | home_script ht Hhb | do_script ht Hhb | home_script ht Hhb | | | ];
        unfold Data in Hd; cbn in Hd; destruct Hd; discriminate.
    + unfold node_frame. clear Hd Htmo Hhbok Hlife Hinst Hrdok.
      destruct ht as [rst rfn rpc rret rit]. unfold fn_ok in Hhb; cbn in Hhb.
      destruct Hhb as [[? _]|[? [_ ?]]]; subst rfn; unfold thread_step in H; cbn in H;
        (destruct rst; try discriminate H); do 9 (try destruct rpc as [|rpc]); cbn in H; try discriminate H;
        unfold ch_close, ch_send, ch_cancel, ch_recv in H; inv_ok; repeat split; intros; congruence.
  - panic_script ht Hhb.
Qed.
