(* C10 - instances decided by computation: two associations (no Stop) *)
From Coq Require Import NArith String List Bool Arith.
From UPF Require Import Base.LTS Model.Teardown Proofs.TeardownBounded.
Import ListNotations.
Open Scope N_scope.

(* two established associations, each released and each silent past the read timeout, all interleavings *)
Definition cfg4 : list acfg := [ACfg [1] false None; ACfg [2] false None].
Definition ev4 : list env := [rel 0; ETimeout 0; rel 1; ETimeout 1].
Lemma inst4_ok : instance_ok 1000000 cfg4 ev4 = true.
Proof. vm_compute. reflexivity. Qed.
