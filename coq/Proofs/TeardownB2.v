(* C10 - instances decided by computation: two associations (no Stop) *)
From Coq Require Import NArith String List Bool Arith.
From UPF Require Import Base.LTS Model.Teardown Proofs.TeardownBounded.
Import ListNotations.
Open Scope N_scope.

(* cfg4 / ev4 (Proofs/TeardownBounded.v): two established associations, each released and each silent past the
   read timeout, all interleavings *)
Lemma inst4_ok : instance_ok fuel_1m cfg4 ev4 = true.
Proof. vm_compute. reflexivity. Qed.
