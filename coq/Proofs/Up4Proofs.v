(* C04: lemmas about Model/Up4.v.
   Part 1: the Write semantics of the switch (lookup after INSERT / MODIFY / DELETE), key sets.
   Part 2: action selection (drop / buffer / forward) for all FAR x QER.
   Part 3: a generic traversal: every predicate on the switch that all primitive updates of a class preserve is
           preserved by sendCreate / sendUpdate / sendDelete; instances: table closure, key uniqueness, the
           interfaces table, "sendUpdate never moves an entry", "sendUpdate configures no meter".
   Part 4: start-up (clearTables + initInterfaces) and the restart theorem for every crash point.
   Part 5: establishment / deletion: what an accepted call leaves in the tables; reference sets. *)
From Coq Require Import NArith List String Bool Lia.
From UPF Require Model.PortRange Model.Agent.
From UPF Require Import Base.Lists Model.P4Info Model.P4Valid Model.P4Build Model.Up4.
Import ListNotations.
Open Scope N_scope.

(* ================================================================== Part 1: equality tests, switch semantics *)
Lemma list_eqb_eq {A} (eqb : A -> A -> bool) :
  (forall a b, eqb a b = true <-> a = b) -> forall x y, list_eqb eqb x y = true <-> x = y.
Proof.
  intros H x. induction x as [|a x IH]; destruct y as [|b y]; cbn; try (split; [discriminate|discriminate]); [tauto|].
  rewrite andb_true_iff, H, IH. split; [intros [-> ->]; reflexivity | intros E; inversion E; auto].
Qed.

Lemma nmatch_eqb_eq a b : nmatch_eqb a b = true <-> a = b.
Proof.
  destruct a, b; cbn; try (split; discriminate);
    rewrite ?andb_true_iff, ?N.eqb_eq; split; try (intros [-> ->]; reflexivity); try (intros ->; reflexivity);
      intros E; inversion E; auto.
Qed.
Lemma nfield_eqb_eq a b : nfield_eqb a b = true <-> a = b.
Proof.
  destruct a as [s m], b as [t k]. unfold nfield_eqb. cbn. rewrite andb_true_iff, String.eqb_eq, nmatch_eqb_eq.
  split; [intros [-> ->]; reflexivity | intros E; inversion E; auto].
Qed.
Lemma nkey_eqb_eq a b : nkey_eqb a b = true <-> a = b.
Proof.
  destruct a as [[t m] p], b as [[t' m'] p']. unfold nkey_eqb. cbn.
  rewrite !andb_true_iff, String.eqb_eq, (list_eqb_eq _ nfield_eqb_eq), N.eqb_eq.
  split; [intros [[-> ->] ->]; reflexivity | intros E; inversion E; auto].
Qed.
Lemma nkey_eqb_refl a : nkey_eqb a a = true.
Proof. apply nkey_eqb_eq. reflexivity. Qed.
Lemma nkey_eqb_neq a b : a <> b -> nkey_eqb a b = false.
Proof. intros H. destruct (nkey_eqb a b) eqn:E; [apply nkey_eqb_eq in E; contradiction | reflexivity]. Qed.
Lemma nkey_eq_dec (a b : nkey) : {a = b} + {a <> b}.
Proof. destruct (nkey_eqb a b) eqn:E; [left; now apply nkey_eqb_eq | right; intros H; apply nkey_eqb_eq in H; congruence]. Qed.

Lemma ref_eqb_eq a b : ref_eqb a b = true <-> a = b.
Proof.
  destruct a, b. unfold ref_eqb. cbn. rewrite andb_true_iff, !N.eqb_eq.
  split; [intros [-> ->]; reflexivity | intros E; inversion E; auto].
Qed.

(* ---- lookups *)
Lemma get_key_some k l e : get_key k l = Some e -> In e l /\ key_of e = k.
Proof. unfold get_key. intros H. apply find_some in H. destruct H as [H1 H2]. apply nkey_eqb_eq in H2. auto. Qed.
Lemma has_key_get k l : has_key k l = match get_key k l with Some _ => true | None => false end.
Proof.
  unfold has_key, get_key. induction l as [|x l IH]; cbn; [reflexivity|].
  destruct (nkey_eqb (key_of x) k); cbn; [reflexivity | exact IH].
Qed.
Lemma has_key_in k l : has_key k l = true <-> exists e, In e l /\ key_of e = k.
Proof.
  unfold has_key. rewrite existsb_exists. split; intros [e [H1 H2]]; exists e; split; auto; now apply nkey_eqb_eq.
Qed.

Lemma get_key_app k l1 l2 : get_key k (l1 ++ l2) = match get_key k l1 with Some e => Some e | None => get_key k l2 end.
Proof. unfold get_key. induction l1 as [|x l IH]; cbn; [reflexivity|]. destruct (nkey_eqb (key_of x) k); auto. Qed.

Lemma get_key_replace k e l :
  get_key k (replace_key e l) = if nkey_eqb (key_of e) k then (match get_key k l with Some _ => Some e | None => None end) else get_key k l.
Proof.
  unfold get_key, replace_key. induction l as [|x l IH]; cbn [map find]; [destruct (nkey_eqb (key_of e) k); reflexivity|].
  destruct (nkey_eqb (key_of x) (key_of e)) eqn:E1.
  - apply nkey_eqb_eq in E1. rewrite E1. destruct (nkey_eqb (key_of e) k) eqn:E2; [reflexivity|].
    rewrite IH. reflexivity.
  - destruct (nkey_eqb (key_of x) k) eqn:E2.
    + destruct (nkey_eqb (key_of e) k) eqn:E3; [|reflexivity].
      apply nkey_eqb_eq in E2, E3. rewrite <- E3 in E2. rewrite E2, nkey_eqb_refl in E1. discriminate.
    + exact IH.
Qed.

Lemma get_key_remove k k' l : get_key k (remove_key k' l) = if nkey_eqb k' k then None else get_key k l.
Proof.
  unfold get_key, remove_key. induction l as [|x l IH]; cbn; [destruct (nkey_eqb k' k); reflexivity|].
  destruct (nkey_eqb (key_of x) k') eqn:E1; cbn.
  - rewrite IH. apply nkey_eqb_eq in E1. rewrite E1. destruct (nkey_eqb k' k); reflexivity.
  - destruct (nkey_eqb (key_of x) k) eqn:E2; [|exact IH].
    destruct (nkey_eqb k' k) eqn:E3; [|reflexivity].
    apply nkey_eqb_eq in E2, E3. subst. rewrite nkey_eqb_refl in E1. discriminate.
Qed.

(* the P4Runtime Write semantics of one table update, as a statement about lookups and the returned status *)
Definition expect_table (ty : utype) (e : nentry) (s : switch) : option nentry * code :=
  match ty, get_key (key_of e) (sw_entries s) with
  | UInsert, Some old => (Some old, ALREADY_EXISTS)
  | UInsert, None => (Some e, OK)
  | UModify, Some _ => (Some e, OK)
  | UModify, None => (None, NOT_FOUND)
  | UDelete, Some _ => (None, OK)
  | UDelete, None => (None, NOT_FOUND)
  | UUnspec, o => (o, INVALID_ARGUMENT)
  end.

Lemma sw_apply_table ty e s k :
  get_key k (sw_entries (fst (sw_apply (NUTable ty e) s))) =
    (if nkey_eqb (key_of e) k then fst (expect_table ty e s) else get_key k (sw_entries s)) /\
  snd (sw_apply (NUTable ty e) s) = snd (expect_table ty e s).
Proof.
  unfold expect_table, sw_apply. rewrite has_key_get.
  destruct ty; destruct (get_key (key_of e) (sw_entries s)) eqn:G; cbn [fst snd sw_entries]; split; try reflexivity.
  - destruct (nkey_eqb (key_of e) k) eqn:E; [apply nkey_eqb_eq in E; subst; exact G | reflexivity].
  - rewrite get_key_app. destruct (nkey_eqb (key_of e) k) eqn:E.
    + apply nkey_eqb_eq in E. subst. rewrite G. unfold get_key. cbn [find]. rewrite nkey_eqb_refl. reflexivity.
    + destruct (get_key k (sw_entries s)); [reflexivity|]. unfold get_key. cbn [find]. rewrite E. reflexivity.
  - rewrite get_key_replace. destruct (nkey_eqb (key_of e) k) eqn:E; [|reflexivity].
    apply nkey_eqb_eq in E. subst. rewrite G. reflexivity.
  - destruct (nkey_eqb (key_of e) k) eqn:E; [apply nkey_eqb_eq in E; subst; exact G | reflexivity].
  - rewrite get_key_remove. destruct (nkey_eqb (key_of e) k); reflexivity.
  - destruct (nkey_eqb (key_of e) k) eqn:E; [apply nkey_eqb_eq in E; subst; exact G | reflexivity].
  - destruct (nkey_eqb (key_of e) k) eqn:E; [apply nkey_eqb_eq in E; subst; exact G | reflexivity].
  - destruct (nkey_eqb (key_of e) k) eqn:E; [apply nkey_eqb_eq in E; subst; exact G | reflexivity].
Qed.

Lemma sw_apply_other u s : (forall ty e, u <> NUTable ty e) -> sw_entries (fst (sw_apply u s)) = sw_entries s.
Proof. destruct u as [ty e|id c b|id c]; intros H; [exfalso; eapply H; reflexivity | destruct b; reflexivity | reflexivity]. Qed.

(* ================================================================== Part 2: action selection *)
Inductive verdict := VDrop | VBuffer | VForward.
(* the statement: drop when the FAR drops or the gate of that direction is closed, buffer when the FAR buffers, otherwise forward *)
Definition verdict_of (uplink : bool) (f : far) (q : qer) : verdict :=
  if far_drops f || ((if uplink then qr_ul_status q else qr_dl_status q) =? gate_closed) then VDrop
  else if negb uplink && far_buffers f then VBuffer
  else VForward.

Definition param (e : nentry) (name : string) : option N :=
  option_map snd (find (fun kv => String.eqb (fst kv) name) (ne_params e)).

Open Scope string_scope.
(* uplink: the terminations_uplink entry drops or forwards with the TC; there is no uplink buffering *)
Lemma action_uplink ue p idx f app_id tc q :
  let te := n_termination_uplink ue p idx (far_drops f) app_id tc q in
  ne_table te = "PreQosPipeTerminationsUplink" /\
  ne_match te = [("ue_address", NExact ue); ("app_id", NExact app_id)] /\
  match verdict_of true f q with
  | VDrop => ne_action te = "PreQosPipeUplinkTermDrop" /\ param te "ctr_idx" = Some (pd_ctr p)
  | _ => ne_action te = "PreQosPipeUplinkTermFwd" /\ param te "tc" = Some tc /\ param te "app_meter_idx" = Some idx /\
         param te "ctr_idx" = Some (pd_ctr p)
  end.
Proof.
  unfold verdict_of, n_termination_uplink. cbn [negb andb].
  destruct (far_drops f || (qr_ul_status q =? gate_closed)%N); repeat split; reflexivity.
Qed.

(* downlink: buffering is the action of the sessions_downlink entry, drop / forward the one of terminations_downlink *)
Lemma action_downlink ue p sidx aidx peer f app_id qfi tc q :
  let te := n_termination_downlink ue p aidx f app_id qfi tc q in
  let se := n_session_downlink p sidx peer (far_buffers f) in
  ne_table te = "PreQosPipeTerminationsDownlink" /\ ne_table se = "PreQosPipeSessionsDownlink" /\
  ne_match te = [("ue_address", NExact ue); ("app_id", NExact app_id)] /\ ne_match se = [("ue_address", NExact (pd_ue p))] /\
  match verdict_of false f q with
  | VDrop => ne_action te = "PreQosPipeDownlinkTermDrop" /\ param te "ctr_idx" = Some (pd_ctr p)
  | VBuffer => ne_action se = "PreQosPipeSetSessionDownlinkBuff" /\ ne_action te = "PreQosPipeDownlinkTermFwd"
  | VForward => ne_action se = "PreQosPipeSetSessionDownlink" /\ param se "tunnel_peer_id" = Some peer /\
                ne_action te = "PreQosPipeDownlinkTermFwd" /\ param te "teid" = Some (fr_teid f) /\
                param te "qfi" = Some qfi /\ param te "tc" = Some tc /\ param te "app_meter_idx" = Some aidx /\
                param te "ctr_idx" = Some (pd_ctr p)
  end.
Proof.
  unfold verdict_of, n_termination_downlink, n_session_downlink. cbn [negb andb].
  destruct (far_drops f || (qr_dl_status q =? gate_closed)%N); destruct (far_buffers f); repeat split; reflexivity.
Qed.

Close Scope string_scope.
(* the traffic class is the one configured for the QER's QFI, the default TC when the map has no such key *)
Definition tc_of (c : config) (qfi : N) : N := match tc_lookup (cf_qfi_tc c) qfi with Some t => t | None => cf_default_tc c end.
Lemma tc_lookup_in m qfi t : tc_lookup m qfi = Some t -> In (qfi, t) m.
Proof. induction m as [|[k v] m IH]; cbn; [discriminate|]. destruct (k =? qfi) eqn:E; [apply N.eqb_eq in E; intros H; inversion H; subst; auto | auto]. Qed.
Lemma tc_lookup_none m qfi : tc_lookup m qfi = None -> forall t, ~ In (qfi, t) m.
Proof.
  induction m as [|[k v] m IH]; cbn; [tauto|]. destruct (k =? qfi) eqn:E; [discriminate|].
  intros H t [H1|H1]; [inversion H1; subst; rewrite N.eqb_refl in E; discriminate | eapply IH; eauto].
Qed.

(* ================================================================== Part 3: generic traversal *)
Ltac dmatch := match goal with |- context [match ?t with _ => _ end] => destruct t eqn:? end.
Ltac inv_pairs := repeat match goal with H : (_, _) = (_, _) |- _ => inversion H; subst; clear H end.

Arguments write : simpl never.
Arguments pop : simpl never.

Lemma write_sw us x x' cs : write us x = (x', cs) -> x' = with_sw x (fst (sw_batch us (u_sw x))) /\ cs = snd (sw_batch us (u_sw x)).
Proof. unfold write. destruct (sw_batch us (u_sw x)). intros H. inversion H. auto. Qed.

Open Scope string_scope.
Definition t_sess_ul := "PreQosPipeSessionsUplink".
Definition t_sess_dl := "PreQosPipeSessionsDownlink".
Definition t_term_ul := "PreQosPipeTerminationsUplink".
Definition t_term_dl := "PreQosPipeTerminationsDownlink".
Definition t_apps := "PreQosPipeApplications".
Definition t_peers := "PreQosPipeTunnelPeers".
Definition t_ifaces := "PreQosPipeInterfaces".
Close Scope string_scope.
(* the tables the per-PDR batch of modifyUP4ForwardingConfiguration writes *)
Definition pdr_tables : list string := [t_sess_ul; t_sess_dl; t_term_ul; t_term_dl; t_apps].

Lemma n_session_table p sess peer b e : n_session p sess peer b = Some e -> In (ne_table e) pdr_tables.
Proof.
  unfold n_session. destruct (pd_src_iface p =? access); [intros H; inversion H; cbn; auto|].
  destruct (pd_src_iface p =? core); [|discriminate]. intros H; inversion H. unfold n_session_downlink.
  destruct b; cbn; auto.
Qed.
Lemma n_termination_table ue p app f app_id qfi tc q e : n_termination ue p app f app_id qfi tc q = Some e -> In (ne_table e) pdr_tables.
Proof.
  unfold n_termination. destruct (pd_src_iface p =? access).
  - intros H; inversion H. unfold n_termination_uplink. destruct (far_drops f || (qr_ul_status q =? gate_closed)); cbn; auto.
  - destruct (pd_src_iface p =? core); [|discriminate]. intros H; inversion H. unfold n_termination_downlink.
    destruct (far_drops f || (qr_dl_status q =? gate_closed)); cbn; auto 6.
Qed.
Lemma n_application_table p slice id : ne_table (n_application p slice id) = t_apps.
Proof. reflexivity. Qed.
Lemma n_tunnel_peer_table id src dst port : ne_table (n_tunnel_peer id src dst port) = t_peers.
Proof. reflexivity. Qed.

Section Traverse.
  Variable Q : switch -> Prop.
  Variable A : nupd -> Prop.
  Hypothesis HQ : forall u s, A u -> Q s -> Q (fst (sw_apply u s)).

  Lemma sw_batch_Q us : forall s, Forall A us -> Q s -> Q (fst (sw_batch us s)).
  Proof.
    induction us as [|u us IH]; intros s HA Hs; cbn; [exact Hs|].
    inversion HA; subst. destruct (sw_apply u s) as [s1 c] eqn:E1. destruct (sw_batch us s1) as [s2 cs] eqn:E2. cbn.
    change s2 with (fst (s2, cs)). rewrite <- E2. apply IH; [assumption|]. change s1 with (fst (s1, c)). rewrite <- E1. now apply HQ.
  Qed.
  Lemma write_Q us x x' cs : write us x = (x', cs) -> Forall A us -> Q (u_sw x) -> Q (u_sw x').
  Proof. intros W HA Hx. apply write_sw in W. destruct W as [-> _]. cbn. now apply sw_batch_Q. Qed.

  (* ---- counters *)
  Hypothesis A_counter : forall id c, A (NUCounter id c).
  Lemma alloc_counters_Q : forall n i all x orc log x' all' orc' log' r,
    alloc_counters n i all x orc log = (x', all', orc', log', r) -> Q (u_sw x) -> Q (u_sw x').
  Proof.
    induction n as [|n IH]; intros i all x orc log x' all' orc' log' r H Hx; cbn in H; [inv_pairs; exact Hx|].
    destruct (pop (u_ctr_pool x) orc) as [c pool orc1| |]; [|inv_pairs; exact Hx|inv_pairs; exact Hx].
    destruct (set_ctr i c all) as [all1|]; [|inv_pairs; exact Hx].
    destruct (write (counter_reset c) (with_ctr_pool x pool)) as [x2 cs] eqn:W.
    assert (Q (u_sw x2)) by (eapply write_Q; [exact W | repeat constructor; apply A_counter | exact Hx]).
    destruct (all_ok cs); [eapply IH; eauto | inv_pairs; assumption].
  Qed.

  (* ---- meters *)
  Hypothesis A_meter : forall id c b, A (NUMeter id c b).
  Lemma configure_app_meter_Q bidir x orc x' orc' log' cells r :
    configure_app_meter bidir x orc = (x', orc', log', cells, r) -> Q (u_sw x) -> Q (u_sw x').
  Proof.
    unfold configure_app_meter. intros H Hx.
    destruct (pop (u_app_cells x) orc) as [ul pool1 orc1| |]; [|inv_pairs; exact Hx|inv_pairs; exact Hx].
    destruct bidir.
    - destruct (pop pool1 orc1) as [dl pool2 orc2| |]; [|inv_pairs; exact Hx|inv_pairs; exact Hx].
      destruct (write _ _) as [x3 cs] eqn:W in H.
      assert (Q (u_sw x3)).
      { eapply write_Q; [exact W| |exact Hx]. apply Forall_app. split; [destruct (ul =? 0)|destruct (dl =? ul)]; repeat constructor; apply A_meter. }
      destruct (all_ok cs); inv_pairs; assumption.
    - destruct (write _ _) as [x3 cs] eqn:W in H.
      assert (Q (u_sw x3)).
      { eapply write_Q; [exact W| |exact Hx]. apply Forall_app. split; [destruct (ul =? 0)|destruct (ul =? ul)]; repeat constructor; apply A_meter. }
      destruct (all_ok cs); inv_pairs; assumption.
  Qed.
  Lemma configure_session_meter_Q x orc x' orc' log' cells r :
    configure_session_meter x orc = (x', orc', log', cells, r) -> Q (u_sw x) -> Q (u_sw x').
  Proof.
    unfold configure_session_meter. intros H Hx.
    destruct (pop (u_sess_cells x) orc) as [ul pool1 orc1| |]; [|inv_pairs; exact Hx|inv_pairs; exact Hx].
    destruct (pop pool1 orc1) as [dl pool2 orc2| |]; [|inv_pairs; exact Hx|inv_pairs; exact Hx].
    destruct (write _ _) as [x3 cs] eqn:W in H.
    assert (Q (u_sw x3)) by (eapply write_Q; [exact W | repeat constructor; apply A_meter | exact Hx]).
    destruct (all_ok cs); inv_pairs; assumption.
  Qed.
  Lemma configure_meters_loop_Q single : forall qs x orc log x' orc' log' r,
    configure_meters_loop single qs x orc log = (x', orc', log', r) -> Q (u_sw x) -> Q (u_sw x').
  Proof.
    induction qs as [|q qs IH]; intros x orc log x' orc' log' r H Hx; cbn in H; [inv_pairs; exact Hx|].
    destruct (Agent.q_level q =? app_qos).
    - destruct (configure_app_meter single x orc) as [[[[x1 orc1] l1] cells] rs] eqn:E.
      pose proof (configure_app_meter_Q _ _ _ _ _ _ _ _ E Hx) as H1.
      destruct rs; [destruct cells as [[ul dl]|]; [eapply IH; [exact H|exact H1] | inv_pairs; exact H1] | inv_pairs; exact H1 ..].
    - destruct (Agent.q_level q =? session_qos); [|eapply IH; eauto].
      destruct (configure_session_meter x orc) as [[[[x1 orc1] l1] cells] rs] eqn:E.
      pose proof (configure_session_meter_Q _ _ _ _ _ _ _ E Hx) as H1.
      destruct rs; [destruct cells as [[ul dl]|]; [eapply IH; [exact H|exact H1] | inv_pairs; exact H1] | inv_pairs; exact H1 ..].
  Qed.
  Lemma reset_meter_Q q x x' log' : reset_meter q x = (x', log') -> Q (u_sw x) -> Q (u_sw x').
  Proof.
    unfold reset_meter. intros H Hx. destruct (mtr_get _ _ _) as [m|]; [|inv_pairs; exact Hx].
    destruct (mt_type m =? meter_type_app).
    - destruct (write _ _) as [x1 cs] eqn:W in H.
      assert (Q (u_sw x1)).
      { eapply write_Q; [exact W| |exact Hx]. constructor; [apply A_meter|]. destruct (mt_dl m =? mt_ul m); repeat constructor; apply A_meter. }
      inv_pairs. exact H0.
    - destruct (mt_type m =? meter_type_session).
      + destruct (write _ _) as [x1 cs] eqn:W in H.
        assert (Q (u_sw x1)).
        { eapply write_Q; [exact W| |exact Hx]. constructor; [apply A_meter|]. destruct (mt_dl m =? mt_ul m); repeat constructor; apply A_meter. }
        inv_pairs. exact H0.
      + inv_pairs. exact Hx.
  Qed.
  Lemma reset_meters_Q : forall qs x log x' log', reset_meters qs x log = (x', log') -> Q (u_sw x) -> Q (u_sw x').
  Proof.
    induction qs as [|q qs IH]; intros x log x' log' H Hx; cbn in H; [inv_pairs; exact Hx|].
    destruct (reset_meter q x) as [x1 l1] eqn:E. eapply IH; [exact H|]. eapply reset_meter_Q; eauto.
  Qed.

  (* ---- tunnel peers *)
  Variable c : config.
  Lemma add_or_update_peer_Q f x x' log' r :
    (forall id src dst port, A (NUTable UInsert (n_tunnel_peer id src dst port))) ->
    (forall id src dst port, A (NUTable UModify (n_tunnel_peer id src dst port))) ->
    add_or_update_peer c f x = (x', log', r) -> Q (u_sw x) -> Q (u_sw x').
  Proof.
    intros Ai Am. unfold add_or_update_peer. intros H Hx.
    destruct (peer_get _ _ _) as [p|].
    - destruct (write _ _) as [x2 cs] eqn:W in H.
      assert (Q (u_sw x2)) by (eapply write_Q; [exact W | repeat constructor; apply Am | exact Hx]).
      destruct (all_ok cs); inv_pairs; assumption.
    - destruct (u_peer_pool x) as [|id pool]; [inv_pairs; exact Hx|].
      destruct (write _ _) as [x2 cs] eqn:W in H.
      assert (Q (u_sw x2)) by (eapply write_Q; [exact W | repeat constructor; apply Ai | exact Hx]).
      destruct (all_ok cs); inv_pairs; assumption.
  Qed.
  Lemma update_peers_Q :
    (forall id src dst port, A (NUTable UInsert (n_tunnel_peer id src dst port))) ->
    (forall id src dst port, A (NUTable UModify (n_tunnel_peer id src dst port))) ->
    forall fs x log x' log' r, update_peers c fs x log = (x', log', r) -> Q (u_sw x) -> Q (u_sw x').
  Proof.
    intros Ai Am. induction fs as [|f fs IH]; intros x log x' log' r H Hx; cbn in H; [inv_pairs; exact Hx|].
    destruct (needs_peer f); [|eapply IH; eauto].
    destruct (add_or_update_peer c f x) as [[x1 l1] rs] eqn:E.
    pose proof (add_or_update_peer_Q _ _ _ _ _ Ai Am E Hx) as H1.
    destruct rs; [eapply IH; eauto | inv_pairs; exact H1 ..].
  Qed.
  Lemma remove_peer_Q f x x' log' :
    (forall id src dst port, A (NUTable UDelete (n_tunnel_peer id src dst port))) ->
    remove_peer c f x = (x', log') -> Q (u_sw x) -> Q (u_sw x').
  Proof.
    intros Ad. unfold remove_peer. intros H Hx. destruct (peer_get _ _ _) as [p|]; [|inv_pairs; exact Hx].
    destruct (set_del _ _); [|inv_pairs; exact Hx].
    destruct (write _ _) as [x2 cs] eqn:W in H.
    assert (Q (u_sw x2)) by (eapply write_Q; [exact W | repeat constructor; apply Ad | exact Hx]).
    inv_pairs. assumption.
  Qed.
  Lemma remove_peers_Q :
    (forall id src dst port, A (NUTable UDelete (n_tunnel_peer id src dst port))) ->
    forall fs x log x' log', remove_peers c fs x log = (x', log') -> Q (u_sw x) -> Q (u_sw x').
  Proof.
    intros Ad. induction fs as [|f fs IH]; intros x log x' log' H Hx; cbn in H; [inv_pairs; exact Hx|].
    destruct (remove_peer c f x) as [x1 l1] eqn:E. eapply IH; [exact H|]. eapply remove_peer_Q; eauto.
  Qed.

  (* ---- applications only touch the bookkeeping *)
  Lemma add_app_sw fseid p x x' e id ok : add_app c fseid p x = (x', e, id, ok) -> u_sw x' = u_sw x.
  Proof.
    unfold add_app. destruct (app_key p) as [[[ip lo] hi] proto]. destruct (app_get _ _ _ _ _); [intros H; inv_pairs; reflexivity|].
    destruct (u_app_pool x); intros H; inv_pairs; reflexivity.
  Qed.
  Lemma remove_app_sw fseid p x x' e id : remove_app c fseid p x = (x', e, id) -> u_sw x' = u_sw x.
  Proof.
    unfold remove_app. destruct (app_key p) as [[[ip lo] hi] proto]. destruct (app_get _ _ _ _ _); [|intros H; inv_pairs; reflexivity].
    destruct (set_del _ _); intros H; inv_pairs; reflexivity.
  Qed.
  Lemma add_app_entry fseid p x x' e id ok : add_app c fseid p x = (x', Some e, id, ok) -> e = n_application p (cf_slice c) id.
  Proof.
    unfold add_app. destruct (app_key p) as [[[ip lo] hi] proto]. destruct (app_get _ _ _ _ _); [intros H; inv_pairs|].
    destruct (u_app_pool x); intros H; inv_pairs; reflexivity.
  Qed.
  Lemma remove_app_entry fseid p x x' e id : remove_app c fseid p x = (x', Some e, id) -> e = n_application p (cf_slice c) id.
  Proof.
    unfold remove_app. destruct (app_key p) as [[[ip lo] hi] proto]. destruct (app_get _ _ _ _ _); [|intros H; inv_pairs].
    destruct (set_del _ _); intros H; inv_pairs; reflexivity.
  Qed.

  (* ---- modifyUP4ForwardingConfiguration *)
  Lemma pdr_pre_session fars r x f se ue : pdr_pre fars r x = Some (f, se, ue) -> In (ne_table se) pdr_tables.
  Proof.
    unfold pdr_pre. destruct (max_uint16 <? _); [discriminate|]. destruct (find_far _ _) as [f0|]; [|discriminate].
    destruct (peer_get _ _ _); destruct (Agent.a_teid f0 =? 0); try discriminate;
      (destruct (n_session _ _ _ _) as [se0|] eqn:E; [|discriminate]);
      (destruct (if is_uplink r then _ else _); [|discriminate]); intros H; inversion H; subst; eapply n_session_table; eauto.
  Qed.
  Lemma app_step_sw ty fseid bp x x' e id : app_step c ty fseid bp x = (x', e, id) -> u_sw x' = u_sw x.
  Proof.
    unfold app_step. destruct (app_filter_empty bp); [intros H; inv_pairs; reflexivity|].
    destruct ty; [| |intros Hr; eapply remove_app_sw; eauto|];
      (destruct (add_app c fseid bp x) as [[[xa ea] ida] oka] eqn:Ea; apply add_app_sw in Ea; destruct oka; intros Hr; inv_pairs; exact Ea).
  Qed.
  Lemma app_step_entry ty fseid bp x x' e id : app_step c ty fseid bp x = (x', Some e, id) -> e = n_application bp (cf_slice c) id.
  Proof.
    unfold app_step. destruct (app_filter_empty bp); [intros H; inv_pairs|].
    destruct ty; [| |intros Hr; eapply remove_app_entry; eauto|];
      (destruct (add_app c fseid bp x) as [[[xa ea] ida] oka] eqn:Ea; destruct oka; intros Hr; inv_pairs; eapply add_app_entry; eauto).
  Qed.
  Lemma pdr_batch_tables se ae te app_id bp :
    In (ne_table se) pdr_tables -> In (ne_table te) pdr_tables ->
    (forall e, ae = Some e -> e = n_application bp (cf_slice c) app_id) ->
    forall e, In e (pdr_batch se ae te) -> In (ne_table e) pdr_tables.
  Proof.
    intros Hs Ht Ha e. unfold pdr_batch. cbn [List.app]. intros [<-|H]; [exact Hs|]. apply in_app_or in H. destruct H as [H|[<-|[]]]; [|exact Ht].
    destruct ae as [e0|]; [|destruct H]. destruct H as [<-|[]]. rewrite (Ha e0 eq_refl). cbn. unfold pdr_tables. cbn. auto 6.
  Qed.

  Lemma one_pdr_Q ty fars qers r x x' log' rs :
    (forall e, In (ne_table e) pdr_tables -> A (NUTable ty e)) ->
    one_pdr c ty fars qers r x = (x', log', rs) -> Q (u_sw x) -> Q (u_sw x').
  Proof.
    intros Ap. unfold one_pdr. intros H Hx.
    destruct (pdr_pre fars r x) as [[[f se] ue]|] eqn:Epre; [|inv_pairs; exact Hx].
    destruct (app_step c ty _ _ x) as [[x1 ae] app_id] eqn:Eapp.
    assert (Hx1 : Q (u_sw x1)) by (rewrite (app_step_sw _ _ _ _ _ _ _ Eapp); exact Hx).
    destruct (pdr_term c qers r f ue app_id x1) as [te|] eqn:Ete; [|inv_pairs; exact Hx1].
    destruct (write _ _) as [x2 cs] eqn:W in H.
    assert (Q (u_sw x2)).
    { eapply write_Q; [exact W| |exact Hx1]. apply Forall_forall. intros u Hu. apply in_map_iff in Hu. destruct Hu as [e [<- He]].
      apply Ap. eapply pdr_batch_tables; [eapply pdr_pre_session; eauto | eapply n_termination_table; exact Ete | | exact He].
      intros e0 ->. eapply app_step_entry; eauto. }
    destruct (tolerated cs); inv_pairs; assumption.
  Qed.
  Lemma modify_cfg_Q ty fars qers :
    (forall e, In (ne_table e) pdr_tables -> A (NUTable ty e)) ->
    forall pdrs x log x' log' rs, modify_cfg c ty pdrs fars qers x log = (x', log', rs) -> Q (u_sw x) -> Q (u_sw x').
  Proof.
    intros Ap. induction pdrs as [|r pdrs IH]; intros x log x' log' rs H Hx; cbn in H; [inv_pairs; exact Hx|].
    destruct (one_pdr c ty fars qers r x) as [[x1 l1] r1] eqn:E.
    pose proof (one_pdr_Q _ _ _ _ _ _ _ _ Ap E Hx) as H1.
    destruct r1; [eapply IH; eauto | inv_pairs; exact H1 ..].
  Qed.
End Traverse.

Lemma fold_ue_update_sw rs : forall x, u_sw (fold_left ue_update rs x) = u_sw x.
Proof. induction rs as [|r rs IH]; intros x; cbn; [reflexivity|]. rewrite IH. unfold ue_update. destruct (is_uplink r); reflexivity. Qed.
Lemma fold_ue_remove_sw rs : forall x, u_sw (fold_left ue_remove rs x) = u_sw x.
Proof. induction rs as [|r rs IH]; intros x; cbn; [reflexivity|]. rewrite IH. unfold ue_remove. destruct (is_uplink r); reflexivity. Qed.

Section Calls.
  Variable Q : switch -> Prop.
  Variable A : nupd -> Prop.
  Hypothesis HQ : forall u s, A u -> Q s -> Q (fst (sw_apply u s)).
  Variable c : config.

  Lemma send_create_Q all upd x orc x' o :
    (forall id k, A (NUCounter id k)) -> (forall id k b, A (NUMeter id k b)) ->
    (forall id src dst port, A (NUTable UInsert (n_tunnel_peer id src dst port))) ->
    (forall id src dst port, A (NUTable UModify (n_tunnel_peer id src dst port))) ->
    (forall e, In (ne_table e) pdr_tables -> A (NUTable UInsert e)) ->
    send_create c all upd x orc = (x', o) -> Q (u_sw x) -> Q (u_sw x').
  Proof.
    intros Ac Am Ai Amo Ap. unfold send_create. intros H Hx.
    destruct (alloc_counters _ _ _ _ _ _) as [[[[x1 pdrs1] orc1] log1] r1] eqn:E1.
    pose proof (alloc_counters_Q Q A HQ Ac _ _ _ _ _ _ _ _ _ _ _ E1 Hx) as H1.
    destruct r1; try (inv_pairs; exact H1).
    destruct (configure_meters _ _ _ _) as [[[x3 orc3] log3] r3] eqn:E3. unfold configure_meters in E3.
    assert (H3 : Q (u_sw x3)) by (eapply (configure_meters_loop_Q Q A HQ Am); [exact E3 | rewrite fold_ue_update_sw; exact H1]).
    destruct r3; try (inv_pairs; exact H3).
    destruct (update_peers _ _ _ _) as [[x4 log4] r4] eqn:E4.
    pose proof (update_peers_Q Q A HQ c Ai Amo _ _ _ _ _ _ E4 H3) as H4.
    destruct r4; try (inv_pairs; exact H4).
    destruct (modify_cfg _ _ _ _ _ _ _) as [[x5 log5] r5] eqn:E5.
    pose proof (modify_cfg_Q Q A HQ c _ _ _ Ap _ _ _ _ _ _ E5 H4) as H5.
    inv_pairs. exact H5.
  Qed.

  Lemma send_update_Q all upd x x' o :
    (forall id src dst port, A (NUTable UInsert (n_tunnel_peer id src dst port))) ->
    (forall id src dst port, A (NUTable UModify (n_tunnel_peer id src dst port))) ->
    (forall e, In (ne_table e) pdr_tables -> A (NUTable UModify e)) ->
    send_update c all upd x = (x', o) -> Q (u_sw x) -> Q (u_sw x').
  Proof.
    intros Ai Amo Ap. unfold send_update. intros H Hx.
    destruct (update_peers _ _ _ _) as [[x2 log2] r2] eqn:E2.
    assert (H2 : Q (u_sw x2)) by (eapply (update_peers_Q Q A HQ c Ai Amo); [exact E2 | rewrite fold_ue_update_sw; exact Hx]).
    destruct r2; try (inv_pairs; exact H2).
    destruct (modify_cfg _ _ _ _ _ _ _) as [[x3 log3] r3] eqn:E3.
    pose proof (modify_cfg_Q Q A HQ c _ _ _ Ap _ _ _ _ _ _ E3 H2) as H3.
    inv_pairs. exact H3.
  Qed.

  Lemma send_delete_Q del x x' o :
    (forall id k b, A (NUMeter id k b)) ->
    (forall id src dst port, A (NUTable UDelete (n_tunnel_peer id src dst port))) ->
    (forall e, In (ne_table e) pdr_tables -> A (NUTable UDelete e)) ->
    send_delete c del x = (x', o) -> Q (u_sw x) -> Q (u_sw x').
  Proof.
    intros Am Ad Ap. unfold send_delete. intros H Hx.
    destruct (modify_cfg _ _ _ _ _ _ _) as [[x2 log2] r2] eqn:E2.
    assert (H2 : Q (u_sw x2)) by (eapply (modify_cfg_Q Q A HQ c _ _ _ Ap); [exact E2 | exact Hx]).
    destruct r2; try (inv_pairs; exact H2).
    destruct (reset_meters _ _ _) as [x3 log3] eqn:E3.
    pose proof (reset_meters_Q Q A HQ Am _ _ _ _ _ E3 H2) as H3.
    destruct (remove_peers _ _ _ _) as [x4 log4] eqn:E4.
    pose proof (remove_peers_Q Q A HQ c Ad _ _ _ _ _ E4 H3) as H4.
    inv_pairs. rewrite fold_ue_remove_sw. exact H4.
  Qed.
End Calls.

(* the class of updates SendMsgToUPF can emit (all three methods): counters, meter cells, and table updates of the six
   session-related tables - never the interfaces table *)
Definition session_tables : list string := t_peers :: pdr_tables.
Definition call_class (u : nupd) : Prop := match u with NUTable _ e => In (ne_table e) session_tables | _ => True end.

Lemma step_Q (Q : switch -> Prop) :
  (forall u s, call_class u -> Q s -> Q (fst (sw_apply u s))) ->
  forall g x k orc, k <> CRestart -> Q (u_sw x) -> Q (u_sw (fst (step g x k orc))).
Proof.
  intros HQ g x k orc Hk Hx.
  assert (Hp : forall ty id src dst port, call_class (NUTable ty (n_tunnel_peer id src dst port))) by (intros; cbn; auto).
  assert (Hd : forall ty e, In (ne_table e) pdr_tables -> call_class (NUTable ty e)) by (intros ty e He; cbn; auto).
  destruct k as [all upd|all upd|all|]; cbn [step]; [| | |congruence].
  - destruct (send_create (uc g) all upd x orc) as [x' o] eqn:E. cbn.
    eapply (send_create_Q Q call_class HQ); [..|exact E|exact Hx]; intros; cbn; auto.
  - destruct (send_update (uc g) all upd x) as [x' o] eqn:E. cbn.
    eapply (send_update_Q Q call_class HQ); [..|exact E|exact Hx]; intros; cbn; auto.
  - destruct (send_delete (uc g) all x) as [x' o] eqn:E. cbn.
    eapply (send_delete_Q Q call_class HQ); [..|exact E|exact Hx]; intros; cbn; auto.
Qed.

(* ---- instances of the traversal *)
Lemma replace_key_keys e l : map key_of (replace_key e l) = map key_of l.
Proof.
  unfold replace_key. induction l as [|x l IH]; cbn; [reflexivity|]. rewrite IH.
  destruct (nkey_eqb (key_of x) (key_of e)) eqn:E; [apply nkey_eqb_eq in E; rewrite E; reflexivity | reflexivity].
Qed.
Lemma in_replace_key x e l : In x (replace_key e l) -> x = e \/ In x l.
Proof.
  unfold replace_key. intros H. apply in_map_iff in H. destruct H as [y [H1 H2]].
  destruct (nkey_eqb (key_of y) (key_of e)); [left; auto | right; subst; auto].
Qed.
Lemma in_remove_key x k l : In x (remove_key k l) -> In x l.
Proof. unfold remove_key. intros H. apply filter_In in H. tauto. Qed.
Lemma NoDup_map_filter {A B} (f : A -> B) (p : A -> bool) l : NoDup (map f l) -> NoDup (map f (filter p l)).
Proof.
  induction l as [|x l IH]; cbn; [auto|]. intros H. inversion H; subst. destruct (p x); cbn; [|auto].
  constructor; [|auto]. intros Hin. apply H2. apply in_map_iff in Hin. destruct Hin as [y [H4 H5]]. apply filter_In in H5.
  apply in_map_iff. exists y. tauto.
Qed.

(* (I1) every entry belongs to one of the seven tables clearTables knows *)
Definition closed (s : switch) : Prop := forall e, In e (sw_entries s) -> In (ne_table e) up4_tables.
Lemma session_tables_up4 t : In t session_tables -> In t up4_tables.
Proof. unfold session_tables, pdr_tables, up4_tables. cbn. intuition (subst; auto 10). Qed.
Lemma closed_apply u s : (match u with NUTable _ e => In (ne_table e) up4_tables | _ => True end) -> closed s -> closed (fst (sw_apply u s)).
Proof.
  unfold closed. destruct u as [ty e|id k b|id k]; [|destruct b; cbn; auto|cbn; auto].
  intros He Hs x. unfold sw_apply.
  destruct ty; destruct (has_key (key_of e) (sw_entries s)); cbn [fst sw_entries]; auto.
  - intros H. apply in_app_or in H. destruct H as [H|[<-|[]]]; auto.
  - intros H. apply in_replace_key in H. destruct H as [->|H]; auto.
  - intros H. apply in_remove_key in H. auto.
Qed.

(* (I2) keys are unique *)
Definition nodup_keys (s : switch) : Prop := NoDup (map key_of (sw_entries s)).
Lemma nodup_keys_apply u s : nodup_keys s -> nodup_keys (fst (sw_apply u s)).
Proof.
  unfold nodup_keys. destruct u as [ty e|id k b|id k]; [|destruct b; cbn; auto|cbn; auto].
  intros Hs. unfold sw_apply.
  destruct ty; destruct (has_key (key_of e) (sw_entries s)) eqn:Hk; cbn [fst sw_entries]; auto.
  - rewrite map_app. cbn. apply nodup_app. repeat split; [exact Hs | repeat constructor; intros [] |].
    intros a Ha [<-|[]]. apply in_map_iff in Ha. destruct Ha as [y [H1 H2]].
    assert (has_key (key_of e) (sw_entries s) = true) by (apply has_key_in; eauto). congruence.
  - rewrite replace_key_keys. exact Hs.
  - unfold remove_key. apply NoDup_map_filter. exact Hs.
Qed.

(* (I3) the interfaces table *)
Definition is_iface (e : nentry) : bool := String.eqb (ne_table e) t_ifaces.
Definition ifaces (s : switch) : list nentry := filter is_iface (sw_entries s).
Lemma is_iface_key x e : key_of x = key_of e -> is_iface x = is_iface e.
Proof. unfold key_of, is_iface. intros H. inversion H. rewrite H1. reflexivity. Qed.
Lemma ifaces_apply u s : call_class u -> ifaces (fst (sw_apply u s)) = ifaces s.
Proof.
  unfold ifaces. destruct u as [ty e|id k b|id k]; [|destruct b; reflexivity|reflexivity].
  intros He. assert (Hn : is_iface e = false).
  { unfold is_iface. cbn in He. unfold session_tables, pdr_tables in He. cbn in He.
    destruct He as [<-|[<-|[<-|[<-|[<-|[<-|[]]]]]]]; reflexivity. }
  unfold sw_apply.
  destruct ty; destruct (has_key (key_of e) (sw_entries s)); cbn [fst sw_entries]; auto.
  - rewrite filter_app. cbn. rewrite Hn. apply app_nil_r.
  - unfold replace_key. induction (sw_entries s) as [|x l IH]; cbn; [reflexivity|].
    destruct (nkey_eqb (key_of x) (key_of e)) eqn:E.
    + apply nkey_eqb_eq in E. rewrite (is_iface_key _ _ E), Hn. exact IH.
    + rewrite IH. reflexivity.
  - unfold remove_key. induction (sw_entries s) as [|x l IH]; cbn; [reflexivity|].
    destruct (nkey_eqb (key_of x) (key_of e)) eqn:E; cbn.
    + apply nkey_eqb_eq in E. rewrite (is_iface_key _ _ E), Hn. exact IH.
    + rewrite IH. reflexivity.
Qed.

(* (I4) / (I5): what sendUpdate can do to the switch: MODIFY anything, INSERT into tunnel_peers - nothing else *)
Definition update_class (u : nupd) : Prop :=
  match u with
  | NUTable UModify _ => True
  | NUTable UInsert e => ne_table e = t_peers
  | _ => False
  end.
Definition not_peer (e : nentry) : bool := negb (String.eqb (ne_table e) t_peers).
Definition fixed_keys (s : switch) : list nkey := map key_of (filter not_peer (sw_entries s)).
Lemma not_peer_key x e : key_of x = key_of e -> not_peer x = not_peer e.
Proof. unfold key_of, not_peer. intros H. inversion H. rewrite H1. reflexivity. Qed.
Lemma update_class_apply u s : update_class u ->
  fixed_keys (fst (sw_apply u s)) = fixed_keys s /\ sw_meters (fst (sw_apply u s)) = sw_meters s /\
  sw_counters (fst (sw_apply u s)) = sw_counters s.
Proof.
  unfold fixed_keys. destruct u as [ty e|id k b|id k]; [|intros []|intros []].
  destruct ty; cbn [update_class]; [intros He | intros _ | intros [] | intros []]; unfold sw_apply;
    destruct (has_key (key_of e) (sw_entries s)); cbn [fst sw_entries sw_meters sw_counters]; auto.
  - rewrite filter_app. cbn. unfold not_peer at 2. rewrite He. cbn. rewrite app_nil_r. auto.
  - repeat split. unfold replace_key. induction (sw_entries s) as [|x l IH]; cbn; [reflexivity|].
    destruct (nkey_eqb (key_of x) (key_of e)) eqn:E.
    + apply nkey_eqb_eq in E. rewrite (not_peer_key _ _ E). destruct (not_peer e); cbn; rewrite IH, ?E; reflexivity.
    + destruct (not_peer x); cbn; rewrite IH; reflexivity.
Qed.

Lemma send_update_effect c all upd x x' o :
  send_update c all upd x = (x', o) ->
  fixed_keys (u_sw x') = fixed_keys (u_sw x) /\ sw_meters (u_sw x') = sw_meters (u_sw x) /\ sw_counters (u_sw x') = sw_counters (u_sw x).
Proof.
  intros H.
  apply (send_update_Q (fun s => fixed_keys s = fixed_keys (u_sw x) /\ sw_meters s = sw_meters (u_sw x) /\ sw_counters s = sw_counters (u_sw x))
                       update_class) with (c := c) (all := all) (upd := upd) (x := x) (o := o); auto; try (intros; cbn; auto; fail).
  intros u s Hu (H1 & H2 & H3). destruct (update_class_apply u s Hu) as (G1 & G2 & G3). rewrite G1, G2, G3. auto.
Qed.

(* ================================================================== Part 4: start-up and restart *)
Lemma del_batch : forall es s,
  NoDup (map key_of es) -> (forall e, In e es -> has_key (key_of e) (sw_entries s) = true) ->
  all_ok (snd (sw_batch (map (NUTable UDelete) es) s)) = true /\
  sw_entries (fst (sw_batch (map (NUTable UDelete) es) s)) =
    filter (fun x => negb (existsb (fun e => nkey_eqb (key_of e) (key_of x)) es)) (sw_entries s) /\
  sw_meters (fst (sw_batch (map (NUTable UDelete) es) s)) = sw_meters s /\
  sw_counters (fst (sw_batch (map (NUTable UDelete) es) s)) = sw_counters s.
Proof.
  induction es as [|e es IH]; intros s Hnd Hin; cbn [map sw_batch].
  - cbn. repeat split; auto. clear. induction (sw_entries s) as [|x l IHl]; cbn; [reflexivity|]. rewrite <- IHl. reflexivity.
  - inversion Hnd as [|? ? Hn Hd]; subst.
    set (s1 := Sw (remove_key (key_of e) (sw_entries s)) (sw_meters s) (sw_counters s)).
    assert (Ha : sw_apply (NUTable UDelete e) s = (s1, OK)) by (unfold sw_apply; rewrite (Hin e (or_introl eq_refl)); reflexivity).
    rewrite Ha.
    destruct (IH s1 Hd) as (I1 & I2 & I3 & I4).
    { intros e' He'. unfold s1. cbn [sw_entries]. rewrite has_key_get, get_key_remove.
      destruct (nkey_eqb (key_of e) (key_of e')) eqn:E.
      - apply nkey_eqb_eq in E. exfalso. apply Hn. rewrite E. apply in_map. exact He'.
      - rewrite <- has_key_get. apply Hin. right. exact He'. }
    destruct (sw_batch (map (NUTable UDelete) es) s1) as [s2 cs] eqn:E2. cbn in *. repeat split; auto.
    rewrite I2. unfold remove_key. clear. induction (sw_entries s) as [|x l IHl]; cbn; [reflexivity|].
    destruct (nkey_eqb (key_of x) (key_of e)) eqn:E.
    + apply nkey_eqb_eq in E. rewrite E, nkey_eqb_refl. cbn. exact IHl.
    + cbn. assert (nkey_eqb (key_of e) (key_of x) = false) as ->.
      { destruct (nkey_eqb (key_of e) (key_of x)) eqn:E'; [|reflexivity]. apply nkey_eqb_eq in E'. rewrite E', nkey_eqb_refl in E. discriminate. }
      cbn. destruct (existsb _ es); cbn; rewrite IHl; reflexivity.
Qed.

Lemma in_tables_key ts x e : key_of x = key_of e -> in_tables ts x = in_tables ts e.
Proof. unfold key_of, in_tables. intros H. inversion H. rewrite H1. reflexivity. Qed.

Lemma clear_effect ts s : nodup_keys s ->
  let r := sw_batch (clear_updates ts s) s in
  all_ok (snd r) = true /\ sw_entries (fst r) = filter (fun x => negb (in_tables ts x)) (sw_entries s) /\
  sw_meters (fst r) = sw_meters s /\ sw_counters (fst r) = sw_counters s.
Proof.
  intros Hnd. unfold clear_updates. cbn zeta.
  destruct (del_batch (filter (in_tables ts) (sw_entries s)) s) as (H1 & H2 & H3 & H4).
  - apply NoDup_map_filter. exact Hnd.
  - intros e He. apply filter_In in He. apply has_key_in. exists e. tauto.
  - repeat split; auto. rewrite H2. apply filter_ext_in. intros x Hx. f_equal.
    destruct (in_tables ts x) eqn:Et.
    + apply existsb_exists. exists x. split; [apply filter_In; auto | apply nkey_eqb_refl].
    + destruct (existsb _ _) eqn:Ex; [|reflexivity]. apply existsb_exists in Ex. destruct Ex as [e [He1 He2]].
      apply filter_In in He1. apply nkey_eqb_eq in He2. rewrite <- (in_tables_key ts _ _ He2) in Et. destruct He1. congruence.
Qed.

Lemma closed_filter s : closed s -> filter (fun x => negb (in_tables up4_tables x)) (sw_entries s) = [].
Proof.
  unfold closed. intros H. induction (sw_entries s) as [|x l IH]; cbn [filter]; [reflexivity|].
  assert (in_tables up4_tables x = true) as ->.
  { unfold in_tables. apply existsb_exists. exists (ne_table x). split; [apply H; left; reflexivity | apply String.eqb_refl]. }
  cbn. apply IH. intros e He. apply H. right. exact He.
Qed.

Definition prefixes_differ (c : config) : Prop := (cf_pool c, cf_pool_plen c) <> (cf_n3 c, cf_n3_plen c).

(* kill and restart against the same, still populated switch: afterwards the tables hold the two interfaces entries and
   nothing else; the new incarnation's bookkeeping is empty, its pools are full; meter cells and counters are not touched *)
Lemma boot_effect g s : closed s -> nodup_keys s -> prefixes_differ (uc g) ->
  let x := fst (boot g s) in
  o_res (snd (boot g s)) = ROk /\ sw_entries (u_sw x) = interfaces (uc g) /\
  sw_meters (u_sw x) = sw_meters s /\ sw_counters (u_sw x) = sw_counters s /\
  u_peers x = [] /\ u_apps x = [] /\ u_meters x = [] /\ u_ue2f x = [] /\ u_f2ue x = [] /\
  u_ctr_pool x = range 0 (uc_ctr_size g) /\ u_app_cells x = range 1 (uc_appm_size g) /\ u_sess_cells x = range 1 (uc_sessm_size g) /\
  u_peer_pool x = range 2 (max_tunnel_peer_ids + 2) /\ u_app_pool x = range 1 (max_application_ids + 1).
Proof.
  intros Hc Hn Hp. unfold boot. destruct (clear_effect up4_tables s Hn) as (C1 & C2 & C3 & C4). cbn zeta in *.
  destruct (sw_batch (clear_updates up4_tables s) s) as [s1 cs1] eqn:E1. cbn [fst snd] in *. rewrite C1.
  rewrite (closed_filter s Hc) in C2.
  unfold write. cbn [u_sw interfaces map sw_batch sw_apply]. rewrite C2. cbn [has_key existsb List.app sw_entries].
  assert (nkey_eqb (key_of (n_interface (cf_pool (uc g)) (cf_pool_plen (uc g)) (cf_slice (uc g)) true))
                   (key_of (n_interface (cf_n3 (uc g)) (cf_n3_plen (uc g)) (cf_slice (uc g)) false)) = false) as Hk.
  { apply nkey_eqb_neq. unfold key_of, n_interface. cbn. intros H. apply Hp. inversion H. reflexivity. }
  rewrite Hk. cbn. rewrite C3, C4. repeat split; reflexivity.
Qed.

Lemma call_eq_restart k : k = CRestart \/ k <> CRestart.
Proof. destruct k; [right|right|right|left]; congruence. Qed.

(* all histories: whatever calls and oracle choices, the switch stays closed with unique keys, and the interfaces table
   holds exactly the two start-up entries *)
Lemma sw_inv_step g x k orc : prefixes_differ (uc g) ->
  closed (u_sw x) /\ nodup_keys (u_sw x) /\ ifaces (u_sw x) = interfaces (uc g) ->
  let x' := fst (step g x k orc) in closed (u_sw x') /\ nodup_keys (u_sw x') /\ ifaces (u_sw x') = interfaces (uc g).
Proof.
  intros Hp (H1 & H2 & H3). destruct (call_eq_restart k) as [->|Hk].
  - cbn [step]. destruct (boot_effect g (u_sw x) H1 H2 Hp) as (_ & B2 & _). cbn zeta in *.
    unfold closed, nodup_keys, ifaces. rewrite B2. split; [|split].
    + intros e [<-|[<-|[]]]; cbn; auto 10.
    + cbn. constructor; [intros [H|[]]; apply Hp; inversion H; reflexivity | repeat constructor; intros []].
    + reflexivity.
  - cbn zeta. split; [|split].
    + apply (step_Q closed); auto. intros u s Hu. apply closed_apply. destruct u; auto. apply session_tables_up4. exact Hu.
    + apply (step_Q nodup_keys); auto. intros u s _. apply nodup_keys_apply.
    + apply (step_Q (fun s => ifaces s = interfaces (uc g))); auto. intros u s Hu Hs. rewrite ifaces_apply; auto.
Qed.

Definition sw_inv (g : ucfg) (x : up4) : Prop :=
  closed (u_sw x) /\ nodup_keys (u_sw x) /\ ifaces (u_sw x) = interfaces (uc g).

Lemma init_inv g : prefixes_differ (uc g) -> sw_inv g (init g).
Proof.
  intros Hp. unfold init. assert (Hc : closed empty_switch) by (intros e []). assert (Hn : nodup_keys empty_switch) by constructor.
  destruct (boot_effect g empty_switch Hc Hn Hp) as (_ & B2 & _). cbn zeta in B2.
  unfold sw_inv, closed, nodup_keys, ifaces. rewrite B2. split; [|split].
  - intros e [<-|[<-|[]]]; cbn; auto 10.
  - cbn. constructor; [intros [H|[]]; apply Hp; inversion H; reflexivity | repeat constructor; intros []].
  - reflexivity.
Qed.

Lemma run_inv g : prefixes_differ (uc g) -> forall h x, sw_inv g x -> sw_inv g (run g x h).
Proof.
  intros Hp. induction h as [|[k orc] h IH]; intros x Hx; cbn [run]; [exact Hx|].
  apply IH. apply (sw_inv_step g x k orc Hp Hx).
Qed.

(* for ALL histories (any calls - also modifications and rejected ones -, any oracle choices, restarts anywhere) *)
Lemma interfaces_throughout g h : prefixes_differ (uc g) -> ifaces (u_sw (run g (init g) h)) = interfaces (uc g).
Proof. intros Hp. apply (run_inv g Hp h (init g) (init_inv g Hp)). Qed.

(* every crash point: kill and restart after any history *)
Lemma restart_anywhere g h : prefixes_differ (uc g) ->
  let r := step g (run g (init g) h) CRestart [] in
  o_res (snd r) = ROk /\ sw_entries (u_sw (fst r)) = interfaces (uc g) /\
  u_peers (fst r) = [] /\ u_apps (fst r) = [] /\ u_meters (fst r) = [] /\ u_ue2f (fst r) = [] /\ u_f2ue (fst r) = [].
Proof.
  intros Hp. destruct (run_inv g Hp h (init g) (init_inv g Hp)) as (H1 & H2 & _). cbn [step].
  destruct (boot_effect g _ H1 H2 Hp) as (B1 & B2 & _ & _ & B5 & B6 & B7 & B8 & B9 & _). cbn zeta in *. auto 10.
Qed.

(* ================================================================== Part 5: establishment and deletion *)
(* ---- batches of INSERTs: nothing that exists changes; every key of the batch is bound afterwards, to the batch's
   own entry unless the key was bound before (or earlier in the batch) *)
Lemma insert_apply_mono e s k v : get_key k (sw_entries s) = Some v -> get_key k (sw_entries (fst (sw_apply (NUTable UInsert e) s))) = Some v.
Proof.
  intros H. destruct (sw_apply_table UInsert e s k) as [G _]. rewrite G. unfold expect_table.
  destruct (nkey_eqb (key_of e) k) eqn:E; [|exact H]. apply nkey_eqb_eq in E. subst. rewrite H. reflexivity.
Qed.

Lemma insert_batch es : forall s,
  let s' := fst (sw_batch (map (NUTable UInsert) es) s) in
  (forall k v, get_key k (sw_entries s) = Some v -> get_key k (sw_entries s') = Some v) /\
  (forall e, In e es -> exists e', get_key (key_of e) (sw_entries s') = Some e' /\
                                   (e' = e \/ has_key (key_of e) (sw_entries s) = true \/ ~ NoDup (map key_of es))).
Proof.
  induction es as [|e es IH]; intros s; cbn [map sw_batch].
  - cbn. split; [auto|intros e []].
  - destruct (sw_apply (NUTable UInsert e) s) as [s1 c1] eqn:E1. destruct (sw_batch (map (NUTable UInsert) es) s1) as [s2 cs] eqn:E2.
    cbn [fst]. specialize (IH s1). rewrite E2 in IH. cbn [fst] in IH. destruct IH as [M B].
    assert (M1 : forall k v, get_key k (sw_entries s) = Some v -> get_key k (sw_entries s1) = Some v).
    { intros k v H. change s1 with (fst (s1, c1)). rewrite <- E1. apply insert_apply_mono. exact H. }
    split; [intros k v H; apply M, M1, H|].
    intros e0 [<-|Hin].
    + destruct (sw_apply_table UInsert e s (key_of e)) as [G _]. rewrite E1, nkey_eqb_refl in G. cbn [fst] in G. unfold expect_table in G.
      destruct (get_key (key_of e) (sw_entries s)) as [old|] eqn:Eo; cbn [fst] in G.
      * exists old. split; [apply M; exact G|]. right. left. rewrite has_key_get, Eo. reflexivity.
      * exists e. split; [apply M; exact G|]. left. reflexivity.
    + destruct (B e0 Hin) as [e' [G1 G2]]. exists e'. split; [exact G1|].
      destruct G2 as [->|[G2|G2]]; [left; reflexivity| |right; right; intros Hn; apply G2; inversion Hn; assumption].
      (* bound in s1: bound in s already, or it is e's key *)
      rewrite has_key_get in G2. destruct (sw_apply_table UInsert e s (key_of e0)) as [G _]. rewrite E1 in G. cbn [fst] in G.
      destruct (nkey_eqb (key_of e) (key_of e0)) eqn:Ek.
      * apply nkey_eqb_eq in Ek. destruct (has_key (key_of e0) (sw_entries s)) eqn:Eh; [right; left; reflexivity|].
        right. right. intros Hn. inversion Hn as [|? ? Hni _]; subst. apply Hni. rewrite Ek. apply in_map. exact Hin.
      * rewrite G in G2. right. left. rewrite has_key_get. exact G2.
Qed.

(* ---- batches of DELETEs whose statuses are all OK: every key of the batch is unbound afterwards, no key becomes bound *)
Lemma delete_apply_none e s k : get_key k (sw_entries s) = None -> get_key k (sw_entries (fst (sw_apply (NUTable UDelete e) s))) = None.
Proof.
  intros H. destruct (sw_apply_table UDelete e s k) as [G _]. rewrite G. unfold expect_table.
  destruct (nkey_eqb (key_of e) k) eqn:E; [|exact H]. destruct (get_key (key_of e) (sw_entries s)); reflexivity.
Qed.
Lemma delete_batch es : forall s,
  let r := sw_batch (map (NUTable UDelete) es) s in
  (forall k, get_key k (sw_entries s) = None -> get_key k (sw_entries (fst r)) = None) /\
  (tolerated (snd r) = true -> forall e, In e es -> get_key (key_of e) (sw_entries (fst r)) = None).
Proof.
  induction es as [|e es IH]; intros s; cbn [map sw_batch].
  - cbn. split; [auto|intros _ e []].
  - destruct (sw_apply (NUTable UDelete e) s) as [s1 c1] eqn:E1. destruct (sw_batch (map (NUTable UDelete) es) s1) as [s2 cs] eqn:E2.
    cbn [fst snd]. specialize (IH s1). rewrite E2 in IH. cbn [fst snd] in IH. destruct IH as [M B].
    assert (M1 : forall k, get_key k (sw_entries s) = None -> get_key k (sw_entries s1) = None).
    { intros k H. change s1 with (fst (s1, c1)). rewrite <- E1. apply delete_apply_none. exact H. }
    split; [intros k H; apply M, M1, H|].
    cbn [tolerated forallb]. intros Ht. apply andb_true_iff in Ht. destruct Ht as [Ht1 Ht2].
    intros e0 [<-|Hin]; [|apply B; assumption].
    apply M. destruct (sw_apply_table UDelete e s (key_of e)) as [G _]. rewrite E1, nkey_eqb_refl in G. cbn [fst] in G. rewrite G.
    unfold expect_table. destruct (get_key (key_of e) (sw_entries s)); reflexivity.
Qed.

(* ---- the batch modifyUP4ForwardingConfiguration writes for one PDR, as the model builds it in state [xr] *)
Definition same_bk (a b : up4) : Prop := u_peers a = u_peers b /\ u_meters a = u_meters b /\ u_f2ue a = u_f2ue b.
Lemma same_bk_refl a : same_bk a a. Proof. repeat split. Qed.
Lemma same_bk_trans a b d : same_bk a b -> same_bk b d -> same_bk a d.
Proof. intros (H1 & H2 & H3) (G1 & G2 & G3). repeat split; congruence. Qed.
Lemma same_bk_sym a b : same_bk a b -> same_bk b a.
Proof. intros (H1 & H2 & H3). repeat split; congruence. Qed.

Definition batch_of (c : config) (ty : utype) (fars : list Agent.far) (qers : list Agent.qer) (r : rpdr) (xr : up4) (es : list nentry) : Prop :=
  exists f se ue x1 ae app_id te,
    pdr_pre fars r xr = Some (f, se, ue) /\
    app_step c ty (Agent.p_fseid (rp_pdr r)) (to_pdr r ue) xr = (x1, ae, app_id) /\
    pdr_term c qers r f ue app_id x1 = Some te /\ es = pdr_batch se ae te.

Lemma add_app_bk c fseid p x x' e id ok : add_app c fseid p x = (x', e, id, ok) -> same_bk x' x.
Proof.
  unfold add_app. destruct (app_key p) as [[[ip lo] hi] proto]. destruct (app_get _ _ _ _ _); [intros H; inv_pairs; repeat split|].
  destruct (u_app_pool x); intros H; inv_pairs; repeat split.
Qed.
Lemma remove_app_bk c fseid p x x' e id : remove_app c fseid p x = (x', e, id) -> same_bk x' x.
Proof.
  unfold remove_app. destruct (app_key p) as [[[ip lo] hi] proto]. destruct (app_get _ _ _ _ _); [|intros H; inv_pairs; repeat split].
  destruct (set_del _ _); intros H; inv_pairs; repeat split.
Qed.
Lemma app_step_bk c ty fseid bp x x' e id : app_step c ty fseid bp x = (x', e, id) -> same_bk x' x.
Proof.
  unfold app_step. destruct (app_filter_empty bp); [intros H; inv_pairs; apply same_bk_refl|].
  destruct ty; [| |intros Hr; eapply remove_app_bk; eauto|];
    (destruct (add_app c fseid bp x) as [[[xa ea] ida] oka] eqn:Ea; apply add_app_bk in Ea; destruct oka; intros Hr; inv_pairs; exact Ea).
Qed.

Lemma one_pdr_ok c ty fars qers r x x' log :
  one_pdr c ty fars qers r x = (x', log, ROk) ->
  exists es, batch_of c ty fars qers r x es /\ same_bk x' x /\
             u_sw x' = fst (sw_batch (map (NUTable ty) es) (u_sw x)) /\ tolerated (snd (sw_batch (map (NUTable ty) es) (u_sw x))) = true.
Proof.
  unfold one_pdr. intros H.
  destruct (pdr_pre fars r x) as [[[f se] ue]|] eqn:Epre; [|inv_pairs].
  destruct (app_step c ty _ _ x) as [[x1 ae] app_id] eqn:Eapp.
  destruct (pdr_term c qers r f ue app_id x1) as [te|] eqn:Ete; [|inv_pairs].
  destruct (write _ _) as [x2 cs] eqn:W in H. destruct (tolerated cs) eqn:Et; inv_pairs.
  exists (pdr_batch se ae te). apply write_sw in W. destruct W as [-> ->].
  pose proof (app_step_sw c _ _ _ _ _ _ _ Eapp) as Hs.
  pose proof (app_step_bk _ _ _ _ _ _ _ _ Eapp) as Hb.
  split; [exists f, se, ue, x1, ae, app_id, te; auto|]. rewrite Hs in *.
  split; [|split; [reflexivity | exact Et]].
  destruct Hb as (B1 & B2 & B3). repeat split; cbn; assumption.
Qed.

Open Scope string_scope.
Lemma batch_keys_nodup c ty fars qers r xr es : batch_of c ty fars qers r xr es -> NoDup (map key_of es).
Proof.
  intros (f & se & ue & x1 & ae & app_id & te & H1 & H2 & H3 & ->).
  pose proof (pdr_pre_session _ _ _ _ _ _ H1) as Hs.
  assert (Ht : In (ne_table te) [t_term_ul; t_term_dl]).
  { unfold pdr_term in H3. unfold n_termination in H3.
    destruct (pd_src_iface _ =? access)%N; [inversion H3; unfold n_termination_uplink; destruct (far_drops _ || _); cbn; auto|].
    destruct (pd_src_iface _ =? core)%N; [|discriminate]. inversion H3. unfold n_termination_downlink. destruct (far_drops _ || _); cbn; auto. }
  assert (Hss : In (ne_table se) [t_sess_ul; t_sess_dl]).
  { unfold pdr_pre in H1. destruct (max_uint16 <? _)%N; [discriminate|]. destruct (find_far _ _) as [f0|]; [|discriminate].
    destruct (peer_get _ _ _); destruct (Agent.a_teid f0 =? 0)%N; try discriminate;
      (destruct (n_session _ _ _ _) as [se0|] eqn:E; [|discriminate]);
      (destruct (if is_uplink r then _ else _); [|discriminate]); inversion H1; subst;
      unfold n_session in E; (destruct (pd_src_iface _ =? access)%N; [inversion E; cbn; auto|]);
      (destruct (pd_src_iface _ =? core)%N; [|discriminate]); inversion E; unfold n_session_downlink; destruct (far_buffers _); cbn; auto. }
  assert (Ha : forall e, ae = Some e -> ne_table e = t_apps).
  { intros e ->. rewrite (app_step_entry _ _ _ _ _ _ _ _ H2). reflexivity. }
  unfold pdr_batch. destruct ae as [a|]; cbn [List.app map].
  - specialize (Ha a eq_refl). constructor; [|constructor; [|constructor; [intros []|constructor]]].
    + intros [H|[H|[]]]; unfold key_of in H; inversion H as [[Hx Hy Hz]];
        cbn in Hss, Ht; destruct Hss as [E|[E|[]]]; rewrite <- E in Hx; [rewrite Ha in Hx|rewrite Ha in Hx| |]; try discriminate;
          destruct Ht as [E2|[E2|[]]]; rewrite <- E2 in Hx; discriminate.
    + intros [H|[]]. unfold key_of in H. inversion H as [[Hx Hy Hz]]. rewrite Ha in Hx.
      cbn in Ht; destruct Ht as [E2|[E2|[]]]; rewrite <- E2 in Hx; discriminate.
  - constructor; [|constructor; [intros []|constructor]].
    intros [H|[]]. unfold key_of in H. inversion H as [[Hx Hy Hz]].
    cbn in Hss, Ht; destruct Hss as [E|[E|[]]]; rewrite <- E in Hx; destruct Ht as [E2|[E2|[]]]; rewrite <- E2 in Hx; discriminate.
Qed.
Close Scope string_scope.

(* accepted INSERT loop: nothing bound before changes; every PDR's batch is bound afterwards, to its own entries where
   the key was free when the batch was written *)
Lemma modify_cfg_insert c fars qers : forall pdrs x log x' log',
  modify_cfg c UInsert pdrs fars qers x log = (x', log', ROk) ->
  same_bk x' x /\
  (forall k v, get_key k (sw_entries (u_sw x)) = Some v -> get_key k (sw_entries (u_sw x')) = Some v) /\
  forall r, In r pdrs -> exists xr es,
    batch_of c UInsert fars qers r xr es /\ same_bk xr x /\
    (forall k v, get_key k (sw_entries (u_sw x)) = Some v -> get_key k (sw_entries (u_sw xr)) = Some v) /\
    forall e, In e es -> exists e', get_key (key_of e) (sw_entries (u_sw x')) = Some e' /\
                                    (e' = e \/ has_key (key_of e) (sw_entries (u_sw xr)) = true).
Proof.
  induction pdrs as [|r pdrs IH]; intros x log x' log' H; cbn in H.
  - inv_pairs. split; [apply same_bk_refl|]. split; [auto|intros r []].
  - destruct (one_pdr c UInsert fars qers r x) as [[x1 l1] r1] eqn:E1.
    destruct r1; try (inv_pairs; fail).
    destruct (one_pdr_ok _ _ _ _ _ _ _ _ E1) as (es & Hb & Hbk & Hsw & Htol).
    destruct (IH _ _ _ _ H) as (I1 & I2 & I3).
    destruct (insert_batch es (u_sw x)) as [M B]. cbn zeta in M, B. rewrite <- Hsw in M, B.
    split; [eapply same_bk_trans; eauto|]. split; [intros k v Hk; apply I2, M, Hk|].
    intros r0 [<-|Hin].
    + exists x, es. split; [exact Hb|]. split; [apply same_bk_refl|]. split; [auto|].
      intros e He. destruct (B e He) as [e' [G1 G2]]. exists e'. split; [apply I2; exact G1|].
      destruct G2 as [G2|[G2|G2]]; [left; exact G2 | right; exact G2 | exfalso; apply G2; eapply batch_keys_nodup; eauto].
    + destruct (I3 r0 Hin) as (xr & es0 & J1 & J2 & J3 & J4). exists xr, es0.
      split; [exact J1|]. split; [eapply same_bk_trans; eauto|]. split; [intros k v Hk; apply J3, M, Hk | exact J4].
Qed.

(* accepted DELETE loop: every key of every PDR's batch is unbound afterwards; no key becomes bound *)
Lemma modify_cfg_delete c fars qers : forall pdrs x log x' log',
  modify_cfg c UDelete pdrs fars qers x log = (x', log', ROk) ->
  same_bk x' x /\
  (forall k, get_key k (sw_entries (u_sw x)) = None -> get_key k (sw_entries (u_sw x')) = None) /\
  forall r, In r pdrs -> exists xr es,
    batch_of c UDelete fars qers r xr es /\ same_bk xr x /\ forall e, In e es -> get_key (key_of e) (sw_entries (u_sw x')) = None.
Proof.
  induction pdrs as [|r pdrs IH]; intros x log x' log' H; cbn in H.
  - inv_pairs. split; [apply same_bk_refl|]. split; [auto|intros r []].
  - destruct (one_pdr c UDelete fars qers r x) as [[x1 l1] r1] eqn:E1.
    destruct r1; try (inv_pairs; fail).
    destruct (one_pdr_ok _ _ _ _ _ _ _ _ E1) as (es & Hb & Hbk & Hsw & Htol).
    destruct (IH _ _ _ _ H) as (I1 & I2 & I3).
    destruct (delete_batch es (u_sw x)) as [M B]. cbn zeta in M, B. rewrite <- Hsw in M, B.
    split; [eapply same_bk_trans; eauto|]. split; [intros k Hk; apply I2, M, Hk|].
    intros r0 [<-|Hin].
    + exists x, es. split; [exact Hb|]. split; [apply same_bk_refl|]. intros e He. apply I2. apply B; assumption.
    + destruct (I3 r0 Hin) as (xr & es0 & J1 & J2 & J3). exists xr, es0. split; [exact J1|]. split; [eapply same_bk_trans; eauto | exact J3].
Qed.

(* ---- keys outside the tunnel_peers table are not affected by counters, meters and tunnel_peers updates *)
Definition table_of (k : nkey) : string := fst (fst k).
Definition peer_stage_class (u : nupd) : Prop := match u with NUTable _ e => ne_table e = t_peers | _ => True end.
Lemma peer_stage_apply k u s : table_of k <> t_peers -> peer_stage_class u ->
  get_key k (sw_entries (fst (sw_apply u s))) = get_key k (sw_entries s).
Proof.
  intros Hk Hu. destruct u as [ty e|id n b|id n]; [|destruct b; reflexivity|reflexivity].
  destruct (sw_apply_table ty e s k) as [G _]. rewrite G.
  destruct (nkey_eqb (key_of e) k) eqn:E; [|reflexivity]. apply nkey_eqb_eq in E. exfalso. apply Hk. rewrite <- E. exact Hu.
Qed.

Lemma create_installs c all upd x orc x' log all' :
  send_create c all upd x orc = (x', Out ROk log all') ->
  (forall k v, table_of k <> t_peers -> get_key k (sw_entries (u_sw x)) = Some v -> get_key k (sw_entries (u_sw x')) = Some v) /\
  forall r, In r all' -> exists xr es,
    batch_of c UInsert (r_fars all) (r_qers all) r xr es /\ same_bk xr x' /\
    (forall k v, table_of k <> t_peers -> get_key k (sw_entries (u_sw x)) = Some v -> get_key k (sw_entries (u_sw xr)) = Some v) /\
    forall e, In e es -> exists e', get_key (key_of e) (sw_entries (u_sw x')) = Some e' /\
                                    (e' = e \/ has_key (key_of e) (sw_entries (u_sw xr)) = true).
Proof.
  unfold send_create. intros H.
  destruct (alloc_counters _ _ _ _ _ _) as [[[[x1 pdrs1] orc1] log1] r1] eqn:E1.
  destruct r1; try (inv_pairs; fail).
  destruct (configure_meters _ _ _ _) as [[[x3 orc3] log3] r3] eqn:E3. unfold configure_meters in E3.
  destruct r3; try (inv_pairs; fail).
  destruct (update_peers _ _ _ _) as [[x4 log4] r4] eqn:E4.
  destruct r4; try (inv_pairs; fail).
  destruct (modify_cfg _ _ _ _ _ _ _) as [[x5 log5] r5] eqn:E5. inv_pairs.
  destruct (modify_cfg_insert _ _ _ _ _ _ _ _ E5) as (L1 & L2 & L3).
  assert (S4 : forall k v, table_of k <> t_peers -> get_key k (sw_entries (u_sw x)) = Some v -> get_key k (sw_entries (u_sw x4)) = Some v).
  { intros k v Hk Hv.
    assert (HQ : forall u s, peer_stage_class u -> get_key k (sw_entries s) = Some v -> get_key k (sw_entries (fst (sw_apply u s))) = Some v)
      by (intros u s Hu Hs; rewrite peer_stage_apply; auto).
    eapply (update_peers_Q (fun s => get_key k (sw_entries s) = Some v) peer_stage_class HQ); [intros; reflexivity..|exact E4|].
    eapply (configure_meters_loop_Q (fun s => get_key k (sw_entries s) = Some v) peer_stage_class HQ); [intros; exact I|exact E3|].
    rewrite fold_ue_update_sw.
    eapply (alloc_counters_Q (fun s => get_key k (sw_entries s) = Some v) peer_stage_class HQ); [intros; exact I|exact E1|exact Hv]. }
  split; [intros k v Hk Hv; apply L2, S4; assumption|].
  intros r Hr. destruct (L3 r Hr) as (xr & es & J1 & J2 & J3 & J4). exists xr, es.
  split; [exact J1|]. split; [eapply same_bk_trans; [exact J2 | apply same_bk_sym; exact L1]|].
  split; [intros k v Hk Hv; apply J3, S4; assumption | exact J4].
Qed.

Definition delete_stage_class (u : nupd) : Prop := match u with NUTable UDelete _ => True | NUTable _ _ => False | _ => True end.
Lemma delete_stage_apply k u s : delete_stage_class u -> get_key k (sw_entries s) = None -> get_key k (sw_entries (fst (sw_apply u s))) = None.
Proof.
  intros Hu H. destruct u as [ty e|id n b|id n]; [|destruct b; exact H|exact H].
  destruct ty; try (destruct Hu). apply delete_apply_none. exact H.
Qed.

Lemma delete_removes c del x x' log all' :
  send_delete c del x = (x', Out ROk log all') ->
  (forall k, get_key k (sw_entries (u_sw x)) = None -> get_key k (sw_entries (u_sw x')) = None) /\
  forall r, In r (r_pdrs del) -> exists xr es,
    batch_of c UDelete (r_fars del) (r_qers del) r xr es /\ same_bk xr x /\
    forall e, In e es -> get_key (key_of e) (sw_entries (u_sw x')) = None.
Proof.
  unfold send_delete. intros H.
  destruct (modify_cfg _ _ _ _ _ _ _) as [[x2 log2] r2] eqn:E2.
  destruct r2; try (inv_pairs; fail).
  destruct (reset_meters _ _ _) as [x3 log3] eqn:E3. destruct (remove_peers _ _ _ _) as [x4 log4] eqn:E4. inv_pairs.
  destruct (modify_cfg_delete _ _ _ _ _ _ _ _ E2) as (L1 & L2 & L3).
  assert (S4 : forall k, get_key k (sw_entries (u_sw x2)) = None -> get_key k (sw_entries (u_sw (fold_left ue_remove (r_pdrs del) x4))) = None).
  { intros k Hk. rewrite fold_ue_remove_sw.
    assert (HQ : forall u s, delete_stage_class u -> get_key k (sw_entries s) = None -> get_key k (sw_entries (fst (sw_apply u s))) = None)
      by (intros u s Hu Hs; apply delete_stage_apply; auto).
    eapply (remove_peers_Q (fun s => get_key k (sw_entries s) = None) delete_stage_class HQ); [intros; exact I|exact E4|].
    eapply (reset_meters_Q (fun s => get_key k (sw_entries s) = None) delete_stage_class HQ); [intros; exact I|exact E3|exact Hk]. }
  split; [intros k Hk; apply S4, L2; exact Hk|].
  intros r Hr. destruct (L3 r Hr) as (xr & es & J1 & J2 & J3). exists xr, es.
  split; [exact J1|]. split; [destruct J2 as (A1 & A2 & A3); repeat split; assumption|].
  intros e He. apply S4, J3, He.
Qed.

(* ---- what the batch of a PDR contains (the statement's text): the sessions entry under (N3 address, TEID) resp. the UE
   address, the terminations entry under (UE address, application id) with the action the FAR and the related QER give,
   the applications entry of the PDR's filter when one is due *)
Definition related_qer (p : Agent.pdr) (qers : list Agent.qer) : qer :=
  match find_app_qer p qers with Some y => to_qer y | None => zero_qer end.
Definition related_qfi (p : Agent.pdr) (qers : list Agent.qer) : N :=
  match find_app_qer p qers with Some y => Agent.q_qfi y | None => default_qfi end.
Definition peer_id_of (f : Agent.far) (x : up4) : N :=
  match peer_get (Agent.a_tdst f) (Agent.a_tport f) (u_peers x) with Some pe => pe_id pe | None => 0 end.

Lemma batch_content c ty fars qers r xr es :
  batch_of c ty fars qers r xr es ->
  let p := rp_pdr r in
  exists f ue ae app_id sidx aidx,
    find_far (Agent.p_far p) fars = Some f /\ Agent.p_prec p <= max_uint16 /\
    (peer_get (Agent.a_tdst f) (Agent.a_tport f) (u_peers xr) <> None \/ Agent.a_teid f = 0) /\
    (ae = None \/ ae = Some (n_application (to_pdr r ue) (cf_slice c) app_id)) /\
    (app_filter_empty (to_pdr r ue) = true -> ae = None /\ app_id = 0) /\
    ((is_uplink r = true /\ m_get (Agent.p_fseid p) (u_f2ue xr) = Some ue /\
      es = pdr_batch (n_session_uplink (to_pdr r (Agent.p_ue p)) sidx) ae
                     (n_termination_uplink ue (to_pdr r ue) aidx (far_drops (to_far f)) app_id
                                           (tc_of c (qr_qfi (related_qer p qers))) (related_qer p qers))) \/
     (is_downlink r = true /\ ue = Agent.p_ue p /\
      es = pdr_batch (n_session_downlink (to_pdr r (Agent.p_ue p)) sidx (peer_id_of f xr) (far_buffers (to_far f))) ae
                     (n_termination_downlink ue (to_pdr r ue) aidx (to_far f) app_id (related_qfi p qers)
                                             (tc_of c (qr_qfi (related_qer p qers))) (related_qer p qers)))).
Proof.
  intros (f & se & ue & x1 & ae & app_id & te & H1 & H2 & H3 & ->). cbn zeta.
  unfold pdr_pre in H1. destruct (max_uint16 <? Agent.p_prec (rp_pdr r)) eqn:Ep; [discriminate|]. apply N.ltb_ge in Ep.
  destruct (find_far _ fars) as [f0|] eqn:Ef; [|discriminate].
  assert (Hpeer : peer_get (Agent.a_tdst f0) (Agent.a_tport f0) (u_peers xr) <> None \/ Agent.a_teid f0 = 0).
  { destruct (peer_get _ _ _); [left; discriminate|]. destruct (Agent.a_teid f0 =? 0) eqn:E; [right; apply N.eqb_eq; exact E | discriminate]. }
  assert (Hpre : exists sess, n_session (to_pdr r (Agent.p_ue (rp_pdr r))) sess (peer_id_of f0 xr) (far_buffers (to_far f0)) = Some se /\
                              (if is_uplink r then m_get (Agent.p_fseid (rp_pdr r)) (u_f2ue xr) else Some (Agent.p_ue (rp_pdr r))) = Some ue /\ f = f0).
  { unfold peer_id_of. destruct (peer_get _ _ _); destruct (Agent.a_teid f0 =? 0); try discriminate;
      (destruct (n_session _ _ _ _) as [se0|] eqn:E; [|discriminate]);
      (destruct (if is_uplink r then _ else _) eqn:Eu; [|discriminate]); inversion H1; subst; eexists; eauto. }
  destruct Hpre as (sess & Hse & Hue & ->). clear H1.
  assert (Hae : (ae = None \/ ae = Some (n_application (to_pdr r ue) (cf_slice c) app_id)) /\
                (app_filter_empty (to_pdr r ue) = true -> ae = None /\ app_id = 0)).
  { split.
    - destruct ae as [a|]; [right; f_equal; eapply app_step_entry; eauto | left; reflexivity].
    - intros He. unfold app_step in H2. rewrite He in H2. inv_pairs. auto. }
  destruct Hae as [Ha1 Ha2].
  unfold pdr_term in H3. fold (related_qer (rp_pdr r) qers) in H3. fold (related_qfi (rp_pdr r) qers) in H3.
  fold (tc_of c (qr_qfi (related_qer (rp_pdr r) qers))) in H3.
  unfold n_session in Hse. unfold n_termination in H3. unfold is_uplink, is_downlink in *.
  change (pd_src_iface (to_pdr r (Agent.p_ue (rp_pdr r)))) with (Agent.p_iface (rp_pdr r)) in Hse.
  change (pd_src_iface (to_pdr r ue)) with (Agent.p_iface (rp_pdr r)) in H3.
  destruct (Agent.p_iface (rp_pdr r) =? access) eqn:Ea.
  - inversion Hse; inversion H3; subst. exists f0, ue, ae, app_id, (mc_ul sess). eexists.
    split; [reflexivity|]. split; [exact Ep|]. split; [exact Hpeer|]. split; [exact Ha1|]. split; [exact Ha2|]. left. repeat split; auto.
  - destruct (Agent.p_iface (rp_pdr r) =? core) eqn:Ec; [|discriminate].
    inversion Hse; inversion H3; inversion Hue; subst. exists f0, (Agent.p_ue (rp_pdr r)), ae, app_id, (mc_dl sess). eexists.
    split; [reflexivity|]. split; [exact Ep|]. split; [exact Hpeer|]. split; [exact Ha1|]. split; [exact Ha2|]. right. repeat split; auto.
Qed.

(* ================================================================== Part 6: reference sets of tunnel peers *)
Definition far_uses (dst port : N) (f : Agent.far) : bool := needs_peer f && (Agent.a_tdst f =? dst) && (Agent.a_tport f =? port).
(* the live FARs that denote the GTP peer (dst, port): forward to access with an outer header *)
Definition users_of (live : list Agent.far) (dst port : N) : list ref := map fref (filter (far_uses dst port) live).
Definition used_of (ps : list peer) (dst port : N) : list ref := match peer_get dst port ps with Some p => pe_used p | None => [] end.
Definition peers_wf (ps : list peer) : Prop :=
  forall p, In p ps -> pe_used p <> [] /\ peer_get (pe_dst p) (pe_port p) ps = Some p.
Definition refcount_ok (x : up4) (live : list Agent.far) : Prop :=
  peers_wf (u_peers x) /\ forall dst port r, In r (used_of (u_peers x) dst port) <-> In r (users_of live dst port).

Lemma set_add_in a l r : In r (set_add a l) <-> r = a \/ In r l.
Proof.
  unfold set_add. destruct (existsb (ref_eqb a) l) eqn:E.
  - apply existsb_exists in E. destruct E as [y [H1 H2]]. apply ref_eqb_eq in H2. subst. split; [auto|intros [->|H]; auto].
  - rewrite in_app_iff. cbn. split; [intros [H|[H|[]]]; auto | intros [->|H]; auto].
Qed.
Lemma set_del_in a l r : In r (set_del a l) <-> r <> a /\ In r l.
Proof.
  unfold set_del. rewrite filter_In. split.
  - intros [H1 H2]. split; [|exact H1]. intros ->. rewrite (proj2 (ref_eqb_eq a a) eq_refl) in H2. discriminate.
  - intros [H1 H2]. split; [exact H2|]. destruct (ref_eqb a r) eqn:E; [apply ref_eqb_eq in E; congruence | reflexivity].
Qed.

Definition same_peer_key (d p d' p' : N) : bool := (d =? d') && (p =? p').
Lemma peer_is_key d p q : peer_is d p q = same_peer_key (pe_dst q) (pe_port q) d p.
Proof. reflexivity. Qed.

Lemma peer_is_trans d0 p0 d p q : peer_is d0 p0 q = true -> peer_is d p q = true -> same_peer_key d0 p0 d p = true.
Proof.
  unfold peer_is, same_peer_key. rewrite !andb_true_iff, !N.eqb_eq. intros [A1 A2] [B1 B2]. split; congruence.
Qed.
Lemma peer_is_cong d0 p0 d p q : same_peer_key d0 p0 d p = true -> peer_is d0 p0 q = peer_is d p q.
Proof. unfold peer_is, same_peer_key. rewrite andb_true_iff, !N.eqb_eq. intros [-> ->]. reflexivity. Qed.

Lemma peer_get_del d p d0 p0 l : peer_get d p (peer_del d0 p0 l) = if same_peer_key d0 p0 d p then None else peer_get d p l.
Proof.
  unfold peer_get, peer_del. induction l as [|q l IH]; cbn [filter find]; [destruct (same_peer_key d0 p0 d p); reflexivity|].
  destruct (peer_is d0 p0 q) eqn:E0; cbn [negb find].
  - rewrite IH. destruct (same_peer_key d0 p0 d p) eqn:Ek; [reflexivity|].
    destruct (peer_is d p q) eqn:E1; [|reflexivity]. rewrite (peer_is_trans _ _ _ _ _ E0 E1) in Ek. discriminate.
  - destruct (peer_is d p q) eqn:E1; [|exact IH]. destruct (same_peer_key d0 p0 d p) eqn:Ek; [|reflexivity].
    rewrite (peer_is_cong _ _ _ _ q Ek), E1 in E0. discriminate.
Qed.
Lemma peer_is_self y : peer_is (pe_dst y) (pe_port y) y = true.
Proof. unfold peer_is. rewrite !N.eqb_refl. reflexivity. Qed.

Lemma peer_get_app d p l1 l2 : peer_get d p (l1 ++ l2) = match peer_get d p l1 with Some q => Some q | None => peer_get d p l2 end.
Proof. unfold peer_get. induction l1 as [|q l IH]; cbn; [reflexivity|]. destruct (peer_is d p q); auto. Qed.
Lemma peer_get_put d p q l : peer_get d p (peer_put q l) = if same_peer_key (pe_dst q) (pe_port q) d p then Some q else peer_get d p l.
Proof.
  unfold peer_put. rewrite peer_get_app, peer_get_del. destruct (same_peer_key (pe_dst q) (pe_port q) d p) eqn:E.
  - unfold peer_get. cbn. rewrite peer_is_key, E. reflexivity.
  - destruct (peer_get d p l); [reflexivity|]. unfold peer_get. cbn. rewrite peer_is_key, E. reflexivity.
Qed.
Lemma peer_get_replace d p d0 p0 q l : pe_dst q = d0 -> pe_port q = p0 ->
  peer_get d p (map (fun y => if peer_is d0 p0 y then q else y) l) =
    if same_peer_key d0 p0 d p then (match peer_get d p l with Some _ => Some q | None => None end) else peer_get d p l.
Proof.
  intros Hd Hp. unfold peer_get. induction l as [|y l IH]; cbn [map find]; [destruct (same_peer_key d0 p0 d p); reflexivity|].
  destruct (peer_is d0 p0 y) eqn:E0.
  - rewrite peer_is_key, Hd, Hp. destruct (same_peer_key d0 p0 d p) eqn:Ek.
    + rewrite <- (peer_is_cong _ _ _ _ y Ek), E0. reflexivity.
    + destruct (peer_is d p y) eqn:E1; [rewrite (peer_is_trans _ _ _ _ _ E0 E1) in Ek; discriminate | exact IH].
  - destruct (peer_is d p y) eqn:E1.
    + destruct (same_peer_key d0 p0 d p) eqn:Ek; [|reflexivity]. rewrite (peer_is_cong _ _ _ _ y Ek), E1 in E0. discriminate.
    + exact IH.
Qed.
Lemma peer_get_key d p l q : peer_get d p l = Some q -> pe_dst q = d /\ pe_port q = p /\ In q l.
Proof.
  unfold peer_get. intros H. apply find_some in H. destruct H as [H1 H2]. unfold peer_is in H2. apply andb_true_iff in H2.
  destruct H2 as [A B]. apply N.eqb_eq in A, B. auto.
Qed.
Lemma same_peer_key_eq d p d' p' : same_peer_key d p d' p' = true <-> d = d' /\ p = p'.
Proof. unfold same_peer_key. rewrite andb_true_iff, !N.eqb_eq. tauto. Qed.

Lemma write_bk us x x' cs : write us x = (x', cs) -> u_peers x' = u_peers x /\ u_peer_pool x' = u_peer_pool x.
Proof. intros W. apply write_sw in W. destruct W as [-> _]. split; reflexivity. Qed.

(* addOrUpdateGTPTunnelPeer that succeeds: the peer of the FAR's outer header gains the FAR, nothing else changes *)
Lemma add_or_update_peer_used c f x x' log :
  add_or_update_peer c f x = (x', log, ROk) -> peers_wf (u_peers x) ->
  peers_wf (u_peers x') /\
  forall d p, used_of (u_peers x') d p =
              if same_peer_key (Agent.a_tdst f) (Agent.a_tport f) d p then set_add (fref f) (used_of (u_peers x) d p) else used_of (u_peers x) d p.
Proof.
  unfold add_or_update_peer. intros H Hwf.
  destruct (peer_get (Agent.a_tdst f) (Agent.a_tport f) (u_peers x)) as [q|] eqn:Eq.
  - destruct (write _ _) as [x2 cs] eqn:W in H. destruct (all_ok cs); [|inv_pairs]. inv_pairs.
    apply write_bk in W. destruct W as [W1 W2]. cbn [u_peers with_peers] in *. rewrite W1.
    set (q' := Peer (Agent.a_tdst f) (Agent.a_tport f) (pe_id q) (set_add (fref f) (pe_used q))).
    set (l1 := map (fun y => if peer_is (Agent.a_tdst f) (Agent.a_tport f) y then q' else y) (u_peers x)).
    assert (G : forall d p, peer_get d p (peer_put q' l1) =
                            if same_peer_key (Agent.a_tdst f) (Agent.a_tport f) d p then Some q' else peer_get d p (u_peers x)).
    { intros d p. rewrite peer_get_put. change (pe_dst q') with (Agent.a_tdst f); change (pe_port q') with (Agent.a_tport f). destruct (same_peer_key _ _ d p) eqn:Ek; [reflexivity|].
      unfold l1. rewrite (peer_get_replace d p (Agent.a_tdst f) (Agent.a_tport f) q' _ eq_refl eq_refl), Ek. reflexivity. }
    split.
    + intros y Hy. unfold peer_put in Hy. apply in_app_or in Hy. destruct Hy as [Hy|[<-|[]]].
      * unfold peer_del in Hy. apply filter_In in Hy. destruct Hy as [Hy1 Hy2]. unfold l1 in Hy1. apply in_map_iff in Hy1.
        destruct Hy1 as [z [Hz1 Hz2]]. destruct (peer_is _ _ z) eqn:Ez.
        { subst y. rewrite (peer_is_self q') in Hy2. discriminate. }
        subst z. destruct (Hwf y Hz2) as [U1 U2]. split; [exact U1|]. rewrite G.
        destruct (same_peer_key _ _ (pe_dst y) (pe_port y)) eqn:Ek; [|exact U2].
        rewrite (peer_is_cong _ _ _ _ y Ek), peer_is_self in Ez. discriminate.
      * split; [cbn; intros Hn; assert (In (fref f) []) as [] by (rewrite <- Hn; apply set_add_in; auto)|].
        rewrite G. change (pe_dst q') with (Agent.a_tdst f); change (pe_port q') with (Agent.a_tport f). unfold same_peer_key. rewrite !N.eqb_refl. reflexivity.
    + intros d p. unfold used_of. rewrite G. destruct (same_peer_key _ _ d p) eqn:Ek; [|reflexivity].
      apply same_peer_key_eq in Ek. destruct Ek as [<- <-]. rewrite Eq. reflexivity.
  - destruct (u_peer_pool x) as [|id pool]; [inv_pairs|].
    destruct (write _ _) as [x2 cs] eqn:W in H. destruct (all_ok cs); [|inv_pairs]. inv_pairs.
    apply write_bk in W. destruct W as [W1 W2]. cbn [u_peers with_peers] in *. rewrite W1.
    set (q' := Peer (Agent.a_tdst f) (Agent.a_tport f) id [fref f]).
    split.
    + intros y Hy. unfold peer_put in Hy. apply in_app_or in Hy. destruct Hy as [Hy|[<-|[]]].
      * unfold peer_del in Hy. apply filter_In in Hy. destruct Hy as [Hy1 Hy2]. destruct (Hwf y Hy1) as [U1 U2]. split; [exact U1|].
        rewrite peer_get_put. change (pe_dst q') with (Agent.a_tdst f); change (pe_port q') with (Agent.a_tport f). destruct (same_peer_key _ _ (pe_dst y) (pe_port y)) eqn:Ek; [|exact U2].
        change (pe_dst q') with (Agent.a_tdst f) in Hy2. change (pe_port q') with (Agent.a_tport f) in Hy2.
        rewrite (peer_is_cong _ _ _ _ y Ek), peer_is_self in Hy2. discriminate.
      * split; [cbn; discriminate|]. rewrite peer_get_put. change (pe_dst q') with (Agent.a_tdst f); change (pe_port q') with (Agent.a_tport f). unfold same_peer_key. rewrite !N.eqb_refl. reflexivity.
    + intros d p. unfold used_of. rewrite peer_get_put. change (pe_dst q') with (Agent.a_tdst f); change (pe_port q') with (Agent.a_tport f). destruct (same_peer_key _ _ d p) eqn:Ek; [|reflexivity].
      apply same_peer_key_eq in Ek. destruct Ek as [<- <-]. rewrite Eq. reflexivity.
Qed.

Lemma users_of_in live d p r : In r (users_of live d p) <-> exists g, In g live /\ far_uses d p g = true /\ r = fref g.
Proof.
  unfold users_of. rewrite in_map_iff. split.
  - intros [g [H1 H2]]. apply filter_In in H2. destruct H2. exists g. auto.
  - intros [g [H1 [H2 H3]]]. exists g. split; [auto|apply filter_In; auto].
Qed.

Lemma far_uses_key d p f : far_uses d p f = true -> same_peer_key (Agent.a_tdst f) (Agent.a_tport f) d p = true.
Proof. unfold far_uses, same_peer_key. rewrite !andb_true_iff. tauto. Qed.

Lemma update_peers_refcount c : forall fs x log x' log' live,
  update_peers c fs x log = (x', log', ROk) -> refcount_ok x live -> refcount_ok x' (live ++ fs).
Proof.
  induction fs as [|f fs IH]; intros x log x' log' live H Hr; cbn in H.
  - inv_pairs. rewrite app_nil_r. exact Hr.
  - replace (live ++ f :: fs) with ((live ++ [f]) ++ fs) by (rewrite <- app_assoc; reflexivity).
    destruct (needs_peer f) eqn:En.
    + destruct (add_or_update_peer c f x) as [[x1 l1] rs] eqn:E. destruct rs; try (inv_pairs; fail).
      eapply IH; [exact H|]. destruct Hr as [Hwf Hu]. destruct (add_or_update_peer_used _ _ _ _ _ E Hwf) as [W U].
      split; [exact W|]. intros d p r. rewrite U, users_of_in.
      destruct (same_peer_key (Agent.a_tdst f) (Agent.a_tport f) d p) eqn:Ek.
      * rewrite set_add_in, Hu, users_of_in. split.
        -- intros [->|[g [G1 [G2 G3]]]].
           ++ exists f. split; [apply in_or_app; right; left; reflexivity|]. split; [|reflexivity].
              unfold far_uses. rewrite En. exact Ek.
           ++ exists g. split; [apply in_or_app; left; exact G1 | auto].
        -- intros [g [G1 [G2 G3]]]. apply in_app_or in G1. destruct G1 as [G1|[<-|[]]]; [right; exists g; auto | left; exact G3].
      * rewrite Hu, users_of_in. split.
        -- intros [g [G1 [G2 G3]]]. exists g. split; [apply in_or_app; left; exact G1 | auto].
        -- intros [g [G1 [G2 G3]]]. apply in_app_or in G1. destruct G1 as [G1|[<-|[]]]; [exists g; auto|].
           apply far_uses_key in G2. congruence.
    + eapply IH; [exact H|]. destruct Hr as [Hwf Hu]. split; [exact Hwf|]. intros d p r. rewrite Hu, !users_of_in. split.
      * intros [g [G1 [G2 G3]]]. exists g. split; [apply in_or_app; left; exact G1 | auto].
      * intros [g [G1 [G2 G3]]]. apply in_app_or in G1. destruct G1 as [G1|[<-|[]]]; [exists g; auto|].
        unfold far_uses in G2. rewrite En in G2. discriminate.
Qed.

(* removeGTPTunnelPeer: the peer of the FAR's outer header loses the FAR (and disappears when nobody is left) *)
Lemma remove_peer_used c f x x' log :
  remove_peer c f x = (x', log) -> peers_wf (u_peers x) ->
  peers_wf (u_peers x') /\
  forall d p, used_of (u_peers x') d p =
              if same_peer_key (Agent.a_tdst f) (Agent.a_tport f) d p then set_del (fref f) (used_of (u_peers x) d p) else used_of (u_peers x) d p.
Proof.
  unfold remove_peer. intros H Hwf.
  destruct (peer_get (Agent.a_tdst f) (Agent.a_tport f) (u_peers x)) as [q|] eqn:Eq.
  - set (q' := Peer (Agent.a_tdst f) (Agent.a_tport f) (pe_id q) (set_del (fref f) (pe_used q))) in *.
    set (l1 := map (fun y => if peer_is (Agent.a_tdst f) (Agent.a_tport f) y then q' else y) (u_peers x)) in *.
    assert (G : forall d p, peer_get d p l1 = if same_peer_key (Agent.a_tdst f) (Agent.a_tport f) d p then Some q' else peer_get d p (u_peers x)).
    { intros d p. unfold l1. rewrite (peer_get_replace d p (Agent.a_tdst f) (Agent.a_tport f) q' _ eq_refl eq_refl).
      destruct (same_peer_key _ _ d p) eqn:Ek; [|reflexivity]. apply same_peer_key_eq in Ek. destruct Ek as [<- <-]. rewrite Eq. reflexivity. }
    assert (Wl1 : forall y, In y l1 -> y = q' \/ (In y (u_peers x) /\ peer_is (Agent.a_tdst f) (Agent.a_tport f) y = false)).
    { intros y Hy. unfold l1 in Hy. apply in_map_iff in Hy. destruct Hy as [z [Hz1 Hz2]].
      destruct (peer_is _ _ z) eqn:Ez; [left; auto | right; subst; auto]. }
    destruct (set_del (fref f) (pe_used q)) as [|u us] eqn:Eu.
    + destruct (write _ _) as [x2 cs] eqn:W in H. inv_pairs. apply write_bk in W. destruct W as [W1 W2].
      cbn [u_peers with_peers] in *. rewrite W1. fold l1. split.
      * intros y Hy. unfold peer_del in Hy. apply filter_In in Hy. destruct Hy as [Hy1 Hy2]. destruct (Wl1 y Hy1) as [->|[Hy3 Hy4]].
        { assert (Hq : peer_is (Agent.a_tdst f) (Agent.a_tport f) q' = true) by (apply (peer_is_self q')). rewrite Hq in Hy2. discriminate. }
        destruct (Hwf y Hy3) as [U1 U2]. split; [exact U1|]. rewrite peer_get_del, G.
        destruct (same_peer_key _ _ (pe_dst y) (pe_port y)) eqn:Ek; [|exact U2].
        rewrite (peer_is_cong _ _ _ _ y Ek), peer_is_self in Hy4. discriminate.
      * intros d p. unfold used_of. rewrite peer_get_del, G. destruct (same_peer_key _ _ d p) eqn:Ek; [|reflexivity].
        apply same_peer_key_eq in Ek. destruct Ek as [<- <-]. rewrite Eq. symmetry. exact Eu.
    + inv_pairs. cbn [u_peers with_peers]. fold l1. split.
      * intros y Hy. destruct (Wl1 y Hy) as [->|[Hy3 Hy4]].
        { split; [unfold q'; cbn; discriminate|]. rewrite G. change (pe_dst q') with (Agent.a_tdst f). change (pe_port q') with (Agent.a_tport f).
          unfold same_peer_key. rewrite !N.eqb_refl. reflexivity. }
        destruct (Hwf y Hy3) as [U1 U2]. split; [exact U1|]. rewrite G.
        destruct (same_peer_key _ _ (pe_dst y) (pe_port y)) eqn:Ek; [|exact U2].
        rewrite (peer_is_cong _ _ _ _ y Ek), peer_is_self in Hy4. discriminate.
      * intros d p. unfold used_of. rewrite G. destruct (same_peer_key _ _ d p) eqn:Ek; [|reflexivity].
        apply same_peer_key_eq in Ek. destruct Ek as [<- <-]. rewrite Eq. symmetry. exact Eu.
  - inv_pairs. split; [exact Hwf|]. intros d p. destruct (same_peer_key _ _ d p) eqn:Ek; [|reflexivity].
    apply same_peer_key_eq in Ek. destruct Ek as [<- <-]. unfold used_of. rewrite Eq. reflexivity.
Qed.

Definition drop_ref (r : ref) (live : list Agent.far) : list Agent.far := filter (fun g => negb (ref_eqb (fref g) r)) live.
Definition sole_holder (live : list Agent.far) (f : Agent.far) : Prop := forall g, In g live -> fref g = fref f -> g = f.

Lemma remove_peer_refcount c f x x' log live :
  remove_peer c f x = (x', log) -> refcount_ok x live -> sole_holder live f -> refcount_ok x' (drop_ref (fref f) live).
Proof.
  intros H [Hwf Hu] Hs. destruct (remove_peer_used _ _ _ _ _ H Hwf) as [W U]. split; [exact W|].
  intros d p r. rewrite U, users_of_in.
  assert (Hd : forall g, In g (drop_ref (fref f) live) <-> In g live /\ fref g <> fref f).
  { intros g. unfold drop_ref. rewrite filter_In. split; intros [A B]; split; auto.
    - intros E. rewrite (proj2 (ref_eqb_eq _ _) E) in B. discriminate.
    - destruct (ref_eqb (fref g) (fref f)) eqn:E; [apply ref_eqb_eq in E; contradiction | reflexivity]. }
  destruct (same_peer_key (Agent.a_tdst f) (Agent.a_tport f) d p) eqn:Ek.
  - rewrite set_del_in, Hu, users_of_in. split.
    + intros [Hn [g [G1 [G2 G3]]]]. exists g. split; [apply Hd; split; [exact G1 | congruence] | auto].
    + intros [g [G1 [G2 G3]]]. apply Hd in G1. destruct G1 as [G1 G4]. split; [congruence | exists g; auto].
  - rewrite Hu, users_of_in. split.
    + intros [g [G1 [G2 G3]]]. exists g. split; [|auto]. apply Hd. split; [exact G1|]. intros E.
      rewrite (Hs g G1 E) in G2. apply far_uses_key in G2. congruence.
    + intros [g [G1 [G2 G3]]]. apply Hd in G1. exists g. tauto.
Qed.

Definition drop_refs (fs live : list Agent.far) : list Agent.far := fold_left (fun l f => drop_ref (fref f) l) fs live.
Lemma drop_ref_incl r live g : In g (drop_ref r live) -> In g live.
Proof. unfold drop_ref. intros H. apply filter_In in H. tauto. Qed.

Lemma remove_peers_refcount c : forall fs x log x' log' live,
  remove_peers c fs x log = (x', log') -> refcount_ok x live -> (forall f, In f fs -> sole_holder live f) ->
  refcount_ok x' (drop_refs fs live).
Proof.
  induction fs as [|f fs IH]; intros x log x' log' live H Hr Hs; cbn in H; [inv_pairs; exact Hr|].
  destruct (remove_peer c f x) as [x1 l1] eqn:E. cbn [drop_refs fold_left]. eapply IH; [exact H| |].
  - eapply remove_peer_refcount; [exact E | exact Hr | apply Hs; left; reflexivity].
  - intros f' Hf' g Hg. apply Hs; [right; exact Hf' | eapply drop_ref_incl; exact Hg].
Qed.

(* ---- the stages that do not touch the tunnel-peer bookkeeping *)
Lemma write_peers us x x' cs : write us x = (x', cs) -> u_peers x' = u_peers x.
Proof. intros W. apply write_bk in W. tauto. Qed.
Lemma alloc_counters_peers : forall n i all x orc log x' all' orc' log' r,
  alloc_counters n i all x orc log = (x', all', orc', log', r) -> u_peers x' = u_peers x.
Proof.
  induction n as [|n IH]; intros i all x orc log x' all' orc' log' r H; cbn in H; [inv_pairs; reflexivity|].
  destruct (pop (u_ctr_pool x) orc) as [k pool orc1| |]; [|inv_pairs; reflexivity|inv_pairs; reflexivity].
  destruct (set_ctr i k all) as [all1|]; [|inv_pairs; reflexivity].
  destruct (write (counter_reset k) (with_ctr_pool x pool)) as [x2 cs] eqn:W. apply write_peers in W. cbn in W.
  destruct (all_ok cs); [rewrite (IH _ _ _ _ _ _ _ _ _ _ H); exact W | inv_pairs; exact W].
Qed.
Lemma configure_app_meter_peers bidir x orc x' orc' log' cells r :
  configure_app_meter bidir x orc = (x', orc', log', cells, r) -> u_peers x' = u_peers x.
Proof.
  unfold configure_app_meter. intros H.
  destruct (pop (u_app_cells x) orc) as [ul pool1 orc1| |]; [|inv_pairs; reflexivity|inv_pairs; reflexivity].
  destruct bidir.
  - destruct (pop pool1 orc1) as [dl pool2 orc2| |]; [|inv_pairs; reflexivity|inv_pairs; reflexivity].
    destruct (write _ _) as [x3 cs] eqn:W in H. apply write_peers in W. cbn in W. destruct (all_ok cs); inv_pairs; exact W.
  - destruct (write _ _) as [x3 cs] eqn:W in H. apply write_peers in W. cbn in W. destruct (all_ok cs); inv_pairs; exact W.
Qed.
Lemma configure_session_meter_peers x orc x' orc' log' cells r :
  configure_session_meter x orc = (x', orc', log', cells, r) -> u_peers x' = u_peers x.
Proof.
  unfold configure_session_meter. intros H.
  destruct (pop (u_sess_cells x) orc) as [ul pool1 orc1| |]; [|inv_pairs; reflexivity|inv_pairs; reflexivity].
  destruct (pop pool1 orc1) as [dl pool2 orc2| |]; [|inv_pairs; reflexivity|inv_pairs; reflexivity].
  destruct (write _ _) as [x3 cs] eqn:W in H. apply write_peers in W. cbn in W. destruct (all_ok cs); inv_pairs; exact W.
Qed.
Lemma configure_meters_loop_peers single : forall qs x orc log x' orc' log' r,
  configure_meters_loop single qs x orc log = (x', orc', log', r) -> u_peers x' = u_peers x.
Proof.
  induction qs as [|q qs IH]; intros x orc log x' orc' log' r H; cbn in H; [inv_pairs; reflexivity|].
  destruct (Agent.q_level q =? app_qos).
  - destruct (configure_app_meter single x orc) as [[[[x1 orc1] l1] cells] rs] eqn:E. apply configure_app_meter_peers in E.
    destruct rs; [destruct cells as [[ul dl]|]; [rewrite (IH _ _ _ _ _ _ _ H); exact E | inv_pairs; exact E] | inv_pairs; exact E ..].
  - destruct (Agent.q_level q =? session_qos); [|eapply IH; eauto].
    destruct (configure_session_meter x orc) as [[[[x1 orc1] l1] cells] rs] eqn:E. apply configure_session_meter_peers in E.
    destruct rs; [destruct cells as [[ul dl]|]; [rewrite (IH _ _ _ _ _ _ _ H); exact E | inv_pairs; exact E] | inv_pairs; exact E ..].
Qed.
Lemma reset_meter_peers q x x' log' : reset_meter q x = (x', log') -> u_peers x' = u_peers x.
Proof.
  unfold reset_meter. intros H. destruct (mtr_get _ _ _) as [m|]; [|inv_pairs; reflexivity].
  destruct (mt_type m =? meter_type_app).
  - destruct (write _ _) as [x1 cs] eqn:W in H. apply write_peers in W. inv_pairs. exact W.
  - destruct (mt_type m =? meter_type_session).
    + destruct (write _ _) as [x1 cs] eqn:W in H. apply write_peers in W. inv_pairs. exact W.
    + inv_pairs. reflexivity.
Qed.
Lemma reset_meters_peers : forall qs x log x' log', reset_meters qs x log = (x', log') -> u_peers x' = u_peers x.
Proof.
  induction qs as [|q qs IH]; intros x log x' log' H; cbn in H; [inv_pairs; reflexivity|].
  destruct (reset_meter q x) as [x1 l1] eqn:E. rewrite (IH _ _ _ _ H). eapply reset_meter_peers; eauto.
Qed.
Lemma fold_ue_update_peers rs : forall x, u_peers (fold_left ue_update rs x) = u_peers x.
Proof. induction rs as [|r rs IH]; intros x; cbn; [reflexivity|]. rewrite IH. unfold ue_update. destruct (is_uplink r); reflexivity. Qed.
Lemma fold_ue_remove_peers rs : forall x, u_peers (fold_left ue_remove rs x) = u_peers x.
Proof. induction rs as [|r rs IH]; intros x; cbn; [reflexivity|]. rewrite IH. unfold ue_remove. destruct (is_uplink r); reflexivity. Qed.

Lemma refcount_ok_peers x y live : u_peers y = u_peers x -> refcount_ok x live -> refcount_ok y live.
Proof. unfold refcount_ok. intros ->. auto. Qed.

(* accepted establishment: every FAR of the message that forwards to access with an outer header is now a user of its peer *)
Lemma create_refcount c all upd x orc x' log all' live :
  send_create c all upd x orc = (x', Out ROk log all') -> refcount_ok x live -> refcount_ok x' (live ++ r_fars upd).
Proof.
  unfold send_create. intros H Hr.
  destruct (alloc_counters _ _ _ _ _ _) as [[[[x1 pdrs1] orc1] log1] r1] eqn:E1. destruct r1; try (inv_pairs; fail).
  destruct (configure_meters _ _ _ _) as [[[x3 orc3] log3] r3] eqn:E3. unfold configure_meters in E3. destruct r3; try (inv_pairs; fail).
  destruct (update_peers _ _ _ _) as [[x4 log4] r4] eqn:E4. destruct r4; try (inv_pairs; fail).
  destruct (modify_cfg _ _ _ _ _ _ _) as [[x5 log5] r5] eqn:E5. inv_pairs.
  destruct (modify_cfg_insert _ _ _ _ _ _ _ _ E5) as ((P5 & _) & _).
  apply (refcount_ok_peers x4 x' _ P5). eapply update_peers_refcount; [exact E4|].
  apply (refcount_ok_peers x x3); [|exact Hr].
  rewrite (configure_meters_loop_peers _ _ _ _ _ _ _ _ _ E3), fold_ue_update_peers. eapply alloc_counters_peers; eauto.
Qed.

(* accepted deletion: the deleted FARs are no longer users; a peer nobody uses any more is gone *)
Lemma delete_refcount c del x x' log all' live :
  send_delete c del x = (x', Out ROk log all') -> refcount_ok x live -> (forall f, In f (r_fars del) -> sole_holder live f) ->
  refcount_ok x' (drop_refs (r_fars del) live).
Proof.
  unfold send_delete. intros H Hr Hs.
  destruct (modify_cfg _ _ _ _ _ _ _) as [[x2 log2] r2] eqn:E2. destruct r2; try (inv_pairs; fail).
  destruct (reset_meters _ _ _) as [x3 log3] eqn:E3. destruct (remove_peers _ _ _ _) as [x4 log4] eqn:E4. inv_pairs.
  destruct (modify_cfg_delete _ _ _ _ _ _ _ _ E2) as ((P2 & _) & _).
  apply (refcount_ok_peers x4); [apply fold_ue_remove_peers|].
  eapply remove_peers_refcount; [exact E4| |exact Hs].
  apply (refcount_ok_peers x); [|exact Hr]. rewrite (reset_meters_peers _ _ _ _ _ E3). exact P2.
Qed.

(* an entry of the bookkeeping exists exactly for the peers some live FAR denotes *)
Lemma refcount_present x live d p : refcount_ok x live -> (peer_get d p (u_peers x) <> None <-> users_of live d p <> []).
Proof.
  intros [Hwf Hu]. split.
  - intros Hn Hl. destruct (peer_get d p (u_peers x)) as [q|] eqn:E; [|congruence].
    destruct (peer_get_key _ _ _ _ E) as (K1 & K2 & K3). destruct (Hwf q K3) as [U _].
    destruct (pe_used q) as [|r rs] eqn:Eq; [congruence|].
    assert (In r (users_of live d p)) by (apply Hu; unfold used_of; rewrite E, Eq; left; reflexivity). rewrite Hl in H. destruct H.
  - intros Hl Hn. destruct (users_of live d p) as [|r rs] eqn:E; [congruence|].
    assert (In r (used_of (u_peers x) d p)) by (apply Hu; rewrite E; left; reflexivity). unfold used_of in H. rewrite Hn in H. destruct H.
Qed.

(* ---- modifications: the updated FARs denote the peers they denoted before (TEID may change, action and outer-header address
   may not): the reference sets stay those of the live FARs *)
Definition stable_fars (live upd : list Agent.far) : Prop :=
  forall f, In f upd -> exists g, In g live /\ fref g = fref f /\ forall d p, far_uses d p g = far_uses d p f.

Lemma update_refcount_partial c all upd x x' log all' live :
  send_update c all upd x = (x', Out ROk log all') -> refcount_ok x live -> stable_fars live (r_fars upd) -> refcount_ok x' live.
Proof.
  unfold send_update. intros H Hr Hs.
  destruct (update_peers _ _ _ _) as [[x2 log2] r2] eqn:E2. destruct r2; try (inv_pairs; fail).
  destruct (modify_cfg _ _ _ _ _ _ _) as [[x3 log3] r3] eqn:E3. inv_pairs.
  assert (P3 : u_peers x' = u_peers x2).
  { clear - E3. revert x2 log2 x' log E3. induction (r_pdrs all) as [|r pdrs IH]; intros x2 log2 x' log E3; cbn in E3; [inv_pairs; reflexivity|].
    destruct (one_pdr c UModify (r_fars all) (r_qers all) r x2) as [[x1 l1] r1] eqn:E1. destruct r1; try (inv_pairs; fail).
    destruct (one_pdr_ok _ _ _ _ _ _ _ _ E1) as (es & _ & (B & _) & _). rewrite (IH _ _ _ _ E3). exact B. }
  assert (R2 : refcount_ok x2 (live ++ r_fars upd)).
  { eapply update_peers_refcount; [exact E2|]. apply (refcount_ok_peers x); [apply fold_ue_update_peers | exact Hr]. }
  destruct R2 as [W U]. split; [rewrite P3; exact W|]. intros d p r. rewrite P3, U, !users_of_in. split.
  - intros [g [G1 [G2 G3]]]. apply in_app_or in G1. destruct G1 as [G1|G1]; [exists g; auto|].
    destruct (Hs g G1) as (g0 & K1 & K2 & K3). exists g0. split; [exact K1|]. split; [rewrite K3; exact G2 | congruence].
  - intros [g [G1 [G2 G3]]]. exists g. split; [apply in_or_app; left; exact G1 | auto].
Qed.

(* ---- histories of accepted establishments, deletions and restarts: the reference-set invariant at every point *)
Lemma boot_peers g s : u_peers (fst (boot g s)) = [].
Proof.
  unfold boot. destruct (sw_batch (clear_updates up4_tables s) s) as [s1 cs1]. destruct (all_ok cs1); [|reflexivity].
  destruct (write _ _) as [x2 cs2] eqn:W. apply write_peers in W. exact W.
Qed.
Lemma refcount_empty x : u_peers x = [] -> refcount_ok x [].
Proof. intros H. unfold refcount_ok. rewrite H. split; [intros p []|]. intros d p r. cbn. tauto. Qed.

Fixpoint live_fars (h : list (call * list N)) (live : list Agent.far) : list Agent.far :=
  match h with
  | [] => live
  | (CAdd _ upd, _) :: r => live_fars r (live ++ r_fars upd)
  | (CDel del, _) :: r => live_fars r (drop_refs (r_fars del) live)
  | (CRestart, _) :: r => live_fars r []
  | (CMod _ _, _) :: r => live_fars r live
  end.
(* every call is an establishment, a deletion or a restart; establishments and deletions are accepted; a deleted FAR is the
   only live FAR with its <F-SEID, FAR id> *)
Fixpoint est_del_history (g : ucfg) (x : up4) (h : list (call * list N)) (live : list Agent.far) : Prop :=
  match h with
  | [] => True
  | (k, orc) :: r =>
    (match k with
     | CAdd _ upd => o_res (snd (step g x k orc)) = ROk
     | CDel del => o_res (snd (step g x k orc)) = ROk /\ forall f, In f (r_fars del) -> sole_holder live f
     | CRestart => True
     | CMod _ _ => False
     end) /\ est_del_history g (fst (step g x k orc)) r (live_fars [(k, orc)] live)
  end.

Lemma run_refcount g : forall h x live, refcount_ok x live -> est_del_history g x h live -> refcount_ok (run g x h) (live_fars h live).
Proof.
  induction h as [|[k orc] h IH]; intros x live Hr Hh; cbn [run live_fars]; [exact Hr|].
  cbn [est_del_history] in Hh. destruct Hh as [Hk Hrest].
  destruct k as [all upd|all upd|del|]; cbn [live_fars] in *.
  - apply IH; [|exact Hrest]. cbn [step] in *. destruct (send_create (uc g) all upd x orc) as [x' [rs lg al]] eqn:E. cbn in Hk. subst rs.
    eapply create_refcount; eauto.
  - destruct Hk.
  - destruct Hk as [Hk Hs]. apply IH; [|exact Hrest]. cbn [step] in *. destruct (send_delete (uc g) del x) as [x' [rs lg al]] eqn:E. cbn in Hk. subst rs.
    eapply delete_refcount; eauto.
  - apply IH; [|exact Hrest]. cbn [step]. apply refcount_empty. apply boot_peers.
Qed.

(* ================================================================== Part 7: witnesses (findings) and non-vacuity *)
Module Wit.
  Definition M := 4294967295.
  Definition g0 : ucfg := UCfg (Cfg 3 1 [(9, 2)] 100 32 3000 16) 8 8 8.
  (* uplink PDR under (N3 = 100, teid), downlink PDR under the UE address; no application filter *)
  Definition ul (id fseid teid ue far : N) : Agent.pdr :=
    Agent.Pdr id fseid 1 255 100 M teid M ue 10 far [] 1 false false ue M 0 0 (PortRange.PR 0 0) (PortRange.PR 0 0) 0 0.
  Definition dl (id fseid ue far : N) : Agent.pdr :=
    Agent.Pdr id fseid 2 255 0 0 0 0 ue 10 far [] 0 false false 0 0 ue M (PortRange.PR 0 0) (PortRange.PR 0 0) 0 0.
  (* downlink PDR with an application filter (remote address sip, protocol) and a precedence *)
  Definition dlf (id fseid ue far prec sip proto : N) : Agent.pdr :=
    Agent.Pdr id fseid 2 255 0 0 0 0 ue prec far [] 0 false false sip M ue M (PortRange.PR 0 65535) (PortRange.PR 0 65535) proto 255.
  Definition ulfar (id fseid : N) : Agent.far := Agent.Far id fseid 1 false 2 0 0 0 0 0.
  Definition dlfar (id fseid gnb teid : N) : Agent.far := Agent.Far id fseid 0 false 2 1 100 gnb teid 2152.

  (* one session forwarding to gNB 900 *)
  Definition s1 : rules := Rules [RP (ul 1 5 7 50 1) 0; RP (dl 2 5 50 2) 0] [ulfar 1 5; dlfar 2 5 900 8] [].
  Definition x1 := step g0 (init g0) (CAdd s1 s1) [0; 1].
  (* F26a: Update FAR 2 to gNB 901 *)
  Definition s1' : rules := Rules (o_all (snd x1)) [ulfar 1 5; dlfar 2 5 901 9] [].
  Definition x2 := step g0 (fst x1) (CMod s1' (Rules [] [dlfar 2 5 901 9] [])) [].
  (* F26b: Update PDR 2 with a new application filter *)
  Definition s1k : rules := Rules [RP (ul 1 5 7 50 1) 0; RP (dlf 2 5 50 2 10 1234 17) 1] [ulfar 1 5; dlfar 2 5 900 8] [].
  Definition x3 := step g0 (fst x1) (CMod s1k (Rules [RP (dlf 2 5 50 2 10 1234 17) 0] [] [])) [].
  (* F0401 / F0402: two downlink PDRs of one UE share the sessions_downlink entry *)
  Definition s2 : rules := Rules [RP (ul 1 6 7 60 1) 0; RP (dl 2 6 60 2) 0; RP (ul 3 6 9 60 3) 0; RP (dlf 4 6 60 4 10 1234 17) 0]
                                 [ulfar 1 6; dlfar 2 6 900 8; ulfar 3 6; dlfar 4 6 900 10] [].
  Definition y1 := step g0 (init g0) (CAdd s2 s2) [0; 1; 2; 3].
  Definition y2 := step g0 (fst y1) (CDel (Rules (o_all (snd y1)) (r_fars s2) [])) [].
  Definition y3 := step g0 (fst y1) (CDel (Rules (skipn 2 (o_all (snd y1))) [ulfar 3 6; dlfar 4 6 900 10] [])) [].
  Definition sdl_key (ue : N) : nkey := ("PreQosPipeSessionsDownlink"%string, [("ue_address"%string, NExact ue)], 0).
  (* F0403: one application filter, two precedences *)
  Definition sa : rules := Rules [RP (ul 1 7 7 70 1) 0; RP (dlf 2 7 70 2 200 1234 17) 0] [ulfar 1 7; dlfar 2 7 900 8] [].
  Definition sb : rules := Rules [RP (ul 1 8 9 80 1) 0; RP (dlf 2 8 80 2 201 1234 17) 0] [ulfar 1 8; dlfar 2 8 900 10] [].
  Definition z1 := step g0 (init g0) (CAdd sa sa) [0; 1].
  Definition z2 := step g0 (fst z1) (CAdd sb sb) [2; 3].
  Definition z3 := step g0 (fst z2) (CDel (Rules (o_all (snd z1)) (r_fars sa) [])) [].
  Definition z4 := step g0 (fst z3) (CDel (Rules (o_all (snd z2)) (r_fars sb) [])) [].
  Definition apps_of (x : up4) : list nentry := filter (fun e => String.eqb (ne_table e) t_apps) (sw_entries (u_sw x)).
End Wit.
Import Wit.

(* F26a: an accepted modification after which a tunnel peer (and its table entry) exists that no live FAR denotes *)
Lemma wit_update_far_new_peer :
  o_res (snd x1) = ROk /\ o_res (snd x2) = ROk /\
  peer_get 900 2152 (u_peers (fst x2)) <> None /\ users_of (r_fars s1') 900 2152 = [] /\
  has_key (key_of (n_tunnel_peer 2 100 900 2152)) (sw_entries (u_sw (fst x2))) = true /\
  ~ refcount_ok (fst x2) (r_fars s1').
Proof.
  repeat split; try (vm_compute; (reflexivity || discriminate)).
  intros [_ H]. specialize (H 900 2152 (5, 2)). vm_compute in H. destruct H as [H _]. destruct H; auto.
Qed.

(* F26b: an Update PDR that changes a key is refused (MODIFY of a missing entry), and an application id stays allocated
   although the applications table has no entry for it *)
Lemma wit_update_pdr_key :
  o_res (snd x1) = ROk /\ o_res (snd x3) = RErr /\ List.length (u_apps (fst x3)) = 1%nat /\ apps_of (fst x3) = [].
Proof. repeat split; vm_compute; reflexivity. Qed.

(* F0401: the deletion of a session whose two downlink PDRs share their sessions_downlink entry is refused after the shared entry
   (and more) is gone; the tunnel peer keeps both FARs as users *)
Lemma wit_delete_shared_key :
  o_res (snd y1) = ROk /\ o_res (snd y2) = RErr /\
  get_key (sdl_key 60) (sw_entries (u_sw (fst y1))) <> None /\ get_key (sdl_key 60) (sw_entries (u_sw (fst y2))) = None /\
  List.length (sw_entries (u_sw (fst y2))) = 5%nat /\ used_of (u_peers (fst y2)) 900 2152 = [(6, 2); (6, 4)].
Proof. repeat split; vm_compute; (reflexivity || discriminate). Qed.

(* F0402: removing PDR 3 and 4 (accepted) removes the sessions_downlink entry PDR 2 still denotes, and the F-SEID -> UE mapping *)
Lemma wit_remove_shared_key :
  o_res (snd y1) = ROk /\ o_res (snd y3) = ROk /\
  get_key (sdl_key 60) (sw_entries (u_sw (fst y3))) = None /\ u_f2ue (fst y3) = [] /\ u_f2ue (fst y1) = [(6, 60)].
Proof. repeat split; vm_compute; reflexivity. Qed.

(* F0403: the last user of an application filter cannot remove the entry the first user installed with another precedence *)
Lemma wit_delete_app_priority :
  o_res (snd z1) = ROk /\ o_res (snd z2) = ROk /\ o_res (snd z3) = ROk /\ o_res (snd z4) = RErr /\
  u_apps (fst z4) = [] /\ List.length (apps_of (fst z4)) = 1%nat.
Proof. repeat split; vm_compute; reflexivity. Qed.

(* the unguarded refcount statement is false for modifications: x2 is reached by an accepted establishment and an accepted
   modification from a state with the invariant, and violates it *)
Lemma update_refcount_refuted :
  exists g x all upd x' log all' live live',
    refcount_ok x live /\ send_update (uc g) all upd x = (x', Out ROk log all') /\ live' = r_fars all /\ ~ refcount_ok x' live'.
Proof.
  exists g0, (fst x1), s1', (Rules [] [dlfar 2 5 901 9] []), (fst x2), (o_log (snd x2)), (o_all (snd x2)), (r_fars s1), (r_fars s1').
  split; [|split; [vm_compute; reflexivity|split; [reflexivity|apply wit_update_far_new_peer]]].
  replace (r_fars s1) with ([] ++ r_fars s1) by reflexivity.
  eapply (create_refcount (uc g0) s1 s1 (init g0) [0; 1]); [vm_compute; reflexivity|]. apply refcount_empty. vm_compute. reflexivity.
Qed.

(* non-vacuity: a history of accepted establishments / deletions / a restart in which two sessions share a gNB; after the first
   deletion the peer is still there with the other session as user, after the second it is gone *)
Definition t1 : rules := Rules [RP (ul 1 7 7 70 1) 0; RP (dl 2 7 70 2) 0] [ulfar 1 7; dlfar 2 7 900 8] [].
Definition t2 : rules := Rules [RP (ul 1 8 9 80 1) 0; RP (dl 2 8 80 2) 0] [ulfar 1 8; dlfar 2 8 900 10] [].
Definition h_share : list (call * list N) :=
  [(CAdd t1 t1, [0; 1]); (CAdd t2 t2, [2; 3]); (CDel (Rules [RP (ul 1 7 7 70 1) 0; RP (dl 2 7 70 2) 1] (r_fars t1) []), []);
   (CRestart, []); (CAdd t1 t1, [5; 4])].
Lemma h_share_good : est_del_history g0 (init g0) h_share [] /\
  used_of (u_peers (run g0 (init g0) (firstn 3 h_share))) 900 2152 = [(8, 2)] /\
  List.length (sw_entries (u_sw (run g0 (init g0) (firstn 3 h_share)))) = 7%nat /\
  used_of (u_peers (run g0 (init g0) h_share)) 900 2152 = [(7, 2)].
Proof.
  split; [|repeat split; vm_compute; reflexivity].
  cbn [est_del_history h_share]. repeat split; try (vm_compute; reflexivity).
  intros f Hf g Hg Hr. vm_compute in Hf, Hg. destruct Hf as [<-|[<-|[]]]; destruct Hg as [<-|[<-|[<-|[<-|[]]]]]; try reflexivity; vm_compute in Hr; inversion Hr.
Qed.

(* non-vacuity of the guard of the modification theorem: an Update FAR that only changes the TEID is accepted and stable *)
Definition s1t : rules := Rules (o_all (snd x1)) [ulfar 1 5; dlfar 2 5 900 99] [].
Lemma stable_inhabited :
  stable_fars (r_fars s1) [dlfar 2 5 900 99] /\ o_res (snd (step g0 (fst x1) (CMod s1t (Rules [] [dlfar 2 5 900 99] [])) [])) = ROk.
Proof.
  split; [|vm_compute; reflexivity]. intros f [<-|[]]. exists (dlfar 2 5 900 8). split; [right; left; reflexivity|]. split; [reflexivity|].
  intros d p. reflexivity.
Qed.
