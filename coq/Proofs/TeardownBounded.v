(* C10 - instantiation of the reflective explorer for Model/Teardown.v, the statements decided by
   computation on small instances, and the witness schedules of the refuted full statements *)
From Coq Require Import NArith String List Bool Arith Lia.
From UPF Require Import Base.LTS Model.Teardown Proofs.TeardownInv.
Import ListNotations.
Open Scope list_scope.

(* ================================================================== soundness of the boolean equality *)
Ltac split_if :=
  repeat match goal with
         | H : (if ?c then _ else false) = true |- _ => let E := fresh "E" in destruct c eqn:E; [|discriminate H]
         | H : (if ?c then _ else false) = true |- _ => destruct c; [|discriminate H]
         end.

Lemma list_eqb_sound {A} (f : A -> A -> bool) :
  (forall a b, f a b = true -> a = b) -> forall x y, list_eqb f x y = true -> x = y.
Proof.
  intros Hf x. induction x as [|a x IH]; intros [|b y] H; cbn in H; try discriminate; [reflexivity|].
  split_if. f_equal; [apply Hf; assumption | apply IH; assumption].
Qed.
Lemma dgram_eqb_sound a b : dgram_eqb a b = true -> a = b.
Proof. destruct a, b; cbn; try congruence; intros H; apply N.eqb_eq in H; congruence. Qed.
Lemma role_eqb_sound a b : role_eqb a b = true -> a = b.
Proof. destruct a, b; cbn; congruence. Qed.
Lemma fname_eqb_sound a b : fname_eqb a b = true -> a = b.
Proof. destruct a, b; cbn; congruence. Qed.
Lemma tstat_eqb_sound a b : tstat_eqb a b = true -> a = b.
Proof. destruct a, b; cbn; congruence. Qed.
Lemma once_eqb_sound a b : once_eqb a b = true -> a = b.
Proof. destruct a, b; cbn; try congruence. intros H. apply role_eqb_sound in H. congruence. Qed.
Lemma N_list_eqb_sound x y : list_eqb N.eqb x y = true -> x = y.
Proof. apply list_eqb_sound. intros a b H. apply N.eqb_eq. exact H. Qed.
Ltac eqb_facts :=
  repeat match goal with
         | H : Nat.eqb _ _ = true |- _ => apply Nat.eqb_eq in H
         | H : N.eqb _ _ = true |- _ => apply N.eqb_eq in H
         | H : Bool.eqb _ _ = true |- _ => apply eqb_prop in H
         | H : String.eqb _ _ = true |- _ => apply String.eqb_eq in H
         | H : tstat_eqb _ _ = true |- _ => apply tstat_eqb_sound in H
         | H : fname_eqb _ _ = true |- _ => apply fname_eqb_sound in H
         | H : role_eqb _ _ = true |- _ => apply role_eqb_sound in H
         | H : dgram_eqb _ _ = true |- _ => apply dgram_eqb_sound in H
         | H : once_eqb _ _ = true |- _ => apply once_eqb_sound in H
         | H : list_eqb N.eqb _ _ = true |- _ => apply N_list_eqb_sound in H
         | H : list_eqb dgram_eqb _ _ = true |- _ => apply (list_eqb_sound _ dgram_eqb_sound) in H
         end.

Lemma chan_eqb_sound a b : chan_eqb a b = true -> a = b.
Proof. destruct a, b. unfold chan_eqb. cbn. intros H. split_if. eqb_facts. subst. reflexivity. Qed.
Lemma thr_eqb_sound a b : thr_eqb a b = true -> a = b.
Proof. destruct a, b. unfold thr_eqb. cbn. intros H. split_if. eqb_facts. subst. reflexivity. Qed.
Lemma assoc_eqb_sound a b : assoc_eqb a b = true -> a = b.
Proof.
  destruct a, b. unfold assoc_eqb. cbn. intros H. split_if. eqb_facts.
  repeat match goal with
         | H : thr_eqb _ _ = true |- _ => apply thr_eqb_sound in H
         | H : chan_eqb _ _ = true |- _ => apply chan_eqb_sound in H
         end.
  subst. reflexivity.
Qed.
Lemma node_eqb_sound a b : node_eqb a b = true -> a = b.
Proof.
  destruct a, b. unfold node_eqb. cbn. intros H. split_if. eqb_facts.
  repeat match goal with
         | H : thr_eqb _ _ = true |- _ => apply thr_eqb_sound in H
         | H : chan_eqb _ _ = true |- _ => apply chan_eqb_sound in H
         end.
  subst. reflexivity.
Qed.
Lemma env_eqb_sound a b : env_eqb a b = true -> a = b.
Proof. destruct a, b; cbn; try congruence; intros H; split_if; eqb_facts; congruence. Qed.
Lemma state_eqb_sound a b : state_eqb a b = true -> a = b.
Proof.
  destruct a as [n1 a1 e1 p1], b as [n2 a2 e2 p2]. unfold state_eqb. cbn. intros H. split_if.
  repeat match goal with
         | H : list_eqb assoc_eqb _ _ = true |- _ => apply (list_eqb_sound _ assoc_eqb_sound) in H
         | H : list_eqb env_eqb _ _ = true |- _ => apply (list_eqb_sound _ env_eqb_sound) in H
         | H : node_eqb _ _ = true |- _ => apply node_eqb_sound in H
         end.
  destruct p1, p2; try discriminate; eqb_facts; congruence.
Qed.

(* ================================================================== the labels tried by the explorer cover the enabled ones *)
Lemma labels_cover s l s' : step s l = Some s' -> In l (labels s).
Proof.
  unfold step, labels. destruct (dead s); [discriminate|]. intros H.
  destruct l as [k|alt| | |i r alt].
  - apply in_or_app. left. apply List.in_map. apply in_seq.
    destruct (nth_error (s_env s) k) eqn:E; [|discriminate].
    assert (k < List.length (s_env s)) by (apply nth_error_Some; congruence). lia.
  - apply in_or_app. right. apply in_or_app. left.
    destruct alt as [|[|[|alt]]]; cbn in *; try discriminate; auto.
  - apply in_or_app. right. apply in_or_app. left. cbn. tauto.
  - apply in_or_app. right. apply in_or_app. left. cbn. tauto.
  - apply in_or_app. right. apply in_or_app. right.
    destruct (negb (is_assoc_role r) || Nat.leb 3 alt) eqn:Eg; [discriminate|].
    apply orb_false_elim in Eg. destruct Eg as [Er Ealt]. apply negb_false_iff in Er.
    destruct (nth_error (s_asc s) i) eqn:E; [|discriminate].
    apply in_flat_map. exists i. split.
    + apply in_seq. assert (i < List.length (s_asc s)) by (apply nth_error_Some; congruence). lia.
    + unfold assoc_labels. apply in_flat_map. exists r. split.
      * destruct r; try discriminate Er; cbn; auto.
      * destruct alt as [|[|[|alt]]]; cbn in *; try discriminate; auto.
Qed.

(* if the explorer answers Safe, EVERY state reachable by ANY schedule is in the list and is not bad *)
Theorem explore_sound bad fuel s0 final :
  explore bad fuel s0 = Safe final -> forall s, reach s0 s -> In s final /\ bad s = false.
Proof.
  intros H. apply (explore_safe state tid step state_eqb state_eqb_sound state_key labels bad labels_cover fuel s0 final H).
Qed.

(* every schedule of enabled steps from s0 is shorter than k when level k is empty *)
Theorem level_bound k s0 : level k s0 = [] -> forall sch s, run_strict s0 sch = Some s -> List.length sch < k.
Proof.
  intros H. apply (level_empty_bounds state tid step state_eqb state_eqb_sound state_key labels labels_cover k s0 H).
Qed.

(* ================================================================== what is decided per instance *)
Definition is_safe (v : verdict state) : bool := match v with Safe _ => true | _ => false end.

(* no thread can move (environment events may still be pending) *)
Definition quiet (s : state) : bool := negb (existsb (enabled s) (thread_labels false s)).
Definition is_done (a : assoc) : bool := match a_once a with ODone => true | _ => false end.

Definition hb_of (cfg : list acfg) (i : nat) : bool :=
  match nth_error cfg i with Some c => c_hb c | None => false end.
Definition has_stop (ev : list env) : bool :=
  existsb (fun e => match e with EStop | ECancel => true | _ => false end) ev.
(* association i is given a reason to end *)
Definition triggered (cfg : list acfg) (ev : list env) (i : nat) : bool :=
  existsb (fun e => match e with
                    | EDeliver j DRelease | ETimeout j => Nat.eqb j i
                    | EHbFail j => Nat.eqb j i && hb_of cfg i
                    | _ => false
                    end) ev
  || match nth_error cfg i with
     | Some c => match c_first c with Some DRelease => true | _ => false end
     | None => false
     end.
(* an association that has ended is no longer in pConns (whatever its first datagram was) *)
Definition forgotten_ok (cfg : list acfg) (s : state) : bool :=
  forallb (fun i => match nth_error (s_asc s) i with
                    | Some a => negb (is_done a) || negb (in_map s i)
                    | None => true
                    end) (seq 0 (List.length cfg)).
(* every connection the node created is gone from pConns, its store is empty, and every session ever installed for
   it (configured or established by a request in flight) has exactly one delete command *)
Definition all_clean (cfg : list acfg) (s : state) : bool :=
  forallb (fun i => match nth_error cfg i, nth_error (s_asc s) i with
                    | Some c, Some a =>
                      negb (in_map s i)
                      && (negb (crt a)
                          || (is_nil (a_store a) && Nat.eqb (List.length (a_del a)) (List.length (a_inst a))
                              && forallb (fun x => Nat.eqb (count x (a_del a)) 1) (a_inst a)
                              && forallb (fun x => memN x (a_inst a)) (c_sess c)))
                    | _, _ => true
                    end) (seq 0 (List.length cfg)).

(* without Stop: no panic; a state in which no thread can move is healthy and has forgotten the ended
   associations; when nothing at all can move every triggered association has ended.
   with Stop: no panic; when nothing can move, Done() has returned and main has exited (no deadlock: Stop always
   completes), and at that point - as at every state in which node.done is closed - everything is clean *)
Definition good (cfg : list acfg) (ev : list env) (s : state) : bool :=
  negb (panicked s)
  && (if has_stop ev
      then (negb (terminal s) || n_main (s_node s))
           && (negb (cclosed (n_done (s_node s))) || all_clean cfg s)
      else (negb (quiet s) || (quiescent_ok s && forgotten_ok cfg s))
           && (negb (terminal s)
               || forallb (fun i => negb (triggered cfg ev i)
                                    || match nth_error (s_asc s) i with Some a => is_done a | None => false end)
                          (seq 0 (List.length cfg)))).

Lemma safe_sound bad fuel s0 : is_safe (explore bad fuel s0) = true ->
  forall s, reach s0 s -> bad s = false.
Proof.
  intros H s Hr. destruct (explore bad fuel s0) as [final| |] eqn:E; try discriminate.
  destruct (explore_sound _ _ _ _ E s Hr) as [_ Hb]. exact Hb.
Qed.

Definition instance_ok (fuel : nat) (cfg : list acfg) (ev : list env) : bool :=
  is_safe (explore (fun s => negb (good cfg ev s)) fuel (init cfg ev)).

Lemma instance_sound fuel cfg ev : instance_ok fuel cfg ev = true ->
  forall s, reach (init cfg ev) s -> good cfg ev s = true.
Proof.
  unfold instance_ok. intros H s Hr. apply negb_false_iff.
  apply (safe_sound (fun s => negb (good cfg ev s)) fuel (init cfg ev) H s Hr).
Qed.

(* fuel of the explorer (todo-list pops); generous *)
Definition fuel_1m : nat := 1000000.
Definition fuel_2m : nat := 2000000.

Definition rel (i : nat) : env := EDeliver i DRelease.

(* two established associations, each released and each silent past the read timeout, all interleavings *)
Definition cfg4 : list acfg := [ACfg [1%N] false None; ACfg [2%N] false None].
Definition ev4 : list env := [rel 0; ETimeout 0; rel 1; ETimeout 1].
