(* C03: the image invariant across guarded Session Modifications.
   Part 1: targets of commands, the upsert step on images, Go-slice views. *)
From Coq Require Import NArith Arith List Bool Lia ZifyN ZifyNat ZifyBool Permutation.
From UPF Require Import Model.IPPool Model.Fteid Model.PortRange Model.Agent Model.World
     Proofs.PortRangeProofs Proofs.IPPoolProofs Proofs.AgentProofs Proofs.WorldProofs.
Import ListNotations.
Open Scope N_scope.

(* ------------------------------------------------------------------ targets: (module, key) *)
Definition tg (c : cmd) : module * list N := (c_mod c, c_key c).

Lemma hits_tg a b : hits (c_mod a) (c_key a) b = true <-> tg a = tg b.
Proof.
  unfold hits, tg. rewrite andb_true_iff, module_eqb_eq, key_eqb_eq. split.
  - intros [A B]. rewrite A, B. reflexivity.
  - intros H. inversion H. split; reflexivity.
Qed.
Lemma hits_false_tg a b : hits (c_mod a) (c_key a) b = false <-> tg a <> tg b.
Proof.
  split.
  - intros H E. apply hits_tg in E. rewrite E in H. discriminate.
  - intros H. destruct (hits (c_mod a) (c_key a) b) eqn:E; [|reflexivity]. apply hits_tg in E. contradiction.
Qed.
Lemma hits_of_tg m k a b : tg a = tg b -> hits m k a = hits m k b.
Proof. unfold tg. intros H. inversion H. apply hits_same_target; assumption. Qed.

Definition tg_eqb (a b : module * list N) : bool := module_eqb (fst a) (fst b) && key_eqb (snd a) (snd b).
Lemma tg_eqb_eq a b : tg_eqb a b = true <-> a = b.
Proof.
  unfold tg_eqb. destruct a as [m k], b as [m' k']. cbn [fst snd]. rewrite andb_true_iff, module_eqb_eq, key_eqb_eq.
  split; [intros [-> ->]; reflexivity|intros H; inversion H; split; reflexivity].
Qed.

Lemma distinct_keys_tail x cs : distinct_keys (x :: cs) -> distinct_keys cs.
Proof. intros Hd i j a b Ha Hb Hij. apply (Hd (S i) (S j) a b); cbn; auto. Qed.

Lemma distinct_keys_nodup cs : distinct_keys cs -> NoDup (map tg cs).
Proof.
  induction cs as [|x cs IH]; intros Hd; cbn [map]; [constructor|]. constructor.
  - intros Hin. apply in_map_iff in Hin. destruct Hin as (b & Hb & Hin).
    apply In_nth_error in Hin. destruct Hin as [j Hj].
    pose proof (Hd O (S j) x b eq_refl Hj ltac:(lia)) as Hh. apply hits_false_tg in Hh. congruence.
  - apply IH. eapply distinct_keys_tail. exact Hd.
Qed.
Lemma nodup_distinct_keys cs : NoDup (map tg cs) -> distinct_keys cs.
Proof.
  intros Hn i j a b Ha Hb Hij. apply hits_false_tg. intros E.
  apply Hij. apply (proj1 (NoDup_nth_error (map tg cs)) Hn).
  - rewrite map_length. apply nth_error_Some. rewrite Ha. discriminate.
  - rewrite (map_nth_error tg i cs Ha), (map_nth_error tg j cs Hb), E. reflexivity.
Qed.

Lemma nodup_map_inj {A B} (f : A -> B) l a b : NoDup (map f l) -> In a l -> In b l -> f a = f b -> a = b.
Proof.
  induction l as [|x l IH]; intros Hn Ha Hb E; [destruct Ha|]. cbn [map] in Hn. inversion Hn as [|? ? Hnin Hn']; subst.
  destruct Ha as [<-|Ha], Hb as [<-|Hb]; auto.
  - exfalso. apply Hnin. rewrite E. apply in_map. exact Hb.
  - exfalso. apply Hnin. rewrite <- E. apply in_map. exact Ha.
Qed.

Lemma nodup_app_split {A} (a b : list A) : NoDup (a ++ b) -> NoDup a /\ NoDup b /\ (forall x, In x a -> In x b -> False).
Proof.
  intros H. split; [|split].
  - induction a as [|x a IH]; [constructor|]. cbn in H. inversion H as [|? ? Hnin H']; subst. constructor; [|apply IH; exact H'].
    intros Hin. apply Hnin. apply in_or_app. left. exact Hin.
  - eapply nodup_app_r. exact H.
  - apply nodup_app_disjoint. exact H.
Qed.
Lemma nodup_app_join {A} (a b : list A) : NoDup a -> NoDup b -> (forall x, In x a -> In x b -> False) -> NoDup (a ++ b).
Proof.
  induction a as [|x a IH]; intros Ha Hb Hx; [exact Hb|]. inversion Ha as [|? ? Hnin Ha']; subst. cbn. constructor.
  - intros Hin. apply in_app_or in Hin. destruct Hin as [Hin|Hin]; [contradiction|]. apply (Hx x); [left; reflexivity|exact Hin].
  - apply IH; auto. intros y Hy Hy'. apply (Hx y); [right; exact Hy|exact Hy'].
Qed.

(* disjointness of command lists through their targets *)
Lemma disjoint_from_tg xs ys : disjoint_from xs ys <-> (forall t, In t (map tg xs) -> In t (map tg ys) -> False).
Proof.
  split.
  - intros H t Hx Hy. apply in_map_iff in Hx. apply in_map_iff in Hy. destruct Hx as (a & <- & Ha). destruct Hy as (b & E & Hb).
    specialize (H a b Ha Hb). apply hits_false_tg in H. congruence.
  - intros H a b Ha Hb. apply hits_false_tg. intros E. apply (H (tg a)); [apply in_map; exact Ha|rewrite E; apply in_map; exact Hb].
Qed.
Lemma disjoint_from_sub xs ys xs' ys' :
  disjoint_from xs ys -> (forall x, In x xs' -> In x xs) -> (forall y, In y ys' -> In y ys) -> disjoint_from xs' ys'.
Proof. intros H Hx Hy a b Ha Hb. apply H; auto. Qed.

(* ------------------------------------------------------------------ the upsert step on an image:
   a batch of adds all of whose entries belong to the new image; every entry of the new image is written by
   the batch or was there before; no target disappears *)
Lemma image_upsert t so sn rest cs :
  is_image t (so ++ rest) ->
  (forall x, In x cs -> c_add x = true) ->
  (forall x, In x cs -> In x sn) ->
  NoDup (map tg sn) -> disjoint_from sn rest ->
  (forall c, In c sn -> In c cs \/ In c so) ->
  (forall c, In c so -> exists c', In c' sn /\ tg c' = tg c) ->
  is_image (apply_cmds cs t) (sn ++ rest).
Proof.
  intros [I1 I2] Hadd Hsub Hnd Hdis Hcov Hkeep. split.
  - intros c Hc. rewrite apply_cmds_get. destruct (last_cmd (c_mod c) (c_key c) cs) as [x|] eqn:El.
    + destruct (last_cmd_in _ _ _ _ El) as [Hx Hh]. apply hits_tg in Hh.
      apply in_app_or in Hc. destruct Hc as [Hc|Hc].
      * assert (c = x) as <- by (eapply (nodup_map_inj tg sn); eauto).
        rewrite (Hadd _ Hx). reflexivity.
      * exfalso. pose proof (Hdis x c (Hsub _ Hx) Hc) as Hf. apply hits_false_tg in Hf. congruence.
    + apply I1. apply in_app_or in Hc. apply in_or_app. destruct Hc as [Hc|Hc]; [|right; exact Hc].
      destruct (Hcov c Hc) as [Hcs|Hso]; [|left; exact Hso].
      exfalso. destruct (last_cmd_some (c_mod c) (c_key c) cs c Hcs (hits_self c)) as [c' E]. rewrite E in El. discriminate.
  - intros m k Hk. rewrite apply_cmds_untouched.
    + apply I2. intros c Hc. apply in_app_or in Hc. destruct Hc as [Hc|Hc].
      * destruct (Hkeep c Hc) as (c' & Hc' & E). rewrite <- (hits_of_tg m k c' c E). apply Hk. apply in_or_app. left. exact Hc'.
      * apply Hk. apply in_or_app. right. exact Hc.
    + intros c Hc. apply Hk. apply in_or_app. left. apply Hsub. exact Hc.
Qed.

(* ------------------------------------------------------------------ Go slices: what the operations do to the view *)
Lemma view_s_of {A} (l : list A) : view (s_of l) = l.
Proof. unfold view, s_of. cbn [len back]. apply firstn_all. Qed.

Lemma firstn_set_nth_ge {A} : forall n k (x : A) l, (n <= k)%nat -> firstn n (set_nth k x l) = firstn n l.
Proof.
  induction n as [|n IH]; intros k x l H; [reflexivity|].
  destruct l as [|y l]; [destruct k; reflexivity|]. destruct k as [|k]; [lia|]. cbn. rewrite IH by lia. reflexivity.
Qed.
Lemma set_nth_length {A} : forall k (x : A) l, length (set_nth k x l) = length l.
Proof. intros k x l. revert k. induction l as [|y l IH]; intros k; [destruct k; reflexivity|]. destruct k; cbn; [reflexivity|]. rewrite IH. reflexivity. Qed.
Lemma set_nth_firstn_app {A} : forall (l : list A) n x, (n < length l)%nat -> firstn (S n) (set_nth n x l) = firstn n l ++ [x].
Proof.
  induction l as [|y l IH]; intros n x H; [cbn in H; lia|]. destruct n as [|n]; [reflexivity|].
  cbn [set_nth]. change (firstn (S (S n)) (y :: set_nth n x l)) with (y :: firstn (S n) (set_nth n x l)).
  rewrite IH by (cbn in H; lia). reflexivity.
Qed.

Lemma view_s_append {A} (s : slice A) x : view (s_append s x) = view s ++ [x].
Proof.
  unfold view, s_append. destruct (Nat.ltb (len s) (length (back s))) eqn:E; cbn [len back].
  - apply Nat.ltb_lt in E. apply set_nth_firstn_app. exact E.
  - apply Nat.ltb_ge in E. rewrite (firstn_all2 (back s)) by exact E.
    rewrite firstn_all2; [reflexivity|]. rewrite app_length. cbn. lia.
Qed.

Definition remove_at {A} (k : nat) (l : list A) : list A := firstn k l ++ skipn (S k) l.

Lemma view_s_remove {A} (s : slice A) k : (k < length (view s))%nat -> view (s_remove s k) = remove_at k (view s).
Proof.
  unfold view, s_remove, remove_at. cbn [len back]. intros H. rewrite firstn_length in H.
  set (b := back s) in *. set (n := len s) in *.
  rewrite firstn_firstn. replace (Nat.min k n) with k by lia.
  rewrite firstn_app. rewrite firstn_length. replace (Nat.min k (length b)) with k by lia.
  rewrite firstn_firstn. replace (Nat.min (n - 1) k) with k by lia. f_equal.
  rewrite firstn_app. rewrite firstn_length, skipn_length.
  rewrite firstn_firstn.
  replace (Nat.min (n - 1 - k) (n - S k)) with (n - S k)%nat by lia.
  assert (firstn (n - 1 - k - Nat.min (n - S k) (length b - S k)) (skipn (n - 1) b) = []) as ->.
  { destruct (le_lt_dec n (length b)) as [Hl|Hl].
    - replace (n - 1 - k - Nat.min (n - S k) (length b - S k))%nat with 0%nat by lia. reflexivity.
    - rewrite (skipn_all2 b) by lia. apply firstn_nil. }
  rewrite app_nil_r.
  rewrite skipn_firstn_comm. reflexivity.
Qed.

Lemma remove_at_perm {A} (d : A) k l : (k < length l)%nat -> Permutation l (nth k l d :: remove_at k l).
Proof.
  intros H. unfold remove_at.
  rewrite <- (firstn_skipn k l) at 1.
  assert (skipn k l = nth k l d :: skipn (S k) l) as ->.
  { revert k H. induction l as [|y l IH]; intros k H; [cbn in H; lia|]. destruct k as [|k]; [reflexivity|]. cbn. apply IH. cbn in H. lia. }
  symmetry. apply Permutation_middle.
Qed.

Lemma set_nth_same {A} : forall k (l : list A) x, nth_error l k = Some x -> set_nth k x l = l.
Proof.
  induction k as [|k IH]; intros l x H; destruct l as [|y l]; try discriminate.
  - cbn in H. inversion H; reflexivity.
  - cbn in *. rewrite IH by exact H. reflexivity.
Qed.

Section WriteBack.
  Variable burst : N -> N -> N -> N.
  Lemma write_back_id : forall l k s, (forall i x, nth_error l i = Some x -> nth_error (back s) (k + i) = Some x) -> write_back k l s = s.
  Proof.
    induction l as [|p l IH]; intros k s H; [reflexivity|]. cbn [write_back].
    assert (s_set s k p = s) as ->.
    { unfold s_set. rewrite set_nth_same; [destruct s; reflexivity|]. specialize (H O p eq_refl). rewrite Nat.add_0_r in H. exact H. }
    apply IH. intros i x Hx. specialize (H (S i) x Hx). rewrite <- Nat.add_succ_comm in H. exact H.
  Qed.
  Lemma write_back_q_id : forall l k s, (forall i x, nth_error l i = Some x -> nth_error (back s) (k + i) = Some x) -> write_back_q k l s = s.
  Proof.
    induction l as [|p l IH]; intros k s H; [reflexivity|]. cbn [write_back_q].
    assert (s_set s k p = s) as ->.
    { unfold s_set. rewrite set_nth_same; [destruct s; reflexivity|]. specialize (H O p eq_refl). rewrite Nat.add_0_r in H. exact H. }
    apply IH. intros i x Hx. specialize (H (S i) x Hx). rewrite <- Nat.add_succ_comm in H. exact H.
  Qed.
  Lemma nth_error_firstn_some {A} : forall n (l : list A) i x, nth_error (firstn n l) i = Some x -> nth_error l i = Some x.
  Proof.
    induction n as [|n IH]; intros l i x H; [destruct i; discriminate|].
    destruct l as [|y l]; [destruct i; discriminate|]. destruct i as [|i]; cbn in *; [exact H|apply IH; exact H].
  Qed.
  Lemma write_back_view s : write_back O (view s) s = s.
  Proof. apply write_back_id. intros i x H. cbn. eapply nth_error_firstn_some. exact H. Qed.
  Lemma write_back_q_view s : write_back_q O (view s) s = s.
  Proof. apply write_back_q_id. intros i x H. cbn. eapply nth_error_firstn_some. exact H. Qed.
End WriteBack.

(* ------------------------------------------------------------------ Part 2: the update loops on views.
   [upd_list]: walk the parsed updates over the current list; a known id is overwritten in place (first match),
   an unknown id is skipped; returns the new list and the updates that hit *)
Fixpoint upd_list {A} (idf : A -> N) (ups : list A) (cur : list A) : list A * list A :=
  match ups with
  | [] => (cur, [])
  | u :: r =>
    match find_idx (fun x => idf x =? idf u) cur with
    | None => upd_list idf r cur
    | Some k => let '(c', h) := upd_list idf r (set_nth k u cur) in (c', u :: h)
    end
  end.

Lemma find_idx_some {A} (f : A -> bool) (d : A) : forall l k, find_idx f l = Some k -> (k < length l)%nat /\ f (nth k l d) = true.
Proof.
  induction l as [|x l IH]; intros k H; cbn [find_idx] in H; [discriminate|].
  destruct (f x) eqn:E; [inversion H; subst; cbn; split; [lia|exact E]|].
  destruct (find_idx f l) as [j|] eqn:Ej; [|discriminate]. cbn in H. inversion H; subst.
  destruct (IH j eq_refl) as [A1 A2]. cbn. split; [lia|exact A2].
Qed.
Lemma find_idx_none {A} (f : A -> bool) : forall l, find_idx f l = None -> forall x, In x l -> f x = false.
Proof.
  induction l as [|y l IH]; intros H x Hx; [destruct Hx|]. cbn [find_idx] in H. destruct (f y) eqn:E; [discriminate|].
  destruct (find_idx f l) eqn:E2; [discriminate|]. destruct Hx as [<-|Hx]; [exact E|apply IH; auto].
Qed.
Lemma find_idx_first {A} (f : A -> bool) (d : A) : forall l k, find_idx f l = Some k -> forall j, (j < k)%nat -> f (nth j l d) = false.
Proof.
  induction l as [|x l IH]; intros k H j Hj; cbn [find_idx] in H; [discriminate|].
  destruct (f x) eqn:E; [inversion H; subst; lia|].
  destruct (find_idx f l) as [i|] eqn:Ei; [|discriminate]. cbn in H. inversion H; subst.
  destruct j as [|j]; cbn; [exact E|]. apply (IH i eq_refl). lia.
Qed.

Lemma in_set_nth {A} : forall k (y : A) l x, In x (set_nth k y l) -> x = y \/ In x l.
Proof.
  induction k as [|k IH]; intros y l x H; destruct l as [|z l]; cbn in H; try contradiction.
  - destruct H as [H|H]; [left; auto|right; right; exact H].
  - destruct H as [H|H]; [right; left; exact H|]. destruct (IH _ _ _ H); [left; auto|right; right; auto].
Qed.
Lemma set_nth_in {A} : forall k (y : A) l, (k < length l)%nat -> In y (set_nth k y l).
Proof.
  induction k as [|k IH]; intros y l H; destruct l as [|z l]; cbn in H; try lia; cbn; [left; reflexivity|right; apply IH; lia].
Qed.
Lemma in_set_nth_keep {A} (d : A) : forall k (y : A) l x, In x l -> x <> nth k l d -> In x (set_nth k y l).
Proof.
  induction k as [|k IH]; intros y l x H Hn; destruct l as [|z l]; cbn in *; try contradiction.
  - destruct H as [H|H]; [subst; contradiction|right; exact H].
  - destruct H as [H|H]; [left; exact H|right; apply IH; assumption].
Qed.
Lemma map_set_nth {A B} (f : A -> B) (d : A) : forall k y l, (k < length l)%nat -> f y = f (nth k l d) -> map f (set_nth k y l) = map f l.
Proof.
  induction k as [|k IH]; intros y l H E; destruct l as [|z l]; cbn in *; try lia.
  - rewrite E. reflexivity.
  - rewrite IH; [reflexivity|lia|exact E].
Qed.

Section UpdList.
  Context {A : Type} (idf : A -> N) (d : A).

  Lemma upd_list_ids : forall ups cur, map idf (fst (upd_list idf ups cur)) = map idf cur.
  Proof.
    induction ups as [|u r IH]; intros cur; cbn [upd_list]; [reflexivity|].
    destruct (find_idx (fun x => idf x =? idf u) cur) as [k|] eqn:Ek; [|apply IH].
    specialize (IH (set_nth k u cur)). destruct (upd_list idf r (set_nth k u cur)) as [c' h]. cbn [fst] in *.
    rewrite IH. destruct (find_idx_some _ d _ _ Ek) as [Hk Hid]. apply N.eqb_eq in Hid.
    apply (map_set_nth idf d); [exact Hk|symmetry; exact Hid].
  Qed.

  Lemma upd_list_from : forall ups cur x, In x (fst (upd_list idf ups cur)) -> In x cur \/ In x (snd (upd_list idf ups cur)).
  Proof.
    induction ups as [|u r IH]; intros cur x H; cbn [upd_list] in *; [left; exact H|].
    destruct (find_idx (fun x => idf x =? idf u) cur) as [k|] eqn:Ek; [|apply IH; exact H].
    specialize (IH (set_nth k u cur) x). destruct (upd_list idf r (set_nth k u cur)) as [c' h]. cbn [fst snd] in *.
    destruct (IH H) as [H1|H1]; [|right; right; exact H1].
    destruct (in_set_nth _ _ _ _ H1) as [->|H2]; [right; left; reflexivity|left; exact H2].
  Qed.

  Lemma upd_list_hits_sub : forall ups cur x, In x (snd (upd_list idf ups cur)) -> In x ups.
  Proof.
    induction ups as [|u r IH]; intros cur x H; cbn [upd_list] in *; [exact H|].
    destruct (find_idx (fun x => idf x =? idf u) cur) as [k|] eqn:Ek; [|right; eapply IH; exact H].
    specialize (IH (set_nth k u cur) x). destruct (upd_list idf r (set_nth k u cur)) as [c' h]. cbn [fst snd] in *.
    destruct H as [H|H]; [left; exact H|right; apply IH; exact H].
  Qed.

  (* with pairwise distinct ids among the writes, every write is still in the list at the end *)
  Lemma upd_list_stays : forall ups cur keep,
    NoDup (map idf (keep ++ snd (upd_list idf ups cur))) -> (forall x, In x keep -> In x cur) ->
    forall x, In x (keep ++ snd (upd_list idf ups cur)) -> In x (fst (upd_list idf ups cur)).
  Proof.
    induction ups as [|u r IH]; intros cur keep Hn Hk x Hx; cbn [upd_list] in *.
    - cbn [snd fst] in *. rewrite app_nil_r in Hx. apply Hk. exact Hx.
    - destruct (find_idx (fun x => idf x =? idf u) cur) as [k|] eqn:Ek; [|eapply IH; eauto].
      specialize (IH (set_nth k u cur) (keep ++ [u])). destruct (upd_list idf r (set_nth k u cur)) as [c' h]. cbn [fst snd] in *.
      destruct (find_idx_some _ d _ _ Ek) as [Hlt Hid]. apply N.eqb_eq in Hid.
      apply IH.
      + rewrite <- app_assoc. exact Hn.
      + intros y Hy. apply in_app_or in Hy. destruct Hy as [Hy|[<-|[]]]; [|apply set_nth_in; exact Hlt].
        apply (in_set_nth_keep d); [apply Hk; exact Hy|]. intros ->.
        (* y would have the id of u, but both are in the duplicate-free list of writes *)
        rewrite map_app in Hn. cbn [map] in Hn. apply NoDup_remove_2 in Hn. apply Hn. apply in_or_app. left.
        rewrite <- Hid. apply in_map. exact Hy.
      + rewrite <- app_assoc. exact Hx.
  Qed.

  (* a key function that agrees on rules of equal id (among the writes and the stored rules) is preserved pointwise *)
  Lemma upd_list_keys {K} (kf : A -> K) : forall ups cur,
    (forall u x, In u ups -> In x (cur ++ ups) -> idf x = idf u -> kf x = kf u) ->
    map kf (fst (upd_list idf ups cur)) = map kf cur.
  Proof.
    induction ups as [|u r IH]; intros cur H; cbn [upd_list]; [reflexivity|].
    destruct (find_idx (fun x => idf x =? idf u) cur) as [k|] eqn:Ek.
    - specialize (IH (set_nth k u cur)). destruct (upd_list idf r (set_nth k u cur)) as [c' h]. cbn [fst] in *.
      destruct (find_idx_some _ d _ _ Ek) as [Hlt Hid]. apply N.eqb_eq in Hid.
      rewrite IH.
      + apply (map_set_nth kf d); [exact Hlt|]. symmetry. apply H; [left; reflexivity| |exact Hid].
        apply in_or_app. left. apply nth_In. exact Hlt.
      + intros u' x Hu' Hx. apply H; [right; exact Hu'|].
        apply in_app_or in Hx. apply in_or_app. destruct Hx as [Hx|Hx]; [|right; right; exact Hx].
        destruct (in_set_nth _ _ _ _ Hx) as [->|Hx']; [right; left; reflexivity|left; exact Hx'].
    - apply IH. intros u' x Hu' Hx. apply H; [right; exact Hu'|].
      apply in_app_or in Hx. apply in_or_app. destruct Hx as [Hx|Hx]; [left; exact Hx|right; right; exact Hx].
  Qed.

  Lemma upd_list_length : forall ups cur, length (fst (upd_list idf ups cur)) = length cur.
  Proof. intros ups cur. rewrite <- (map_length idf), upd_list_ids, map_length. reflexivity. Qed.
End UpdList.

Definition app_slice {A} (s : slice A) (l : list A) : slice A := fold_left s_append l s.
Lemma view_app_slice {A} : forall (l : list A) s, view (app_slice s l) = view s ++ l.
Proof.
  unfold app_slice. induction l as [|x l IH]; intros s; cbn [fold_left]; [rewrite app_nil_r; reflexivity|].
  rewrite IH, view_s_append, <- app_assoc. reflexivity.
Qed.

Section Loops.
  Variable burst : N -> N -> N -> N.

  Lemma parse_far_shape i l x y u f : parse_far i l x y u = Some f -> a_fseid f = l.
  Proof.
    unfold parse_far. destruct (fi_id i); [discriminate|]. destruct (fi_action i) as [|act]; [discriminate|].
    destruct (act =? 0); [discriminate|].
    assert (forall els f0, a_fseid (fwd_loop els x y f0) = a_fseid f0) as Hl.
    { induction els as [|e els IH]; intros f0; cbn [fwd_loop]; [reflexivity|].
      destruct e as [[|[t v]]|[|dd]|[|fl]|]; try apply IH; try (rewrite IH; reflexivity).
      destruct (has2nd_bit fl); rewrite IH; reflexivity. }
    destruct u.
    - destruct (fi_fwd_u i); [discriminate|]. intros H; inversion H. rewrite Hl. reflexivity.
    - destruct (negb (N.land act 2 =? 0)).
      + destruct (fi_fwd_c i); [discriminate|]. intros H; inversion H. rewrite Hl. reflexivity.
      + intros H; inversion H. reflexivity.
  Qed.
  Lemma parse_qer_shape i l q : parse_qer i l = Some q -> q_fseid q = l /\ q_level q = 0.
  Proof. unfold parse_qer. destruct (qi_id i); [discriminate|]. intros H; inversion H. split; reflexivity. Qed.

  Lemma parse_all_in {I R} (f : I -> option R) : forall is rs x, parse_all f is = Some rs -> In x rs -> exists i, In i is /\ f i = Some x.
  Proof.
    induction is as [|i is IH]; intros rs x H Hx; cbn [parse_all] in H; [inversion H; subst; destruct Hx|].
    destruct (f i) as [r|] eqn:E; [|discriminate]. destruct (parse_all f is) as [rs'|]; [|discriminate]. cbn in H. inversion H; subst.
    destruct Hx as [<-|Hx]; [exists i; split; [left; reflexivity|exact E]|].
    destruct (IH _ _ eq_refl Hx) as (j & Hj & Ej). exists j. split; [right; exact Hj|exact Ej].
  Qed.

  (* ---- Create FAR / Create QER: appended to the list and to the write list *)
  Lemma create_f_spec : forall is l x y w w',
    mod_create_f is l x y w = (w', true) ->
    exists fs, parse_all (fun i => parse_far i l x y false) is = Some fs /\
      w' = Work (w_p w) (app_slice (w_f w) fs) (w_q w) (w_pool w) (w_addp w) (w_addf w ++ fs) (w_addq w) (w_marks w).
  Proof.
    induction is as [|i is IH]; intros l x y w w' H; cbn [mod_create_f parse_all] in *.
    - inversion H; subst. exists []. split; [reflexivity|]. rewrite app_nil_r. destruct w'; reflexivity.
    - destruct (parse_far i l x y false) as [f|]; [|discriminate].
      destruct (IH _ _ _ _ _ H) as (fs & Hp & ->). exists (f :: fs). rewrite Hp. split; [reflexivity|].
      cbn [w_p w_f w_q w_pool w_addp w_addf w_addq w_marks]. rewrite <- app_assoc. reflexivity.
  Qed.
  Lemma create_q_spec : forall is l w w',
    mod_create_q is l w = (w', true) ->
    exists qs, parse_all (fun i => parse_qer i l) is = Some qs /\
      w' = Work (w_p w) (w_f w) (app_slice (w_q w) qs) (w_pool w) (w_addp w) (w_addf w) (w_addq w ++ qs) (w_marks w).
  Proof.
    induction is as [|i is IH]; intros l w w' H; cbn [mod_create_q parse_all] in *.
    - inversion H; subst. exists []. split; [reflexivity|]. rewrite app_nil_r. destruct w'; reflexivity.
    - destruct (parse_qer i l) as [q|]; [|discriminate].
      destruct (IH _ _ _ H) as (qs & Hp & ->). exists (q :: qs). rewrite Hp. split; [reflexivity|].
      cbn [w_p w_f w_q w_pool w_addp w_addf w_addq w_marks]. rewrite <- app_assoc. reflexivity.
  Qed.
  (* Create PDR: the pool threads through the parser, so the parsed list is given existentially *)
  Lemma create_p_spec : forall is l pf w w',
    mod_create_p is l pf w = (w', true) ->
    exists ps pl, w' = Work (app_slice (w_p w) ps) (w_f w) (w_q w) pl (w_addp w ++ map p_id ps) (w_addf w) (w_addq w) (w_marks w) /\
                  length ps = length is.
  Proof.
    induction is as [|i is IH]; intros l pf w w' H; cbn [mod_create_p] in *.
    - inversion H; subst. exists [], (w_pool w'). split; [|reflexivity]. cbn. rewrite app_nil_r. destruct w'; reflexivity.
    - destruct (parse_pdr i l pf (w_pool w)) as [pl [p|]]; [|discriminate].
      destruct (IH _ _ _ _ H) as (ps & pl' & -> & Hl). exists (p :: ps), pl'. split; [|cbn; rewrite Hl; reflexivity].
      cbn [w_p w_f w_q w_pool w_addp w_addf w_addq w_marks map]. rewrite <- app_assoc. reflexivity.
  Qed.

  (* ---- Update FAR / Update QER on the view *)
  Lemma update_f_spec : forall is l x y w w',
    mod_update_f is l x y w = (w', true) ->
    exists ups, parse_all (fun i => parse_far i l x y true) is = Some ups /\
      w_p w' = w_p w /\ w_q w' = w_q w /\ w_pool w' = w_pool w /\ w_addp w' = w_addp w /\ w_addq w' = w_addq w /\
      view (w_f w') = fst (upd_list a_id ups (view (w_f w))) /\
      w_addf w' = w_addf w ++ snd (upd_list a_id ups (view (w_f w))).
  Proof.
    induction is as [|i is IH]; intros l x y w w' H; cbn [mod_update_f parse_all] in *.
    - inversion H; subst. exists []. cbn. rewrite app_nil_r. repeat split; reflexivity.
    - destruct (parse_far i l x y true) as [f|]; [|discriminate]. cbn [upd_list].
      destruct (find_idx (fun x0 => a_id x0 =? a_id f) (view (w_f w))) as [k|] eqn:Ek.
      + destruct (IH _ _ _ _ _ H) as (ups & Hp & A1 & A2 & A3 & A4 & A5 & A6 & A7). exists (f :: ups). rewrite Hp.
        cbn [w_p w_f w_q w_pool w_addp w_addf w_addq option_map] in *. cbn [upd_list]. rewrite Ek.
        rewrite view_s_set in A6, A7 by (eapply find_idx_lt; exact Ek).
        destruct (upd_list a_id ups (set_nth k f (view (w_f w)))) as [c' h]. cbn [fst snd] in *.
        rewrite A7, <- app_assoc. repeat split; assumption.
      + destruct (IH _ _ _ _ _ H) as (ups & Hp & A1 & A2 & A3 & A4 & A5 & A6 & A7). exists (f :: ups). rewrite Hp.
        cbn [option_map upd_list]. rewrite Ek. repeat split; assumption.
  Qed.
  Lemma update_q_spec : forall is l w w',
    mod_update_q is l w = (w', true) ->
    exists ups, parse_all (fun i => parse_qer i l) is = Some ups /\
      w_p w' = w_p w /\ w_f w' = w_f w /\ w_pool w' = w_pool w /\ w_addp w' = w_addp w /\ w_addf w' = w_addf w /\ w_marks w' = w_marks w /\
      view (w_q w') = fst (upd_list q_id ups (view (w_q w))) /\
      w_addq w' = w_addq w ++ snd (upd_list q_id ups (view (w_q w))).
  Proof.
    induction is as [|i is IH]; intros l w w' H; cbn [mod_update_q parse_all] in *.
    - inversion H; subst. exists []. cbn. rewrite app_nil_r. repeat split; reflexivity.
    - destruct (parse_qer i l) as [q|]; [|discriminate]. cbn [upd_list].
      destruct (find_idx (fun x0 => q_id x0 =? q_id q) (view (w_q w))) as [k|] eqn:Ek.
      + destruct (IH _ _ _ H) as (ups & Hp & A1 & A2 & A3 & A4 & A5 & A5' & A6 & A7). exists (q :: ups). rewrite Hp.
        cbn [w_p w_f w_q w_pool w_addp w_addf w_addq w_marks option_map] in *. cbn [upd_list]. rewrite Ek.
        rewrite view_s_set in A6, A7 by (eapply find_idx_lt; exact Ek).
        destruct (upd_list q_id ups (set_nth k q (view (w_q w)))) as [c' h]. cbn [fst snd] in *.
        rewrite A7, <- app_assoc. repeat split; assumption.
      + destruct (IH _ _ _ H) as (ups & Hp & A1 & A2 & A3 & A4 & A5 & A5' & A6 & A7). exists (q :: ups). rewrite Hp.
        cbn [option_map upd_list]. rewrite Ek. repeat split; assumption.
  Qed.
  (* ---- Update PDR on the view; the parsed list (the pool threads through the parser) *)
  Fixpoint upd_p_parsed (is : list pdr_ie) (l : N) (pf : pfd_table) (pl : option pool) : list pdr :=
    match is with
    | [] => []
    | i :: r => match parse_pdr i l pf pl with
                | (pl', Some p) => p :: upd_p_parsed r l pf pl'
                | (_, None) => []
                end
    end.
  Lemma update_p_spec : forall is l pf w w',
    mod_update_p is l pf w = (w', true) ->
    w_f w' = w_f w /\ w_q w' = w_q w /\ w_addf w' = w_addf w /\ w_addq w' = w_addq w /\ w_marks w' = w_marks w /\
    view (w_p w') = fst (upd_list p_id (upd_p_parsed is l pf (w_pool w)) (view (w_p w))) /\
    w_addp w' = w_addp w ++ map p_id (snd (upd_list p_id (upd_p_parsed is l pf (w_pool w)) (view (w_p w)))).
  Proof.
    induction is as [|i is IH]; intros l pf w w' H; cbn [mod_update_p upd_p_parsed] in *.
    - inversion H; subst. cbn. rewrite app_nil_r. repeat split; reflexivity.
    - destruct (parse_pdr i l pf (w_pool w)) as [pl [p|]]; [|discriminate]. cbn [upd_list].
      destruct (find_idx (fun x => p_id x =? p_id p) (view (w_p w))) as [k|] eqn:Ek.
      + destruct (IH _ _ _ _ H) as (A1 & A2 & A3 & A4 & A5 & A6 & A7).
        cbn [w_p w_f w_q w_pool w_addp w_addf w_addq w_marks] in *.
        rewrite view_s_set in A6, A7 by (eapply find_idx_lt; exact Ek).
        destruct (upd_list p_id (upd_p_parsed is l pf pl) (set_nth k p (view (w_p w)))) as [c' h]. cbn [fst snd map] in *.
        rewrite A7, <- app_assoc. repeat split; assumption.
      + destruct (IH _ _ _ _ H) as (A1 & A2 & A3 & A4 & A5 & A6 & A7).
        unfold w_with_pool in *. cbn [w_p w_f w_q w_pool w_addp w_addf w_addq w_marks] in *. repeat split; assumption.
  Qed.
End Loops.

(* ------------------------------------------------------------------ Part 3: the remove loops: the rules are split
   into those that stay and those that were removed *)
Section Removes.
  Variable burst : N -> N -> N -> N.

  Lemma remove_f_perm : forall ids s del s' del',
    mod_remove_f ids s del = (s', Some del') -> Permutation (view s ++ del) (view s' ++ del').
  Proof.
    induction ids as [|[|id] ids IH]; intros s del s' del' H; cbn [mod_remove_f] in H; try discriminate.
    - inversion H; subst. reflexivity.
    - destruct (find_idx (fun x => a_id x =? id) (view s)) as [k|] eqn:Ek; [|discriminate].
      pose proof (find_idx_lt _ _ _ Ek) as Hk. apply IH in H. rewrite <- H.
      rewrite view_s_remove by exact Hk. rewrite (remove_at_perm far0 k (view s) Hk) at 1.
      cbn [app]. rewrite app_assoc. apply Permutation_cons_append.
  Qed.
  Lemma remove_q_perm : forall ids s del s' del',
    mod_remove_q ids s del = (s', Some del') -> Permutation (view s ++ del) (view s' ++ del').
  Proof.
    induction ids as [|[|id] ids IH]; intros s del s' del' H; cbn [mod_remove_q] in H; try discriminate.
    - inversion H; subst. reflexivity.
    - destruct (find_idx (fun x => q_id x =? id) (view s)) as [k|] eqn:Ek; [|discriminate].
      pose proof (find_idx_lt _ _ _ Ek) as Hk. apply IH in H. rewrite <- H.
      rewrite view_s_remove by exact Hk. rewrite (remove_at_perm qer0 k (view s) Hk) at 1.
      cbn [app]. rewrite app_assoc. apply Permutation_cons_append.
  Qed.
  Lemma remove_p_perm : forall ids s g del s' g' del',
    mod_remove_p ids s g del = (s', g', Some del') -> Permutation (view s ++ del) (view s' ++ del').
  Proof.
    induction ids as [|[|id] ids IH]; intros s g del s' g' del' H; cbn [mod_remove_p] in H; try discriminate.
    - inversion H; subst. reflexivity.
    - destruct (find_idx (fun x => p_id x =? id) (view s)) as [k|] eqn:Ek; [|discriminate].
      pose proof (find_idx_lt _ _ _ Ek) as Hk. apply IH in H. rewrite <- H.
      rewrite view_s_remove by exact Hk. rewrite (remove_at_perm pdr0 k (view s) Hk) at 1.
      cbn [app]. rewrite app_assoc. apply Permutation_cons_append.
  Qed.
End Removes.

(* ------------------------------------------------------------------ Part 4: MarkSessionQer that does not relabel, and
   the handler on the path where every loop completes and every Remove id resolves *)
Fixpoint list_eqb {A} (e : A -> A -> bool) (a b : list A) : bool :=
  match a, b with
  | [], [] => true
  | x :: a', y :: b' => e x y && list_eqb e a' b'
  | _, _ => false
  end.
Lemma list_eqb_eq {A} (e : A -> A -> bool) : (forall x y, e x y = true -> x = y) -> forall a b, list_eqb e a b = true -> a = b.
Proof.
  intros He. induction a as [|x a IH]; destruct b as [|y b]; cbn; intros H; try discriminate; [reflexivity|].
  apply andb_true_iff in H. destruct H as [H1 H2]. rewrite (He _ _ H1), (IH _ H2). reflexivity.
Qed.

(* re-running MarkSessionQer on the lists returns them unchanged (no QER list re-ordered, no level changed) *)
Definition mark_stable (ps : list pdr) (qs : list qer) : bool :=
  match mark_session_qer ps qs with
  | Done (ps', qs') => list_eqb (list_eqb N.eqb) (map p_qers ps') (map p_qers ps) && list_eqb N.eqb (map q_level qs') (map q_level qs)
  | Crash _ => false
  end.

Lemma set_qers_same p : set_qers p (p_qers p) = p.
Proof. destruct p; reflexivity. Qed.
Lemma map_set_qers_same (g : pdr -> list N) : forall ps, map p_qers (map (fun p => set_qers p (g p)) ps) = map p_qers ps -> map (fun p => set_qers p (g p)) ps = ps.
Proof.
  induction ps as [|p ps IH]; intros H; [reflexivity|]. cbn [map] in *. inversion H as [[H1 H2]].
  rewrite IH by exact H2. f_equal. assert (g p = p_qers p) as -> by (destruct p; exact H1). apply set_qers_same.
Qed.
Lemma set_nth_level_same : forall k (qs : list qer) q, nth_error qs k = Some q ->
  map q_level (set_nth k (set_level q 1) qs) = map q_level qs -> set_nth k (set_level q 1) qs = qs.
Proof.
  induction k as [|k IH]; intros qs q Hq H; destruct qs as [|y qs]; try discriminate; cbn in *.
  - inversion Hq; subst. inversion H as [H1]. f_equal. destruct q; cbn in *. subst. reflexivity.
  - inversion H as [H1]. f_equal. apply IH; assumption.
Qed.

Lemma mark_stable_spec ps qs : mark_stable ps qs = true -> mark_session_qer ps qs = Done (ps, qs).
Proof.
  unfold mark_stable. intros H.
  destruct (mark_session_qer ps qs) as [[ps' qs']|] eqn:E; [|discriminate].
  apply andb_true_iff in H. destruct H as [H1 H2].
  apply (list_eqb_eq _ (list_eqb_eq N.eqb (fun x y => proj1 (N.eqb_eq x y)))) in H1.
  apply (list_eqb_eq N.eqb (fun x y => proj1 (N.eqb_eq x y))) in H2.
  unfold mark_session_qer in E. destruct ps as [|p0 ps0]; [symmetry; exact E|].
  destruct (nth_error (p0 :: ps0) (length (p0 :: ps0) - 1)) as [lastp|]; [|discriminate].
  destruct (Nat.ltb (length (p_qers lastp)) 1 || Nat.ltb (length qs) 2); [symmetry; exact E|].
  destruct (search_list (p0 :: ps0) (p_qers lastp)) as [lst'|]; [|symmetry; exact E].
  destruct (select_qer qs 0 lst' (0%nat, 0, 0)) as [[sidx sid] sm].
  destruct (nth_error qs sidx) as [q|] eqn:Eq; [|discriminate].
  inversion E; subst ps' qs'. f_equal. f_equal.
  - exact (map_set_qers_same (fun p => move_last sid (p_qers p)) (p0 :: ps0) H1).
  - apply set_nth_level_same; assumption.
Qed.

Definition lookup_pdrs (ids : list N) (P : list pdr) : list pdr :=
  flat_map (fun id => match find_idx (fun x => p_id x =? id) P with Some k => [nth k P pdr0] | None => [] end) ids.

Section Late.
  Variable burst : N -> N -> N -> N.

  Definition new_rseid (cpf : option (acc (N * option N))) (s0 : session) : N :=
    match cpf with Some (IOk (r, _)) => r | _ => s_rseid s0 end.

  Lemma handle_mod_late a c seid cpf cp cf cq up uf uq rp rf rq s0 w1 w2 w3 w4 w5 w6 wp3 g3 dp wf3 df wq3 dq :
    find_session seid (c_sessions c) = Some s0 ->
    mod_create_p cp seid (c_pfds c) (Work (s_pdrs s0) (s_fars s0) (s_qers s0) (a_pool a) [] [] [] []) = (w1, true) ->
    mod_create_f cf seid (g_access (a_cfg a)) (g_core (a_cfg a)) w1 = (w2, true) ->
    mod_create_q cq seid w2 = (w3, true) ->
    mod_update_p up seid (c_pfds c) w3 = (w4, true) ->
    mod_update_f uf seid (g_access (a_cfg a)) (g_core (a_cfg a)) w4 = (w5, true) ->
    mod_update_q uq seid w5 = (w6, true) ->
    mark_stable (view (w_p w6)) (view (w_q w6)) = true ->
    mark_stable (view (w_p w6)) (w_addq w6) = true ->
    mod_remove_p rp (w_p w6) (a_teids a) [] = (wp3, g3, Some dp) ->
    mod_remove_f rf (w_f w6) [] = (wf3, Some df) ->
    mod_remove_q rq (w_q w6) [] = (wq3, Some dq) ->
    let cmds1 := add_cmds burst (lookup_pdrs (w_addp w6) (view (w_p w6))) (w_addf w6) (w_addq w6) in
    let cmds2 := del_cmds dp df dq in
    handle_mod burst a c seid cpf cp cf cq up uf uq rp rf rq =
    Done (Agent (a_cfg a) (w_pool w6) g3 (a_gauge a) (apply_cmds cmds2 (apply_cmds cmds1 (a_tables a))),
          Conn (c_remote c) (c_pfds c) (replace_session (Sess (s_lseid s0) (new_rseid cpf s0) wp3 wf3 wq3) (c_sessions c)) (c_seq c),
          Out (Some (RMod (new_rseid cpf s0) CAUSE_OK)) (cmds1 ++ cmds2) (if g_end_marker (a_cfg a) then w_marks w6 else []) false).
  Proof.
    intros Hf H1 H2 H3 H4 H5 H6 M1 M2 R1 R2 R3. cbv zeta. unfold handle_mod. cbv zeta.
    rewrite Hf. rewrite H1. cbv beta iota. rewrite H2. cbv beta iota. rewrite H3. cbv beta iota.
    rewrite H4. cbv beta iota. rewrite H5. cbv beta iota. rewrite H6. cbv beta iota.
    rewrite (mark_stable_spec _ _ M1). cbv beta iota. rewrite write_back_view, write_back_q_view.
    rewrite (mark_stable_spec _ _ M2). cbv beta iota. rewrite write_back_view.
    rewrite R1. cbv beta iota. rewrite R2. cbv beta iota. rewrite R3. cbv beta iota.
    reflexivity.
  Qed.
End Late.

(* ------------------------------------------------------------------ Part 5: the two phases of an accepted modification
   on rule lists: the add batch (creates and updates), then the delete batch (removes) *)
Lemma perm_interleave {A} (a1 a2 b1 b2 c1 c2 : list A) :
  Permutation ((a1 ++ a2) ++ (b1 ++ b2) ++ (c1 ++ c2)) ((a1 ++ b1 ++ c1) ++ (a2 ++ b2 ++ c2)).
Proof.
  repeat rewrite <- app_assoc. apply Permutation_app_head.
  etransitivity; [apply Permutation_app_swap_app|]. apply Permutation_app_head.
  etransitivity; [apply Permutation_app_head; apply Permutation_app_swap_app|].
  apply Permutation_app_swap_app.
Qed.

Section Phases.
  Variable burst : N -> N -> N -> N.

  Definition ptg (p : pdr) : list (module * list N) := map tg (pdr_add p).
  Definition ftg (f : far) : list (module * list N) := map tg (far_add f).
  Definition qtg (q : qer) : list (module * list N) := map tg (qer_add burst q).

  Lemma tg_add_cmds P F Q : map tg (add_cmds burst P F Q) = concat (map ptg P) ++ concat (map ftg F) ++ concat (map qtg Q).
  Proof. unfold add_cmds. rewrite !map_app, !flat_map_concat_map, !concat_map, !map_map. reflexivity. Qed.

  Lemma in_add_cmds c P F Q : In c (add_cmds burst P F Q) <->
    (exists p, In p P /\ In c (pdr_add p)) \/ (exists f, In f F /\ In c (far_add f)) \/ (exists q, In q Q /\ In c (qer_add burst q)).
  Proof. unfold add_cmds. rewrite !in_app_iff, !in_flat_map. tauto. Qed.

  Lemma qtg_eq q q' : q_id q = q_id q' -> q_fseid q = q_fseid q' -> (q_level q =? 0) = (q_level q' =? 0) -> qtg q = qtg q'.
  Proof.
    intros A B C. unfold qtg. destruct (qer_add_shape burst q) as (v1 & v2 & ->). destruct (qer_add_shape burst q') as (v1' & v2' & ->).
    rewrite C, A, B. destruct (q_level q' =? 0); reflexivity.
  Qed.
  Lemma ftg_eq f f' : a_id f = a_id f' -> a_fseid f = a_fseid f' -> ftg f = ftg f'.
  Proof. intros A B. unfold ftg, far_add. cbn. unfold tg. cbn. rewrite A, B. reflexivity. Qed.

  Lemma phaseA t P0 F0 Q0 P1 F1 Q1 AP AF AQ rest :
    is_image t (add_cmds burst P0 F0 Q0 ++ rest) ->
    NoDup (map tg (add_cmds burst P1 F1 Q1)) -> disjoint_from (add_cmds burst P1 F1 Q1) rest ->
    (forall p, In p AP -> In p P1) -> (forall f, In f AF -> In f F1) -> (forall q, In q AQ -> In q Q1) ->
    (forall p, In p P1 -> In p AP \/ In p P0) -> (forall f, In f F1 -> In f AF \/ In f F0) -> (forall q, In q Q1 -> In q AQ \/ In q Q0) ->
    (forall p, In p P0 -> exists p', In p' P1 /\ ptg p' = ptg p) ->
    (forall f, In f F0 -> exists f', In f' F1 /\ ftg f' = ftg f) ->
    (forall q, In q Q0 -> exists q', In q' Q1 /\ qtg q' = qtg q) ->
    is_image (apply_cmds (add_cmds burst AP AF AQ) t) (add_cmds burst P1 F1 Q1 ++ rest).
  Proof.
    intros Hi Hn Hd SP SF SQ CP CF CQ KP KF KQ.
    apply image_upsert with (so := add_cmds burst P0 F0 Q0); try assumption.
    - intros x Hx. eapply add_cmds_are_adds. exact Hx.
    - intros x Hx. apply in_add_cmds in Hx. apply in_add_cmds.
      destruct Hx as [(p & Hp & Hx)|[(f & Hf & Hx)|(q & Hq & Hx)]]; [left; exists p|right; left; exists f|right; right; exists q]; auto.
    - intros x Hx. apply in_add_cmds in Hx. rewrite !in_add_cmds.
      destruct Hx as [(p & Hp & Hx)|[(f & Hf & Hx)|(q & Hq & Hx)]].
      + destruct (CP p Hp); [left|right]; left; exists p; auto.
      + destruct (CF f Hf); [left|right]; right; left; exists f; auto.
      + destruct (CQ q Hq); [left|right]; right; right; exists q; auto.
    - intros x Hx. apply in_add_cmds in Hx.
      destruct Hx as [(p & Hp & Hx)|[(f & Hf & Hx)|(q & Hq & Hx)]].
      + destruct (KP p Hp) as (p' & Hp' & E). assert (In (tg x) (ptg p')) as Hin by (rewrite E; apply in_map; exact Hx).
        apply in_map_iff in Hin. destruct Hin as (c' & Ec & Hc'). exists c'. split; [apply in_add_cmds; left; exists p'; auto|exact Ec].
      + destruct (KF f Hf) as (f' & Hf' & E). assert (In (tg x) (ftg f')) as Hin by (rewrite E; apply in_map; exact Hx).
        apply in_map_iff in Hin. destruct Hin as (c' & Ec & Hc'). exists c'. split; [apply in_add_cmds; right; left; exists f'; auto|exact Ec].
      + destruct (KQ q Hq) as (q' & Hq' & E). assert (In (tg x) (qtg q')) as Hin by (rewrite E; apply in_map; exact Hx).
        apply in_map_iff in Hin. destruct Hin as (c' & Ec & Hc'). exists c'. split; [apply in_add_cmds; right; right; exists q'; auto|exact Ec].
  Qed.

  Lemma add_cmds_perm P F Q P' F' Q' dp df dq :
    Permutation P (P' ++ dp) -> Permutation F (F' ++ df) -> Permutation Q (Q' ++ dq) ->
    Permutation (add_cmds burst P F Q) (add_cmds burst P' F' Q' ++ add_cmds burst dp df dq).
  Proof.
    intros HP HF HQ. unfold add_cmds.
    rewrite (Permutation_flat_map pdr_add HP), (Permutation_flat_map far_add HF), (Permutation_flat_map (qer_add burst) HQ).
    rewrite !flat_map_app. apply perm_interleave.
  Qed.

  Lemma same_targets_lists dp df dq : same_targets (del_cmds dp df dq) (add_cmds burst dp df dq).
  Proof.
    pose proof (same_targets_session burst (Sess 0 0 (s_of dp) (s_of df) (s_of dq))) as H.
    unfold session_cmds in H. cbn [s_pdrs s_fars s_qers] in H. rewrite !view_s_of in H. exact H.
  Qed.

  Lemma phaseB t P1 F1 Q1 P' F' Q' dp df dq rest :
    is_image t (add_cmds burst P1 F1 Q1 ++ rest) ->
    NoDup (map tg (add_cmds burst P1 F1 Q1)) -> disjoint_from (add_cmds burst P1 F1 Q1) rest ->
    Permutation P1 (P' ++ dp) -> Permutation F1 (F' ++ df) -> Permutation Q1 (Q' ++ dq) ->
    is_image (apply_cmds (del_cmds dp df dq) t) (add_cmds burst P' F' Q' ++ rest).
  Proof.
    intros Hi Hn Hd HP HF HQ. pose proof (add_cmds_perm _ _ _ _ _ _ _ _ _ HP HF HQ) as Hperm.
    apply image_del with (gone := add_cmds burst dp df dq).
    - eapply is_image_ext; [exact Hi|]. intros x. rewrite !in_app_iff.
      split.
      + intros [H|H]; [|right; right; exact H]. apply (Permutation_in _ Hperm) in H. apply in_app_or in H. tauto.
      + intros [H|[H|H]]; [left|left|right; exact H]; apply (Permutation_in _ (Permutation_sym Hperm)); apply in_or_app; tauto.
    - apply same_targets_lists.
    - intros x. apply del_cmds_are_deletes.
    - intros x y Hx Hy. apply in_app_or in Hy. destruct Hy as [Hy|Hy].
      + pose proof (Permutation_NoDup (Permutation_map tg Hperm) Hn) as Hn'. rewrite map_app in Hn'.
        destruct (nodup_app_split _ _ Hn') as (_ & _ & Hx').
        apply hits_false_tg. intros E. apply (Hx' (tg y)); [apply in_map; exact Hy|rewrite <- E; apply in_map; exact Hx].
      + apply Hd; [|exact Hy]. apply (Permutation_in _ (Permutation_sym Hperm)). apply in_or_app. right. exact Hx.
  Qed.

  (* the PDRs of the add batch: looked up by id in the final list *)
  Lemma lookup_pdrs_in ids P p : In p (lookup_pdrs ids P) -> In p P.
  Proof.
    unfold lookup_pdrs. intros H. apply in_flat_map in H. destruct H as (id & _ & H).
    destruct (find_idx (fun x => p_id x =? id) P) as [k|] eqn:Ek; [|destruct H]. destruct H as [<-|[]].
    apply nth_In. eapply find_idx_lt. exact Ek.
  Qed.
  Lemma lookup_pdrs_finds ids P p : NoDup (map p_id P) -> In p P -> In (p_id p) ids -> In p (lookup_pdrs ids P).
  Proof.
    intros Hn Hp Hid. unfold lookup_pdrs. apply in_flat_map. exists (p_id p). split; [exact Hid|].
    destruct (find_idx (fun x => p_id x =? p_id p) P) as [k|] eqn:Ek.
    - destruct (find_idx_some _ pdr0 _ _ Ek) as [Hk He]. apply N.eqb_eq in He. left.
      apply (nodup_map_inj p_id P); auto. apply nth_In. exact Hk.
    - pose proof (find_idx_none _ _ Ek p Hp) as Hf. cbn in Hf. rewrite N.eqb_refl in Hf. discriminate.
  Qed.
End Phases.

(* ------------------------------------------------------------------ Part 6: the guard on (state before, message) *)
Fixpoint nodupb (l : list N) : bool := match l with [] => true | x :: r => negb (mem_n x r) && nodupb r end.
Lemma nodupb_spec l : nodupb l = true -> NoDup l.
Proof.
  induction l as [|x l IH]; intros H; [constructor|]. cbn [nodupb] in H. apply andb_true_iff in H. destruct H as [H1 H2].
  constructor; [|apply IH; exact H2]. apply mem_n_false_not_in. destruct (mem_n x l); [discriminate|reflexivity].
Qed.
Lemma mem_n_in x l : In x l -> mem_n x l = true.
Proof. intros H. unfold mem_n. apply existsb_exists. exists x. split; [exact H|apply N.eqb_refl]. Qed.

Definition nil_b {A} (l : list A) : bool := match l with [] => true | _ => false end.
Lemma nil_b_spec {A} (l : list A) : nil_b l = true -> l = [].
Proof. destruct l; [reflexivity|discriminate]. Qed.

Definition far_ie_ids (is : list far_ie) : list N := flat_map (fun i => match fi_id i with IOk id => [id] | IErr => [] end) is.
Definition qer_ie_ids (is : list qer_ie) : list N := flat_map (fun i => match qi_id i with IOk id => [id] | IErr => [] end) is.

Section Guard.
  Variable burst : N -> N -> N -> N.

  (* the six parse loops of the handler; the number says which loop stopped (0 = all completed) *)
  Definition mod_loops (a : agent) (c : conn) (s0 : session) (seid : N)
             (cp : list pdr_ie) (cf : list far_ie) (cq : list qer_ie) (up : list pdr_ie) (uf : list far_ie) (uq : list qer_ie) : work * nat :=
    let w0 := Work (s_pdrs s0) (s_fars s0) (s_qers s0) (a_pool a) [] [] [] [] in
    match mod_create_p cp seid (c_pfds c) w0 with
    | (w1, false) => (w1, 1%nat)
    | (w1, true) =>
    match mod_create_f cf seid (g_access (a_cfg a)) (g_core (a_cfg a)) w1 with
    | (w2, false) => (w2, 2%nat)
    | (w2, true) =>
    match mod_create_q cq seid w2 with
    | (w3, false) => (w3, 3%nat)
    | (w3, true) =>
    match mod_update_p up seid (c_pfds c) w3 with
    | (w4, false) => (w4, 4%nat)
    | (w4, true) =>
    match mod_update_f uf seid (g_access (a_cfg a)) (g_core (a_cfg a)) w4 with
    | (w5, false) => (w5, 5%nat)
    | (w5, true) =>
    match mod_update_q uq seid w5 with
    | (w6, false) => (w6, 6%nat)
    | (w6, true) => (w6, 0%nat)
    end end end end end end.

  Definition is_some {A} (o : option A) : bool := match o with Some _ => true | None => false end.

  (* all loops completed: what is asked of the stored session [s0], the message and the lists [w6] the loops produced *)
  (* the work after the three Create loops, and the Update PDRs as parsed from there (the pool threads through) *)
  Definition mod_creates (a : agent) (c : conn) (s0 : session) (seid : N)
             (cp : list pdr_ie) (cf : list far_ie) (cq : list qer_ie) : work :=
    let w0 := Work (s_pdrs s0) (s_fars s0) (s_qers s0) (a_pool a) [] [] [] [] in
    fst (mod_create_q cq seid (fst (mod_create_f cf seid (g_access (a_cfg a)) (g_core (a_cfg a)) (fst (mod_create_p cp seid (c_pfds c) w0))))).
  Definition upd_pdrs (a : agent) (c : conn) (s0 : session) (seid : N)
             (cp : list pdr_ie) (cf : list far_ie) (cq : list qer_ie) (up : list pdr_ie) : list pdr :=
    upd_p_parsed up seid (c_pfds c) (w_pool (mod_creates a c s0 seid cp cf cq)).

  Definition late_ok (a : agent) (c : conn) (seid : N) (s0 : session) (w6 : work)
             (cp : list pdr_ie) (cf : list far_ie) (cq : list qer_ie) (up : list pdr_ie) (uf : list far_ie) (uq : list qer_ie)
             (rp rf rq : list (acc N)) (mid : bool) : bool :=
    (* an Update PDR keeps the match key: same pdrLookup keys as every rule of the same id among the session's PDRs
       (stored and just created) and the other Update PDRs of the message *)
    (let pups := upd_pdrs a c s0 seid cp cf cq up in
     forallb (fun u => forallb (fun x => negb (p_id x =? p_id u) || list_eqb tg_eqb (ptg x) (ptg u))
                               (view (w_p (mod_creates a c s0 seid cp cf cq)) ++ pups)) pups) &&
    (* stored FARs / QERs named by an update carry the session's SEID; such a QER is application level (an Update QER
       is written to the application table) *)
    forallb (fun f => negb (mem_n (a_id f) (far_ie_ids uf)) || (a_fseid f =? seid)) (view (s_fars s0)) &&
    forallb (fun q => negb (mem_n (q_id q) (qer_ie_ids uq)) || ((q_level q =? 0) && (q_fseid q =? seid))) (view (s_qers s0)) &&
    (* PDR ids are pairwise distinct when the message writes PDRs (created ids are fresh); the FARs (QERs) written by
       the message have pairwise distinct ids: created ones are fresh, no id is updated twice, nothing is created and
       updated in the same message *)
    ((nil_b cp && nil_b up) || nodupb (map p_id (view (w_p w6)))) &&
    nodupb (map a_id (w_addf w6)) && nodupb (map q_id (w_addq w6)) &&
    (* MarkSessionQer relabels nothing: neither in the session's lists nor in the message's QER list *)
    mark_stable (view (w_p w6)) (view (w_q w6)) && mark_stable (view (w_p w6)) (w_addq w6) &&
    (* every Remove id resolves *)
    (let '(_, _, r) := mod_remove_p rp (w_p w6) (a_teids a) [] in is_some r) &&
    is_some (snd (mod_remove_f rf (w_f w6) [])) && is_some (snd (mod_remove_q rq (w_q w6) [])) &&
    (* creations and removals do not come in the same message - or [mid]: the rule lists between the add batch and the
       delete batch are inside the envelope too (computed by the caller, who knows the other sessions) *)
    ((nil_b cp && nil_b cf && nil_b cq) || (nil_b rp && nil_b rf && nil_b rq) || mid).
End Guard.

(* ------------------------------------------------------------------ Part 7: what the loops produce, on views *)
Section LoopFacts.
  Variable burst : N -> N -> N -> N.

  Lemma fwd_loop_keeps x y : forall els f0, a_id (fwd_loop els x y f0) = a_id f0 /\ a_fseid (fwd_loop els x y f0) = a_fseid f0.
  Proof.
    induction els as [|e els IH]; intros f0; cbn [fwd_loop]; [split; reflexivity|].
    destruct e as [[|[t v]]|[|dd]|[|fl]|]; try apply IH; try (destruct (IH (Far (a_id f0) (a_fseid f0) 0 (a_em f0) (a_action f0) (a_ttype f0) (a_tsrc f0) (a_tdst f0) (a_teid f0) (a_tport f0))) as [A B]; split; assumption).
    - match goal with |- context [fwd_loop els x y ?g] => destruct (IH g) as [A B] end. split; assumption.
    - match goal with |- context [fwd_loop els x y ?g] => destruct (IH g) as [A B] end. split; assumption.
    - destruct (has2nd_bit fl); [|apply IH].
      match goal with |- context [fwd_loop els x y ?g] => destruct (IH g) as [A B] end. split; assumption.
  Qed.

  Lemma parse_far_id i l x y u f : parse_far i l x y u = Some f -> fi_id i = IOk (a_id f) /\ a_fseid f = l.
  Proof.
    unfold parse_far. destruct (fi_id i) as [|id]; [discriminate|]. destruct (fi_action i) as [|act]; [discriminate|].
    destruct (act =? 0); [discriminate|].
    destruct u.
    - destruct (fi_fwd_u i) as [|els]; [discriminate|]. intros H; inversion H.
      destruct (fwd_loop_keeps x y els (Far id l 0 false act 0 0 0 0 0)) as [A B]. rewrite A, B. split; reflexivity.
    - destruct (negb (N.land act 2 =? 0)).
      + destruct (fi_fwd_c i) as [|els]; [discriminate|]. intros H; inversion H.
        destruct (fwd_loop_keeps x y els (Far id l 0 false act 0 0 0 0 0)) as [A B]. rewrite A, B. split; reflexivity.
      + intros H; inversion H. split; reflexivity.
  Qed.
  Lemma parse_qer_id i l q : parse_qer i l = Some q -> qi_id i = IOk (q_id q) /\ q_fseid q = l /\ q_level q = 0.
  Proof. unfold parse_qer. destruct (qi_id i); [discriminate|]. intros H; inversion H. repeat split; reflexivity. Qed.

  Lemma parsed_fars is l x y u fs f :
    parse_all (fun i => parse_far i l x y u) is = Some fs -> In f fs -> In (a_id f) (far_ie_ids is) /\ a_fseid f = l.
  Proof.
    intros H Hf. destruct (parse_all_in _ _ _ _ H Hf) as (i & Hi & Ei). destruct (parse_far_id _ _ _ _ _ _ Ei) as [A B].
    split; [|exact B]. unfold far_ie_ids. apply in_flat_map. exists i. split; [exact Hi|]. rewrite A. left. reflexivity.
  Qed.
  Lemma parsed_qers is l qs q :
    parse_all (fun i => parse_qer i l) is = Some qs -> In q qs -> In (q_id q) (qer_ie_ids is) /\ q_fseid q = l /\ q_level q = 0.
  Proof.
    intros H Hq. destruct (parse_all_in _ _ _ _ H Hq) as (i & Hi & Ei). destruct (parse_qer_id _ _ _ Ei) as (A & B & C).
    split; [|split; assumption]. unfold qer_ie_ids. apply in_flat_map. exists i. split; [exact Hi|]. rewrite A. left. reflexivity.
  Qed.

  Lemma mod_loops_done a c s0 seid cp cf cq up uf uq w6 :
    mod_loops a c s0 seid cp cf cq up uf uq = (w6, 0%nat) ->
    exists w1 w2 w3 w4 w5,
      mod_create_p cp seid (c_pfds c) (Work (s_pdrs s0) (s_fars s0) (s_qers s0) (a_pool a) [] [] [] []) = (w1, true) /\
      mod_create_f cf seid (g_access (a_cfg a)) (g_core (a_cfg a)) w1 = (w2, true) /\
      mod_create_q cq seid w2 = (w3, true) /\
      mod_update_p up seid (c_pfds c) w3 = (w4, true) /\
      mod_update_f uf seid (g_access (a_cfg a)) (g_core (a_cfg a)) w4 = (w5, true) /\
      mod_update_q uq seid w5 = (w6, true).
  Proof.
    unfold mod_loops. intros H.
    destruct (mod_create_p cp seid (c_pfds c) _) as [w1 [|]] eqn:E1; [|discriminate].
    destruct (mod_create_f cf seid _ _ w1) as [w2 [|]] eqn:E2; [|discriminate].
    destruct (mod_create_q cq seid w2) as [w3 [|]] eqn:E3; [|discriminate].
    destruct (mod_update_p up seid (c_pfds c) w3) as [w4 [|]] eqn:E4; [|discriminate].
    destruct (mod_update_f uf seid _ _ w4) as [w5 [|]] eqn:E5; [|discriminate].
    destruct (mod_update_q uq seid w5) as [w6' [|]] eqn:E6; [|discriminate].
    inversion H; subst w6'. exists w1, w2, w3, w4, w5. repeat split; assumption.
  Qed.

  Lemma loops_facts a c s0 seid cp cf cq up uf uq w6 :
    mod_loops a c s0 seid cp cf cq up uf uq = (w6, 0%nat) ->
    exists ps fs qs ups uqs,
      length ps = length cp /\
      parse_all (fun i => parse_far i seid (g_access (a_cfg a)) (g_core (a_cfg a)) false) cf = Some fs /\
      parse_all (fun i => parse_qer i seid) cq = Some qs /\
      parse_all (fun i => parse_far i seid (g_access (a_cfg a)) (g_core (a_cfg a)) true) uf = Some ups /\
      parse_all (fun i => parse_qer i seid) uq = Some uqs /\
      view (w_p (mod_creates a c s0 seid cp cf cq)) = view (s_pdrs s0) ++ ps /\
      view (w_p w6) = fst (upd_list p_id (upd_pdrs a c s0 seid cp cf cq up) (view (s_pdrs s0) ++ ps)) /\
      w_addp w6 = map p_id ps ++ map p_id (snd (upd_list p_id (upd_pdrs a c s0 seid cp cf cq up) (view (s_pdrs s0) ++ ps))) /\
      view (w_f w6) = fst (upd_list a_id ups (view (s_fars s0) ++ fs)) /\
      w_addf w6 = fs ++ snd (upd_list a_id ups (view (s_fars s0) ++ fs)) /\
      view (w_q w6) = fst (upd_list q_id uqs (view (s_qers s0) ++ qs)) /\
      w_addq w6 = qs ++ snd (upd_list q_id uqs (view (s_qers s0) ++ qs)).
  Proof.
    intros H. destruct (mod_loops_done _ _ _ _ _ _ _ _ _ _ _ H) as (w1 & w2 & w3 & w4 & w5 & H1 & H2 & H3 & H4 & H5 & H6).
    assert (mod_creates a c s0 seid cp cf cq = w3) as Emc.
    { unfold mod_creates. rewrite H1. cbn [fst]. rewrite H2. cbn [fst]. rewrite H3. reflexivity. }
    destruct (create_p_spec _ _ _ _ _ H1) as (ps & pl & E1 & Lp).
    destruct (create_f_spec _ _ _ _ _ _ H2) as (fs & Pf & E2).
    destruct (create_q_spec _ _ _ _ H3) as (qs & Pq & E3).
    destruct (update_p_spec _ _ _ _ _ H4) as (C1 & C2 & C3 & C4 & C5 & C6 & C7).
    destruct (update_f_spec _ _ _ _ _ _ H5) as (ups & Pu & A1 & A2 & A3 & A4 & A5 & A6 & A7).
    destruct (update_q_spec _ _ _ _ H6) as (uqs & Pv & B1 & B2 & B3 & B4 & B5 & B5' & B6 & B7).
    unfold upd_pdrs. rewrite Emc. clear Emc H1 H2 H3 H4 H5 H6 H.
    subst w1 w2 w3. cbn [w_p w_f w_q w_pool w_addp w_addf w_addq w_marks app] in *.
    rewrite !view_app_slice in *.
    exists ps, fs, qs, ups, uqs.
    split; [exact Lp|]. split; [exact Pf|]. split; [exact Pq|]. split; [exact Pu|]. split; [exact Pv|].
    split; [reflexivity|].
    split; [rewrite B1, A1; exact C6|].
    split; [rewrite B4, A4; exact C7|].
    split; [rewrite B2, A6, C1, view_app_slice; reflexivity|].
    split; [rewrite B5, A7, C3, C1, view_app_slice; reflexivity|].
    split; [rewrite B6, A2, C2, view_app_slice; reflexivity|].
    rewrite B7, A5, C4, A2, C2, view_app_slice. reflexivity.
  Qed.
End LoopFacts.

(* ------------------------------------------------------------------ Part 8: the per-step lemma for a modification on
   which every loop completes (accepted under the guard) *)
Section Step.
  Variable burst : N -> N -> N -> N.

  Lemma forallb_in {A} (f : A -> bool) l x : forallb f l = true -> In x l -> f x = true.
  Proof. intros H Hx. apply (proj1 (forallb_forall f l) H x Hx). Qed.

  Lemma mod_late_image a c seid cpf cp cf cq up uf uq rp rf rq mid s0 w6 a' c' o :
    find_session seid (c_sessions c) = Some s0 ->
    mod_loops a c s0 seid cp cf cq up uf uq = (w6, 0%nat) ->
    late_ok a c seid s0 w6 cp cf cq up uf uq rp rf rq mid = true ->
    handle_mod burst a c seid cpf cp cf cq up uf uq rp rf rq = Done (a', c', o) ->
    exists s', c_sessions c' = replace_session s' (c_sessions c) /\ s_lseid s' = s_lseid s0 /\
      a_tables a' = apply_cmds (o_cmds o) (a_tables a) /\ o_reply o = Some (RMod (new_rseid cpf s0) CAUSE_OK) /\
      (forall rest, is_image (a_tables a) (session_cmds burst s0 ++ rest) ->
         NoDup (map tg (session_cmds burst s0)) -> disjoint_from (session_cmds burst s0) rest ->
         NoDup (map tg (session_cmds burst s')) -> disjoint_from (session_cmds burst s') rest ->
         ((nil_b cp && nil_b cf && nil_b cq) || (nil_b rp && nil_b rf && nil_b rq) = false -> mid = true ->
          NoDup (map tg (add_cmds burst (view (w_p w6)) (view (w_f w6)) (view (w_q w6)))) /\
                        disjoint_from (add_cmds burst (view (w_p w6)) (view (w_f w6)) (view (w_q w6))) rest) ->
         is_image (a_tables a') (session_cmds burst s' ++ rest)).
  Proof.
    intros Hf HL HG H. unfold late_ok in HG.
    apply andb_true_iff in HG; destruct HG as [HG G12]. apply andb_true_iff in HG; destruct HG as [HG G11].
    apply andb_true_iff in HG; destruct HG as [HG G10]. apply andb_true_iff in HG; destruct HG as [HG G9].
    apply andb_true_iff in HG; destruct HG as [HG G8]. apply andb_true_iff in HG; destruct HG as [HG G7].
    apply andb_true_iff in HG; destruct HG as [HG G6]. apply andb_true_iff in HG; destruct HG as [HG G5].
    apply andb_true_iff in HG; destruct HG as [HG G4]. apply andb_true_iff in HG; destruct HG as [HG G3].
    apply andb_true_iff in HG; destruct HG as [G1 G2].
    destruct (loops_facts _ _ _ _ _ _ _ _ _ _ _ HL) as (ps & fs & qs & ups & uqs & Lp & Pf & Pq & Pu & Pv & VM & VP & AP & VF & AF & VQ & AQ).
    cbv zeta in G1. rewrite VM in G1. set (pups := upd_pdrs a c s0 seid cp cf cq up) in *.
    destruct (mod_loops_done _ _ _ _ _ _ _ _ _ _ _ HL) as (w1 & w2 & w3 & w4 & w5 & H1 & H2 & H3 & H4 & H5 & H6).
    destruct (mod_remove_p rp (w_p w6) (a_teids a) []) as [[wp3 g3] [dp|]] eqn:R1; [|discriminate G9].
    destruct (mod_remove_f rf (w_f w6) []) as [wf3 [df|]] eqn:R2; [|discriminate G10].
    destruct (mod_remove_q rq (w_q w6) []) as [wq3 [dq|]] eqn:R3; [|discriminate G11].
    rewrite (handle_mod_late burst _ _ _ cpf _ _ _ _ _ _ _ _ _ _ _ _ _ _ _ _ _ _ _ _ _ _ _ Hf H1 H2 H3 H4 H5 H6 G7 G8 R1 R2 R3) in H.
    inversion H; subst a' c' o; clear H.
    exists (Sess (s_lseid s0) (new_rseid cpf s0) wp3 wf3 wq3).
    split; [reflexivity|]. split; [reflexivity|]. split; [cbn [a_tables o_cmds]; rewrite apply_cmds_app; reflexivity|].
    split; [reflexivity|].
    intros rest Hi Hn0 Hd0 Hn' Hd' Hmid. cbn [a_tables]. unfold session_cmds in *. cbn [s_pdrs s_fars s_qers] in *.
    set (P0 := view (s_pdrs s0)) in *. set (F0 := view (s_fars s0)) in *. set (Q0 := view (s_qers s0)) in *.
    pose proof (remove_p_perm _ _ _ _ _ _ _ R1) as PP. pose proof (remove_f_perm _ _ _ _ _ R2) as PF. pose proof (remove_q_perm _ _ _ _ _ R3) as PQ.
    rewrite app_nil_r in PP, PF, PQ.
    (* targets are preserved by the updates *)
    assert (map ptg (view (w_p w6)) = map ptg (P0 ++ ps)) as KPm.
    { rewrite VP. apply (upd_list_keys p_id pdr0 ptg). intros u x Hu Hx Hid.
      pose proof (forallb_in _ _ _ (forallb_in _ _ _ G1 Hu) Hx) as Hg. cbn beta in Hg. rewrite Hid, N.eqb_refl in Hg. cbn in Hg.
      apply (list_eqb_eq tg_eqb (fun x y => proj1 (tg_eqb_eq x y))). exact Hg. }
    assert (map ftg (view (w_f w6)) = map ftg (F0 ++ fs)) as KFm.
    { rewrite VF. apply (upd_list_keys a_id far0 ftg). intros u x Hu Hx Hid. apply ftg_eq; [exact Hid|].
      destruct (parsed_fars _ _ _ _ _ _ _ Pu Hu) as [Uid Ufs]. rewrite Ufs.
      apply in_app_or in Hx. destruct Hx as [Hx|Hx]; [apply in_app_or in Hx; destruct Hx as [Hx|Hx]|].
      - pose proof (forallb_in _ _ _ G2 Hx) as Hg. cbn beta in Hg. rewrite Hid, (mem_n_in _ _ Uid) in Hg. cbn in Hg. apply N.eqb_eq. exact Hg.
      - apply (parsed_fars _ _ _ _ _ _ _ Pf Hx).
      - apply (parsed_fars _ _ _ _ _ _ _ Pu Hx). }
    assert (map (qtg burst) (view (w_q w6)) = map (qtg burst) (Q0 ++ qs)) as KQm.
    { rewrite VQ. apply (upd_list_keys q_id qer0 (qtg burst)). intros u x Hu Hx Hid.
      destruct (parsed_qers _ _ _ _ Pv Hu) as (Uid & Ufs & Ulv).
      assert (q_fseid x = seid /\ q_level x = 0) as [Xfs Xlv].
      { apply in_app_or in Hx. destruct Hx as [Hx|Hx]; [apply in_app_or in Hx; destruct Hx as [Hx|Hx]|].
        - pose proof (forallb_in _ _ _ G3 Hx) as Hg. cbn beta in Hg. rewrite Hid, (mem_n_in _ _ Uid) in Hg. cbn in Hg.
          apply andb_true_iff in Hg. destruct Hg as [Hg1 Hg2]. split; apply N.eqb_eq; assumption.
        - destruct (parsed_qers _ _ _ _ Pq Hx) as (_ & A & B). split; assumption.
        - destruct (parsed_qers _ _ _ _ Pv Hx) as (_ & A & B). split; assumption. }
      apply qtg_eq; [exact Hid|congruence|rewrite Xlv, Ulv; reflexivity]. }
    (* the intermediate lists (after the add batch) are inside the envelope *)
    assert (NoDup (map tg (add_cmds burst (view (w_p w6)) (view (w_f w6)) (view (w_q w6)))) /\
            disjoint_from (add_cmds burst (view (w_p w6)) (view (w_f w6)) (view (w_q w6))) rest) as [Hn1 Hd1].
    { destruct ((nil_b cp && nil_b cf && nil_b cq) || (nil_b rp && nil_b rf && nil_b rq)) eqn:G12x; [|exact (Hmid eq_refl G12)].
      clear G12. apply orb_true_iff in G12x. destruct G12x as [Gc|Gr].
      - apply andb_true_iff in Gc. destruct Gc as [Gc Gc3]. apply andb_true_iff in Gc. destruct Gc as [Gc1 Gc2].
        apply nil_b_spec in Gc1, Gc2, Gc3. subst cp cf cq. cbn [parse_all] in Pf, Pq. inversion Pf; subst fs. inversion Pq; subst qs.
        destruct ps; [|discriminate Lp]. rewrite !app_nil_r in *.
        assert (map tg (add_cmds burst (view (w_p w6)) (view (w_f w6)) (view (w_q w6))) = map tg (add_cmds burst P0 F0 Q0)) as Et.
        { rewrite !tg_add_cmds. fold ptg. fold ftg. fold (qtg burst). rewrite KPm, KFm, KQm. reflexivity. }
        split; [rewrite Et; exact Hn0|]. apply disjoint_from_tg. rewrite Et. apply disjoint_from_tg. exact Hd0.
      - apply andb_true_iff in Gr. destruct Gr as [Gr Gr3]. apply andb_true_iff in Gr. destruct Gr as [Gr1 Gr2].
        apply nil_b_spec in Gr1, Gr2, Gr3. subst rp rf rq. cbn in R1, R2, R3. inversion R1; subst. inversion R2; subst. inversion R3; subst.
        split; assumption. }
    eapply phaseB; [|exact Hn1|exact Hd1|exact PP|exact PF|exact PQ].
    apply phaseA with (P0 := P0) (F0 := F0) (Q0 := Q0); try assumption.
    - intros p Hp. eapply lookup_pdrs_in. exact Hp.
    - intros f Hf'. rewrite AF in Hf'. rewrite VF. apply (upd_list_stays a_id far0 ups (F0 ++ fs) fs); [| |exact Hf'].
      + rewrite <- AF. apply nodupb_spec. exact G5.
      + intros x Hx. apply in_or_app. right. exact Hx.
    - intros q Hq. rewrite AQ in Hq. rewrite VQ. apply (upd_list_stays q_id qer0 uqs (Q0 ++ qs) qs); [| |exact Hq].
      + rewrite <- AQ. apply nodupb_spec. exact G6.
      + intros x Hx. apply in_or_app. right. exact Hx.
    - intros p Hp. pose proof Hp as Hp1. rewrite VP in Hp.
      assert (In p P0 \/ In (p_id p) (w_addp w6)) as [Hp0|Hpa].
      { rewrite AP. destruct (upd_list_from p_id _ _ _ Hp) as [Hx|Hx].
        - apply in_app_or in Hx. destruct Hx as [Hx|Hx]; [left; exact Hx|right; apply in_or_app; left; apply in_map; exact Hx].
        - right. apply in_or_app. right. apply in_map. exact Hx. }
      + right. exact Hp0.
      + left. apply lookup_pdrs_finds; [|exact Hp1|exact Hpa].
        apply orb_true_iff in G4. destruct G4 as [G4|G4]; [|apply nodupb_spec; exact G4].
        apply andb_true_iff in G4. destruct G4 as [G4 G4']. apply nil_b_spec in G4, G4'. subst cp up.
        destruct ps; [|discriminate Lp]. rewrite AP in Hpa. unfold pups, upd_pdrs in Hpa. cbn in Hpa. destruct Hpa.
    - intros f Hf'. rewrite VF in Hf'. rewrite AF. destruct (upd_list_from a_id _ _ _ Hf') as [Hx|Hx].
      + apply in_app_or in Hx. destruct Hx as [Hx|Hx]; [right; exact Hx|left; apply in_or_app; left; exact Hx].
      + left. apply in_or_app. right. exact Hx.
    - intros q Hq. rewrite VQ in Hq. rewrite AQ. destruct (upd_list_from q_id _ _ _ Hq) as [Hx|Hx].
      + apply in_app_or in Hx. destruct Hx as [Hx|Hx]; [right; exact Hx|left; apply in_or_app; left; exact Hx].
      + left. apply in_or_app. right. exact Hx.
    - intros p Hp. assert (In (ptg p) (map ptg (view (w_p w6)))) as Hin by (rewrite KPm; apply in_map; apply in_or_app; left; exact Hp).
      apply in_map_iff in Hin. destruct Hin as (p' & E & Hp''). exists p'. split; assumption.
    - intros f Hf'. assert (In (ftg f) (map ftg (view (w_f w6)))) as Hin by (rewrite KFm; apply in_map; apply in_or_app; left; exact Hf').
      apply in_map_iff in Hin. destruct Hin as (f' & E & Hf''). exists f'. split; assumption.
    - intros q Hq. assert (In (qtg burst q) (map (qtg burst) (view (w_q w6)))) as Hin by (rewrite KQm; apply in_map; apply in_or_app; left; exact Hq).
      apply in_map_iff in Hin. destruct Hin as (q' & E & Hq''). exists q'. split; assumption.
  Qed.
End Step.

(* ------------------------------------------------------------------ Part 9: a modification rejected in the parse phase.
   Nothing is written; the stored slices get the working copies' backing arrays.  When the failing IE is a Create IE
   (only appends happened) and the stored slices are well formed (len <= cap) the stored rule lists are unchanged *)
Definition slice_wf {A} (s : slice A) : bool := Nat.leb (len s) (length (back s)).

Lemma app_slice_keeps {A} : forall (l : list A) s n, (n <= len s)%nat -> (n <= length (back s))%nat ->
  firstn n (back (app_slice s l)) = firstn n (back s).
Proof.
  unfold app_slice. induction l as [|x l IH]; intros s n H1 H2; cbn [fold_left]; [reflexivity|].
  rewrite IH.
  - unfold s_append. destruct (Nat.ltb (len s) (length (back s))); cbn [back].
    + apply firstn_set_nth_ge. exact H1.
    + rewrite firstn_app. replace (n - length (back s))%nat with 0%nat by lia. cbn [firstn]. apply app_nil_r.
  - unfold s_append. destruct (Nat.ltb (len s) (length (back s))); cbn [len]; lia.
  - unfold s_append. destruct (Nat.ltb (len s) (length (back s))); cbn [back]; [rewrite set_nth_length; exact H2|rewrite app_length; lia].
Qed.
Lemma alias_view_kept {A} (s : slice A) l : slice_wf s = true -> view (Slice (back (app_slice s l)) (len s)) = view s.
Proof. unfold slice_wf, view. cbn [len back]. intros H. apply Nat.leb_le in H. apply app_slice_keeps; [lia|exact H]. Qed.

Section Early.
  Variable burst : N -> N -> N -> N.

  Lemma create_p_any : forall is l pf w w' b, mod_create_p is l pf w = (w', b) ->
    exists ps, w_p w' = app_slice (w_p w) ps /\ w_f w' = w_f w /\ w_q w' = w_q w.
  Proof.
    induction is as [|i is IH]; intros l pf w w' b H; cbn [mod_create_p] in H.
    - inversion H; subst. exists []. repeat split; reflexivity.
    - destruct (parse_pdr i l pf (w_pool w)) as [pl [p|]].
      + destruct (IH _ _ _ _ _ H) as (ps & A & B & C). cbn [w_p w_f w_q] in *. exists (p :: ps). repeat split; assumption.
      + inversion H; subst. exists []. repeat split; reflexivity.
  Qed.
  Lemma create_f_any : forall is l x y w w' b, mod_create_f is l x y w = (w', b) ->
    exists fs, w_f w' = app_slice (w_f w) fs /\ w_p w' = w_p w /\ w_q w' = w_q w.
  Proof.
    induction is as [|i is IH]; intros l x y w w' b H; cbn [mod_create_f] in H.
    - inversion H; subst. exists []. repeat split; reflexivity.
    - destruct (parse_far i l x y false) as [f|].
      + destruct (IH _ _ _ _ _ _ H) as (fs & A & B & C). cbn [w_p w_f w_q] in *. exists (f :: fs). repeat split; assumption.
      + inversion H; subst. exists []. repeat split; reflexivity.
  Qed.
  Lemma create_q_any : forall is l w w' b, mod_create_q is l w = (w', b) ->
    exists qs, w_q w' = app_slice (w_q w) qs /\ w_p w' = w_p w /\ w_f w' = w_f w.
  Proof.
    induction is as [|i is IH]; intros l w w' b H; cbn [mod_create_q] in H.
    - inversion H; subst. exists []. repeat split; reflexivity.
    - destruct (parse_qer i l) as [q|].
      + destruct (IH _ _ _ _ H) as (qs & A & B & C). cbn [w_p w_f w_q] in *. exists (q :: qs). repeat split; assumption.
      + inversion H; subst. exists []. repeat split; reflexivity.
  Qed.

  (* the update loops: the add lists only grow, and a slice changes only together with its add list *)
  Lemma update_p_any : forall is l pf w w' b, mod_update_p is l pf w = (w', b) ->
    w_f w' = w_f w /\ w_q w' = w_q w /\ w_addf w' = w_addf w /\ w_addq w' = w_addq w /\
    (length (w_addp w) <= length (w_addp w'))%nat /\ (length (w_addp w') = length (w_addp w) -> w_p w' = w_p w).
  Proof.
    induction is as [|i is IH]; intros l pf w w' b H; cbn [mod_update_p] in H.
    - inversion H; subst. repeat split; auto.
    - destruct (parse_pdr i l pf (w_pool w)) as [pl [p|]].
      + destruct (find_idx (fun x => p_id x =? p_id p) (view (w_p w))) as [k|].
        * destruct (IH _ _ _ _ _ H) as (A1 & A2 & A3 & A4 & A5 & A6). cbn [w_p w_f w_q w_addp w_addf w_addq] in *.
          rewrite app_length in A5. cbn [length] in A5. repeat split; try assumption; try lia.
        * destruct (IH _ _ _ _ _ H) as (A1 & A2 & A3 & A4 & A5 & A6). unfold w_with_pool in *. cbn [w_p w_f w_q w_addp w_addf w_addq] in *.
          repeat split; assumption.
      + inversion H; subst. unfold w_with_pool. cbn [w_p w_f w_q w_addp w_addf w_addq]. repeat split; auto.
  Qed.
  Lemma update_f_any : forall is l x y w w' b, mod_update_f is l x y w = (w', b) ->
    w_p w' = w_p w /\ w_q w' = w_q w /\ w_addp w' = w_addp w /\ w_addq w' = w_addq w /\
    (length (w_addf w) <= length (w_addf w'))%nat /\ (length (w_addf w') = length (w_addf w) -> w_f w' = w_f w).
  Proof.
    induction is as [|i is IH]; intros l x y w w' b H; cbn [mod_update_f] in H.
    - inversion H; subst. repeat split; auto.
    - destruct (parse_far i l x y true) as [f|].
      + destruct (find_idx (fun x0 => a_id x0 =? a_id f) (view (w_f w))) as [k|].
        * destruct (IH _ _ _ _ _ _ H) as (A1 & A2 & A3 & A4 & A5 & A6). cbn [w_p w_f w_q w_addp w_addf w_addq] in *.
          rewrite app_length in A5. cbn [length] in A5. repeat split; try assumption; try lia.
        * apply (IH _ _ _ _ _ _ H).
      + inversion H; subst. repeat split; auto.
  Qed.
  Lemma update_q_any : forall is l w w' b, mod_update_q is l w = (w', b) ->
    w_p w' = w_p w /\ w_f w' = w_f w /\ w_addp w' = w_addp w /\ w_addf w' = w_addf w /\
    (length (w_addq w) <= length (w_addq w'))%nat /\ (length (w_addq w') = length (w_addq w) -> w_q w' = w_q w).
  Proof.
    induction is as [|i is IH]; intros l w w' b H; cbn [mod_update_q] in H.
    - inversion H; subst. repeat split; auto.
    - destruct (parse_qer i l) as [q|].
      + destruct (find_idx (fun x0 => q_id x0 =? q_id q) (view (w_q w))) as [k|].
        * destruct (IH _ _ _ _ H) as (A1 & A2 & A3 & A4 & A5 & A6). cbn [w_p w_f w_q w_addp w_addf w_addq] in *.
          rewrite app_length in A5. cbn [length] in A5. repeat split; try assumption; try lia.
        * apply (IH _ _ _ _ H).
      + inversion H; subst. repeat split; auto.
  Qed.
  Lemma parse_all_length {I R} (f : I -> option R) : forall is rs, parse_all f is = Some rs -> length rs = length is.
  Proof.
    induction is as [|i is IH]; intros rs H; cbn [parse_all] in H; [inversion H; reflexivity|].
    destruct (f i); [|discriminate]. destruct (parse_all f is) as [rs'|]; [|discriminate]. cbn in H. inversion H; subst. cbn. rewrite (IH _ eq_refl). reflexivity.
  Qed.

  (* the handler when a loop stops *)
  Lemma handle_mod_early a c seid cpf cp cf cq up uf uq rp rf rq s0 w k :
    find_session seid (c_sessions c) = Some s0 ->
    mod_loops a c s0 seid cp cf cq up uf uq = (w, S k) ->
    handle_mod burst a c seid cpf cp cf cq up uf uq rp rf rq =
    Done (Agent (a_cfg a) (w_pool w) (a_teids a) (a_gauge a) (a_tables a),
          Conn (c_remote c) (c_pfds c) (replace_session (alias_back s0 (w_p w) (w_f w) (w_q w)) (c_sessions c)) (c_seq c),
          Out (Some (RMod (new_rseid cpf s0) CAUSE_REJ)) [] [] false).
  Proof.
    intros Hf HL. unfold handle_mod, mod_loops in *. cbv zeta. rewrite Hf.
    destruct (mod_create_p cp seid (c_pfds c) _) as [w1 [|]]; [|inversion HL; reflexivity].
    destruct (mod_create_f cf seid _ _ w1) as [w2 [|]]; [|inversion HL; reflexivity].
    destruct (mod_create_q cq seid w2) as [w3 [|]]; [|inversion HL; reflexivity].
    destruct (mod_update_p up seid (c_pfds c) w3) as [w4 [|]]; [|inversion HL; reflexivity].
    destruct (mod_update_f uf seid _ _ w4) as [w5 [|]]; [|inversion HL; reflexivity].
    destruct (mod_update_q uq seid w5) as [w6 [|]]; [discriminate|inversion HL; reflexivity].
  Qed.

  (* the stopped loop was a Create loop, or an Update loop before which no update had hit a stored rule (the lists
     of written rules hold the created ones only); the stored slices are well formed *)
  Definition early_ok (s0 : session) (k : nat) (w : work) (cp : list pdr_ie) (cf : list far_ie) (cq : list qer_ie) : bool :=
    (Nat.leb k 3 || (Nat.eqb (length (w_addp w)) (length cp) && Nat.eqb (length (w_addf w)) (length cf) && Nat.eqb (length (w_addq w)) (length cq)))
    && slice_wf (s_pdrs s0) && slice_wf (s_fars s0) && slice_wf (s_qers s0).

  (* then the working slices are the stored ones with rules appended *)
  Lemma early_create_shape a c s0 seid cp cf cq up uf uq w k :
    mod_loops a c s0 seid cp cf cq up uf uq = (w, S k) ->
    (S k <= 3)%nat \/ (length (w_addp w) = length cp /\ length (w_addf w) = length cf /\ length (w_addq w) = length cq) ->
    exists ps fs qs, w_p w = app_slice (s_pdrs s0) ps /\ w_f w = app_slice (s_fars s0) fs /\ w_q w = app_slice (s_qers s0) qs.
  Proof.
    unfold mod_loops. intros HL Hk.
    destruct (mod_create_p cp seid (c_pfds c) _) as [w1 b1] eqn:E1.
    destruct (create_p_any _ _ _ _ _ _ E1) as (ps & A1 & A2 & A3). cbn [w_p w_f w_q] in *.
    destruct b1; [|inversion HL; subst; exists ps, [], []; repeat split; assumption || (unfold app_slice; cbn [fold_left]; assumption)].
    destruct (mod_create_f cf seid _ _ w1) as [w2 b2] eqn:E2.
    destruct (create_f_any _ _ _ _ _ _ _ E2) as (fs & B1 & B2 & B3).
    destruct b2; [|inversion HL; subst; exists ps, fs, []; repeat split; unfold app_slice in *; cbn [fold_left]; congruence].
    destruct (mod_create_q cq seid w2) as [w3 b3] eqn:E3.
    destruct (create_q_any _ _ _ _ _ E3) as (qs & C1 & C2 & C3).
    destruct b3; [|inversion HL; subst; exists ps, fs, qs; repeat split; congruence].
    (* the add lists after the three completed Create loops *)
    destruct (create_p_spec _ _ _ _ _ E1) as (ps' & pl & -> & Lp).
    destruct (create_f_spec _ _ _ _ _ _ E2) as (fs' & Pf & ->).
    destruct (create_q_spec _ _ _ _ E3) as (qs' & Pq & ->).
    pose proof (parse_all_length _ _ _ Pf) as Lf. pose proof (parse_all_length _ _ _ Pq) as Lq.
    cbn [w_p w_f w_q w_addp w_addf w_addq app] in *.
    destruct (mod_update_p up seid (c_pfds c) _) as [w4 b4] eqn:E4.
    destruct (update_p_any _ _ _ _ _ _ E4) as (D1 & D2 & D3 & D4 & D5 & D6). cbn [w_p w_f w_q w_addp w_addf w_addq] in *.
    rewrite map_length in D5, D6.
    destruct b4.
    2:{ injection HL as Hw Hkk. subst w k. destruct Hk as [Hk|(K1 & K2 & K3)]; [lia|].
        exists ps', fs', qs'. rewrite D1, D2, D6 by lia. repeat split; reflexivity. }
    destruct (mod_update_f uf seid _ _ w4) as [w5 b5] eqn:E5.
    destruct (update_f_any _ _ _ _ _ _ _ E5) as (F1 & F2 & F3 & F4 & F5 & F6).
    destruct b5.
    2:{ injection HL as Hw Hkk. subst w k. destruct Hk as [Hk|(K1 & K2 & K3)]; [lia|].
        exists ps', fs', qs'. rewrite F1, F2, F6, D1, D2, D6 by (rewrite ?D3; lia || congruence). repeat split; reflexivity. }
    destruct (mod_update_q uq seid w5) as [w6 b6] eqn:E6.
    destruct (update_q_any _ _ _ _ _ E6) as (G1 & G2 & G3 & G4 & G5 & G6).
    destruct b6; [discriminate|]. injection HL as Hw Hkk. subst w k. destruct Hk as [Hk|(K1 & K2 & K3)]; [lia|].
    exists ps', fs', qs'.
    assert (w_p w6 = w_p w4) as -> by congruence. assert (w_f w6 = w_f w5) as -> by congruence.
    rewrite G6 by (rewrite F4, D4; lia). rewrite F2, D2.
    rewrite F6 by (rewrite D3; rewrite <- G4; lia). rewrite D1.
    rewrite D6 by (rewrite <- F3, <- G3; lia). repeat split; reflexivity.
  Qed.

  Lemma mod_early_image a c seid cpf cp cf cq up uf uq rp rf rq s0 w k a' c' o :
    find_session seid (c_sessions c) = Some s0 ->
    mod_loops a c s0 seid cp cf cq up uf uq = (w, S k) ->
    early_ok s0 (S k) w cp cf cq = true ->
    handle_mod burst a c seid cpf cp cf cq up uf uq rp rf rq = Done (a', c', o) ->
    exists s', c_sessions c' = replace_session s' (c_sessions c) /\ s_lseid s' = s_lseid s0 /\
      a_tables a' = a_tables a /\ o_cmds o = [] /\ o_reply o = Some (RMod (new_rseid cpf s0) CAUSE_REJ) /\
      session_cmds burst s' = session_cmds burst s0.
  Proof.
    intros Hf HL HG H. rewrite (handle_mod_early _ _ _ cpf _ _ _ _ _ _ rp rf rq _ _ _ Hf HL) in H. inversion H; subst a' c' o; clear H.
    unfold early_ok in HG. apply andb_true_iff in HG. destruct HG as [HG W3]. apply andb_true_iff in HG. destruct HG as [HG W2].
    apply andb_true_iff in HG. destruct HG as [Hk W1].
    assert ((S k <= 3)%nat \/ (length (w_addp w) = length cp /\ length (w_addf w) = length cf /\ length (w_addq w) = length cq)) as Hk'.
    { apply orb_true_iff in Hk. destruct Hk as [Hk|Hk]; [left; apply Nat.leb_le; exact Hk|right].
      apply andb_true_iff in Hk. destruct Hk as [Hk K3]. apply andb_true_iff in Hk. destruct Hk as [K1 K2].
      apply Nat.eqb_eq in K1, K2, K3. repeat split; assumption. }
    destruct (early_create_shape _ _ _ _ _ _ _ _ _ _ _ _ HL Hk') as (ps & fs & qs & A & B & C).
    eexists. split; [reflexivity|]. split; [reflexivity|]. split; [reflexivity|]. split; [reflexivity|]. split; [reflexivity|].
    unfold session_cmds, alias_back. cbn [s_pdrs s_fars s_qers]. rewrite A, B, C.
    rewrite !alias_view_kept by assumption. reflexivity.
  Qed.
End Early.

(* ------------------------------------------------------------------ Part 10: the outcome of a guarded modification on
   which every loop completes, in closed form (used by the C14 / C05 corollaries) *)
Section LateResult.
  Variable burst : N -> N -> N -> N.

  Lemma mod_late_result a c seid cpf cp cf cq up uf uq rp rf rq mid s0 w6 :
    find_session seid (c_sessions c) = Some s0 ->
    mod_loops a c s0 seid cp cf cq up uf uq = (w6, 0%nat) ->
    late_ok a c seid s0 w6 cp cf cq up uf uq rp rf rq mid = true ->
    exists wp3 g3 dp wf3 df wq3 dq,
      mod_remove_p rp (w_p w6) (a_teids a) [] = (wp3, g3, Some dp) /\
      mod_remove_f rf (w_f w6) [] = (wf3, Some df) /\
      mod_remove_q rq (w_q w6) [] = (wq3, Some dq) /\
      handle_mod burst a c seid cpf cp cf cq up uf uq rp rf rq =
      Done (Agent (a_cfg a) (w_pool w6) g3 (a_gauge a)
                  (apply_cmds (del_cmds dp df dq)
                     (apply_cmds (add_cmds burst (lookup_pdrs (w_addp w6) (view (w_p w6))) (w_addf w6) (w_addq w6)) (a_tables a))),
            Conn (c_remote c) (c_pfds c) (replace_session (Sess (s_lseid s0) (new_rseid cpf s0) wp3 wf3 wq3) (c_sessions c)) (c_seq c),
            Out (Some (RMod (new_rseid cpf s0) CAUSE_OK))
                (add_cmds burst (lookup_pdrs (w_addp w6) (view (w_p w6))) (w_addf w6) (w_addq w6) ++ del_cmds dp df dq)
                (if g_end_marker (a_cfg a) then w_marks w6 else []) false).
  Proof.
    intros Hf HL HG. unfold late_ok in HG.
    apply andb_true_iff in HG; destruct HG as [HG G12]. apply andb_true_iff in HG; destruct HG as [HG G11].
    apply andb_true_iff in HG; destruct HG as [HG G10]. apply andb_true_iff in HG; destruct HG as [HG G9].
    apply andb_true_iff in HG; destruct HG as [HG G8]. apply andb_true_iff in HG; destruct HG as [HG G7].
    destruct (mod_loops_done _ _ _ _ _ _ _ _ _ _ _ HL) as (w1 & w2 & w3 & w4 & w5 & H1 & H2 & H3 & H4 & H5 & H6).
    destruct (mod_remove_p rp (w_p w6) (a_teids a) []) as [[wp3 g3] [dp|]] eqn:R1; [|discriminate G9].
    destruct (mod_remove_f rf (w_f w6) []) as [wf3 [df|]] eqn:R2; [|discriminate G10].
    destruct (mod_remove_q rq (w_q w6) []) as [wq3 [dq|]] eqn:R3; [|discriminate G11].
    exists wp3, g3, dp, wf3, df, wq3, dq. split; [reflexivity|]. split; [reflexivity|]. split; [reflexivity|].
    exact (handle_mod_late burst _ _ _ cpf _ _ _ _ _ _ _ _ _ _ _ _ _ _ _ _ _ _ _ _ _ _ _ Hf H1 H2 H3 H4 H5 H6 G7 G8 R1 R2 R3).
  Qed.

  (* the markers the loops collected: the specification's, over the FAR list the session has after the Create loops *)
  Lemma loops_marks a c s0 seid cp cf cq up uf uq w6 :
    mod_loops a c s0 seid cp cf cq up uf uq = (w6, 0%nat) ->
    exists fs ups,
      parse_all (fun i => parse_far i seid (g_access (a_cfg a)) (g_core (a_cfg a)) false) cf = Some fs /\
      parse_all (fun i => parse_far i seid (g_access (a_cfg a)) (g_core (a_cfg a)) true) uf = Some ups /\
      w_marks w6 = spec_markers ups (view (s_fars s0) ++ fs).
  Proof.
    intros HL. destruct (mod_loops_done _ _ _ _ _ _ _ _ _ _ _ HL) as (w1 & w2 & w3 & w4 & w5 & H1 & H2 & H3 & H4 & H5 & H6).
    destruct (mod_update_f_markers _ _ _ _ _ _ H5) as (ups & Pu & Hm).
    pose proof (update_q_marks uq seid w5) as A6. rewrite H6 in A6. cbn [fst] in A6.
    pose proof (update_p_marks up seid (c_pfds c) w3) as A4. rewrite H4 in A4. cbn [fst] in A4.
    pose proof (create_q_marks cq seid w2) as A3. rewrite H3 in A3. cbn [fst] in A3.
    pose proof (create_f_marks cf seid (g_access (a_cfg a)) (g_core (a_cfg a)) w1) as A2. rewrite H2 in A2. cbn [fst] in A2.
    match type of H1 with mod_create_p _ _ _ ?w0 = _ => pose proof (create_p_marks cp seid (c_pfds c) w0) as A1 end.
    rewrite H1 in A1. cbn [fst w_marks] in A1.
    destruct (update_p_spec _ _ _ _ _ H4) as (C1 & _).
    destruct (create_q_spec _ _ _ _ H3) as (qs & _ & E3).
    destruct (create_f_spec _ _ _ _ _ _ H2) as (fs & Pf & E2).
    destruct (create_p_spec _ _ _ _ _ H1) as (ps & pl & E1 & _).
    exists fs, ups. split; [exact Pf|]. split; [exact Pu|].
    rewrite A6, Hm, A4, A3, A2, A1, C1. subst w3 w2 w1. cbn [w_f app]. rewrite view_app_slice. reflexivity.
  Qed.
End LateResult.
