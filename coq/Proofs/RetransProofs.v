(* Lemmas about Model/Retrans.v (property C12). *)
From Coq Require Import NArith List Bool Lia ZifyN ZifyNat ZifyBool.
From UPF Require Import Model.Retrans.
Import ListNotations.
Open Scope N_scope.

(* ------------------------------------------------------------------------------------------ *)
(** * Trace-level specification of one exchange (no automaton, only the trace) *)

(* an event that ends the exchange keyed [k]: a response carrying k, or the connection's shutdown *)
Definition ends (k : N) (e : ev) : bool :=
  match e with Resp w => wire_seq w =? k | Shutdown => true | Timeout => false end.
(* the events strictly before the first ending event *)
Fixpoint live (k : N) (tr : list ev) : list ev :=
  match tr with [] => [] | e :: r => if ends k e then [] else e :: live k r end.
Fixpoint ender (k : N) (tr : list ev) : option ev :=
  match tr with [] => None | e :: r => if ends k e then Some e else ender k r end.
Fixpoint timeouts (tr : list ev) : N :=
  match tr with [] => 0 | Timeout :: r => 1 + timeouts r | _ :: r => timeouts r end.

Definition spec_outcome (n k : N) (tr : list ev) : outcome :=
  if n <? timeouts (live k tr) then Dead
  else match ender k tr with None => Pending | Some Shutdown => Aborted | Some _ => Answered end.
Definition spec_sent (n k : N) (tr : list ev) : N := 1 + N.min n (timeouts (live k tr)).

(* no request of this connection is outstanding *)
Definition healthy (c : cst) : Prop := table c = [].

Fixpoint txs (o : list out) : list N :=
  match o with [] => [] | Tx w :: r => w :: txs r | _ :: r => txs r end.
Fixpoint teardowns (o : list out) : N :=
  match o with [] => 0 | Teardown :: r => 1 + teardowns r | _ :: r => teardowns r end.

Lemma txs_app a b : txs (a ++ b) = txs a ++ txs b.
Proof. induction a as [|x a IH]; cbn; [reflexivity|]. destruct x; cbn; rewrite ?IH; reflexivity. Qed.
Lemma teardowns_app a b : teardowns (a ++ b) = teardowns a + teardowns b.
Proof. induction a as [|x a IH]; cbn [app teardowns]; [lia|]. destruct x; rewrite ?IH; lia. Qed.

(* ------------------------------------------------------------------------------------------ *)
(** * Unfolding lemmas *)

Lemma run_from_cons s e r :
  run_from s (e :: r) = (fst (run_from (fst (step s e)) r), snd (step s e) ++ snd (run_from (fst (step s e)) r)).
Proof. cbn [run_from]. destruct (step s e) as [s1 o1]. cbn [fst snd]. destruct (run_from s1 r). reflexivity. Qed.

Lemma run_from_app s a b :
  run_from s (a ++ b) =
  (fst (run_from (fst (run_from s a)) b), snd (run_from s a) ++ snd (run_from (fst (run_from s a)) b)).
Proof.
  revert s. induction a as [|e a IH]; intros s.
  - cbn. destruct (run_from s b); reflexivity.
  - rewrite <- app_comm_cons. rewrite !run_from_cons. cbn [fst snd]. rewrite IH. cbn [fst snd].
    rewrite app_assoc. reflexivity.
Qed.

Lemma exchange_unfold n c tr :
  exchange n c tr = (fst (run_from (fst (start n c)) tr), snd (start n c) ++ snd (run_from (fst (start n c)) tr)).
Proof. unfold exchange. destruct (start n c) as [s0 o0]. cbn [fst snd]. destruct (run_from s0 tr). reflexivity. Qed.

Lemma other_hit_cases c k :
  (mem k (table c) = true /\ other_hit c k = (drop_entry k c, [DeliverOther])) \/
  (mem k (table c) = false /\ other_hit c k = (c, [Ignored])).
Proof. unfold other_hit. destruct (mem k (table c)); auto. Qed.

(* ------------------------------------------------------------------------------------------ *)
(** * Facts about single steps *)

(* the five shapes a step on a response can take *)
Lemma step_resp_cases s w :
  (res s = Pending /\ (wire_seq w =? key s) && mem (wire_seq w) (table (conn s)) = true /\
   step s (Resp w) = (X (retries s) (sent s) Answered (key s) (drop_entry (key s) (conn s)), [Deliver])) \/
  (exists c' o, (o = [Ignored] \/ o = [DeliverOther]) /\ counter c' = counter (conn s) /\
   step s (Resp w) = (X (retries s) (sent s) (res s) (key s) c', o)).
Proof.
  assert (G : forall r, exists c' o, (o = [Ignored] \/ o = [DeliverOther]) /\ counter c' = counter (conn s) /\
            (let '(c', o) := other_hit (conn s) (wire_seq w) in (X (retries s) (sent s) r (key s) c', o)) =
            (X (retries s) (sent s) r (key s) c', o)).
  { intros r. destruct (other_hit_cases (conn s) (wire_seq w)) as [[_ ->]|[_ ->]].
    - exists (drop_entry (wire_seq w) (conn s)), [DeliverOther]. repeat split; auto.
    - exists (conn s), [Ignored]. repeat split; auto. }
  unfold step. destruct (res s) eqn:E.
  - destruct ((wire_seq w =? key s) && mem (wire_seq w) (table (conn s))) eqn:K.
    + left. auto.
    + right. apply G.
  - right. apply G.
  - right. apply G.
  - right. apply G.
Qed.

Lemma step_key s e : key (fst (step s e)) = key s.
Proof.
  destruct e as [|w|].
  - unfold step. destruct (res s); try reflexivity. destruct (0 <? retries s); reflexivity.
  - destruct (step_resp_cases s w) as [(_ & _ & ->)|(c' & o & _ & _ & ->)]; reflexivity.
  - unfold step. destruct (res s); reflexivity.
Qed.

Lemma step_counter s e : counter (conn (fst (step s e))) = counter (conn s).
Proof.
  destruct e as [|w|].
  - unfold step. destruct (res s); try reflexivity. destruct (0 <? retries s); reflexivity.
  - destruct (step_resp_cases s w) as [(_ & _ & ->)|(c' & o & _ & Hc & ->)]; [reflexivity|exact Hc].
  - unfold step. destruct (res s); reflexivity.
Qed.

(* once the exchange is over nothing changes its count, outcome, key or retry budget *)
Lemma step_frozen s e : res s <> Pending ->
  let s' := fst (step s e) in
  res s' = res s /\ sent s' = sent s /\ retries s' = retries s /\ txs (snd (step s e)) = [] /\
  teardowns (snd (step s e)) = 0.
Proof.
  intros Hn. destruct e as [|w|].
  - unfold step. destruct (res s) eqn:E; try (cbn; rewrite ?E; repeat split; reflexivity). congruence.
  - destruct (step_resp_cases s w) as [(Hp & _)|(c' & o & Ho & _ & ->)]; [congruence|].
    destruct Ho as [-> | ->]; cbn; repeat split; reflexivity.
  - unfold step. destruct (res s) eqn:E; try (cbn; rewrite ?E; repeat split; reflexivity). congruence.
Qed.

Lemma run_frozen tr : forall s, res s <> Pending ->
  let s' := fst (run_from s tr) in
  res s' = res s /\ sent s' = sent s /\ retries s' = retries s /\ txs (snd (run_from s tr)) = [] /\
  teardowns (snd (run_from s tr)) = 0.
Proof.
  induction tr as [|e r IH]; intros s Hn; [cbn; repeat split; reflexivity|].
  rewrite run_from_cons. cbn [fst snd].
  destruct (step_frozen s e Hn) as (H1 & H2 & H3 & H4 & H5).
  assert (Hn' : res (fst (step s e)) <> Pending) by (rewrite H1; exact Hn).
  destruct (IH _ Hn') as (I1 & I2 & I3 & I4 & I5).
  rewrite txs_app, teardowns_app, H4, I4, H5, I5, I1, I2, I3, H1, H2, H3. repeat split; reflexivity.
Qed.

(* at most one transmission per event, and only a Timeout causes one *)
Lemma step_tx_only_on_timeout s e :
  (length (txs (snd (step s e))) <= 1)%nat /\ (txs (snd (step s e)) <> [] -> e = Timeout).
Proof.
  destruct e as [|w|].
  - unfold step. split; [|reflexivity]. destruct (res s); cbn; try lia. destruct (0 <? retries s); cbn; lia.
  - destruct (step_resp_cases s w) as [(_ & _ & ->)|(c' & o & Ho & _ & ->)]; [cbn; split; [lia|congruence]|].
    destruct Ho as [-> | ->]; cbn; (split; [lia|congruence]).
  - unfold step. destruct (res s); cbn; split; try lia; congruence.
Qed.

(* a response is always dealt with on the spot: delivered, ignored, or delivered to another request *)
Lemma step_resp_never_blocks s w :
  exists o, snd (step s (Resp w)) = [o] /\ (o = Deliver \/ o = Ignored \/ o = DeliverOther).
Proof.
  destruct (step_resp_cases s w) as [(_ & _ & ->)|(c' & o & Ho & _ & ->)]; [exists Deliver; auto|].
  destruct Ho as [-> | ->]; eexists; split; cbn; eauto.
Qed.

(* ------------------------------------------------------------------------------------------ *)
(** * Invariants valid for every connection state (no health assumption) *)

(* budget: transmissions so far + retries left = n + 1 while pending; never more than n + 1 *)
Definition budget (n : N) (s : xst) : Prop :=
  sent s <= n + 1 /\ (res s = Pending -> sent s + retries s = n + 1).

Lemma step_budget n s e : budget n s -> budget n (fst (step s e)).
Proof.
  intros [Hb Hp]. destruct (res s) eqn:E.
  2,3,4: (assert (Hn : res s <> Pending) by congruence;
          destruct (step_frozen s e Hn) as (H1 & H2 & _); split; [rewrite H2; exact Hb| rewrite H1, E; discriminate]).
  specialize (Hp eq_refl). destruct e as [|w|]; unfold budget.
  - unfold step. rewrite E.
    destruct (0 <? retries s) eqn:R; cbn [fst sent res retries]; (split; [lia|]); try discriminate. intros _. lia.
  - destruct (step_resp_cases s w) as [(_ & _ & ->)|(c' & o & _ & _ & ->)]; cbn [fst sent res retries].
    + split; [lia|discriminate].
    + split; [lia|intros _; lia].
  - unfold step. rewrite E. cbn [fst sent res retries]. split; [lia|discriminate].
Qed.

Lemma run_budget n tr : forall s, budget n s -> budget n (fst (run_from s tr)).
Proof.
  induction tr as [|e r IH]; intros s H; [exact H|].
  rewrite run_from_cons. cbn [fst]. apply IH, step_budget, H.
Qed.

Lemma start_budget n c : budget n (fst (start n c)).
Proof. unfold budget. cbn [start fst sent res retries]. split; [lia|intros _; lia]. Qed.

Lemma exchange_bound n c tr : sent (fst (exchange n c tr)) <= 1 + n.
Proof.
  rewrite exchange_unfold. cbn [fst].
  destruct (run_budget n tr _ (start_budget n c)) as [H _]. lia.
Qed.

(* the number of Tx outputs is the counter [sent] *)
Lemma step_sent s e : sent (fst (step s e)) = sent s + N.of_nat (length (txs (snd (step s e)))).
Proof.
  destruct e as [|w|].
  - unfold step. destruct (res s); cbn; try lia. destruct (0 <? retries s); cbn; lia.
  - destruct (step_resp_cases s w) as [(_ & _ & ->)|(c' & o & Ho & _ & ->)]; [cbn; lia|].
    destruct Ho as [-> | ->]; cbn; lia.
  - unfold step. destruct (res s); cbn; lia.
Qed.

Lemma run_sent tr : forall s, sent (fst (run_from s tr)) = sent s + N.of_nat (length (txs (snd (run_from s tr)))).
Proof.
  induction tr as [|e r IH]; intros s; [cbn; lia|].
  rewrite run_from_cons. cbn [fst snd]. rewrite IH, step_sent, txs_app, app_length. lia.
Qed.

Lemma exchange_sent_is_tx_count n c tr :
  sent (fst (exchange n c tr)) = N.of_nat (length (txs (snd (exchange n c tr)))).
Proof.
  rewrite exchange_unfold. cbn [fst snd]. rewrite run_sent, txs_app, app_length. cbn [start fst snd sent txs length]. lia.
Qed.

(* every transmission of an exchange carries the wire image of the one key drawn at its start *)
Lemma step_tx_key s e w : In w (txs (snd (step s e))) -> w = wire_seq (key s).
Proof.
  destruct e as [|w'|].
  - unfold step. destruct (res s); cbn; try tauto. destruct (0 <? retries s); cbn; [intros [H|[]]; auto | tauto].
  - destruct (step_resp_cases s w') as [(_ & _ & ->)|(c' & o & Ho & _ & ->)]; [cbn; tauto|].
    destruct Ho as [-> | ->]; cbn; tauto.
  - unfold step. destruct (res s); cbn; tauto.
Qed.

Lemma run_key tr : forall s, key (fst (run_from s tr)) = key s.
Proof.
  induction tr as [|e r IH]; intros s; [reflexivity|].
  rewrite run_from_cons. cbn [fst]. rewrite IH. apply step_key.
Qed.

Lemma run_counter tr : forall s, counter (conn (fst (run_from s tr))) = counter (conn s).
Proof.
  induction tr as [|e r IH]; intros s; [reflexivity|].
  rewrite run_from_cons. cbn [fst]. rewrite IH. apply step_counter.
Qed.

Lemma run_tx_key tr : forall s w, In w (txs (snd (run_from s tr))) -> w = wire_seq (key s).
Proof.
  induction tr as [|e r IH]; intros s w; [cbn; tauto|].
  rewrite run_from_cons. cbn [snd]. rewrite txs_app, in_app_iff. intros [H|H].
  - eapply step_tx_key; eauto.
  - apply IH in H. rewrite step_key in H. exact H.
Qed.

Lemma exchange_same_seq n c tr w :
  In w (txs (snd (exchange n c tr))) -> w = wire_seq (next_seq (counter c)).
Proof.
  rewrite exchange_unfold. cbn [snd]. rewrite txs_app, in_app_iff. intros [H|H].
  - cbn in H. destruct H as [H|[]]. auto.
  - apply run_tx_key in H. exact H.
Qed.

Lemma exchange_key n c tr : key (fst (exchange n c tr)) = next_seq (counter c).
Proof. rewrite exchange_unfold. cbn [fst]. rewrite run_key. reflexivity. Qed.

(* the counter after an exchange is the key it used: the next exchange draws the next number *)
Lemma exchange_counter n c tr : counter (conn (fst (exchange n c tr))) = next_seq (counter c).
Proof. rewrite exchange_unfold. cbn [fst]. rewrite run_counter. reflexivity. Qed.

(* ------------------------------------------------------------------------------------------ *)
(** * Sequence numbers: 24 bits, key = wire image, no collision within a window of 2^24 requests *)

Lemma wire_seq_lt w : wire_seq w < two24.
Proof. unfold wire_seq. apply N.mod_lt. discriminate. Qed.

Lemma next_seq_lt c : next_seq c < two24.
Proof. unfold next_seq. apply N.mod_lt. discriminate. Qed.

Lemma wire_seq_small k : k < two24 -> wire_seq k = k.
Proof. unfold wire_seq. apply N.mod_small. Qed.

(* for EVERY counter value the key a request is stored under is the number that travels *)
Lemma key_is_wire_seq c : wire_seq (next_seq c) = next_seq c.
Proof. apply wire_seq_small, next_seq_lt. Qed.

Lemma next_seq_wraps : next_seq (two24 - 1) = 0 /\ next_seq 0 = 1.
Proof. vm_compute. auto. Qed.

Fixpoint seq_after (i : nat) (c : N) : N := match i with O => c | S j => next_seq (seq_after j c) end.

Lemma seq_after_closed i c : seq_after (S i) c = (c + N.of_nat (S i)) mod two24.
Proof.
  induction i as [|i IH].
  - cbn [seq_after]. unfold next_seq. f_equal.
  - change (seq_after (S (S i)) c) with (next_seq (seq_after (S i) c)). rewrite IH. unfold next_seq.
    rewrite N.add_mod_idemp_l by discriminate. f_equal. lia.
Qed.

(* two of a connection's requests carry the same number only if 2^24 or more requests lie between them *)
Lemma keys_distinct_within_window c i j : (i < j)%nat -> N.of_nat (j - i) < two24 ->
  seq_after (S i) c <> seq_after (S j) c.
Proof.
  intros Hij Hw. rewrite !seq_after_closed. intros E.
  set (a := c + N.of_nat (S i)) in *.
  replace (c + N.of_nat (S j)) with (a + N.of_nat (j - i)) in E by (unfold a; lia).
  set (d := N.of_nat (j - i)) in *. assert (Hd : 0 < d) by (unfold d; lia).
  assert (Ht : two24 <> 0) by discriminate.
  pose proof (N.div_mod a two24 Ht) as Da. pose proof (N.div_mod (a + d) two24 Ht) as Db.
  pose proof (N.mod_lt a two24 Ht) as La.
  rewrite <- E in Db.
  assert (Hq : two24 * ((a + d) / two24) = two24 * (a / two24) + d) by lia.
  assert (Hle : a / two24 <= (a + d) / two24) by (apply N.div_le_mono; [exact Ht|lia]).
  assert (Hne : a / two24 <> (a + d) / two24) by (intros Q; rewrite <- Q in Hq; lia).
  assert (Hs : a / two24 + 1 <= (a + d) / two24) by lia.
  assert (two24 * (a / two24 + 1) <= two24 * ((a + d) / two24)) by (apply N.mul_le_mono_l; exact Hs).
  lia.
Qed.

(* ------------------------------------------------------------------------------------------ *)
(** * Refinement: with no other request outstanding the automaton computes the trace-level specification *)

Lemma mem_single k x : mem k [x] = (k =? x).
Proof. cbn. apply orb_false_r. Qed.

Lemma run_char tr : forall s, res s = Pending -> table (conn s) = [key s] ->
  let s' := fst (run_from s tr) in
  sent s' = sent s + N.min (retries s) (timeouts (live (key s) tr)) /\
  res s' = (if retries s <? timeouts (live (key s) tr) then Dead
            else match ender (key s) tr with None => Pending | Some Shutdown => Aborted | Some _ => Answered end) /\
  teardowns (snd (run_from s tr)) = (if retries s <? timeouts (live (key s) tr) then 1 else 0).
Proof.
  induction tr as [|e r IH]; intros s Hp Hs.
  - cbn [run_from fst snd live ender timeouts teardowns].
    assert (E : (retries s <? 0) = false) by lia. rewrite E, Hp. repeat split; lia.
  - rewrite run_from_cons. cbn [fst snd]. destruct e as [|w|].
    + (* Timeout *)
      cbn [live ender ends timeouts].
      assert (St : step s Timeout =
                   if 0 <? retries s
                   then (X (retries s - 1) (sent s + 1) Pending (key s) (conn s), [Tx (wire_seq (key s))])
                   else (X (retries s) (sent s) Dead (key s) (drop_entry (key s) (conn s)), [Teardown])).
      { unfold step. rewrite Hp. reflexivity. }
      rewrite St. clear St. destruct (0 <? retries s) eqn:R.
      * cbn [fst snd]. rewrite teardowns_app. cbn [teardowns].
        set (s1 := X (retries s - 1) (sent s + 1) Pending (key s) (conn s)).
        destruct (IH s1 eq_refl Hs) as (I1 & I2 & I3). cbn [key retries sent s1] in I1, I2, I3.
        rewrite I1, I2, I3.
        assert (E : (retries s - 1 <? timeouts (live (key s) r)) = (retries s <? 1 + timeouts (live (key s) r))).
        { destruct (retries s - 1 <? timeouts (live (key s) r)) eqn:A,
                   (retries s <? 1 + timeouts (live (key s) r)) eqn:B; try reflexivity; lia. }
        rewrite E. repeat split; lia.
      * cbn [fst snd]. rewrite teardowns_app. cbn [teardowns].
        set (s1 := X (retries s) (sent s) Dead (key s) (drop_entry (key s) (conn s))).
        assert (Hn : res s1 <> Pending) by (cbn; discriminate).
        destruct (run_frozen r s1 Hn) as (F1 & F2 & _ & _ & F5). cbn [res sent s1] in F1, F2.
        rewrite F1, F2, F5.
        assert (E : (retries s <? 1 + timeouts (live (key s) r)) = true) by lia.
        rewrite E. repeat split; lia.
    + (* Resp *)
      cbn [live ender ends timeouts].
      destruct (wire_seq w =? key s) eqn:K.
      * assert (St : step s (Resp w) = (X (retries s) (sent s) Answered (key s) (drop_entry (key s) (conn s)), [Deliver])).
        { unfold step. rewrite Hp, Hs, mem_single, K. reflexivity. }
        rewrite St. clear St. cbn [fst snd live ender timeouts].
        set (s1 := X (retries s) (sent s) Answered (key s) (drop_entry (key s) (conn s))).
        assert (Hn : res s1 <> Pending) by (cbn; discriminate).
        destruct (run_frozen r s1 Hn) as (F1 & F2 & _ & _ & F5). cbn [res sent s1] in F1, F2.
        rewrite F1, F2, teardowns_app, F5.
        assert (E : (retries s <? 0) = false) by lia. rewrite E. cbn [teardowns]. repeat split; lia.
      * assert (St : step s (Resp w) = (s, [Ignored])).
        { unfold step. rewrite Hp, K. cbn [andb]. unfold other_hit. rewrite Hs, mem_single, K.
          destruct s; cbn in *; subst; reflexivity. }
        rewrite St. clear St. cbn [fst snd live timeouts]. rewrite teardowns_app. cbn [teardowns].
        destruct (IH s Hp Hs) as (I1 & I2 & I3). rewrite I1, I2, I3. repeat split; lia.
    + (* Shutdown *)
      cbn [live ender ends timeouts].
      assert (St : step s Shutdown = (X (retries s) (sent s) Aborted (key s) (drop_entry (key s) (conn s)), [])).
      { unfold step. rewrite Hp. reflexivity. }
      rewrite St. clear St. cbn [fst snd app].
      set (s1 := X (retries s) (sent s) Aborted (key s) (drop_entry (key s) (conn s))).
      assert (Hn : res s1 <> Pending) by (cbn; discriminate).
      destruct (run_frozen r s1 Hn) as (F1 & F2 & _ & _ & F5). cbn [res sent s1] in F1, F2.
      rewrite F1, F2, F5.
      assert (E : (retries s <? 0) = false) by lia. rewrite E. cbn [app teardowns]. repeat split; lia.
Qed.

Theorem exchange_refines_spec n c tr : healthy c ->
  let k := next_seq (counter c) in
  sent (fst (exchange n c tr)) = spec_sent n k tr /\
  res (fst (exchange n c tr)) = spec_outcome n k tr /\
  teardowns (snd (exchange n c tr)) = (if n <? timeouts (live k tr) then 1 else 0).
Proof.
  intros Hs. rewrite exchange_unfold. cbn [fst snd].
  assert (H0 : table (conn (fst (start n c))) = [key (fst (start n c))]) by (cbn; rewrite Hs; reflexivity).
  destruct (run_char tr (fst (start n c)) eq_refl H0) as (I1 & I2 & I3).
  cbn [start fst key retries sent] in I1, I2, I3.
  rewrite teardowns_app. cbn [start snd teardowns]. unfold spec_sent, spec_outcome.
  cbn [start fst]. rewrite I1, I2, I3. repeat split; lia.
Qed.

(* ------------------------------------------------------------------------------------------ *)
(** * Trace algebra *)

Definition noend (k : N) (tr : list ev) : Prop := forallb (fun e => negb (ends k e)) tr = true.

Lemma timeouts_app a b : timeouts (a ++ b) = timeouts a + timeouts b.
Proof. induction a as [|e a IH]; cbn [app timeouts]; [lia|]. destruct e; rewrite IH; lia. Qed.

Lemma live_noend k a b : noend k a -> live k (a ++ b) = a ++ live k b.
Proof.
  unfold noend. induction a as [|e a IH]; cbn [app live forallb]; [reflexivity|].
  rewrite andb_true_iff, negb_true_iff. intros [H1 H2]. rewrite H1, IH by exact H2. reflexivity.
Qed.

Lemma ender_noend k a b : noend k a -> ender k (a ++ b) = ender k b.
Proof.
  unfold noend. induction a as [|e a IH]; cbn [app ender forallb]; [reflexivity|].
  rewrite andb_true_iff, negb_true_iff. intros [H1 H2]. rewrite H1, IH by exact H2. reflexivity.
Qed.

Lemma live_noend_self k a : noend k a -> live k a = a.
Proof. intros H. rewrite <- (app_nil_r a) at 1. rewrite live_noend by exact H. cbn. apply app_nil_r. Qed.

(* "ends" read on the wire: a response ends the exchange iff it echoes the number that was sent *)
Lemma ends_wire c e :
  ends (next_seq c) e =
  match e with Resp w => wire_seq w =? wire_seq (next_seq c) | Shutdown => true | Timeout => false end.
Proof. destruct e; cbn [ends]; rewrite ?key_is_wire_seq; reflexivity. Qed.

(* ------------------------------------------------------------------------------------------ *)
(** * Consequences of the refinement *)

Lemma exchange_app n c a b :
  fst (exchange n c (a ++ b)) = fst (run_from (fst (exchange n c a)) b) /\
  snd (exchange n c (a ++ b)) = snd (exchange n c a) ++ snd (run_from (fst (exchange n c a)) b).
Proof.
  rewrite !exchange_unfold. cbn [fst snd]. rewrite run_from_app. cbn [fst snd]. rewrite app_assoc. auto.
Qed.

(* stated on the wire: the response echoes the sequence number the request carried *)
Lemma stop_on_match n c tr1 w tr2 : healthy c ->
  let k := next_seq (counter c) in
  noend k tr1 -> timeouts tr1 <= n -> wire_seq w = wire_seq k ->
  res (fst (exchange n c (tr1 ++ Resp w :: tr2))) = Answered /\
  sent (fst (exchange n c (tr1 ++ Resp w :: tr2))) = 1 + timeouts tr1 /\
  sent (fst (exchange n c tr1)) = 1 + timeouts tr1 /\
  txs (snd (exchange n c (tr1 ++ Resp w :: tr2))) = txs (snd (exchange n c tr1)) /\
  teardowns (snd (exchange n c (tr1 ++ Resp w :: tr2))) = 0.
Proof.
  intros Hh k Hne Ht Hw0.
  assert (Hw : wire_seq w = k) by (rewrite Hw0; apply key_is_wire_seq).
  destruct (exchange_refines_spec n c (tr1 ++ Resp w :: tr2) Hh) as (A1 & A2 & A3).
  destruct (exchange_refines_spec n c tr1 Hh) as (B1 & _ & _).
  fold k in A1, A2, A3, B1.
  assert (El : live k (tr1 ++ Resp w :: tr2) = tr1).
  { rewrite live_noend by exact Hne. cbn [live ends]. rewrite Hw, N.eqb_refl. apply app_nil_r. }
  assert (Ee : ender k (tr1 ++ Resp w :: tr2) = Some (Resp w)).
  { rewrite ender_noend by exact Hne. cbn [ender ends]. rewrite Hw, N.eqb_refl. reflexivity. }
  unfold spec_sent, spec_outcome in *. rewrite El in A1, A2, A3. rewrite Ee in A2.
  rewrite (live_noend_self k tr1 Hne) in B1.
  assert (E : (n <? timeouts tr1) = false) by lia. rewrite E in A2, A3.
  assert (S1 : sent (fst (exchange n c (tr1 ++ Resp w :: tr2))) = 1 + timeouts tr1) by lia.
  assert (S2 : sent (fst (exchange n c tr1)) = 1 + timeouts tr1) by lia.
  repeat split; auto.
  destruct (exchange_app n c tr1 (Resp w :: tr2)) as [_ Ho].
  pose proof (exchange_sent_is_tx_count n c (tr1 ++ Resp w :: tr2)) as C1.
  pose proof (exchange_sent_is_tx_count n c tr1) as C2.
  rewrite Ho, txs_app in *. rewrite app_length in C1.
  assert (L : length (txs (snd (run_from (fst (exchange n c tr1)) (Resp w :: tr2)))) = 0%nat) by lia.
  destruct (txs (snd (run_from (fst (exchange n c tr1)) (Resp w :: tr2)))); [apply app_nil_r|discriminate].
Qed.

Lemma dead_iff n c tr : healthy c ->
  let k := next_seq (counter c) in
  (res (fst (exchange n c tr)) = Dead <-> n + 1 <= timeouts (live k tr)) /\
  (teardowns (snd (exchange n c tr)) = 1 <-> res (fst (exchange n c tr)) = Dead) /\
  teardowns (snd (exchange n c tr)) <= 1 /\
  (res (fst (exchange n c tr)) = Dead -> sent (fst (exchange n c tr)) = n + 1).
Proof.
  intros Hh k. destruct (exchange_refines_spec n c tr Hh) as (A1 & A2 & A3). fold k in A1, A2, A3.
  unfold spec_sent, spec_outcome in *. rewrite A1, A2, A3.
  destruct (n <? timeouts (live k tr)) eqn:E.
  - repeat split; intros; try reflexivity; lia.
  - repeat split; intros; try lia; try discriminate;
      destruct (ender k tr) as [[| |]|]; discriminate.
Qed.

(* ------------------------------------------------------------------------------------------ *)
(** * The pending table: exactly this exchange's entry while it is pending, nothing once it ended *)

Definition shape (s : xst) : Prop :=
  table (conn s) = match res s with Pending => [key s] | _ => [] end.

Lemma del_single k : del k [k] = [].
Proof. cbn. rewrite N.eqb_refl. reflexivity. Qed.

Lemma step_shape s e : shape s -> shape (fst (step s e)).
Proof.
  unfold shape. intros Hs. destruct e as [|w|]; unfold step.
  - destruct (res s) eqn:E; try (cbn [fst]; rewrite E; exact Hs).
    destruct (0 <? retries s); cbn [fst res key conn drop_entry table]; [exact Hs|rewrite Hs; apply del_single].
  - unfold other_hit. rewrite Hs. destruct (res s) eqn:E.
    + rewrite mem_single. destruct (wire_seq w =? key s) eqn:K; cbn [andb fst res key conn drop_entry table].
      * rewrite Hs. apply del_single.
      * exact Hs.
    + cbn [mem fst res key conn]. exact Hs.
    + cbn [mem fst res key conn]. exact Hs.
    + cbn [mem fst res key conn]. exact Hs.
  - destruct (res s) eqn:E; try (cbn [fst]; rewrite E; exact Hs).
    cbn [fst res key conn drop_entry table]. rewrite Hs. apply del_single.
Qed.

Lemma run_shape tr : forall s, shape s -> shape (fst (run_from s tr)).
Proof.
  induction tr as [|e r IH]; intros s H; [exact H|].
  rewrite run_from_cons. cbn [fst]. apply IH, step_shape, H.
Qed.

Lemma exchange_shape n c tr : healthy c -> shape (fst (exchange n c tr)).
Proof.
  intros Hs. rewrite exchange_unfold. cbn [fst]. apply run_shape. unfold shape. cbn. rewrite Hs. reflexivity.
Qed.

(* the entry is gone whenever the exchange has ended, however it ended: the next request starts clean *)
Lemma exchange_leaves_clean n c tr : healthy c -> res (fst (exchange n c tr)) <> Pending ->
  healthy (conn (fst (exchange n c tr))).
Proof.
  intros Hh Hr. pose proof (exchange_shape n c tr Hh) as Hs. unfold shape in Hs. unfold healthy.
  destruct (res (fst (exchange n c tr))); [congruence|exact Hs..].
Qed.

Lemma xst_eta s : X (retries s) (sent s) (res s) (key s) (conn s) = s.
Proof. destruct s; reflexivity. Qed.

(* every response that does not carry the pending request's number, and EVERY response once the
   exchange is over (duplicate after the answer, late after the final timeout, after an abort),
   leaves the whole state untouched *)
Lemma ignored_step s w : shape s -> wire_seq w <> key s \/ res s <> Pending ->
  step s (Resp w) = (s, [Ignored]).
Proof.
  unfold shape. intros Hs Hw. unfold step, other_hit. rewrite Hs.
  destruct (res s) eqn:E.
  - destruct Hw as [Hw|Hw]; [|congruence]. apply N.eqb_neq in Hw. rewrite mem_single, Hw. cbn [andb].
    rewrite <- E, xst_eta. reflexivity.
  - cbn [mem]. rewrite <- E, xst_eta. reflexivity.
  - cbn [mem]. rewrite <- E, xst_eta. reflexivity.
  - cbn [mem]. rewrite <- E, xst_eta. reflexivity.
Qed.

Lemma nonmatching_ignored n c tr1 w tr2 : healthy c ->
  let s1 := fst (exchange n c tr1) in
  wire_seq w <> wire_seq (key s1) \/ res s1 <> Pending ->
  snd (step s1 (Resp w)) = [Ignored] /\
  fst (exchange n c (tr1 ++ Resp w :: tr2)) = fst (exchange n c (tr1 ++ tr2)) /\
  txs (snd (exchange n c (tr1 ++ Resp w :: tr2))) = txs (snd (exchange n c (tr1 ++ tr2))) /\
  teardowns (snd (exchange n c (tr1 ++ Resp w :: tr2))) = teardowns (snd (exchange n c (tr1 ++ tr2))).
Proof.
  intros Hh s1 Hw.
  assert (Hw' : wire_seq w <> key s1 \/ res s1 <> Pending).
  { destruct Hw as [Hw|Hw]; [left|right; exact Hw]. unfold s1 in *. rewrite exchange_key in *.
    rewrite key_is_wire_seq in Hw. exact Hw. }
  pose proof (ignored_step s1 w (exchange_shape n c tr1 Hh) Hw') as St.
  destruct (exchange_app n c tr1 (Resp w :: tr2)) as [A1 A2].
  destruct (exchange_app n c tr1 tr2) as [B1 B2]. fold s1 in A1, A2, B1, B2.
  rewrite run_from_cons, St in A1, A2. cbn [fst snd] in A1, A2.
  rewrite St, A1, A2, B1, B2, !txs_app, !teardowns_app. cbn [snd txs teardowns app]. repeat split; lia.
Qed.

(* ------------------------------------------------------------------------------------------ *)
(** * Callers *)

Lemma call_counter n c who tr : counter (fst (fst (call n c who tr))) = next_seq (counter c).
Proof.
  unfold call. pose proof (exchange_counter n c tr) as H.
  destruct (exchange n c tr) as [s o]. cbn [fst] in H.
  destruct (res s), who as [|[|]]; cbn [fst]; exact H.
Qed.

Lemma call_same_seq n c who tr w :
  In w (txs (snd (fst (call n c who tr)))) -> w = wire_seq (next_seq (counter c)).
Proof.
  unfold call. pose proof (exchange_same_seq n c tr w) as H.
  destruct (exchange n c tr) as [s o]. cbn [snd] in H.
  destruct (res s), who as [|[|]]; cbn [fst snd]; try exact H.
  rewrite txs_app. cbn [txs]. rewrite app_nil_r. exact H.
Qed.

(* the connection survives a call exactly when the exchange was answered acceptably (or is still open) *)
Lemma call_alive n c who tr :
  snd (call n c who tr) = true <->
  (res (fst (exchange n c tr)) = Pending \/
   (res (fst (exchange n c tr)) = Answered /\ who <> ByAssociation false)).
Proof.
  unfold call. destruct (exchange n c tr) as [s o]. cbn [fst].
  destruct (res s), who as [|[|]]; cbn [snd]; split; intros H; try discriminate; auto;
    try (destruct H as [H|[H _]]; discriminate); try (right; split; [reflexivity|discriminate]).
  destruct H as [H|[_ H]]; [discriminate|congruence].
Qed.

Lemma calls_dead_silent n c xs : Forall (fun o => o = []) (calls n c false xs).
Proof. induction xs as [|[who tr] r IH]; cbn [calls]; constructor; auto. Qed.

(* ------------------------------------------------------------------------------------------ *)
(** * Ticker *)

Lemma trun_cons i s e r : trun i s (e :: r) = (fst (trun i (fst (tstep i s e)) r), snd (tstep i s e) + snd (trun i (fst (tstep i s e)) r)).
Proof. cbn [trun]. destruct (tstep i s e) as [s1 f1]. cbn [fst snd]. destruct (trun i s1 r). reflexivity. Qed.

Lemma trun_quiet i tr : forall s,
  running s = false \/ (waited tr < remaining s /\ remaining s <= i) -> snd (trun i s tr) = 0.
Proof.
  induction tr as [|e r IH]; intros s H; [reflexivity|].
  rewrite trun_cons. cbn [snd].
  destruct (running s) eqn:R.
  - destruct H as [H|[H1 H2]]; [discriminate|].
    destruct e as [d| |]; unfold tstep; rewrite R; cbn [negb waited] in *.
    + assert (E : (d <? remaining s) = true) by lia. rewrite E. cbn [fst snd].
      rewrite IH; [lia|]. right. cbn [remaining]. lia.
    + cbn [fst snd]. rewrite IH; [lia|]. right. cbn [remaining]. lia.
    + cbn [fst snd]. rewrite IH; [lia|]. left. reflexivity.
  - unfold tstep. rewrite R. cbn [negb fst snd]. rewrite IH; [lia|]. left. exact R.
Qed.

(* a reset postpones the next expiry by a full interval, whatever the ticker's phase was *)
Lemma reset_postpones i s tr : running s = true -> waited tr < i ->
  snd (trun i (fst (tstep i s TReset)) tr) = 0.
Proof.
  intros R H. apply trun_quiet. right. unfold tstep. rewrite R. cbn [negb fst remaining]. lia.
Qed.

(* ... and without a reset the expiry comes exactly one interval after the last (re)start *)
Lemma tick_due i : 0 < i -> tstep i (tstart i) (Wait i) = (tstart i, 1).
Proof.
  intros H. unfold tstep, tstart. cbn [running negb remaining].
  assert (E : (i <? i) = false) by lia. rewrite E. rewrite N.sub_diag.
  rewrite N.mod_0_l, N.div_0_l, N.sub_0_r by lia. reflexivity.
Qed.

Lemma tick_due_after_reset i s : 0 < i -> running s = true ->
  tstep i (fst (tstep i s TReset)) (Wait i) = (tstart i, 1).
Proof. intros H R. unfold tstep at 2. rewrite R. cbn [negb fst]. apply tick_due, H. Qed.

(* ------------------------------------------------------------------------------------------ *)
(** * Synchronous handlers *)

Lemma hb_always_answered c s seq :
  snd (fst (handle_hb c s seq)) = HBResp seq (ts_local s) /\
  ts_local (fst (fst (handle_hb c s seq))) = ts_local s /\
  node_remote (fst (fst (handle_hb c s seq))) = node_remote s.
Proof.
  unfold handle_hb. destruct (enable_hb_timer c); [|auto].
  destruct (0 <? monitors s); [auto|]. destruct (queued s <? hb_reset_cap); auto.
Qed.

Lemma hb_reset_reaches_monitor c s seq : enable_hb_timer c = true -> 0 < monitors s ->
  snd (handle_hb c s seq) = ToMonitor.
Proof.
  intros H M. unfold handle_hb. rewrite H. assert (E : (0 <? monitors s) = true) by lia. rewrite E. reflexivity.
Qed.

Lemma astep_ts c s e : ts_local (fst (astep c s e)) = ts_local s /\
  (reply_ts (snd (astep c s e)) = None \/ reply_ts (snd (astep c s e)) = Some (ts_local s)).
Proof.
  destruct e as [seq|seq node rts connected]; unfold astep.
  - pose proof (hb_always_answered c s seq) as (H1 & H2 & _).
    destruct (handle_hb c s seq) as [[s' r] x]. cbn [fst snd] in *. subst r. cbn. auto.
  - unfold handle_setup. destruct node; try (cbn; auto). destruct rts; try (cbn; auto).
    destruct connected; cbn; auto.
Qed.

Lemma arun_cons c s e r : arun c s (e :: r) = (fst (arun c (fst (astep c s e)) r), snd (astep c s e) :: snd (arun c (fst (astep c s e)) r)).
Proof. cbn [arun]. destruct (astep c s e) as [s1 x]. cbn [fst snd]. destruct (arun c s1 r). reflexivity. Qed.

Lemma arun_ts c es : forall s, ts_local (fst (arun c s es)) = ts_local s /\
  Forall (fun r => reply_ts r = None \/ reply_ts r = Some (ts_local s)) (snd (arun c s es)).
Proof.
  induction es as [|e r IH]; intros s; [cbn; auto|].
  rewrite arun_cons. cbn [fst snd]. destruct (astep_ts c s e) as [H1 H2].
  destruct (IH (fst (astep c s e))) as [I1 I2]. rewrite H1 in I1, I2. split; [exact I1|]. constructor; auto.
Qed.

Lemma setup_iff_connected c s seq nid ts connected :
  exists cause,
    snd (fst (handle_setup c s seq (Val nid) (Val ts) connected)) =
      SetupResp seq cause (ts_local s) (features c) (upiri_flags c) /\
    (cause = cause_accepted <-> connected = true) /\
    (cause = cause_rejected <-> connected = false) /\
    (connected = false -> fst (fst (handle_setup c s seq (Val nid) (Val ts) connected)) = s) /\
    (connected = true -> node_remote (fst (fst (handle_setup c s seq (Val nid) (Val ts) connected))) = Some nid).
Proof.
  unfold handle_setup. destruct connected; cbn [fst snd].
  - exists cause_accepted. repeat split; auto; try discriminate.
  - exists cause_rejected. repeat split; auto; try discriminate.
Qed.

Lemma features_match c :
  has_ftup (features c) = true /\ has_ueip (features c) = enable_ueip c /\
  has_empu (features c) = enable_end_marker c.
Proof. destruct c as [[|] [|] h d]; vm_compute; auto. Qed.

Lemma features_exact c :
  features c = (16, (if enable_end_marker c then 1 else 0), (if enable_ueip c then 4 else 0), 0).
Proof. destruct c as [[|] [|] h d]; reflexivity. Qed.

(* ------------------------------------------------------------------------------------------ *)
(** * Statements in the form used by Props/C12.v *)

Lemma c12_bound n c tr :
  sent (fst (exchange n c tr)) <= 1 + n /\
  N.of_nat (length (txs (snd (exchange n c tr)))) = sent (fst (exchange n c tr)).
Proof. split; [apply exchange_bound|symmetry; apply exchange_sent_is_tx_count]. Qed.

Lemma c12_spaced n c tr : healthy c ->
  sent (fst (exchange n c tr)) = 1 + N.min n (timeouts (live (next_seq (counter c)) tr)).
Proof. intros H. destruct (exchange_refines_spec n c tr H) as (A & _). exact A. Qed.

(* a response after the final timeout, after an abort or after the answer: ignored, state untouched *)
Lemma c12_late_ignored n c tr w : healthy c ->
  let s := fst (exchange n c tr) in
  res s <> Pending -> step s (Resp w) = (s, [Ignored]).
Proof. intros H s Hr. apply ignored_step; [apply exchange_shape, H|right; exact Hr]. Qed.

(* every call starts from a clean table again: health is an invariant of a connection's history *)
Lemma call_leaves_clean n c who tr : healthy c -> res (fst (exchange n c tr)) <> Pending ->
  healthy (fst (fst (call n c who tr))).
Proof.
  intros Hh Hr. pose proof (exchange_leaves_clean n c tr Hh Hr) as H. unfold call.
  destruct (exchange n c tr) as [s o]. cbn [fst] in *.
  destruct (res s), who as [|[|]]; cbn [fst]; exact H.
Qed.

Definition c24 : cst := C (two24 - 1) [].      (* 2^24 - 1 requests were sent on this connection *)

(* the 2^24-th request: the counter wraps to 0, the peer's echo matches at once *)
Lemma c12_wrap_witness :
  healthy c24 /\ next_seq (counter c24) = 0 /\
  exchange 2 c24 [Resp 0; Timeout; Resp 0] = (X 2 1 Answered 0 (C 0 []), [Tx 0; Deliver; Ignored]).
Proof. vm_compute. repeat split; reflexivity. Qed.

(* no retries, one timeout, then the answer arrives: ignored, and the next request works *)
Lemma c12_late_witness :
  healthy fresh_conn /\
  exchange 0 fresh_conn [Timeout; Resp 1; Resp 1; Resp 7] = (X 0 1 Dead 1 (C 1 []), [Tx 1; Teardown; Ignored; Ignored; Ignored]).
Proof. vm_compute. repeat split; reflexivity. Qed.
