(* C16: every update the builders of Model/P4Build.v produce is valid for the generated P4Info, for ALL
   values inside the envelope.  Name resolution (table / action / field / parameter lookup in Gen/P4Info_gen
   and Gen/P4Const_gen) is done by computation ([norm]: cbv that leaves the value-level arithmetic alone);
   the remaining goal is a conjunction of bit-width / bound atoms about universally quantified values. *)
From Coq Require Import NArith List String Bool Lia ZifyN ZifyNat ZifyBool.
From UPF Require Import Model.P4Info Model.P4Valid Model.P4Build Gen.P4Info_gen Gen.P4Const_gen.
Import ListNotations.
Open Scope N_scope.

Definition I := P4Info_gen.info.
Definition C := P4Const_gen.consts.
Definition valid (u : update) : Prop := valid_update I u = true.

(* ------------------------------------------------------------------ atoms *)
Lemma fitsb_lt w v : v < 2 ^ w -> fitsb w v = true.
Proof. unfold fitsb. intros. now apply N.ltb_lt. Qed.

Lemma lpm_intro w v p : v < 2 ^ w -> p <= w -> v mod 2 ^ (w - p) = 0 -> lpm_okb w v p = true.
Proof.
  intros Hv Hp Hm. unfold lpm_okb. rewrite fitsb_lt by assumption.
  apply N.leb_le in Hp. rewrite Hp. apply N.eqb_eq in Hm. now rewrite Hm.
Qed.

Lemma tern_intro w v m : m < 2 ^ w -> N.land v m = v -> tern_okb w v m = true.
Proof. intros Hm Hl. unfold tern_okb. rewrite fitsb_lt by assumption. apply N.eqb_eq in Hl. now rewrite Hl. Qed.

Lemma range_intro w lo hi : hi < 2 ^ w -> lo <= hi -> range_okb w lo hi = true.
Proof. intros Hh Hl. unfold range_okb. rewrite fitsb_lt by assumption. apply N.leb_le in Hl. now rewrite Hl. Qed.

Lemma prio_intro prec : prec < 65535 -> prio_okb true (65535 - prec) = true.
Proof.
  intros H. unfold prio_okb. apply andb_true_intro. split.
  - apply N.ltb_lt. lia.
  - apply N.ltb_lt. change (2 ^ 31) with 2147483648. lia.
Qed.

Lemma index_intro size i : i < size -> index_okb size i = true.
Proof. intros. now apply N.ltb_lt. Qed.

(* ------------------------------------------------------------------ trailing zeros / LPM of the application filter *)
Lemma tz_pos_divides p : Npos p mod 2 ^ tz_pos p = 0.
Proof.
  induction p as [p IH|p IH|]; cbn [tz_pos]; try apply N.mod_1_r.
  replace (N.pos p~0) with (2 * N.pos p) by reflexivity.
  rewrite N.pow_add_r. change (2 ^ 1) with 2.
  rewrite N.mul_mod_distr_l by (try apply N.pow_nonzero; lia). rewrite IH. reflexivity.
Qed.

Lemma tz_pos_le p : 2 ^ tz_pos p <= Npos p.
Proof.
  induction p as [p IH|p IH|]; cbn [tz_pos]; try (change (2 ^ 0) with 1; lia).
  rewrite N.pow_add_r. change (2 ^ 1) with 2. replace (N.pos p~0) with (2 * N.pos p) by reflexivity. lia.
Qed.

Lemma tz32_bound m : m < 2 ^ 32 -> tz32 m <= 32.
Proof.
  destruct m as [|p]; cbn [tz32]; [lia|]. intros H.
  assert (L := tz_pos_le p).
  assert (2 ^ tz_pos p < 2 ^ 32) by lia.
  apply N.pow_lt_mono_r_iff in H0; lia.
Qed.

Lemma tz32_divides m : m mod 2 ^ tz32 m = 0.
Proof. destruct m; cbn [tz32]; [reflexivity|apply tz_pos_divides]. Qed.

Lemma land_low_zero ip mask k : mask mod 2 ^ k = 0 -> N.land ip mask = ip -> ip mod 2 ^ k = 0.
Proof.
  intros Hm Hl. rewrite <- Hl. rewrite <- N.land_ones. rewrite <- N.land_assoc.
  rewrite N.land_ones. rewrite Hm. apply N.land_0_r.
Qed.

Lemma app_lpm_ok ip mask : ip < 2 ^ 32 -> mask < 2 ^ 32 -> N.land ip mask = ip ->
  lpm_okb 32 ip (app_prefix_len mask) = true.
Proof.
  intros Hi Hm Hl. unfold app_prefix_len. assert (B := tz32_bound mask Hm).
  apply lpm_intro; [assumption|lia|].
  replace (32 - (32 - tz32 mask)) with (tz32 mask) by lia.
  apply land_low_zero with mask; [apply tz32_divides|assumption].
Qed.

(* ------------------------------------------------------------------ name resolution by computation *)
Ltac norm_in H := cbv -[fitsb lpm_okb tern_okb range_okb prio_okb index_okb andb orb negb
                        N.sub N.add N.mul N.modulo N.land N.pow N.ltb N.leb N.eqb tz32 app_prefix_len] in H;
                  cbn [andb orb negb] in H.
Ltac norm := cbv -[fitsb lpm_okb tern_okb range_okb prio_okb index_okb andb orb negb
                   N.sub N.add N.mul N.modulo N.land N.pow N.ltb N.leb N.eqb tz32 app_prefix_len];
             cbn [andb orb negb].
(* H : tbl I C ty <named entry> = Some u, goal valid u; remaining atoms are rewritten from the context *)
Ltac finish ty :=
  repeat match goal with
         | E : ?a = true |- context [?a] => rewrite E
         end;
  cbn [andb orb negb]; try (destruct ty; reflexivity).
Lemma some_inj {A} (x y : A) : Some x = Some y -> x = y.
Proof. intros H. now inversion H. Qed.
Ltac recs :=
  repeat match goal with
         | x : pdr |- _ => destruct x
         | x : far |- _ => destruct x
         | x : qer |- _ => destruct x
         | x : port_range |- _ => destruct x
         | x : app_filter |- _ => destruct x
         end;
  cbn [pd_src_iface pd_tun_ip pd_teid pd_ue pd_af pd_prec pd_id pd_ctr pd_far pd_qers
       fr_id fr_dst_intf fr_action fr_tun_dst fr_teid fr_port
       qr_id qr_level qr_qfi qr_ul_status qr_dl_status pr_lo pr_hi] in *.
Ltac entry H ty := unfold valid; norm_in H; apply some_inj in H; rewrite <- H; clear H; norm; finish ty.

Lemma n_interface_valid ty ip plen slice is_core u :
  lpm_okb 32 ip plen = true -> fitsb 4 slice = true ->
  tbl I C ty (n_interface ip plen slice is_core) = Some u -> valid u.
Proof. intros H1 H2 H. destruct is_core; entry H ty. Qed.

Lemma n_application_valid ty ip mask ports proto pmask prec slice app_id u :
  lpm_okb 32 ip (app_prefix_len mask) = true -> range_okb 16 (pr_lo ports) (pr_hi ports) = true ->
  tern_okb 8 proto pmask = true -> prec < 65535 -> fitsb 4 slice = true -> fitsb 8 app_id = true ->
  tbl I C ty (n_application_raw ip mask ports proto pmask prec slice app_id) = Some u -> valid u.
Proof.
  intros H1 H2 H3 Hp H4 H5 H. apply prio_intro in Hp. unfold n_application_raw in H.
  destruct (0 <? app_prefix_len mask), (is_wildcard ports), (negb (proto =? 0) && negb (pmask =? 0)); recs; entry H ty.
Qed.

Lemma n_session_uplink_valid ty p idx u :
  fitsb 32 (pd_tun_ip p) = true -> fitsb 32 (pd_teid p) = true -> fitsb 32 idx = true ->
  tbl I C ty (n_session_uplink p idx) = Some u -> valid u.
Proof. intros H1 H2 H3 H. recs. entry H ty. Qed.

Lemma n_session_downlink_valid ty p idx peer b u :
  fitsb 32 (pd_ue p) = true -> fitsb 32 idx = true -> fitsb 8 peer = true ->
  tbl I C ty (n_session_downlink p idx peer b) = Some u -> valid u.
Proof. intros H1 H2 H3 H. recs. destruct b; entry H ty. Qed.

Lemma n_termination_uplink_valid ty ue p idx drop app_id tc q u :
  fitsb 32 ue = true -> fitsb 8 app_id = true -> fitsb 32 (pd_ctr p) = true -> fitsb 2 tc = true -> fitsb 32 idx = true ->
  tbl I C ty (n_termination_uplink ue p idx drop app_id tc q) = Some u -> valid u.
Proof.
  intros H1 H2 H3 H4 H5 H. unfold n_termination_uplink in H.
  destruct (drop || (qr_ul_status q =? gate_closed)); recs; entry H ty.
Qed.

Lemma n_termination_downlink_valid ty ue p idx f app_id qfi tc q u :
  fitsb 32 ue = true -> fitsb 8 app_id = true -> fitsb 32 (pd_ctr p) = true -> fitsb 2 tc = true -> fitsb 32 idx = true ->
  fitsb 32 (fr_teid f) = true -> fitsb 6 qfi = true ->
  tbl I C ty (n_termination_downlink ue p idx f app_id qfi tc q) = Some u -> valid u.
Proof.
  intros H1 H2 H3 H4 H5 H6 H7 H. unfold n_termination_downlink in H.
  destruct (far_drops f || (qr_dl_status q =? gate_closed)); recs; entry H ty.
Qed.

Lemma n_tunnel_peer_valid ty peer src dst port u :
  fitsb 8 peer = true -> fitsb 32 src = true -> fitsb 32 dst = true -> fitsb 16 port = true ->
  tbl I C ty (n_tunnel_peer peer src dst port) = Some u -> valid u.
Proof. intros H1 H2 H3 H4 H. entry H ty. Qed.

(* ------------------------------------------------------------------ meters and counters *)
Definition meter_size (ident : string) : N :=
  match const_id C "Meter" ident with
  | Some id => match meter_by_id I id with Some m => s_size m | None => 0 end
  | None => 0
  end.
Definition counter_size (ident : string) : N :=
  match const_id C "Counter" ident with
  | Some id => match counter_by_id I id with Some m => s_size m | None => 0 end
  | None => 0
  end.

Lemma meter_upd_valid ident cell cfg u :
  In ident ["PreQosPipeAppMeter"; "PreQosPipeSessionMeter"; "PreQosPipeSliceTcMeter"]%string ->
  cell < meter_size ident -> meter_upd C ident cell cfg = Some u -> valid u.
Proof.
  intros Hin Hc H. unfold valid.
  cbn [In] in Hin. destruct Hin as [<-|[<-|[<-|[]]]];
    (apply index_intro in Hc; cbv -[index_okb] in Hc; cbv in H; inversion H; subst; clear H;
     cbv -[index_okb]; exact Hc).
Qed.

Lemma counter_upd_valid ident cell u :
  In ident ["PreQosPipePreQosCounter"; "PostQosPipePostQosCounter"]%string ->
  cell < counter_size ident -> counter_upd C ident cell = Some u -> valid u.
Proof.
  intros Hin Hc H. unfold valid.
  cbn [In] in Hin. destruct Hin as [<-|[<-|[]]];
    (apply index_intro in Hc; cbv -[index_okb] in Hc; cbv in H; inversion H; subst; clear H;
     cbv -[index_okb]; exact Hc).
Qed.

(* ------------------------------------------------------------------ batches *)
Lemma all_some_Forall {A} (P : A -> Prop) (l : list (option A)) us :
  all_some l = Some us -> (forall o u, In o l -> o = Some u -> P u) -> Forall P us.
Proof.
  revert us. induction l as [|o l IH]; intros us H HP; cbn in H.
  - inversion H. constructor.
  - destruct o as [x|]; [|discriminate]. destruct (all_some l) as [r|] eqn:E; cbn in H; [|discriminate].
    inversion H; subst. constructor.
    + apply (HP (Some x)); [now left|reflexivity].
    + apply IH; [reflexivity|]. intros o u Hin. apply HP. now right.
Qed.

(* ---- envelope ---- *)
Definition u8 (n : N) := n < 2 ^ 8.
Definition u16 (n : N) := n < 2 ^ 16.
Definition u32 (n : N) := n < 2 ^ 32.

Record cfg_env (c : config) : Prop := {
  ce_slice : cf_slice c <= 15;
  ce_tc : cf_default_tc c <= 3;
  ce_map : Forall (fun kv => snd kv <= 3) (cf_qfi_tc c);
  ce_n3 : u32 (cf_n3 c); ce_n3_plen : cf_n3_plen c <= 32; ce_n3_net : cf_n3 c mod 2 ^ (32 - cf_n3_plen c) = 0;
  ce_pool : u32 (cf_pool c); ce_pool_plen : cf_pool_plen c <= 32; ce_pool_net : cf_pool c mod 2 ^ (32 - cf_pool_plen c) = 0 }.

Record af_env (a : app_filter) : Prop := {
  ae_src : u32 (af_src_ip a); ae_dst : u32 (af_dst_ip a);
  ae_smask : u32 (af_src_mask a); ae_dmask : u32 (af_dst_mask a);
  ae_snet : N.land (af_src_ip a) (af_src_mask a) = af_src_ip a;      (* net.ParseCIDR: address already masked *)
  ae_dnet : N.land (af_dst_ip a) (af_dst_mask a) = af_dst_ip a;
  ae_sports : pr_lo (af_src_ports a) <= pr_hi (af_src_ports a) /\ u16 (pr_hi (af_src_ports a));
  ae_dports : pr_lo (af_dst_ports a) <= pr_hi (af_dst_ports a) /\ u16 (pr_hi (af_dst_ports a));
  ae_proto : u8 (af_proto_mask a) /\ N.land (af_proto a) (af_proto_mask a) = af_proto a }.

Record pdr_env (p : pdr) : Prop := {
  pe_prec : pd_prec p <= 65535;
  pe_tun : u32 (pd_tun_ip p); pe_teid : u32 (pd_teid p); pe_ue : u32 (pd_ue p);
  pe_ctr : u32 (pd_ctr p);
  pe_af : af_env (pd_af p) }.

Record far_env (f : far) : Prop := { fe_dst : u32 (fr_tun_dst f); fe_teid : u32 (fr_teid f); fe_port : u16 (fr_port f) }.
Definition qer_env (q : qer) : Prop := qr_qfi q < 64.
Record oracle_env (o : pdr_oracle) : Prop := {
  oe_peer : u8 (po_peer o); oe_app : u8 (po_app_id o); oe_ue : u32 (po_ue o);
  oe_sess : u32 (mc_ul (po_sess o)) /\ u32 (mc_dl (po_sess o));
  oe_appm : u32 (mc_ul (po_app o)) /\ u32 (mc_dl (po_app o)) }.

(* the one refuted shape (F25): precedence 65535 together with an application filter *)
Definition prec_guard (p : pdr) : bool := (pd_prec p <? 65535) || app_filter_empty p.

Lemma tc_lookup_bound m qfi t : Forall (fun kv => snd kv <= 3) m -> tc_lookup m qfi = Some t -> t <= 3.
Proof.
  induction m as [|[k v] m IH]; cbn; [discriminate|]. intros HF. inversion HF; subst.
  destruct (k =? qfi); [intros E; inversion E; subst; assumption|now apply IH].
Qed.

Lemma app_ip_env p : af_env (pd_af p) ->
  lpm_okb 32 (fst (app_ip p)) (app_prefix_len (snd (app_ip p))) = true.
Proof.
  intros [Hs Hd Hsm Hdm Hsn Hdn _ _ _]. unfold app_ip.
  destruct (pd_src_iface p =? access); [apply app_lpm_ok; assumption|].
  destruct (pd_src_iface p =? core); [apply app_lpm_ok; assumption|].
  cbn [fst snd]. apply app_lpm_ok; [unfold u32 in *; lia|lia|reflexivity].
Qed.

Lemma app_ports_env p : af_env (pd_af p) ->
  range_okb 16 (pr_lo (app_ports p)) (pr_hi (app_ports p)) = true.
Proof.
  intros [_ _ _ _ _ _ [Hs1 Hs2] [Hd1 Hd2] _]. unfold app_ports.
  destruct (pd_src_iface p =? access); [apply range_intro; assumption|].
  destruct (pd_src_iface p =? core); [apply range_intro; assumption|].
  cbn [pr_lo pr_hi]. apply range_intro; lia.
Qed.

Theorem w_pdr_valid ty c p f q o us :
  cfg_env c -> pdr_env p -> far_env f -> (forall x, q = Some x -> qer_env x) -> oracle_env o ->
  prec_guard p = true ->
  w_pdr I C ty c p f q o = Some us -> Forall valid us.
Proof.
  intros [Hsl Htc Hmap _ _ _ _ _ _] [Hprec Htun Hteid Hue Hctr Haf] [_ Hfteid _] Hq [Hpeer Happ Houe [Hs1 Hs2] [Ha1 Ha2]] Hg H.
  unfold w_pdr in H.
  destruct (max_uint16 <? pd_prec p); [discriminate|].
  destruct (negb (po_peer_exists o) && negb (fr_teid f =? 0)); [discriminate|].
  set (sess := match pd_qers p with [_; _] => po_sess o | _ => MC 0 0 end) in H.
  set (appm := match pd_qers p with [] => MC 0 0 | _ => po_app o end) in H.
  set (ue := if pd_src_iface p =? access then po_ue o else pd_ue p) in H.
  set (app_id := if app_filter_empty p then 0 else po_app_id o) in H.
  set (rq := match q with Some x => x | None => zero_qer end) in H.
  set (qfi := match q with Some x => qr_qfi x | None => default_qfi end) in H.
  set (tc := match tc_lookup (cf_qfi_tc c) (qr_qfi rq) with Some t => t | None => cf_default_tc c end) in H.
  assert (Fsess : fitsb 32 (mc_ul sess) = true /\ fitsb 32 (mc_dl sess) = true).
  { subst sess. destruct (pd_qers p) as [|? [|? [|? ?]]]; split; apply fitsb_lt; cbn; unfold u32 in *; lia. }
  assert (Fappm : fitsb 32 (mc_ul appm) = true /\ fitsb 32 (mc_dl appm) = true).
  { subst appm. destruct (pd_qers p); split; apply fitsb_lt; cbn; unfold u32 in *; lia. }
  assert (Fue : fitsb 32 ue = true).
  { subst ue. destruct (pd_src_iface p =? access); apply fitsb_lt; assumption. }
  assert (Fapp : fitsb 8 app_id = true).
  { subst app_id. destruct (app_filter_empty p); apply fitsb_lt; [lia|assumption]. }
  assert (Fqfi : fitsb 6 qfi = true).
  { subst qfi. destruct q as [x|]; apply fitsb_lt; [apply (Hq x eq_refl)|cbv; reflexivity]. }
  assert (Ftc : fitsb 2 tc = true).
  { subst tc. apply fitsb_lt. change (2 ^ 2) with 4.
    destruct (tc_lookup (cf_qfi_tc c) (qr_qfi rq)) eqn:E; [apply tc_lookup_bound in E; [lia|assumption]|lia]. }
  destruct Fsess as [Fs1 Fs2]. destruct Fappm as [Fa1 Fa2].
  destruct (n_session p sess (po_peer o) (far_buffers f)) as [s|] eqn:Es; [|discriminate].
  destruct (n_termination ue p appm f app_id qfi tc rq) as [t|] eqn:Et; [|discriminate].
  eapply all_some_Forall; [exact H|]. clear H.
  intros ou u Hin Hou. subst ou.
  apply in_app_or in Hin. destruct Hin as [Hin|Hin].
  - (* sessions entry *)
    destruct Hin as [Hin|[]]. unfold n_session in Es.
    destruct (pd_src_iface p =? access).
    + inversion Es; subst s. eapply n_session_uplink_valid; [| | |exact Hin]; first [assumption | apply fitsb_lt; assumption].
    + destruct (pd_src_iface p =? core); [|discriminate]. inversion Es; subst s.
      eapply n_session_downlink_valid; [| | |exact Hin]; first [assumption | apply fitsb_lt; assumption].
  - apply in_app_or in Hin. destruct Hin as [Hin|Hin].
    + (* applications entry *)
      destruct (negb (app_filter_empty p) && po_app_entry o) eqn:Ea; [|destruct Hin].
      destruct Hin as [Hin|[]]. unfold n_application in Hin.
      apply andb_true_iff in Ea. destruct Ea as [Ea _]. apply negb_true_iff in Ea.
      unfold prec_guard in Hg. rewrite Ea in Hg. rewrite orb_false_r in Hg. apply N.ltb_lt in Hg.
      eapply n_application_valid; [| | | | | |exact Hin].
      * now apply app_ip_env.
      * now apply app_ports_env.
      * destruct Haf. apply tern_intro; tauto.
      * assumption.
      * apply fitsb_lt. change (2 ^ 4) with 16. lia.
      * apply fitsb_lt. assumption.
    + (* terminations entry *)
      destruct Hin as [Hin|[]]. unfold n_termination in Et.
      destruct (pd_src_iface p =? access).
      * inversion Et; subst t.
        eapply n_termination_uplink_valid; [| | | | |exact Hin]; first [assumption | apply fitsb_lt; assumption].
      * destruct (pd_src_iface p =? core); [|discriminate]. inversion Et; subst t.
        eapply n_termination_downlink_valid; [| | | | | | |exact Hin]; first [assumption | apply fitsb_lt; assumption].
Qed.

(* under the envelope the PDR batch is produced (no name fails to resolve): non-vacuity of the theorem above *)
Ltac resolves := eexists; cbv -[N.sub N.add N.mul N.modulo N.land N.pow N.ltb N.leb N.eqb tz32 app_prefix_len]; reflexivity.

Lemma all_some_some {A} (l : list (option A)) :
  (forall o, In o l -> exists u, o = Some u) -> exists us, all_some l = Some us /\ List.length us = List.length l.
Proof.
  induction l as [|o l IH]; intros H; cbn.
  - exists []. split; reflexivity.
  - destruct (H o (or_introl eq_refl)) as [u ->].
    destruct IH as [us [E L]]; [intros o' Hin; apply H; now right|].
    rewrite E. cbn. exists (u :: us). split; [reflexivity|cbn; now rewrite L].
Qed.

Lemma n_application_resolves ty ip mask ports proto pmask prec slice app_id :
  exists u, tbl I C ty (n_application_raw ip mask ports proto pmask prec slice app_id) = Some u.
Proof.
  unfold n_application_raw.
  destruct (0 <? app_prefix_len mask), (is_wildcard ports), (negb (proto =? 0) && negb (pmask =? 0)); resolves.
Qed.
Lemma n_session_uplink_resolves ty p idx : exists u, tbl I C ty (n_session_uplink p idx) = Some u.
Proof. resolves. Qed.
Lemma n_session_downlink_resolves ty p idx peer b : exists u, tbl I C ty (n_session_downlink p idx peer b) = Some u.
Proof. destruct b; resolves. Qed.
Lemma n_termination_uplink_resolves ty ue p idx drop app_id tc q :
  exists u, tbl I C ty (n_termination_uplink ue p idx drop app_id tc q) = Some u.
Proof. unfold n_termination_uplink. destruct (drop || (qr_ul_status q =? gate_closed)); resolves. Qed.
Lemma n_termination_downlink_resolves ty ue p idx f app_id qfi tc q :
  exists u, tbl I C ty (n_termination_downlink ue p idx f app_id qfi tc q) = Some u.
Proof. unfold n_termination_downlink. destruct (far_drops f || (qr_dl_status q =? gate_closed)); resolves. Qed.

Theorem w_pdr_total ty c p f q o :
  (pd_src_iface p = access \/ pd_src_iface p = core) -> pd_prec p <= 65535 ->
  (po_peer_exists o = true \/ fr_teid f = 0) ->
  exists us, w_pdr I C ty c p f q o = Some us /\ (2 <= List.length us <= 3)%nat.
Proof.
  intros Hi Hp He. unfold w_pdr.
  replace (max_uint16 <? pd_prec p) with false by (symmetry; apply N.ltb_ge; exact Hp).
  replace (negb (po_peer_exists o) && negb (fr_teid f =? 0)) with false
    by (destruct He as [->| ->]; [reflexivity|now rewrite andb_false_r]).
  unfold n_session, n_termination.
  destruct Hi as [-> | ->]; cbn [N.eqb access core Pos.eqb];
    (match goal with
     | |- exists us, all_some ?l = Some us /\ _ =>
       destruct (all_some_some l) as [us [E L]];
         [|exists us; split; [exact E|rewrite L; rewrite !app_length; cbn [List.length];
                                       destruct (negb (app_filter_empty p) && po_app_entry o); cbn [List.length]; lia]]
     end);
    (intros x Hin; apply in_app_or in Hin; destruct Hin as [[<-|[]]|Hin];
     [|apply in_app_or in Hin; destruct Hin as [Hin|[<-|[]]];
       [destruct (negb (app_filter_empty p) && po_app_entry o); [destruct Hin as [<-|[]]|destruct Hin]|]]).
  - apply n_session_uplink_resolves.
  - apply n_application_resolves.
  - apply n_termination_uplink_resolves.
  - apply n_session_downlink_resolves.
  - apply n_application_resolves.
  - apply n_termination_downlink_resolves.
Qed.

Theorem w_interfaces_valid c us : cfg_env c -> w_interfaces I C c = Some us -> Forall valid us.
Proof.
  intros [Hsl _ _ Hn Hnp Hnn Hp Hpp Hpn] H. unfold w_interfaces in H.
  eapply all_some_Forall; [exact H|]. intros o u Hin ->.
  assert (Fs : fitsb 4 (cf_slice c) = true) by (apply fitsb_lt; change (2 ^ 4) with 16; lia).
  destruct Hin as [Hin|[Hin|[]]]; (eapply n_interface_valid; [| |exact Hin]; [apply lpm_intro; assumption|exact Fs]).
Qed.

Theorem w_tunnel_peer_valid ty c f peer us :
  cfg_env c -> far_env f -> u8 peer -> w_tunnel_peer I C ty c f peer = Some us -> Forall valid us.
Proof.
  intros Hc [Hd _ Hp] Hpeer H. unfold w_tunnel_peer in H.
  eapply all_some_Forall; [exact H|]. intros o u Hin ->. destruct Hin as [Hin|[]].
  eapply n_tunnel_peer_valid; [| | | |exact Hin]; apply fitsb_lt; try assumption. apply Hc.
Qed.

Theorem w_slice_valid c us : cfg_env c -> w_slice C c = Some us -> Forall valid us.
Proof.
  intros [Hsl Htc _ _ _ _ _ _ _] H. unfold w_slice in H.
  destruct (slice_tc_index C (cf_slice c) (cf_default_tc c)) as [k|] eqn:E; [|discriminate].
  eapply all_some_Forall; [exact H|]. intros o u Hin ->. destruct Hin as [Hin|[]].
  eapply meter_upd_valid; [| |exact Hin]; [cbn; tauto|].
  unfold slice_tc_index in E.
  set (s := cf_slice c) in *. set (t := cf_default_tc c) in *. clearbody s t.
  cbv -[N.leb N.mul N.modulo N.land N.add orb] in E.
  destruct ((16 <=? s) || (4 <=? t)); [discriminate|]. apply some_inj in E. subst k.
  change (meter_size "PreQosPipeSliceTcMeter") with 64.
  assert (N.land t 3 <= 3).
  { change 3 with (N.ones 2) at 1. rewrite N.land_ones. change (2 ^ 2) with 4.
    assert (t mod 4 < 4) by (apply N.mod_lt; lia). lia. }
  assert (E : (s * 4) mod 256 = s * 4) by (apply N.mod_small; lia).
  rewrite E. rewrite N.mod_small; lia.
Qed.

Theorem w_counter_reset_valid ctr us :
  ctr < counter_size "PreQosPipePreQosCounter" -> ctr < counter_size "PostQosPipePostQosCounter" ->
  w_counter_reset C ctr = Some us -> Forall valid us.
Proof.
  intros H1 H2 H. unfold w_counter_reset in H.
  eapply all_some_Forall; [exact H|]. intros o u Hin ->.
  destruct Hin as [Hin|[Hin|[]]]; (eapply counter_upd_valid; [| |exact Hin]; [cbn; tauto|assumption]).
Qed.

(* cells handed out by initMetersPools: 1 .. size-1 of the meter the QER level selects *)
Definition level_meter_size (level : N) : N := meter_size (meter_ident level).

Theorem w_meter_config_valid level m us :
  mc_ul m < level_meter_size level -> mc_dl m < level_meter_size level ->
  w_meter_config C level m = Some us -> Forall valid us.
Proof.
  intros H1 H2 H. unfold w_meter_config in H. unfold level_meter_size, meter_ident in *.
  destruct (level =? app_qos).
  - eapply all_some_Forall; [exact H|]. intros o u Hin ->. apply in_app_or in Hin.
    destruct Hin as [Hin|Hin].
    + destruct (mc_ul m =? 0); [destruct Hin|]. destruct Hin as [Hin|[]].
      eapply meter_upd_valid; [| |exact Hin]; [cbn; tauto|assumption].
    + destruct (mc_dl m =? mc_ul m); [destruct Hin|]. destruct Hin as [Hin|[]].
      eapply meter_upd_valid; [| |exact Hin]; [cbn; tauto|assumption].
  - destruct (level =? session_qos); [|discriminate].
    eapply all_some_Forall; [exact H|]. intros o u Hin ->.
    destruct Hin as [Hin|[Hin|[]]]; (eapply meter_upd_valid; [| |exact Hin]; [cbn; tauto|assumption]).
Qed.

Theorem w_meter_reset_valid level m us :
  mc_ul m < level_meter_size level -> mc_dl m < level_meter_size level ->
  w_meter_reset C level m = Some us -> Forall valid us.
Proof.
  intros H1 H2 H. unfold w_meter_reset in H. unfold level_meter_size in *.
  eapply all_some_Forall; [exact H|]. intros o u Hin ->.
  assert (Hid : In (meter_ident level) ["PreQosPipeAppMeter"; "PreQosPipeSessionMeter"; "PreQosPipeSliceTcMeter"]%string).
  { unfold meter_ident. destruct (level =? app_qos); cbn; tauto. }
  destruct Hin as [Hin|Hin].
  - eapply meter_upd_valid; [exact Hid| |exact Hin]. assumption.
  - destruct (mc_dl m =? mc_ul m); [destruct Hin|]. destruct Hin as [Hin|[]].
    eapply meter_upd_valid; [exact Hid| |exact Hin]. assumption.
Qed.

(* ------------------------------------------------------------------ all writes of the plug-in, one statement *)
Inductive wevent :=
| WInterfaces (c : config)                                        (* initInterfaces *)
| WSlice (c : config)                                             (* AddSliceInfo *)
| WCounter (ctr : N)                                              (* resetCounter *)
| WMeterConfig (level : N) (m : meter_cells)                      (* configureApplicationMeter / configureSessionMeter *)
| WMeterReset (level : N) (m : meter_cells)                       (* resetMeter *)
| WPeer (ty : utype) (c : config) (f : far) (peer : N)            (* addOrUpdateGTPTunnelPeer / removeGTPTunnelPeer *)
| WPdr (ty : utype) (c : config) (p : pdr) (f : far) (q : option qer) (o : pdr_oracle).   (* modifyUP4ForwardingConfiguration *)

Definition writes_of (e : wevent) : option (list update) :=
  match e with
  | WInterfaces c => w_interfaces I C c
  | WSlice c => w_slice C c
  | WCounter ctr => w_counter_reset C ctr
  | WMeterConfig l m => w_meter_config C l m
  | WMeterReset l m => w_meter_reset C l m
  | WPeer ty c f peer => w_tunnel_peer I C ty c f peer
  | WPdr ty c p f q o => w_pdr I C ty c p f q o
  end.

(* the envelope of the property's quantifier; pool sizes come from the generated P4Info *)
Definition envelope (e : wevent) : Prop :=
  match e with
  | WInterfaces c | WSlice c => cfg_env c
  | WCounter ctr => ctr < counter_size "PreQosPipePreQosCounter" /\ ctr < counter_size "PostQosPipePostQosCounter"
  | WMeterConfig l m | WMeterReset l m => mc_ul m < level_meter_size l /\ mc_dl m < level_meter_size l
  | WPeer _ c f peer => cfg_env c /\ far_env f /\ u8 peer
  | WPdr _ c p f q o => cfg_env c /\ pdr_env p /\ far_env f /\ (forall x, q = Some x -> qer_env x) /\ oracle_env o
  end.

Definition guard (e : wevent) : bool :=
  match e with WPdr _ _ p _ _ _ => prec_guard p | _ => true end.

Theorem all_writes_valid e us : envelope e -> guard e = true -> writes_of e = Some us -> Forall valid us.
Proof.
  destruct e; cbn [envelope guard writes_of]; intros He Hg H.
  - now apply w_interfaces_valid with c.
  - now apply w_slice_valid with c.
  - destruct He. now apply w_counter_reset_valid with ctr.
  - destruct He. now apply w_meter_config_valid with level m.
  - destruct He. now apply w_meter_reset_valid with level m.
  - destruct He as (? & ? & ?). now apply w_tunnel_peer_valid with ty c f peer.
  - destruct He as (? & ? & ? & ? & ?). now apply w_pdr_valid with ty c p f q o.
Qed.

(* F25: precedence 65535 with an application filter -> priority 0 on the ternary/range table `applications` *)
Definition f25_cfg : config := Cfg 0 0 [] 3323068417 32 184156160 16.
Definition f25_pdr : pdr :=
  Pdr access 3323068417 1 0 (AF 0 0 (PR 0 65535) (PR 80 80) 0 0 0 0) 65535 1 0 1 [].
Definition f25_far : far := Far 1 1 action_forward 0 0 0.
Definition f25_oracle : pdr_oracle := PO false 0 (MC 0 0) (MC 0 0) 184156161 1 true.
Definition f25_event : wevent := WPdr UInsert f25_cfg f25_pdr f25_far None f25_oracle.

Lemma f25_envelope : envelope f25_event.
Proof.
  cbn [envelope f25_event]. repeat split; cbn; unfold u8, u16, u32; try lia; try reflexivity;
    try (constructor); try discriminate.
Qed.

Theorem all_writes_valid_refuted :
  exists e us, envelope e /\ writes_of e = Some us /\ ~ Forall valid us.
Proof.
  exists f25_event. eexists. split; [exact f25_envelope|]. split; [vm_compute; reflexivity|].
  intros HF. inversion HF as [|? ? _ HF2]; subst. inversion HF2 as [|? ? Hbad _]; subst.
  vm_compute in Hbad. discriminate.
Qed.

(* the guard is inhabited by non-trivial cases: precedence 65534 with the same filter, and 65535 without filter *)
Lemma guard_inhabited :
  exists us, writes_of (WPdr UInsert f25_cfg (Pdr access 3323068417 1 0 (AF 0 0 (PR 0 65535) (PR 80 80) 0 0 0 0) 65534 1 0 1 [])
                            f25_far None f25_oracle) = Some us /\ List.length us = 3%nat /\ Forall valid us.
Proof.
  eexists. split; [vm_compute; reflexivity|]. split; [reflexivity|].
  repeat constructor; vm_compute; reflexivity.
Qed.
