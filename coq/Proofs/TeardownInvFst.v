(* C10 - one step of the RFst thread of an association preserves the association invariant *)
From Coq Require Import NArith String List Bool Arith Lia.
From UPF Require Import Base.LTS Model.Teardown Proofs.TeardownInv.
Import ListNotations.
Open Scope list_scope.

Lemma ainv_step_fst sess me alt nd a nd' a' t' :
  AInv sess a ->
  thread_step me RFst alt nd a (get_thr a RFst) = Ok (nd', a', t') ->
  AInv sess (set_thr a' RFst t').
Proof.
  intros Hinv H.
  destruct a as [st de on sh tm hb so ib ta ha rd se ht fs].
  destruct Hinv as (Hrd & Hsel & Hhb & Hfst & Hd & Htmo). cbn in H.
  destruct on as [|r0|]; [home_script fs Hfst | destruct r0 | home_script fs Hfst];
    [home_script fs Hfst | home_script fs Hfst | home_script fs Hfst | do_script fs Hfst | | ];
    unfold Data in Hd; cbn in Hd; destruct Hd; discriminate.
Qed.
