(* C10 - one step of the RFst thread of an association: the association invariant is preserved, the node is
   changed only inside its frame, and the only possible panic is the send on a closed pConnDone *)
From Coq Require Import NArith String List Bool Arith Lia.
From UPF Require Import Base.LTS Model.Teardown Proofs.TeardownInv.
Import ListNotations.
Open Scope list_scope.

Ltac phase_unfold ::= unfold crt_t, bg_t, early_t in *; cbn in *.

Lemma step_fst sess me alt nd a res :
  AInv sess a ->
  thread_step me RFst alt nd a (get_thr a RFst) = res ->
  match res with
  | Ok (nd', a', t') => (AInv sess (set_thr a' RFst t') /\ delta me RFst a nd nd' (set_thr a' RFst t')) /\ node_frame nd nd'
  | Blocked => True
  | Panic site => cclosed (n_pcd nd) = true /\ site = "send on closed channel"%string /\ at_pc a RFst FDo 6 = true
  end.
Proof.
  intros Hinv H.
  destruct a as [st de on sh tm hb so ib ta ha hr hm ins rd se ht fs].
  destruct nd as [cx pc dn ls mp ex bu mn np nn cr en th sp pe].
  destruct Hinv as (Hrd & Hsel & Hhb & Hfst & Hd & Htmo & Hhbok & Hlife & Hinst & Hrdok). cbn in H.
  destruct res as [[[nd' a'] t']| |site]; [ | exact I | ].
  - split.
    + destruct on as [|r0|]; [home_script fs Hfst | destruct r0 | home_script fs Hfst];
        [home_script fs Hfst | home_script fs Hfst | home_script fs Hfst | do_script fs Hfst | | | ];
        unfold Data in Hd; cbn in Hd; destruct Hd; discriminate.
    + unfold node_frame. clear Hd Htmo Hhbok Hlife Hinst Hrdok.
      destruct fs as [rst rfn rpc rret rit]. unfold fn_ok in Hfst; cbn in Hfst.
      destruct Hfst as [[? _]|[? [_ ?]]]; subst rfn; unfold thread_step in H; cbn in H;
        (destruct rst; try discriminate H); do 9 (try destruct rpc as [|rpc]); cbn in H; try discriminate H;
        unfold ch_close, ch_send, ch_cancel, ch_recv in H; inv_ok; repeat split; intros; congruence.
  - panic_script fs Hfst.
Qed.
