(* Lemmas about Model/Config.v: what a successfully loaded configuration satisfies, for every
   document and every behaviour of the external parsers. *)
From Coq Require Import Ascii String List Bool NArith ZArith Lia.
From UPF Require Import Model.Config.
Import ListNotations.
Open Scope string_scope.

Section Proofs.
  Variable dur_ok : string -> bool.
  Variable cidr_ok : string -> bool.
  Variable ip_ok : string -> bool.
  Variable level_of : string -> option Z.

  Notation load := (load dur_ok cidr_ok ip_ok level_of).
  Notation decode := (decode ip_ok level_of).
  Notation validate := (validate dur_ok cidr_ok ip_ok).
  Notation validate_common := (validate_common dur_ok cidr_ok ip_ok).
  Notation step_top := (step_top ip_ok level_of).
  Notation step_cp := (step_cp ip_ok level_of).
  Notation step_p4 := (step_p4 ip_ok level_of).
  Notation apply_top := (apply_top ip_ok level_of).

  (* ------------------------------------------------------------------ the property, as Props *)
  Definition defaults_filled (c : conf) : Prop :=
    resp_timeout c <> "" /\ read_timeout c <> 0%N /\ max_req_retries c <> 0%N /\
    (enable_hb c = true -> hb_interval c <> "").
  Definition durations_ok (c : conf) : Prop :=
    dur_ok (resp_timeout c) = true /\ (enable_hb c = true -> dur_ok (hb_interval c) = true).
  Definition mode_ok (c : conf) : Prop :=
    if enable_p4rt c then mode c = "" else In (mode c) supported_modes.
  Definition addresses_ok (c : conf) : Prop :=
    (enable_p4rt c = true -> cidr_ok (access_ip c) = true /\ cidr_ok (ue_ip_pool c) = true) /\
    (enable_ue_ip_alloc c = true -> cidr_ok (ue_ip_pool c) = true) /\
    Forall (fun p => ip_ok p = true) (peers c).

  (* ------------------------------------------------------------------ fill *)
  Ltac split_ifs :=
    repeat match goal with
           | |- context [if ?b then _ else _] => destruct b eqn:?; cbn in *
           end.
  Ltac fill_cases raw :=
    unfold fill;
    destruct (String.eqb (resp_timeout raw) "") eqn:?; cbn;
    destruct (read_timeout raw =? 0)%N eqn:?; cbn;
    destruct (max_req_retries raw =? 0)%N eqn:?; cbn;
    destruct (enable_hb raw) eqn:?; cbn;
    try (destruct (String.eqb (hb_interval raw) "") eqn:?; cbn).

  Lemma fill_resp raw : resp_timeout (fill raw) =
    if String.eqb (resp_timeout raw) "" then resp_timeout_default else resp_timeout raw.
  Proof. fill_cases raw; try reflexivity; congruence. Qed.

  Lemma fill_read raw : read_timeout (fill raw) =
    if (read_timeout raw =? 0)%N then read_timeout_default else read_timeout raw.
  Proof. fill_cases raw; try reflexivity; congruence. Qed.

  Lemma fill_retries raw : max_req_retries (fill raw) =
    if (max_req_retries raw =? 0)%N then max_req_retries_default else max_req_retries raw.
  Proof. fill_cases raw; try reflexivity; congruence. Qed.

  Lemma fill_hb raw : hb_interval (fill raw) =
    if enable_hb raw then if String.eqb (hb_interval raw) "" then hb_interval_default else hb_interval raw
    else hb_interval raw.
  Proof. fill_cases raw; try reflexivity; congruence. Qed.

  Lemma fill_frame raw :
    mode (fill raw) = mode raw /\ enable_p4rt (fill raw) = enable_p4rt raw /\
    access_ip (fill raw) = access_ip raw /\ default_tc (fill raw) = default_tc raw /\
    peers (fill raw) = peers raw /\ enable_ue_ip_alloc (fill raw) = enable_ue_ip_alloc raw /\
    ue_ip_pool (fill raw) = ue_ip_pool raw /\ log_level (fill raw) = log_level raw /\
    enable_hb (fill raw) = enable_hb raw.
  Proof. unfold peers. fill_cases raw; repeat split; try reflexivity; congruence. Qed.

  Lemma fill_defaults raw : defaults_filled (fill raw).
  Proof.
    unfold defaults_filled. rewrite fill_resp, fill_read, fill_retries, fill_hb.
    destruct (fill_frame raw) as (_ & _ & _ & _ & _ & _ & _ & _ & ->).
    repeat split.
    - destruct (String.eqb_spec (resp_timeout raw) ""); [discriminate|assumption].
    - destruct (N.eqb_spec (read_timeout raw) 0); [discriminate|assumption].
    - destruct (N.eqb_spec (max_req_retries raw) 0); [discriminate|assumption].
    - intros ->. destruct (String.eqb_spec (hb_interval raw) ""); [discriminate|assumption].
  Qed.

  (* ------------------------------------------------------------------ validate *)
  Lemma mode_supported_in m : mode_supported m = true -> In m supported_modes.
  Proof.
    unfold mode_supported. intros H. apply existsb_exists in H. destruct H as (x & Hin & Hx).
    apply String.eqb_eq in Hx. subst. exact Hin.
  Qed.

  Lemma validate_common_none c : validate_common c = None ->
    (enable_ue_ip_alloc c = true -> cidr_ok (ue_ip_pool c) = true) /\
    Forall (fun p => ip_ok p = true) (peers c) /\
    dur_ok (resp_timeout c) = true /\
    (enable_hb c = true -> dur_ok (hb_interval c) = true).
  Proof.
    unfold Config.validate_common.
    destruct (enable_ue_ip_alloc c && negb (cidr_ok (ue_ip_pool c))) eqn:E1; [discriminate|].
    destruct (existsb (fun p => negb (ip_ok p)) (peers c)) eqn:E2; [discriminate|].
    destruct (negb (dur_ok (resp_timeout c))) eqn:E3; [discriminate|].
    destruct (read_timeout c =? 0)%N; [discriminate|].
    destruct (max_req_retries c =? 0)%N; [discriminate|].
    destruct (enable_hb c && negb (dur_ok (hb_interval c))) eqn:E6; [discriminate|].
    intros _. repeat split.
    - intros Ha. rewrite Ha in E1. cbn in E1. now apply negb_false_iff in E1.
    - apply Forall_forall. intros p Hp.
      destruct (ip_ok p) eqn:Ep; [reflexivity|].
      assert (existsb (fun p => negb (ip_ok p)) (peers c) = true) as X.
      { apply existsb_exists. exists p. split; [exact Hp|]. now rewrite Ep. }
      congruence.
    - now apply negb_false_iff in E3.
    - intros Hh. rewrite Hh in E6. cbn in E6. now apply negb_false_iff in E6.
  Qed.

  Lemma validate_none c : validate c = None -> durations_ok c /\ mode_ok c /\ addresses_ok c.
  Proof.
    unfold Config.validate, durations_ok, mode_ok, addresses_ok.
    destruct (enable_p4rt c) eqn:Ep.
    - destruct (negb (cidr_ok (access_ip c))) eqn:E1; [discriminate|].
      destruct (negb (cidr_ok (ue_ip_pool c))) eqn:E2; [discriminate|].
      destruct (negb (String.eqb (mode c) "")) eqn:E3; [discriminate|].
      intros H. apply validate_common_none in H. destruct H as (A & B & C & D).
      apply negb_false_iff in E1, E2, E3. apply String.eqb_eq in E3. tauto.
    - destruct (negb (mode_supported (mode c))) eqn:E1; [discriminate|].
      intros H. apply validate_common_none in H. destruct H as (A & B & C & D).
      apply negb_false_iff in E1. apply mode_supported_in in E1.
      repeat split; try assumption; discriminate.
  Qed.

  (* the two zero checks of validateConf can never fire after the defaults were filled *)
  Lemma validate_zero_checks_dead raw :
    validate (fill raw) <> Some SReadTimeout /\ validate (fill raw) <> Some SMaxReqRetries.
  Proof.
    destruct (fill_defaults raw) as (_ & Hr & Hm & _).
    apply N.eqb_neq in Hr, Hm.
    unfold Config.validate, Config.validate_common. rewrite Hr, Hm.
    split; split_ifs; discriminate.
  Qed.

  (* ------------------------------------------------------------------ C18_validated *)
  Theorem load_validated : forall doc c, load doc = Ok c ->
    defaults_filled c /\ durations_ok c /\ mode_ok c /\ addresses_ok c.
  Proof.
    intros doc c H. unfold Config.load in H.
    destruct (decode doc) as [raw|]; [|discriminate].
    destruct (validate (fill raw)) eqn:E; [discriminate|].
    injection H as <-. split; [apply fill_defaults|]. apply validate_none. exact E.
  Qed.

  Theorem load_ok_shape : forall doc c, load doc = Ok c ->
    exists raw, decode doc = Some raw /\ c = fill raw /\ validate c = None.
  Proof.
    intros doc c H. unfold Config.load in H.
    destruct (decode doc) as [raw|]; [|discriminate].
    destruct (validate (fill raw)) eqn:E; [discriminate|].
    injection H as <-. exists raw. auto.
  Qed.

  (* the boolean form evaluated on the implementation's observations is the same statement *)
  Lemma validated_b_spec c : validated_b dur_ok cidr_ok ip_ok c = true <->
    defaults_filled c /\ durations_ok c /\ mode_ok c /\ addresses_ok c.
  Proof.
    unfold validated_b, defaults_filled_b, durations_ok_b, mode_ok_b, addresses_ok_b,
      defaults_filled, durations_ok, mode_ok, addresses_ok.
    rewrite !andb_true_iff, !orb_true_iff, !negb_true_iff, !andb_true_iff, forallb_forall, Forall_forall.
    rewrite N.eqb_neq, N.eqb_neq.
    assert (Hs : forall s, String.eqb s "" = false <-> s <> "").
    { intros s. destruct (String.eqb_spec s ""); split; congruence. }
    rewrite !Hs.
    assert (Hm : (if enable_p4rt c then String.eqb (mode c) "" else mode_supported (mode c)) = true <->
                 (if enable_p4rt c then mode c = "" else In (mode c) supported_modes)).
    { destruct (enable_p4rt c).
      - apply String.eqb_eq.
      - split; [apply mode_supported_in|]. intros Hin. unfold mode_supported. apply existsb_exists.
        exists (mode c). split; [exact Hin|apply String.eqb_refl]. }
    rewrite Hm.
    destruct (enable_hb c), (enable_p4rt c), (enable_ue_ip_alloc c); intuition congruence.
  Qed.

  Corollary load_validated_b : forall doc c, load doc = Ok c -> validated_b dur_ok cidr_ok ip_ok c = true.
  Proof. intros doc c H. apply validated_b_spec. eapply load_validated. exact H. Qed.

  (* ------------------------------------------------------------------ defaults survive *)
  (* the members outside cpiface / p4rtciface that the property mentions *)
  Definition scalars (c : conf) :=
    (resp_timeout c, read_timeout c, max_req_retries c, hb_interval c, log_level c).

  Lemma fold_opt_inv {A B} (P : A -> Prop) (f : A -> B -> option A) :
    (forall a b a', P a -> f a b = Some a' -> P a') ->
    forall l a a', P a -> fold_opt f a l = Some a' -> P a'.
  Proof.
    intros Hf. induction l as [|b l IH]; intros a a' Ha H; cbn in H.
    - injection H as <-. exact Ha.
    - destruct (f a b) as [a1|] eqn:E; [|discriminate]. eapply IH; [|exact H]. eapply Hf; eauto.
  Qed.

  Ltac inv_omap H :=
    match type of H with
    | omap _ ?o = Some _ => destruct o; cbn in H; [injection H as <-|discriminate H]
    end.

  Lemma dec_peers_frame v c c' : dec_peers v c = Some c' ->
    scalars c' = scalars c /\ default_tc c' = default_tc c.
  Proof.
    unfold dec_peers. destruct v as [| | | |l|]; try discriminate.
    - intros H. injection H as <-. split; reflexivity.
    - destruct l as [|j l]; [intros H; injection H as <-; split; reflexivity|].
      destruct (dec_elems (j :: l) (peers_back c)); [|discriminate].
      intros H. injection H as <-. split; reflexivity.
  Qed.

  Lemma step_cp_frame c p c' : step_cp c p = Some c' ->
    scalars c' = scalars c /\ default_tc c' = default_tc c.
  Proof.
    destruct p as [k v]. unfold Config.step_cp.
    destruct (lookup_name k cp_schema) as [[| | |t]|]; intros H.
    - eapply dec_peers_frame; eauto.
    - inv_omap H. split; reflexivity.
    - inv_omap H. split; reflexivity.
    - destruct (accepts ip_ok level_of t v); [injection H as <-; split; reflexivity|discriminate].
    - injection H as <-. split; reflexivity.
  Qed.

  Lemma step_p4_frame c p c' : step_p4 c p = Some c' -> scalars c' = scalars c.
  Proof.
    destruct p as [k v]. unfold Config.step_p4.
    destruct (lookup_name k p4_schema) as [[| |t]|]; intros H.
    - inv_omap H. reflexivity.
    - inv_omap H. reflexivity.
    - destruct (accepts ip_ok level_of t v); [injection H as <-; reflexivity|discriminate].
    - injection H as <-. reflexivity.
  Qed.

  Lemma dec_struct_inv (P : conf -> Prop) step :
    (forall a b a', P a -> step a b = Some a' -> P a') ->
    forall v c c', P c -> dec_struct step v c = Some c' -> P c'.
  Proof.
    intros Hs v c c' Hc H. destruct v; try discriminate; cbn in H.
    - injection H as <-. exact Hc.
    - eapply fold_opt_inv; eauto.
  Qed.

  (* one member of the top-level object: everything it does not name stays as it was *)
  Lemma apply_top_frame f v c c' : apply_top f v c = Some c' ->
    (is_FRespTimeout f = false -> resp_timeout c' = resp_timeout c) /\
    (is_FReadTimeout f = false -> read_timeout c' = read_timeout c) /\
    (is_FMaxReqRetries f = false -> max_req_retries c' = max_req_retries c) /\
    (is_FHBInterval f = false -> hb_interval c' = hb_interval c) /\
    (is_FLogLevel f = false -> log_level c' = log_level c) /\
    (is_FP4rtciface f = false -> default_tc c' = default_tc c).
  Proof.
    intros H. destruct f; cbn [Config.apply_top] in H;
      try (inv_omap H; repeat split; intros; try reflexivity; discriminate).
    - (* cpiface *)
      assert (X : scalars c' = scalars c /\ default_tc c' = default_tc c).
      { eapply (dec_struct_inv (fun x => scalars x = scalars c /\ default_tc x = default_tc c)); [|split; reflexivity|exact H].
        intros a b a' [Ha1 Ha2] Hs. apply step_cp_frame in Hs. destruct Hs as [Hs1 Hs2]. split; congruence. }
      destruct X as [X1 X2]. unfold scalars in X1. injection X1 as -> -> -> -> ->. rewrite X2.
      repeat split; reflexivity.
    - (* p4rtciface *)
      assert (X : scalars c' = scalars c).
      { eapply (dec_struct_inv (fun x => scalars x = scalars c)); [|reflexivity|exact H].
        intros a b a' Ha Hs. apply step_p4_frame in Hs. congruence. }
      unfold scalars in X. injection X as -> -> -> -> ->.
      repeat split; try reflexivity. discriminate.
    - (* plain member: type-checked only *)
      destruct (accepts ip_ok level_of t v); [injection H as <-|discriminate].
      repeat split; reflexivity.
  Qed.

  Lemma decode_absent (isF : topfld -> bool) {X} (proj : conf -> X) :
    (forall f v c c', apply_top f v c = Some c' -> isF f = false -> proj c' = proj c) ->
    forall kv c c', fold_opt step_top c kv = Some c' -> names isF kv = false -> proj c' = proj c.
  Proof.
    intros Hf. induction kv as [|[k v] kv IH]; intros c c' H Hn.
    - cbn in H. congruence.
    - unfold names in Hn. cbn [existsb fst] in Hn. apply orb_false_iff in Hn. destruct Hn as [Hk Hn].
      cbn [fold_opt] in H.
      destruct (step_top c (k, v)) as [c1|] eqn:Es; [|discriminate].
      rewrite (IH c1 c' H Hn).
      unfold Config.step_top in Es.
      destruct (lookup_name k top_schema) as [f|] eqn:E.
      + eapply Hf; eauto.
      + congruence.
  Qed.

  Theorem defaults_when_absent : forall kv c, load (JObj kv) = Ok c ->
    (names is_FRespTimeout kv = false -> resp_timeout c = "2s") /\
    (names is_FReadTimeout kv = false -> read_timeout c = 15%N) /\
    (names is_FMaxReqRetries kv = false -> max_req_retries c = 5%N) /\
    (names is_FHBInterval kv = false -> enable_hb c = true -> hb_interval c = "5s") /\
    (names is_FLogLevel kv = false -> log_level c = 0%Z) /\
    (names is_FP4rtciface kv = false -> default_tc c = 3%N).
  Proof.
    intros kv c H. apply load_ok_shape in H. destruct H as (raw & Hd & -> & _).
    unfold Config.decode, dec_struct in Hd.
    destruct (fill_frame raw) as (_ & _ & _ & Htc & _ & _ & _ & Hll & Hhb).
    rewrite fill_resp, fill_read, fill_retries, fill_hb, Htc, Hll, Hhb.
    repeat split; intros Hn.
    - rewrite (decode_absent is_FRespTimeout resp_timeout) with (c := init) (kv := kv); auto.
      intros f v a a' Ha. apply apply_top_frame in Ha. tauto.
    - rewrite (decode_absent is_FReadTimeout read_timeout) with (c := init) (kv := kv); auto.
      intros f v a a' Ha. apply apply_top_frame in Ha. tauto.
    - rewrite (decode_absent is_FMaxReqRetries max_req_retries) with (c := init) (kv := kv); auto.
      intros f v a a' Ha. apply apply_top_frame in Ha. tauto.
    - intros ->. rewrite (decode_absent is_FHBInterval hb_interval) with (c := init) (kv := kv); auto.
      intros f v a a' Ha. apply apply_top_frame in Ha. tauto.
    - rewrite (decode_absent is_FLogLevel log_level) with (c := init) (kv := kv); auto.
      intros f v a a' Ha. apply apply_top_frame in Ha. tauto.
    - rewrite (decode_absent is_FP4rtciface default_tc) with (c := init) (kv := kv); auto.
      intros f v a a' Ha. apply apply_top_frame in Ha. tauto.
  Qed.

  (* an explicit zero / empty value is replaced by the default as well *)
  Theorem defaults_exact : forall doc c, load doc = Ok c -> exists raw, decode doc = Some raw /\
    resp_timeout c = (if String.eqb (resp_timeout raw) "" then "2s" else resp_timeout raw) /\
    read_timeout c = (if (read_timeout raw =? 0)%N then 15%N else read_timeout raw) /\
    max_req_retries c = (if (max_req_retries raw =? 0)%N then 5%N else max_req_retries raw) /\
    hb_interval c = (if enable_hb raw then if String.eqb (hb_interval raw) "" then "5s" else hb_interval raw
                     else hb_interval raw) /\
    log_level c = log_level raw /\ default_tc c = default_tc raw.
  Proof.
    intros doc c H. apply load_ok_shape in H. destruct H as (raw & Hd & -> & _).
    exists raw. split; [exact Hd|].
    destruct (fill_frame raw) as (_ & _ & _ & Htc & _ & _ & _ & Hll & _).
    rewrite fill_resp, fill_read, fill_retries, fill_hb. repeat split; assumption || reflexivity.
  Qed.
End Proofs.
