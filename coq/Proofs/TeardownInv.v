(* C10 - the per-association invariant of Model/Teardown.v and the tactics that push it through one step *)
From Coq Require Import NArith String List Bool Arith Lia.
From UPF Require Import Base.LTS Model.Teardown.
Import ListNotations.
Open Scope list_scope.

(* ================================================================== tactics *)
Ltac break_match_hyp :=
  match goal with
  | H : context [match ?x with _ => _ end] |- _ =>
    let E := fresh "E" in destruct x eqn:E
  end.

Ltac inv_ok :=
  repeat (cbn in *; try discriminate;
          match goal with
          | H : Ok _ = Ok _ |- _ => injection H; clear H; intros; subst
          | H : Some _ = Some _ |- _ => injection H; clear H; intros; subst
          | H : Panic _ = Panic _ |- _ => injection H; clear H; intros; subst
          | H : (_, _) = (_, _) |- _ => injection H; clear H; intros; subst
          | H : context [nth_error _ ?n] |- _ => is_var n; destruct n
          | _ => break_match_hyp
          end).

Lemma remove_first_head x r : remove_first x (x :: r) = r.
Proof. cbn. rewrite N.eqb_refl. reflexivity. Qed.

(* ================================================================== the per-association invariant *)
(* where the thread that won the Once is inside doShutdown, and what is true of the data there *)
Definition Body (sess : list N) (a : assoc) (t : thr) : Prop :=
  match t_pc t with
  | 0 => a_del a = [] /\ a_store a = sess /\ cclosed (a_shut a) = false
  | 1 => a_del a = [] /\ a_store a = sess /\ cclosed (a_shut a) = true
  | 2 => a_del a = [] /\ a_store a = sess /\ cclosed (a_shut a) = true /\ cclosed (a_hbc a) = true
  | 3 => exists x r, t_it t = x :: r /\ a_store a = x :: r /\ a_del a ++ x :: r = sess /\ cclosed (a_shut a) = true
                     /\ cclosed (a_hbc a) = true
  | 4 => exists x r d, t_it t = x :: r /\ a_store a = x :: r /\ a_del a = d ++ [x] /\ d ++ x :: r = sess
                       /\ cclosed (a_shut a) = true /\ cclosed (a_hbc a) = true
  | 5 | 6 => a_del a = sess /\ a_store a = [] /\ cclosed (a_shut a) = true /\ cclosed (a_hbc a) = true
  | 7 => a_del a = sess /\ a_store a = [] /\ cclosed (a_shut a) = true /\ cclosed (a_hbc a) = true /\ a_sock a = true
  | _ => False
  end.

Definition code_len (r : role) : nat := List.length (code (home r)).

(* a thread executes doShutdown iff it is the one recorded by the Once; otherwise it is inside its own function *)
Definition fn_ok (a : assoc) (r : role) : Prop :=
  (t_fn (get_thr a r) = FDo /\ a_once a = ORun r)
  \/ (t_fn (get_thr a r) = home r /\ a_once a <> ORun r /\ t_pc (get_thr a r) < code_len r).

Definition Data (sess : list N) (a : assoc) : Prop :=
  match a_once a with
  | ONew => a_del a = [] /\ a_store a = sess /\ cclosed (a_shut a) = false
  | ORun r0 => is_assoc_role r0 = true /\ t_st (get_thr a r0) = TRunning /\ t_ret (get_thr a r0) < code_len r0
               /\ Body sess a (get_thr a r0)
  | ODone => a_del a = sess /\ a_store a = [] /\ cclosed (a_shut a) = true /\ cclosed (a_hbc a) = true /\ a_sock a = true
  end.

(* connTimeout holds at most the one value the reader sends before it returns *)
Definition tmo_ok (a : assoc) : Prop :=
  cclosed (a_tmo a) = false /\ ccap (a_tmo a) = 1
  /\ (cbuf (a_tmo a) = [] \/ (t_fn (a_rd a) = FReader /\ t_pc (a_rd a) = 3)).

Definition AInv (sess : list N) (a : assoc) : Prop :=
  fn_ok a RRd /\ fn_ok a RSel /\ fn_ok a RHb /\ fn_ok a RFst /\ Data sess a /\ tmo_ok a.

(* bookkeeping for "forgotten": what one step of an association thread does to pConnDone and pConns, and whether
   the association has reported its address (rep) *)
Definition at_pc (a : assoc) (r : role) (f : fname) (p : nat) : bool :=
  fname_eqb (t_fn (get_thr a r)) f && Nat.eqb (t_pc (get_thr a r)) p.
Definition rep (a : assoc) : bool :=
  match a_once a with ODone => true | ORun r0 => Nat.leb 6 (t_pc (get_thr a r0)) | ONew => false end.
Definition delta (me : N) (r : role) (a : assoc) (nd nd' : node) (a2 : assoc) : Prop :=
  cbuf (n_pcd nd') = (if at_pc a r FDo 5 then cbuf (n_pcd nd) ++ [me] else cbuf (n_pcd nd))
  /\ n_map nd' = (if at_pc a r FFirst 2 then me :: remove_all me (n_map nd) else n_map nd)
  /\ rep a2 = (rep a || at_pc a r FDo 5)
  /\ (t_st (a_fst a) = TFinished -> t_st (a_fst a2) = TFinished).

Ltac finish_inv :=
  unfold AInv, fn_ok, Data, Body, tmo_ok, code_len, delta, rep, at_pc in *; cbn in *;
  repeat match goal with
         | H : _ /\ _ |- _ => destruct H
         | H : exists _, _ |- _ => destruct H
         | H : _ :: _ = _ :: _ |- _ => injection H; clear H; intros
         end; subst;
  repeat match goal with H : t_st ?t = _ |- context [t_st ?t] => rewrite H end;
  repeat match goal with |- context [match ?d with DRelease => _ | DSetup => _ | DOther => _ end] => is_var d; destruct d end;
  repeat split;
  first [ assumption | reflexivity | discriminate | congruence | lia | tauto
        | (left; split; congruence) | (right; split; congruence)
        | (right; repeat split; first [congruence | lia]) | (left; repeat split; first [congruence | lia])
        | (rewrite ?orb_false_r, ?orb_true_r; reflexivity)
        | solve [intuition (try discriminate; try congruence)]
        | idtac ].

Ltac close_rest :=
  try rewrite remove_first_head;
  repeat match goal with |- context [is_nil ?s] => destruct s as [|? ?]; cbn end;
  try tauto; try reflexivity;
  try (eexists _, _; repeat split; eauto; fail);
  try (eexists _, _; rewrite <- app_assoc; cbn; repeat split; eauto; fail);
  try (eexists _, _, _; repeat split; eauto; fail).

(* the thread T (with fn_ok hypothesis HT) is inside doShutdown and takes a step *)
Ltac do_script T HT :=
  let rst := fresh "rst" in let rfn := fresh "rfn" in let rpc := fresh "rpc" in
  let rret := fresh "rret" in let rit := fresh "rit" in
  destruct T as [rst rfn rpc rret rit];
  unfold fn_ok in HT; cbn in HT;
  destruct HT as [[? _]|[_ [? _]]]; [subst rfn|congruence];
  match goal with Hd : Data _ _ |- _ => unfold Data in Hd; cbn in Hd; destruct Hd as [_ [? [? Hb]]]; unfold Body in Hb; cbn in Hb end;
  match goal with
  | H : thread_step _ _ _ _ _ _ = _ |- _ =>
    unfold thread_step in H; cbn in H; destruct rst; try discriminate H;
    do 8 (try destruct rpc as [|rpc]); try (exfalso; assumption); cbn in H;
    unfold ch_close, ch_send, ch_cancel in H;
    inv_ok; finish_inv; close_rest
  end.

(* the thread T runs its own function *)
Ltac home_script T HT :=
  let rst := fresh "rst" in let rfn := fresh "rfn" in let rpc := fresh "rpc" in
  let rret := fresh "rret" in let rit := fresh "rit" in
  destruct T as [rst rfn rpc rret rit];
  unfold fn_ok in HT; cbn in HT;
  destruct HT as [[_ ?]|[? [_ ?]]]; [congruence|subst rfn];
  match goal with
  | H : thread_step _ _ _ _ _ _ = _ |- _ =>
    unfold thread_step in H; cbn in H; destruct rst; try discriminate H;
    do 6 (try destruct rpc as [|rpc]); cbn in H; try discriminate H;
    unfold ch_close, ch_send, ch_cancel, ch_recv in H;
    inv_ok; finish_inv
  end.


(* what a step of an association thread may change in the node: the pConnDone buffer, the connection map and
   the accept-loop flag - never a closed flag, the context, the node's own threads *)
Definition node_frame (nd nd' : node) : Prop :=
  (cbuf (n_ctx nd) = [] -> n_ctx nd' = n_ctx nd) /\ n_done nd' = n_done nd /\ n_thr nd' = n_thr nd /\ n_stop nd' = n_stop nd
  /\ n_main nd' = n_main nd /\ n_exit nd' = n_exit nd /\ n_lsock nd' = n_lsock nd
  /\ cclosed (n_pcd nd') = cclosed (n_pcd nd) /\ ccap (n_pcd nd') = ccap (n_pcd nd).

(* any thread T of the association, result Panic: only the send on a closed pConnDone survives *)
Ltac panic_script T HT :=
  let rst := fresh "rst" in let rfn := fresh "rfn" in let rpc := fresh "rpc" in
  let rret := fresh "rret" in let rit := fresh "rit" in
  destruct T as [rst rfn rpc rret rit];
  unfold fn_ok in HT; cbn in HT;
  destruct HT as [[? ?]|[? [? ?]]]; subst;
  match goal with
  | H : thread_step _ _ _ _ _ _ = _ |- _ =>
    unfold thread_step in H; cbn in H; destruct rst; try discriminate H;
    do 8 (try destruct rpc as [|rpc]); cbn in H; try discriminate H;
    unfold ch_close, ch_send, ch_cancel, ch_recv in H;
    inv_ok; finish_inv
  end.
